/-
  C05 helper lemmas, seventh wave: from the view `get_dwarf_info` delivers (C11) to the `DWARFInfo` of
  Proofs/LineInfo.lean.  When the file's content holds, per keyword, the encoded sections of a forest and a
  `.debug_line` description, the `DWARFInfo` built from the view is — up to `.debug_types`, which the line-program
  code never looks at — C04's `forestDInfo` with Proofs/LineInfo's `lineWorld`.
-/
import PyElf.Model.LineFile
import PyElf.Proofs.LineInfo
import PyElf.Proofs.Container
namespace PyElf.Proofs.LineInfo
open PyElf PyElf.Spec PyElf.Spec.LineSec PyElf.Model.LineInfo
open PyElf.Spec.C04 (Forest infoSec encTables)
open PyElf.Model.C11 (View SecView)
open PyElf.Proofs.C11 (Content contentView)
open PyElf.Props.C04 (forestDInfo genBundles)

/-- the stream the `DWARFInfo` holds under a keyword of the reader's table is the content's payload -/
theorem viewSec_contentView (content : Content) (k : String) :
    ∀ (names : List (String × Bytes × Bool)), k ∈ names.map (·.1) →
      viewSec (contentView names content) k = (content k).map (·.1) := by
  intro names
  induction names with
  | nil => intro h; simp at h
  | cons kn rest ih =>
    intro h
    by_cases e : kn.1 = k
    · subst e
      simp only [viewSec, contentView, List.map_cons, List.find?_cons, beq_self_eq_true]
      cases content kn.1 <;> rfl
    · have hk : k ∈ rest.map (·.1) := by
        simp only [List.map_cons, List.mem_cons] at h
        rcases h with h | h
        · exact absurd h.symm e
        · exact h
      have hb : (kn.1 == k) = false := by simpa using e
      have := ih hk
      simp only [viewSec, contentView, List.map_cons, List.find?_cons, hb] at this ⊢
      exact this

/-- the keywords the line-program path reads -/
def lineKeys : List String :=
  ["debug_info_sec", "debug_abbrev_sec", "debug_types_sec", "debug_str_sec", "debug_line_str_sec", "debug_addr_sec",
   "debug_str_offsets_sec", "debug_loclists_sec", "debug_rnglists_sec", "debug_line_sec"]

/-- `.debug_types` is none of the line-program code's business -/
theorem infoLinePrograms_types (w : Model.C04.DInfo) (t : Option Bytes) (S0 : DwarfStructs) (W : LineWorld) :
    infoLinePrograms { w with types := t } S0 W = infoLinePrograms w S0 W := rfl

/-- the content of a file, per keyword, is the encoding of the forest `F` and of the `.debug_line` description -/
structure ContentIs (content : Content) (F : Forest) (L : List LineUnitDesc) (tail : Bytes) : Prop where
  info : (content "debug_info_sec").map (·.1) = some (infoSec F)
  abbr : (content "debug_abbrev_sec").map (·.1) = some (encTables F.tables)
  line : (content "debug_line_sec").map (·.1) = some (encLineSec L tail)
  str : (content "debug_str_sec").map (·.1) = F.secs.str
  lineStr : (content "debug_line_str_sec").map (·.1) = F.secs.lineStr
  addr : (content "debug_addr_sec").map (·.1) = F.secs.addr
  strOffsets : (content "debug_str_offsets_sec").map (·.1) = F.secs.strOffsets
  loclists : (content "debug_loclists_sec").map (·.1) = F.secs.loclists
  rnglists : (content "debug_rnglists_sec").map (·.1) = F.secs.rnglists

theorem viewLinePrograms_content (names : List (String × Bytes × Bool)) (hnames : ∀ k ∈ lineKeys, k ∈ names.map (·.1))
    (content : Content) (F : Forest) (L : List LineUnitDesc) (tail : Bytes) (hc : ContentIs content F L tail)
    (dasz : Nat) (hdasz : dasz = 4 ∨ dasz = 8) (arch : String) :
    viewLinePrograms (.mk F.le dasz arch (contentView names content) none)
      = infoLinePrograms (forestDInfo F dasz) (genBundles F.le dasz).S0 (lineWorld L tail none) := by
  have hk : ∀ k ∈ lineKeys, viewSec (contentView names content) k = (content k).map (·.1) :=
    fun k h => viewSec_contentView content k names (hnames k h)
  unfold viewLinePrograms dinfoOfView
  simp only [hk _ (by decide : "debug_info_sec" ∈ lineKeys), hk _ (by decide : "debug_abbrev_sec" ∈ lineKeys),
    hk _ (by decide : "debug_types_sec" ∈ lineKeys), hk _ (by decide : "debug_str_sec" ∈ lineKeys),
    hk _ (by decide : "debug_line_str_sec" ∈ lineKeys), hk _ (by decide : "debug_addr_sec" ∈ lineKeys),
    hk _ (by decide : "debug_str_offsets_sec" ∈ lineKeys), hk _ (by decide : "debug_loclists_sec" ∈ lineKeys),
    hk _ (by decide : "debug_rnglists_sec" ∈ lineKeys), hk _ (by decide : "debug_line_sec" ∈ lineKeys),
    hc.info, hc.abbr, hc.line, hc.str, hc.lineStr, hc.addr, hc.strOffsets, hc.loclists, hc.rnglists]
  have hS0 : Model.dwarfStructsFor ⟨F.le, 32, dasz, 2⟩ = some (genBundles F.le dasz).S0 :=
    Props.C04.genBundles_S0 F.le dasz hdasz
  show (match Model.dwarfStructsFor ⟨F.le, 32, dasz, 2⟩ with
        | some S0 => infoLinePrograms _ S0 _
        | none => _) = _
  rw [hS0]
  exact infoLinePrograms_types (forestDInfo F dasz) _ _ _

end PyElf.Proofs.LineInfo
