/-
  Helper lemmas for C16 (bit arithmetic of LEB128, little/big-endian codecs,
  list slicing).  Property statements live in Props/C16.lean.
-/
import PyElf.Core.Construct
import PyElf.Spec.Primitives
import PyElf.Model.Utils
namespace PyElf.Proofs
open PyElf PyElf.Spec PyElf.Model


theorem and_7F (n : Nat) : n &&& 0x7F = n % 128 := by
  have := Nat.and_two_pow_sub_one_eq_mod n 7
  simpa using this

set_option maxRecDepth 100000 in
theorem and_80_aux : ∀ n < 256, (n &&& 0x80 = 0) = (n < 128) := by decide
set_option maxRecDepth 100000 in
theorem and_40_aux : ∀ n < 128, (n &&& 0x40 ≠ 0) = (n % 128 ≥ 64) := by decide

theorem and_80 (b : UInt8) : (b.toNat &&& 0x80 = 0) ↔ b.toNat < 128 := by
  rw [and_80_aux _ b.toNat_lt]

theorem or_shl_eq_add {value shift : Nat} (x : Nat) (h : value < 2 ^ shift) :
    value ||| (x <<< shift) = value + x * 2 ^ shift := by
  rw [Nat.or_comm, ← Nat.shiftLeft_add_eq_or_of_lt h, Nat.shiftLeft_eq, Nat.add_comm]

theorem drop_cons_inv {α} {l : List α} {n : Nat} {b : α} {t : List α} (h : l.drop n = b :: t) :
    l[n]? = some b ∧ l.drop (n + 1) = t := by
  constructor
  · have := List.getElem?_drop (xs := l) (i := n) (j := 0)
    simpa [h] using this.symm
  · have : l.drop (n + 1) = (l.drop n).drop 1 := by simp [List.drop_drop]
    rw [this, h]; rfl

theorem drop_nil_inv {α} {l : List α} {n : Nat} (h : l.drop n = []) : l[n]? = none := by
  have := List.getElem?_drop (xs := l) (i := n) (j := 0)
  simpa [h] using this.symm

theorem ulebVal_lt (bs : Bytes) : ulebVal bs < 2 ^ (7 * bs.length) := by
  induction bs with
  | nil => simp [ulebVal]
  | cons b bs ih =>
    simp only [ulebVal, List.length_cons]
    have : 2 ^ (7 * (bs.length + 1)) = 128 * 2 ^ (7 * bs.length) := by
      rw [Nat.mul_add, Nat.pow_add]; simp [Nat.mul_comm]
    omega

theorem ulebLoop_valid (data rest : Bytes) (bs : Bytes) (h : ValidLEB bs = true) :
    ∀ fuel pos value shift, bs.length ≤ fuel → data.drop pos = bs ++ rest → value < 2 ^ shift →
      ulebLoop data fuel pos value shift = .ok (value + ulebVal bs * 2 ^ shift, pos + bs.length) := by
  induction bs with
  | nil => simp [ValidLEB] at h
  | cons b bs ih =>
    intro fuel pos value shift hf hd hv
    obtain ⟨hb, hd'⟩ := drop_cons_inv (by simpa using hd)
    cases fuel with
    | zero => simp at hf
    | succ fuel =>
      rw [ulebLoop, hb]
      simp only [and_7F, or_shl_eq_add _ hv, and_80_aux _ b.toNat_lt]
      cases bs with
      | nil =>
        simp [ValidLEB] at h
        simp [h, ulebVal]
      | cons b' bs' =>
        simp [ValidLEB] at h
        have hnot : ¬ b.toNat < 128 := by omega
        rw [if_neg hnot]
        have hv' : value + b.toNat % 128 * 2 ^ shift < 2 ^ (shift + 7) := by
          rw [Nat.pow_add]
          have : b.toNat % 128 < 128 := Nat.mod_lt _ (by decide)
          generalize 2 ^ shift = P at *
          have : b.toNat % 128 * P ≤ 127 * P := Nat.mul_le_mul_right _ (by omega)
          omega
        rw [ih h.2 fuel (pos + 1) _ (shift + 7) (by simpa using hf) hd' hv']
        simp only [ulebVal, List.length_cons, Nat.pow_add]
        congr 2
        · generalize ulebVal (b' :: bs') = U
          generalize 2 ^ shift = P
          grind
        · omega

theorem ulebLoop_trunc (data bs : Bytes) (h : ∀ b ∈ bs, 128 ≤ b.toNat) :
    ∀ fuel pos value shift, data.drop pos = bs →
      ulebLoop data fuel pos value shift = .error .elfParseError := by
  induction bs with
  | nil =>
    intro fuel pos value shift hd
    cases fuel with
    | zero => rfl
    | succ fuel => rw [ulebLoop, drop_nil_inv hd]
  | cons b bs ih =>
    intro fuel pos value shift hd
    cases fuel with
    | zero => rfl
    | succ fuel =>
      obtain ⟨hb, hd'⟩ := drop_cons_inv hd
      have hb128 : ¬ b.toNat < 128 := by have := h b (by simp); omega
      rw [ulebLoop, hb]
      simp only [and_80_aux _ b.toNat_lt, if_neg hb128]
      exact ih (fun x hx => h x (by simp [hx])) _ _ _ _ hd'

theorem ValidLEB_cons_of_ne_nil (b : UInt8) {bs : Bytes} (h : bs ≠ []) :
    ValidLEB (b :: bs) = (decide (128 ≤ b.toNat) && ValidLEB bs) := by
  cases bs with
  | nil => exact absurd rfl h
  | cons b' bs' => simp [ValidLEB]

theorem encUlebN_length (n v : Nat) : (encUlebN n v).length = n := by
  fun_induction encUlebN n v <;> simp_all

theorem encUlebN_valid (n v : Nat) (hn : 1 ≤ n) : ValidLEB (encUlebN n v) = true := by
  fun_induction encUlebN n v with
  | case1 => omega
  | case2 v =>
    have : v % 128 < 128 := Nat.mod_lt _ (by decide)
    simp [ValidLEB, UInt8.toNat_ofNat']; omega
  | case3 n v ih =>
    have hne : encUlebN (n + 1) (v / 128) ≠ [] := by
      intro h; have := encUlebN_length (n + 1) (v / 128); simp [h] at this
    rw [ValidLEB_cons_of_ne_nil _ hne, ih (by omega)]
    have : v % 128 < 128 := Nat.mod_lt _ (by decide)
    simp [UInt8.toNat_ofNat']; omega

theorem ulebVal_enc (n v : Nat) : ulebVal (encUlebN n v) = v % 2 ^ (7 * n) := by
  fun_induction encUlebN n v with
  | case1 => simp [ulebVal, Nat.mod_one]
  | case2 v =>
    have : v % 128 < 128 := Nat.mod_lt _ (by decide)
    simp [ulebVal, UInt8.toNat_ofNat']
  | case3 n v ih =>
    have : v % 128 < 128 := Nat.mod_lt _ (by decide)
    have e : 2 ^ (7 * (n + 2)) = 128 * 2 ^ (7 * (n + 1)) := by
      rw [show 7 * (n + 2) = 7 + 7 * (n + 1) by omega, Nat.pow_add]
    rw [ulebVal, ih, e, Nat.mod_mul, UInt8.toNat_ofNat']
    omega

theorem encUlebN_getLast? (n v : Nat) :
    (encUlebN (n + 1) v).getLast? = some (UInt8.ofNat (v / 128 ^ n % 128)) := by
  induction n generalizing v with
  | zero => simp [encUlebN]
  | succ n ih =>
    have hne : encUlebN (n + 1) (v / 128) ≠ [] := by
      intro h; have := encUlebN_length (n + 1) (v / 128); simp [h] at this
    rw [encUlebN, List.getLast?_cons_of_ne_nil hne, ih, Nat.div_div_eq_div_mul, Nat.pow_succ']
    all_goals omega

theorem shl_inv_zero (s : Nat) : PyInt.shl (PyInt.inv 0) s = Int.negSucc (2 ^ s - 1) := by
  have := Nat.two_pow_pos s
  simp only [PyInt.shl, PyInt.inv, Int.negSucc_eq]
  omega

theorem natAndNot_mask {s value : Nat} (h : value < 2 ^ s) :
    PyInt.natAndNot (2 ^ s - 1) value = 2 ^ s - 1 - value := by
  unfold PyInt.natAndNot
  rw [Nat.and_comm, Nat.and_two_pow_sub_one_eq_mod, Nat.mod_eq_of_lt h]
  apply Nat.eq_of_testBit_eq; intro i
  rw [show 2 ^ s - 1 - value = 2 ^ s - (value + 1) by omega, Nat.testBit_two_pow_sub_succ h,
    Nat.testBit_xor, Nat.testBit_two_pow_sub_one]
  by_cases hi : i < s
  · simp [hi]
  · have : value < 2 ^ i := Nat.lt_of_lt_of_le h (Nat.pow_le_pow_right (by decide) (by omega))
    simp [hi, Nat.testBit_lt_two_pow this]

theorem lor_sign_extend {s value : Nat} (h : value < 2 ^ s) :
    PyInt.lor (Int.ofNat value) (PyInt.shl (PyInt.inv 0) s) = (value : Int) - ((2 ^ s : Nat) : Int) := by
  rw [shl_inv_zero]
  show Int.negSucc (PyInt.natAndNot (2 ^ s - 1) value) = _
  rw [natAndNot_mask h, Int.negSucc_eq]
  omega

theorem uleb_step_lt {value shift : Nat} (b : UInt8) (hv : value < 2 ^ shift) :
    value + b.toNat % 128 * 2 ^ shift < 2 ^ (shift + 7) := by
  rw [Nat.pow_add]
  have : b.toNat % 128 < 128 := Nat.mod_lt _ (by decide)
  generalize 2 ^ shift = P at *
  have : b.toNat % 128 * P ≤ 127 * P := Nat.mul_le_mul_right _ (by omega)
  omega

theorem slebLoop_valid (data rest : Bytes) (bs : Bytes) (h : ValidLEB bs = true) :
    ∀ fuel pos value shift l, bs.length ≤ fuel → data.drop pos = bs ++ rest → value < 2 ^ shift →
      bs.getLast? = some l →
      slebLoop data fuel pos value shift =
        .ok (if l.toNat % 128 ≥ 64 then
               ((value + ulebVal bs * 2 ^ shift : Nat) : Int) - ((2 ^ (shift + 7 * bs.length) : Nat) : Int)
             else ((value + ulebVal bs * 2 ^ shift : Nat) : Int), pos + bs.length) := by
  induction bs with
  | nil => simp [ValidLEB] at h
  | cons b bs ih =>
    intro fuel pos value shift l hf hd hv hl
    obtain ⟨hb, hd'⟩ := drop_cons_inv (by simpa using hd)
    have hv' := uleb_step_lt b hv
    cases fuel with
    | zero => simp at hf
    | succ fuel =>
      rw [slebLoop, hb]
      simp only [and_7F, or_shl_eq_add _ hv, and_80_aux _ b.toNat_lt]
      cases bs with
      | nil =>
        simp [ValidLEB] at h
        simp at hl
        subst hl
        simp only [h, if_true, and_40_aux _ h, lor_sign_extend hv']
        simp [ulebVal]
        split <;> rfl
      | cons b' bs' =>
        simp [ValidLEB] at h
        have hnot : ¬ b.toNat < 128 := by omega
        rw [if_neg hnot]
        rw [ih h.2 fuel (pos + 1) _ (shift + 7) l (by simpa using hf) hd' hv' (by simpa using hl)]
        have e1 : value + b.toNat % 128 * 2 ^ shift + ulebVal (b' :: bs') * 2 ^ (shift + 7)
            = value + ulebVal (b :: b' :: bs') * 2 ^ shift := by
          simp only [ulebVal, Nat.pow_add]
          generalize ulebVal bs' = U
          generalize 2 ^ shift = P
          grind
        have e2 : shift + 7 + 7 * (b' :: bs').length = shift + 7 * (b :: b' :: bs').length := by
          simp only [List.length_cons]; omega
        have e3 : pos + 1 + (b' :: bs').length = pos + (b :: b' :: bs').length := by
          simp only [List.length_cons]; omega
        rw [e1, e2, e3]

theorem slebLoop_trunc (data bs : Bytes) (h : ∀ b ∈ bs, 128 ≤ b.toNat) :
    ∀ fuel pos value shift, data.drop pos = bs →
      slebLoop data fuel pos value shift = .error .elfParseError := by
  induction bs with
  | nil =>
    intro fuel pos value shift hd
    cases fuel with
    | zero => rfl
    | succ fuel => rw [slebLoop, drop_nil_inv hd]
  | cons b bs ih =>
    intro fuel pos value shift hd
    cases fuel with
    | zero => rfl
    | succ fuel =>
      obtain ⟨hb, hd'⟩ := drop_cons_inv hd
      have hb128 : ¬ b.toNat < 128 := by have := h b (by simp); omega
      rw [slebLoop, hb]
      simp only [and_80_aux _ b.toNat_lt, if_neg hb128]
      exact ih (fun x hx => h x (by simp [hx])) _ _ _ _ hd'

/-- two's complement: the unsigned representative of `v` in `2*H` -/
theorem emod_two_mul {H : Nat} {v : Int} (hlo : -(H : Int) ≤ v) (hhi : v < (H : Int)) :
    (v % ((2 * H : Nat) : Int)).toNat = if 0 ≤ v then v.toNat else (v + (2 * H : Nat)).toNat := by
  split
  · rw [Int.emod_eq_of_lt (by omega) (by omega)]
  · rw [← Int.add_emod_right, Int.emod_eq_of_lt (by omega) (by omega)]

theorem slebVal_enc (n : Nat) (v : Int) (hn : 1 ≤ n)
    (hlo : -((2 ^ (7 * n - 1) : Nat) : Int) ≤ v) (hhi : v < ((2 ^ (7 * n - 1) : Nat) : Int)) :
    slebVal (encSlebN n v) = v := by
  obtain ⟨m, rfl⟩ : ∃ m, n = m + 1 := ⟨n - 1, by omega⟩
  have eH : 2 ^ (7 * (m + 1) - 1) = 64 * 128 ^ m := by
    rw [show 7 * (m + 1) - 1 = 6 + 7 * m by omega, Nat.pow_add, Nat.pow_mul]
  have eM : 2 ^ (7 * (m + 1)) = 2 * (64 * 128 ^ m) := by
    rw [show 7 * (m + 1) = 7 + 7 * m by omega, Nat.pow_add, Nat.pow_mul, show (2:Nat) ^ 7 = 128 from rfl]
    omega
  rw [eH] at hlo hhi
  have hpos : 0 < 128 ^ m := Nat.pow_pos (by decide)
  unfold slebVal encSlebN
  rw [encUlebN_getLast?, ulebVal_enc, encUlebN_length]
  have key : ∀ x : Nat, x % 128 % 2 ^ 8 % 128 = x % 128 := by intro x; omega
  simp only [UInt8.toNat_ofNat', key]
  rw [eM, emod_two_mul hlo hhi]
  generalize 128 ^ m = Q at *
  split
  · rename_i hv
    have hw : v.toNat < 64 * Q := by omega
    have hd : v.toNat / Q < 64 := (Nat.div_lt_iff_lt_mul hpos).2 hw
    rw [Nat.mod_eq_of_lt (show v.toNat < 2 * (64 * Q) by omega)]
    rw [Nat.mod_eq_of_lt (show v.toNat / Q < 128 by omega), if_neg (by omega)]
    omega
  · rename_i hv
    have hw1 : 64 * Q ≤ (v + ((2 * (64 * Q) : Nat) : Int)).toNat := by omega
    have hw2 : (v + ((2 * (64 * Q) : Nat) : Int)).toNat < 2 * (64 * Q) := by omega
    have hvw : v = (((v + ((2 * (64 * Q) : Nat) : Int)).toNat : Nat) : Int) - ((2 * (64 * Q) : Nat) : Int) := by omega
    generalize (v + ((2 * (64 * Q) : Nat) : Int)).toNat = w at *
    have hd1 : 64 ≤ w / Q := (Nat.le_div_iff_mul_le hpos).2 hw1
    have hd2 : w / Q < 128 := (Nat.div_lt_iff_lt_mul hpos).2 (by omega)
    rw [Nat.mod_eq_of_lt hw2, Nat.mod_eq_of_lt hd2, if_pos hd1]
    omega

theorem drop_pre {α} (pre bs rest : List α) : (pre ++ bs ++ rest).drop pre.length = bs ++ rest := by
  simp [List.append_assoc]

theorem drop_pre' {α} (pre bs : List α) : (pre ++ bs).drop pre.length = bs := by simp

theorem length_of_drop {α} {data : List α} {pos : Nat} {l : List α} (h : data.drop pos = l) :
    data.length - pos = l.length := by
  rw [← h, List.length_drop]

theorem readExact_ok {data : Bytes} {pos n : Nat} {bs rest : Bytes}
    (h : data.drop pos = bs ++ rest) (hn : bs.length = n) : readExact data pos n = .ok bs := by
  subst hn
  simp [readExact, readN, h]

theorem readExact_short {data : Bytes} {pos n : Nat} {bs : Bytes}
    (h : data.drop pos = bs) (hn : bs.length < n) : readExact data pos n = .error .elfParseError := by
  have : min n bs.length ≠ n := by omega
  simp [readExact, readN, h, this]

theorem parseUleb_valid {data : Bytes} {pos : Nat} {bs rest : Bytes}
    (hd : data.drop pos = bs ++ rest) (h : ValidLEB bs = true) :
    parseUleb data pos = .ok (ulebVal bs, pos + bs.length) := by
  have hl := length_of_drop hd
  have := ulebLoop_valid data rest bs h (data.length - pos + 1) pos 0 0
    (by simp at hl; omega) hd (by simp)
  simpa [parseUleb] using this

theorem parseUleb_trunc {data : Bytes} {pos : Nat} {bs : Bytes}
    (hd : data.drop pos = bs) (h : ∀ b ∈ bs, 128 ≤ b.toNat) :
    parseUleb data pos = .error .elfParseError :=
  ulebLoop_trunc data bs h _ _ _ _ hd

theorem parseSleb_valid {data : Bytes} {pos : Nat} {bs rest : Bytes}
    (hd : data.drop pos = bs ++ rest) (h : ValidLEB bs = true) :
    parseSleb data pos = .ok (slebVal bs, pos + bs.length) := by
  have hl := length_of_drop hd
  cases hlast : bs.getLast? with
  | none =>
    have : bs = [] := by simpa using hlast
    subst this; simp [ValidLEB] at h
  | some l =>
    have := slebLoop_valid data rest bs h (data.length - pos + 1) pos 0 0 l
      (by simp at hl; omega) hd (by simp) hlast
    simp only [parseSleb, this, slebVal, hlast]
    simp

theorem parseSleb_trunc {data : Bytes} {pos : Nat} {bs : Bytes}
    (hd : data.drop pos = bs) (h : ∀ b ∈ bs, 128 ≤ b.toNat) :
    parseSleb data pos = .error .elfParseError :=
  slebLoop_trunc data bs h _ _ _ _ hd

theorem encSlebN_length (n : Nat) (v : Int) : (encSlebN n v).length = n := encUlebN_length _ _
theorem encSlebN_valid (n : Nat) (v : Int) (hn : 1 ≤ n) : ValidLEB (encSlebN n v) = true :=
  encUlebN_valid _ _ hn

/-! ### fixed-width codecs -/

theorem natLE_length (n v : Nat) : (natLE n v).length = n := by
  induction n generalizing v with
  | zero => rfl
  | succ n ih => simp [natLE, ih]

theorem leNat_natLE (n v : Nat) : leNat (natLE n v) = v % 256 ^ n := by
  induction n generalizing v with
  | zero => simp [natLE, leNat, Nat.mod_one]
  | succ n ih =>
    rw [natLE, leNat, ih, Nat.pow_succ', Nat.mod_mul, UInt8.toNat_ofNat']
    omega

theorem encNat_length (le : Bool) (n v : Nat) : (encNat le n v).length = n := by
  cases le <;> simp [encNat, natBE, natLE_length]

theorem decNat_encNat (le : Bool) (n v : Nat) : decNat le (encNat le n v) = v % 256 ^ n := by
  cases le <;> simp [decNat, encNat, natBE, beNat, leNat_natLE]

theorem decNat_encNat_of_lt (le : Bool) {n v : Nat} (h : v < 256 ^ n) :
    decNat le (encNat le n v) = v := by
  rw [decNat_encNat, Nat.mod_eq_of_lt h]

theorem decNat_singleton (le : Bool) (b : UInt8) : decNat le [b] = b.toNat := by
  cases le <;> simp [decNat, beNat, leNat]

theorem ofSigned_lt (bits : Nat) (v : Int) : ofSigned bits v < 2 ^ bits := by
  unfold ofSigned
  have hp : 0 < 2 ^ bits := Nat.two_pow_pos bits
  have h1 := Int.emod_nonneg v (b := ((2 ^ bits : Nat) : Int)) (by omega)
  have h2 := Int.emod_lt_of_pos v (b := ((2 ^ bits : Nat) : Int)) (by omega)
  omega

theorem toSigned_ofSigned (bits : Nat) (v : Int) (hb : 1 ≤ bits)
    (hlo : -((2 ^ (bits - 1) : Nat) : Int) ≤ v) (hhi : v < ((2 ^ (bits - 1) : Nat) : Int)) :
    toSigned bits (ofSigned bits v) = v := by
  have e : 2 ^ bits = 2 * 2 ^ (bits - 1) := by
    rw [← Nat.pow_succ']; congr 1; omega
  unfold toSigned ofSigned
  rw [e, emod_two_mul hlo hhi]
  generalize 2 ^ (bits - 1) = H at *
  split <;> split <;> omega

theorem drop_add_of_drop {α} {data : List α} {pos : Nat} {a b : List α} (h : data.drop pos = a ++ b) :
    data.drop (pos + a.length) = b := by
  rw [← List.drop_drop, h]; simp

/-! ### `Con.parse` on primitive constructs -/

theorem parse_uint_ok {env : Env} {data : Bytes} {pos n : Nat} {le : Bool} {ctx : Fields}
    {bs rest : Bytes} (hd : data.drop pos = bs ++ rest) (hn : bs.length = n) :
    Con.parse env data (.uint n le) ctx pos = .ok (.int (decNat le bs), pos + n, ctx) := by
  rw [Con.parse, readExact_ok hd hn]; rfl

theorem parse_uint_short {env : Env} {data : Bytes} {pos n : Nat} {le : Bool} {ctx : Fields}
    {bs : Bytes} (hd : data.drop pos = bs) (hn : bs.length < n) :
    Con.parse env data (.uint n le) ctx pos = .error .elfParseError := by
  rw [Con.parse, readExact_short hd hn]; rfl

theorem parse_sint_ok {env : Env} {data : Bytes} {pos n : Nat} {le : Bool} {ctx : Fields}
    {bs rest : Bytes} (hd : data.drop pos = bs ++ rest) (hn : bs.length = n) :
    Con.parse env data (.sint n le) ctx pos
      = .ok (.int (toSigned (8 * n) (decNat le bs)), pos + n, ctx) := by
  rw [Con.parse, readExact_ok hd hn]; rfl

theorem parse_sint_short {env : Env} {data : Bytes} {pos n : Nat} {le : Bool} {ctx : Fields}
    {bs : Bytes} (hd : data.drop pos = bs) (hn : bs.length < n) :
    Con.parse env data (.sint n le) ctx pos = .error .elfParseError := by
  rw [Con.parse, readExact_short hd hn]; rfl

theorem parse_u24_short {env : Env} {data : Bytes} {pos : Nat} {le : Bool} {ctx : Fields}
    {bs : Bytes} (hd : data.drop pos = bs) (hn : bs.length < 3) :
    Con.parse env data (.u24 le) ctx pos = .error .elfParseError := by
  rw [Con.parse, readExact_short hd hn]; rfl

theorem u24_arith (v : Nat) (hv : v < 2 ^ 24) :
    (v % 256 + 256 * (v / 256 % 256)) ||| ((v / 256 / 256 % 256) <<< 16) = v := by
  rw [or_shl_eq_add _ (by omega)]; omega

theorem parse_u24_ok {env : Env} {data : Bytes} {pos : Nat} {le : Bool} {ctx : Fields}
    {v : Nat} {rest : Bytes} (hv : v < 2 ^ 24) (hd : data.drop pos = encNat le 3 v ++ rest) :
    Con.parse env data (.u24 le) ctx pos = .ok (.int (v : Int), pos + 3, ctx) := by
  rw [Con.parse, readExact_ok hd (encNat_length le 3 v)]
  have := u24_arith v hv
  cases le <;>
    simp [encNat, natBE, natLE, leNat, beNat, UInt8.toNat_ofNat', bind, Except.bind, pure, Except.pure]
  all_goals rw [this]


theorem parse_uleb_ok {env : Env} {data : Bytes} {pos : Nat} {ctx : Fields} {bs rest : Bytes}
    (hd : data.drop pos = bs ++ rest) (h : ValidLEB bs = true) :
    Con.parse env data .uleb ctx pos = .ok (.int (ulebVal bs), pos + bs.length, ctx) := by
  rw [Con.parse, parseUleb_valid hd h]; rfl

/-! ### NUL-terminated strings -/

theorem cstringLoop_ok (data rest s : Bytes) (hs : ∀ b ∈ s, b ≠ 0) :
    ∀ fuel pos acc, s.length + 1 ≤ fuel → data.drop pos = s ++ 0 :: rest →
      cstringLoop data fuel pos acc = .ok (acc.reverse ++ s, pos + s.length + 1) := by
  induction s with
  | nil =>
    intro fuel pos acc hf hd
    obtain ⟨hb, -⟩ := drop_cons_inv (by simpa using hd)
    cases fuel with
    | zero => simp at hf
    | succ fuel => rw [cstringLoop, hb]; simp
  | cons b s ih =>
    intro fuel pos acc hf hd
    obtain ⟨hb, hd'⟩ := drop_cons_inv (by simpa using hd)
    cases fuel with
    | zero => simp at hf
    | succ fuel =>
      rw [cstringLoop, hb]
      simp only [if_neg (hs b (by simp))]
      rw [ih (fun x hx => hs x (by simp [hx])) fuel (pos + 1) (b :: acc) (by simpa using hf) hd']
      simp; omega

theorem cstringLoop_unterminated (data s : Bytes) (hs : ∀ b ∈ s, b ≠ 0) :
    ∀ fuel pos acc, data.drop pos = s →
      cstringLoop data fuel pos acc = .error .elfParseError := by
  induction s with
  | nil =>
    intro fuel pos acc hd
    cases fuel with
    | zero => rfl
    | succ fuel => rw [cstringLoop, drop_nil_inv hd]
  | cons b s ih =>
    intro fuel pos acc hd
    obtain ⟨hb, hd'⟩ := drop_cons_inv hd
    cases fuel with
    | zero => rfl
    | succ fuel =>
      rw [cstringLoop, hb]
      simp only [if_neg (hs b (by simp))]
      exact ih (fun x hx => hs x (by simp [hx])) fuel (pos + 1) (b :: acc) hd'

theorem parseCString_ok {data : Bytes} {pos : Nat} {s rest : Bytes} (hs : ∀ b ∈ s, b ≠ 0)
    (hd : data.drop pos = s ++ [0] ++ rest) :
    parseCString data pos = .ok (s, pos + s.length + 1) := by
  have hd' : data.drop pos = s ++ 0 :: rest := by simpa using hd
  have hl := length_of_drop hd'
  have := cstringLoop_ok data rest s hs (data.length - pos + 1) pos [] (by simp at hl; omega) hd'
  simpa [parseCString] using this

theorem parseCString_unterminated {data : Bytes} {pos : Nat} {s : Bytes} (hs : ∀ b ∈ s, b ≠ 0)
    (hd : data.drop pos = s) : parseCString data pos = .error .elfParseError :=
  cstringLoop_unterminated data s hs _ _ _ hd

theorem firstNul_append_of_no_nul (c r : Bytes) (h : (0 : UInt8) ∉ c) :
    firstNul (c ++ r) = (firstNul r).map (c ++ ·) := by
  induction c with
  | nil => simp
  | cons b c ih =>
    have hb : b ≠ 0 := by intro e; exact h (by simp [e])
    have hc : (0 : UInt8) ∉ c := by intro e; exact h (by simp [e])
    simp [firstNul, hb, ih hc, Option.map_map, Function.comp_def]

theorem firstNul_of_no_nul (c : Bytes) (h : (0 : UInt8) ∉ c) : firstNul c = none := by
  have := firstNul_append_of_no_nul c [] h
  simpa [firstNul] using this

theorem firstNul_of_idxOf (c r : Bytes) (i : Nat) (h : c.idxOf? (0 : UInt8) = some i) :
    firstNul (c ++ r) = some (c.take i) := by
  induction c generalizing i with
  | nil => simp at h
  | cons b c ih =>
    rw [List.idxOf?_cons] at h
    by_cases hb : b = 0
    · simp [hb] at h
      subst h; simp [firstNul, hb]
    · simp [hb] at h
      obtain ⟨j, hj, rfl⟩ := h
      simp [firstNul, hb, ih j hj]

theorem cstringChunkLoop_eq (data : Bytes) (k : Nat) (hk : 1 ≤ k) :
    ∀ fuel pos acc, data.length - pos + 1 ≤ fuel →
      cstringChunkLoop data k fuel pos acc = .ok ((firstNul (data.drop pos)).map (acc ++ ·)) := by
  intro fuel
  induction fuel with
  | zero => intro pos acc hf; omega
  | succ fuel ih =>
    intro pos acc hf
    rw [cstringChunkLoop]
    generalize hc : readN data pos k = c
    have hc' : c = (data.drop pos).take k := hc.symm
    have hsplit : data.drop pos = c ++ data.drop (pos + k) := by
      rw [hc', ← List.drop_drop, List.take_append_drop]
    have hclen : c.length = min k (data.length - pos) := by
      rw [hc', List.length_take, List.length_drop]
    cases hi : c.idxOf? (0 : UInt8) with
    | some i =>
      simp only
      rw [hsplit, firstNul_of_idxOf _ _ _ hi]
      rfl
    | none =>
      simp only
      have hno : (0 : UInt8) ∉ c := by simpa using hi
      by_cases hlen : c.length < k
      · rw [if_pos hlen]
        have : data.drop pos = c := by
          rw [hc']; symm
          apply List.take_of_length_le
          rw [List.length_drop]; omega
        rw [this, firstNul_of_no_nul _ hno]; rfl
      · rw [if_neg hlen]
        rw [ih (pos + k) _ (by omega)]
        conv => rhs; rw [hsplit, firstNul_append_of_no_nul _ _ hno]
        simp [Option.map_map, Function.comp_def]

/-! ### DWARF initial length -/

theorem parse_initlen_32 {env : Env} {data : Bytes} {pos : Nat} {le : Bool} {ctx : Fields}
    {bs rest : Bytes} (hd : data.drop pos = bs ++ rest) (hn : bs.length = 4)
    (h : decNat le bs < 0xFFFFFF00) :
    Con.parse env data (.initialLength le) ctx pos
      = .ok (.int (decNat le bs), pos + 4, Fields.set ctx "is64" (.bool false)) := by
  rw [Con.parse, readExact_ok hd hn]
  simp only [bind, Except.bind, if_pos h]; rfl

theorem parse_initlen_64 {env : Env} {data : Bytes} {pos : Nat} {le : Bool} {ctx : Fields}
    {bs bs2 rest : Bytes} (hd : data.drop pos = bs ++ (bs2 ++ rest)) (hn : bs.length = 4)
    (hn2 : bs2.length = 8) (h : decNat le bs = 0xFFFFFFFF) :
    Con.parse env data (.initialLength le) ctx pos
      = .ok (.int (decNat le bs2), pos + 12, Fields.set ctx "is64" (.bool true)) := by
  have hd2 : data.drop (pos + 4) = bs2 ++ rest := by rw [← hn]; exact drop_add_of_drop hd
  rw [Con.parse, readExact_ok hd hn]
  simp only [bind, Except.bind, h, readExact_ok hd2 hn2]
  rfl

theorem parse_initlen_reserved {env : Env} {data : Bytes} {pos : Nat} {le : Bool} {ctx : Fields}
    {bs rest : Bytes} (hd : data.drop pos = bs ++ rest) (hn : bs.length = 4)
    (h1 : 0xFFFFFF00 ≤ decNat le bs) (h2 : decNat le bs ≠ 0xFFFFFFFF) :
    Con.parse env data (.initialLength le) ctx pos = .error .elfParseError := by
  rw [Con.parse, readExact_ok hd hn]
  simp only [bind, Except.bind, if_neg (Nat.not_lt.2 h1), if_neg h2]

theorem parse_initlen_short {env : Env} {data : Bytes} {pos : Nat} {le : Bool} {ctx : Fields}
    {bs : Bytes} (hd : data.drop pos = bs) (hn : bs.length < 4) :
    Con.parse env data (.initialLength le) ctx pos = .error .elfParseError := by
  rw [Con.parse, readExact_short hd hn]; rfl

/-! ### arrays of bytes -/

theorem arrayLoop_bytes (env : Env) (data : Bytes) (le : Bool) (ctx : Fields) (rest : Bytes) :
    ∀ (payload : Bytes) (pos : Nat) (acc : List Val), data.drop pos = payload ++ rest →
      arrayLoop (fun p c => Con.parse env data (.uint 1 le) c p) payload.length pos ctx acc
        = .ok (.list (acc.reverse ++ payload.map fun b => .int b.toNat), pos + payload.length, ctx) := by
  intro payload
  induction payload with
  | nil => intro pos acc _; simp [arrayLoop]
  | cons b payload ih =>
    intro pos acc hd
    have hd1 : data.drop pos = [b] ++ (payload ++ rest) := by simpa using hd
    obtain ⟨-, hd'⟩ := drop_cons_inv (by simpa using hd)
    simp only [List.length_cons, arrayLoop]
    rw [parse_uint_ok (n := 1) hd1 rfl, decNat_singleton]
    simp only
    rw [ih (pos + 1) _ hd']
    simp; omega

theorem arrayLoop_bytes_trunc (env : Env) (data : Bytes) (le : Bool) (ctx : Fields) :
    ∀ (m pos : Nat) (acc : List Val), data.length - pos < m →
      arrayLoop (fun p c => Con.parse env data (.uint 1 le) c p) m pos ctx acc
        = .error .elfParseError := by
  intro m
  induction m with
  | zero => intro pos acc h; omega
  | succ m ih =>
    intro pos acc h
    rw [arrayLoop]
    cases hdp : data.drop pos with
    | nil =>
      rw [parse_uint_short hdp (by simp)]
    | cons b t =>
      have hd1 : data.drop pos = [b] ++ t := by simpa using hdp
      have hl := length_of_drop hdp
      rw [parse_uint_ok (n := 1) hd1 rfl]
      simp only
      exact ih (pos + 1) _ (by simp at hl; omega)

theorem parse_prefixed_bytes {env : Env} {data : Bytes} {pos : Nat} {le : Bool} {ctx : Fields}
    {len : Con} {payload rest : Bytes} {p : Nat}
    (hlen : Con.parse env data len ctx pos = .ok (.int (payload.length : Nat), p, ctx))
    (hd : data.drop p = payload ++ rest) :
    Con.parse env data (.prefixed len (.uint 1 le)) ctx pos
      = .ok (.list (payload.map fun b => .int b.toNat), p + payload.length, ctx) := by
  rw [Con.parse, hlen]
  simp only [bind, Except.bind, Val.asInt, Int.toNat_natCast]
  rw [arrayLoop_bytes env data le ctx rest payload p [] hd]
  simp

theorem parse_prefixed_bytes_trunc {env : Env} {data : Bytes} {pos : Nat} {le : Bool} {ctx : Fields}
    {len : Con} {m p : Nat}
    (hlen : Con.parse env data len ctx pos = .ok (.int (m : Nat), p, ctx))
    (h : data.length - p < m) :
    Con.parse env data (.prefixed len (.uint 1 le)) ctx pos = .error .elfParseError := by
  rw [Con.parse, hlen]
  simp only [bind, Except.bind, Val.asInt, Int.toNat_natCast]
  exact arrayLoop_bytes_trunc env data le ctx m p [] h

/-! ### RepeatUntilExcluding over C strings -/

theorem parse_cstring_ok {env : Env} {data : Bytes} {pos : Nat} {ctx : Fields} {s rest : Bytes}
    (hs : ∀ b ∈ s, b ≠ 0) (hd : data.drop pos = s ++ [0] ++ rest) :
    Con.parse env data .cstring ctx pos = .ok (.bytes s, pos + s.length + 1, ctx) := by
  rw [Con.parse, parseCString_ok hs hd]; rfl

theorem stop_empty_bytes (s : Bytes) (c : Fields) :
    (do return (← (Expr.eq .obj (.bytesLit [])).eval c (.bytes s)).truthy : R Bool)
      = .ok (s == []) := by
  simp [Expr.eval, bind, Except.bind, pure, Except.pure, Val.truthy, BEq.beq, Val.beq]

theorem flatMap_nul_length_ge (ss : List Bytes) :
    ss.length ≤ (ss.flatMap fun s => s ++ [0]).length := by
  induction ss with
  | nil => simp
  | cons s ss ih => simp only [List.flatMap_cons, List.length_append, List.length_cons]; omega

theorem repeatLoop_cstrings (env : Env) (data rest : Bytes) (ctx : Fields)
    (stop : Val → Fields → R Bool) (hstop : ∀ s c, stop (.bytes s) c = .ok (s == [])) :
    ∀ (ss : List Bytes) (fuel pos : Nat) (acc : List Val),
      (∀ s ∈ ss, s ≠ [] ∧ ∀ b ∈ s, b ≠ 0) → ss.length + 1 ≤ fuel →
      data.drop pos = (ss.flatMap fun s => s ++ [0]) ++ [0] ++ rest →
      repeatLoop (fun p c => Con.parse env data .cstring c p) stop fuel pos ctx acc
        = .ok (.list (acc.reverse ++ ss.map .bytes),
               pos + (ss.flatMap fun s => s ++ [0]).length + 1, ctx) := by
  intro ss
  induction ss with
  | nil =>
    intro fuel pos acc _ hf hd
    cases fuel with
    | zero => omega
    | succ fuel =>
      have hd0 : data.drop pos = ([] : Bytes) ++ [0] ++ rest := by simpa using hd
      rw [repeatLoop, parse_cstring_ok (by simp) hd0]
      simp [hstop]
  | cons s ss ih =>
    intro fuel pos acc hs hf hd
    cases fuel with
    | zero => omega
    | succ fuel =>
      obtain ⟨hne, hnz⟩ := hs s (by simp)
      have hd0 : data.drop pos = s ++ [0] ++ ((ss.flatMap fun s => s ++ [0]) ++ [0] ++ rest) := by
        simpa [List.append_assoc] using hd
      have hd1 : data.drop (pos + s.length + 1) = (ss.flatMap fun s => s ++ [0]) ++ [0] ++ rest := by
        have := drop_add_of_drop hd0
        simpa [Nat.add_assoc] using this
      have hbeq : (s == []) = false := by simpa using hne
      rw [repeatLoop, parse_cstring_ok hnz hd0]
      simp only [hstop, hbeq]
      rw [ih fuel _ _ (fun x hx => hs x (by simp [hx])) (by simp at hf; omega) hd1]
      simp; omega

theorem parse_repeat_cstrings {env : Env} {data : Bytes} {pos : Nat} {ctx : Fields}
    {ss : List Bytes} {rest : Bytes} (hs : ∀ s ∈ ss, s ≠ [] ∧ ∀ b ∈ s, b ≠ 0)
    (hd : data.drop pos = (ss.flatMap fun s => s ++ [0]) ++ [0] ++ rest) :
    Con.parse env data (.repeatUntilExcl (.eq .obj (.bytesLit [])) .cstring) ctx pos
      = .ok (.list (ss.map .bytes), pos + (ss.flatMap fun s => s ++ [0]).length + 1, ctx) := by
  have hl := length_of_drop hd
  have hge := flatMap_nul_length_ge ss
  rw [Con.parse]
  rw [repeatLoop_cstrings env data rest ctx _ (fun s c => stop_empty_bytes s c) ss _ pos [] hs
    (by simp only [List.length_append, List.length_cons, List.length_nil] at hl; omega) hd]
  simp

/-! ### packaged forms used by Props/C16 -/

theorem drop_pre3 {α} (pre a b c : List α) :
    (pre ++ a ++ b ++ c).drop pre.length = a ++ (b ++ c) := by
  simp [List.append_assoc]

theorem drop_pre3' {α} (pre a b c : List α) :
    (pre ++ a ++ b ++ c).drop pre.length = a ++ b ++ c := by
  simp [List.append_assoc]

theorem ulebVal_enc_of_lt {n v : Nat} (hv : v < 2 ^ (7 * n)) : ulebVal (encUlebN n v) = v := by
  rw [ulebVal_enc, Nat.mod_eq_of_lt hv]

theorem sint_codec (le : Bool) (n : Nat) (v : Int) (hn : 1 ≤ n)
    (hlo : -((2 ^ (8 * n - 1) : Nat) : Int) ≤ v) (hhi : v < ((2 ^ (8 * n - 1) : Nat) : Int)) :
    toSigned (8 * n) (decNat le (encNat le n (ofSigned (8 * n) v))) = v := by
  have hlt : ofSigned (8 * n) v < 256 ^ n := by
    have := ofSigned_lt (8 * n) v
    rwa [Nat.pow_mul] at this
  rw [decNat_encNat_of_lt le hlt, toSigned_ofSigned _ _ (by omega) hlo hhi]

theorem parse_sleb_ok {env : Env} {data : Bytes} {pos : Nat} {ctx : Fields} {bs rest : Bytes}
    (hd : data.drop pos = bs ++ rest) (h : ValidLEB bs = true) :
    Con.parse env data .sleb ctx pos = .ok (.int (slebVal bs), pos + bs.length, ctx) := by
  rw [Con.parse, parseSleb_valid hd h]; rfl

theorem parse_block_fixed {env : Env} {data : Bytes} {pos n : Nat} {le : Bool} {ctx : Fields}
    {payload rest : Bytes} (hlen : payload.length < 256 ^ n)
    (hd : data.drop pos = encNat le n payload.length ++ (payload ++ rest)) :
    Con.parse env data (.prefixed (.uint n le) (.uint 1 le)) ctx pos
      = .ok (.list (payload.map fun b => .int b.toNat), pos + n + payload.length, ctx) := by
  have h1 := parse_uint_ok (env := env) (le := le) (ctx := ctx) hd (encNat_length le n payload.length)
  rw [decNat_encNat_of_lt le hlen] at h1
  have hd2 : data.drop (pos + n) = payload ++ rest := by
    have := drop_add_of_drop hd
    rwa [encNat_length] at this
  exact parse_prefixed_bytes h1 hd2

theorem parse_block_uleb {env : Env} {data : Bytes} {pos k : Nat} {le : Bool} {ctx : Fields}
    {payload rest : Bytes} (hk : 1 ≤ k) (hlen : payload.length < 2 ^ (7 * k))
    (hd : data.drop pos = encUlebN k payload.length ++ (payload ++ rest)) :
    Con.parse env data (.prefixed .uleb (.uint 1 le)) ctx pos
      = .ok (.list (payload.map fun b => .int b.toNat), pos + k + payload.length, ctx) := by
  have h1 := parse_uleb_ok (env := env) (ctx := ctx) hd (encUlebN_valid k payload.length hk)
  rw [ulebVal_enc_of_lt hlen, encUlebN_length] at h1
  have hd2 : data.drop (pos + k) = payload ++ rest := by
    have := drop_add_of_drop hd
    rwa [encUlebN_length] at this
  exact parse_prefixed_bytes h1 hd2

theorem parse_block_trunc {env : Env} {data : Bytes} {pos n len : Nat} {le : Bool} {ctx : Fields}
    {payload : Bytes} (hlen : len < 256 ^ n) (h : payload.length < len)
    (hd : data.drop pos = encNat le n len ++ payload) :
    Con.parse env data (.prefixed (.uint n le) (.uint 1 le)) ctx pos = .error .elfParseError := by
  have h1 := parse_uint_ok (env := env) (le := le) (ctx := ctx) hd (encNat_length le n len)
  rw [decNat_encNat_of_lt le hlen] at h1
  have hl := length_of_drop hd
  rw [List.length_append, encNat_length] at hl
  exact parse_prefixed_bytes_trunc h1 (by omega)

end PyElf.Proofs
