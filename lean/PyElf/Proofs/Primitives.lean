/-
  Helper lemmas for C16 (bit arithmetic of LEB128, little/big-endian codecs,
  list slicing).  Property statements live in Props/C16.lean.
-/
import PyElf.Core.Construct
import PyElf.Spec.Primitives
import PyElf.Model.Utils
namespace PyElf.Proofs
open PyElf PyElf.Spec


theorem and_7F (n : Nat) : n &&& 0x7F = n % 128 := by
  have := Nat.and_two_pow_sub_one_eq_mod n 7
  simpa using this

set_option maxRecDepth 100000 in
theorem and_80_aux : ∀ n < 256, (n &&& 0x80 = 0) = (n < 128) := by decide
set_option maxRecDepth 100000 in
theorem and_40_aux : ∀ n < 128, (n &&& 0x40 ≠ 0) = (n % 128 ≥ 64) := by decide

theorem and_80 (b : UInt8) : (b.toNat &&& 0x80 = 0) ↔ b.toNat < 128 := by
  rw [and_80_aux _ b.toNat_lt]

theorem or_shl_eq_add {value shift : Nat} (x : Nat) (h : value < 2 ^ shift) :
    value ||| (x <<< shift) = value + x * 2 ^ shift := by
  rw [Nat.or_comm, ← Nat.shiftLeft_add_eq_or_of_lt h, Nat.shiftLeft_eq, Nat.add_comm]

theorem drop_cons_inv {α} {l : List α} {n : Nat} {b : α} {t : List α} (h : l.drop n = b :: t) :
    l[n]? = some b ∧ l.drop (n + 1) = t := by
  constructor
  · have := List.getElem?_drop (xs := l) (i := n) (j := 0)
    simpa [h] using this.symm
  · have : l.drop (n + 1) = (l.drop n).drop 1 := by simp [List.drop_drop]
    rw [this, h]; rfl

theorem drop_nil_inv {α} {l : List α} {n : Nat} (h : l.drop n = []) : l[n]? = none := by
  have := List.getElem?_drop (xs := l) (i := n) (j := 0)
  simpa [h] using this.symm

theorem ulebVal_lt (bs : Bytes) : ulebVal bs < 2 ^ (7 * bs.length) := by
  induction bs with
  | nil => simp [ulebVal]
  | cons b bs ih =>
    simp only [ulebVal, List.length_cons]
    have : 2 ^ (7 * (bs.length + 1)) = 128 * 2 ^ (7 * bs.length) := by
      rw [Nat.mul_add, Nat.pow_add]; simp [Nat.mul_comm]
    omega

theorem ulebLoop_valid (data rest : Bytes) (bs : Bytes) (h : ValidLEB bs = true) :
    ∀ fuel pos value shift, bs.length ≤ fuel → data.drop pos = bs ++ rest → value < 2 ^ shift →
      ulebLoop data fuel pos value shift = .ok (value + ulebVal bs * 2 ^ shift, pos + bs.length) := by
  induction bs with
  | nil => simp [ValidLEB] at h
  | cons b bs ih =>
    intro fuel pos value shift hf hd hv
    obtain ⟨hb, hd'⟩ := drop_cons_inv (by simpa using hd)
    cases fuel with
    | zero => simp at hf
    | succ fuel =>
      rw [ulebLoop, hb]
      simp only [and_7F, or_shl_eq_add _ hv, and_80_aux _ b.toNat_lt]
      cases bs with
      | nil =>
        simp [ValidLEB] at h
        simp [h, ulebVal]
      | cons b' bs' =>
        simp [ValidLEB] at h
        have hnot : ¬ b.toNat < 128 := by omega
        rw [if_neg hnot]
        have hv' : value + b.toNat % 128 * 2 ^ shift < 2 ^ (shift + 7) := by
          rw [Nat.pow_add]
          have : b.toNat % 128 < 128 := Nat.mod_lt _ (by decide)
          generalize 2 ^ shift = P at *
          have : b.toNat % 128 * P ≤ 127 * P := Nat.mul_le_mul_right _ (by omega)
          omega
        rw [ih h.2 fuel (pos + 1) _ (shift + 7) (by simpa using hf) hd' hv']
        simp only [ulebVal, List.length_cons, Nat.pow_add]
        congr 2
        · generalize ulebVal (b' :: bs') = U
          generalize 2 ^ shift = P
          grind
        · omega

end PyElf.Proofs
