/-
  C05 helper lemmas, seventh wave: `line_program_for_CU` on the units of a whole `.debug_info`.

  The `DWARFInfo` is C04's (`Props.C04.forestDInfo`: the encoded sections of a forest description, regenerated
  registry and struct bundles), `.debug_line` is the encoding of a list of placed line-number programs
  (Spec/LineSection).  C04's end-to-end theorem gives the unit objects with their contexts
  (`debug_info_units`) and the top entry of each (`Proofs.Lookup.forest_topDIE`, C13's composition); from the top
  entry's attributes the DW_AT_stmt_list value is read off (`lastNamed_attrObs`), the program at that offset is
  parsed with the unit's bundle (`parseFreshX_all`), cached by offset (`LCacheOK`), and decoded
  (`decode_lpOfX`).  C04's / C13's objects and theorems are imported, not copied.
-/
import PyElf.Spec.LineSection
import PyElf.Model.LineInfo
import PyElf.Proofs.DwarfForest
import PyElf.Proofs.LineUnitExt
import PyElf.Proofs.LineHeaderExt
namespace PyElf.Proofs.LineInfo
open PyElf PyElf.Spec PyElf.Spec.Line PyElf.Spec.LineSec PyElf.Model.Line PyElf.Model.LineInfo PyElf.Proofs.Line
open PyElf.Spec.C04 (Forest UnitDesc AttrObs DieObs AttrSpec AttrV Node Names placeInfo infoSec infoUnitOf infoDieOff
  wfForestB attrObs flattenUnit)
open PyElf.Model.C04 (UnitCtx getTopDIE sectionUnits)
open PyElf.Props.C04 (forestDInfo genBundles genNames unitRho infoCtx)
open PyElf.Proofs.Lookup (cuOf)

/-! ### layout of `.debug_line` -/

theorem encLineSec_cons (d : LineUnitDesc) (ds : List LineUnitDesc) (tail : Bytes) :
    encLineSec (d :: ds) tail = encLineUnit d ++ encLineSec ds tail := by
  simp [encLineSec, List.append_assoc]

/-- program `i` lies at `lineOff L i` -/
theorem lineSec_split : ∀ (L : List LineUnitDesc) (i : Nat) (d : LineUnitDesc) (tail : Bytes), L[i]? = some d →
    ∃ pre rest, encLineSec L tail = pre ++ d.enc ++ rest ∧ pre.length = lineOff L i := by
  intro L
  induction L with
  | nil => intro i d tail h; simp at h
  | cons d0 ds ih =>
    intro i d tail h
    cases i with
    | zero =>
      simp only [List.getElem?_cons_zero, Option.some.injEq] at h
      subst h
      exact ⟨d0.gap, encLineSec ds tail, by rw [encLineSec_cons, encLineUnit], rfl⟩
    | succ i =>
      simp only [List.getElem?_cons_succ] at h
      obtain ⟨pre, rest, he, hl⟩ := ih i d tail h
      refine ⟨encLineUnit d0 ++ pre, rest, ?_, ?_⟩
      · rw [encLineSec_cons, he]; simp [List.append_assoc]
      · rw [List.length_append, hl, lineOff]

theorem enc_pos (d : LineUnitDesc) : 0 < d.enc.length := by
  rw [LineUnitDesc.enc, encodeUnitX_length, headerSizeX, initLenSize]
  split <;> omega

/-- programs further on lie further on -/
theorem lineOff_lt : ∀ (L : List LineUnitDesc) (i j : Nat) (d : LineUnitDesc), L[i]? = some d → i < j →
    lineOff L i < lineOff L j := by
  intro L
  induction L with
  | nil => intro i j d h; simp at h
  | cons d0 ds ih =>
    intro i j d h hij
    cases j with
    | zero => omega
    | succ j =>
      cases i with
      | zero =>
        have := enc_pos d0
        simp only [lineOff, encLineUnit, List.length_append]; omega
      | succ i =>
        simp only [List.getElem?_cons_succ] at h
        have := ih i j d h (by omega)
        simp only [lineOff]; omega

/-- an offset designates at most one program of the description -/
theorem lineOff_inj {L : List LineUnitDesc} {i j : Nat} {d d' : LineUnitDesc} (hi : L[i]? = some d)
    (hj : L[j]? = some d') (h : lineOff L i = lineOff L j) : i = j ∧ d = d' := by
  have hij : i = j := by
    rcases Nat.lt_trichotomy i j with hlt | heq | hgt
    · have := lineOff_lt L i j d hi hlt; omega
    · exact heq
    · have := lineOff_lt L j i d' hj hgt; omega
  subst hij
  rw [hi] at hj
  injection hj with hj
  exact ⟨rfl, hj⟩

/-! ### DW_AT_stmt_list of an entry, from its description -/

/-- the described reference against what the dict lookup finds -/
def StmtRel : StmtRef → Option AttrObs → Prop
  | .absent, none => True
  | .at v, some a => a.value = .int (v : Int)
  | .other, some _ => True
  | _, _ => False

theorem lastNamed_attrObs (nm : Names) (c : DwarfCfg) (ρ : Val → Val → Val)
    (hname : ∀ k, (nm.at_ k == Val.str "DW_AT_stmt_list") = (k == 0x10))
    (hforms : ∀ k ∈ lineptrForms, ∀ v : Nat, ρ (nm.form k) (.int v) = .int v) :
    ∀ (specs : List AttrSpec) (attrs : List AttrV) (off : Nat) (acc : StmtRef) (acc' : Option AttrObs),
      StmtRel acc acc' →
      StmtRel (stmtRefGo specs attrs acc) (lastNamed (.str "DW_AT_stmt_list") (attrObs nm c ρ off specs attrs) acc') := by
  intro specs
  induction specs with
  | nil => intro attrs off acc acc' h; simpa [stmtRefGo, attrObs, lastNamed] using h
  | cons s ss ih =>
    intro attrs off acc acc' h
    cases attrs with
    | nil => simpa [stmtRefGo, attrObs, lastNamed] using h
    | cons a as =>
      simp only [stmtRefGo, attrObs, lastNamed]
      apply ih
      rw [hname]
      by_cases hk : s.name = 0x10
      · have hb : (s.name == 0x10) = true := by simpa using hk
        rw [if_pos (show s.name = AT_stmt_list from hk)]
        simp only [hb, ↓reduceIte]
        unfold stmtClass
        cases hop : a.op with
        | nat v =>
          simp only
          split
          · rename_i hcond
            simp only [StmtRel, if_neg hcond.1, Spec.C04.rawVal]
            exact hforms _ hcond.2 v
          · trivial
        | _ => trivial
      · have hb : (s.name == 0x10) = false := by simpa using hk
        rw [if_neg (show ¬ s.name = AT_stmt_list from hk)]
        simp only [hb, Bool.false_eq_true, ↓reduceIte]
        exact h

theorem resolve_lineptr (c : DwarfCfg) (secs : Spec.C04.Sections) (b : Spec.C04.Bases) (f : String)
    (hf : f = "DW_FORM_sec_offset" ∨ f = "DW_FORM_data4" ∨ f = "DW_FORM_data8") (v : Int) :
    Spec.C04.resolve c secs b (.str f) (.int v) = some (.int v) := by
  rcases hf with rfl | rfl | rfl <;>
  · unfold Spec.C04.resolve
    split
    · rename_i e _; injection e with e; exact absurd e (by decide)
    · rename_i e _; injection e with e; exact absurd e (by decide)
    · rename_i e _; injection e with e; exact absurd e (by decide)
    · rename_i e; injection e with e; exact absurd e (by decide)
    · rename_i f w _ _ _ _ e1 e2
      injection e1 with e1; injection e2 with e2; subst e1 e2
      rw [if_neg (by decide), if_neg (by decide), if_neg (by decide), if_neg (by decide)]
    · rfl

/-- the regenerated registry presents the three lineptr forms under the standard's names, and a value of one of
    them is the number read -/
theorem gen_lineptr_forms (F : Forest) (u : UnitDesc) :
    ∀ k ∈ lineptrForms, ∀ v : Nat, unitRho F u (genNames.form k) (.int v) = .int v := by
  intro k hk v
  have hmem : k ∈ Spec.C04.formCodes := by
    simp only [lineptrForms, List.mem_cons, List.not_mem_nil, or_false] at hk
    rcases hk with rfl | rfl | rfl <;> decide
  have hreg := Props.C04.registry_gen.forms k hmem
  have hform : genNames.form k = Proofs.Engine.enumVal Model.genEnumDecode "ENUM_DW_FORM" k := rfl
  simp only [lineptrForms, List.mem_cons, List.not_mem_nil, or_false] at hk
  rw [hform, Proofs.Engine.enumVal, hreg]
  rcases hk with rfl | rfl | rfl
  · show Proofs.C04.rho _ _ _ (.str "DW_FORM_sec_offset") _ = _
    simp only [Proofs.C04.rho, resolve_lineptr _ _ _ _ (Or.inl rfl), Option.getD_some]
  · show Proofs.C04.rho _ _ _ (.str "DW_FORM_data4") _ = _
    simp only [Proofs.C04.rho, resolve_lineptr _ _ _ _ (Or.inr (Or.inl rfl)), Option.getD_some]
  · show Proofs.C04.rho _ _ _ (.str "DW_FORM_data8") _ = _
    simp only [Proofs.C04.rho, resolve_lineptr _ _ _ _ (Or.inr (Or.inr rfl)), Option.getD_some]

/-! ### the top entry of a unit of a forest and its DW_AT_stmt_list -/

theorem flattenUnit_head (nm : Names) (c : DwarfCfg) (ρt ρ : Val → Val → Val) (off : Nat) (t : Spec.C04.Tree)
    (top : DieObs) (rest : List DieObs) (h : flattenUnit nm c ρt ρ off t = top :: rest) :
    top = Spec.C04.entryObs nm c ρt off t.root := by
  obtain ⟨n, kids, nl⟩ := t
  rw [flattenUnit] at h
  injection h with h1 _
  exact h1.symm

/-- `cu.get_top_DIE()` in the context `iter_CUs()` gives the unit: the described top entry -/
theorem forest_getTopDIE (F : Forest) (dasz : Nat) (hdasz : dasz = 4 ∨ dasz = 8) (hwf : wfForestB genNames F = true)
    (p : Nat × UnitDesc) (hp : p ∈ placeInfo F 0 F.units) :
    getTopDIE (infoCtx F dasz p)
      = .ok (Spec.C04.entryObs genNames (p.2.cfg F.le) (unitRho F p.2) (infoDieOff F p.1 p.2) p.2.tree.root) := by
  obtain ⟨top, rest, hflat, _, htop⟩ := Proofs.Lookup.forest_topDIE F dasz hdasz hwf p hp
  have := flattenUnit_head _ _ _ _ _ _ _ _ hflat
  subst this
  unfold Model.Lookup.cuTopDIE at htop
  simpa only [Proofs.Lookup.forest_unitCtx F dasz hdasz hwf p hp, bind, Except.bind] using htop

/-- the dict lookup `top_DIE.attributes.get('DW_AT_stmt_list')` against the description of the top entry -/
theorem forest_stmt_attr (F : Forest) (u : UnitDesc) (off : Nat)
    (hname : ∀ k, (genNames.at_ k == Val.str "DW_AT_stmt_list") = (k == 0x10)) :
    StmtRel (stmtRef u.tree.root)
      (lastNamed (.str "DW_AT_stmt_list")
        (Spec.C04.entryObs genNames (u.cfg F.le) (unitRho F u) off u.tree.root).attrs none) :=
  lastNamed_attrObs genNames (u.cfg F.le) (unitRho F u) hname (gen_lineptr_forms F u) _ _ _ .absent none trivial

/-! ### the struct bundle and the environment of a unit of a forest -/

section
variable (hfull : ∀ c ∈ Spec.allDwarfCfgs, Model.dwarfStructsFor c = some (Spec.dwarfStructs c))
include hfull

theorem infoCtx_S (F : Forest) (dasz : Nat) (p : Nat × UnitDesc) (hc : p.2.cfg F.le ∈ Spec.allDwarfCfgs) :
    (infoCtx F dasz p).S = Spec.dwarfStructs (p.2.cfg F.le) := by
  show ((genBundles F.le dasz).structsOf (p.2.cfg F.le)).getD _ = _
  rw [show (genBundles F.le dasz).structsOf = Model.dwarfStructsFor from rfl, hfull _ hc]
  rfl

theorem infoCtx_env (F : Forest) (dasz : Nat) (p : Nat × UnitDesc) (hc : p.2.cfg F.le ∈ Spec.allDwarfCfgs) :
    (infoCtx F dasz p).env = Model.dwarfEnv (Spec.dwarfStructs (p.2.cfg F.le)) := by
  show ({ enumDecode := Model.genEnumDecode, forms := (infoCtx F dasz p).S.form } : Env) = _
  rw [infoCtx_S hfull F dasz p hc]
  rfl

end

/-! ### the hypotheses, unpacked -/

theorem linesOK_unit {F : Forest} {L : List LineUnitDesc} {tail : Bytes} {sup : Option Bytes}
    (h : linesOKB F L tail sup = true) (d : LineUnitDesc) (hd : d ∈ L) : lineUnitOKB F sup d = true := by
  simp only [linesOKB, Bool.and_eq_true, List.all_eq_true] at h
  exact h.1.1.1 d hd

theorem linesOK_len {F : Forest} {L : List LineUnitDesc} {tail : Bytes} {sup : Option Bytes}
    (h : linesOKB F L tail sup = true) : (encLineSec L tail).length < 2 ^ 63 := by
  simp only [linesOKB, Bool.and_eq_true, decide_eq_true_eq] at h
  exact h.1.2

theorem linesOK_sup {F : Forest} {L : List LineUnitDesc} {tail : Bytes} {sup : Option Bytes}
    (h : linesOKB F L tail sup = true) : ∀ b, sup = some b → b.length < 2 ^ 63 := by
  simp only [linesOKB, Bool.and_eq_true] at h
  intro b hb
  have := h.2
  rw [hb] at this
  simpa using this

/-- what `unitLineOKB` says of a unit whose top entry names a program -/
theorem linesOK_at {F : Forest} {L : List LineUnitDesc} {tail : Bytes} {sup : Option Bytes}
    (h : linesOKB F L tail sup = true) (u : UnitDesc) (hu : u ∈ F.units) (v : Nat) (hst : stmtRef u.tree.root = .at v)
    (i : Nat) (d : LineUnitDesc) (hd : L[i]? = some d) (hv : v = lineOff L i) :
    d.h.fmt64 = u.fmt64 ∧ d.h.p.asz = u.asz := by
  simp only [linesOKB, Bool.and_eq_true, List.all_eq_true] at h
  have hU := h.1.1.2 u hu
  unfold unitLineOKB at hU
  rw [hst] at hU
  simp only [List.any_eq_true, List.mem_range] at hU
  obtain ⟨i', _, hi'⟩ := hU
  cases hd' : L[i']? with
  | none => rw [hd'] at hi'; cases hi'
  | some d' =>
    rw [hd'] at hi'
    simp only [Bool.and_eq_true, decide_eq_true_eq] at hi'
    obtain ⟨rfl, rfl⟩ := lineOff_inj hd' hd (by rw [← hi'.1.1, hv])
    exact ⟨hi'.1.2, hi'.2⟩

theorem linesOK_not_other {F : Forest} {L : List LineUnitDesc} {tail : Bytes} {sup : Option Bytes}
    (h : linesOKB F L tail sup = true) (u : UnitDesc) (hu : u ∈ F.units) : stmtRef u.tree.root ≠ .other := by
  simp only [linesOKB, Bool.and_eq_true, List.all_eq_true] at h
  have hU := h.1.1.2 u hu
  unfold unitLineOKB at hU
  intro e
  rw [e] at hU
  cases hU

/-- the string sections as the running `DWARFInfo` holds them, for a version 5 program -/
theorem secsView_of (F : Forest) (sup : Option Bytes) (hW : Proofs.C04.WfForest genNames F)
    (hls : F.secs.lineStr.isSome = true) (hs : F.secs.str.isSome = true) (hsup : ∀ b, sup = some b → b.length < 2 ^ 63) :
    SecsView (lineSecsOf F.secs (sup.map some)) (strSecsOf F sup) := by
  cases h1 : F.secs.lineStr with
  | none => rw [h1] at hls; cases hls
  | some a =>
    cases h2 : F.secs.str with
    | none => rw [h2] at hs; cases hs
    | some b =>
      have ha := hW.secsSmall a (Or.inr (Or.inl h1))
      have hb := hW.secsSmall b (Or.inl h2)
      refine ⟨?_, ?_, ?_, ?_, ?_, ?_⟩
      · simp [lineSecsOf, strSecsOf, h1]
      · simp [lineSecsOf, strSecsOf, h2]
      · intro x hx
        have : sup = some x := hx
        simp [lineSecsOf, this]
      · simp only [strSecsOf, h1, Option.getD_some, ssizeMax]; omega
      · simp only [strSecsOf, h2, Option.getD_some, ssizeMax]; omega
      · intro x hx
        have := hsup x hx
        simp only [ssizeMax]; omega

/-! ### one unit: `line_program_for_CU` -/

/-- the attribute value of a lineptr form is a natural number -/
theorem parseAt_int (L : LineWorld) (U : UnitCtx) (cache : LCache) (v : Nat) :
    parseAt L U cache (.int (v : Int)) = parseAtNat L U cache v := by
  have : ¬ ((v : Int) < 0) := by omega
  simp [parseAt, Val.asInt, this]

/-- the line-program side of the `DWARFInfo` on the encoded `.debug_line`; `sup`: the `.debug_str` of an attached
    supplementary object -/
def lineWorld (L : List LineUnitDesc) (tail : Bytes) (sup : Option Bytes) : LineWorld :=
  { line := some (encLineSec L tail), sup := sup.map some }

/-- `x` is the `LineProgram` object of program `i` (= `d`) of the section: header, extent, and the `structs` of
    a unit the program fits -/
def LPIs (F : Forest) (L : List LineUnitDesc) (sup : Option Bytes) (i : Nat) (d : LineUnitDesc) (x : LP) : Prop :=
  x.lp = lpOfX d.h (strSecsOf F sup) d.ext d.body (lineOff L i)
    ∧ ∃ c : DwarfCfg, x.S = Spec.dwarfStructs c ∧ d.h.p.le = c.le ∧ d.h.p.asz = c.asz

/-- invariant of `_linetable_cache`: under an offset lies the object of the program at that offset -/
def LCacheOK (F : Forest) (L : List LineUnitDesc) (sup : Option Bytes) (cache : LCache) : Prop :=
  ∀ o x, (o, x) ∈ cache → ∃ i d, L[i]? = some d ∧ o = lineOff L i ∧ LPIs F L sup i d x

theorem lcacheOK_nil (F : Forest) (L : List LineUnitDesc) (sup : Option Bytes) : LCacheOK F L sup [] := by
  intro o x h; cases h

section
variable (hfull : ∀ c ∈ Spec.allDwarfCfgs, Model.dwarfStructsFor c = some (Spec.dwarfStructs c))
variable (henv : ∀ S, EnvOK (Model.dwarfEnv S))
variable (hname : ∀ k, (genNames.at_ k == Val.str "DW_AT_stmt_list") = (k == 0x10))
include hname

/-- a unit without DW_AT_stmt_list has no line program; `_linetable_cache` is not touched -/
theorem unit_absent (F : Forest) (dasz : Nat) (hdasz : dasz = 4 ∨ dasz = 8) (hwf : wfForestB genNames F = true)
    (W : LineWorld) (p : Nat × UnitDesc) (hp : p ∈ placeInfo F 0 F.units) (hst : stmtRef p.2.tree.root = .absent)
    (cache : LCache) :
    lineProgramForUnit W (infoCtx F dasz p) cache = .ok (none, cache) := by
  have hattr := forest_stmt_attr F p.2 (infoDieOff F p.1 p.2) hname
  rw [hst] at hattr
  unfold lineProgramForUnit
  simp only [forest_getTopDIE F dasz hdasz hwf p hp, bind, Except.bind]
  cases hl : lastNamed (.str "DW_AT_stmt_list")
      (Spec.C04.entryObs genNames (p.2.cfg F.le) (unitRho F p.2) (infoDieOff F p.1 p.2) p.2.tree.root).attrs none with
  | none => rfl
  | some a => rw [hl] at hattr; exact absurd hattr (by simp [StmtRel])

/-- a unit whose DW_AT_stmt_list holds an offset already in `_linetable_cache`: the cached object, no parse -/
theorem unit_cached (F : Forest) (dasz : Nat) (hdasz : dasz = 4 ∨ dasz = 8) (hwf : wfForestB genNames F = true)
    (W : LineWorld) (p : Nat × UnitDesc) (hp : p ∈ placeInfo F 0 F.units) (v : Nat) (hst : stmtRef p.2.tree.root = .at v)
    (cache : LCache) (o : Nat) (x : LP) (hf : cache.find? (·.1 == v) = some (o, x)) :
    lineProgramForUnit W (infoCtx F dasz p) cache = .ok (some x, cache) := by
  have hattr := forest_stmt_attr F p.2 (infoDieOff F p.1 p.2) hname
  rw [hst] at hattr
  unfold lineProgramForUnit
  simp only [forest_getTopDIE F dasz hdasz hwf p hp, bind, Except.bind]
  cases hl : lastNamed (.str "DW_AT_stmt_list")
      (Spec.C04.entryObs genNames (p.2.cfg F.le) (unitRho F p.2) (infoDieOff F p.1 p.2) p.2.tree.root).attrs none with
  | none => rw [hl] at hattr; exact absurd hattr (by simp [StmtRel])
  | some a =>
    rw [hl] at hattr
    simp only [StmtRel] at hattr
    simp only [hattr, parseAt_int, parseAtNat, hf, pure, Except.pure]

include hfull henv

/-- a unit whose DW_AT_stmt_list holds the offset of program `i` of the section: the object of that program,
    parsed with the unit's bundle or taken from the cache; the cache stays coherent and holds the object -/
theorem unit_at (F : Forest) (dasz : Nat) (hdasz : dasz = 4 ∨ dasz = 8) (hwf : wfForestB genNames F = true)
    (L : List LineUnitDesc) (tail : Bytes) (sup : Option Bytes) (hlines : linesOKB F L tail sup = true)
    (p : Nat × UnitDesc) (hp : p ∈ placeInfo F 0 F.units) (v : Nat) (hst : stmtRef p.2.tree.root = .at v)
    (i : Nat) (d : LineUnitDesc) (hd : L[i]? = some d) (hv : v = lineOff L i)
    (cache : LCache) (hc : LCacheOK F L sup cache) :
    ∃ x cache', lineProgramForUnit (lineWorld L tail sup) (infoCtx F dasz p) cache = .ok (some x, cache')
      ∧ LPIs F L sup i d x ∧ LCacheOK F L sup cache' ∧ cache'.find? (·.1 == v) = some (v, x) := by
  have hW := Proofs.C04.wfForest_of_B genNames F hwf
  have hu : p.2 ∈ F.units := Proofs.C04.mem_placeInfo F _ _ p hp
  have hcfg := Proofs.C04.wfUnit_cfg_mem (hW.infoHdr p.2 hu)
  have hattr := forest_stmt_attr F p.2 (infoDieOff F p.1 p.2) hname
  rw [hst] at hattr
  obtain ⟨hfmt, hasz⟩ := linesOK_at hlines p.2 hu v hst i d hd hv
  have hok := linesOK_unit hlines d (List.mem_of_getElem? hd)
  simp only [lineUnitOKB, Bool.and_eq_true, Bool.or_eq_true, decide_eq_true_eq] at hok
  obtain ⟨⟨⟨⟨hwfX, _⟩, _⟩, hle⟩, hv5⟩ := hok
  unfold lineProgramForUnit
  simp only [forest_getTopDIE F dasz hdasz hwf p hp, bind, Except.bind]
  cases hl : lastNamed (.str "DW_AT_stmt_list")
      (Spec.C04.entryObs genNames (p.2.cfg F.le) (unitRho F p.2) (infoDieOff F p.1 p.2) p.2.tree.root).attrs none with
  | none => rw [hl] at hattr; exact absurd hattr (by simp [StmtRel])
  | some a =>
    rw [hl] at hattr
    simp only [StmtRel] at hattr
    simp only [hattr, parseAt_int]
    unfold parseAtNat
    cases hf : cache.find? (·.1 == v) with
    | some ox =>
      obtain ⟨o, x⟩ := ox
      have hmem := List.mem_of_find?_eq_some hf
      have hkey : o = v := by simpa using List.find?_some hf
      subst hkey
      obtain ⟨i', d', hd', ho, hx⟩ := hc _ _ hmem
      obtain ⟨rfl, rfl⟩ := lineOff_inj hd' hd (by rw [← ho, hv])
      exact ⟨x, cache, rfl, hx, hc, hf⟩
    | none =>
      obtain ⟨pre, rest, hsplit, hpre⟩ := lineSec_split L i d tail hd
      have hS := infoCtx_S hfull F dasz p hcfg
      have hE := infoCtx_env hfull F dasz p hcfg
      have hparse := parseFreshX_all (env := Model.dwarfEnv (Spec.dwarfStructs (p.2.cfg F.le))) (cfg := p.2.cfg F.le)
        (lineSecsOf F.secs (sup.map some)) d.h (strSecsOf F sup) d.ext d.body pre rest hwfX hle
        (by show (if p.2.fmt64 = true then 64 else 32) = _; rw [hfmt])
        (fun _ => henv _)
        (fun h5 => by
          rcases hv5 with h | h
          · omega
          · exact secsView_of F sup hW h.1 h.2 (linesOK_sup hlines))
      have hfm : (infoCtx F dasz p).fmt = (p.2.cfg F.le).fmt := rfl
      have hsec : (infoCtx F dasz p).secs = F.secs := rfl
      simp only [lineWorld, hS, hE, hfm, hsec, hsplit, hv, ← hpre]
      rw [show LineUnitDesc.enc d = encodeUnitX d.h d.ext d.body from rfl, hparse]
      have hx : LPIs F L sup i d ⟨lpOfX d.h (strSecsOf F sup) d.ext d.body pre.length, Spec.dwarfStructs (p.2.cfg F.le)⟩ :=
        ⟨by rw [hpre], p.2.cfg F.le, rfl, hle, hasz⟩
      refine ⟨_, _, rfl, hx, ?_, ?_⟩
      · intro o y hy
        rcases List.mem_append.1 hy with hy | hy
        · exact hc o y hy
        · simp only [List.mem_singleton, Prod.mk.injEq] at hy
          obtain ⟨rfl, rfl⟩ := hy
          exact ⟨i, d, hd, hpre, hx⟩
      · rw [List.find?_append, show pre.length = v by rw [hpre, hv], hf]
        simp

end

/-! ### the rows of a program object -/

theorem two_pow_63 : (2 : Nat) ^ 63 = 9223372036854775808 := by decide

/-- `get_entries()` (first call) on the object of program `i`, whichever unit's bundle it was created with: the
    rows of the standard's machine; decoding ends at the program's end; DW_LNE_define_file entries are appended
    to the file table -/
theorem decode_LPIs (F : Forest) (L : List LineUnitDesc) (tail : Bytes) (sup : Option Bytes)
    (hlines : linesOKB F L tail sup = true) (ed : String → Int → Option String)
    (i : Nat) (d : LineUnitDesc) (hd : L[i]? = some d) (x : LP) (hx : LPIs F L sup i d x) :
    ∃ entries,
      decodeLP ed specConsts (encLineSec L tail) x
        = .ok (entries, x.lp.fileEntry.map (· ++ (definedFiles d.is).map FileEntry.obs), lineOff L i + d.enc.length)
      ∧ rowsOf entries = stdRun d.h.p d.is := by
  obtain ⟨hlp, c, hS, hle, hasz⟩ := hx
  have hok := linesOK_unit hlines d (List.mem_of_getElem? hd)
  simp only [lineUnitOKB, Bool.and_eq_true, Bool.or_eq_true, decide_eq_true_eq] at hok
  obtain ⟨⟨⟨⟨hwfX, hstd⟩, hprog⟩, _⟩, _⟩ := hok
  obtain ⟨pre, rest, hsplit, hpre⟩ := lineSec_split L i d tail hd
  have hlen := linesOK_len hlines
  have hsz : pre.length + (encodeUnitX d.h d.ext (encodeProgram d.h.p d.is)).length ≤ ssizeMax := by
    have : (encLineSec L tail).length = pre.length + d.enc.length + rest.length := by
      rw [hsplit]; simp only [List.length_append]
    have e : d.enc = encodeUnitX d.h d.ext (encodeProgram d.h.p d.is) := rfl
    rw [two_pow_63] at hlen
    rw [← e]; simp only [ssizeMax]; omega
  obtain ⟨es, hrun, hrows⟩ := decode_lpOfX (env := envOf ed (Spec.dwarfStructs c)) (cfg := c) d.h (strSecsOf F sup) d.ext d.is pre rest
    hwfX hstd hprog hle hasz hsz
  refine ⟨es, ?_, hrows⟩
  unfold decodeLP
  rw [hS, hlp, hsplit, ← hpre]
  exact hrun

/-! ### all units: `[line_program_for_CU(cu) for cu in iter_CUs()]` -/

/-- two lists agree position by position -/
def Forall2 {α β : Type} (P : α → β → Prop) : List α → List β → Prop
  | [], [] => True
  | a :: as, b :: bs => P a b ∧ Forall2 P as bs
  | _, _ => False

theorem Forall2.get {α β : Type} {P : α → β → Prop} : ∀ {as : List α} {bs : List β}, Forall2 P as bs →
    as.length = bs.length ∧ ∀ (k : Nat) (a : α), as[k]? = some a → ∃ b, bs[k]? = some b ∧ P a b := by
  intro as
  induction as with
  | nil => intro bs h; cases bs with
    | nil => exact ⟨rfl, fun k a h => by simp at h⟩
    | cons b bs => cases h
  | cons a as ih =>
    intro bs h
    cases bs with
    | nil => cases h
    | cons b bs =>
      obtain ⟨h1, h2⟩ := h
      obtain ⟨hl, hk⟩ := ih h2
      refine ⟨by simp [hl], fun k x hx => ?_⟩
      cases k with
      | zero =>
        simp only [List.getElem?_cons_zero, Option.some.injEq] at hx
        subst hx
        exact ⟨b, rfl, h1⟩
      | succ k =>
        simp only [List.getElem?_cons_succ] at hx ⊢
        exact hk k x hx

/-- what `line_program_for_CU` must return for the unit `u`: nothing without DW_AT_stmt_list; the object of the
    program lying at the offset the attribute holds -/
def UnitResult (F : Forest) (L : List LineUnitDesc) (sup : Option Bytes) (u : UnitDesc) (r : R (Option LP)) : Prop :=
  match stmtRef u.tree.root with
  | .absent => r = .ok none
  | .at v => ∀ i d, L[i]? = some d → v = lineOff L i → ∃ x, r = .ok (some x) ∧ LPIs F L sup i d x
  | .other => True

theorem linesOK_at_ex {F : Forest} {L : List LineUnitDesc} {tail : Bytes} {sup : Option Bytes}
    (h : linesOKB F L tail sup = true) (u : UnitDesc) (hu : u ∈ F.units) (v : Nat) (hst : stmtRef u.tree.root = .at v) :
    ∃ i d, L[i]? = some d ∧ v = lineOff L i := by
  simp only [linesOKB, Bool.and_eq_true, List.all_eq_true] at h
  have hU := h.1.1.2 u hu
  unfold unitLineOKB at hU
  rw [hst] at hU
  simp only [List.any_eq_true, List.mem_range] at hU
  obtain ⟨i', _, hi'⟩ := hU
  cases hd' : L[i']? with
  | none => rw [hd'] at hi'; cases hi'
  | some d' =>
    rw [hd'] at hi'
    simp only [Bool.and_eq_true, decide_eq_true_eq] at hi'
    exact ⟨i', d', hd', hi'.1.1⟩

section
variable (hfull : ∀ c ∈ Spec.allDwarfCfgs, Model.dwarfStructsFor c = some (Spec.dwarfStructs c))
variable (henv : ∀ S, EnvOK (Model.dwarfEnv S))
variable (hname : ∀ k, (genNames.at_ k == Val.str "DW_AT_stmt_list") = (k == 0x10))
include hfull henv hname

theorem loop_forest (F : Forest) (dasz : Nat) (hdasz : dasz = 4 ∨ dasz = 8) (hwf : wfForestB genNames F = true)
    (L : List LineUnitDesc) (tail : Bytes) (sup : Option Bytes) (hlines : linesOKB F L tail sup = true) :
    ∀ (ps : List (Nat × UnitDesc)), (∀ p ∈ ps, p ∈ placeInfo F 0 F.units) → ∀ cache, LCacheOK F L sup cache →
      Forall2 (fun p r => r.1 = cuOf F.le p.1 (infoUnitOf F p.2) ∧ UnitResult F L sup p.2 r.2) ps
        (lineProgramsLoop (lineWorld L tail sup)
          (ps.map fun p => (cuOf F.le p.1 (infoUnitOf F p.2), (.ok (infoCtx F dasz p) : R UnitCtx))) cache) := by
  intro ps
  induction ps with
  | nil => intro _ cache _; exact trivial
  | cons p ps ih =>
    intro hps cache hc
    have hp := hps p List.mem_cons_self
    have hu : p.2 ∈ F.units := Proofs.C04.mem_placeInfo F _ _ p hp
    have hrest : ∀ q ∈ ps, q ∈ placeInfo F 0 F.units := fun q hq => hps q (List.mem_cons_of_mem _ hq)
    simp only [List.map_cons, lineProgramsLoop, bind, Except.bind]
    cases hst : stmtRef p.2.tree.root with
    | absent =>
      rw [unit_absent hname F dasz hdasz hwf _ p hp hst cache]
      refine ⟨⟨rfl, ?_⟩, ih hrest cache hc⟩
      simp only [UnitResult, hst]
    | «at» v =>
      obtain ⟨i, d, hd, hv⟩ := linesOK_at_ex hlines p.2 hu v hst
      obtain ⟨x, cache', hrun, hx, hc', _⟩ := unit_at hfull henv hname F dasz hdasz hwf L tail sup hlines p hp v hst i d hd hv
        cache hc
      rw [hrun]
      refine ⟨⟨rfl, ?_⟩, ih hrest cache' hc'⟩
      simp only [UnitResult, hst]
      intro i' d' hd' hv'
      obtain ⟨rfl, rfl⟩ := lineOff_inj hd' hd (by rw [← hv', hv])
      exact ⟨x, rfl, hx⟩
    | other => exact absurd hst (linesOK_not_other hlines p.2 hu)

/-- `[(cu, dwarfinfo.line_program_for_CU(cu)) for cu in dwarfinfo.iter_CUs()]` from the section bytes of a
    well-formed forest and a fitting `.debug_line`: the described units in order, no exception ends the iteration,
    each unit gets what its top entry designates -/
theorem infoLinePrograms_forest (F : Forest) (dasz : Nat) (hdasz : dasz = 4 ∨ dasz = 8) (hwf : wfForestB genNames F = true)
    (L : List LineUnitDesc) (tail : Bytes) (sup : Option Bytes) (hlines : linesOKB F L tail sup = true) :
    ∃ res, infoLinePrograms (forestDInfo F dasz) (genBundles F.le dasz).S0 (lineWorld L tail sup) = (res, none)
      ∧ Forall2 (fun p r => r.1 = cuOf F.le p.1 (infoUnitOf F p.2) ∧ UnitResult F L sup p.2 r.2)
          (placeInfo F 0 F.units) res := by
  refine ⟨_, ?_, loop_forest hfull henv hname F dasz hdasz hwf L tail sup hlines _ (fun _ h => h) [] (lcacheOK_nil F L sup)⟩
  unfold infoLinePrograms
  rw [show (forestDInfo F dasz).info = some (infoSec F) from rfl, Props.C04.debug_info_units F dasz hdasz hwf]

end

/-! ### a DW_AT_stmt_list that designates nothing -/

/-- fewer than four bytes at the offset (in particular an offset at or beyond the end of `.debug_line`): the
    `unit_length` field cannot be read, `struct_parse` raises ELFParseError -/
theorem parseFresh_truncated (env : Env) (c : DwarfCfg) (fmt : Nat) (secs : Secs) (data : Bytes) (off : Nat)
    (h : data.length < off + 4) :
    parseLineProgramFresh env (Spec.dwarfStructs c) fmt secs data off = .error .elfParseError := by
  have hr : readExact data off 4 = .error .elfParseError := by
    unfold readExact readN
    have : ¬ ((data.drop off).take 4).length = 4 := by
      simp only [List.length_take, List.length_drop]; omega
    rw [if_neg this]
  obtain ⟨rest, hS⟩ : ∃ rest, (Spec.dwarfStructs c).Dwarf_lineprog_header
      = .struct (.cons (some "unit_length") false (.initialLength c.le) rest) := ⟨_, rfl⟩
  unfold parseLineProgramFresh
  rw [parseHeader_eq off hS]
  simp [parseHeaderFields, parseHeaderField, Con.parse, hr, bind, Except.bind, Except.map]

section
variable (hfull : ∀ c ∈ Spec.allDwarfCfgs, Model.dwarfStructsFor c = some (Spec.dwarfStructs c))
variable (hname : ∀ k, (genNames.at_ k == Val.str "DW_AT_stmt_list") = (k == 0x10))
include hname

/-- what `line_program_for_CU` does on a unit whose DW_AT_stmt_list holds `v`, in terms of
    `_parse_line_program_at_offset` -/
theorem unit_at_eq (F : Forest) (dasz : Nat) (hdasz : dasz = 4 ∨ dasz = 8) (hwf : wfForestB genNames F = true)
    (W : LineWorld) (p : Nat × UnitDesc) (hp : p ∈ placeInfo F 0 F.units) (v : Nat) (hst : stmtRef p.2.tree.root = .at v)
    (cache : LCache) :
    lineProgramForUnit W (infoCtx F dasz p) cache
      = (match parseAtNat W (infoCtx F dasz p) cache v with
         | .error e => .error e
         | .ok (x, c) => .ok (some x, c)) := by
  have hattr := forest_stmt_attr F p.2 (infoDieOff F p.1 p.2) hname
  rw [hst] at hattr
  unfold lineProgramForUnit
  simp only [forest_getTopDIE F dasz hdasz hwf p hp, bind, Except.bind]
  cases hl' : lastNamed (.str "DW_AT_stmt_list")
      (Spec.C04.entryObs genNames (p.2.cfg F.le) (unitRho F p.2) (infoDieOff F p.1 p.2) p.2.tree.root).attrs none with
  | none => rw [hl'] at hattr; exact absurd hattr (by simp [StmtRel])
  | some a =>
    rw [hl'] at hattr
    simp only [StmtRel] at hattr
    simp only [hattr, parseAt_int]
    cases parseAtNat W (infoCtx F dasz p) cache v <;> rfl

/-- … without a `.debug_line` section: AttributeError (`self.debug_line_sec` is None) -/
theorem unit_no_section (F : Forest) (dasz : Nat) (hdasz : dasz = 4 ∨ dasz = 8) (hwf : wfForestB genNames F = true)
    (W : LineWorld) (hW : W.line = none) (p : Nat × UnitDesc) (hp : p ∈ placeInfo F 0 F.units) (v : Nat)
    (hst : stmtRef p.2.tree.root = .at v) (cache : LCache) (hf : cache.find? (·.1 == v) = none) :
    lineProgramForUnit W (infoCtx F dasz p) cache = .error .attributeError := by
  rw [unit_at_eq hname F dasz hdasz hwf W p hp v hst cache]
  simp only [parseAtNat, hf, hW]

include hfull

/-- … with an offset at which `.debug_line` (any bytes) has fewer than four bytes left — in particular an offset
    at or beyond the end of the section — and which is not cached: ELFParseError -/
theorem unit_beyond (F : Forest) (dasz : Nat) (hdasz : dasz = 4 ∨ dasz = 8) (hwf : wfForestB genNames F = true)
    (W : LineWorld) (data : Bytes) (hW : W.line = some data) (p : Nat × UnitDesc) (hp : p ∈ placeInfo F 0 F.units)
    (v : Nat) (hst : stmtRef p.2.tree.root = .at v) (hlt : data.length < v + 4)
    (cache : LCache) (hf : cache.find? (·.1 == v) = none) :
    lineProgramForUnit W (infoCtx F dasz p) cache = .error .elfParseError := by
  have hWf := Proofs.C04.wfForest_of_B genNames F hwf
  have hu : p.2 ∈ F.units := Proofs.C04.mem_placeInfo F _ _ p hp
  have hcfg := Proofs.C04.wfUnit_cfg_mem (hWf.infoHdr p.2 hu)
  rw [unit_at_eq hname F dasz hdasz hwf W p hp v hst cache]
  simp only [parseAtNat, hf, hW, infoCtx_S hfull F dasz p hcfg, parseFresh_truncated _ _ _ _ _ _ hlt, bind, Except.bind]

end

end PyElf.Proofs.LineInfo
