/-
  C06 helper lemmas: header parses — generic `Struct` stepping, pointer-encoded fields
  (`_eh_encoding_to_field`), the CIE header, the augmentation `Struct` built at run time,
  the FDE headers of both section kinds.
-/
import PyElf.Spec.CFI
import PyElf.Spec.DwarfStructs
import PyElf.Model.CallFrame
import PyElf.Proofs.Primitives
import PyElf.Proofs.CfiParse
namespace PyElf.Proofs.Cfi
open PyElf PyElf.Spec PyElf.Model PyElf.Proofs

/-! ### `Fields` -/

theorem fget_set_same (obj : Fields) (k : String) (v : Val) : Fields.get? (Fields.set obj k v) k = some v := by
  induction obj with
  | nil => simp [Fields.set, Fields.get?]
  | cons p obj ih =>
    obtain ⟨k', v'⟩ := p
    by_cases h : k' = k
    · simp [Fields.set, Fields.get?, h]
    · simp [Fields.set, Fields.get?, h, ih]

theorem fget_set_other (obj : Fields) (k k' : String) (v : Val) (hne : k ≠ k') :
    Fields.get? (Fields.set obj k v) k' = Fields.get? obj k' := by
  induction obj with
  | nil => simp [Fields.set, Fields.get?, hne]
  | cons p obj ih =>
    obtain ⟨k0, v0⟩ := p
    by_cases h : k0 = k
    · subst h; simp [Fields.set, Fields.get?, hne]
    · by_cases h' : k0 = k'
      · subst h'; simp [Fields.set, Fields.get?, h]
      · simp [Fields.set, Fields.get?, h, h', ih]

theorem fget_append (a b : Fields) (k : String) :
    Fields.get? (a ++ b) k = match Fields.get? a k with | some v => some v | none => Fields.get? b k := by
  induction a with
  | nil => simp [Fields.get?]
  | cons p a ih =>
    obtain ⟨k0, v0⟩ := p
    by_cases h : k0 = k
    · simp [Fields.get?, h]
    · simp [Fields.get?, h, ih]

/-- a fresh key is appended -/
theorem fset_fresh (d : Fields) (k : String) (v : Val) (h : Fields.get? d k = none) :
    Fields.set d k v = d ++ [(k, v)] := by
  induction d with
  | nil => rfl
  | cons p d ih =>
    obtain ⟨k0, v0⟩ := p
    by_cases h0 : k0 = k
    · simp [Fields.get?, h0] at h
    · simp only [Fields.get?, h0, if_false] at h
      simp [Fields.set, h0, ih h]

/-! ### stepping through `Struct._parse` -/

theorem pf_step {env : Env} {data : Bytes} {nm : String} {c : Con} {rest : ConFields} {obj ctx ctx' : Fields}
    {pos p : Nat} {v : Val} (h : Con.parse env data c ctx pos = .ok (v, p, ctx')) :
    Con.parseFields env data (.cons (some nm) false c rest) obj ctx pos
      = Con.parseFields env data rest (Fields.set obj nm v) (Fields.set ctx' nm v) p := by
  rw [Con.parseFields]
  simp [h, bind, Except.bind]

theorem pf_nil {env : Env} {data : Bytes} {obj ctx : Fields} {pos : Nat} :
    Con.parseFields env data .nil obj ctx pos = .ok (obj, pos, ctx) := by
  rw [Con.parseFields]

theorem parse_struct {env : Env} {data : Bytes} {fs : ConFields} {ctx obj ctx' : Fields} {pos p : Nat}
    (h : Con.parseFields env data fs [] [] pos = .ok (obj, p, ctx')) :
    Con.parse env data (.struct fs) ctx pos = .ok (.record obj, p, ctx) := by
  rw [Con.parse]
  simp [h, bind, Except.bind, pure, Except.pure]

/-- forget the final context of a field-list parse -/
def dropCtx (r : R (Fields × Nat × Fields)) : R (Fields × Nat) := r.map fun x => (x.1, x.2.1)

theorem dropCtx_ok {r : R (Fields × Nat × Fields)} {obj : Fields} {p : Nat} (h : dropCtx r = .ok (obj, p)) :
    ∃ ctx', r = .ok (obj, p, ctx') := by
  cases r with
  | error e => simp [dropCtx, Except.map] at h
  | ok x =>
    obtain ⟨o, q, c⟩ := x
    simp only [dropCtx, Except.map, Except.ok.injEq, Prod.mk.injEq] at h
    exact ⟨c, by rw [h.1, h.2]⟩

theorem parse_struct' {env : Env} {data : Bytes} {fs : ConFields} {ctx obj : Fields} {pos p : Nat}
    (h : dropCtx (Con.parseFields env data fs [] [] pos) = .ok (obj, p)) :
    Con.parse env data (.struct fs) ctx pos = .ok (.record obj, p, ctx) := by
  obtain ⟨c, hc⟩ := dropCtx_ok h
  exact parse_struct hc

theorem sp_of_parse {env : Env} {data : Bytes} {c : Con} {ctx' : Fields} {pos p : Nat} {v : Val}
    (h : Con.parse env data c [] pos = .ok (v, p, ctx')) : structParse env c data pos = .ok (v, p) := by
  simp [structParse, h, bind, Except.bind, pure, Except.pure]

/-- a `Struct` whose field list is a concatenation parses the first part, then the second -/
theorem pf_append (env : Env) (data : Bytes) (a b : List (String × Con)) :
    ∀ (obj ctx : Fields) (pos : Nat),
    Con.parseFields env data (mkStruct (a ++ b)) obj ctx pos
      = (Con.parseFields env data (mkStruct a) obj ctx pos).bind
          (fun r => Con.parseFields env data (mkStruct b) r.1 r.2.2 r.2.1) := by
  induction a with
  | nil => intro obj ctx pos; simp [mkStruct, pf_nil, Except.bind]
  | cons x a ih =>
    intro obj ctx pos
    obtain ⟨n, c⟩ := x
    simp only [List.cons_append, mkStruct]
    rw [Con.parseFields, Con.parseFields]
    simp only [Bool.false_eq_true, if_false, bind, Except.bind]
    cases Con.parse env data c ctx pos with
    | error e => rfl
    | ok r => obtain ⟨v, p, ctx'⟩ := r; exact ih _ _ _

/-! ### minimal LEB128 (pointer values under DW_EH_PE_uleb128 / sleb128) -/

theorem ulebLen_pos (v : Nat) : 1 ≤ ulebLen v := by
  unfold ulebLen; split <;> omega

theorem ulebLen_spec (v : Nat) : v < 2 ^ (7 * ulebLen v) := by
  induction v using Nat.strongRecOn with
  | _ v ih =>
    unfold ulebLen
    split
    · omega
    · have h := ih (v / 128) (by omega)
      have e : 2 ^ (7 * (1 + ulebLen (v / 128))) = 128 * 2 ^ (7 * ulebLen (v / 128)) := by
        rw [Nat.mul_add, Nat.pow_add]
      rw [e]; omega

theorem cfiSlebLen_spec (v : Int) :
    1 ≤ cfiSlebLen v ∧ -((2 ^ (7 * cfiSlebLen v - 1) : Nat) : Int) ≤ v ∧ v < ((2 ^ (7 * cfiSlebLen v - 1) : Nat) : Int) := by
  have h1 := ulebLen_pos (2 * v.natAbs)
  have h2 := ulebLen_spec (2 * v.natAbs)
  have e : 2 ^ (7 * ulebLen (2 * v.natAbs)) = 2 * 2 ^ (7 * ulebLen (2 * v.natAbs) - 1) := by
    rw [← Nat.pow_succ']; congr 1; omega
  rw [e] at h2
  unfold cfiSlebLen
  generalize 2 ^ (7 * ulebLen (2 * v.natAbs) - 1) = H at *
  omega

/-! ### pointer-encoded fields -/

/-- `_eh_encoding_to_field(structs)[basic]`, per the LSB table -/
def ptrCon (le : Bool) (asz : Nat) : Nat → Option Con
  | 0x00 => some (.uint asz le)
  | 0x01 => some .uleb
  | 0x02 => some (.uint 2 le)
  | 0x03 => some (.uint 4 le)
  | 0x04 => some (.uint 8 le)
  | 0x09 => some .sleb
  | 0x0a => some (.sint 2 le)
  | 0x0b => some (.sint 4 le)
  | 0x0c => some (.sint 8 le)
  | _ => none

theorem ptrCon_of_baseOk (le : Bool) (asz e : Nat) (h : baseOk e = true) : ∃ c, ptrCon le asz (e % 16) = some c := by
  have h16 : e % 16 < 16 := Nat.mod_lt _ (by decide)
  simp only [baseOk] at h
  generalize e % 16 = b at *
  have : b = 0 ∨ b = 1 ∨ b = 2 ∨ b = 3 ∨ b = 4 ∨ b = 9 ∨ b = 0xa ∨ b = 0xb ∨ b = 0xc := by
    simpa using h
  rcases this with rfl | rfl | rfl | rfl | rfl | rfl | rfl | rfl | rfl <;> exact ⟨_, rfl⟩

theorem ehField_spec (le : Bool) (fmt asz ver b : Nat) (c : Con) (h : ptrCon le asz b = some c) :
    ehField Spec.cfiTables (Spec.dwarfStructs ⟨le, fmt, asz, ver⟩) b = .ok c := by
  unfold ptrCon at h
  split at h <;> first | (injection h with h; subst h; rfl) | (exact absurd h (by simp))

theorem sp_toNat {v : Int} (h : 0 ≤ v) : ((v.toNat : Nat) : Int) = v := Int.toNat_of_nonneg h

theorem parse_ptr {env : Env} {data : Bytes} {pos : Nat} {ctx : Fields} {le : Bool} {asz base : Nat} {v : Int}
    {c : Con} {rest : Bytes} (hc : ptrCon le asz base = some c) (hf : ptrFits asz base v = true)
    (hd : data.drop pos = encPtr le asz base v ++ rest) :
    Con.parse env data c ctx pos = .ok (.int v, pos + (encPtr le asz base v).length, ctx) := by
  unfold ptrCon at hc
  split at hc <;> first | (injection hc with hc; subst hc) | (exact absurd hc (by simp))
  · -- absptr
    simp only [ptrFits, Bool.and_eq_true, decide_eq_true_eq] at hf
    simp only [encPtr] at hd ⊢
    have hlt : v.toNat < 256 ^ asz := by omega
    rw [parse_uint_ok hd (encNat_length ..), decNat_encNat_of_lt le hlt, encNat_length, sp_toNat hf.1]
  · -- uleb128
    simp only [ptrFits, decide_eq_true_eq] at hf
    simp only [encPtr] at hd ⊢
    have := parse_uleb_ok (env := env) (ctx := ctx) hd (encUlebN_valid _ _ (ulebLen_pos _))
    rw [this]
    simp only [ulebVal_enc_of_lt (ulebLen_spec _), ulebMin, sp_toNat hf]
  · simp only [ptrFits, Bool.and_eq_true, decide_eq_true_eq] at hf
    simp only [encPtr] at hd ⊢
    have hlt : v.toNat < 256 ^ 2 := by omega
    rw [parse_uint_ok hd (encNat_length ..), decNat_encNat_of_lt le hlt, encNat_length, sp_toNat hf.1]
  · simp only [ptrFits, Bool.and_eq_true, decide_eq_true_eq] at hf
    simp only [encPtr] at hd ⊢
    have hlt : v.toNat < 256 ^ 4 := by omega
    rw [parse_uint_ok hd (encNat_length ..), decNat_encNat_of_lt le hlt, encNat_length, sp_toNat hf.1]
  · simp only [ptrFits, Bool.and_eq_true, decide_eq_true_eq] at hf
    simp only [encPtr] at hd ⊢
    have hlt : v.toNat < 256 ^ 8 := by omega
    rw [parse_uint_ok hd (encNat_length ..), decNat_encNat_of_lt le hlt, encNat_length, sp_toNat hf.1]
  · -- sleb128
    simp only [encPtr] at hd ⊢
    have hw := cfiSlebLen_spec v
    have := parse_sleb_ok (env := env) (ctx := ctx) hd (encSlebN_valid _ _ hw.1)
    rw [this]
    simp only [cfiSlebMin, slebVal_enc _ _ hw.1 hw.2.1 hw.2.2]
  · simp only [ptrFits, Bool.and_eq_true, decide_eq_true_eq] at hf
    simp only [encPtr] at hd ⊢
    rw [parse_sint_ok hd (encNat_length ..), encNat_length]
    have := sint_codec le 2 v (by decide) (by simpa using hf.1) (by simpa using hf.2)
    simp only [this]
  · simp only [ptrFits, Bool.and_eq_true, decide_eq_true_eq] at hf
    simp only [encPtr] at hd ⊢
    rw [parse_sint_ok hd (encNat_length ..), encNat_length]
    have := sint_codec le 4 v (by decide) (by simpa using hf.1) (by simpa using hf.2)
    simp only [this]
  · simp only [ptrFits, Bool.and_eq_true, decide_eq_true_eq] at hf
    simp only [encPtr] at hd ⊢
    rw [parse_sint_ok hd (encNat_length ..), encNat_length]
    have := sint_codec le 8 v (by decide) (by simpa using hf.1) (by simpa using hf.2)
    simp only [this]

/-! ### the CIE header (`Dwarf_CIE_header` = `EH_CIE_header`) -/

def cieRest (le : Bool) (osz : Nat) : ConFields :=
  .cons (some "CIE_id") false (.uint osz le)
  (.cons (some "version") false (.uint 1 le)
  (.cons (some "augmentation") false .cstring
  (.cons (some "address_size") false (.ifThenElse (.ge (.ctx "version") (.lit 4)) (.uint 1 le) (.value .none))
  (.cons (some "segment_size") false (.ifThenElse (.ge (.ctx "version") (.lit 4)) (.uint 1 le) (.value .none))
  (.cons (some "code_alignment_factor") false .uleb
  (.cons (some "data_alignment_factor") false .sleb
  (.cons (some "return_address_register") false (.ifThenElse (.gt (.ctx "version") (.lit 1)) .uleb (.uint 1 le))
    .nil)))))))

def cieCon (le : Bool) (osz : Nat) : Con := .struct (.cons (some "length") false (.initialLength le) (cieRest le osz))

theorem cie_header_eq (le : Bool) (fmt asz ver : Nat) :
    (Spec.dwarfStructs ⟨le, fmt, asz, ver⟩).Dwarf_CIE_header = cieCon le (fmt / 8) := by
  simp [Spec.dwarfStructs, Spec.st, Spec.f, Spec.mkFields, Spec.ifc, Spec.ctx, Spec.lit, cieCon, cieRest]

theorem eh_cie_header_eq (le : Bool) (fmt asz ver : Nat) :
    (Spec.dwarfStructs ⟨le, fmt, asz, ver⟩).EH_CIE_header = cieCon le (fmt / 8) := by
  simp [Spec.dwarfStructs, Spec.st, Spec.f, Spec.mkFields, Spec.ifc, Spec.ctx, Spec.lit, cieCon, cieRest]

/-- the bytes of a CIE after the length field up to the return-address register, followed by `rest` -/
def cieTail (ver a s : Nat) (caf : ULeb) (daf : SLeb) (ra : ULeb) (rest : Bytes) : Bytes :=
  (if ver ≥ 4 then byte a ++ byte s else [])
    ++ (caf.enc ++ (daf.enc ++ ((if ver = 1 then byte ra.v else ra.enc) ++ rest)))

def cieHdrBytes (le : Bool) (osz idv ver : Nat) (aug : Bytes) (a s : Nat) (caf : ULeb) (daf : SLeb) (ra : ULeb)
    (rest : Bytes) : Bytes :=
  encNat le osz idv ++ (byte ver ++ (aug ++ (0 :: cieTail ver a s caf daf ra rest)))

def cieHdrLen (osz ver : Nat) (aug : Bytes) (caf : ULeb) (daf : SLeb) (ra : ULeb) : Nat :=
  osz + 1 + aug.length + 1 + (if ver ≥ 4 then 2 else 0) + caf.n + daf.n + (if ver = 1 then 1 else ra.n)

def cieFields (len idv ver : Nat) (aug : Bytes) (a s : Nat) (caf daf : Int) (ra : Nat) : Fields :=
  [("length", .int len), ("CIE_id", .int idv), ("version", .int ver), ("augmentation", .bytes aug),
   ("address_size", if ver ≥ 4 then .int a else .none), ("segment_size", if ver ≥ 4 then .int s else .none),
   ("code_alignment_factor", .int caf), ("data_alignment_factor", .int daf), ("return_address_register", .int ra)]

theorem parse_cstring_ok' {env : Env} {data : Bytes} {pos : Nat} {ctx : Fields} {s rest : Bytes}
    (hs : ∀ b ∈ s, b ≠ 0) (hd : data.drop pos = s ++ (0 :: rest)) :
    Con.parse env data .cstring ctx pos = .ok (.bytes s, pos + s.length + 1, ctx) :=
  parse_cstring_ok hs (rest := rest) (by rw [hd]; simp)

theorem parse_byte {env : Env} {data : Bytes} {pos x : Nat} {le : Bool} {ctx : Fields} {rest : Bytes}
    (hd : data.drop pos = byte x ++ rest) (hx : x < 256) :
    Con.parse env data (.uint 1 le) ctx pos = .ok (.int x, pos + 1, ctx) := by
  rw [parse_uint_ok (env := env) (le := le) (ctx := ctx) (n := 1) hd rfl]
  have : (UInt8.ofNat x).toNat = x := by simp [UInt8.toNat_ofNat', Nat.mod_eq_of_lt hx]
  simp only [byte, decNat_singleton, this]

theorem parse_uintv {env : Env} {data : Bytes} {pos n v : Nat} {le : Bool} {ctx : Fields} {rest : Bytes}
    (hd : data.drop pos = encNat le n v ++ rest) (hv : v < 256 ^ n) :
    Con.parse env data (.uint n le) ctx pos = .ok (.int v, pos + n, ctx) := by
  rw [parse_uint_ok hd (encNat_length le n v), decNat_encNat_of_lt le hv]

theorem parse_ulebv {env : Env} {data : Bytes} {pos : Nat} {ctx : Fields} {u : ULeb} {rest : Bytes}
    (hd : data.drop pos = u.enc ++ rest) (hw : u.wf = true) :
    Con.parse env data .uleb ctx pos = .ok (.int u.v, pos + u.n, ctx) := by
  simp only [ULeb.wf, Bool.and_eq_true, decide_eq_true_eq] at hw
  have h := parse_uleb_ok (env := env) (ctx := ctx) hd (show ValidLEB u.enc = true from encUlebN_valid u.n u.v hw.1)
  simp only [ULeb.enc] at h
  rw [ulebVal_enc_of_lt hw.2, encUlebN_length] at h
  exact h

theorem parse_slebv {env : Env} {data : Bytes} {pos : Nat} {ctx : Fields} {u : SLeb} {rest : Bytes}
    (hd : data.drop pos = u.enc ++ rest) (hw : u.wf = true) :
    Con.parse env data .sleb ctx pos = .ok (.int u.v, pos + u.n, ctx) := by
  simp only [SLeb.wf, Bool.and_eq_true, decide_eq_true_eq] at hw
  have h := parse_sleb_ok (env := env) (ctx := ctx) hd (show ValidLEB u.enc = true from encSlebN_valid u.n u.v hw.1.1)
  simp only [SLeb.enc] at h
  rw [slebVal_enc u.n u.v hw.1.1 hw.1.2 hw.2, encSlebN_length] at h
  exact h

theorem parse_if_ge4_yes {env : Env} {data : Bytes} {pos x ver : Nat} {le : Bool} {ctx : Fields} {rest : Bytes}
    (hctx : Fields.get? ctx "version" = some (.int ver)) (hv : 4 ≤ ver)
    (hd : data.drop pos = byte x ++ rest) (hx : x < 256) :
    Con.parse env data (.ifThenElse (.ge (.ctx "version") (.lit 4)) (.uint 1 le) (.value .none)) ctx pos
      = .ok (.int x, pos + 1, ctx) := by
  have hge : ((ver : Int) ≥ 4) := by omega
  rw [Con.parse]
  simp only [Expr.eval, Fields.getR, hctx, bind, Except.bind, Expr.cmp, Val.asInt, pure, Except.pure, Val.truthy, hge,
    decide_true, if_true]
  exact parse_byte hd hx

theorem parse_if_ge4_no {env : Env} {data : Bytes} {pos ver : Nat} {le : Bool} {ctx : Fields}
    (hctx : Fields.get? ctx "version" = some (.int ver)) (hv : ver < 4) :
    Con.parse env data (.ifThenElse (.ge (.ctx "version") (.lit 4)) (.uint 1 le) (.value .none)) ctx pos
      = .ok (.none, pos, ctx) := by
  have hge : ¬ ((ver : Int) ≥ 4) := by omega
  rw [Con.parse]
  simp only [Expr.eval, Fields.getR, hctx, bind, Except.bind, Expr.cmp, Val.asInt, pure, Except.pure, Val.truthy, hge,
    decide_false, Bool.false_eq_true, if_false]
  rw [Con.parse]
  simp [Expr.eval, bind, Except.bind, pure, Except.pure]

theorem parse_ra_uleb {env : Env} {data : Bytes} {pos ver : Nat} {le : Bool} {ctx : Fields} {u : ULeb} {rest : Bytes}
    (hctx : Fields.get? ctx "version" = some (.int ver)) (hv : 1 < ver)
    (hd : data.drop pos = u.enc ++ rest) (hw : u.wf = true) :
    Con.parse env data (.ifThenElse (.gt (.ctx "version") (.lit 1)) .uleb (.uint 1 le)) ctx pos
      = .ok (.int u.v, pos + u.n, ctx) := by
  have hgt : ((ver : Int) > 1) := by omega
  rw [Con.parse]
  simp only [Expr.eval, Fields.getR, hctx, bind, Except.bind, Expr.cmp, Val.asInt, pure, Except.pure, Val.truthy, hgt,
    decide_true, if_true]
  exact parse_ulebv hd hw

theorem parse_ra_byte {env : Env} {data : Bytes} {pos ver x : Nat} {le : Bool} {ctx : Fields} {rest : Bytes}
    (hctx : Fields.get? ctx "version" = some (.int ver)) (hv : ver ≤ 1)
    (hd : data.drop pos = byte x ++ rest) (hx : x < 256) :
    Con.parse env data (.ifThenElse (.gt (.ctx "version") (.lit 1)) .uleb (.uint 1 le)) ctx pos
      = .ok (.int x, pos + 1, ctx) := by
  have hgt : ¬ ((ver : Int) > 1) := by omega
  rw [Con.parse]
  simp only [Expr.eval, Fields.getR, hctx, bind, Except.bind, Expr.cmp, Val.asInt, pure, Except.pure, Val.truthy, hgt,
    decide_false, Bool.false_eq_true, if_false]
  exact parse_byte hd hx

theorem byte_length (x : Nat) : (byte x).length = 1 := rfl

/-- version lookup in the context after the `version` field has been set and other fields follow -/
theorem ver_ctx3 (c : Fields) (v x : Val) : Fields.get? (Fields.set (Fields.set c "version" v) "augmentation" x) "version" = some v := by
  rw [fget_set_other _ _ _ _ (by decide), fget_set_same]


theorem pf_cie_rest {env : Env} {data : Bytes} {pos : Nat} {ctx : Fields} {le : Bool} {osz len idv ver : Nat}
    {aug : Bytes} {a s : Nat} {caf : ULeb} {daf : SLeb} {ra : ULeb} {rest : Bytes}
    (hd : data.drop pos = cieHdrBytes le osz idv ver aug a s caf daf ra rest)
    (hid : idv < 256 ^ osz) (hver : ver = 1 ∨ ver = 3 ∨ ver = 4) (haug : ∀ b ∈ aug, b ≠ 0)
    (ha : 4 ≤ ver → a < 256) (hs : 4 ≤ ver → s < 256) (hcaf : caf.wf = true) (hdaf : daf.wf = true)
    (hra : if ver = 1 then ra.v < 256 else ra.wf = true) :
    dropCtx (Con.parseFields env data (cieRest le osz) [("length", .int len)] ctx pos)
      = .ok (cieFields len idv ver aug a s caf.v daf.v ra.v, pos + cieHdrLen osz ver aug caf daf ra) := by
  unfold cieHdrBytes at hd
  have h1 := drop_after hd (encNat_length le osz idv)
  have h2 := drop_after h1 (byte_length ver)
  have h3 : data.drop (pos + osz + 1 + aug.length + 1) = cieTail ver a s caf daf ra rest := by
    rw [Nat.add_assoc (pos + osz + 1)]
    exact drop_after (a := aug ++ [0]) (by rw [h2]; simp) (by simp)
  unfold cieTail at h3
  have p1 := parse_uintv (env := env) (ctx := ctx) hd hid
  have hv256 : ver < 256 := by omega
  unfold cieRest
  rw [pf_step p1, pf_step (parse_byte h1 hv256), pf_step (parse_cstring_ok' haug h2)]
  rcases hver with rfl | rfl | rfl
  · -- version 1
    simp only [show ¬ (1 ≥ 4) by decide, if_false, if_true, List.nil_append] at h3 hra
    have h4 := drop_after h3 (uleb_len caf)
    have h5 := drop_after h4 (sleb_len daf)
    rw [pf_step (parse_if_ge4_no (ver_ctx3 _ _ _) (by decide)),
      pf_step (parse_if_ge4_no (by rw [fget_set_other _ _ _ _ (by decide), ver_ctx3]) (by decide)),
      pf_step (parse_ulebv h3 hcaf), pf_step (parse_slebv h4 hdaf),
      pf_step (parse_ra_byte (ver := 1)
        (by simp only [fget_set_other _ _ _ _ (show "data_alignment_factor" ≠ "version" by decide),
              fget_set_other _ _ _ _ (show "code_alignment_factor" ≠ "version" by decide),
              fget_set_other _ _ _ _ (show "segment_size" ≠ "version" by decide),
              fget_set_other _ _ _ _ (show "address_size" ≠ "version" by decide), ver_ctx3])
        (by decide) h5 hra), pf_nil]
    simp [dropCtx, Except.map, Fields.set, cieFields, cieHdrLen]
    omega
  · -- version 3
    simp only [show ¬ (3 ≥ 4) by decide, show ¬ (3 = 1) by decide, if_false, List.nil_append] at h3 hra
    have h4 := drop_after h3 (uleb_len caf)
    have h5 := drop_after h4 (sleb_len daf)
    rw [pf_step (parse_if_ge4_no (ver_ctx3 _ _ _) (by decide)),
      pf_step (parse_if_ge4_no (by rw [fget_set_other _ _ _ _ (by decide), ver_ctx3]) (by decide)),
      pf_step (parse_ulebv h3 hcaf), pf_step (parse_slebv h4 hdaf),
      pf_step (parse_ra_uleb (ver := 3)
        (by simp only [fget_set_other _ _ _ _ (show "data_alignment_factor" ≠ "version" by decide),
              fget_set_other _ _ _ _ (show "code_alignment_factor" ≠ "version" by decide),
              fget_set_other _ _ _ _ (show "segment_size" ≠ "version" by decide),
              fget_set_other _ _ _ _ (show "address_size" ≠ "version" by decide), ver_ctx3])
        (by decide) h5 hra), pf_nil]
    simp [dropCtx, Except.map, Fields.set, cieFields, cieHdrLen]
    omega
  · -- version 4
    simp only [show (4 ≥ 4) by decide, show ¬ (4 = 1) by decide, if_false, if_true, List.append_assoc] at h3 hra
    have h3a := drop_after h3 (byte_length a)
    have h3b := drop_after h3a (byte_length s)
    have h4 := drop_after h3b (uleb_len caf)
    have h5 := drop_after h4 (sleb_len daf)
    rw [pf_step (parse_if_ge4_yes (ver_ctx3 _ _ _) (by decide) h3 (ha (by decide))),
      pf_step (parse_if_ge4_yes (by rw [fget_set_other _ _ _ _ (by decide), ver_ctx3]) (by decide) h3a (hs (by decide))),
      pf_step (parse_ulebv h3b hcaf), pf_step (parse_slebv h4 hdaf),
      pf_step (parse_ra_uleb (ver := 4)
        (by simp only [fget_set_other _ _ _ _ (show "data_alignment_factor" ≠ "version" by decide),
              fget_set_other _ _ _ _ (show "code_alignment_factor" ≠ "version" by decide),
              fget_set_other _ _ _ _ (show "segment_size" ≠ "version" by decide),
              fget_set_other _ _ _ _ (show "address_size" ≠ "version" by decide), ver_ctx3])
        (by decide) h5 hra), pf_nil]
    simp [dropCtx, Except.map, Fields.set, cieFields, cieHdrLen]
    omega


/-- the initial length field as the first field of a struct, both DWARF formats -/
theorem pf_length {env : Env} {data : Bytes} {off : Nat} {le fmt64 : Bool} {len : Nat} {rest : Bytes} {fs : ConFields}
    (hd : data.drop off = encLength le fmt64 len ++ rest) (hlen : lenOk fmt64 len = true) :
    ∃ ctx, Con.parseFields env data (.cons (some "length") false (.initialLength le) fs) [] [] off
      = Con.parseFields env data fs [("length", .int len)] ctx (off + ilfs fmt64)
      ∧ data.drop (off + ilfs fmt64) = rest := by
  cases fmt64 with
  | false =>
    simp only [encLength, Bool.false_eq_true, if_false, lenOk, decide_eq_true_eq, ilfs] at hd hlen ⊢
    have e0 : decNat le (encNat le 4 len) = len := decNat_encNat_of_lt le (by omega)
    have p0 := parse_initlen_32 (env := env) (ctx := []) hd (encNat_length le 4 len) (by rw [e0]; exact hlen)
    rw [e0] at p0
    exact ⟨_, by rw [pf_step p0]; rfl, drop_after hd (encNat_length ..)⟩
  | true =>
    simp only [encLength, if_true, lenOk, decide_eq_true_eq, ilfs, List.append_assoc] at hd hlen ⊢
    have e0 : decNat le (encNat le 8 len) = len := decNat_encNat_of_lt le (by omega)
    have p0 := parse_initlen_64 (env := env) (ctx := []) hd (encNat_length le 4 _) (encNat_length le 8 len)
      (decNat_encNat_of_lt le (by decide))
    rw [e0] at p0
    have h1 := drop_after hd (encNat_length le 4 _)
    have h2 := drop_after h1 (encNat_length le 8 _)
    exact ⟨_, by rw [pf_step p0]; rfl, by rw [← h2, Nat.add_assoc]⟩

theorem sp_cie_header {env : Env} {data : Bytes} {off : Nat} {le fmt64 : Bool} {osz len idv ver : Nat}
    {aug : Bytes} {a s : Nat} {caf : ULeb} {daf : SLeb} {ra : ULeb} {rest : Bytes}
    (hd : data.drop off = encLength le fmt64 len ++ cieHdrBytes le osz idv ver aug a s caf daf ra rest)
    (hlen : lenOk fmt64 len = true)
    (hid : idv < 256 ^ osz) (hver : ver = 1 ∨ ver = 3 ∨ ver = 4) (haug : ∀ b ∈ aug, b ≠ 0)
    (ha : 4 ≤ ver → a < 256) (hs : 4 ≤ ver → s < 256) (hcaf : caf.wf = true) (hdaf : daf.wf = true)
    (hra : if ver = 1 then ra.v < 256 else ra.wf = true) :
    structParse env (cieCon le osz) data off
      = .ok (.record (cieFields len idv ver aug a s caf.v daf.v ra.v),
             off + ilfs fmt64 + cieHdrLen osz ver aug caf daf ra) := by
  obtain ⟨ctx, h1, h2⟩ := pf_length (env := env) (fs := cieRest le osz) hd hlen
  have h3 := pf_cie_rest (env := env) (ctx := ctx) (len := len) h2 hid hver haug ha hs hcaf hdaf hra
  refine sp_of_parse (ctx' := []) (parse_struct' ?_)
  rw [h1]; exact h3


/-! ### the augmentation `Struct` built by `_parse_cie_augmentation` -/

def ptrCases (le : Bool) (asz : Nat) : ConCases :=
  .cons (.int 0x00) (.uint asz le) (.cons (.int 0x01) .uleb (.cons (.int 0x02) (.uint 2 le)
  (.cons (.int 0x03) (.uint 4 le) (.cons (.int 0x04) (.uint 8 le) (.cons (.int 0x09) .sleb
  (.cons (.int 0x0a) (.sint 2 le) (.cons (.int 0x0b) (.sint 4 le) (.cons (.int 0x0c) (.sint 8 le) .nil))))))))

def persCon (le : Bool) (asz : Nat) : Con :=
  .struct (mkStruct [("encoding", .uint 1 le),
    ("function", .switch (.band (.ctx "encoding") (.lit 0x0f)) (ptrCases le asz) .noDefault)])

def itemField (le : Bool) (asz : Nat) : AugItem → List (String × Con)
  | .R _ => [("FDE_encoding", .uint 1 le)]
  | .L _ => [("LSDA_encoding", .uint 1 le)]
  | .P .. => [("personality", persCon le asz)]
  | .S => []

/-- the dict the loop leaves: the `True` key for every 'S' -/
def itemDict : Fields → List AugItem → Fields
  | d, [] => d
  | d, .S :: r => itemDict (Fields.set d "True" (.bool true)) r
  | d, _ :: r => itemDict d r

theorem pers_cases (le : Bool) (fmt asz ver : Nat) :
    (Spec.cfiTables.peField.foldrM (fun e acc => do
        let c ← ehField Spec.cfiTables (Spec.dwarfStructs ⟨le, fmt, asz, ver⟩) e.1
        return ConCases.cons (.int e.1) c acc) ConCases.nil) = .ok (ptrCases le asz) := by
  rfl

theorem augLoop_items (le : Bool) (fmt asz ver : Nat) (items : List AugItem) :
    ∀ (fields : List (String × Con)) (d : Fields),
    augFieldsLoop Spec.cfiTables (Spec.dwarfStructs ⟨le, fmt, asz, ver⟩) (items.map AugItem.letter) fields d
      = .ok (fields ++ items.flatMap (itemField le asz), itemDict d items) := by
  induction items with
  | nil => intro fields d; simp [augFieldsLoop, itemDict]
  | cons i r ih =>
    intro fields d
    cases i with
    | R e =>
      simp only [List.map_cons, AugItem.letter, augFieldsLoop]
      simp (config := { decide := true }) only [if_false, if_true]
      rw [ih]; simp [itemField, itemDict, Spec.dwarfStructs]
    | L e =>
      simp only [List.map_cons, AugItem.letter, augFieldsLoop]
      simp (config := { decide := true }) only [if_false, if_true]
      rw [ih]; simp [itemField, itemDict, Spec.dwarfStructs]
    | S =>
      simp only [List.map_cons, AugItem.letter, augFieldsLoop]
      simp (config := { decide := true }) only [if_false, if_true]
      rw [ih]; simp [itemField, itemDict]
    | P e fn =>
      simp only [List.map_cons, AugItem.letter, augFieldsLoop]
      simp (config := { decide := true }) only [if_false, if_true]
      rw [pers_cases]
      simp only [bind, Except.bind]
      rw [ih]; simp [itemField, itemDict, persCon, Spec.dwarfStructs]


theorem and_0F (n : Nat) : n &&& 0x0f = n % 16 := by
  have := Nat.and_two_pow_sub_one_eq_mod n 4
  simpa using this

theorem land_nat (a b : Nat) : PyInt.land (a : Int) (b : Int) = ((a &&& b : Nat) : Int) := rfl

theorem parseCase_ptr {env : Env} {data : Bytes} {le : Bool} {asz b : Nat} {c : Con} {ctx : Fields} {pos : Nat}
    (h : ptrCon le asz b = some c) :
    Con.parseCase env data (.int (b : Nat)) (ptrCases le asz) ctx pos = some (Con.parse env data c ctx pos) := by
  unfold ptrCon at h
  split at h <;> first | (injection h with h; subst h) | (exact absurd h (by simp))
  all_goals simp (config := { decide := true }) [ptrCases, Con.parseCase]

theorem parse_pers {env : Env} {data : Bytes} {pos : Nat} {ctx : Fields} {le : Bool} {asz e : Nat} {fn : Int}
    {rest : Bytes} (hw : (AugItem.P e fn).wf asz = true)
    (hd : data.drop pos = byte e ++ (encPtr le asz (e % 16) fn ++ rest)) :
    Con.parse env data (persCon le asz) ctx pos
      = .ok (.record [("encoding", .int e), ("function", .int fn)],
             pos + (1 + (encPtr le asz (e % 16) fn).length), ctx) := by
  simp only [AugItem.wf, Bool.and_eq_true, decide_eq_true_eq] at hw
  obtain ⟨⟨⟨hb, _⟩, he⟩, hfit⟩ := hw
  obtain ⟨c, hc⟩ := ptrCon_of_baseOk le asz e hb
  have h1 := drop_after hd (byte_length e)
  have pp := parse_ptr (env := env) (ctx := Fields.set [] "encoding" (.int e)) hc hfit h1
  have hsw : Con.parse env data (.switch (.band (.ctx "encoding") (.lit 0x0f)) (ptrCases le asz) .noDefault)
      (Fields.set [] "encoding" (.int e)) (pos + 1)
      = .ok (.int fn, pos + 1 + (encPtr le asz (e % 16) fn).length, Fields.set [] "encoding" (.int e)) := by
    rw [Con.parse]
    simp only [Expr.eval, Fields.getR, Fields.set, Fields.get?, if_true, bind, Except.bind, Expr.arith, Val.asInt, pure,
      Except.pure]
    rw [show ((15 : Int)) = ((15 : Nat) : Int) from rfl, land_nat, and_0F, parseCase_ptr hc]
    exact pp
  refine parse_struct' ?_
  simp only [mkStruct]
  rw [pf_step (parse_byte hd he), pf_step hsw, pf_nil]
  simp [dropCtx, Except.map, Fields.set, Nat.add_assoc]

/-- what one item adds to the parsed container -/
def itemSet (obj : Fields) (i : AugItem) : Fields :=
  i.dictEntries.foldl (fun o kv => Fields.set o kv.1 kv.2) obj

theorem pf_items {env : Env} {data : Bytes} {le : Bool} {asz : Nat} (items : List AugItem)
    (hwf : ∀ i ∈ items, AugItem.wf asz i = true) :
    ∀ (obj ctx : Fields) (pos : Nat) (rest : Bytes), data.drop pos = augData le asz items ++ rest →
    dropCtx (Con.parseFields env data (mkStruct (items.flatMap (itemField le asz))) obj ctx pos)
      = .ok (items.foldl itemSet obj, pos + (augData le asz items).length) := by
  induction items with
  | nil => intro obj ctx pos rest _; simp [mkStruct, pf_nil, dropCtx, Except.map, augData]
  | cons i r ih =>
    intro obj ctx pos rest hd
    have hwi := hwf i (List.mem_cons_self ..)
    have hwr : ∀ j ∈ r, AugItem.wf asz j = true := fun j hj => hwf j (List.mem_cons_of_mem _ hj)
    have hd0 : data.drop pos = i.data le asz ++ (augData le asz r ++ rest) := by
      rw [hd]; simp [augData, List.append_assoc]
    have hd1 := drop_add_of_drop hd0
    have hlen : (augData le asz (i :: r)).length = (i.data le asz).length + (augData le asz r).length := by
      simp [augData]
    rw [List.flatMap_cons, pf_append, hlen, ← Nat.add_assoc, List.foldl_cons]
    cases i with
    | R e =>
      simp only [AugItem.wf, Bool.and_eq_true, decide_eq_true_eq] at hwi
      simp only [itemField, mkStruct, AugItem.data, byte_length] at hd0 hd1 ⊢
      rw [pf_step (parse_byte hd0 hwi.2), pf_nil]
      simp only [Except.bind]
      rw [ih hwr _ _ _ rest hd1]
      simp [itemSet, AugItem.dictEntries, byte]
    | L e =>
      simp only [AugItem.wf, Bool.and_eq_true, decide_eq_true_eq] at hwi
      simp only [itemField, mkStruct, AugItem.data, byte_length] at hd0 hd1 ⊢
      rw [pf_step (parse_byte hd0 hwi.2), pf_nil]
      simp only [Except.bind]
      rw [ih hwr _ _ _ rest hd1]
      simp [itemSet, AugItem.dictEntries, byte]
    | S =>
      simp only [itemField, mkStruct, AugItem.data, List.nil_append, List.length_nil, Nat.add_zero] at hd0 hd1 ⊢
      rw [pf_nil]
      simp only [Except.bind]
      rw [ih hwr _ _ _ rest hd1]
      simp [itemSet, AugItem.dictEntries]
    | P e fn =>
      simp only [itemField, mkStruct, AugItem.data, List.append_assoc] at hd0 hd1 ⊢
      rw [pf_step (parse_pers hwi hd0), pf_nil]
      simp only [Except.bind]
      have hd1' : data.drop (pos + (1 + (encPtr le asz (e % 16) fn).length)) = augData le asz r ++ rest := by
        rw [← hd1]; simp [byte]; omega
      rw [ih hwr _ _ _ rest hd1']
      simp [itemSet, AugItem.dictEntries, byte]; omega


/-! ### the augmentation dictionary -/

def setKV (o : Fields) (kv : String × Val) : Fields := Fields.set o kv.1 kv.2

/-- `dict.update` with fresh, pairwise distinct keys appends them in order -/
theorem foldl_set_fresh (kvs : Fields) : ∀ (d : Fields), (kvs.map (·.1)).Nodup →
    (∀ kv ∈ kvs, Fields.get? d kv.1 = none) → kvs.foldl setKV d = d ++ kvs := by
  induction kvs with
  | nil => intro d _ _; simp
  | cons kv r ih =>
    intro d hnd hfresh
    obtain ⟨k, v⟩ := kv
    simp only [List.map_cons, List.nodup_cons, List.mem_map] at hnd
    have h0 := hfresh (k, v) (List.mem_cons_self ..)
    rw [List.foldl_cons, setKV, fset_fresh d k v h0, ih _ hnd.2]
    · simp
    · intro kv' hkv'
      have hne : kv'.1 ≠ k := fun he => hnd.1 ⟨kv', hkv', he⟩
      rw [fget_append, hfresh kv' (List.mem_cons_of_mem _ hkv')]
      simp [Fields.get?, Ne.symm hne]

theorem foldl_itemSet (items : List AugItem) : ∀ (obj : Fields),
    items.foldl itemSet obj = (items.flatMap AugItem.dictEntries).foldl setKV obj := by
  induction items with
  | nil => intro obj; rfl
  | cons i r ih => intro obj; rw [List.foldl_cons, ih, List.flatMap_cons, List.foldl_append]; rfl

/-- the keys of the entries, as a function of the letter -/
def keyOfLetter (b : UInt8) : List String :=
  if b = 0x52 then ["FDE_encoding"] else if b = 0x4c then ["LSDA_encoding"] else if b = 0x50 then ["personality"] else []

theorem dictKeys (i : AugItem) : i.dictEntries.map (·.1) = keyOfLetter i.letter := by
  cases i <;> simp (config := { decide := true }) [AugItem.dictEntries, AugItem.letter, keyOfLetter]

def letterOfKey (k : String) : UInt8 :=
  if k = "FDE_encoding" then 0x52 else if k = "LSDA_encoding" then 0x4c else 0x50

theorem keyOfLetter_eq {a : UInt8} {k : String} (h : k ∈ keyOfLetter a) : a = letterOfKey k := by
  by_cases h1 : a = 0x52
  · subst h1; simp (config := { decide := true }) [keyOfLetter] at h; subst h; decide
  · by_cases h2 : a = 0x4c
    · subst h2; simp (config := { decide := true }) [keyOfLetter] at h; subst h; decide
    · by_cases h3 : a = 0x50
      · subst h3; simp (config := { decide := true }) [keyOfLetter] at h; subst h; decide
      · simp [keyOfLetter, h1, h2, h3] at h

theorem keyOfLetter_inj {a b : UInt8} {k : String} (ha : k ∈ keyOfLetter a) (hb : k ∈ keyOfLetter b) : a = b := by
  rw [keyOfLetter_eq ha, keyOfLetter_eq hb]

theorem keyOfLetter_props (b : UInt8) : (keyOfLetter b).Nodup ∧ "length" ∉ keyOfLetter b ∧ "True" ∉ keyOfLetter b := by
  unfold keyOfLetter
  split
  · simp
  · split
    · simp
    · split <;> simp

theorem dictKeys_all (items : List AugItem) (hnd : (items.map AugItem.letter).Nodup) :
    ((items.flatMap AugItem.dictEntries).map (·.1)).Nodup
    ∧ "length" ∉ (items.flatMap AugItem.dictEntries).map (·.1)
    ∧ "True" ∉ (items.flatMap AugItem.dictEntries).map (·.1)
    ∧ ∀ k ∈ (items.flatMap AugItem.dictEntries).map (·.1), ∃ j ∈ items, k ∈ keyOfLetter j.letter := by
  induction items with
  | nil => simp
  | cons i r ih =>
    simp only [List.map_cons, List.nodup_cons] at hnd
    obtain ⟨ih1, ih2, ih3, ih4⟩ := ih hnd.2
    obtain ⟨p1, p2, p3⟩ := keyOfLetter_props i.letter
    simp only [List.flatMap_cons, List.map_append, dictKeys]
    refine ⟨?_, ?_, ?_, ?_⟩
    · rw [List.nodup_append]
      refine ⟨p1, ih1, ?_⟩
      intro a ha b hb hab
      subst hab
      obtain ⟨j, hj, hkj⟩ := ih4 a hb
      have := keyOfLetter_inj ha hkj
      exact hnd.1 (by rw [this]; exact List.mem_map_of_mem hj)
    · simp [p2, ih2]
    · simp [p3, ih3]
    · intro k hk
      rcases List.mem_append.1 hk with h | h
      · exact ⟨i, List.mem_cons_self .., h⟩
      · obtain ⟨j, hj, hkj⟩ := ih4 k h
        exact ⟨j, List.mem_cons_of_mem _ hj, hkj⟩

theorem get?_none_of_not_mem (d : Fields) (k : String) (h : k ∉ d.map (·.1)) : Fields.get? d k = none := by
  induction d with
  | nil => rfl
  | cons p d ih =>
    obtain ⟨k0, v0⟩ := p
    simp only [List.map_cons, List.mem_cons, not_or] at h
    simp [Fields.get?, Ne.symm h.1, ih h.2]

theorem itemDict_true (items : List AugItem) :
    itemDict [("True", .bool true)] items = [("True", .bool true)] := by
  induction items with
  | nil => rfl
  | cons i r ih => cases i <;> simp [itemDict, Fields.set, ih]

theorem itemDict_nil (items : List AugItem) :
    itemDict [] items = if items.contains .S then [("True", .bool true)] else [] := by
  induction items with
  | nil => rfl
  | cons i r ih =>
    cases i <;> simp [itemDict, Fields.set, ih, itemDict_true]

/-- `aug_dict.update(parsed)` gives the dictionary the Spec prescribes -/
theorem augDict_eq (le : Bool) (asz : Nat) (items : List AugItem) (hnd : (items.map AugItem.letter).Nodup) (L : Val) :
    (items.foldl itemSet [("length", L)]).foldl (fun acc kv => Fields.set acc kv.1 kv.2) (itemDict [] items)
      = (if items.contains .S then [("True", .bool true)] else []) ++ [("length", L)]
          ++ items.flatMap AugItem.dictEntries := by
  obtain ⟨h1, h2, h3, _⟩ := dictKeys_all items hnd
  have e1 : items.foldl itemSet [("length", L)] = [("length", L)] ++ items.flatMap AugItem.dictEntries := by
    rw [foldl_itemSet, foldl_set_fresh _ _ h1]
    intro kv hkv
    have : kv.1 ≠ "length" := fun he => h2 (by rw [← he]; exact List.mem_map_of_mem hkv)
    simp [Fields.get?, Ne.symm this]
  rw [e1, itemDict_nil]
  have := foldl_set_fresh ([("length", L)] ++ items.flatMap AugItem.dictEntries)
    (if items.contains .S then [("True", .bool true)] else [])
    (by simp only [List.singleton_append, List.map_cons, List.nodup_cons]; exact ⟨h2, h1⟩)
    (by
      intro kv hkv
      have hne : kv.1 ≠ "True" := by
        intro he
        rcases List.mem_append.1 hkv with h | h
        · simp at h; subst h; exact absurd (show "length" = "True" from he) (by decide)
        · exact h3 (by rw [← he]; exact List.mem_map_of_mem h)
      split <;> simp [Fields.get?, Ne.symm hne])
  rw [show (fun (acc : Fields) (kv : String × Val) => Fields.set acc kv.1 kv.2) = setKV from rfl, this]
  simp [List.append_assoc]


/-! ### `_read_augmentation_data`, `_parse_cie_augmentation`, `_parse_lsda_pointer` -/

theorem readAug_ok {C : Cfi} {S : DwarfStructs} {pos n : Nat} {d rest : Bytes} (heh : C.eh = true)
    (hu : S.Dwarf_uleb128 = .uleb) (hn : 1 ≤ n) (hl : d.length < 2 ^ (7 * n))
    (hd : C.data.drop pos = encUlebN n d.length ++ (d ++ rest)) :
    readAugmentationData C S pos = .ok (d, pos + n + d.length) := by
  have hw : (ULeb.mk n d.length).wf = true := by simp [ULeb.wf, hn, hl]
  have p := parse_ulebv (env := C.env) (ctx := []) (u := ⟨n, d.length⟩) hd hw
  have h1 := drop_after hd (encUlebN_length n d.length)
  have sp : structParse C.env (.struct (mkStruct [("length", Con.uleb)])) C.data pos
      = .ok (.record [("length", .int d.length)], pos + n) := by
    refine sp_of_parse (ctx' := []) (parse_struct' ?_)
    simp only [mkStruct]
    rw [pf_step p, pf_nil]
    simp [dropCtx, Except.map, Fields.set]
  have hlen : pos + n + d.length ≤ C.data.length := by
    have := congrArg List.length hd
    simp only [List.length_drop, List.length_append, encUlebN_length] at this
    omega
  have hnot : ¬ (d.length ≥ 2 ^ 63 ∧ C.data.length < pos + n + d.length) := by omega
  unfold readAugmentationData
  simp only [heh, hu, sp, Bool.not_true, Bool.false_eq_true, if_false, bind, Except.bind, Val.getNat, Val.getField,
    Fields.getR, Fields.get?, if_true, asNat_nat, pure, Except.pure, readN, h1, hnot]
  simp

theorem cieAug_none {C : Cfi} {S : DwarfStructs} {header : Fields} {pos : Nat}
    (hh : Fields.get? header "augmentation" = some (.bytes [])) :
    parseCieAugmentation C S header pos = .ok ([], [], pos) := by
  unfold parseCieAugmentation
  simp [hh, Val.truthy, bind, Except.bind, pure, Except.pure]

theorem cieAug_some {C : Cfi} {le : Bool} {fmt asz ver : Nat} {header : Fields} {pos n : Nat}
    {items : List AugItem} {rest : Bytes}
    (hT : C.T = Spec.cfiTables) (heh : C.eh = true)
    (hh : Fields.get? header "augmentation" = some (.bytes (0x7a :: items.map AugItem.letter)))
    (hnd : (items.map AugItem.letter).Nodup) (hwf : ∀ i ∈ items, AugItem.wf asz i = true)
    (hn : 1 ≤ n) (hl : (augData le asz items).length < 2 ^ (7 * n))
    (hd : C.data.drop pos = encUlebN n (augData le asz items).length ++ (augData le asz items ++ rest)) :
    parseCieAugmentation C (Spec.dwarfStructs ⟨le, fmt, asz, ver⟩) header pos
      = .ok (augData le asz items, augDictObs le asz (some items), pos + n + (augData le asz items).length) := by
  have hw : (ULeb.mk n (augData le asz items).length).wf = true := by simp [ULeb.wf, hn, hl]
  have p := parse_ulebv (env := C.env) (ctx := []) (u := ⟨n, (augData le asz items).length⟩) hd hw
  have h1 := drop_after hd (encUlebN_length n _)
  have hloop : augFieldsLoop Spec.cfiTables (Spec.dwarfStructs ⟨le, fmt, asz, ver⟩) (0x7a :: items.map AugItem.letter) [] []
      = .ok ([("length", Con.uleb)] ++ items.flatMap (itemField le asz), itemDict [] items) := by
    rw [augFieldsLoop]
    simp only [if_true]
    rw [augLoop_items]; rfl
  have sp : structParse C.env (.struct (mkStruct ([("length", Con.uleb)] ++ items.flatMap (itemField le asz)))) C.data pos
      = .ok (.record (items.foldl itemSet [("length", .int (augData le asz items).length)]),
             pos + n + (augData le asz items).length) := by
    refine sp_of_parse (ctx' := []) (parse_struct' ?_)
    rw [pf_append]
    simp only [mkStruct]
    rw [pf_step p, pf_nil]
    simp only [Except.bind]
    exact pf_items items hwf _ _ _ rest h1
  have ra := readAug_ok (C := C) (S := Spec.dwarfStructs ⟨le, fmt, asz, ver⟩) heh rfl hn hl hd
  unfold parseCieAugmentation
  simp only [hh, Option.getD, Val.truthy, List.isEmpty_cons, Bool.not_false, Bool.not_true, Bool.false_eq_true, if_false,
    bind, Except.bind, pure, Except.pure, hT, hloop, sp, asFields, ra]
  simp (config := { decide := true }) only [List.isPrefixOf, Bool.and_true, Bool.false_and,
    Bool.true_and, Bool.false_eq_true, if_false, Bool.not_true, Bool.not_false, beq_self_eq_true]
  rw [augDict_eq le asz items hnd]
  simp [augDictObs]

set_option maxRecDepth 100000 in
theorem and_f0_aux : ∀ e < 256, e &&& 0xf0 = e / 16 * 16 := by decide

theorem lsda_ok {C : Cfi} {le : Bool} {fmt asz ver enc off : Nat} {v : Int} {rest : Bytes}
    (hT : C.T = Spec.cfiTables) (henc : encOk enc = true) (h256 : enc < 256)
    (hfit : ptrFits asz (enc % 16) v = true) (hd : C.data.drop off = encPtr le asz (enc % 16) v ++ rest) :
    parseLsdaPointer C (Spec.dwarfStructs ⟨le, fmt, asz, ver⟩) off enc
      = .ok (v + (if enc / 16 % 8 = 1 then C.address + (off : Int) else 0), off + (encPtr le asz (enc % 16) v).length) := by
  simp only [encOk, Bool.and_eq_true, Bool.or_eq_true, beq_iff_eq] at henc
  obtain ⟨c, hc⟩ := ptrCon_of_baseOk le asz enc henc.1
  have pp := parse_ptr (env := C.env) (ctx := []) hc hfit hd
  have sp : structParse C.env (.struct (mkStruct [("LSDA_pointer", c)])) C.data off
      = .ok (.record [("LSDA_pointer", .int v)], off + (encPtr le asz (enc % 16) v).length) := by
    refine sp_of_parse (ctx' := []) (parse_struct' ?_)
    simp only [mkStruct]
    rw [pf_step pp, pf_nil]
    simp [dropCtx, Except.map, Fields.set]
  have hne : enc ≠ 0xff := by
    intro h; subst h; simp [baseOk] at henc
  have hmod := and_f0_aux enc h256
  have e1 : Spec.cfiTables.pe.omit_ = 0xff := rfl
  have e2 : Spec.cfiTables.pe.absptr = 0 := rfl
  have e3 : Spec.cfiTables.pe.pcrel = 0x10 := rfl
  unfold parseLsdaPointer
  simp only [hT, e1, e2, e3, hne, if_false, and_0F, ehField_spec le fmt asz ver _ c hc, sp, bind,
    Except.bind, pure, Except.pure, Val.getInt, Val.getField, Fields.getR, Fields.get?, if_true, Val.asInt, hmod]
  rcases henc.2 with h | h
  · simp [h]
  · simp [h]


/-! ### encodings recorded in the augmentation dictionary -/

theorem flat_fdeEnc (items : List AugItem) :
    (match Fields.get? (items.flatMap AugItem.dictEntries) "FDE_encoding" with
     | some v => v.asNat | none => (Except.ok 0 : R Nat)) = .ok (fdeEncOf items) := by
  induction items with
  | nil => rfl
  | cons i r ih =>
    cases i <;>
      simp (config := { decide := true }) [List.flatMap_cons, AugItem.dictEntries, Fields.get?, fdeEncOf, asNat_nat, ih]

theorem flat_lsdaEnc (items : List AugItem) :
    (match Fields.get? (items.flatMap AugItem.dictEntries) "LSDA_encoding" with
     | some v => v.asNat | none => (Except.ok 0xff : R Nat)) = .ok (lsdaEncOf items) := by
  induction items with
  | nil => rfl
  | cons i r ih =>
    cases i <;>
      simp (config := { decide := true }) [List.flatMap_cons, AugItem.dictEntries, Fields.get?, lsdaEncOf, asNat_nat, ih]

theorem augDict_get (le : Bool) (asz : Nat) (items : List AugItem) (k : String) (h1 : k ≠ "True") (h2 : k ≠ "length") :
    Fields.get? (augDictObs le asz (some items)) k = Fields.get? (items.flatMap AugItem.dictEntries) k := by
  simp only [augDictObs, fget_append]
  by_cases hS : items.contains .S = true
  · simp only [hS, if_true, Fields.get?, Ne.symm h1, Ne.symm h2, if_false]
  · simp only [hS, Bool.false_eq_true, if_false, Fields.get?, Ne.symm h1, Ne.symm h2]

theorem dict_fdeEnc (le : Bool) (asz : Nat) (aug : Option (List AugItem)) :
    (match Fields.get? (augDictObs le asz aug) "FDE_encoding" with
     | some v => v.asNat | none => (Except.ok 0 : R Nat)) = .ok (fdeEncOf (aug.getD [])) := by
  cases aug with
  | none => rfl
  | some items => rw [augDict_get le asz items _ (by decide) (by decide)]; exact flat_fdeEnc items

theorem dict_lsdaEnc (le : Bool) (asz : Nat) (aug : Option (List AugItem)) :
    (match Fields.get? (augDictObs le asz aug) "LSDA_encoding" with
     | some v => v.asNat | none => (Except.ok 0xff : R Nat)) = .ok (lsdaEncOf (aug.getD [])) := by
  cases aug with
  | none => rfl
  | some items => rw [augDict_get le asz items _ (by decide) (by decide)]; exact flat_lsdaEnc items

/-! ### FDE headers -/

theorem fde_header_eq (le : Bool) (fmt asz ver : Nat) :
    (Spec.dwarfStructs ⟨le, fmt, asz, ver⟩).Dwarf_FDE_header
      = .struct (mkStruct [("length", .initialLength le), ("CIE_pointer", .uint (fmt / 8) le),
          ("initial_location", .uint asz le), ("address_range", .uint asz le)]) := by
  simp [Spec.dwarfStructs, Spec.st, Spec.f, Spec.mkFields, mkStruct]

/-- the two fields every FDE starts with -/
theorem sp_fde_min {env : Env} {data : Bytes} {off : Nat} {le fmt64 : Bool} {osz len ptr : Nat} {rest : Bytes}
    (hd : data.drop off = encLength le fmt64 len ++ (encNat le osz ptr ++ rest))
    (hlen : lenOk fmt64 len = true) (hptr : ptr < 256 ^ osz) :
    structParse env (.struct (mkStruct [("length", .initialLength le), ("CIE_pointer", .uint osz le)])) data off
      = .ok (.record [("length", .int len), ("CIE_pointer", .int ptr)], off + ilfs fmt64 + osz) := by
  obtain ⟨ctx, h1, h2⟩ := pf_length (env := env)
    (fs := mkStruct [("CIE_pointer", .uint osz le)]) hd hlen
  refine sp_of_parse (ctx' := []) (parse_struct' ?_)
  simp only [mkStruct] at h1 ⊢
  rw [h1, pf_step (parse_uintv h2 hptr), pf_nil]
  simp [dropCtx, Except.map, Fields.set]

/-- the full header; the two pointer fields are parsed by `c` (fixed address or pointer-encoded) -/
theorem sp_fde_full {env : Env} {data : Bytes} {off : Nat} {le fmt64 : Bool} {osz len ptr n1 n2 : Nat} {lv rv : Int}
    {c : Con} {rest : Bytes}
    (hd : data.drop off = encLength le fmt64 len ++ (encNat le osz ptr ++ rest))
    (hlen : lenOk fmt64 len = true) (hptr : ptr < 256 ^ osz)
    (p1 : ∀ ctx, Con.parse env data c ctx (off + ilfs fmt64 + osz) = .ok (.int lv, off + ilfs fmt64 + osz + n1, ctx))
    (p2 : ∀ ctx, Con.parse env data c ctx (off + ilfs fmt64 + osz + n1)
            = .ok (.int rv, off + ilfs fmt64 + osz + n1 + n2, ctx)) :
    structParse env (.struct (mkStruct [("length", .initialLength le), ("CIE_pointer", .uint osz le),
        ("initial_location", c), ("address_range", c)])) data off
      = .ok (.record [("length", .int len), ("CIE_pointer", .int ptr), ("initial_location", .int lv),
                      ("address_range", .int rv)], off + ilfs fmt64 + osz + n1 + n2) := by
  obtain ⟨ctx, h1, h2⟩ := pf_length (env := env)
    (fs := mkStruct [("CIE_pointer", .uint osz le), ("initial_location", c), ("address_range", c)]) hd hlen
  refine sp_of_parse (ctx' := []) (parse_struct' ?_)
  simp only [mkStruct] at h1 ⊢
  rw [h1, pf_step (parse_uintv h2 hptr), pf_step (p1 _), pf_step (p2 _), pf_nil]
  simp [dropCtx, Except.map, Fields.set]

end PyElf.Proofs.Cfi
