/-
  C12 × C04 helper lemmas: the expression walk (Model/DwarfExprInfo) on units whose entries are the described
  ones; the parser cache invariant.  Composed with C04's end-to-end theorem in Props/C12.
-/
import PyElf.Spec.DwarfExprInfo
import PyElf.Model.DwarfExprInfo
namespace PyElf.Proofs.C12
open PyElf PyElf.Spec PyElf.Spec.C12 PyElf.Model PyElf.Model.C12
open PyElf.Spec.C04 (AttrObs DieObs)

/-! ### `bytes(expr)` -/

theorem exprByte_of_byteOf (v : Val) (x : UInt8) (h : byteOf v = some x) : exprByte v = .ok x := by
  cases v with
  | int n =>
    simp only [byteOf] at h
    simp only [exprByte]
    by_cases hn : 0 ≤ n ∧ n < 256
    · rw [if_pos hn] at h ⊢
      injection h with h
      rw [h]
    · rw [if_neg hn] at h; cases h
  | _ => simp [byteOf] at h

theorem exprBytes_of_bytesOf (v : Val) (b : Bytes) (h : bytesOf v = some b) : exprBytes v = .ok b := by
  cases v with
  | list vs =>
    simp only [bytesOf] at h
    simp only [exprBytes]
    induction vs generalizing b with
    | nil =>
      simp only [List.mapM_nil, pure, Option.some.injEq] at h
      subst h; rfl
    | cons x xs ih =>
      rw [List.mapM_cons] at h
      rw [List.mapM_cons]
      cases hx : byteOf x with
      | none => rw [hx] at h; cases h
      | some y =>
        cases hm : xs.mapM byteOf with
        | none => rw [hx, hm] at h; cases h
        | some r =>
          rw [hx, hm] at h
          simp only [bind, Option.bind, pure, Option.some.injEq] at h
          subst h
          rw [exprByte_of_byteOf x y hx, ih r hm]
          rfl
  | _ => simp [bytesOf] at h

/-- a block value denotes its bytes -/
theorem bytesOf_byteList (p : Bytes) : bytesOf (Spec.C04.byteList p) = some p := by
  simp only [bytesOf, Spec.C04.byteList]
  induction p with
  | nil => rfl
  | cons b p ih =>
    rw [List.map_cons, List.mapM_cons, ih]
    have hb : b.toNat < 256 := b.toNat_lt
    have h1 : (0 : Int) ≤ (b.toNat : Int) ∧ (b.toNat : Int) < 256 := by omega
    simp only [byteOf, h1, and_self, if_true, Int.toNat_natCast, bind, Option.bind, pure]
    congr 2
    exact UInt8.ofNat_toNat

/-! ### the parser cache -/

theorem tableGet_map (f : DwarfCfg → Disp) (cfgs : List DwarfCfg) (c : DwarfCfg) (hc : c ∈ cfgs) :
    tableGet (cfgs.map fun c => (c, f c)) c = some (f c) := by
  unfold tableGet
  induction cfgs with
  | nil => cases hc
  | cons x xs ih =>
    rw [List.map_cons, List.find?_cons]
    by_cases hx : x = c
    · subst hx; simp
    · have : decide ((x, f x).1 = c) = false := by simp [hx]
      rw [this]
      rcases List.mem_cons.1 hc with h | h
      · exact absurd h.symm hx
      · exact ih h

/-- every cached parser is the one the constructor would build for its key -/
def PCacheOK (T : List (DwarfCfg × Disp)) (pc : PCache) : Prop :=
  ∀ c D, tableGet pc c = some D → tableGet T c = some D

theorem pcacheOK_nil (T : List (DwarfCfg × Disp)) : PCacheOK T [] := by
  intro c D h; simp [tableGet] at h

theorem tableGet_append (pc : PCache) (c c' : DwarfCfg) (D : Disp) :
    tableGet (pc ++ [(c, D)]) c' = match tableGet pc c' with
      | some D' => some D'
      | none => if c = c' then some D else none := by
  unfold tableGet
  rw [List.find?_append]
  cases h : pc.find? (fun e => decide (e.1 = c')) with
  | some e => simp
  | none =>
    simp only [Option.none_or, List.find?_cons, List.find?_nil, Option.map_none]
    by_cases hc : c = c' <;> simp [hc]

/-- `getParser` answers with the constructor's table for the key whatever the cache holds, and keeps the invariant -/
theorem getParser_ok (T : List (DwarfCfg × Disp)) (pc : PCache) (hpc : PCacheOK T pc) (c : DwarfCfg) (D : Disp)
    (hT : tableGet T c = some D) :
    ∃ pc', getParser T pc c = .ok (D, pc') ∧ PCacheOK T pc' := by
  unfold getParser
  cases h : tableGet pc c with
  | some D' =>
    have := hpc c D' h
    rw [hT] at this
    injection this with this
    subst this
    exact ⟨pc, rfl, hpc⟩
  | none =>
    simp only [hT]
    refine ⟨_, rfl, ?_⟩
    intro c' D' h'
    rw [tableGet_append] at h'
    cases h2 : tableGet pc c' with
    | some D2 =>
      rw [h2] at h'
      simp only [Option.some.injEq] at h'
      subst h'
      exact hpc c' D2 h2
    | none =>
      rw [h2] at h'
      by_cases hc : c = c'
      · subst hc
        simp only [if_true, Option.some.injEq] at h'
        subst h'
        exact hT
      · simp [hc] at h'

/-! ### one entry -/

theorem attrsExprs_ok (sel : Val → Val → Nat → Bool) (c : DwarfCfg) (E : DwarfCfg → Bytes → List Op) (D : Disp)
    (N : List (Nat × String))
    (hrt : ∀ ops, WFops c ops = true → parseExpr D N (encodeOps c ops) = .ok (annotate c 0 ops))
    (as : List AttrObs) (hok : as.all (attrOK sel c E) = true) :
    ((as.filter fun a => sel a.name a.form c.ver).mapM fun a => do
        let b ← exprBytes a.value
        let ops ← parseExpr D N b
        pure (a.offset, ops))
      = .ok (as.filterMap (expectAttr sel c E)) := by
  induction as with
  | nil => rfl
  | cons a as ih =>
    rw [List.all_cons, Bool.and_eq_true] at hok
    have iht := ih hok.2
    rw [List.filter_cons, List.filterMap_cons]
    by_cases hs : sel a.name a.form c.ver = true
    · have ha := hok.1
      simp only [attrOK, hs, Bool.not_true, Bool.false_or] at ha
      cases hb : bytesOf a.value with
      | none => rw [hb] at ha; cases ha
      | some b =>
        rw [hb] at ha
        simp only [Bool.and_eq_true, beq_iff_eq] at ha
        have hpar := hrt _ ha.1
        rw [ha.2] at hpar
        rw [if_pos hs, List.mapM_cons, iht]
        simp only [hs, if_true, expectAttr, hb, Option.getD_some, exprBytes_of_bytesOf _ _ hb, bind,
          Except.bind, hpar, pure, Except.pure]
    · have hs' : sel a.name a.form c.ver = false := by simpa using hs
      simp only [hs', Bool.false_eq_true, if_false, expectAttr]
      exact iht

theorem dieExprs_ok (sel : Val → Val → Nat → Bool) (c : DwarfCfg) (E : DwarfCfg → Bytes → List Op) (D : Disp)
    (N : List (Nat × String))
    (hrt : ∀ ops, WFops c ops = true → parseExpr D N (encodeOps c ops) = .ok (annotate c 0 ops))
    (d : DieObs) (hok : dieOK sel c E d = true) :
    dieExprs sel D N c.ver d = .ok (expectDie sel c E d) :=
  attrsExprs_ok sel c E D N hrt d.attrs hok

theorem mapM_ok_of_forall {α β : Type} (l : List α) (g : α → R β) (h : α → β) (H : ∀ a ∈ l, g a = .ok (h a)) :
    l.mapM g = .ok (l.map h) := by
  induction l with
  | nil => rfl
  | cons a l ih =>
    rw [List.mapM_cons, H a (by simp), ih (fun x hx => H x (by simp [hx]))]
    rfl

/-! ### the walk over the units -/

/-- units presented as `ps.map (cuF, ok ∘ flatP)` (the shape C04's end-to-end theorems give): if every unit's
    configuration is one the constructor knows (`hT`: its table is `tbl c`, on which the parser round-trips, `hrt`)
    and every entry satisfies `dieOK` in the configuration of ITS unit, the walk yields per unit and entry the
    expected operations — from ANY cache state satisfying the invariant, which it keeps. -/
theorem unitsExprs_ok {α : Type} (w : Model.C04.DInfo) (T : List (DwarfCfg × Disp)) (N : List (Nat × String))
    (sel : Val → Val → Nat → Bool) (E : DwarfCfg → Bytes → List Op) (tbl : DwarfCfg → Disp)
    (cuF : α → Model.Lookup.CU) (flatP : α → List (DieObs × Option Nat)) (cfgF : α → DwarfCfg) (ps : List α)
    (hcfg : ∀ p ∈ ps, unitCfg w (cuF p) = .ok (cfgF p))
    (hT : ∀ p ∈ ps, tableGet T (cfgF p) = some (tbl (cfgF p)))
    (hrt : ∀ p ∈ ps, ∀ ops, WFops (cfgF p) ops = true →
      parseExpr (tbl (cfgF p)) N (encodeOps (cfgF p) ops) = .ok (annotate (cfgF p) 0 ops))
    (hok : ∀ p ∈ ps, ∀ d ∈ flatP p, dieOK sel (cfgF p) E d.1 = true) :
    ∀ pc, PCacheOK T pc →
      ∃ pc', unitsExprs w T N sel pc (ps.map fun p => (cuF p, .ok (flatP p)))
          = .ok (ps.map (fun p => (flatP p).map fun d => expectDie sel (cfgF p) E d.1), pc')
        ∧ PCacheOK T pc' := by
  induction ps with
  | nil => intro pc hpc; exact ⟨pc, rfl, hpc⟩
  | cons p ps ih =>
    intro pc hpc
    obtain ⟨pc1, hg, hpc1⟩ := getParser_ok T pc hpc (cfgF p) _ (hT p (by simp))
    obtain ⟨pc2, hrest, hpc2⟩ := ih (fun q hq => hcfg q (by simp [hq])) (fun q hq => hT q (by simp [hq]))
      (fun q hq => hrt q (by simp [hq])) (fun q hq => hok q (by simp [hq])) pc1 hpc1
    refine ⟨pc2, ?_, hpc2⟩
    have hd : (flatP p).mapM (fun d => dieExprs sel (tbl (cfgF p)) N (cfgF p).ver d.1)
        = .ok ((flatP p).map fun d => expectDie sel (cfgF p) E d.1) :=
      mapM_ok_of_forall _ _ _ (fun d hd => dieExprs_ok sel (cfgF p) E _ N (hrt p (by simp)) d.1 (hok p (by simp) d hd))
    rw [List.map_cons, unitsExprs]
    simp only [bind, Except.bind, hcfg p (by simp), hg, hd, hrest, pure, Except.pure, List.map_cons]

end PyElf.Proofs.C12
