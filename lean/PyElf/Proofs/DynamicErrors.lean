/-
  C09 helper lemmas: what dynamic.py does when the dynamic information is
  incomplete — no string table, a table that runs off the end of the file
  without a DT_NULL, a symbol table pointer that maps nowhere.  Each lemma
  states the exact exception class (or the exact stopping point).
-/
import PyElf.Proofs.DynamicSym
import PyElf.Spec.DynamicExt
namespace PyElf.Proofs.Dynamic
open PyElf PyElf.Spec PyElf.Spec.Dynamic PyElf.Model PyElf.Model.Dynamic PyElf.Proofs

/-! ### no string table: `DynamicTag(entry, None)` raises ELFError -/

theorem mkTag_none (data : Bytes) (entry : Val) : mkTag data (.ok none) entry = .error .elfError := rfl

theorem tags_pos_of_term {tags : List (Int × Nat)} (h : hasTerminator tags = true) : 0 < tags.length := by
  cases tags with
  | nil => simp [hasTerminator] at h
  | cons _ _ => simp

section nostr
variable {env : Env} {S : ElfStructs} {data : Bytes} {d : Dyn} {le : Bool} {w : Nat} {tbl : String}
  {tags : List (Int × Nat)} {ifc : FileIfc} {hs : List Val}

/-- without a string table no entry can be shown: `iter_tags()`, `num_tags()`, `get_tag(n)` raise
    ELFError at the first entry (a non-empty table is assumed: `TableView.nonempty`, and at least one
    stored entry) -/
theorem tags_no_strtab (V : TableView S data d le w tbl tags) (hpos : 0 < tags.length)
    (hst : getStringtable env S data ifc d = .ok none) :
    iterTags env S data ifc d none = .error .elfError ∧ numTags env S data ifc d = .error .elfError ∧
    ∀ n, n < tags.length → getTag env S data ifc d n = .error .elfError := by
  have hf := tagFuel_ge V
  obtain ⟨fuel, hfuel⟩ : ∃ k, tagFuel data d = k + 1 := ⟨tagFuel data d - 1, by omega⟩
  have hget : ∀ n, n < tags.length → getTag env S data ifc d n = .error .elfError := by
    intro n hn
    unfold getTag
    simp only [getTagRaw_view V n hn, hst, bind, Except.bind, mkTag_none]
  refine ⟨?_, ?_, hget⟩
  · unfold iterTags foldTags
    simp only [V.nonempty, Bool.false_eq_true, if_false, hfuel, bind, Except.bind]
    rw [foldTags.go]
    simp only [getTagRaw_view V 0 hpos, hst, bind, Except.bind, getField_tag, tagMatches, if_true, mkTag_none]
  · unfold numTags
    simp only [V.nonempty, Bool.false_eq_true, if_false, hfuel]
    rw [numTags.go, hget 0 hpos]
    rfl

/-- `get_symbol(i)` without a string table: the record is read, then `None.get_string` raises
    AttributeError -/
theorem getSymbol_no_strtab (V : TableView S data d le w tbl tags) (hnull : NullIs env tbl)
    (hterm : hasTerminator tags = true) (SV : SegsView ifc hs)
    (hsymtab : TagIs env tbl "DT_SYMTAB" DT_SYMTAB)
    {a symOff : Nat} (ha : firstVal (liveTags tags) DT_SYMTAB = some a) (ho : mapAddr hs a = some symOff)
    {syms : List Fields} {es : List Val} (Y : SymView env S data symOff syms es)
    (hst : getStringtable env S data ifc d = .ok none) (i : Nat) (h1 : i < syms.length) :
    getSymbol env S data ifc d i = .error .attributeError := by
  obtain ⟨sz, hsz, hpos⟩ := Y.size
  obtain ⟨bs, rest, he, hd⟩ := Y.placed
  have h2 : i < es.length := by rw [Y.len]; exact h1
  obtain ⟨hdec, -⟩ := Y.dec i h1 h2
  unfold getSymbol
  rw [getTableOffset_view V hnull hterm SV "DT_SYMTAB" DT_SYMTAB hsymtab]
  simp only [ha, ho, bind, Except.bind, Option.bind, sizeofR, hsz, hst]
  have := structParseAt_entry env S.Elf_Sym Y.fixed sz hsz (syms.map .record) bs he data symOff rest hd V.small hpos i
    (by simpa using h1)
  rw [this]
  simp only [List.getElem_map, hdec, Except.map]
  rfl

/-- `get_symbol(i)` when DT_SYMTAB is absent or maps nowhere: ELFError -/
theorem getSymbol_unmapped (V : TableView S data d le w tbl tags) (hnull : NullIs env tbl)
    (hterm : hasTerminator tags = true) (SV : SegsView ifc hs)
    (hsymtab : TagIs env tbl "DT_SYMTAB" DT_SYMTAB)
    (hno : (firstVal (liveTags tags) DT_SYMTAB).bind (mapAddr hs) = none) (i : Nat) :
    getSymbol env S data ifc d i = .error .elfError := by
  unfold getSymbol
  rw [getTableOffset_view V hnull hterm SV "DT_SYMTAB" DT_SYMTAB hsymtab, hno]
  cases firstVal (liveTags tags) DT_SYMTAB <;> rfl

end nostr

/-! ### a table that runs off the end of the file without DT_NULL -/

/-- an `Elf_Dyn` that does not fit before the end of the file: ELFParseError -/
theorem parse_dyn_trunc (env : Env) (le : Bool) (w : Nat) (tbl : String) (hw : 1 ≤ w) (data : Bytes) (pos : Nat)
    (h : data.length < pos + 2 * w) :
    Con.parse env data (dynCon le w tbl) [] pos = .error .elfParseError := by
  simp only [dynCon, st, mkFields, f, enumOf]
  rw [parse_struct, parseFields_named]
  by_cases h1 : data.length < pos + w
  · have : Con.parse env data (.enum (.sint w le) tbl true) [] pos = .error .elfParseError := by
      rw [Con.parse, Con.parse, readExact_trunc (by omega) h1]
      rfl
    rw [this]
    rfl
  · have hlen : (readN data pos w).length = w := by
      rw [readN_length]; omega
    have : ∃ v, Con.parse env data (.enum (.sint w le) tbl true) [] pos = .ok (v, pos + w, []) := by
      rw [Con.parse, Con.parse, readExact_of_len hlen]
      simp only [bind, Except.bind, pure, Except.pure]
      cases env.enumDecode tbl (toSigned (8 * w) (decNat le (readN data pos w))) with
      | none => exact ⟨_, rfl⟩
      | some s => exact ⟨_, rfl⟩
    obtain ⟨v, hv⟩ := this
    rw [hv]
    simp only [Except.bind]
    rw [parseFields_named]
    have : ∀ ctx, Con.parse env data (.uint w le) ctx (pos + w) = .error .elfParseError := by
      intro ctx
      rw [Con.parse, readExact_trunc (by omega) (by omega)]
      rfl
    rw [this]
    rfl

theorem structParseAt_dyn_trunc (env : Env) (le : Bool) (w : Nat) (tbl : String) (hw : 1 ≤ w) (data : Bytes)
    (pos : Nat) (h : data.length < pos + 2 * w) :
    structParseAt env (dynCon le w tbl) data pos = .error .elfParseError := by
  by_cases hp : pos < 2 ^ 63
  · rw [structParseAt_eq hp]
    unfold structParse
    rw [parse_dyn_trunc env le w tbl hw data pos h]
    rfl
  · exact structParseAt_big (by omega)

/-- the object reads a table holding `tags` after which the file ends (at most a partial entry
    follows) -/
structure TruncView (S : ElfStructs) (data : Bytes) (d : Dyn) (le : Bool) (w : Nat) (tbl : String)
    (tags : List (Int × Nat)) : Prop where
  view : TableView S data d le w tbl tags
  noTerm : hasTerminator tags = false
  ends : data.length < d.offset + tags.length * (2 * w) + 2 * w

section trunc
variable {env : Env} {S : ElfStructs} {data : Bytes} {d : Dyn} {le : Bool} {w : Nat} {tbl : String}
  {tags : List (Int × Nat)} {ifc : FileIfc} {hs : List Val}

/-- the entry after the last stored one cannot be read -/
theorem getTagRaw_trunc (T : TruncView S data d le w tbl tags) :
    getTagRaw env S data d tags.length = .error .elfParseError := by
  unfold getTagRaw
  simp only [T.view.nonempty, T.view.con, T.view.tagsize, Bool.false_eq_true, if_false]
  rw [structParseAt_dyn_trunc env le w tbl T.view.wpos data _ T.ends]
  rfl

theorem liveTags_noTerm : ∀ {l : List (Int × Nat)}, hasTerminator l = false → liveTags l = l := by
  intro l
  induction l with
  | nil => intro _; rfl
  | cons t l ih =>
    intro h
    simp only [hasTerminator, List.any_cons, Bool.or_eq_false_iff, beq_eq_false_iff_ne, ne_eq] at h
    simp only [liveTags, h.1, if_false]
    rw [ih (by simpa [hasTerminator] using h.2)]

theorem noTerm_tail {t : Int × Nat} {l : List (Int × Nat)} (h : hasTerminator (t :: l) = false) :
    t.1 ≠ DT_NULL ∧ hasTerminator l = false := by
  simp only [hasTerminator, List.any_cons, Bool.or_eq_false_iff, beq_eq_false_iff_ne, ne_eq] at h
  exact ⟨h.1, by simpa [hasTerminator] using h.2⟩

/-- `_iter_tags(type)` consumed to its first element, on a table that runs off the end: the first
    stored entry of that type, ELFParseError when there is none -/
theorem firstTagRaw_trunc_go (T : TruncView S data d le w tbl tags) (hnull : NullIs env tbl)
    (type : Option String) (p : Int → Bool) (hp : ∀ t, tagMatches type (decTag env tbl t) = p t) :
    ∀ (suffix : List (Int × Nat)) (n fuel : Nat), n ≤ tags.length → tags.drop n = suffix →
      hasTerminator suffix = false → suffix.length + 1 ≤ fuel →
      firstTagRaw.go env S data d type fuel n
        = match suffix.find? (fun t => p t.1) with
          | some t => .ok (some (decEntry env tbl t))
          | none => .error .elfParseError := by
  intro suffix
  induction suffix with
  | nil =>
    intro n fuel hle hdrop _ hfuel
    obtain ⟨k, rfl⟩ : ∃ k, fuel = k + 1 := ⟨fuel - 1, by simp at hfuel; omega⟩
    have hn : n = tags.length := by
      have := congrArg List.length hdrop
      simp at this; omega
    subst hn
    rw [firstTagRaw.go, getTagRaw_trunc T]
    rfl
  | cons t rest ih =>
    intro n fuel _ hdrop hterm hfuel
    obtain ⟨k, rfl⟩ : ∃ k, fuel = k + 1 := ⟨fuel - 1, by simp at hfuel; omega⟩
    obtain ⟨hn, ht, hrest⟩ := drop_step hdrop
    obtain ⟨h0, hterm'⟩ := noTerm_tail hterm
    have hnl : isStr (decTag env tbl t.1) "DT_NULL" = (t.1 == DT_NULL) := hnull t.1
    have hb : (t.1 == DT_NULL) = false := by simpa using h0
    rw [firstTagRaw.go]
    simp only [getTagRaw_view T.view n hn, ht, bind, Except.bind, getField_tag, hp, hnl, hb]
    by_cases hm : p t.1 = true
    · simp [hm, pure, Except.pure]
    · have hm' : p t.1 = false := by simpa using hm
      simp only [hm', Bool.false_eq_true, if_false, List.find?_cons]
      exact ih (n + 1) k (by omega) hrest hterm' (by simp at hfuel ⊢; omega)

theorem firstTagRaw_trunc (T : TruncView S data d le w tbl tags) (hnull : NullIs env tbl)
    (type : Option String) (p : Int → Bool) (hp : ∀ t, tagMatches type (decTag env tbl t) = p t) :
    firstTagRaw env S data d type
      = match tags.find? (fun t => p t.1) with
        | some t => .ok (some (decEntry env tbl t))
        | none => .error .elfParseError := by
  unfold firstTagRaw
  simp only [T.view.nonempty, Bool.false_eq_true, if_false]
  exact firstTagRaw_trunc_go T hnull type p hp tags 0 _ (Nat.zero_le _) (by simp) T.noTerm
    (by have := tagFuel_ge T.view; omega)

/-- `get_table_offset(name)` on such a table: the first stored entry of that tag; ELFParseError when
    there is none (the search runs off the end) -/
theorem getTableOffset_trunc (T : TruncView S data d le w tbl tags) (hnull : NullIs env tbl)
    (SV : SegsView ifc hs) (name : String) (c : Int) (hname : TagIs env tbl name c) :
    getTableOffset env S data ifc d name
      = match firstVal tags c with
        | some a => .ok (some a, mapAddr hs a)
        | none => .error .elfParseError := by
  unfold getTableOffset
  rw [firstTagRaw_trunc T hnull (some name) (fun t => t == c) (by intro t; exact hname t)]
  simp only [firstVal]
  cases hf : tags.find? (fun t => t.1 == c) with
  | none => rfl
  | some t =>
    simp only [bind, Except.bind, Option.map_some, getNat_ptr, addressOffsetFirst_eq ifc hs SV]
    rfl

/-- `list(iter_tags())` / `num_tags()` / `get_tag(n)` on a table that runs off the end of the file:
    every stored entry is produced (`get_tag(n)`, `n < |tags|`), then ELFParseError — the
    enumerations as a whole raise it -/
theorem iterTags_trunc_go (T : TruncView S data d le w tbl tags) (hnull : NullIs env tbl)
    {st : R (Option StrTab)} {tab : StrTab} {sunw : Bool} {strtab : Bytes}
    (hst : st = .ok (some tab)) (hattr : AttrIs env tbl sunw) (hserve : Serves data tab strtab) {σ : Type}
    (step : σ → DTag → R σ) (hstep : ∀ s t, ∃ s', step s t = .ok s') :
    ∀ (suffix : List (Int × Nat)) (n fuel : Nat) (s : σ), n ≤ tags.length → tags.drop n = suffix →
      hasTerminator suffix = false → suffix.length + 1 ≤ fuel → StringsOk sunw strtab suffix →
      foldTags.go env S data d none step st fuel n s = .error .elfParseError := by
  intro suffix
  induction suffix with
  | nil =>
    intro n fuel s hle hdrop _ hfuel _
    obtain ⟨k, rfl⟩ : ∃ k, fuel = k + 1 := ⟨fuel - 1, by simp at hfuel; omega⟩
    have hn : n = tags.length := by
      have := congrArg List.length hdrop
      simp at this; omega
    subst hn
    rw [foldTags.go, getTagRaw_trunc T]
    rfl
  | cons t rest ih =>
    intro n fuel s _ hdrop hterm hfuel hstr
    obtain ⟨k, rfl⟩ : ∃ k, fuel = k + 1 := ⟨fuel - 1, by simp at hfuel; omega⟩
    obtain ⟨hn, ht, hrest⟩ := drop_step hdrop
    obtain ⟨h0, hterm'⟩ := noTerm_tail hterm
    have hnl : isStr (decTag env tbl t.1) "DT_NULL" = (t.1 == DT_NULL) := hnull t.1
    have hb : (t.1 == DT_NULL) = false := by simpa using h0
    have hmk := mkTag_view (env := env) (tbl := tbl) hst hattr hserve t (hstr t (by simp))
    obtain ⟨s', hs'⟩ := hstep s (obsEntry env tbl sunw strtab t)
    rw [foldTags.go]
    simp only [getTagRaw_view T.view n hn, ht, bind, Except.bind, getField_tag, tagMatches, if_true, hnl, hb, hmk, hs',
      Bool.false_eq_true, if_false]
    exact ih (n + 1) k s' (by omega) hrest hterm' (by simp at hfuel ⊢; omega)
      (fun x hx => hstr x (List.mem_cons_of_mem _ hx))

theorem numTags_trunc_go (T : TruncView S data d le w tbl tags) (hnull : NullIs env tbl)
    {tab : StrTab} {sunw : Bool} {strtab : Bytes}
    (hst : getStringtable env S data ifc d = .ok (some tab)) (hattr : AttrIs env tbl sunw)
    (hserve : Serves data tab strtab) :
    ∀ (suffix : List (Int × Nat)) (n fuel : Nat), n ≤ tags.length → tags.drop n = suffix →
      hasTerminator suffix = false → suffix.length + 1 ≤ fuel → StringsOk sunw strtab suffix →
      numTags.go env S data ifc d fuel n = .error .elfParseError := by
  intro suffix
  induction suffix with
  | nil =>
    intro n fuel hle hdrop _ hfuel _
    obtain ⟨k, rfl⟩ : ∃ k, fuel = k + 1 := ⟨fuel - 1, by simp at hfuel; omega⟩
    have hn : n = tags.length := by
      have := congrArg List.length hdrop
      simp at this; omega
    subst hn
    rw [numTags.go]
    unfold getTag
    rw [getTagRaw_trunc T]
    rfl
  | cons t rest ih =>
    intro n fuel _ hdrop hterm hfuel hstr
    obtain ⟨k, rfl⟩ : ∃ k, fuel = k + 1 := ⟨fuel - 1, by simp at hfuel; omega⟩
    obtain ⟨hn, ht, hrest⟩ := drop_step hdrop
    obtain ⟨h0, hterm'⟩ := noTerm_tail hterm
    have hnl : isStr (decTag env tbl t.1) "DT_NULL" = (t.1 == DT_NULL) := hnull t.1
    have hb : (t.1 == DT_NULL) = false := by simpa using h0
    have hmk := mkTag_view (env := env) (tbl := tbl) hst hattr hserve t (hstr t (by simp))
    rw [numTags.go]
    unfold getTag
    simp only [getTagRaw_view T.view n hn, ht, bind, Except.bind, hmk, obsEntry, getField_tag, hnl, hb,
      Bool.false_eq_true, if_false]
    exact ih (n + 1) k (by omega) hrest hterm' (by simp at hfuel ⊢; omega)
      (fun x hx => hstr x (List.mem_cons_of_mem _ hx))

theorem tags_trunc (T : TruncView S data d le w tbl tags) (hnull : NullIs env tbl)
    {tab : StrTab} {sunw : Bool} {strtab : Bytes}
    (hst : getStringtable env S data ifc d = .ok (some tab)) (hattr : AttrIs env tbl sunw)
    (hserve : Serves data tab strtab) (hstr : StringsOk sunw strtab tags) :
    iterTags env S data ifc d none = .error .elfParseError ∧
    numTags env S data ifc d = .error .elfParseError ∧
    (∀ n (hn : n < tags.length), getTag env S data ifc d n = .ok (obsEntry env tbl sunw strtab tags[n])) ∧
    getTag env S data ifc d tags.length = .error .elfParseError := by
  have hf := tagFuel_ge T.view
  refine ⟨?_, ?_, ?_, ?_⟩
  · unfold iterTags foldTags
    simp only [T.view.nonempty, Bool.false_eq_true, if_false, bind, Except.bind]
    rw [iterTags_trunc_go T hnull hst hattr hserve (fun acc t => pure (t :: acc)) (fun s t => ⟨_, rfl⟩) tags 0 _ []
      (Nat.zero_le _) (by simp) T.noTerm (by omega) hstr]
  · unfold numTags
    simp only [T.view.nonempty, Bool.false_eq_true, if_false]
    exact numTags_trunc_go T hnull hst hattr hserve tags 0 _ (Nat.zero_le _) (by simp) T.noTerm (by omega) hstr
  · intro n hn
    unfold getTag
    simp only [getTagRaw_view T.view n hn, bind, Except.bind]
    exact mkTag_view hst hattr hserve _ (hstr _ (List.getElem_mem hn))
  · unfold getTag
    rw [getTagRaw_trunc T]
    rfl

end trunc

end PyElf.Proofs.Dynamic
