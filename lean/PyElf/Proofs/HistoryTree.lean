/-
  C10, second wave: the tree-shaped DIE layout of a unit as a file hypothesis (`TreeWF`), and what it buys:
  child iteration, the ancestor search and subtree iteration answer the tree's children / parent / pre-order
  flattening in EVERY cache state, suspended generators included.

  The shape of the hypothesis is C04's (`Spec/DieTree.lean` `flatten` / `flattenP` / `sibOk`, proved of the parser in
  `Props/C04.lean`): the unit's entries are the pre-order flattening of a tree, every sibling list is closed by a
  null entry, sizes are positive and tile the extent, and a DW_AT_sibling attribute on an entry that owns children
  designates the entry that follows the owner's subtree.  Here the tree carries this property's `DIE` records
  (offset, size, has_children, null, sibling target), and the null entry that closes a sibling list is its last
  element (a leaf).
-/
import PyElf.Proofs.History
namespace PyElf.Proofs.C10
open PyElf PyElf.Model.Lookup PyElf.Model.C10 PyElf.Proofs.Lookup

/-! ### trees of entries -/

inductive DTree
  | mk (d : DIE) (kids : List DTree)

def DTree.d : DTree → DIE | .mk d _ => d
def DTree.kids : DTree → List DTree | .mk _ k => k

mutual
/-- the tree `n` occupies exactly `[s, e)` -/
def Lay : Nat → DTree → Nat → Prop
  | s, .mk d kids, e =>
    d.offset = s ∧ 0 < d.size ∧ (d.isNull = true → d.hasChildren = false) ∧
    (d.hasChildren = true → LayK (s + d.size) kids e ∧ (d.sibling = none ∨ d.sibling = some e)) ∧
    (d.hasChildren = false → kids = [] ∧ e = s + d.size)
/-- a sibling list occupying `[s, e)`: non-null entries, then exactly one null entry -/
def LayK : Nat → List DTree → Nat → Prop
  | _, [], _ => False
  | s, t :: ts, e => ∃ m, Lay s t m ∧ (t.d.isNull = true → ts = [] ∧ e = m) ∧ (t.d.isNull = false → LayK m ts e)
end

mutual
def cnt : DTree → Nat
  | .mk _ kids => 1 + cntF kids
def cntF : List DTree → Nat
  | [] => 0
  | t :: ts => cnt t + cntF ts
end

mutual
/-- pre-order list of the subtrees of a tree, each with the entry that owns it -/
def ents : Option DIE → DTree → List (DTree × Option DIE)
  | p, .mk d kids => (.mk d kids, p) :: entsF d kids
def entsF : DIE → List DTree → List (DTree × Option DIE)
  | _, [] => []
  | p, t :: ts => ents (some p) t ++ entsF p ts
end

theorem lay_def (s : Nat) (n : DTree) (e : Nat) :
    Lay s n e ↔ (n.d.offset = s ∧ 0 < n.d.size ∧ (n.d.isNull = true → n.d.hasChildren = false) ∧
      (n.d.hasChildren = true → LayK (s + n.d.size) n.kids e ∧ (n.d.sibling = none ∨ n.d.sibling = some e)) ∧
      (n.d.hasChildren = false → n.kids = [] ∧ e = s + n.d.size)) := by
  cases n; rw [Lay]; rfl

theorem ents_def (p : Option DIE) (n : DTree) : ents p n = (n, p) :: entsF n.d n.kids := by
  cases n; rw [ents]; rfl

theorem cnt_def (n : DTree) : cnt n = 1 + cntF n.kids := by
  cases n; rw [cnt]; rfl

theorem cnt_pos (n : DTree) : 1 ≤ cnt n := by rw [cnt_def]; omega

theorem cntF_mem {c : DTree} : ∀ {ts : List DTree}, c ∈ ts → cnt c ≤ cntF ts
  | [], h => by cases h
  | t :: ts, h => by
    rw [cntF]
    rcases List.mem_cons.mp h with rfl | h
    · omega
    · have := cntF_mem h; omega

theorem cnt_kid {c n : DTree} (h : c ∈ n.kids) : cnt c < cnt n := by
  have := cntF_mem h; rw [cnt_def n]; omega

mutual
theorem lay_cnt : ∀ (n : DTree) (s e : Nat), Lay s n e → s + cnt n ≤ e
  | .mk d kids, s, e, h => by
    rw [Lay] at h
    obtain ⟨_, h2, _, h4, h5⟩ := h
    rw [cnt]
    cases hc : d.hasChildren with
    | true => have := layK_cnt kids _ _ (h4 hc).1; omega
    | false => obtain ⟨hk, he⟩ := h5 hc; subst hk; simp only [cntF]; omega
theorem layK_cnt : ∀ (ts : List DTree) (s e : Nat), LayK s ts e → s + cntF ts ≤ e
  | [], s, e, h => by rw [LayK] at h; exact h.elim
  | t :: ts, s, e, h => by
    rw [LayK] at h
    obtain ⟨m, h1, h2, h3⟩ := h
    have := lay_cnt t s m h1
    rw [cntF]
    cases hn : t.d.isNull with
    | true => obtain ⟨hts, he⟩ := h2 hn; subst hts; simp only [cntF]; omega
    | false => have := layK_cnt ts m e (h3 hn); omega
end

mutual
theorem ents_bounds : ∀ (n : DTree) (p : Option DIE) (s e : Nat), Lay s n e →
    ∀ x ∈ ents p n, s ≤ x.1.d.offset ∧ x.1.d.offset < e
  | .mk d kids, p, s, e, h, x, hx => by
    have hlt := lay_cnt _ _ _ h
    have hpos := cnt_pos (.mk d kids)
    rw [Lay] at h
    obtain ⟨h1, h2, _, h4, h5⟩ := h
    rw [ents] at hx
    rcases List.mem_cons.mp hx with rfl | hx
    · exact ⟨by simp [DTree.d, h1], by simp only [DTree.d]; omega⟩
    · cases hc : d.hasChildren with
      | true => have := entsF_bounds kids d _ _ (h4 hc).1 x hx; omega
      | false => obtain ⟨hk, _⟩ := h5 hc; subst hk; simp [entsF] at hx
theorem entsF_bounds : ∀ (ts : List DTree) (p : DIE) (s e : Nat), LayK s ts e →
    ∀ x ∈ entsF p ts, s ≤ x.1.d.offset ∧ x.1.d.offset < e
  | [], p, s, e, h, x, hx => by simp [entsF] at hx
  | t :: ts, p, s, e, h, x, hx => by
    rw [LayK] at h
    obtain ⟨m, h1, h2, h3⟩ := h
    have hlt := lay_cnt t s m h1
    have hpos := cnt_pos t
    rw [entsF] at hx
    cases hn : t.d.isNull with
    | true =>
      obtain ⟨hts, he⟩ := h2 hn; subst hts
      simp only [entsF, List.append_nil] at hx
      have := ents_bounds t (some p) s m h1 x hx; omega
    | false =>
      have hle := layK_cnt ts m e (h3 hn)
      rcases List.mem_append.mp hx with hx | hx
      · have := ents_bounds t (some p) s m h1 x hx; omega
      · have := entsF_bounds ts p m e (h3 hn) x hx; omega
end

def offLt (a b : DTree × Option DIE) : Prop := a.1.d.offset < b.1.d.offset

mutual
theorem ents_sorted : ∀ (n : DTree) (p : Option DIE) (s e : Nat), Lay s n e → (ents p n).Pairwise offLt
  | .mk d kids, p, s, e, h => by
    rw [Lay] at h
    obtain ⟨h1, h2, _, h4, h5⟩ := h
    rw [ents]
    cases hc : d.hasChildren with
    | true =>
      refine List.pairwise_cons.mpr ⟨?_, entsF_sorted kids d _ _ (h4 hc).1⟩
      intro x hx
      have := entsF_bounds kids d _ _ (h4 hc).1 x hx
      show d.offset < x.1.d.offset
      omega
    | false => obtain ⟨hk, _⟩ := h5 hc; subst hk; simp [entsF]
theorem entsF_sorted : ∀ (ts : List DTree) (p : DIE) (s e : Nat), LayK s ts e → (entsF p ts).Pairwise offLt
  | [], p, s, e, h => by simp [entsF]
  | t :: ts, p, s, e, h => by
    rw [LayK] at h
    obtain ⟨m, h1, h2, h3⟩ := h
    rw [entsF]
    cases hn : t.d.isNull with
    | true =>
      obtain ⟨hts, he⟩ := h2 hn; subst hts
      simp only [entsF, List.append_nil]
      exact ents_sorted t (some p) s m h1
    | false =>
      refine List.pairwise_append.mpr ⟨ents_sorted t (some p) s m h1, entsF_sorted ts p m e (h3 hn), ?_⟩
      intro a ha b hb
      have := ents_bounds t (some p) s m h1 a ha
      have := entsF_bounds ts p m e (h3 hn) b hb
      show a.1.d.offset < b.1.d.offset
      omega
end

theorem pairwise_unique {α} {f : α → Nat} : ∀ {l : List α}, l.Pairwise (fun a b => f a < f b) →
    ∀ {a b : α}, a ∈ l → b ∈ l → f a = f b → a = b
  | [], _, a, b, ha, _, _ => by cases ha
  | x :: l, h, a, b, ha, hb, hab => by
    obtain ⟨h1, h2⟩ := List.pairwise_cons.mp h
    rcases List.mem_cons.mp ha with ha' | ha' <;> rcases List.mem_cons.mp hb with hb' | hb'
    · rw [ha', hb']
    · subst ha'; have := h1 b hb'; omega
    · subst hb'; have := h1 a ha'; omega
    · exact pairwise_unique h2 ha' hb' hab

theorem ents_self (p : Option DIE) (n : DTree) : (n, p) ∈ ents p n := by rw [ents_def]; exact List.mem_cons_self

mutual
theorem ents_sub : ∀ (t : DTree) (p : Option DIE) (n : DTree) (q : Option DIE), (n, q) ∈ ents p t →
    ∀ x ∈ ents q n, x ∈ ents p t
  | .mk d kids, p, n, q, h, x, hx => by
    rw [ents] at h
    rcases List.mem_cons.mp h with h | h
    · injection h with h1 h2; subst h1 h2; exact hx
    · rw [ents]; exact List.mem_cons_of_mem _ (entsF_sub kids d n q h x hx)
theorem entsF_sub : ∀ (ts : List DTree) (p : DIE) (n : DTree) (q : Option DIE), (n, q) ∈ entsF p ts →
    ∀ x ∈ ents q n, x ∈ entsF p ts
  | [], p, n, q, h, x, hx => by simp [entsF] at h
  | t :: ts, p, n, q, h, x, hx => by
    rw [entsF] at h ⊢
    rcases List.mem_append.mp h with h | h
    · exact List.mem_append_left _ (ents_sub t (some p) n q h x hx)
    · exact List.mem_append_right _ (entsF_sub ts p n q h x hx)
end

mutual
theorem ents_lay : ∀ (t : DTree) (p : Option DIE) (s e : Nat), Lay s t e → ∀ n q, (n, q) ∈ ents p t →
    ∃ e', Lay n.d.offset n e' ∧ s ≤ n.d.offset ∧ e' ≤ e
  | .mk d kids, p, s, e, hl, n, q, h => by
    rw [ents] at h
    rcases List.mem_cons.mp h with h | h
    · injection h with h1 h2; subst h1
      have : d.offset = s := by rw [Lay] at hl; exact hl.1
      exact ⟨e, by simpa [DTree.d, this] using hl, by simp [DTree.d, this], Nat.le_refl _⟩
    · rw [Lay] at hl
      obtain ⟨_, _, _, h4, h5⟩ := hl
      cases hc : d.hasChildren with
      | true =>
        obtain ⟨e', h1, h2, h3⟩ := entsF_lay kids d _ _ (h4 hc).1 n q h
        exact ⟨e', h1, by omega, h3⟩
      | false => obtain ⟨hk, _⟩ := h5 hc; subst hk; simp [entsF] at h
theorem entsF_lay : ∀ (ts : List DTree) (p : DIE) (s e : Nat), LayK s ts e → ∀ n q, (n, q) ∈ entsF p ts →
    ∃ e', Lay n.d.offset n e' ∧ s ≤ n.d.offset ∧ e' ≤ e
  | [], p, s, e, hl, n, q, h => by simp [entsF] at h
  | t :: ts, p, s, e, hl, n, q, h => by
    rw [LayK] at hl
    obtain ⟨m, h1, h2, h3⟩ := hl
    have hlt := lay_cnt t s m h1
    rw [entsF] at h
    cases hn : t.d.isNull with
    | true =>
      obtain ⟨hts, he⟩ := h2 hn; subst hts
      simp only [entsF, List.append_nil] at h
      obtain ⟨e', a, b, c⟩ := ents_lay t (some p) s m h1 n q h
      exact ⟨e', a, b, by omega⟩
    | false =>
      have hle := layK_cnt ts m e (h3 hn)
      rcases List.mem_append.mp h with h | h
      · obtain ⟨e', a, b, c⟩ := ents_lay t (some p) s m h1 n q h
        exact ⟨e', a, b, by omega⟩
      · obtain ⟨e', a, b, c⟩ := entsF_lay ts p m e (h3 hn) n q h
        exact ⟨e', a, by omega, c⟩
end

theorem mem_entsF_of_mem {k : DTree} (p : DIE) : ∀ {ts : List DTree}, k ∈ ts → (k, some p) ∈ entsF p ts
  | [], h => by cases h
  | t :: ts, h => by
    rw [entsF]
    rcases List.mem_cons.mp h with rfl | h
    · exact List.mem_append_left _ (ents_self _ _)
    · exact List.mem_append_right _ (mem_entsF_of_mem p h)

/-- the children of a subtree are subtrees, owned by its entry -/
theorem ents_kid {t : DTree} {p q : Option DIE} {n k : DTree} (h : (n, q) ∈ ents p t) (hk : k ∈ n.kids) :
    (k, some n.d) ∈ ents p t := by
  apply ents_sub t p n q h
  rw [ents_def]
  exact List.mem_cons_of_mem _ (mem_entsF_of_mem n.d hk)


mutual
/-- the owner recorded with a subtree is a subtree whose sibling list contains it -/
theorem ents_parent : ∀ (t : DTree) (p0 : Option DIE) (x : DTree × Option DIE), x ∈ ents p0 t →
    x = (t, p0) ∨ ∃ n q, (n, q) ∈ ents p0 t ∧ x.2 = some n.d ∧ x.1 ∈ n.kids
  | .mk d kids, p0, x, h => by
    rw [ents] at h
    rcases List.mem_cons.mp h with h | h
    · exact Or.inl h
    · right
      rcases entsF_parent kids d x h with ⟨h1, h2⟩ | ⟨n, q, h1, h2, h3⟩
      · exact ⟨.mk d kids, p0, ents_self _ _, h1, h2⟩
      · exact ⟨n, q, by rw [ents]; exact List.mem_cons_of_mem _ h1, h2, h3⟩
theorem entsF_parent : ∀ (ts : List DTree) (p : DIE) (x : DTree × Option DIE), x ∈ entsF p ts →
    (x.2 = some p ∧ x.1 ∈ ts) ∨ ∃ n q, (n, q) ∈ entsF p ts ∧ x.2 = some n.d ∧ x.1 ∈ n.kids
  | [], p, x, h => by simp [entsF] at h
  | t :: ts, p, x, h => by
    rw [entsF] at h ⊢
    rcases List.mem_append.mp h with h | h
    · rcases ents_parent t (some p) x h with h1 | ⟨n, q, h1, h2, h3⟩
      · left; rw [h1]; exact ⟨rfl, List.mem_cons_self⟩
      · exact Or.inr ⟨n, q, List.mem_append_left _ h1, h2, h3⟩
    · rcases entsF_parent ts p x h with ⟨h1, h2⟩ | ⟨n, q, h1, h2, h3⟩
      · exact Or.inl ⟨h1, List.mem_cons_of_mem _ h2⟩
      · exact Or.inr ⟨n, q, List.mem_append_right _ h1, h2, h3⟩
end

/-- a sibling list ends in a null leaf that ends where the list ends -/
theorem layK_last : ∀ (ts : List DTree) (s e : Nat), LayK s ts e →
    ∃ z, ts.getLast? = some z ∧ z.d.isNull = true ∧ z.d.hasChildren = false ∧ z.d.offset + z.d.size = e
  | [], s, e, h => by rw [LayK] at h; exact h.elim
  | [t], s, e, h => by
    rw [LayK] at h
    obtain ⟨m, h1, h2, h3⟩ := h
    cases hn : t.d.isNull with
    | true =>
      obtain ⟨_, he⟩ := h2 hn
      obtain ⟨a, _, c, _, f⟩ := (lay_def _ _ _).mp h1
      have hc := c hn
      exact ⟨t, rfl, hn, hc, by have := (f hc).2; omega⟩
    | false => have := h3 hn; rw [LayK] at this; exact this.elim
  | t :: t' :: ts, s, e, h => by
    rw [LayK] at h
    obtain ⟨m, h1, h2, h3⟩ := h
    cases hn : t.d.isNull with
    | true => obtain ⟨hts, _⟩ := h2 hn; cases hts
    | false =>
      obtain ⟨z, hz, r⟩ := layK_last (t' :: ts) m e (h3 hn)
      exact ⟨z, by rw [List.getLast?_cons_cons]; exact hz, r⟩

/-! ### a unit whose entries form a tree -/

/-- the pure side of a unit: its entries are the tree `t` laid out from the first DIE offset, and the parse at
    every entry's offset returns that entry -/
structure TW (PD : Nat → R DIE) (dieOff : Nat) (t : DTree) : Prop where
  hPo : ∀ o d, PD o = .ok d → d.offset = o
  lay : ∃ e, Lay dieOff t e
  cov : ∀ x ∈ ents none t, PD x.1.d.offset = .ok x.1.d

def lastKid (n : DTree) : Option DIE := (n.kids.getLast?).map (·.d)
def kidsOut (ts : List DTree) : List DIE := (ts.map (·.d)).filter (fun d => !d.isNull)

/-- the unit invariant with the tree: the DIE cache is exact, `_parent` links are the tree's, `_terminator` links
    are the null entries closing the owner's sibling list -/
structure UT (PD : Nat → R DIE) (dieOff : Nat) (t : DTree) (u : UnitCache) : Prop where
  core : UCore PD dieOff u
  par : ∀ k p, assocGet? u.parent k = some p → ∃ x ∈ ents none t, x.1.d.offset = k ∧ x.2 = some p
  term : ∀ k z, assocGet? u.term k = some z →
    ∃ x ∈ ents none t, x.1.d.offset = k ∧ x.1.d.hasChildren = true ∧ lastKid x.1 = some z

theorem ut_empty (PD : Nat → R DIE) (dieOff : Nat) (t : DTree) (pos : Nat) : UT PD dieOff t (UnitCache.empty pos) :=
  { core := ucore_empty _ _ _, par := fun k p h => by simp [UnitCache.empty, assocGet?] at h,
    term := fun k z h => by simp [UnitCache.empty, assocGet?] at h }

theorem ut_congr {PD : Nat → R DIE} {dieOff : Nat} {t : DTree} {u u' : UnitCache} (h : UT PD dieOff t u)
    (hc : UCore PD dieOff u') (h1 : u'.parent = u.parent) (h2 : u'.term = u.term) : UT PD dieOff t u' :=
  { core := hc, par := by rw [h1]; exact h.par, term := by rw [h2]; exact h.term }

section unit
variable {PD : Nat → R DIE} {dieOff : Nat} {t : DTree}

theorem tw_root (tw : TW PD dieOff t) : t.d.offset = dieOff := by
  obtain ⟨e, he⟩ := tw.lay
  exact ((lay_def _ _ _).mp he).1

theorem tw_top (tw : TW PD dieOff t) : PD dieOff = .ok t.d := by
  have := tw.cov _ (ents_self none t)
  rwa [tw_root tw] at this

theorem tw_low (tw : TW PD dieOff t) {x : DTree × Option DIE} (hx : x ∈ ents none t) : dieOff ≤ x.1.d.offset := by
  obtain ⟨e, he⟩ := tw.lay
  exact (ents_bounds t none _ _ he x hx).1

theorem tw_unique (tw : TW PD dieOff t) {x y : DTree × Option DIE} (hx : x ∈ ents none t) (hy : y ∈ ents none t)
    (h : x.1.d.offset = y.1.d.offset) : x = y := by
  obtain ⟨e, he⟩ := tw.lay
  exact pairwise_unique (f := fun a => a.1.d.offset) (ents_sorted t none _ _ he) hx hy h

theorem tw_lay (tw : TW PD dieOff t) {n : DTree} {q : Option DIE} (h : (n, q) ∈ ents none t) :
    ∃ e', Lay n.d.offset n e' := by
  obtain ⟨e, he⟩ := tw.lay
  obtain ⟨e', h1, _⟩ := ents_lay t none _ _ he n q h
  exact ⟨e', h1⟩

theorem tw_cnt (_tw : TW PD dieOff t) {n : DTree} {q : Option DIE} (h : (n, q) ∈ ents none t) {e : Nat}
    (he : Lay dieOff t e) : cnt n ≤ e - dieOff := by
  obtain ⟨e', h1, h2, h3⟩ := ents_lay t none _ _ he n q h
  have := lay_cnt n _ _ h1
  omega


/-! ### the walk over a sibling list -/

theorem getTopDIE_maps (u : UnitCache) :
    (getTopDIE PD dieOff u).2.parent = u.parent ∧ (getTopDIE PD dieOff u).2.term = u.term := by
  unfold getTopDIE
  split
  · split <;> exact ⟨rfl, rfl⟩
  · split <;> exact ⟨rfl, rfl⟩

theorem getCachedDIE_maps (u : UnitCache) (o : Nat) :
    (getCachedDIE PD dieOff u o).2.parent = u.parent ∧ (getCachedDIE PD dieOff u o).2.term = u.term := by
  have h := getTopDIE_maps (PD := PD) (dieOff := dieOff) u
  unfold getCachedDIE
  generalize getTopDIE PD dieOff u = g at h
  obtain ⟨r, u1⟩ := g
  cases r with
  | error e => exact h
  | ok t =>
    simp only
    split
    · exact h
    · split
      · exact h
      · split
        · split <;> exact h
        · split <;> exact h

theorem getTopDIE_tw (tw : TW PD dieOff t) {u : UnitCache} (hu : UT PD dieOff t u) :
    ∃ u', getTopDIE PD dieOff u = (.ok t.d, u') ∧ UT PD dieOff t u' := by
  obtain ⟨h1, h2, _⟩ := getTopDIE_spec tw.hPo hu.core
  obtain ⟨h3, h4⟩ := getTopDIE_maps (PD := PD) (dieOff := dieOff) u
  rw [tw_top tw] at h1
  exact ⟨(getTopDIE PD dieOff u).2, Prod.ext h1 rfl, ut_congr hu h2 h3 h4⟩

theorem getCachedDIE_tw (tw : TW PD dieOff t) {u : UnitCache} (hu : UT PD dieOff t u) {x : DTree × Option DIE}
    (hx : x ∈ ents none t) :
    ∃ u', getCachedDIE PD dieOff u x.1.d.offset = (.ok x.1.d, u') ∧ UT PD dieOff t u' := by
  obtain ⟨h1, h2⟩ := getCachedDIE_spec tw.hPo hu.core (tw_low tw hx)
  obtain ⟨h3, h4⟩ := getCachedDIE_maps (PD := PD) (dieOff := dieOff) u x.1.d.offset
  rw [tw_top tw, tw.cov x hx] at h1
  have h1' : (getCachedDIE PD dieOff u x.1.d.offset).1 = .ok x.1.d := h1
  exact ⟨(getCachedDIE PD dieOff u x.1.d.offset).2, Prod.ext h1' rfl, ut_congr hu h2 h3 h4⟩

theorem ut_setParent {u : UnitCache} (hu : UT PD dieOff t u) {x : DTree × Option DIE} (hx : x ∈ ents none t) {p : DIE}
    (hp : x.2 = some p) : UT PD dieOff t { u with parent := assocSet u.parent x.1.d.offset p } :=
  { core := ucore_congr hu.core rfl rfl
    par := by
      intro k p' h
      by_cases hk : k = x.1.d.offset
      · subst hk
        simp only [assocGet_set_self] at h
        injection h with h; subst h; exact ⟨x, hx, rfl, hp⟩
      · simp only [assocGet_set_other _ _ _ _ hk] at h; exact hu.par k p' h
    term := hu.term }

theorem ut_setTerm {u : UnitCache} (hu : UT PD dieOff t u) {x : DTree × Option DIE} (hx : x ∈ ents none t)
    (hc : x.1.d.hasChildren = true) {z : DIE} (hz : lastKid x.1 = some z) :
    UT PD dieOff t { u with term := assocSet u.term x.1.d.offset z } :=
  { core := ucore_congr hu.core rfl rfl
    par := hu.par
    term := by
      intro k z' h
      by_cases hk : k = x.1.d.offset
      · subst hk
        simp only [assocGet_set_self] at h
        injection h with h; subst h; exact ⟨x, hx, rfl, hc, hz⟩
      · simp only [assocGet_set_other _ _ _ _ hk] at h; exact hu.term k z' h }

/-- the specification of a full `iter_DIE_children(c)`: the non-null children in order, and afterwards the
    terminator of `c` is known and carries its `_parent` -/
def W (PD : Nat → R DIE) (dieOff : Nat) (t c : DTree) : Prop :=
  ∀ fuel u, 2 * cnt c + 1 ≤ fuel → UT PD dieOff t u →
    ∃ u', drain PD dieOff fuel (ChildIter.new c.d) u [] = (.ok (kidsOut c.kids), u') ∧ UT PD dieOff t u' ∧
      (c.d.hasChildren = true → ∃ z, lastKid c = some z ∧ assocGet? u'.term c.d.offset = some z ∧
        assocGet? u'.parent z.offset = some c.d)

/-- the code after `yield child`: wherever the shortcut comes from (no children, DW_AT_sibling, a cached
    `_terminator`, or a nested full iteration), the next sibling starts where the child's subtree ends -/
theorem nextCur_pos (tw : TW PD dieOff t) {c : DTree} {q : Option DIE} {m : Nat} (hc : (c, q) ∈ ents none t)
    (hlay : Lay c.d.offset c m) (hW : W PD dieOff t c) {it : ChildIter} (hl : it.last = some c.d)
    (hcur : it.cur = c.d.offset) {f : Nat} (hf : 2 * cnt c + 1 ≤ f) {u : UnitCache} (hu : UT PD dieOff t u) :
    ∃ u', nextCur (fun it u acc => drain PD dieOff f it u acc) it u = (.ok m, u') ∧ UT PD dieOff t u' := by
  obtain ⟨_, _, _, l4, l5⟩ := (lay_def _ _ _).mp hlay
  unfold nextCur
  rw [hl]
  simp only
  cases hch : c.d.hasChildren with
  | false =>
    simp only [Bool.not_false, if_true]
    refine ⟨u, ?_, hu⟩
    rw [hcur, (l5 hch).2]
  | true =>
    simp only [Bool.not_true, Bool.false_eq_true, if_false]
    obtain ⟨lk, ls⟩ := l4 hch
    obtain ⟨z, hz1, hz2, hz3, hz4⟩ := layK_last _ _ _ lk
    have hlast : lastKid c = some z.d := by simp [lastKid, hz1]
    cases hs : c.d.sibling with
    | some s =>
      simp only
      rcases ls with ls | ls
      · rw [hs] at ls; cases ls
      · rw [hs] at ls; injection ls with ls; subst ls; exact ⟨u, rfl, hu⟩
    | none =>
      simp only
      cases hg : assocGet? u.term c.d.offset with
      | some z' =>
        simp only
        obtain ⟨x, hx, hx1, hx2, hx3⟩ := hu.term _ _ hg
        have : x = (c, q) := tw_unique tw hx hc hx1
        subst this
        rw [hlast] at hx3; injection hx3 with hx3; subst hx3
        exact ⟨u, by rw [hz4], hu⟩
      | none =>
        simp only
        obtain ⟨u', hd, hu', hz⟩ := hW f u hf hu
        rw [hd]
        simp only
        obtain ⟨z', hz'1, hz'2, _⟩ := hz hch
        rw [hlast] at hz'1; injection hz'1 with hz'1; subst hz'1
        rw [hz'2]
        exact ⟨u', by simp only [hz4], hu'⟩

/-- a suspended `iter_DIE_children(n)` generator: `ts` is the part of the sibling list not yet produced, it
    starts at `m`; `w` bounds the fuel the next step needs -/
structure Pos (t n : DTree) (ci : ChildIter) (m : Nat) (ts : List DTree) (w : Nat) : Prop where
  die : ci.die = n.d
  nd : ci.done = false
  hc : n.d.hasChildren = true
  suf : ∃ pre, n.kids = pre ++ ts
  lay : ∃ e, LayK m ts e
  wpos : 1 ≤ w
  last : (ci.last = none ∧ m = n.d.offset + n.d.size) ∨
         (∃ c q, ci.last = some c.d ∧ ci.cur = c.d.offset ∧ Lay c.d.offset c m ∧ (c, q) ∈ ents none t ∧ c ∈ n.kids ∧
            w = cnt c)

theorem nextCur_at (tw : TW PD dieOff t) {n : DTree}
    (hW : ∀ c q, (c, q) ∈ ents none t → c ∈ n.kids → W PD dieOff t c) {ci : ChildIter} {m : Nat} {ts : List DTree}
    {w : Nat} (hp : Pos t n ci m ts w) {f : Nat} (hf : 2 * w + 1 ≤ f) {u : UnitCache} (hu : UT PD dieOff t u) :
    ∃ u', nextCur (fun it u acc => drain PD dieOff f it u acc) ci u = (.ok m, u') ∧ UT PD dieOff t u' := by
  rcases hp.last with ⟨hl, hm⟩ | ⟨c, q, hl, hcur, hlay, hc, hck, hw⟩
  · refine ⟨u, ?_, hu⟩
    unfold nextCur; rw [hl]; simp only; rw [hp.die, hm]
  · subst hw; exact nextCur_pos tw hc hlay (hW c q hc hck) hl hcur hf hu

theorem childStep_eq {D : Drain} {it : ChildIter} {u u1 u2 : UnitCache} {cur : Nat} {child : DIE}
    (hd : it.done = false) (hc : it.die.hasChildren = true) (h1 : nextCur D it u = (.ok cur, u1))
    (h2 : getCachedDIE PD dieOff u1 cur = (.ok child, u2)) :
    childStep PD dieOff D it u =
      (if child.isNull then
        (.ok none, { it with done := true },
          { u2 with parent := assocSet u2.parent child.offset it.die, term := assocSet u2.term it.die.offset child })
       else (.ok (some child), { it with started := true, cur := cur, last := some child },
          { u2 with parent := assocSet u2.parent child.offset it.die })) := by
  unfold childStep
  simp only [hd, hc, h1, h2, Bool.false_eq_true, if_false, Bool.not_true]

/-- one `next()` of a suspended child generator -/
theorem childNext_pos (tw : TW PD dieOff t) {n : DTree} {q : Option DIE} (hn : (n, q) ∈ ents none t)
    (hW : ∀ c q, (c, q) ∈ ents none t → c ∈ n.kids → W PD dieOff t c) {ci : ChildIter} {m : Nat} {k : DTree}
    {ts : List DTree} {w : Nat} (hp : Pos t n ci m (k :: ts) w) {fuel : Nat} (hf : 2 * w + 2 ≤ fuel) {u : UnitCache}
    (hu : UT PD dieOff t u) :
    (k.d.isNull = true → ∃ u', childNext PD dieOff fuel ci u = (.ok none, { ci with done := true }, u') ∧
        UT PD dieOff t u' ∧ ts = [] ∧ assocGet? u'.term n.d.offset = some k.d ∧
        assocGet? u'.parent k.d.offset = some n.d) ∧
    (k.d.isNull = false → ∃ ci' u' m', childNext PD dieOff fuel ci u = (.ok (some k.d), ci', u') ∧
        UT PD dieOff t u' ∧ Pos t n ci' m' ts (cnt k) ∧ assocGet? u'.parent k.d.offset = some n.d) := by
  obtain ⟨f, rfl⟩ : ∃ f, fuel = f + 1 := ⟨fuel - 1, by omega⟩
  obtain ⟨u1, h1, hu1⟩ := nextCur_at tw hW hp (f := f) (by omega) hu
  obtain ⟨e, hlk⟩ := hp.lay
  rw [LayK] at hlk
  obtain ⟨m', lk1, lk2, lk3⟩ := hlk
  have hkm : k.d.offset = m := ((lay_def _ _ _).mp lk1).1
  obtain ⟨pre, hpre⟩ := hp.suf
  have hkk : k ∈ n.kids := by rw [hpre]; simp
  have hke : (k, some n.d) ∈ ents none t := ents_kid hn hkk
  obtain ⟨u2, h2, hu2⟩ := getCachedDIE_tw tw hu1 hke
  simp only at h2
  rw [hkm] at h2
  have hstep := childStep_eq (PD := PD) (dieOff := dieOff) hp.nd (by rw [hp.die]; exact hp.hc) h1 h2
  rw [childNext, hstep]
  have hP := ut_setParent hu2 hke (p := n.d) rfl
  constructor
  · intro hnull
    simp only [hnull, if_true]
    obtain ⟨hts, _⟩ := lk2 hnull
    have hlast : lastKid n = some k.d := by simp [lastKid, hpre, hts]
    have hT := ut_setTerm hP hn hp.hc hlast
    refine ⟨_, rfl, ?_, hts, ?_, ?_⟩
    · rw [hp.die]; exact hT
    · simp only [hp.die, assocGet_set_self]
    · simp only [hp.die, assocGet_set_self]
  · intro hnn
    simp only [hnn, Bool.false_eq_true, if_false]
    refine ⟨_, _, m', rfl, ?_, ?_, ?_⟩
    · rw [hp.die]; exact hP
    · exact { die := hp.die, nd := hp.nd, hc := hp.hc, suf := ⟨pre ++ [k], by rw [hpre]; simp⟩,
              lay := ⟨e, lk3 hnn⟩, wpos := cnt_pos k,
              last := Or.inr ⟨k, some n.d, rfl, hkm.symm, by rw [hkm]; exact lk1, hke, hkk, rfl⟩ }
    · simp only [hp.die, assocGet_set_self]

/-- a suspended child generator consumed to the end -/
theorem drain_pos (tw : TW PD dieOff t) {n : DTree} {q : Option DIE} (hn : (n, q) ∈ ents none t)
    (hW : ∀ c q, (c, q) ∈ ents none t → c ∈ n.kids → W PD dieOff t c) :
    ∀ (ts : List DTree) (ci : ChildIter) (m w fuel : Nat) (u : UnitCache) (acc : List DIE), Pos t n ci m ts w →
      2 * w + 2 * cntF ts + 1 ≤ fuel → UT PD dieOff t u →
      ∃ u' z, drain PD dieOff fuel ci u acc = (.ok (acc ++ kidsOut ts), u') ∧ UT PD dieOff t u' ∧
        (ts.getLast?).map (·.d) = some z ∧ assocGet? u'.term n.d.offset = some z ∧
        assocGet? u'.parent z.offset = some n.d
  | [], ci, m, w, fuel, u, acc, hp, _, _ => by obtain ⟨e, h⟩ := hp.lay; rw [LayK] at h; exact h.elim
  | k :: ts, ci, m, w, fuel, u, acc, hp, hf, hu => by
    have hw := hp.wpos
    have hk := cnt_pos k
    rw [cntF] at hf
    obtain ⟨f, rfl⟩ : ∃ f, fuel = f + 1 := ⟨fuel - 1, by omega⟩
    obtain ⟨hA, hB⟩ := childNext_pos tw hn hW hp (fuel := f) (by omega) hu
    rw [drain]
    cases hnull : k.d.isNull with
    | true =>
      obtain ⟨u', h1, hu', hts, h2, h3⟩ := hA hnull
      subst hts
      rw [h1]
      refine ⟨u', k.d, ?_, hu', rfl, h2, h3⟩
      simp [kidsOut, hnull]
    | false =>
      obtain ⟨ci', u', m', h1, hu', hp', _⟩ := hB hnull
      rw [h1]
      simp only
      obtain ⟨u'', z, h2, hu'', hz, r⟩ :=
        drain_pos tw hn hW ts ci' m' (cnt k) f u' (acc ++ [k.d]) hp' (by omega) hu'
      refine ⟨u'', z, ?_, hu'', ?_, r⟩
      · rw [h2]; simp [kidsOut, hnull]
      · cases ts with
        | nil => simp at hz
        | cons t' ts' => rw [List.getLast?_cons_cons]; exact hz

theorem W_of_kids (tw : TW PD dieOff t) {n : DTree} {q : Option DIE} (hn : (n, q) ∈ ents none t)
    (hW : ∀ c q, (c, q) ∈ ents none t → c ∈ n.kids → W PD dieOff t c) : W PD dieOff t n := by
  intro fuel u hf hu
  obtain ⟨e, hlay⟩ := tw_lay tw hn
  obtain ⟨l1, l2, l3, l4, l5⟩ := (lay_def _ _ _).mp hlay
  cases hch : n.d.hasChildren with
  | false =>
    obtain ⟨hk, _⟩ := l5 hch
    obtain ⟨f, rfl⟩ : ∃ f, fuel = f + 2 := ⟨fuel - 2, by have := cnt_pos n; omega⟩
    refine ⟨u, ?_, hu, by intro h; cases h⟩
    rw [drain, childNext]
    simp [childStep, ChildIter.new, hch, hk, kidsOut]
  | true =>
    have hp : Pos t n (ChildIter.new n.d) (n.d.offset + n.d.size) n.kids 1 :=
      { die := rfl, nd := rfl, hc := hch, suf := ⟨[], rfl⟩, lay := ⟨e, (l4 hch).1⟩, wpos := Nat.le_refl _,
        last := Or.inl ⟨rfl, rfl⟩ }
    obtain ⟨u', z, h1, hu', hz, h2, h3⟩ :=
      drain_pos tw hn hW n.kids _ _ _ fuel u [] hp (by rw [cnt_def] at hf; omega) hu
    exact ⟨u', by simpa using h1, hu', fun _ => ⟨z, hz, h2, h3⟩⟩

theorem drain_spec (tw : TW PD dieOff t) : ∀ (N : Nat) (n : DTree) (q : Option DIE), cnt n ≤ N →
    (n, q) ∈ ents none t → W PD dieOff t n := by
  intro N
  induction N with
  | zero => intro n q h; have := cnt_pos n; omega
  | succ N ih =>
    intro n q h hn
    exact W_of_kids tw hn (fun c q' hc hck => ih c q' (by have := cnt_kid hck; omega) hc)

/-- `list(n.iter_children())` in every cache state satisfying the invariant -/
theorem drain_tree (tw : TW PD dieOff t) {n : DTree} {q : Option DIE} (hn : (n, q) ∈ ents none t) :
    W PD dieOff t n := drain_spec tw (cnt n) n q (Nat.le_refl _) hn


/-! ### the ancestor search -/

theorem foldl_parent_get (search : DIE) : ∀ (cs : List DIE) (u : UnitCache),
    (cs.foldl (fun u c => { u with parent := assocSet u.parent c.offset search }) u).term = u.term ∧
    (∀ k, (∃ c ∈ cs, c.offset = k) →
      assocGet? (cs.foldl (fun u c => { u with parent := assocSet u.parent c.offset search }) u).parent k = some search) ∧
    (∀ k, (¬ ∃ c ∈ cs, c.offset = k) →
      assocGet? (cs.foldl (fun u c => { u with parent := assocSet u.parent c.offset search }) u).parent k
        = assocGet? u.parent k)
  | [], u => by
    refine ⟨rfl, ?_, fun k _ => rfl⟩
    intro k h; obtain ⟨c, hc, _⟩ := h; cases hc
  | c :: cs, u => by
    obtain ⟨h1, h2, h3⟩ := foldl_parent_get search cs { u with parent := assocSet u.parent c.offset search }
    simp only [List.foldl_cons]
    refine ⟨h1, ?_, ?_⟩
    · intro k hk
      by_cases hin : ∃ c' ∈ cs, c'.offset = k
      · exact h2 k hin
      · rw [h3 k hin]
        obtain ⟨c', hc', hk'⟩ := hk
        rcases List.mem_cons.mp hc' with rfl | hc'
        · subst hk'; simp only [assocGet_set_self]
        · exact absurd ⟨c', hc', hk'⟩ hin
    · intro k hk
      have hin : ¬ ∃ c' ∈ cs, c'.offset = k := fun ⟨c', hc', hk'⟩ => hk ⟨c', List.mem_cons_of_mem _ hc', hk'⟩
      rw [h3 k hin]
      have hne : k ≠ c.offset := fun h => hk ⟨c, List.mem_cons_self, h.symm⟩
      simp only [assocGet_set_other _ _ _ _ hne]

theorem mem_kidsOut {ts : List DTree} {c : DIE} (h : c ∈ kidsOut ts) : ∃ k ∈ ts, c = k.d := by
  unfold kidsOut at h
  obtain ⟨h1, _⟩ := List.mem_filter.mp h
  obtain ⟨k, hk, rfl⟩ := List.mem_map.mp h1
  exact ⟨k, hk, rfl⟩

theorem foldl_parent_ut {n : DTree} {q : Option DIE} (hn : (n, q) ∈ ents none t) :
    ∀ (cs : List DIE) (u : UnitCache), (∀ c ∈ cs, ∃ k ∈ n.kids, c = k.d) → UT PD dieOff t u →
      UT PD dieOff t (cs.foldl (fun u c => { u with parent := assocSet u.parent c.offset n.d }) u)
  | [], u, _, hu => hu
  | c :: cs, u, hcs, hu => by
    obtain ⟨k, hk, rfl⟩ := hcs c List.mem_cons_self
    exact foldl_parent_ut hn cs _ (fun c hc => hcs c (List.mem_cons_of_mem _ hc))
      (ut_setParent hu (ents_kid hn hk) rfl)

theorem null_is_last : ∀ (ts : List DTree) (s e : Nat), LayK s ts e → ∀ {k z : DTree}, k ∈ ts →
    k.d.isNull = true → ts.getLast? = some z → k = z
  | [], s, e, h, _, _, _, _, _ => by rw [LayK] at h; exact h.elim
  | t' :: ts, s, e, h, k, z, hk, hkn, hz => by
    rw [LayK] at h
    obtain ⟨m, h1, h2, h3⟩ := h
    cases hn : t'.d.isNull with
    | true =>
      obtain ⟨hts, _⟩ := h2 hn; subst hts
      simp at hk hz; rw [hk, hz]
    | false =>
      rcases List.mem_cons.mp hk with rfl | hk
      · rw [hn] at hkn; cases hkn
      · have : ts.getLast? = some z := by
          cases ts with
          | nil => cases hk
          | cons a as => rwa [List.getLast?_cons_cons] at hz
        exact null_is_last ts m e (h3 hn) hk hkn this

theorem foldl_pick_none (o : Nat) : ∀ (l : List DIE) (init : DIE), (∀ c ∈ l, o < c.offset) →
    l.foldl (fun p c => if c.offset ≤ o then c else p) init = init
  | [], _, _ => rfl
  | c :: l, init, h => by
    have : ¬ c.offset ≤ o := by have := h c List.mem_cons_self; omega
    simp only [List.foldl_cons, this, if_false]
    exact foldl_pick_none o l init (fun c hc => h c (List.mem_cons_of_mem _ hc))

/-- `prev` of `_search_ancestor_offspring`: the child whose subtree contains the entry looked for -/
theorem pick_spec (p : DIE) (x : DTree × Option DIE) : ∀ (ts : List DTree) (s e : Nat) (init : DIE), LayK s ts e →
    x ∈ entsF p ts → ∃ k ∈ ts, x ∈ ents (some p) k ∧ ∃ z, (ts.getLast?).map (·.d) = some z ∧
      (if z.offset ≤ x.1.d.offset then z
       else (kidsOut ts).foldl (fun p c => if c.offset ≤ x.1.d.offset then c else p) init) = k.d
  | [], s, e, init, h, _ => by rw [LayK] at h; exact h.elim
  | t' :: ts, s, e, init, h, hx => by
    rw [LayK] at h
    obtain ⟨m, h1, h2, h3⟩ := h
    rw [entsF] at hx
    cases hn : t'.d.isNull with
    | true =>
      obtain ⟨hts, _⟩ := h2 hn; subst hts
      simp only [entsF, List.append_nil] at hx
      have hb := ents_bounds t' (some p) s m h1 x hx
      have ho : t'.d.offset = s := ((lay_def _ _ _).mp h1).1
      refine ⟨t', List.mem_cons_self, hx, t'.d, rfl, ?_⟩
      have : t'.d.offset ≤ x.1.d.offset := by omega
      simp only [this, if_true]
    | false =>
      have hlk := h3 hn
      obtain ⟨z, hz1, _, _, hz4⟩ := layK_last ts m e hlk
      have hzm : z ∈ ts := List.mem_of_getLast? hz1
      have hzb := entsF_bounds ts p m e hlk _ (mem_entsF_of_mem p hzm)
      have hlast : ((t' :: ts).getLast?).map (·.d) = some z.d := by
        cases ts with
        | nil => cases hzm
        | cons a as => rw [List.getLast?_cons_cons, hz1]; rfl
      have hko : kidsOut (t' :: ts) = t'.d :: kidsOut ts := by simp [kidsOut, hn]
      rcases List.mem_append.mp hx with hx | hx
      · have hb := ents_bounds t' (some p) s m h1 x hx
        have ho : t'.d.offset = s := ((lay_def _ _ _).mp h1).1
        refine ⟨t', List.mem_cons_self, hx, z.d, hlast, ?_⟩
        have h1' : ¬ z.d.offset ≤ x.1.d.offset := by simp only at hzb; omega
        have h2' : t'.d.offset ≤ x.1.d.offset := by omega
        simp only [h1', if_false, hko, List.foldl_cons, h2', if_true]
        apply foldl_pick_none
        intro c hc
        obtain ⟨k, hk, rfl⟩ := mem_kidsOut hc
        have := entsF_bounds ts p m e hlk _ (mem_entsF_of_mem p hk)
        simp only at this; omega
      · obtain ⟨k, hk, hxk, z', hz', hpick⟩ :=
          pick_spec p x ts m e (if t'.d.offset ≤ x.1.d.offset then t'.d else init) hlk hx
        refine ⟨k, List.mem_cons_of_mem _ hk, hxk, z', ?_, ?_⟩
        · rw [hlast]; rw [hz1] at hz'; exact hz'
        · rw [hko, List.foldl_cons]; exact hpick

theorem searchLoop_spec (tw : TW PD dieOff t) (self : DTree × Option DIE) :
    ∀ (N : Nat) (n : DTree) (q : Option DIE), cnt n ≤ N → (n, q) ∈ ents none t → self ∈ ents q n →
      ∀ fuel u, 2 * cnt n + 2 ≤ fuel → UT PD dieOff t u →
      ∃ u', searchLoop PD dieOff self.1.d fuel n.d u = (.ok (), u') ∧ UT PD dieOff t u' ∧
        ((self = (n, q) ∧ u' = u) ∨ ∃ p, assocGet? u'.parent self.1.d.offset = some p) := by
  intro N
  induction N with
  | zero => intro n q h; have := cnt_pos n; omega
  | succ N ih =>
    intro n q hN hn hself fuel u hf hu
    obtain ⟨f, rfl⟩ : ∃ f, fuel = f + 1 := ⟨fuel - 1, by omega⟩
    rw [ents_def] at hself
    rcases List.mem_cons.mp hself with hs | hs
    · subst hs
      refine ⟨u, ?_, hu, Or.inl ⟨rfl, rfl⟩⟩
      rw [searchLoop]; simp
    · obtain ⟨e, hlay⟩ := tw_lay tw hn
      obtain ⟨l1, l2, l3, l4, l5⟩ := (lay_def _ _ _).mp hlay
      have hch : n.d.hasChildren = true := by
        cases hc : n.d.hasChildren with
        | true => rfl
        | false => rw [(l5 hc).1] at hs; simp [entsF] at hs
      obtain ⟨lk, _⟩ := l4 hch
      have hb := entsF_bounds _ _ _ _ lk self hs
      obtain ⟨u1, hd, hu1, hz⟩ := drain_tree tw hn f u (by omega) hu
      obtain ⟨z, hz1, hz2, hz3⟩ := hz hch
      obtain ⟨k, hk, hxk, z', hz', hpick⟩ := pick_spec n.d self n.kids _ _ n.d lk hs
      have hzz : z' = z := by
        have : lastKid n = some z' := hz'
        rw [hz1] at this; injection this with this; exact this.symm
      subst hzz
      have hke := ents_kid hn hk
      have hkb := entsF_bounds _ _ _ _ lk _ (mem_entsF_of_mem n.d hk)
      obtain ⟨g1, g2, g3⟩ := foldl_parent_get n.d (kidsOut n.kids) u1
      have hu2 := foldl_parent_ut (PD := PD) (dieOff := dieOff) hn (kidsOut n.kids) u1
        (fun c hc => mem_kidsOut hc) hu1
      have hlt : n.d.offset < self.1.d.offset := by omega
      rw [searchLoop]
      simp only [hlt, if_true, hd, hch, g1, hz2, hpick]
      have hne : ¬ k.d.offset = n.d.offset := by simp only at hkb; omega
      simp only [hne, if_false]
      -- parent of the child picked is known
      have hkp : ∃ p, assocGet? ((kidsOut n.kids).foldl
          (fun u c => { u with parent := assocSet u.parent c.offset n.d }) u1).parent k.d.offset = some p := by
        by_cases hin : ∃ c ∈ kidsOut n.kids, c.offset = k.d.offset
        · exact ⟨n.d, g2 _ hin⟩
        · rw [g3 _ hin]
          cases hkn : k.d.isNull with
          | false =>
            exact absurd ⟨k.d, by simp [kidsOut, hkn]; exact ⟨k, hk, rfl⟩, rfl⟩ hin
          | true =>
            -- the null entry is the last one
            obtain ⟨zt, hzt1, _, _, _⟩ := layK_last _ _ _ lk
            have hzt : lastKid n = some zt.d := by simp [lastKid, hzt1]
            rw [hz1] at hzt; injection hzt with hzt
            have hzm : zt ∈ n.kids := List.mem_of_getLast? hzt1
            have hsame : k = zt := null_is_last _ _ _ lk hk hkn hzt1
            rw [hsame, ← hzt]; exact ⟨_, hz3⟩
      by_cases hsk : self = (k, some n.d)
      · subst hsk
        obtain ⟨f', rfl⟩ : ∃ f', f = f' + 1 := ⟨f - 1, by have := cnt_pos n; omega⟩
        refine ⟨_, ?_, hu2, Or.inr hkp⟩
        rw [searchLoop]; simp
      · obtain ⟨u3, h3, hu3, hr⟩ := ih k (some n.d) (by have := cnt_kid hk; omega) hke hxk f _
          (by have := cnt_kid hk; omega) hu2
        refine ⟨u3, h3, hu3, ?_⟩
        rcases hr with ⟨hr, _⟩ | hr
        · exact absurd hr hsk
        · exact Or.inr hr

/-- `DIE.get_parent()` in every cache state: the owner in the tree (`None` for the top entry) -/
theorem getParent_spec (tw : TW PD dieOff t) {self : DTree × Option DIE} (hself : self ∈ ents none t) {e : Nat}
    (he : Lay dieOff t e) {fuel : Nat} (hf : 2 * (e - dieOff) + 2 ≤ fuel) {u : UnitCache} (hu : UT PD dieOff t u) :
    ∃ u', getParent PD dieOff fuel self.1.d u = (.ok self.2, u') ∧ UT PD dieOff t u' := by
  unfold getParent
  cases hg : assocGet? u.parent self.1.d.offset with
  | some p =>
    simp only
    obtain ⟨x, hx, hx1, hx2⟩ := hu.par _ _ hg
    have : x = self := tw_unique tw hx hself hx1
    subst this
    exact ⟨u, by rw [hx2], hu⟩
  | none =>
    simp only
    obtain ⟨u1, h1, hu1⟩ := getTopDIE_tw tw hu
    obtain ⟨m1, m2⟩ := getTopDIE_maps (PD := PD) (dieOff := dieOff) u
    rw [h1] at m1 m2
    simp only at m1 m2
    rw [h1]
    simp only
    have hc := tw_cnt tw (ents_self none t) he
    obtain ⟨u2, h2, hu2, hr⟩ := searchLoop_spec tw self (cnt t) t none (Nat.le_refl _) (ents_self none t) hself fuel u1
      (by omega) hu1
    rw [h2]
    simp only
    refine ⟨u2, ?_, hu2⟩
    rcases hr with ⟨hr, hr2⟩ | ⟨p, hp⟩
    · subst hr hr2; rw [m1, hg]
    · obtain ⟨x, hx, hx1, hx2⟩ := hu2.par _ _ hp
      have : x = self := tw_unique tw hx hself hx1
      subst this
      rw [hp, hx2]

/-! ### subtree iteration -/

mutual
/-- pre-order list of the subtrees -/
def subs : DTree → List DTree
  | .mk d kids => .mk d kids :: subsF kids
def subsF : List DTree → List DTree
  | [] => []
  | t :: ts => subs t ++ subsF ts
end

theorem subs_def (n : DTree) : subs n = n :: subsF n.kids := by cases n; rw [subs]; rfl

mutual
theorem ents_fst : ∀ (n : DTree) (p : Option DIE), (ents p n).map (·.1) = subs n
  | .mk d kids, p => by rw [ents, subs, List.map_cons, entsF_fst kids d]
theorem entsF_fst : ∀ (ts : List DTree) (p : DIE), (entsF p ts).map (·.1) = subsF ts
  | [], p => by rw [entsF, subsF]; rfl
  | t :: ts, p => by rw [entsF, subsF, List.map_append, ents_fst t (some p), entsF_fst ts p]
end

/-- the entries of a tree / of a sibling list in pre-order (what `iter_DIEs` must yield) -/
def flatT (n : DTree) : List DIE := (subs n).map (·.d)
def flatK (ts : List DTree) : List DIE := (subsF ts).map (·.d)

theorem flatK_cons (k : DTree) (ts : List DTree) : flatK (k :: ts) = k.d :: (flatK k.kids ++ flatK ts) := by
  simp [flatK, subsF, subs_def]

theorem flatT_def (n : DTree) : flatT n = n.d :: flatK n.kids := by simp [flatT, flatK, subs_def]

theorem mem_flatT {n : DTree} {d : DIE} (p : Option DIE) : d ∈ flatT n ↔ ∃ x ∈ ents p n, x.1.d = d := by
  unfold flatT
  rw [← ents_fst n p]
  simp

theorem lay_leaf {s e : Nat} {n : DTree} (h : Lay s n e) (hc : n.d.hasChildren = false) : n.kids = [] :=
  (((lay_def _ _ _).mp h).2.2.2.2 hc).1

/-- a frame of the subtree generator that is inside `for c in die.iter_children()` of an entry owning children;
    `ts` = the part of its sibling list not yet produced -/
def FrameAt (t : DTree) (fr : Frame) (ts : List DTree) : Prop :=
  ∃ n q m w, (n, q) ∈ ents none t ∧ fr.die = n.d ∧ fr.phase = 1 ∧ Pos t n fr.ci m ts w ∧
    ((w = 1) ∨ ∃ c q', (c, q') ∈ ents none t ∧ w = cnt c)

inductive RestOK (t : DTree) : List Frame → List DIE → Prop
  | nil : RestOK t [] []
  | cons {fr : Frame} {ts : List DTree} {rest : List Frame} {r : List DIE} :
      FrameAt t fr ts → RestOK t rest r → RestOK t (fr :: rest) (flatK ts ++ r)

/-- the suspended `iter_DIEs()` generator stack `st` still has to produce exactly `rem` -/
def StackOK (t : DTree) (st : List Frame) (rem : List DIE) : Prop :=
  RestOK t st rem ∨
  (∃ fr rest, st = fr :: rest ∧ fr.phase = 1 ∧ fr.die.hasChildren = false ∧ RestOK t rest rem) ∨
  (st = [⟨t.d, 0, ChildIter.new t.d⟩] ∧ rem = flatT t)

theorem frameAt_new {n : DTree} {q : Option DIE} (tw : TW PD dieOff t) (hn : (n, q) ∈ ents none t)
    (hc : n.d.hasChildren = true) : FrameAt t ⟨n.d, 1, ChildIter.new n.d⟩ n.kids := by
  obtain ⟨e, hlay⟩ := tw_lay tw hn
  obtain ⟨_, _, _, l4, _⟩ := (lay_def _ _ _).mp hlay
  exact ⟨n, q, n.d.offset + n.d.size, 1, hn, rfl, rfl,
    { die := rfl, nd := rfl, hc := hc, suf := ⟨[], rfl⟩, lay := ⟨e, (l4 hc).1⟩, wpos := Nat.le_refl _,
      last := Or.inl ⟨rfl, rfl⟩ }, Or.inl rfl⟩

/-- a freshly pushed frame `_iter_DIE_subtree(n)` after its `yield n` -/
theorem stackOK_push {n : DTree} {q : Option DIE} (tw : TW PD dieOff t) (hn : (n, q) ∈ ents none t)
    {rest : List Frame} {r : List DIE} (hr : RestOK t rest r) :
    StackOK t (⟨n.d, 1, ChildIter.new n.d⟩ :: rest) (flatK n.kids ++ r) := by
  cases hc : n.d.hasChildren with
  | true => exact Or.inl (RestOK.cons (frameAt_new tw hn hc) hr)
  | false =>
    obtain ⟨e, hlay⟩ := tw_lay tw hn
    rw [lay_leaf hlay hc]
    exact Or.inr (Or.inl ⟨_, _, rfl, rfl, hc, by simpa [flatK, subsF] using hr⟩)

theorem subNext_rest (tw : TW PD dieOff t) {e : Nat} (he : Lay dieOff t e) {fr : Frame} {rest : List Frame}
    {rem : List DIE} (h : RestOK t (fr :: rest) rem) {fuel : Nat} (hf : 2 * (e - dieOff) + 3 ≤ fuel) {u : UnitCache}
    (hu : UT PD dieOff t u) :
    ∃ x rem' st' u', rem = x :: rem' ∧ subNext PD dieOff fuel (fr :: rest) u = (.ok (some x), st', u') ∧
      StackOK t st' rem' ∧ UT PD dieOff t u' := by
  cases h with
  | cons hfr hrest =>
    rename_i ts r
    obtain ⟨n, q, m, w, hn, hdie, hph, hp, hw⟩ := hfr
    have hwb : w ≤ e - dieOff := by
      rcases hw with rfl | ⟨c, q', hc, rfl⟩
      · have := tw_cnt tw hn he; have := cnt_pos n; omega
      · exact tw_cnt tw hc he
    obtain ⟨f, rfl⟩ : ∃ f, fuel = f + 1 := ⟨fuel - 1, by omega⟩
    cases ts with
    | nil => obtain ⟨e', h'⟩ := hp.lay; rw [LayK] at h'; exact h'.elim
    | cons k ts' =>
      have hW : ∀ c q, (c, q) ∈ ents none t → c ∈ n.kids → W PD dieOff t c := fun c q hc _ => drain_tree tw hc
      obtain ⟨hA, hB⟩ := childNext_pos tw hn hW hp (fuel := f) (by omega) hu
      obtain ⟨pre, hpre⟩ := hp.suf
      have hkk : k ∈ n.kids := by rw [hpre]; simp
      have hke : (k, some n.d) ∈ ents none t := ents_kid hn hkk
      obtain ⟨ek, hlk⟩ := tw_lay tw hke
      rw [subNext]
      have hph' : ¬ fr.phase = 0 := by omega
      have hch' : fr.die.hasChildren = true := by rw [hdie]; exact hp.hc
      simp only [hph', if_false, hch', Bool.not_true, Bool.false_eq_true]
      cases hnull : k.d.isNull with
      | true =>
        obtain ⟨u', h1, hu', hts, h2, _⟩ := hA hnull
        subst hts
        rw [h1]
        simp only [hdie, h2]
        have hkc : k.d.hasChildren = false := ((lay_def _ _ _).mp hlk).2.2.1 hnull
        refine ⟨k.d, r, rest, u', ?_, rfl, Or.inl hrest, hu'⟩
        rw [flatK_cons, lay_leaf hlk hkc]; simp [flatK, subsF]
      | false =>
        obtain ⟨ci', u', m', h1, hu', hp', _⟩ := hB hnull
        rw [h1]
        simp only
        refine ⟨k.d, flatK k.kids ++ (flatK ts' ++ r), _, u', ?_, rfl, ?_, hu'⟩
        · rw [flatK_cons]; simp
        · apply stackOK_push tw hke
          exact RestOK.cons ⟨n, q, m', cnt k, hn, hdie, hph, hp', Or.inr ⟨k, _, hke, rfl⟩⟩ hrest

/-- one `next()` of a suspended `iter_DIEs()` generator produces the head of what remains -/
theorem subNext_ok (tw : TW PD dieOff t) {e : Nat} (he : Lay dieOff t e) {st : List Frame} {rem : List DIE}
    (h : StackOK t st rem) {fuel : Nat} (hf : 2 * (e - dieOff) + 4 ≤ fuel) {u : UnitCache} (hu : UT PD dieOff t u) :
    ∃ st' u', subNext PD dieOff fuel st u = (.ok rem.head?, st', u') ∧ StackOK t st' rem.tail ∧ UT PD dieOff t u' := by
  rcases h with h | ⟨fr, rest, rfl, hph, hch, h⟩ | ⟨rfl, rfl⟩
  · cases st with
    | nil =>
      cases h
      obtain ⟨f, rfl⟩ : ∃ f, fuel = f + 1 := ⟨fuel - 1, by omega⟩
      exact ⟨[], u, by rw [subNext]; rfl, Or.inl RestOK.nil, hu⟩
    | cons fr rest =>
      obtain ⟨x, rem', st', u', rfl, h1, h2, h3⟩ := subNext_rest tw he h (fuel := fuel) (by omega) hu
      exact ⟨st', u', h1, h2, h3⟩
  · obtain ⟨f, rfl⟩ : ∃ f, fuel = f + 1 := ⟨fuel - 1, by omega⟩
    rw [subNext]
    have hph' : ¬ fr.phase = 0 := by omega
    simp only [hph', if_false, hch, Bool.not_false, if_true]
    cases rest with
    | nil =>
      cases h
      obtain ⟨f', rfl⟩ : ∃ f', f = f' + 1 := ⟨f - 1, by omega⟩
      exact ⟨[], u, by rw [subNext]; rfl, Or.inl RestOK.nil, hu⟩
    | cons fr' rest' =>
      obtain ⟨x, rem', st', u', rfl, h1, h2, h3⟩ := subNext_rest tw he h (fuel := f) (by omega) hu
      exact ⟨st', u', h1, h2, h3⟩
  · obtain ⟨f, rfl⟩ : ∃ f, fuel = f + 1 := ⟨fuel - 1, by omega⟩
    rw [subNext]
    simp only [if_true]
    refine ⟨_, u, by rw [flatT_def]; rfl, ?_, hu⟩
    rw [flatT_def, List.tail_cons]
    have := stackOK_push tw (ents_self none t) RestOK.nil
    simpa using this

/-- what a suspended `iter_DIE_children` generator still has to produce -/
def ChildRem (t : DTree) (ci : ChildIter) (rem : List DIE) : Prop :=
  (ci.done = true ∧ rem = []) ∨ (ci.done = false ∧ ci.die.hasChildren = false ∧ rem = []) ∨
  (∃ n q m ts w, (n, q) ∈ ents none t ∧ Pos t n ci m ts w ∧ ((w = 1) ∨ ∃ c q', (c, q') ∈ ents none t ∧ w = cnt c) ∧
    rem = kidsOut ts)

theorem childRem_new (tw : TW PD dieOff t) {n : DTree} {q : Option DIE} (hn : (n, q) ∈ ents none t) :
    ChildRem t (ChildIter.new n.d) (kidsOut n.kids) := by
  obtain ⟨e, hlay⟩ := tw_lay tw hn
  cases hc : n.d.hasChildren with
  | true =>
    obtain ⟨n', q', m, w, h1, _, _, h4, h5⟩ := frameAt_new tw hn hc
    exact Or.inr (Or.inr ⟨n', q', m, _, w, h1, h4, h5, rfl⟩)
  | false => rw [lay_leaf hlay hc]; exact Or.inr (Or.inl ⟨rfl, hc, rfl⟩)

/-- one `next()` of a suspended child generator produces the head of what remains -/
theorem childNext_rem (tw : TW PD dieOff t) {e : Nat} (he : Lay dieOff t e) {ci : ChildIter} {rem : List DIE}
    (h : ChildRem t ci rem) {fuel : Nat} (hf : 2 * (e - dieOff) + 3 ≤ fuel) {u : UnitCache} (hu : UT PD dieOff t u) :
    ∃ ci' u', childNext PD dieOff fuel ci u = (.ok rem.head?, ci', u') ∧ ChildRem t ci' rem.tail ∧
      UT PD dieOff t u' := by
  obtain ⟨f, rfl⟩ : ∃ f, fuel = f + 1 := ⟨fuel - 1, by omega⟩
  rcases h with ⟨hd, rfl⟩ | ⟨hd, hc, rfl⟩ | ⟨n, q, m, ts, w, hn, hp, hw, rfl⟩
  · refine ⟨ci, u, ?_, Or.inl ⟨hd, rfl⟩, hu⟩
    rw [childNext]; unfold childStep; simp [hd]
  · refine ⟨{ ci with done := true }, u, ?_, Or.inl ⟨rfl, rfl⟩, hu⟩
    rw [childNext]; unfold childStep; simp [hd, hc]
  · have hwb : w ≤ e - dieOff := by
      rcases hw with rfl | ⟨c, q', hc, rfl⟩
      · have := tw_cnt tw hn he; have := cnt_pos n; omega
      · exact tw_cnt tw hc he
    cases ts with
    | nil => obtain ⟨e', h'⟩ := hp.lay; rw [LayK] at h'; exact h'.elim
    | cons k ts' =>
      have hW : ∀ c q, (c, q) ∈ ents none t → c ∈ n.kids → W PD dieOff t c := fun c q hc _ => drain_tree tw hc
      obtain ⟨hA, hB⟩ := childNext_pos tw hn hW hp (fuel := f + 1) (by omega) hu
      obtain ⟨pre, hpre⟩ := hp.suf
      have hkk : k ∈ n.kids := by rw [hpre]; simp
      have hke : (k, some n.d) ∈ ents none t := ents_kid hn hkk
      cases hnull : k.d.isNull with
      | true =>
        obtain ⟨u', h1, hu', hts, _, _⟩ := hA hnull
        subst hts
        refine ⟨{ ci with done := true }, u', ?_, Or.inl ⟨rfl, ?_⟩, hu'⟩
        · rw [h1]; simp [kidsOut, hnull]
        · simp [kidsOut, hnull]
      | false =>
        obtain ⟨ci', u', m', h1, hu', hp', _⟩ := hB hnull
        have hko : kidsOut (k :: ts') = k.d :: kidsOut ts' := by simp [kidsOut, hnull]
        refine ⟨ci', u', ?_, Or.inr (Or.inr ⟨n, q, m', ts', cnt k, hn, hp', Or.inr ⟨k, _, hke, rfl⟩, ?_⟩), hu'⟩
        · rw [h1, hko]; rfl
        · rw [hko]; rfl

/-- `get_DIE_from_refaddr` on a unit keeps the tree invariant, for every offset -/
theorem unitDIEFromRefaddr_ut (tw : TW PD dieOff t) {u : UnitCache} (hu : UT PD dieOff t u) (cuEnd o : Nat) :
    UT PD dieOff t (unitDIEFromRefaddr PD dieOff cuEnd u o).2 := by
  have h1 := (unitDIEFromRefaddr_spec tw.hPo hu.core cuEnd o).2
  refine ut_congr hu h1 ?_ ?_
  · unfold unitDIEFromRefaddr; split
    · exact (getCachedDIE_maps u o).1
    · rfl
  · unfold unitDIEFromRefaddr; split
    · exact (getCachedDIE_maps u o).2
    · rfl

end unit
end PyElf.Proofs.C10
