/-
  C04 helper lemmas, part 6: every entry of an encoded tree is found by `_get_cached_DIE` at its
  offset (the `Covered` hypothesis of the iteration layer, discharged by the entry layer).
-/
import PyElf.Spec.DieTree
import PyElf.Model.Die
import PyElf.Proofs.DieEntry
import PyElf.Proofs.DieIter
namespace PyElf.Proofs.C04
open PyElf PyElf.Spec PyElf.Spec.C04 PyElf.Model PyElf.Model.C04 PyElf.Proofs

mutual
/-- `Q` holds of every node of the tree -/
def TreeAll (Q : Node → Prop) : Tree → Prop
  | .mk n kids _ => Q n ∧ ForestAll Q kids
def ForestAll (Q : Node → Prop) : List Tree → Prop
  | [] => True
  | t :: ts => TreeAll Q t ∧ ForestAll Q ts
end

/-- the attribute names a declaration lists are presented differently from one another
    (DWARF 5 §2.2: an entry has at most one attribute with a given name) -/
def DistinctAt (nm : Names) : List AttrSpec → Prop
  | [] => True
  | s :: ss => (∀ s' ∈ ss, (nm.at_ s.name == nm.at_ s'.name) = false) ∧ DistinctAt nm ss

theorem mem_attrObs_name (nm : Names) (c : DwarfCfg) (ρ : Val → Val → Val) :
    ∀ (ss : List AttrSpec) (as : List AttrV) (off : Nat) (b : AttrObs), b ∈ attrObs nm c ρ off ss as →
      ∃ s' ∈ ss, b.name = nm.at_ s'.name := by
  intro ss
  induction ss with
  | nil => intro as off b h; simp [attrObs] at h
  | cons s ss ih =>
    intro as off b h
    cases as with
    | nil => simp [attrObs] at h
    | cons a as =>
      simp only [attrObs, List.mem_cons] at h
      rcases h with rfl | h
      · exact ⟨s, by simp, rfl⟩
      · obtain ⟨s', hs', e⟩ := ih as _ b h
        exact ⟨s', by simp [hs'], e⟩

theorem namesDistinct_attrObs (nm : Names) (c : DwarfCfg) (ρ : Val → Val → Val) :
    ∀ (ss : List AttrSpec) (as : List AttrV) (off : Nat), DistinctAt nm ss → NamesDistinct (attrObs nm c ρ off ss as) := by
  intro ss
  induction ss with
  | nil => intro as off _; simp [attrObs, NamesDistinct]
  | cons s ss ih =>
    intro as off h
    cases as with
    | nil => simp [attrObs, NamesDistinct]
    | cons a as =>
      simp only [attrObs, NamesDistinct]
      refine ⟨?_, ih as _ h.2⟩
      intro b hb
      obtain ⟨s', hs', e⟩ := mem_attrObs_name nm c ρ ss as _ b hb
      rw [e]; exact h.1 s' hs'

/-- the side conditions of one node: its declaration is the one the unit's abbreviation table has
    under its code, its values translate (to `ρ`), its attribute names are distinct -/
def NodeOK (U : UnitCtx) (ti : Option (List AttrObs)) (nm : Names) (ρ : Val → Val → Val) (m : List (Nat × Val))
    (n : Node) : Prop :=
  mapGet? m n.decl.code = some (declVal nm n.decl) ∧ TransOK U ti nm ρ n.decl.specs n.attrs ∧ DistinctAt nm n.decl.specs

theorem encEntry_length_pos (c : DwarfCfg) (n : Node) (h : wfNode c n = true) : 1 ≤ (encEntry c n).length := by
  simp only [wfNode, Bool.and_eq_true, ulebFits_iff] at h
  rw [encEntry_length]; omega

mutual
theorem forall_flatten {P : DieObs → Prop} (nm : Names) (c : DwarfCfg) (ρ : Val → Val → Val) (data : Bytes) (lo : Nat)
    (Q : Node → Prop)
    (hnode : ∀ n off rest, Q n → wfNode c n = true → data.drop off = encEntry c n ++ rest → lo ≤ off →
      P (entryObs nm c ρ off n))
    (hnull : ∀ l off rest, 1 ≤ l → data.drop off = encUlebN l 0 ++ rest → lo ≤ off → P (nullObs off l)) :
    ∀ (t : Tree) (off : Nat) (rest : Bytes), wfTree c t = true → TreeAll Q t → data.drop off = encTree c t ++ rest →
      lo ≤ off → ∀ d ∈ flatten nm c ρ off t, P d
  | .mk n kids nl, off, rest, hwf, hall, hd, hlo => by
    simp only [wfTree, Bool.and_eq_true] at hwf
    obtain ⟨hwn, hwk⟩ := hwf
    simp only [TreeAll] at hall
    rw [encTree, List.append_assoc] at hd
    intro d hdm
    rw [flatten, List.mem_cons] at hdm
    rcases hdm with rfl | hdm
    · exact hnode n off _ hall.1 hwn hd hlo
    · cases hk : n.decl.children with
      | false => rw [hk] at hdm; simp at hdm
      | true =>
        rw [hk] at hdm hwk hd
        simp only [if_true, Bool.and_eq_true, decide_eq_true_eq, List.append_assoc] at hdm hwk hd
        have hd1 := drop_add_of_drop hd
        rcases List.mem_append.1 hdm with h1 | h1
        · exact forall_flattenForest nm c ρ data lo Q hnode hnull kids _ _ hwk.1 hall.2 hd1 (by omega) d h1
        · have hd2 := drop_add_of_drop hd1
          simp only [List.mem_singleton] at h1
          rw [h1]
          exact hnull nl _ rest hwk.2 hd2 (by omega)
theorem forall_flattenForest {P : DieObs → Prop} (nm : Names) (c : DwarfCfg) (ρ : Val → Val → Val) (data : Bytes) (lo : Nat)
    (Q : Node → Prop)
    (hnode : ∀ n off rest, Q n → wfNode c n = true → data.drop off = encEntry c n ++ rest → lo ≤ off →
      P (entryObs nm c ρ off n))
    (hnull : ∀ l off rest, 1 ≤ l → data.drop off = encUlebN l 0 ++ rest → lo ≤ off → P (nullObs off l)) :
    ∀ (ts : List Tree) (off : Nat) (rest : Bytes), wfForest c ts = true → ForestAll Q ts →
      data.drop off = encForest c ts ++ rest → lo ≤ off → ∀ d ∈ flattenForest nm c ρ off ts, P d
  | [], _, _, _, _, _, _ => by intro d hd; simp [flattenForest] at hd
  | t :: ts, off, rest, hwf, hall, hd, hlo => by
    simp only [wfForest, Bool.and_eq_true] at hwf
    simp only [ForestAll] at hall
    rw [encForest, List.append_assoc] at hd
    intro d hdm
    rw [flattenForest] at hdm
    rcases List.mem_append.1 hdm with h1 | h1
    · exact forall_flatten nm c ρ data lo Q hnode hnull t off _ hwf.1 hall.1 hd hlo d h1
    · exact forall_flattenForest nm c ρ data lo Q hnode hnull ts _ rest hwf.2 hall.2 (drop_add_of_drop hd) (by omega) d h1
end

/-- a position where at least one byte can be read lies inside the data -/
theorem lt_length_of_drop {data : Bytes} {off : Nat} {bs rest : Bytes} (hd : data.drop off = bs ++ rest)
    (hb : 1 ≤ bs.length) : off < data.length := by
  have := length_of_drop hd
  rw [List.length_append] at this
  omega

/--
  The `Covered` hypothesis of `iter_dies_flatten`, for `G := _get_cached_DIE` on the bytes of an
  encoded tree: the top entry is what `get_top_DIE` builds (`htop`), every other entry is parsed at
  its offset with the top entry's attributes at hand for the index forms.
-/
theorem covered_unit {U : UnitCtx} {c : DwarfCfg} {nm : Names} (hU : UnitOK U c nm) (ρtop ρ : Val → Val → Val)
    {m : List (Nat × Val)} (hab : U.abbrevs = .ok m) (n : Node) (kids : List Tree) (nl : Nat) {rest : Bytes}
    (hwf : wfTree c (.mk n kids nl) = true)
    (hd : U.data.drop U.cuDieOffset = encTree c (.mk n kids nl) ++ rest) (hlen : U.data.length ≤ 2 ^ 63)
    (htop : getTopDIE U = .ok (entryObs nm c ρtop U.cuDieOffset n))
    (hkids : ForestAll (NodeOK U (some (entryObs nm c ρtop U.cuDieOffset n).attrs) nm ρ m) kids) :
    Covered (getCachedDIE U) (flattenUnit nm c ρtop ρ U.cuDieOffset (.mk n kids nl)) := by
  have hwf0 := hwf
  simp only [wfTree, Bool.and_eq_true] at hwf
  obtain ⟨hwn, hwk⟩ := hwf
  have hpos := encEntry_length_pos c n hwn
  -- every entry strictly behind the top entry
  have hother : ∀ d : DieObs, U.cuDieOffset < d.offset →
      parseDIE U (some (entryObs nm c ρtop U.cuDieOffset n).attrs) d.offset = .ok d → getCachedDIE U d.offset = .ok d := by
    intro d hlt hp
    have hne : ¬ d.offset = U.cuDieOffset := by omega
    unfold getCachedDIE
    simp only [htop, bind, Except.bind, hne, if_false, hp]
  intro d hdm
  rw [flattenUnit, List.mem_cons] at hdm
  rcases hdm with rfl | hdm
  · unfold getCachedDIE
    simp [htop, bind, Except.bind, entryObs, pure, Except.pure]
  · cases hk : n.decl.children with
    | false => rw [hk] at hdm; simp at hdm
    | true =>
      rw [hk] at hdm hwk
      rw [encTree, hk] at hd
      simp only [if_true, Bool.and_eq_true, decide_eq_true_eq, List.append_assoc] at hdm hwk hd
      have hd1 := drop_add_of_drop hd
      have hP : ∀ d ∈ flattenForest nm c ρ (U.cuDieOffset + (encEntry c n).length) kids ++
          [nullObs (U.cuDieOffset + (encEntry c n).length + (encForest c kids).length) nl],
          U.cuDieOffset < d.offset ∧
            parseDIE U (some (entryObs nm c ρtop U.cuDieOffset n).attrs) d.offset = .ok d := by
        intro d hdm
        rcases List.mem_append.1 hdm with h1 | h1
        · refine forall_flattenForest (P := fun d => U.cuDieOffset < d.offset ∧
              parseDIE U (some (entryObs nm c ρtop U.cuDieOffset n).attrs) d.offset = .ok d) nm c ρ U.data
            (U.cuDieOffset + (encEntry c n).length) _ ?_ ?_ kids _ _ hwk.1 hkids hd1 (Nat.le_refl _) d h1
          · intro n' off' rest' hq hwn' hd' hlo
            have hlt := lt_length_of_drop hd' (encEntry_length_pos c n' hwn')
            refine ⟨by simp only [entryObs]; omega, ?_⟩
            exact parseDIE_encoded (off := off') hU _ ρ n' hwn' (by omega) hab hq.1 hq.2.1
              (namesDistinct_attrObs nm c ρ _ _ _ hq.2.2) hd'
          · intro l off' rest' hl hd' hlo
            have hlt := lt_length_of_drop hd' (by rw [encUlebN_length]; exact hl)
            refine ⟨by simp only [nullObs]; omega, ?_⟩
            exact parseDIE_null (off := off') hU _ hl (by omega) hd'
        · have hd2 := drop_add_of_drop hd1
          simp only [List.mem_singleton] at h1
          rw [h1]
          have hlt := lt_length_of_drop hd2 (by rw [encUlebN_length]; exact hwk.2)
          refine ⟨by simp only [nullObs]; omega, ?_⟩
          exact parseDIE_null (off := U.cuDieOffset + (encEntry c n).length + (encForest c kids).length) hU _ hwk.2
            (by omega) hd2
      obtain ⟨h1, h2⟩ := hP d hdm
      exact hother d h1 h2

end PyElf.Proofs.C04
