/-
  C15: a small builder of concrete abstract ELF images (`Spec.ElfDesc`), used by the non-vacuity
  checks of the whole-file theorems in `Props/C15.lean`.  Definitions only.
-/
import PyElf.Spec.ElfImage
namespace PyElf.Proofs.C15
open PyElf PyElf.Spec

/-- a section of an example image -/
structure ExSec where
  name : Bytes
  nameOff : Nat
  ty : Nat
  link : Nat := 0
  info : Nat := 0
  entsize : Nat := 0
  body : Option Bytes := none

/-- an image of class `cls`: file header, section header table, then the bodies three bytes apart; no
    program headers; `e_machine = 21` (EM_PPC64, of the default machine class), `ET_DYN` -/
def exImage (cls : Nat) (le : Bool) (secs : List ExSec) (shstrndx : Nat) : ElfDesc :=
  let ehsize := if cls = 32 then 52 else 64
  let shsz := if cls = 32 then 40 else 64
  let start := ehsize + shsz * secs.length
  let placed := (secs.foldl (fun (acc : List (ExSec × Nat) × Nat) s =>
    (acc.1 ++ [(s, acc.2)], acc.2 + (s.body.getD []).length + 3)) ([], start)).1
  { cls := cls, le := le, mclass := "default", solaris := false, core := false,
    ehdr := [("EI_VERSION", .int 1), ("EI_OSABI", .int 0), ("EI_ABIVERSION", .int 0), ("e_type", .int 3),
             ("e_machine", .int 21), ("e_version", .int 1), ("e_entry", .int 0), ("e_flags", .int 0),
             ("e_ehsize", .int ehsize)],
    shoff := ehsize, phoff := 0, shentsize := shsz, phentsize := 0,
    sections := placed.map fun (s, off) =>
      { name := s.name, nameOff := s.nameOff, body := s.body,
        hdr := [("sh_type", .int s.ty), ("sh_flags", .int 0), ("sh_addr", .int 0), ("sh_offset", .int off),
                ("sh_size", .int (s.body.getD []).length), ("sh_link", .int s.link), ("sh_info", .int s.info),
                ("sh_addralign", .int 1), ("sh_entsize", .int s.entsize)] },
    segments := [], shstrndx := shstrndx }

/-- ".dynstr", ".v", ".s", ".dynsym" and a section-name table holding them at 1, 9, 12, 15 -/
def nDynstr : Bytes := [0x2e, 0x64, 0x79, 0x6e, 0x73, 0x74, 0x72]
def nVer : Bytes := [0x2e, 0x76]
def nShstr : Bytes := [0x2e, 0x73]
def nDynsym : Bytes := [0x2e, 0x64, 0x79, 0x6e, 0x73, 0x79, 0x6d]
def exNames : Bytes := [0] ++ nDynstr ++ [0] ++ nVer ++ [0] ++ nShstr ++ [0] ++ nDynsym ++ [0]

end PyElf.Proofs.C15
