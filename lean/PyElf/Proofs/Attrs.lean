/-
  C20: round trip of the ARM / RISC-V build-attributes parser (Model/Attributes.lean) over the
  encoder of Spec/Attributes.lean.
-/
import PyElf.Proofs.Primitives
import PyElf.Spec.ElfStructs
import PyElf.Spec.Attributes
import PyElf.Model.Attributes
namespace PyElf.Proofs
open PyElf PyElf.Spec PyElf.Model

def tagTableId : Spec.Attr.Arch → String
  | .arm => "ENUM_ATTR_TAG_ARM"
  | .riscv => "ENUM_ATTR_TAG_RISCV"

namespace Attrs
open Spec.Attr Model.Attr

/-! ### step 0: the struct bundle -/

theorem S_byte (cfg : ElfCfg) : (Spec.elfStructs cfg).Elf_byte = .uint 1 cfg.le := rfl
theorem S_word (cfg : ElfCfg) : (Spec.elfStructs cfg).Elf_word = .uint 4 cfg.le := rfl
theorem S_uleb (cfg : ElfCfg) : (Spec.elfStructs cfg).Elf_uleb128 = .uleb := rfl
theorem S_ntbs (cfg : ElfCfg) : (Spec.elfStructs cfg).Elf_ntbs = .cstring := rfl
theorem S_hdr (cfg : ElfCfg) : (Spec.elfStructs cfg).Elf_Attr_Subsection_Header
    = .struct (.cons (some "length") false (.uint 4 cfg.le) (.cons (some "vendor_name") false .cstring .nil)) := rfl
theorem S_armTag (cfg : ElfCfg) : (Spec.elfStructs cfg).Elf_Arm_Attribute_Tag
    = .struct (.cons (some "tag") false (.enum .uleb "ENUM_ATTR_TAG_ARM" false) .nil) := rfl
theorem S_riscvTag (cfg : ElfCfg) : (Spec.elfStructs cfg).Elf_RiscV_Attribute_Tag
    = .struct (.cons (some "tag") false (.enum .uleb "ENUM_ATTR_TAG_RISCV" false) .nil) := rfl

theorem U_enc_length (u : U) : u.enc.length = u.n := encUlebN_length _ _
theorem U_wf_iff {u : U} (h : u.wf = true) : 1 ≤ u.n ∧ u.v < 2 ^ (7 * u.n) := by simpa [U.wf] using h
theorem U_valid {u : U} (h : u.wf = true) : ValidLEB u.enc = true := encUlebN_valid _ _ (U_wf_iff h).1
theorem U_val {u : U} (h : u.wf = true) : ulebVal u.enc = u.v := ulebVal_enc_of_lt (U_wf_iff h).2

theorem structParse_of_parse {env : Env} {c : Con} {data : Bytes} {pos p : Nat} {v : Val} {ctx' : Fields}
    (h : Con.parse env data c [] pos = .ok (v, p, ctx')) : structParse env c data pos = .ok (v, p) := by
  simp [structParse, h, bind, Except.bind, pure, Except.pure]

theorem parseInt_uleb {env : Env} {data : Bytes} {pos : Nat} {rest : Bytes} {u : U} (hu : u.wf = true)
    (hd : data.drop pos = u.enc ++ rest) :
    parseInt env .uleb data pos = .ok ((u.v : Int), pos + u.n) := by
  have := parse_uleb_ok (env := env) (ctx := []) hd (U_valid hu)
  rw [U_val hu, U_enc_length] at this
  simp [parseInt, structParse_of_parse this, bind, Except.bind, pure, Except.pure, Val.asInt]

theorem parseInt_word {env : Env} {data : Bytes} {pos : Nat} {rest : Bytes} {le : Bool} {v : Nat} (hv : v < 2 ^ 32)
    (hd : data.drop pos = encNat le 4 v ++ rest) :
    parseInt env (.uint 4 le) data pos = .ok ((v : Int), pos + 4) := by
  have := parse_uint_ok (env := env) (le := le) (ctx := []) hd (encNat_length le 4 v)
  rw [decNat_encNat_of_lt le (by simpa using hv)] at this
  simp [parseInt, structParse_of_parse this, bind, Except.bind, pure, Except.pure, Val.asInt]

theorem parseInt_byte {env : Env} {data : Bytes} {pos : Nat} {rest : Bytes} {le : Bool} {b : UInt8}
    (hd : data.drop pos = b :: rest) :
    parseInt env (.uint 1 le) data pos = .ok ((b.toNat : Int), pos + 1) := by
  have hd' : data.drop pos = [b] ++ rest := by simpa using hd
  have := parse_uint_ok (env := env) (le := le) (ctx := []) (n := 1) hd' rfl
  rw [decNat_singleton] at this
  simp [parseInt, structParse_of_parse this, bind, Except.bind, pure, Except.pure, Val.asInt]

theorem strWf_iff {s : Bytes} (h : strWf s = true) : (∀ b ∈ s, b ≠ 0) ∧ validUtf8 s = true := by
  simpa [strWf] using h

theorem parseNtbs_ok {env : Env} {cfg : ElfCfg} {data : Bytes} {pos : Nat} {s rest : Bytes} (hs : strWf s = true)
    (hd : data.drop pos = s ++ ([0] ++ rest)) :
    parseNtbs env (Spec.elfStructs cfg) data pos = .ok (.bytes s, pos + s.length + 1) := by
  obtain ⟨h0, hu⟩ := strWf_iff hs
  have := parse_cstring_ok (env := env) (ctx := []) h0 (by simpa using hd : data.drop pos = s ++ [0] ++ rest)
  have e : (Spec.elfStructs cfg).Elf_ntbs = .cstring := rfl
  simp [parseNtbs, e, structParse_of_parse this, bind, Except.bind, pure, Except.pure, decodeNtbs, hu]

theorem parse_tagStruct {env : Env} {data : Bytes} {pos : Nat} {rest : Bytes} {u : U} {tbl name : String}
    (hu : u.wf = true) (hd : data.drop pos = u.enc ++ rest)
    (hn : env.enumDecode tbl (u.v : Int) = some name) :
    structParse env (.struct (.cons (some "tag") false (.enum .uleb tbl false) .nil)) data pos
      = .ok (.record [("tag", .str name)], pos + u.n) := by
  have h1 := parse_uleb_ok (env := env) (ctx := []) hd (U_valid hu)
  rw [U_val hu, U_enc_length] at h1
  have h2 : Con.parse env data (.enum .uleb tbl false) [] pos = .ok (.str name, pos + u.n, []) := by
    rw [Con.parse, h1]
    simp only [bind, Except.bind, hn, pure, Except.pure]
  unfold structParse
  rw [Con.parse]
  simp only [Con.parseFields, h2, bind, Except.bind, pure, Except.pure, Bool.false_eq_true, if_false, Fields.set]

theorem parse_hdrStruct {env : Env} {data : Bytes} {pos : Nat} {rest vendor : Bytes} {le : Bool} {len : Nat}
    (hlen : len < 2 ^ 32) (hv : ∀ b ∈ vendor, b ≠ 0)
    (hd : data.drop pos = encNat le 4 len ++ (vendor ++ [0] ++ rest)) :
    structParse env (.struct (.cons (some "length") false (.uint 4 le) (.cons (some "vendor_name") false .cstring .nil))) data pos
      = .ok (.record [("length", .int len), ("vendor_name", .bytes vendor)], pos + 4 + vendor.length + 1) := by
  have h1 := parse_uint_ok (env := env) (le := le) (ctx := []) hd (encNat_length le 4 len)
  rw [decNat_encNat_of_lt le (by simpa using hlen)] at h1
  have hd2 : data.drop (pos + 4) = vendor ++ [0] ++ rest := by
    have := drop_add_of_drop hd
    rwa [encNat_length] at this
  have h2 := fun ctx => parse_cstring_ok (env := env) (ctx := ctx) hv hd2
  unfold structParse
  rw [Con.parse]
  simp only [Con.parseFields, h1, h2, bind, Except.bind, pure, Except.pure, Bool.false_eq_true, if_false, Fields.set]
  rfl

/-! ### step 1: tag dispatch -/

theorem nameIn_mem : ∀ (tbl : List (String × Int)) (t : Nat) (name : String),
    nameIn tbl t = some name → (name, (t : Int)) ∈ tbl := by
  intro tbl
  induction tbl with
  | nil => intro t name h; simp [nameIn] at h
  | cons p tbl ih =>
    obtain ⟨k, x⟩ := p
    intro t name h
    rw [nameIn] at h
    cases hr : nameIn tbl t with
    | some k' =>
      rw [hr] at h
      simp only [Option.some.injEq] at h
      subst h
      exact List.mem_cons_of_mem _ (ih t _ hr)
    | none =>
      rw [hr] at h
      simp only at h
      split at h
      · rename_i hx
        simp only [Option.some.injEq] at h
        subst h; subst hx
        exact List.mem_cons_self
      · simp at h

def armCheck (p : String × Int) : Bool :=
  (["TAG_FILE", "TAG_SECTION", "TAG_SYMBOL"].contains p.1 == (p.2 == 1 || p.2 == 2 || p.2 == 3)) &&
  (["TAG_FILE"].contains p.1 == (p.2 == 1)) &&
  (["TAG_CPU_RAW_NAME", "TAG_CPU_NAME", "TAG_CONFORMANCE"].contains p.1 == (p.2 == 4 || p.2 == 5 || p.2 == 67)) &&
  (["TAG_COMPATIBILITY"].contains p.1 == (p.2 == 32)) &&
  (["TAG_ALSO_COMPATIBLE_WITH"].contains p.1 == (p.2 == 65))

def riscvCheck (p : String × Int) : Bool :=
  (["TAG_FILE", "TAG_SECTION", "TAG_SYMBOL"].contains p.1 == (p.2 == 1 || p.2 == 2 || p.2 == 3)) &&
  (["TAG_FILE"].contains p.1 == (p.2 == 1)) &&
  (["TAG_ARCH"].contains p.1 == (p.2 == 5))

theorem armCheck_all : armTags.all armCheck = true := by decide +kernel
theorem riscvCheck_all : riscvTags.all riscvCheck = true := by decide +kernel

theorem int_beq_nat (t k : Nat) : (((t : Int) == ((k : Nat) : Int)) = (t == k)) := by
  rw [Bool.eq_iff_iff]; simp only [beq_iff_eq]; omega

theorem arm_dispatch {t : Nat} {name : String} (h : tagName .arm t = some name) :
    tagIn (.str name) ["TAG_FILE", "TAG_SECTION", "TAG_SYMBOL"] = (t == 1 || t == 2 || t == 3) ∧
    tagIn (.str name) ["TAG_FILE"] = (t == 1) ∧
    tagIn (.str name) ["TAG_CPU_RAW_NAME", "TAG_CPU_NAME", "TAG_CONFORMANCE"] = (t == 4 || t == 5 || t == 67) ∧
    tagIn (.str name) ["TAG_COMPATIBILITY"] = (t == 32) ∧
    tagIn (.str name) ["TAG_ALSO_COMPATIBLE_WITH"] = (t == 65) := by
  have hm := nameIn_mem _ _ _ h
  have := List.all_eq_true.1 armCheck_all _ hm
  simp only [armCheck, Bool.and_eq_true, beq_iff_eq] at this
  obtain ⟨⟨⟨⟨h1, h2⟩, h3⟩, h4⟩, h5⟩ := this
  simp only [tagIn]
  rw [h1, h2, h3, h4, h5]
  have e := int_beq_nat t
  exact ⟨by rw [← e 1, ← e 2, ← e 3]; rfl, by rw [← e 1]; rfl, by rw [← e 4, ← e 5, ← e 67]; rfl,
    by rw [← e 32]; rfl, by rw [← e 65]; rfl⟩

theorem riscv_dispatch {t : Nat} {name : String} (h : tagName .riscv t = some name) :
    tagIn (.str name) ["TAG_FILE", "TAG_SECTION", "TAG_SYMBOL"] = (t == 1 || t == 2 || t == 3) ∧
    tagIn (.str name) ["TAG_FILE"] = (t == 1) ∧
    tagIn (.str name) ["TAG_ARCH"] = (t == 5) := by
  have hm := nameIn_mem _ _ _ h
  have := List.all_eq_true.1 riscvCheck_all _ hm
  simp only [riscvCheck, Bool.and_eq_true, beq_iff_eq] at this
  obtain ⟨⟨h1, h2⟩, h3⟩ := this
  simp only [tagIn]
  rw [h1, h2, h3]
  have e := int_beq_nat t
  exact ⟨by rw [← e 1, ← e 2, ← e 3]; rfl, by rw [← e 1]; rfl, by rw [← e 5]; rfl⟩

theorem kind_arm {t : Nat} {k : Kind} (hk : kind .arm t = some k) : ∃ name, tagName .arm t = some name ∧
    tagIn (.str name) ["TAG_FILE", "TAG_SECTION", "TAG_SYMBOL"] = (k == .scope) ∧
    tagIn (.str name) ["TAG_FILE"] = (t == 1) ∧
    tagIn (.str name) ["TAG_CPU_RAW_NAME", "TAG_CPU_NAME", "TAG_CONFORMANCE"] = (k == .ntbs) ∧
    tagIn (.str name) ["TAG_COMPATIBILITY"] = (k == .compat) ∧
    tagIn (.str name) ["TAG_ALSO_COMPATIBLE_WITH"] = (k == .also) := by
  cases htn : tagName .arm t with
  | none => simp [kind, htn] at hk
  | some name =>
    obtain ⟨h1, h2, h3, h4, h5⟩ := arm_dispatch htn
    refine ⟨name, rfl, ?_⟩
    rw [h1, h2, h3, h4, h5]
    simp only [kind, htn, Option.isNone_some, Bool.false_eq_true, if_false] at hk
    split at hk
    · cases hk; rename_i hc; rcases hc with rfl | rfl | rfl <;> decide
    · rename_i hc
      split at hk
      · cases hk; rename_i hc; rcases hc with rfl | rfl | rfl <;> decide
      · split at hk
        · cases hk; rename_i hc; subst hc; decide
        · split at hk
          · cases hk; rename_i hc; subst hc; decide
          · cases hk
            rename_i h4 h32 h65
            obtain ⟨a1, a2, a3⟩ := not_or.1 hc |>.imp id not_or.1
            obtain ⟨b1, b2, b3⟩ := not_or.1 h4 |>.imp id not_or.1
            have e1 : (Kind.uleb == Kind.scope) = false := by decide
            have e2 : (Kind.uleb == Kind.ntbs) = false := by decide
            have e3 : (Kind.uleb == Kind.compat) = false := by decide
            have e4 : (Kind.uleb == Kind.also) = false := by decide
            simp [*]

theorem kind_riscv {t : Nat} {k : Kind} (hk : kind .riscv t = some k) : ∃ name, tagName .riscv t = some name ∧
    tagIn (.str name) ["TAG_FILE", "TAG_SECTION", "TAG_SYMBOL"] = (k == .scope) ∧
    tagIn (.str name) ["TAG_FILE"] = (t == 1) ∧
    tagIn (.str name) ["TAG_ARCH"] = (k == .ntbs) ∧ (k = .scope ∨ k = .ntbs ∨ k = .uleb) := by
  cases htn : tagName .riscv t with
  | none => simp [kind, htn] at hk
  | some name =>
    obtain ⟨h1, h2, h3⟩ := riscv_dispatch htn
    refine ⟨name, rfl, ?_⟩
    rw [h1, h2, h3]
    simp only [kind, htn, Option.isNone_some, Bool.false_eq_true, if_false] at hk
    split at hk
    · cases hk; rename_i hc; rcases hc with rfl | rfl | rfl <;> decide
    · rename_i hc
      split at hk
      · cases hk; rename_i hc; subst hc; decide
      · cases hk
        rename_i h5
        obtain ⟨a1, a2, a3⟩ := not_or.1 hc |>.imp id not_or.1
        have e1 : (Kind.uleb == Kind.scope) = false := by decide
        have e2 : (Kind.uleb == Kind.ntbs) = false := by decide
        simp [*]

/-! ### step 2: the section / symbol number list -/

theorem encNums_nil : encNums [] = [0] := rfl
theorem encNums_cons (u : U) (nums : List U) : encNums (u :: nums) = u.enc ++ encNums nums := by
  simp [encNums, List.append_assoc]

theorem encNums_length_ge (nums : List U) (h : ∀ u ∈ nums, u.wf = true) :
    nums.length + 1 ≤ (encNums nums).length := by
  induction nums with
  | nil => simp [encNums]
  | cons u nums ih =>
    have := (U_wf_iff (h u (by simp))).1
    have := ih (fun x hx => h x (by simp [hx]))
    rw [encNums_cons, List.length_append, U_enc_length, List.length_cons]
    omega

theorem sNumbers_ok (env : Env) (cfg : ElfCfg) (data rest : Bytes) :
    ∀ (nums : List U) (fuel pos : Nat) (acc : List Val),
      (∀ u ∈ nums, u.wf = true ∧ u.v ≠ 0) → nums.length + 1 ≤ fuel →
      data.drop pos = encNums nums ++ rest →
      sNumbers env (Spec.elfStructs cfg) data fuel pos acc
        = .ok (acc.reverse ++ nums.map (fun u => Val.int u.v), pos + (encNums nums).length) := by
  intro nums
  induction nums with
  | nil =>
    intro fuel pos acc _ hf hd
    cases fuel with
    | zero => omega
    | succ fuel =>
      have hz : (⟨0, 1⟩ : U).wf = true := by decide
      have hd' : data.drop pos = (⟨0, 1⟩ : U).enc ++ rest := by rw [hd]; rfl
      rw [sNumbers, S_uleb, parseInt_uleb hz hd']
      simp [bind, Except.bind, pure, Except.pure, encNums]
  | cons u nums ih =>
    intro fuel pos acc h hf hd
    cases fuel with
    | zero => omega
    | succ fuel =>
      obtain ⟨hu, hnz⟩ := h u (by simp)
      have hd' : data.drop pos = u.enc ++ (encNums nums ++ rest) := by
        rw [hd, encNums_cons, List.append_assoc]
      have hd2 : data.drop (pos + u.n) = encNums nums ++ rest := by
        have := drop_add_of_drop hd'
        rwa [U_enc_length] at this
      have hne : ((u.v : Nat) : Int) ≠ 0 := by omega
      rw [sNumbers, S_uleb, parseInt_uleb hu hd']
      simp only [bind, Except.bind, ne_eq, hne, not_false_eq_true, if_true]
      rw [ih fuel (pos + u.n) _ (fun x hx => h x (by simp [hx])) (by simp at hf; omega) hd2]
      rw [encNums_cons, List.length_append, U_enc_length]
      simp [Nat.add_assoc]


/-! ### step 3: one attribute -/

theorem nameVal_of {a : Arch} {t : Nat} {name : String} (h : tagName a t = some name) :
    nameVal a t = .str name := by simp [nameVal, h]

theorem getField_tag (v : Val) : (Val.record [("tag", v)]).getField "tag" = .ok v := rfl

theorem exists_of_eq {r : R (AttrObj × Nat)} {obj : AttrObj} {p p' : Nat} {v : Val}
    (h : r = .ok (obj, p)) (hp : p = p') (hv : obj.toVal = v) : ∃ o, r = .ok (o, p') ∧ o.toVal = v :=
  ⟨obj, by rw [h, hp], hv⟩

section arm
variable {env : Env} {cfg : ElfCfg} {data : Bytes}
  (harm : ∀ t : Nat, env.enumDecode "ENUM_ATTR_TAG_ARM" (t : Int) = tagName .arm t)
include harm

theorem arm_uleb {fuel pos : Nat} {rest : Bytes} {u w : U} (hu : u.wf = true) (hw : w.wf = true)
    (hk : kind .arm u.v = some .uleb) (hd : data.drop pos = u.enc ++ (w.enc ++ rest)) :
    armAttribute env (Spec.elfStructs cfg) data (fuel + 1) pos
      = .ok ({ tag := nameVal .arm u.v, value := .int w.v, extra := .none, valueIsStr := false }, pos + u.n + w.n) := by
  obtain ⟨name, hn, h1, -, h3, h4, h5⟩ := kind_arm hk
  have hd2 : data.drop (pos + u.n) = w.enc ++ rest := by
    have := drop_add_of_drop hd
    rwa [U_enc_length] at this
  rw [armAttribute, S_armTag, parse_tagStruct hu hd ((harm u.v).trans hn)]
  simp only [bind, Except.bind, getField_tag, h1, h3, h4, h5, S_uleb, parseInt_uleb hw hd2, nameVal_of hn]
  rfl

theorem arm_ntbs {fuel pos : Nat} {rest : Bytes} {u : U} {s : Bytes} (hu : u.wf = true) (hs : strWf s = true)
    (hk : kind .arm u.v = some .ntbs) (hd : data.drop pos = u.enc ++ (s ++ ([0] ++ rest))) :
    armAttribute env (Spec.elfStructs cfg) data (fuel + 1) pos
      = .ok ({ tag := nameVal .arm u.v, value := .bytes s, extra := .none, valueIsStr := true }, pos + u.n + s.length + 1) := by
  obtain ⟨name, hn, h1, -, h3, h4, h5⟩ := kind_arm hk
  have hd2 : data.drop (pos + u.n) = s ++ ([0] ++ rest) := by
    have := drop_add_of_drop hd
    rwa [U_enc_length] at this
  rw [armAttribute, S_armTag, parse_tagStruct hu hd ((harm u.v).trans hn)]
  simp only [bind, Except.bind, getField_tag, h1, h3, h4, h5, parseNtbs_ok hs hd2, nameVal_of hn]
  rfl

theorem arm_compat {fuel pos : Nat} {rest : Bytes} {u f : U} {s : Bytes} (hu : u.wf = true) (hf : f.wf = true)
    (hs : strWf s = true) (hk : kind .arm u.v = some .compat)
    (hd : data.drop pos = u.enc ++ (f.enc ++ (s ++ ([0] ++ rest)))) :
    armAttribute env (Spec.elfStructs cfg) data (fuel + 1) pos
      = .ok ({ tag := nameVal .arm u.v, value := .int f.v, extra := .bytes s, valueIsStr := false },
             pos + u.n + f.n + s.length + 1) := by
  obtain ⟨name, hn, h1, -, h3, h4, h5⟩ := kind_arm hk
  have hd2 : data.drop (pos + u.n) = f.enc ++ (s ++ ([0] ++ rest)) := by
    have := drop_add_of_drop hd
    rwa [U_enc_length] at this
  have hd3 : data.drop (pos + u.n + f.n) = s ++ ([0] ++ rest) := by
    have := drop_add_of_drop hd2
    rwa [U_enc_length] at this
  rw [armAttribute, S_armTag, parse_tagStruct hu hd ((harm u.v).trans hn)]
  simp only [bind, Except.bind, getField_tag, h1, h3, h4, h5, S_uleb, parseInt_uleb hf hd2, parseNtbs_ok hs hd3,
    nameVal_of hn]
  rfl

theorem arm_also_int {fuel pos : Nat} {rest : Bytes} {u t w : U} (hu : u.wf = true) (ht : t.wf = true)
    (hw : w.wf = true) (hk : kind .arm u.v = some .also) (hk' : kind .arm t.v = some .uleb)
    (hd : data.drop pos = u.enc ++ (t.enc ++ (w.enc ++ ([0] ++ rest)))) :
    armAttribute env (Spec.elfStructs cfg) data (fuel + 2) pos
      = .ok ({ tag := nameVal .arm u.v,
               value := attrRecord (nameVal .arm t.v) (.int w.v) .none, extra := .none, valueIsStr := false },
             pos + u.n + t.n + w.n + 1) := by
  obtain ⟨name, hn, h1, -, h3, h4, h5⟩ := kind_arm hk
  have hd2 : data.drop (pos + u.n) = t.enc ++ (w.enc ++ ([0] ++ rest)) := by
    have := drop_add_of_drop hd
    rwa [U_enc_length] at this
  have hd3 : data.drop (pos + u.n + t.n + w.n) = 0 :: rest := by
    have := drop_add_of_drop hd2
    rw [U_enc_length] at this
    have := drop_add_of_drop this
    rwa [U_enc_length] at this
  rw [armAttribute, S_armTag, parse_tagStruct hu hd ((harm u.v).trans hn)]
  simp only [bind, Except.bind, getField_tag, h1, h3, h4, h5, arm_uleb harm ht hw hk' hd2, S_byte,
    parseInt_byte hd3, nameVal_of hn]
  rfl

theorem arm_also_str {fuel pos : Nat} {rest : Bytes} {u t : U} {s : Bytes} (hu : u.wf = true) (ht : t.wf = true)
    (hs : strWf s = true) (hk : kind .arm u.v = some .also) (hk' : kind .arm t.v = some .ntbs)
    (hd : data.drop pos = u.enc ++ (t.enc ++ (s ++ ([0] ++ rest)))) :
    armAttribute env (Spec.elfStructs cfg) data (fuel + 2) pos
      = .ok ({ tag := nameVal .arm u.v,
               value := attrRecord (nameVal .arm t.v) (.bytes s) .none, extra := .none, valueIsStr := false },
             pos + u.n + t.n + s.length + 1) := by
  obtain ⟨name, hn, h1, -, h3, h4, h5⟩ := kind_arm hk
  have hd2 : data.drop (pos + u.n) = t.enc ++ (s ++ ([0] ++ rest)) := by
    have := drop_add_of_drop hd
    rwa [U_enc_length] at this
  rw [armAttribute, S_armTag, parse_tagStruct hu hd ((harm u.v).trans hn)]
  simp only [bind, Except.bind, getField_tag, h1, h3, h4, h5, arm_ntbs harm ht hs hk' hd2, nameVal_of hn]
  rfl

theorem arm_attr {fuel pos : Nat} {rest : Bytes} {x : Attribute} (hwf : attrWf .arm x = true) (hf : 2 ≤ fuel)
    (hd : data.drop pos = encAttr x ++ rest) :
    ∃ obj, armAttribute env (Spec.elfStructs cfg) data fuel pos = .ok (obj, pos + (encAttr x).length)
      ∧ obj.toVal = obsAttr .arm x := by
  obtain ⟨fuel, rfl⟩ : ∃ f, fuel = f + 2 := ⟨fuel - 2, by omega⟩
  obtain ⟨u, val⟩ := x
  simp only [attrWf, Bool.and_eq_true] at hwf
  obtain ⟨hu, hval⟩ := hwf
  cases val with
  | simple sv =>
    simp only [valueWf, Bool.and_eq_true] at hval
    obtain ⟨hsv, hm⟩ := hval
    cases sv with
    | int w =>
      have hk : kind .arm u.v = some .uleb := by
        revert hm; cases kind .arm u.v with
        | none => simp
        | some k => cases k <;> simp [simpleMatches]
      have hd' : data.drop pos = u.enc ++ (w.enc ++ rest) := by
        rw [hd]; simp [encAttr, encValue, encSimple]
      exact exists_of_eq (arm_uleb harm hu hsv hk hd') (by simp [encAttr, encValue, encSimple, U_enc_length, Nat.add_assoc]) rfl
    | str s =>
      have hk : kind .arm u.v = some .ntbs := by
        revert hm; cases kind .arm u.v with
        | none => simp
        | some k => cases k <;> simp [simpleMatches]
      have hd' : data.drop pos = u.enc ++ (s ++ ([0] ++ rest)) := by
        rw [hd]; simp [encAttr, encValue, encSimple]
      exact exists_of_eq (arm_ntbs harm hu hsv hk hd') (by simp [encAttr, encValue, encSimple, U_enc_length, Nat.add_assoc]) rfl
  | compat f v =>
    simp only [valueWf, Bool.and_eq_true, beq_iff_eq] at hval
    obtain ⟨⟨hf', hv⟩, hk⟩ := hval
    have hd' : data.drop pos = u.enc ++ (f.enc ++ (v ++ ([0] ++ rest))) := by
      rw [hd]; simp [encAttr, encValue]
    exact exists_of_eq (arm_compat harm hu hf' hv hk hd') (by simp [encAttr, encValue, U_enc_length, Nat.add_assoc]) rfl
  | also t sv =>
    simp only [valueWf, Bool.and_eq_true, beq_iff_eq] at hval
    obtain ⟨⟨⟨hk, ht⟩, hsv⟩, hm⟩ := hval
    cases sv with
    | int w =>
      have hk' : kind .arm t.v = some .uleb := by
        revert hm; cases kind .arm t.v with
        | none => simp
        | some k => cases k <;> simp [simpleMatches]
      have hd' : data.drop pos = u.enc ++ (t.enc ++ (w.enc ++ ([0] ++ rest))) := by
        rw [hd]; simp [encAttr, encValue]
      exact exists_of_eq (arm_also_int harm hu ht hsv hk hk' hd') (by simp [encAttr, encValue, U_enc_length, Nat.add_assoc]) rfl
    | str s =>
      have hk' : kind .arm t.v = some .ntbs := by
        revert hm; cases kind .arm t.v with
        | none => simp
        | some k => cases k <;> simp [simpleMatches]
      have hd' : data.drop pos = u.enc ++ (t.enc ++ (s ++ ([0] ++ rest))) := by
        rw [hd]; simp [encAttr, encValue]
      exact exists_of_eq (arm_also_str harm hu ht hsv hk hk' hd') (by simp [encAttr, encValue, U_enc_length, Nat.add_assoc]) rfl

end arm

/-! the scope header (first branch of both attribute classes) -/

theorem scopeBranch_file {env : Env} {cfg : ElfCfg} {data : Bytes} {tag : Val} {p v : Nat} {rest : Bytes}
    (htag : tagIn tag ["TAG_FILE"] = true) (hv : v < 2 ^ 32) (hd : data.drop p = encNat cfg.le 4 v ++ rest) :
    scopeBranch env (Spec.elfStructs cfg) data tag p
      = .ok ({ tag, value := .int v, extra := .none, valueIsStr := false }, p + 4) := by
  simp only [scopeBranch, S_word, parseInt_word hv hd, bind, Except.bind, htag]
  rfl

theorem scopeBranch_nums {env : Env} {cfg : ElfCfg} {data : Bytes} {tag : Val} {p v : Nat} {rest : Bytes}
    {nums : List U} (htag : tagIn tag ["TAG_FILE"] = false) (hv : v < 2 ^ 32)
    (hnums : ∀ u ∈ nums, u.wf = true ∧ u.v ≠ 0)
    (hd : data.drop p = encNat cfg.le 4 v ++ (encNums nums ++ rest)) :
    scopeBranch env (Spec.elfStructs cfg) data tag p
      = .ok ({ tag, value := .int v, extra := .list (nums.map fun u => .int u.v), valueIsStr := false },
             p + 4 + (encNums nums).length) := by
  have hd2 : data.drop (p + 4) = encNums nums ++ rest := by
    have := drop_add_of_drop hd
    rwa [encNat_length] at this
  have hl := length_of_drop hd2
  have hge := encNums_length_ge nums (fun u hu => (hnums u hu).1)
  have hfuel : nums.length + 1 ≤ data.length - (p + 4) + 2 := by
    rw [hl, List.length_append]; omega
  simp only [scopeBranch, S_word, parseInt_word hv hd, bind, Except.bind, htag,
    sNumbers_ok env cfg data rest nums _ (p + 4) [] hnums hfuel hd2]
  rfl

/-- the bytes between the size field and the attributes of a sub-subsection -/
def numsBytes (s : SubSub) : Bytes := if s.tag.v = 1 then [] else encNums s.nums

def hdrObj (a : Arch) (s : SubSub) : AttrObj :=
  { tag := nameVal a s.tag.v, value := .int s.size,
    extra := if s.tag.v = 1 then .none else .list (s.nums.map fun u => .int u.v), valueIsStr := false }

theorem subSubWf_iff {a : Arch} {s : SubSub} (h : subSubWf a s = true) :
    s.tag.wf = true ∧ (s.tag.v = 1 ∨ s.tag.v = 2 ∨ s.tag.v = 3) ∧ kind a s.tag.v = some .scope
      ∧ (s.tag.v ≠ 1 → ∀ u ∈ s.nums, u.wf = true ∧ u.v ≠ 0)
      ∧ (∀ x ∈ s.attrs, attrWf a x = true) ∧ s.size < 2 ^ 32 := by
  simp only [subSubWf, Bool.and_eq_true, Bool.or_eq_true, beq_iff_eq, decide_eq_true_eq, List.all_eq_true] at h
  obtain ⟨⟨⟨⟨⟨h1, h2⟩, h3⟩, h4⟩, h5⟩, h6⟩ := h
  have h2' : s.tag.v = 1 ∨ s.tag.v = 2 ∨ s.tag.v = 3 := by omega
  refine ⟨h1, h2', ?_, ?_, h5, h6⟩
  · have : (tagName a s.tag.v).isNone = false := by
      cases hh : tagName a s.tag.v <;> simp [hh] at h3 ⊢
    simp [kind, this, h2']
  · intro hne u hu
    rw [if_neg hne] at h4
    have := List.all_eq_true.1 h4 u hu
    simpa using this

section scope
variable {env : Env} {cfg : ElfCfg} {data : Bytes}

theorem scope_common {tag : Val} {s : SubSub} {a : Arch} {p : Nat} {rest : Bytes} (hwf : subSubWf a s = true)
    (hfile : tagIn tag ["TAG_FILE"] = (s.tag.v == 1))
    (hd : data.drop p = encNat cfg.le 4 s.size ++ (numsBytes s ++ rest)) :
    scopeBranch env (Spec.elfStructs cfg) data tag p
      = .ok ({ tag, value := .int s.size,
               extra := if s.tag.v = 1 then .none else .list (s.nums.map fun u => .int u.v), valueIsStr := false },
             p + 4 + (numsBytes s).length) := by
  obtain ⟨-, -, -, hnums, -, hsz⟩ := subSubWf_iff hwf
  by_cases h1 : s.tag.v = 1
  · have hd' : data.drop p = encNat cfg.le 4 s.size ++ rest := by rw [hd]; simp [numsBytes, h1]
    rw [scopeBranch_file (by rw [hfile]; simp [h1]) hsz hd']
    simp [numsBytes, h1]
  · have hd' : data.drop p = encNat cfg.le 4 s.size ++ (encNums s.nums ++ rest) := by rw [hd]; simp [numsBytes, h1]
    rw [scopeBranch_nums (by rw [hfile]; simp [h1]) hsz (hnums h1) hd']
    simp [numsBytes, h1]

theorem arm_scope (harm : ∀ t : Nat, env.enumDecode "ENUM_ATTR_TAG_ARM" (t : Int) = tagName .arm t)
    {fuel pos : Nat} {rest : Bytes} {s : SubSub} (hwf : subSubWf .arm s = true)
    (hd : data.drop pos = s.tag.enc ++ (encNat cfg.le 4 s.size ++ (numsBytes s ++ rest))) :
    armAttribute env (Spec.elfStructs cfg) data (fuel + 1) pos
      = .ok (hdrObj .arm s, pos + s.tag.n + 4 + (numsBytes s).length) := by
  obtain ⟨hu, -, hk, -, -, -⟩ := subSubWf_iff hwf
  obtain ⟨name, hn, h1, h2, -, -, -⟩ := kind_arm hk
  have hd2 : data.drop (pos + s.tag.n) = encNat cfg.le 4 s.size ++ (numsBytes s ++ rest) := by
    have := drop_add_of_drop hd
    rwa [U_enc_length] at this
  rw [armAttribute, S_armTag, parse_tagStruct hu hd ((harm s.tag.v).trans hn)]
  simp only [bind, Except.bind, getField_tag, h1]
  rw [if_pos (by decide), scope_common hwf h2 hd2, hdrObj,
    nameVal_of hn]

theorem riscv_scope (hrv : ∀ t : Nat, env.enumDecode "ENUM_ATTR_TAG_RISCV" (t : Int) = tagName .riscv t)
    {pos : Nat} {rest : Bytes} {s : SubSub} (hwf : subSubWf .riscv s = true)
    (hd : data.drop pos = s.tag.enc ++ (encNat cfg.le 4 s.size ++ (numsBytes s ++ rest))) :
    riscvAttribute env (Spec.elfStructs cfg) data pos
      = .ok (hdrObj .riscv s, pos + s.tag.n + 4 + (numsBytes s).length) := by
  obtain ⟨hu, -, hk, -, -, -⟩ := subSubWf_iff hwf
  obtain ⟨name, hn, h1, h2, -, -⟩ := kind_riscv hk
  have hd2 : data.drop (pos + s.tag.n) = encNat cfg.le 4 s.size ++ (numsBytes s ++ rest) := by
    have := drop_add_of_drop hd
    rwa [U_enc_length] at this
  rw [riscvAttribute, S_riscvTag, parse_tagStruct hu hd ((hrv s.tag.v).trans hn)]
  simp only [bind, Except.bind, getField_tag, h1]
  rw [if_pos (by decide), scope_common hwf h2 hd2, hdrObj,
    nameVal_of hn]

end scope

section riscv
variable {env : Env} {cfg : ElfCfg} {data : Bytes}
  (hrv : ∀ t : Nat, env.enumDecode "ENUM_ATTR_TAG_RISCV" (t : Int) = tagName .riscv t)
include hrv

theorem riscv_uleb {pos : Nat} {rest : Bytes} {u w : U} (hu : u.wf = true) (hw : w.wf = true)
    (hk : kind .riscv u.v = some .uleb) (hd : data.drop pos = u.enc ++ (w.enc ++ rest)) :
    riscvAttribute env (Spec.elfStructs cfg) data pos
      = .ok ({ tag := nameVal .riscv u.v, value := .int w.v, extra := .none, valueIsStr := false }, pos + u.n + w.n) := by
  obtain ⟨name, hn, h1, -, h3, -⟩ := kind_riscv hk
  have hd2 : data.drop (pos + u.n) = w.enc ++ rest := by
    have := drop_add_of_drop hd
    rwa [U_enc_length] at this
  rw [riscvAttribute, S_riscvTag, parse_tagStruct hu hd ((hrv u.v).trans hn)]
  simp only [bind, Except.bind, getField_tag, h1, h3, S_uleb, parseInt_uleb hw hd2, nameVal_of hn]
  rfl

theorem riscv_ntbs {pos : Nat} {rest : Bytes} {u : U} {s : Bytes} (hu : u.wf = true) (hs : strWf s = true)
    (hk : kind .riscv u.v = some .ntbs) (hd : data.drop pos = u.enc ++ (s ++ ([0] ++ rest))) :
    riscvAttribute env (Spec.elfStructs cfg) data pos
      = .ok ({ tag := nameVal .riscv u.v, value := .bytes s, extra := .none, valueIsStr := true }, pos + u.n + s.length + 1) := by
  obtain ⟨name, hn, h1, -, h3, -⟩ := kind_riscv hk
  have hd2 : data.drop (pos + u.n) = s ++ ([0] ++ rest) := by
    have := drop_add_of_drop hd
    rwa [U_enc_length] at this
  rw [riscvAttribute, S_riscvTag, parse_tagStruct hu hd ((hrv u.v).trans hn)]
  simp only [bind, Except.bind, getField_tag, h1, h3, parseNtbs_ok hs hd2, nameVal_of hn]
  rfl

theorem riscv_attr {pos : Nat} {rest : Bytes} {x : Attribute} (hwf : attrWf .riscv x = true)
    (hd : data.drop pos = encAttr x ++ rest) :
    ∃ obj, riscvAttribute env (Spec.elfStructs cfg) data pos = .ok (obj, pos + (encAttr x).length)
      ∧ obj.toVal = obsAttr .riscv x := by
  obtain ⟨u, val⟩ := x
  simp only [attrWf, Bool.and_eq_true] at hwf
  obtain ⟨hu, hval⟩ := hwf
  cases val with
  | simple sv =>
    simp only [valueWf, Bool.and_eq_true] at hval
    obtain ⟨hsv, hm⟩ := hval
    cases sv with
    | int w =>
      have hk : kind .riscv u.v = some .uleb := by
        revert hm; cases kind .riscv u.v with
        | none => simp
        | some k => cases k <;> simp [simpleMatches]
      have hd' : data.drop pos = u.enc ++ (w.enc ++ rest) := by
        rw [hd]; simp [encAttr, encValue, encSimple]
      exact exists_of_eq (riscv_uleb hrv hu hsv hk hd') (by simp [encAttr, encValue, encSimple, U_enc_length, Nat.add_assoc]) rfl
    | str s =>
      have hk : kind .riscv u.v = some .ntbs := by
        revert hm; cases kind .riscv u.v with
        | none => simp
        | some k => cases k <;> simp [simpleMatches]
      have hd' : data.drop pos = u.enc ++ (s ++ ([0] ++ rest)) := by
        rw [hd]; simp [encAttr, encValue, encSimple]
      exact exists_of_eq (riscv_ntbs hrv hu hsv hk hd') (by simp [encAttr, encValue, encSimple, U_enc_length, Nat.add_assoc]) rfl
  | compat f v =>
    simp only [valueWf, Bool.and_eq_true, beq_iff_eq] at hval
    obtain ⟨_, hk⟩ := hval
    obtain ⟨_, _, _, _, _, hh⟩ := kind_riscv hk
    simp at hh
  | also t sv =>
    simp only [valueWf, Bool.and_eq_true, beq_iff_eq] at hval
    obtain ⟨⟨⟨hk, _⟩, _⟩, _⟩ := hval
    obtain ⟨_, _, _, _, _, hh⟩ := kind_riscv hk
    simp at hh

end riscv

section top
variable {arch : Arch} {env : Env} {cfg : ElfCfg} {data : Bytes}
  (henv : ∀ t : Nat, env.enumDecode (tagTableId arch) (t : Int) = tagName arch t)
include henv

theorem attributeAt_attr {pos : Nat} {rest : Bytes} {x : Attribute} (hwf : attrWf arch x = true)
    (hd : data.drop pos = encAttr x ++ rest) :
    ∃ obj, attributeAt arch env (Spec.elfStructs cfg) data pos = .ok (obj, pos + (encAttr x).length)
      ∧ obj.toVal = obsAttr arch x := by
  cases arch with
  | arm => exact arm_attr henv hwf (by omega) hd
  | riscv => exact riscv_attr henv hwf hd

theorem attributeAt_scope {pos : Nat} {rest : Bytes} {s : SubSub} (hwf : subSubWf arch s = true)
    (hd : data.drop pos = s.tag.enc ++ (encNat cfg.le 4 s.size ++ (numsBytes s ++ rest))) :
    attributeAt arch env (Spec.elfStructs cfg) data pos
      = .ok (hdrObj arch s, pos + s.tag.n + 4 + (numsBytes s).length) := by
  cases arch with
  | arm => exact arm_scope henv hwf hd
  | riscv => exact riscv_scope henv hwf hd

end top

/-! ### step 4: the attribute loop -/

theorem encAttrs_cons (x : Attribute) (as : List Attribute) : encAttrs (x :: as) = encAttr x ++ encAttrs as := by
  simp [encAttrs]

theorem encAttr_length_pos {a : Arch} {x : Attribute} (h : attrWf a x = true) : 1 ≤ (encAttr x).length := by
  simp only [attrWf, Bool.and_eq_true] at h
  have := (U_wf_iff h.1).1
  rw [encAttr, List.length_append, U_enc_length]; omega

theorem encAttrs_length_ge {a : Arch} (as : List Attribute) (h : ∀ x ∈ as, attrWf a x = true) :
    as.length ≤ (encAttrs as).length := by
  induction as with
  | nil => simp
  | cons x as ih =>
    have := encAttr_length_pos (h x (by simp))
    have := ih (fun y hy => h y (by simp [hy]))
    rw [encAttrs_cons, List.length_append, List.length_cons]; omega

theorem attributesLoop_ok (attr : Nat → R (AttrObj × Nat)) (a : Arch) (data : Bytes)
    (hattr : ∀ (x : Attribute) (pos : Nat) (rest : Bytes), attrWf a x = true → data.drop pos = encAttr x ++ rest →
      ∃ obj, attr pos = .ok (obj, pos + (encAttr x).length) ∧ obj.toVal = obsAttr a x) :
    ∀ (as : List Attribute) (fuel pos : Nat) (acc : List Val) (rest : Bytes),
      (∀ x ∈ as, attrWf a x = true) → as.length ≤ fuel → data.drop pos = encAttrs as ++ rest →
      attributesLoop attr (pos + (encAttrs as).length) fuel pos acc
        = .ok (acc.reverse ++ as.map (obsAttr a)) := by
  intro as
  induction as with
  | nil =>
    intro fuel pos acc rest _ _ _
    cases fuel <;> simp [attributesLoop, encAttrs]
  | cons x as ih =>
    intro fuel pos acc rest hwf hf hd
    cases fuel with
    | zero => simp at hf
    | succ fuel =>
      have hx := hwf x (by simp)
      have hpos := encAttr_length_pos hx
      have hd' : data.drop pos = encAttr x ++ (encAttrs as ++ rest) := by
        rw [hd, encAttrs_cons, List.append_assoc]
      have hd2 := drop_add_of_drop hd'
      obtain ⟨obj, ho, hv⟩ := hattr x pos _ hx hd'
      have e : pos + (encAttrs (x :: as)).length = pos + (encAttr x).length + (encAttrs as).length := by
        rw [encAttrs_cons, List.length_append]; omega
      rw [attributesLoop, if_neg (by rw [e]; omega), ho]
      simp only [bind, Except.bind]
      rw [e, ih fuel _ _ rest (fun y hy => hwf y (by simp [hy])) (by simpa using hf) hd2, hv]
      simp

/-! ### step 5: sub-subsections, subsections, the section -/

theorem body_eq (s : SubSub) : s.body = numsBytes s ++ encAttrs s.attrs := rfl

theorem size_eq (s : SubSub) : s.size = s.tag.n + 4 + (numsBytes s).length + (encAttrs s.attrs).length := by
  rw [SubSub.size, body_eq, List.length_append]; omega

theorem encSubSub_length (le : Bool) (s : SubSub) : (encSubSub le s).length = s.size := by
  simp only [encSubSub, List.length_append, U_enc_length, encNat_length, SubSub.size]; omega

theorem encSubSubs_cons (le : Bool) (s : SubSub) (ss : List SubSub) :
    encSubSubs le (s :: ss) = encSubSub le s ++ encSubSubs le ss := by simp [encSubSubs]

theorem encSubSubs_length_ge (le : Bool) (ss : List SubSub) : ss.length ≤ (encSubSubs le ss).length := by
  induction ss with
  | nil => simp
  | cons s ss ih =>
    rw [encSubSubs_cons, List.length_append, encSubSub_length, List.length_cons, SubSub.size]; omega

theorem asNat_nat (n : Nat) : (Val.int (n : Int)).asNat = .ok n := by
  simp [Val.asNat, Val.asInt, bind, Except.bind]

theorem encSubSection_length (le : Bool) (s : SubSection) : (encSubSection le s).length = s.length le := by
  simp only [encSubSection, List.length_append, encNat_length, SubSection.length, List.length_cons, List.length_nil]; omega

theorem encSubSections_cons (le : Bool) (s : SubSection) (sec : List SubSection) :
    encSubSections le (s :: sec) = encSubSection le s ++ encSubSections le sec := by simp [encSubSections]

theorem encSubSections_length_ge (le : Bool) (sec : List SubSection) :
    sec.length ≤ (encSubSections le sec).length := by
  induction sec with
  | nil => simp
  | cons s sec ih =>
    rw [encSubSections_cons, List.length_append, encSubSection_length, List.length_cons, SubSection.length]; omega

theorem subSectionWf_iff {a : Arch} {le : Bool} {s : SubSection} (h : subSectionWf a le s = true) :
    strWf s.vendor = true ∧ (∀ x ∈ s.subs, subSubWf a x = true) ∧ s.length le < 2 ^ 32 := by
  simpa [subSectionWf, and_assoc] using h

theorem getNat_length (n : Nat) (v : Val) :
    (Val.record [("length", .int (n : Int)), ("vendor_name", v)]).getNat "length" = .ok n := by
  have : (Val.record [("length", .int (n : Int)), ("vendor_name", v)]).getField "length" = .ok (.int (n : Int)) := rfl
  simp only [Val.getNat, this, bind, Except.bind, asNat_nat]

theorem getField_vendor (n : Int) (v : Val) :
    (Val.record [("length", .int n), ("vendor_name", v)]).getField "vendor_name" = .ok v := rfl

section loops
variable {arch : Arch} {env : Env} {cfg : ElfCfg} {data : Bytes}
  (henv : ∀ t : Nat, env.enumDecode (tagTableId arch) (t : Int) = tagName arch t)
include henv

theorem subsubLoop_ok :
    ∀ (ss : List SubSub) (fuel offset : Nat) (acc : List Val) (rest : Bytes),
      (∀ s ∈ ss, subSubWf arch s = true) → ss.length ≤ fuel →
      data.drop offset = encSubSubs cfg.le ss ++ rest →
      subsubLoop (attributeAt arch env (Spec.elfStructs cfg) data) data.length
          (offset + (encSubSubs cfg.le ss).length) fuel offset acc
        = .ok (acc.reverse ++ ss.map (obsSubSub arch)) := by
  intro ss
  induction ss with
  | nil =>
    intro fuel offset acc rest _ _ _
    cases fuel <;> simp [subsubLoop, encSubSubs]
  | cons s ss ih =>
    intro fuel offset acc rest hwf hf hd
    cases fuel with
    | zero => simp at hf
    | succ fuel =>
      have hs := hwf s (by simp)
      obtain ⟨-, -, -, -, hattrs, -⟩ := subSubWf_iff hs
      have hd' : data.drop offset = s.tag.enc ++ (encNat cfg.le 4 s.size ++ (numsBytes s ++
          (encAttrs s.attrs ++ (encSubSubs cfg.le ss ++ rest)))) := by
        rw [hd, encSubSubs_cons, encSubSub, body_eq]; simp only [List.append_assoc]
      have hd2 : data.drop (offset + s.tag.n + 4 + (numsBytes s).length)
          = encAttrs s.attrs ++ (encSubSubs cfg.le ss ++ rest) := by
        have h := drop_add_of_drop hd'
        rw [U_enc_length] at h
        have h := drop_add_of_drop h
        rw [encNat_length] at h
        exact drop_add_of_drop h
      have hd3 : data.drop (offset + s.size) = encSubSubs cfg.le ss ++ rest := by
        have := drop_add_of_drop hd2
        rwa [show offset + s.tag.n + 4 + (numsBytes s).length + (encAttrs s.attrs).length = offset + s.size from by
          rw [size_eq]; omega] at this
      have hl := length_of_drop hd2
      have hge := encAttrs_length_ge s.attrs hattrs
      have hfuel : s.attrs.length ≤ data.length + 2 := by
        rw [List.length_append] at hl; omega
      have hloop := attributesLoop_ok (attributeAt arch env (Spec.elfStructs cfg) data) arch data
        (fun x pos rest hx hdx => attributeAt_attr henv hx hdx) s.attrs (data.length + 2) _ [] _ hattrs hfuel hd2
      rw [show offset + s.tag.n + 4 + (numsBytes s).length + (encAttrs s.attrs).length = offset + s.size from by
          rw [size_eq]; omega] at hloop
      have e : offset + (encSubSubs cfg.le (s :: ss)).length = offset + s.size + (encSubSubs cfg.le ss).length := by
        rw [encSubSubs_cons, List.length_append, encSubSub_length]; omega
      have hne : ¬ offset = offset + (encSubSubs cfg.le (s :: ss)).length := by
        rw [e, SubSub.size]; omega
      rw [subsubLoop, if_neg hne, attributeAt_scope henv hs hd']
      simp only [bind, Except.bind, hdrObj, asNat_nat, hloop]
      rw [e, ih fuel _ _ rest (fun y hy => hwf y (by simp [hy])) (by simpa using hf) hd3]
      simp [obsSubSub]

theorem subsecLoop_ok :
    ∀ (sec : List SubSection) (fuel offset : Nat) (acc : List Val) (rest : Bytes),
      (∀ s ∈ sec, subSectionWf arch cfg.le s = true) → sec.length ≤ fuel →
      data.drop offset = encSubSections cfg.le sec ++ rest →
      subsecLoop arch env (Spec.elfStructs cfg) data (offset + (encSubSections cfg.le sec).length) fuel offset acc
        = .ok (acc.reverse ++ sec.map (obsSubSection arch cfg.le)) := by
  intro sec
  induction sec with
  | nil =>
    intro fuel offset acc rest _ _ _
    cases fuel <;> simp [subsecLoop, encSubSections]
  | cons s sec ih =>
    intro fuel offset acc rest hwf hf hd
    cases fuel with
    | zero => simp at hf
    | succ fuel =>
      obtain ⟨hvendor, hsubs, hlen⟩ := subSectionWf_iff (hwf s (by simp))
      obtain ⟨hnul, hutf⟩ := strWf_iff hvendor
      have hd' : data.drop offset = encNat cfg.le 4 (s.length cfg.le) ++ (s.vendor ++ [0] ++
          (encSubSubs cfg.le s.subs ++ (encSubSections cfg.le sec ++ rest))) := by
        rw [hd, encSubSections_cons, encSubSection]; simp only [List.append_assoc]
      have hd2 : data.drop (offset + 4 + s.vendor.length + 1)
          = encSubSubs cfg.le s.subs ++ (encSubSections cfg.le sec ++ rest) := by
        have h := drop_add_of_drop hd'
        rw [encNat_length] at h
        have h := drop_add_of_drop h
        rwa [List.length_append, List.length_singleton, ← Nat.add_assoc] at h
      have esz : offset + 4 + s.vendor.length + 1 + (encSubSubs cfg.le s.subs).length = offset + s.length cfg.le := by
        rw [SubSection.length]; omega
      have hd3 : data.drop (offset + s.length cfg.le) = encSubSections cfg.le sec ++ rest := by
        have := drop_add_of_drop hd2
        rwa [esz] at this
      have hl := length_of_drop hd2
      have hge := encSubSubs_length_ge cfg.le s.subs
      have hfuel : s.subs.length ≤ data.length + 2 := by
        rw [List.length_append] at hl; omega
      have hloop := subsubLoop_ok henv s.subs (data.length + 2) _ [] _ hsubs hfuel hd2
      rw [esz] at hloop
      have e : offset + (encSubSections cfg.le (s :: sec)).length
          = offset + s.length cfg.le + (encSubSections cfg.le sec).length := by
        rw [encSubSections_cons, List.length_append, encSubSection_length]; omega
      have hne : ¬ offset = offset + (encSubSections cfg.le (s :: sec)).length := by
        rw [e, SubSection.length]; omega
      rw [subsecLoop, if_neg hne, S_hdr, parse_hdrStruct hlen hnul hd']
      simp only [bind, Except.bind, getNat_length, getField_vendor, decodeNtbs, hutf, if_true, hloop]
      rw [e, ih fuel _ _ rest (fun y hy => hwf y (by simp [hy])) (by simpa using hf) hd3]
      simp [obsSubSection]

end loops

end Attrs

open Attrs in
theorem attrs_roundtrip (arch : Spec.Attr.Arch) (env : Env) (cfg : ElfCfg) (sec : Spec.Attr.Section) (pre rest : Bytes)
    (henv : ∀ t : Nat, env.enumDecode (tagTableId arch) (t : Int) = Spec.Attr.tagName arch t)
    (hwf : Spec.Attr.sectionWf arch cfg.le sec = true) :
    Model.Attr.attributesSection arch env (Spec.elfStructs cfg)
        (pre ++ Spec.Attr.encSection cfg.le sec ++ rest) pre.length (Spec.Attr.encSection cfg.le sec).length
      = .ok (Spec.Attr.obsSection arch cfg.le sec) := by
  have hwf' : ∀ s ∈ sec, Spec.Attr.subSectionWf arch cfg.le s = true := by
    simpa [Spec.Attr.sectionWf] using hwf
  generalize hdata : pre ++ Spec.Attr.encSection cfg.le sec ++ rest = data
  have hd : data.drop pre.length = 0x41 :: (Spec.Attr.encSubSections cfg.le sec ++ rest) := by
    rw [← hdata, drop_pre]; rfl
  have hd2 : data.drop (pre.length + 1) = Spec.Attr.encSubSections cfg.le sec ++ rest :=
    (drop_cons_inv hd).2
  have hl := length_of_drop hd2
  have hge := encSubSections_length_ge cfg.le sec
  have hfuel : sec.length ≤ data.length + 2 := by
    rw [List.length_append] at hl; omega
  have hloop := subsecLoop_ok henv sec (data.length + 2) _ [] _ hwf' hfuel hd2
  have e : pre.length + (Spec.Attr.encSection cfg.le sec).length
      = pre.length + 1 + (Spec.Attr.encSubSections cfg.le sec).length := by
    simp only [Spec.Attr.encSection, List.length_cons]; omega
  rw [Model.Attr.attributesSection, S_byte, parseInt_byte hd]
  simp only [bind, Except.bind, e, hloop]
  simp [Spec.Attr.obsSection, pure, Except.pure]

end PyElf.Proofs

