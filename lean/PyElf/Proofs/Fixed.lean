/-
  Generic round trip for the fixed-shape fragment of `Con` (Core/Fixed.lean):
  parsing the raw encoding of any fixed-shape construct, placed anywhere in any
  byte string, consumes exactly the encoding and returns `decodeRaw` of the raw
  values, leaving the enclosing context untouched.

  Layout: leaf lemmas (one per primitive construct), the BitStruct pack/split
  arithmetic, then four mutual structural inductions over `Con`/`ConFields`
  (`rt_*` round trip, `el_*`/`fixed_sizeof` sizes, `loc_*` locality, `tr_*`
  truncation), and the four packaged theorems at the end of the file.
-/
import PyElf.Core.Fixed
import PyElf.Proofs.Primitives
namespace PyElf.Proofs
open PyElf

theorem bind2_eq_some {α : Type} {x y : Option (List α)} {bs : List α}
    (h : (do let a ← x; let b ← y; pure (a ++ b)) = some bs) :
    ∃ a b, x = some a ∧ y = some b ∧ bs = a ++ b := by
  cases x <;> cases y <;> simp at h ⊢
  exact h.symm

theorem litNat?_eq_some {e : Expr} {n : Nat} (h : e.litNat? = some n) :
    ∃ z : Int, e = .lit z ∧ 0 ≤ z ∧ z.toNat = n := by
  cases e <;> simp [Expr.litNat?] at h
  rename_i z
  exact ⟨z, rfl, h.1, h.2⟩

theorem litNat?_isSome {e : Expr} (h : e.litNat?.isSome = true) : ∃ n, e.litNat? = some n := by
  cases h' : e.litNat? with
  | none => simp [h'] at h
  | some n => exact ⟨n, rfl⟩

theorem eval_asNat_of_litNat? {e : Expr} {n : Nat} (h : e.litNat? = some n) (ctx : Fields) :
    (do let v ← e.eval ctx .none; v.asNat : R Nat) = .ok n := by
  obtain ⟨z, rfl, hz, rfl⟩ := litNat?_eq_some h
  simp [Expr.eval, bind, Except.bind, Val.asNat, Val.asInt, Int.not_lt.2 hz]

theorem eval_asInt_of_litNat? {e : Expr} {n : Nat} (h : e.litNat? = some n) (ctx : Fields) :
    (do let v ← e.eval ctx .none; v.asInt : R Int) = .ok (n : Int) := by
  obtain ⟨z, rfl, hz, rfl⟩ := litNat?_eq_some h
  simp [Expr.eval, bind, Except.bind, Val.asInt, Int.toNat_of_nonneg hz]

theorem toNat_lt_pow {v : Int} {b n : Nat} (h0 : 0 ≤ v) (h : v < ((b : Nat) : Int) ^ n) :
    v.toNat < b ^ n := by
  have : v < ((b ^ n : Nat) : Int) := by rw [Int.natCast_pow]; exact h
  omega

theorem pe_uint (env : Env) (n : Nat) (le : Bool) (raw : Val) (bs : Bytes)
    (he : (Con.uint n le).encodeRaw raw = some bs) (data : Bytes) (pos : Nat) (rest : Bytes) (ctx : Fields)
    (hd : data.drop pos = bs ++ rest) :
    Con.parse env data (.uint n le) ctx pos
      = ((Con.uint n le).decodeRaw env ctx raw).map (fun v => (v, pos + bs.length, ctx)) := by
  cases raw <;> simp only [Con.encodeRaw, reduceCtorEq] at he
  rename_i v
  split at he
  · rename_i hv
    cases he
    have hlt : v.toNat < 256 ^ n := toNat_lt_pow hv.1 hv.2
    rw [parse_uint_ok hd (encNat_length _ _ _), decNat_encNat_of_lt le hlt]
    simp [Con.decodeRaw, Except.map, encNat_length, Int.toNat_of_nonneg hv.1]
  · cases he

theorem pe_sint (env : Env) (n : Nat) (le : Bool) (hn : 1 ≤ n) (raw : Val) (bs : Bytes)
    (he : (Con.sint n le).encodeRaw raw = some bs) (data : Bytes) (pos : Nat) (rest : Bytes) (ctx : Fields)
    (hd : data.drop pos = bs ++ rest) :
    Con.parse env data (.sint n le) ctx pos
      = ((Con.sint n le).decodeRaw env ctx raw).map (fun v => (v, pos + bs.length, ctx)) := by
  cases raw <;> simp only [Con.encodeRaw, reduceCtorEq] at he
  rename_i v
  split at he
  · rename_i hv
    cases he
    rw [parse_sint_ok hd (encNat_length _ _ _), sint_codec le n v hn hv.1 hv.2]
    simp [Con.decodeRaw, Except.map, encNat_length]
  · cases he

theorem pe_u24 (env : Env) (le : Bool) (raw : Val) (bs : Bytes)
    (he : (Con.u24 le).encodeRaw raw = some bs) (data : Bytes) (pos : Nat) (rest : Bytes) (ctx : Fields)
    (hd : data.drop pos = bs ++ rest) :
    Con.parse env data (.u24 le) ctx pos
      = ((Con.u24 le).decodeRaw env ctx raw).map (fun v => (v, pos + bs.length, ctx)) := by
  cases raw <;> simp only [Con.encodeRaw, reduceCtorEq] at he
  rename_i v
  split at he
  · rename_i hv
    cases he
    have hlt : v.toNat < 2 ^ 24 := toNat_lt_pow (b := 2) hv.1 hv.2
    rw [parse_u24_ok hlt hd]
    simp [Con.decodeRaw, Except.map, encNat_length, Int.toNat_of_nonneg hv.1]
  · cases he

theorem parse_bytesN_lit (env : Env) {e : Expr} {n : Nat} (hn : e.litNat? = some n)
    (data : Bytes) (ctx : Fields) (pos : Nat) :
    Con.parse env data (.bytesN e) ctx pos
      = (readExact data pos n).map (fun bs => (.bytes bs, pos + n, ctx)) := by
  obtain ⟨z, rfl, hz, rfl⟩ := litNat?_eq_some hn
  rw [Con.parse]
  simp only [Expr.eval, bind, Except.bind, Val.asNat, Val.asInt, Int.not_lt.2 hz, if_false]
  cases readExact data pos z.toNat <;> rfl

theorem parse_padding_lit (env : Env) {e : Expr} {n : Nat} (hn : e.litNat? = some n)
    (data : Bytes) (ctx : Fields) (pos : Nat) :
    Con.parse env data (.padding e false) ctx pos
      = (readExact data pos n).map (fun bs => (.bytes bs, pos + n, ctx)) := by
  obtain ⟨z, rfl, hz, rfl⟩ := litNat?_eq_some hn
  rw [Con.parse]
  simp only [Expr.eval, bind, Except.bind, Val.asNat, Val.asInt, Int.not_lt.2 hz, if_false]
  cases readExact data pos z.toNat <;> simp [Except.map, pure, Except.pure]

theorem parse_array_lit (env : Env) {e : Expr} {n : Nat} (hn : e.litNat? = some n) (sub : Con)
    (data : Bytes) (ctx : Fields) (pos : Nat) :
    Con.parse env data (.array e sub) ctx pos
      = arrayLoop (fun p c => Con.parse env data sub c p) n pos ctx [] := by
  obtain ⟨z, rfl, hz, rfl⟩ := litNat?_eq_some hn
  rw [Con.parse]
  simp only [Expr.eval, bind, Except.bind, Val.asInt]

theorem pe_bytesN (env : Env) (e : Expr) (raw : Val) (bs : Bytes)
    (he : (Con.bytesN e).encodeRaw raw = some bs) (data : Bytes) (pos : Nat) (rest : Bytes) (ctx : Fields)
    (hd : data.drop pos = bs ++ rest) :
    Con.parse env data (.bytesN e) ctx pos
      = ((Con.bytesN e).decodeRaw env ctx raw).map (fun v => (v, pos + bs.length, ctx)) := by
  cases raw <;> simp only [Con.encodeRaw, reduceCtorEq] at he
  rename_i b
  split at he
  · rename_i n hn
    split at he
    · rename_i hb
      cases he
      rw [parse_bytesN_lit env hn, readExact_ok hd hb]
      simp [Con.decodeRaw, Except.map, hb]
    · cases he
  · cases he

theorem pe_padding (env : Env) (e : Expr) (raw : Val) (bs : Bytes)
    (he : (Con.padding e false).encodeRaw raw = some bs) (data : Bytes) (pos : Nat) (rest : Bytes) (ctx : Fields)
    (hd : data.drop pos = bs ++ rest) :
    Con.parse env data (.padding e false) ctx pos
      = ((Con.padding e false).decodeRaw env ctx raw).map (fun v => (v, pos + bs.length, ctx)) := by
  simp only [Con.encodeRaw] at he
  cases hn : e.litNat? with
  | none => simp [hn] at he
  | some n =>
    simp [hn] at he
    subst he
    rw [parse_padding_lit env hn, readExact_ok hd (List.length_replicate ..)]
    simp [Con.decodeRaw, Except.map, hn]

theorem pe_value (env : Env) (e : Expr) (raw : Val) (bs : Bytes)
    (he : (Con.value e).encodeRaw raw = some bs) (data : Bytes) (pos : Nat) (rest : Bytes) (ctx : Fields)
    (hd : data.drop pos = bs ++ rest) :
    Con.parse env data (.value e) ctx pos
      = ((Con.value e).decodeRaw env ctx raw).map (fun v => (v, pos + bs.length, ctx)) := by
  simp only [Con.encodeRaw] at he
  cases he
  rw [Con.parse, Con.decodeRaw]
  cases e.eval ctx .none <;> simp [bind, Except.bind, Except.map, pure, Except.pure]


theorem pe_enum (env : Env) (sub : Con) (table : String) (pass : Bool)
    (hc : (Con.enum sub table pass).fixed = true) (raw : Val) (bs : Bytes)
    (he : (Con.enum sub table pass).encodeRaw raw = some bs) (data : Bytes) (pos : Nat) (rest : Bytes) (ctx : Fields)
    (hd : data.drop pos = bs ++ rest) :
    Con.parse env data (.enum sub table pass) ctx pos
      = ((Con.enum sub table pass).decodeRaw env ctx raw).map
          (fun v => (v, pos + bs.length, ctx)) := by
  rw [Con.encodeRaw] at he
  cases sub <;> simp only [Con.fixed, Bool.false_eq_true] at hc
  case uint n le =>
    have h := pe_uint env n le raw bs he data pos rest ctx hd
    rw [Con.parse, h]
    cases raw <;> simp only [Con.encodeRaw, reduceCtorEq] at he
    rename_i v
    simp only [Con.decodeRaw, Except.map, bind, Except.bind]
    cases env.enumDecode table v <;> simp [pure, Except.pure]
    cases pass <;> simp
  case sint n le =>
    have h := pe_sint env n le (by simpa using hc) raw bs he data pos rest ctx hd
    rw [Con.parse, h]
    cases raw <;> simp only [Con.encodeRaw, reduceCtorEq] at he
    rename_i v
    simp only [Con.decodeRaw, Except.map, bind, Except.bind]
    cases env.enumDecode table v <;> simp [pure, Except.pure]
    cases pass <;> simp

def widthSum : List BitFld → Nat
  | [] => 0
  | f :: fs => f.width + widthSum fs

theorem foldl_width (fs : List BitFld) (a : Nat) :
    fs.foldl (fun a f => a + f.width) a = a + widthSum fs := by
  induction fs generalizing a with
  | nil => simp [widthSum]
  | cons f fs ih => simp [widthSum, ih, Nat.add_assoc]

theorem packBits_lt : ∀ (fs : List BitFld) (total : Nat) (raw : Fields) (N : Nat),
    widthSum fs ≤ total → packBits total fs raw = some N → N < 2 ^ total := by
  intro fs
  induction fs with
  | nil =>
    intro total raw N _ h
    simp [packBits] at h
    subst h
    exact Nat.two_pow_pos _
  | cons f fs ih =>
    intro total raw N hw h
    simp only [widthSum] at hw
    have hle : 2 ^ (total - f.width) ≤ 2 ^ total := Nat.pow_le_pow_right (by decide) (by omega)
    rw [packBits] at h
    split at h
    · exact Nat.lt_of_lt_of_le (ih _ raw N (by omega) h) hle
    · split at h
      · rename_i x hx
        split at h
        · rename_i hx
          cases hr : packBits (total - f.width) fs raw with
          | none => simp [hr] at h
          | some r =>
            simp [hr] at h
            subst h
            have hr' := ih _ raw r (by omega) hr
            have hxl : x.toNat < 2 ^ f.width := by
              have := hx.2
              have : x < ((2 ^ f.width : Nat) : Int) := by rw [Int.natCast_pow]; exact this
              omega
            have e : 2 ^ total = 2 ^ f.width * 2 ^ (total - f.width) := by
              rw [← Nat.pow_add]; congr 1; omega
            rw [e]
            generalize 2 ^ (total - f.width) = P at *
            generalize 2 ^ f.width = W at *
            have : (x.toNat + 1) * P ≤ W * P := Nat.mul_le_mul_right _ hxl
            rw [Nat.add_mul] at this
            omega
        · cases h
      · cases h

theorem div_mod_unique {P A B X r : Nat} (hA : A < P) (hr : r < P) (h : A + P * B = X * P + r) :
    A = r ∧ B = X := by
  have hP : 0 < P := by omega
  have h1 : (A + P * B) / P = B := by
    rw [Nat.add_mul_div_left _ _ hP, Nat.div_eq_of_lt hA, Nat.zero_add]
  have h2 : (X * P + r) / P = X := by
    rw [Nat.add_comm, Nat.add_mul_div_right _ _ hP, Nat.div_eq_of_lt hr, Nat.zero_add]
  have hB : B = X := by rw [← h1, h, h2]
  subst hB
  refine ⟨?_, rfl⟩
  rw [Nat.mul_comm] at h
  omega

theorem splitBits_pack (env : Env) : ∀ (fs : List BitFld) (total : Nat) (raw : Fields) (N v : Nat)
    (acc : Fields), widthSum fs ≤ total → packBits total fs raw = some N → v % 2 ^ total = N →
    splitBits env v total fs acc = decodeBits env fs raw acc := by
  intro fs
  induction fs with
  | nil => intro total raw N v acc _ _ _; simp [splitBits, decodeBits]
  | cons f fs ih =>
    intro total raw N v acc hw h hv
    simp only [widthSum] at hw
    have e : 2 ^ total = 2 ^ (total - f.width) * 2 ^ f.width := by
      rw [← Nat.pow_add]; congr 1; omega
    have hdvd : 2 ^ (total - f.width) ∣ 2 ^ total := ⟨_, e⟩
    rw [packBits] at h
    rw [splitBits, decodeBits]
    split at h
    · rename_i hnm
      simp only [hnm]
      have hlt := packBits_lt fs _ raw N (by omega) h
      refine ih _ raw N v acc (by omega) h ?_
      rw [← Nat.mod_mod_of_dvd v hdvd, hv, Nat.mod_eq_of_lt hlt]
    · rename_i nm hnm
      simp only [hnm]
      split at h
      · rename_i x hx
        split at h
        · rename_i hxr
          cases hr : packBits (total - f.width) fs raw with
          | none => simp [hr] at h
          | some r =>
            simp [hr] at h
            subst h
            have hr' := packBits_lt fs _ raw r (by omega) hr
            rw [e, Nat.mod_mul] at hv
            obtain ⟨hA, hB⟩ := div_mod_unique (Nat.mod_lt _ (Nat.two_pow_pos _)) hr' hv
            have hx' : (((v >>> (total - f.width)) % 2 ^ f.width : Nat) : Int) = x := by
              rw [Nat.shiftRight_eq_div_pow, hB]
              exact Int.toNat_of_nonneg hxr.1
            rw [hx']
            have IH := fun acc => ih _ raw r v acc (by omega) hr hA
            simp only [IH]
            try rfl
        · cases h
      · cases h

theorem beNat_natBE (n v : Nat) : beNat (natBE n v) = v % 2 ^ (8 * n) := by
  have := decNat_encNat false n v
  simp only [decNat, encNat] at this
  rw [Nat.pow_mul]
  simpa using this


theorem natBE_length (n v : Nat) : (natBE n v).length = n := by simp [natBE, natLE_length]

theorem widthSum_le_bytes (fs : List BitFld) :
    widthSum fs ≤ 8 * ((fs.foldl (fun a f => a + f.width) 0 + 7) / 8) := by
  rw [foldl_width]; omega

theorem pe_bits (env : Env) (fs : List BitFld) (raw : Val) (bs : Bytes)
    (he : (Con.bits fs).encodeRaw raw = some bs) (data : Bytes) (pos : Nat) (rest : Bytes) (ctx : Fields)
    (hd : data.drop pos = bs ++ rest) :
    Con.parse env data (.bits fs) ctx pos
      = ((Con.bits fs).decodeRaw env ctx raw).map (fun v => (v, pos + bs.length, ctx)) := by
  cases raw <;> simp only [Con.encodeRaw, reduceCtorEq] at he
  rename_i raw
  cases hp : packBits (8 * ((fs.foldl (fun a f => a + f.width) 0 + 7) / 8)) fs raw with
  | none => simp [hp] at he
  | some N =>
    simp [hp] at he
    subst he
    rw [Con.parse]
    simp only [bind, Except.bind]
    rw [readExact_ok hd (natBE_length _ _)]
    simp only
    rw [splitBits_pack env fs _ raw N _ [] (widthSum_le_bytes fs) hp
      (by rw [beNat_natBE, Nat.mod_mod]; exact Nat.mod_eq_of_lt (packBits_lt fs _ raw N (widthSum_le_bytes fs) hp))]
    rw [Con.decodeRaw]
    cases decodeBits env fs raw [] <;> simp [bind, Except.bind, Except.map, pure, Except.pure, natBE_length]


/-- round-trip claim for one construct, in `drop` form (the data is fixed, the position moves) -/
def RT (env : Env) (c : Con) : Prop :=
  ∀ (raw : Val) (bs : Bytes), c.encodeRaw raw = some bs →
    ∀ (data : Bytes) (pos : Nat) (rest : Bytes) (ctx : Fields), data.drop pos = bs ++ rest →
      Con.parse env data c ctx pos
        = (c.decodeRaw env ctx raw).map (fun v => (v, pos + bs.length, ctx))

def RTF (env : Env) (fs : ConFields) : Prop :=
  ∀ (raw : Fields) (bs : Bytes), fs.encodeRaw raw = some bs →
    ∀ (data : Bytes) (pos : Nat) (rest : Bytes) (obj ctx : Fields), data.drop pos = bs ++ rest →
      Con.parseFields env data fs obj ctx pos
        = (ConFields.decodeRaw env fs raw obj ctx).map (fun oc => (oc.1, pos + bs.length, oc.2))

theorem rt_list (env : Env) (sub : Con) (ih : RT env sub) :
    ∀ (xs : List Val) (bs : Bytes), Con.encodeRawList sub xs = some bs →
      ∀ (data : Bytes) (pos : Nat) (rest : Bytes) (ctx : Fields) (acc : List Val),
        data.drop pos = bs ++ rest →
        arrayLoop (fun p c => Con.parse env data sub c p) xs.length pos ctx acc
          = (Con.decodeRawList env sub ctx xs).map
              (fun ys => (.list (acc.reverse ++ ys), pos + bs.length, ctx)) := by
  intro xs
  induction xs with
  | nil =>
    intro bs he data pos rest ctx acc hd
    simp [Con.encodeRawList] at he
    subst he
    simp [arrayLoop, Con.decodeRawList, Except.map]
  | cons x xs ihx =>
    intro bs he data pos rest ctx acc hd
    rw [Con.encodeRawList] at he
    cases ha : sub.encodeRaw x with
    | none => simp [ha] at he
    | some a =>
      cases hb : Con.encodeRawList sub xs with
      | none => simp [ha, hb] at he
      | some b =>
        simp [ha, hb] at he
        subst he
        have hd1 : data.drop pos = a ++ (b ++ rest) := by rw [hd, List.append_assoc]
        have hd2 : data.drop (pos + a.length) = b ++ rest := drop_add_of_drop hd1
        rw [List.length_cons, arrayLoop, ih x a ha data pos _ ctx hd1, Con.decodeRawList]
        cases hv : sub.decodeRaw env ctx x with
        | error e => simp [Except.map, bind, Except.bind]
        | ok v =>
          simp only [Except.map]
          rw [ihx b hb data _ rest ctx _ hd2]
          cases Con.decodeRawList env sub ctx xs <;>
            simp [Except.map, bind, Except.bind, pure, Except.pure, Nat.add_assoc]


theorem rt_struct (env : Env) (fs : ConFields) (ih : RTF env fs) : RT env (.struct fs) := by
  intro raw bs he data pos rest ctx hd
  cases raw <;> simp only [Con.encodeRaw, reduceCtorEq] at he
  rename_i raw
  rw [Con.parse, ih raw bs he data pos rest [] [] hd, Con.decodeRaw]
  cases ConFields.decodeRaw env fs raw [] [] <;>
    simp [Except.map, bind, Except.bind, pure, Except.pure]

theorem rt_array (env : Env) (e : Expr) (sub : Con) (he : e.litNat?.isSome = true)
    (ih : RT env sub) : RT env (.array e sub) := by
  intro raw bs henc data pos rest ctx hd
  obtain ⟨n, hn⟩ := litNat?_isSome he
  cases raw <;> simp only [Con.encodeRaw, reduceCtorEq] at henc
  rename_i xs
  simp only [hn] at henc
  split at henc
  · rename_i hlen
    rw [parse_array_lit env hn, ← hlen, rt_list env sub ih xs bs henc data pos rest ctx [] hd,
      Con.decodeRaw]
    cases Con.decodeRawList env sub ctx xs <;>
      simp [Except.map, bind, Except.bind, pure, Except.pure]
  · cases henc

theorem rtf_nil (env : Env) : RTF env .nil := by
  intro raw bs he data pos rest obj ctx hd
  simp [ConFields.encodeRaw] at he
  subst he
  simp [Con.parseFields, ConFields.decodeRaw, Except.map]

theorem rtf_cons (env : Env) (name : Option String) (c : Con) (fs : ConFields)
    (ihc : RT env c) (ihf : RTF env fs) : RTF env (.cons name false c fs) := by
  intro raw bs he data pos rest obj ctx hd
  cases name <;>
  ( rw [ConFields.encodeRaw] at he
    obtain ⟨a, b, ha, hb, rfl⟩ := bind2_eq_some he
    have hd1 : data.drop pos = a ++ (b ++ rest) := by rw [hd, List.append_assoc]
    have hd2 : data.drop (pos + a.length) = b ++ rest := drop_add_of_drop hd1
    rw [Con.parseFields, ConFields.decodeRaw]
    simp only [Bool.false_eq_true, if_false, bind, Except.bind]
    rw [ihc _ a ha data pos _ ctx hd1]
    cases Con.decodeRaw env c ctx _ with
    | error e => simp [Except.map]
    | ok v =>
      simp only [Except.map]
      rw [ihf raw b hb data _ rest _ _ hd2]
      generalize ConFields.decodeRaw env fs raw _ _ = r
      cases r <;> simp [Except.map, Nat.add_assoc] )

mutual
theorem rt_con (env : Env) : ∀ (c : Con), c.fixed = true → RT env c
  | .uint n le, _ => pe_uint env n le
  | .sint n le, hc => pe_sint env n le (by simpa [Con.fixed] using hc)
  | .u24 le, _ => pe_u24 env le
  | .bytesN e, _ => pe_bytesN env e
  | .padding e strict, hc => by
      have hs : strict = false := by
        have : e.litNat?.isSome = true ∧ strict = false := by simpa [Con.fixed] using hc
        exact this.2
      subst hs
      exact pe_padding env e
  | .enum sub t p, hc => pe_enum env sub t p hc
  | .struct fs, hc => rt_struct env fs (rt_fields env fs (by simpa [Con.fixed] using hc))
  | .array e sub, hc =>
      have h : e.litNat?.isSome = true ∧ sub.fixed = true := by simpa [Con.fixed] using hc
      rt_array env e sub h.1 (rt_con env sub h.2)
  | .value e, _ => pe_value env e
  | .bits fs, _ => pe_bits env fs
  | .uleb, hc => by simp [Con.fixed] at hc
  | .sleb, hc => by simp [Con.fixed] at hc
  | .cstring, hc => by simp [Con.fixed] at hc
  | .prefixed _ _, hc => by simp [Con.fixed] at hc
  | .repeatUntilExcl _ _, hc => by simp [Con.fixed] at hc
  | .ifThenElse _ _ _, hc => by simp [Con.fixed] at hc
  | .switch _ _ _, hc => by simp [Con.fixed] at hc
  | .noDefault, hc => by simp [Con.fixed] at hc
  | .streamOffset, hc => by simp [Con.fixed] at hc
  | .initialLength _, hc => by simp [Con.fixed] at hc
  | .formatted _, hc => by simp [Con.fixed] at hc
  | .unsupported _, hc => by simp [Con.fixed] at hc
theorem rt_fields (env : Env) : ∀ (fs : ConFields), fs.fixed = true → RTF env fs
  | .nil, _ => rtf_nil env
  | .cons name embed c rest, hc =>
      have h : (embed = false ∧ c.fixed = true) ∧ rest.fixed = true := by
        simpa [ConFields.fixed] using hc
      by
        obtain ⟨⟨h1, h2⟩, h3⟩ := h
        subst h1
        exact rtf_cons env name c rest (rt_con env c h2) (rt_fields env rest h3)
end


/-! ### `sizeof` -/

def EL (c : Con) : Prop :=
  ∀ (raw : Val) (bs : Bytes), c.encodeRaw raw = some bs → c.sizeof = some bs.length

def ELF (fs : ConFields) : Prop :=
  ∀ (raw : Fields) (bs : Bytes), fs.encodeRaw raw = some bs → fs.sizeof = some bs.length

theorem el_uint (n : Nat) (le : Bool) : EL (.uint n le) := by
  intro raw bs he
  cases raw <;> simp only [Con.encodeRaw, reduceCtorEq] at he
  split at he
  · cases he; simp [Con.sizeof, encNat_length]
  · cases he

theorem el_sint (n : Nat) (le : Bool) : EL (.sint n le) := by
  intro raw bs he
  cases raw <;> simp only [Con.encodeRaw, reduceCtorEq] at he
  split at he
  · cases he; simp [Con.sizeof, encNat_length]
  · cases he

theorem el_u24 (le : Bool) : EL (.u24 le) := by
  intro raw bs he
  cases raw <;> simp only [Con.encodeRaw, reduceCtorEq] at he
  split at he
  · cases he; simp [Con.sizeof, encNat_length]
  · cases he

theorem el_bytesN (e : Expr) : EL (.bytesN e) := by
  intro raw bs he
  cases raw <;> simp only [Con.encodeRaw, reduceCtorEq] at he
  split at he
  · rename_i n hn
    split at he
    · rename_i hb; cases he; simp [Con.sizeof, hn, hb]
    · cases he
  · cases he

theorem el_padding (e : Expr) (strict : Bool) : EL (.padding e strict) := by
  intro raw bs he
  simp only [Con.encodeRaw] at he
  cases hn : e.litNat? with
  | none => simp [hn] at he
  | some n => simp [hn] at he; subst he; simp [Con.sizeof, hn]

theorem el_enum (sub : Con) (t : String) (p : Bool) (hc : (Con.enum sub t p).fixed = true) :
    EL (.enum sub t p) := by
  intro raw bs he
  rw [Con.encodeRaw] at he
  rw [Con.sizeof]
  cases sub <;> simp only [Con.fixed, Bool.false_eq_true] at hc
  case uint n le => exact el_uint n le raw bs he
  case sint n le => exact el_sint n le raw bs he

theorem el_value (e : Expr) : EL (.value e) := by
  intro raw bs he
  simp only [Con.encodeRaw] at he
  cases he; simp [Con.sizeof]

theorem el_bits (fs : List BitFld) : EL (.bits fs) := by
  intro raw bs he
  cases raw <;> simp only [Con.encodeRaw, reduceCtorEq] at he
  rename_i raw
  cases hp : packBits (8 * ((fs.foldl (fun a f => a + f.width) 0 + 7) / 8)) fs raw with
  | none => simp [hp] at he
  | some N => simp [hp] at he; subst he; simp [Con.sizeof, natBE_length]

theorem el_struct (fs : ConFields) (ih : ELF fs) : EL (.struct fs) := by
  intro raw bs he
  cases raw <;> simp only [Con.encodeRaw, reduceCtorEq] at he
  rw [Con.sizeof]; exact ih _ bs he

theorem el_list (sub : Con) (s : Nat) (ih : ∀ raw bs, sub.encodeRaw raw = some bs → bs.length = s) :
    ∀ (xs : List Val) (bs : Bytes), Con.encodeRawList sub xs = some bs →
      bs.length = xs.length * s := by
  intro xs
  induction xs with
  | nil => intro bs he; simp [Con.encodeRawList] at he; subst he; simp
  | cons x xs ihx =>
    intro bs he
    rw [Con.encodeRawList] at he
    obtain ⟨a, b, ha, hb, rfl⟩ := bind2_eq_some he
    rw [List.length_append, ih x a ha, ihx b hb, List.length_cons, Nat.add_mul]
    omega

theorem el_array (e : Expr) (sub : Con) (s : Nat) (hs : sub.sizeof = some s) (ih : EL sub) :
    EL (.array e sub) := by
  intro raw bs he
  cases raw <;> simp only [Con.encodeRaw, reduceCtorEq] at he
  rename_i xs
  split at he
  · rename_i n hn
    split at he
    · rename_i hlen
      have := el_list sub s (fun raw bs h => by have := ih raw bs h; rw [hs] at this; cases this; rfl)
        xs bs he
      simp [Con.sizeof, hn, hs, this, hlen]
    · cases he
  · cases he

theorem elf_nil : ELF .nil := by
  intro raw bs he
  simp [ConFields.encodeRaw] at he
  subst he; simp [ConFields.sizeof]

theorem elf_cons (name : Option String) (embed : Bool) (c : Con) (fs : ConFields)
    (ihc : EL c) (ihf : ELF fs) : ELF (.cons name embed c fs) := by
  intro raw bs he
  cases name <;>
  ( rw [ConFields.encodeRaw] at he
    obtain ⟨a, b, ha, hb, rfl⟩ := bind2_eq_some he
    simp [ConFields.sizeof, ihc _ a ha, ihf raw b hb] )

mutual
theorem fixed_sizeof : ∀ (c : Con), c.fixed = true → ∃ s, c.sizeof = some s
  | .uint n le, _ => ⟨n, by simp [Con.sizeof]⟩
  | .sint n le, _ => ⟨n, by simp [Con.sizeof]⟩
  | .u24 le, _ => ⟨3, by simp [Con.sizeof]⟩
  | .bytesN e, hc => by
      obtain ⟨n, hn⟩ := litNat?_isSome (e := e) (by simpa [Con.fixed] using hc)
      exact ⟨n, by simp [Con.sizeof, hn]⟩
  | .padding e strict, hc => by
      have h : e.litNat?.isSome = true ∧ strict = false := by simpa [Con.fixed] using hc
      obtain ⟨n, hn⟩ := litNat?_isSome h.1
      exact ⟨n, by simp [Con.sizeof, hn]⟩
  | .enum sub t p, hc => by
      cases sub <;> simp only [Con.fixed, Bool.false_eq_true] at hc
      case uint n le => exact ⟨n, by simp [Con.sizeof]⟩
      case sint n le => exact ⟨n, by simp [Con.sizeof]⟩
  | .struct fs, hc => by
      obtain ⟨s, hs⟩ := fixedF_sizeof fs (by simpa [Con.fixed] using hc)
      exact ⟨s, by rw [Con.sizeof]; exact hs⟩
  | .array e sub, hc => by
      have h : e.litNat?.isSome = true ∧ sub.fixed = true := by simpa [Con.fixed] using hc
      obtain ⟨n, hn⟩ := litNat?_isSome h.1
      obtain ⟨s, hs⟩ := fixed_sizeof sub h.2
      exact ⟨n * s, by simp [Con.sizeof, hn, hs]⟩
  | .value e, _ => ⟨0, by simp [Con.sizeof]⟩
  | .bits fs, _ => ⟨(fs.foldl (fun a f => a + f.width) 0 + 7) / 8, by simp [Con.sizeof]⟩
  | .uleb, hc => by simp [Con.fixed] at hc
  | .sleb, hc => by simp [Con.fixed] at hc
  | .cstring, hc => by simp [Con.fixed] at hc
  | .prefixed _ _, hc => by simp [Con.fixed] at hc
  | .repeatUntilExcl _ _, hc => by simp [Con.fixed] at hc
  | .ifThenElse _ _ _, hc => by simp [Con.fixed] at hc
  | .switch _ _ _, hc => by simp [Con.fixed] at hc
  | .noDefault, hc => by simp [Con.fixed] at hc
  | .streamOffset, hc => by simp [Con.fixed] at hc
  | .initialLength _, hc => by simp [Con.fixed] at hc
  | .formatted _, hc => by simp [Con.fixed] at hc
  | .unsupported _, hc => by simp [Con.fixed] at hc
theorem fixedF_sizeof : ∀ (fs : ConFields), fs.fixed = true → ∃ s, fs.sizeof = some s
  | .nil, _ => ⟨0, by simp [ConFields.sizeof]⟩
  | .cons name embed c rest, hc => by
      have h : (embed = false ∧ c.fixed = true) ∧ rest.fixed = true := by
        simpa [ConFields.fixed] using hc
      obtain ⟨a, ha⟩ := fixed_sizeof c h.1.2
      obtain ⟨b, hb⟩ := fixedF_sizeof rest h.2
      exact ⟨a + b, by simp [ConFields.sizeof, ha, hb]⟩
end

mutual
theorem el_con : ∀ (c : Con), c.fixed = true → EL c
  | .uint n le, _ => el_uint n le
  | .sint n le, _ => el_sint n le
  | .u24 le, _ => el_u24 le
  | .bytesN e, _ => el_bytesN e
  | .padding e strict, _ => el_padding e strict
  | .enum sub t p, hc => el_enum sub t p hc
  | .struct fs, hc => el_struct fs (el_fields fs (by simpa [Con.fixed] using hc))
  | .array e sub, hc => by
      have h : e.litNat?.isSome = true ∧ sub.fixed = true := by simpa [Con.fixed] using hc
      obtain ⟨s, hs⟩ := fixed_sizeof sub h.2
      exact el_array e sub s hs (el_con sub h.2)
  | .value e, _ => el_value e
  | .bits fs, _ => el_bits fs
  | .uleb, hc => by simp [Con.fixed] at hc
  | .sleb, hc => by simp [Con.fixed] at hc
  | .cstring, hc => by simp [Con.fixed] at hc
  | .prefixed _ _, hc => by simp [Con.fixed] at hc
  | .repeatUntilExcl _ _, hc => by simp [Con.fixed] at hc
  | .ifThenElse _ _ _, hc => by simp [Con.fixed] at hc
  | .switch _ _ _, hc => by simp [Con.fixed] at hc
  | .noDefault, hc => by simp [Con.fixed] at hc
  | .streamOffset, hc => by simp [Con.fixed] at hc
  | .initialLength _, hc => by simp [Con.fixed] at hc
  | .formatted _, hc => by simp [Con.fixed] at hc
  | .unsupported _, hc => by simp [Con.fixed] at hc
theorem el_fields : ∀ (fs : ConFields), fs.fixed = true → ELF fs
  | .nil, _ => elf_nil
  | .cons name embed c rest, hc =>
      have h : (embed = false ∧ c.fixed = true) ∧ rest.fixed = true := by
        simpa [ConFields.fixed] using hc
      elf_cons name embed c rest (el_con c h.1.2) (el_fields rest h.2)
end


/-! ### locality and truncation -/

theorem readN_length (data : Bytes) (pos n : Nat) :
    (readN data pos n).length = min n (data.length - pos) := by
  simp [readN]

theorem readN_add (data : Bytes) (pos a b : Nat) :
    readN data pos (a + b) = readN data pos a ++ readN data (pos + a) b := by
  simp only [readN]
  rw [List.take_add, List.drop_drop]

theorem readN_split {data data' : Bytes} {pos pos' a b : Nat}
    (h : readN data pos (a + b) = readN data' pos' (a + b))
    (hlen : (readN data pos (a + b)).length = a + b) :
    (readN data pos a = readN data' pos' a ∧ (readN data pos a).length = a) ∧
    (readN data (pos + a) b = readN data' (pos' + a) b ∧ (readN data (pos + a) b).length = b) := by
  have hlen' : (readN data' pos' (a + b)).length = a + b := by rw [← h]; exact hlen
  rw [readN_add] at h hlen hlen'
  rw [readN_add] at h
  rw [List.length_append] at hlen hlen'
  have l1 := readN_length data pos a
  have l2 := readN_length data (pos + a) b
  have l1' := readN_length data' pos' a
  have l2' := readN_length data' (pos' + a) b
  have e1 : (readN data pos a).length = a := by omega
  have e2 : (readN data (pos + a) b).length = b := by omega
  have e1' : (readN data' pos' a).length = a := by omega
  obtain ⟨h1, h2⟩ := List.append_inj h (by rw [e1, e1'])
  exact ⟨⟨h1, e1⟩, ⟨h2, e2⟩⟩

theorem readExact_of_len {data : Bytes} {pos n : Nat} (h : (readN data pos n).length = n) :
    readExact data pos n = .ok (readN data pos n) := by
  simp [readExact, h]

theorem readExact_trunc {data : Bytes} {pos n : Nat} (hn : 0 < n) (h : data.length < pos + n) :
    readExact data pos n = .error .elfParseError := by
  have := readN_length data pos n
  have hne : (readN data pos n).length ≠ n := by omega
  simp [readExact, hne]

/-- a construct that reads exactly `n` bytes and computes its value from them and the context -/
def Leaf (env : Env) (c : Con) (n : Nat) : Prop :=
  c.sizeof = some n ∧ ∃ g : Fields → Bytes → R Val, ∀ (data : Bytes) (ctx : Fields) (pos : Nat),
    Con.parse env data c ctx pos
      = ((readExact data pos n) >>= g ctx).map (fun v => (v, pos + n, ctx))

def LOC (env : Env) (c : Con) : Prop :=
  ∀ (n : Nat), c.sizeof = some n → ∀ (data data' : Bytes) (pos pos' : Nat) (ctx : Fields),
    readN data pos n = readN data' pos' n → (readN data pos n).length = n →
    ∃ r : R Val, Con.parse env data c ctx pos = r.map (fun v => (v, pos + n, ctx)) ∧
                 Con.parse env data' c ctx pos' = r.map (fun v => (v, pos' + n, ctx))

def LOCF (env : Env) (fs : ConFields) : Prop :=
  ∀ (n : Nat), fs.sizeof = some n → ∀ (data data' : Bytes) (pos pos' : Nat) (obj ctx : Fields),
    readN data pos n = readN data' pos' n → (readN data pos n).length = n →
    ∃ r : R (Fields × Fields),
      Con.parseFields env data fs obj ctx pos = r.map (fun oc => (oc.1, pos + n, oc.2)) ∧
      Con.parseFields env data' fs obj ctx pos' = r.map (fun oc => (oc.1, pos' + n, oc.2))

def TR (env : Env) (c : Con) : Prop :=
  ∀ (n : Nat), c.sizeof = some n → 0 < n → ∀ (data : Bytes) (pos : Nat) (ctx : Fields),
    data.length < pos + n → ∃ e, Con.parse env data c ctx pos = .error e

def TRF (env : Env) (fs : ConFields) : Prop :=
  ∀ (n : Nat), fs.sizeof = some n → 0 < n → ∀ (data : Bytes) (pos : Nat) (obj ctx : Fields),
    data.length < pos + n → ∃ e, Con.parseFields env data fs obj ctx pos = .error e

theorem loc_of_leaf {env : Env} {c : Con} {n : Nat} (h : Leaf env c n) : LOC env c := by
  obtain ⟨hs, g, hg⟩ := h
  intro n' hn' data data' pos pos' ctx hr hlen
  rw [hs] at hn'; cases hn'
  have hlen' : (readN data' pos' n).length = n := by rw [← hr]; exact hlen
  refine ⟨g ctx (readN data pos n), ?_, ?_⟩
  · rw [hg, readExact_of_len hlen]; rfl
  · rw [hg, readExact_of_len hlen', ← hr]; rfl

theorem tr_of_leaf {env : Env} {c : Con} {n : Nat} (h : Leaf env c n) : TR env c := by
  obtain ⟨hs, g, hg⟩ := h
  intro n' hn' hpos data pos ctx hlt
  rw [hs] at hn'; cases hn'
  exact ⟨.elfParseError, by rw [hg, readExact_trunc hpos hlt]; rfl⟩

theorem leaf_uint (env : Env) (n : Nat) (le : Bool) : Leaf env (.uint n le) n :=
  ⟨by simp [Con.sizeof], fun _ bs => .ok (.int (decNat le bs)), fun data ctx pos => by
    rw [Con.parse]; cases readExact data pos n <;> rfl⟩

theorem leaf_sint (env : Env) (n : Nat) (le : Bool) : Leaf env (.sint n le) n :=
  ⟨by simp [Con.sizeof], fun _ bs => .ok (.int (toSigned (8 * n) (decNat le bs))), fun data ctx pos => by
    rw [Con.parse]; cases readExact data pos n <;> rfl⟩

theorem leaf_u24 (env : Env) (le : Bool) : Leaf env (.u24 le) 3 :=
  ⟨by simp [Con.sizeof],
   fun _ bs => .ok (.int (
      (if le then (leNat (bs.take 2), leNat (bs.drop 2)) else (beNat (bs.drop 1), beNat (bs.take 1))).1
      ||| ((if le then (leNat (bs.take 2), leNat (bs.drop 2))
            else (beNat (bs.drop 1), beNat (bs.take 1))).2 <<< 16))),
   fun data ctx pos => by
    rw [Con.parse]; cases readExact data pos 3 <;> cases le <;> rfl⟩

theorem leaf_bytesN (env : Env) {e : Expr} {n : Nat} (hn : e.litNat? = some n) :
    Leaf env (.bytesN e) n :=
  ⟨by simp [Con.sizeof, hn], fun _ bs => .ok (.bytes bs), fun data ctx pos => by
    rw [parse_bytesN_lit env hn]; cases readExact data pos n <;> rfl⟩

theorem leaf_padding (env : Env) {e : Expr} {n : Nat} (hn : e.litNat? = some n) :
    Leaf env (.padding e false) n :=
  ⟨by simp [Con.sizeof, hn], fun _ bs => .ok (.bytes bs), fun data ctx pos => by
    rw [parse_padding_lit env hn]; cases readExact data pos n <;> rfl⟩

theorem leaf_value (env : Env) (e : Expr) : Leaf env (.value e) 0 :=
  ⟨by simp [Con.sizeof], fun ctx _ => e.eval ctx .none, fun data ctx pos => by
    have : readExact data pos 0 = .ok [] := by simp [readExact, readN]
    rw [Con.parse, this]
    simp only [bind, Except.bind]
    cases e.eval ctx .none <;> rfl⟩

theorem leaf_bits (env : Env) (fs : List BitFld) :
    Leaf env (.bits fs) ((fs.foldl (fun a f => a + f.width) 0 + 7) / 8) :=
  ⟨by simp [Con.sizeof],
   fun _ bs => do
     let obj ← splitBits env (beNat bs) (8 * ((fs.foldl (fun a f => a + f.width) 0 + 7) / 8)) fs []
     pure (.record obj),
   fun data ctx pos => by
    rw [Con.parse]
    cases readExact data pos ((fs.foldl (fun a f => a + f.width) 0 + 7) / 8) with
    | error e => rfl
    | ok bs =>
      simp only [bind, Except.bind]
      cases splitBits env (beNat bs) (8 * ((fs.foldl (fun a f => a + f.width) 0 + 7) / 8)) fs [] <;> rfl⟩

theorem leaf_enum (env : Env) (sub : Con) (t : String) (p : Bool) (n : Nat) (h : Leaf env sub n) :
    Leaf env (.enum sub t p) n := by
  obtain ⟨hs, g, hg⟩ := h
  refine ⟨by rw [Con.sizeof]; exact hs,
    fun ctx bs => g ctx bs >>= fun v =>
      match v with
      | .int n =>
        match env.enumDecode t n with
        | some s => .ok (.str s)
        | none => if p then .ok (.int n) else .error .elfParseError
      | _ => if p then .ok v else .error .elfParseError, ?_⟩
  intro data ctx pos
  rw [Con.parse, hg]
  cases readExact data pos n with
  | error e => rfl
  | ok bs =>
    simp only [bind, Except.bind]
    cases g ctx bs with
    | error e => rfl
    | ok v =>
      simp only [Except.map]
      cases v <;> simp only [pure, Except.pure]
      case int z => cases env.enumDecode t z <;> simp only <;> cases p <;> rfl
      all_goals cases p <;> rfl

theorem leaf_of_enum_fixed (env : Env) (sub : Con) (t : String) (p : Bool)
    (hc : (Con.enum sub t p).fixed = true) : ∃ n, Leaf env (.enum sub t p) n := by
  cases sub <;> simp only [Con.fixed, Bool.false_eq_true] at hc
  case uint n le => exact ⟨n, leaf_enum env _ t p n (leaf_uint env n le)⟩
  case sint n le => exact ⟨n, leaf_enum env _ t p n (leaf_sint env n le)⟩


theorem bind2_add_eq_some {x y : Option Nat} {n : Nat}
    (h : (do let a ← x; let b ← y; pure (a + b)) = some n) :
    ∃ a b, x = some a ∧ y = some b ∧ n = a + b := by
  cases x <;> cases y <;> simp at h ⊢
  exact h.symm

theorem bind2_mul_eq_some {x y : Option Nat} {n : Nat}
    (h : (do let a ← x; let b ← y; pure (a * b)) = some n) :
    ∃ a b, x = some a ∧ y = some b ∧ n = a * b := by
  cases x <;> cases y <;> simp at h ⊢
  exact h.symm

theorem loc_struct (env : Env) (fs : ConFields) (ih : LOCF env fs) : LOC env (.struct fs) := by
  intro n hn data data' pos pos' ctx hr hlen
  rw [Con.sizeof] at hn
  obtain ⟨r, e1, e2⟩ := ih n hn data data' pos pos' [] [] hr hlen
  refine ⟨r.map (fun oc => .record oc.1), ?_, ?_⟩
  · rw [Con.parse, e1]; cases r <;> rfl
  · rw [Con.parse, e2]; cases r <;> rfl

theorem locf_nil (env : Env) : LOCF env .nil := by
  intro n hn data data' pos pos' obj ctx _ _
  simp [ConFields.sizeof] at hn
  subst hn
  exact ⟨.ok (obj, ctx), by simp [Con.parseFields, Except.map], by simp [Con.parseFields, Except.map]⟩

theorem locf_cons (env : Env) (name : Option String) (c : Con) (fs : ConFields)
    (ihc : LOC env c) (ihf : LOCF env fs) : LOCF env (.cons name false c fs) := by
  intro n hn data data' pos pos' obj ctx hr hlen
  rw [ConFields.sizeof] at hn
  obtain ⟨a, b, ha, hb, rfl⟩ := bind2_add_eq_some hn
  obtain ⟨⟨h1, l1⟩, ⟨h2, l2⟩⟩ := readN_split hr hlen
  obtain ⟨r1, e1, e1'⟩ := ihc a ha data data' pos pos' ctx h1 l1
  rw [Con.parseFields, Con.parseFields]
  simp only [Bool.false_eq_true, if_false, bind, Except.bind]
  rw [e1, e1']
  cases r1 with
  | error e => exact ⟨.error e, rfl, rfl⟩
  | ok v =>
    simp only [Except.map]
    cases name with
    | none =>
      obtain ⟨r2, e2, e2'⟩ := ihf b hb data data' (pos + a) (pos' + a) obj ctx h2 l2
      rw [Nat.add_assoc] at e2 e2'
      exact ⟨r2, e2, e2'⟩
    | some nm =>
      obtain ⟨r2, e2, e2'⟩ := ihf b hb data data' (pos + a) (pos' + a)
        (Fields.set obj nm v) (Fields.set ctx nm v) h2 l2
      rw [Nat.add_assoc] at e2 e2'
      exact ⟨r2, e2, e2'⟩

theorem loc_list (env : Env) (sub : Con) (s : Nat) (hs : sub.sizeof = some s) (ih : LOC env sub) :
    ∀ (k : Nat) (data data' : Bytes) (pos pos' : Nat) (ctx : Fields) (acc : List Val),
      readN data pos (k * s) = readN data' pos' (k * s) → (readN data pos (k * s)).length = k * s →
      ∃ r : R (List Val),
        arrayLoop (fun p c => Con.parse env data sub c p) k pos ctx acc
          = r.map (fun ys => (.list (acc.reverse ++ ys), pos + k * s, ctx)) ∧
        arrayLoop (fun p c => Con.parse env data' sub c p) k pos' ctx acc
          = r.map (fun ys => (.list (acc.reverse ++ ys), pos' + k * s, ctx)) := by
  intro k
  induction k with
  | zero =>
    intro data data' pos pos' ctx acc _ _
    exact ⟨.ok [], by simp [arrayLoop, Except.map], by simp [arrayLoop, Except.map]⟩
  | succ k ihk =>
    intro data data' pos pos' ctx acc hr hlen
    have hk : (k + 1) * s = s + k * s := by rw [Nat.succ_mul, Nat.add_comm]
    rw [hk] at hr hlen ⊢
    obtain ⟨⟨h1, l1⟩, ⟨h2, l2⟩⟩ := readN_split hr hlen
    obtain ⟨r1, e1, e1'⟩ := ih s hs data data' pos pos' ctx h1 l1
    rw [arrayLoop, arrayLoop, e1, e1']
    cases r1 with
    | error e => exact ⟨.error e, rfl, rfl⟩
    | ok v =>
      simp only [Except.map]
      obtain ⟨r2, e2, e2'⟩ := ihk data data' (pos + s) (pos' + s) ctx (v :: acc) h2 l2
      refine ⟨r2.map (v :: ·), ?_, ?_⟩
      · rw [e2]; cases r2 <;> simp [Except.map, Nat.add_assoc]
      · rw [e2']; cases r2 <;> simp [Except.map, Nat.add_assoc]

theorem loc_array (env : Env) (e : Expr) (sub : Con) (ih : LOC env sub) : LOC env (.array e sub) := by
  intro n hn data data' pos pos' ctx hr hlen
  rw [Con.sizeof] at hn
  obtain ⟨k, s, hk, hs, rfl⟩ := bind2_mul_eq_some hn
  obtain ⟨r, e1, e2⟩ := loc_list env sub s hs ih k data data' pos pos' ctx [] hr hlen
  refine ⟨r.map .list, ?_, ?_⟩
  · rw [parse_array_lit env hk, e1]; cases r <;> simp [Except.map]
  · rw [parse_array_lit env hk, e2]; cases r <;> simp [Except.map]

theorem tr_struct (env : Env) (fs : ConFields) (ih : TRF env fs) : TR env (.struct fs) := by
  intro n hn hpos data pos ctx hlt
  rw [Con.sizeof] at hn
  obtain ⟨e, he⟩ := ih n hn hpos data pos [] [] hlt
  exact ⟨e, by rw [Con.parse, he]; rfl⟩

theorem trf_nil (env : Env) : TRF env .nil := by
  intro n hn hpos
  simp [ConFields.sizeof] at hn
  omega

theorem trf_cons (env : Env) (name : Option String) (c : Con) (fs : ConFields)
    (locc : LOC env c) (trc : TR env c) (trf : TRF env fs) : TRF env (.cons name false c fs) := by
  intro n hn hpos data pos obj ctx hlt
  rw [ConFields.sizeof] at hn
  obtain ⟨a, b, ha, hb, rfl⟩ := bind2_add_eq_some hn
  have hl := readN_length data pos a
  rw [Con.parseFields]
  simp only [Bool.false_eq_true, if_false, bind, Except.bind]
  by_cases hfit : (readN data pos a).length = a
  · obtain ⟨r1, e1, -⟩ := locc a ha data data pos pos ctx rfl hfit
    rw [e1]
    cases r1 with
    | error e => exact ⟨e, rfl⟩
    | ok v =>
      have hb0 : 0 < b := by omega
      simp only [Except.map]
      cases name with
      | none => exact trf b hb hb0 data (pos + a) _ _ (by omega)
      | some nm => exact trf b hb hb0 data (pos + a) _ _ (by omega)
  · obtain ⟨e, he⟩ := trc a ha (by omega) data pos ctx (by omega)
    exact ⟨e, by rw [he]⟩

theorem tr_list (env : Env) (sub : Con) (s : Nat) (hs : sub.sizeof = some s) (hs0 : 0 < s)
    (locs : LOC env sub) (trs : TR env sub) :
    ∀ (k : Nat), 0 < k → ∀ (data : Bytes) (pos : Nat) (ctx : Fields) (acc : List Val),
      data.length < pos + k * s →
      ∃ e, arrayLoop (fun p c => Con.parse env data sub c p) k pos ctx acc = .error e := by
  intro k
  induction k with
  | zero => intro h; omega
  | succ k ihk =>
    intro _ data pos ctx acc hlt
    have hk : (k + 1) * s = s + k * s := by rw [Nat.succ_mul, Nat.add_comm]
    rw [hk] at hlt
    have hl := readN_length data pos s
    rw [arrayLoop]
    by_cases hfit : (readN data pos s).length = s
    · obtain ⟨r1, e1, -⟩ := locs s hs data data pos pos ctx rfl hfit
      rw [e1]
      cases r1 with
      | error e => exact ⟨e, rfl⟩
      | ok v =>
        simp only [Except.map]
        cases k with
        | zero => omega
        | succ j => exact ihk (by omega) data (pos + s) ctx _ (by omega)
    · obtain ⟨e, he⟩ := trs s hs hs0 data pos ctx (by omega)
      exact ⟨e, by rw [he]⟩

theorem tr_array (env : Env) (e : Expr) (sub : Con) (locs : LOC env sub) (trs : TR env sub) :
    TR env (.array e sub) := by
  intro n hn hpos data pos ctx hlt
  rw [Con.sizeof] at hn
  obtain ⟨k, s, hk, hs, rfl⟩ := bind2_mul_eq_some hn
  have hk0 : 0 < k := Nat.pos_of_mul_pos_right hpos
  have hs0 : 0 < s := Nat.pos_of_mul_pos_left hpos
  rw [parse_array_lit env hk]
  exact tr_list env sub s hs hs0 locs trs k hk0 data pos ctx [] hlt


mutual
theorem loc_con (env : Env) : ∀ (c : Con), c.fixed = true → LOC env c
  | .uint n le, _ => loc_of_leaf (leaf_uint env n le)
  | .sint n le, _ => loc_of_leaf (leaf_sint env n le)
  | .u24 le, _ => loc_of_leaf (leaf_u24 env le)
  | .bytesN e, hc => by
      obtain ⟨n, hn⟩ := litNat?_isSome (e := e) (by simpa [Con.fixed] using hc)
      exact loc_of_leaf (leaf_bytesN env hn)
  | .padding e strict, hc => by
      have h : e.litNat?.isSome = true ∧ strict = false := by simpa [Con.fixed] using hc
      obtain ⟨n, hn⟩ := litNat?_isSome h.1
      obtain ⟨-, rfl⟩ := h
      exact loc_of_leaf (leaf_padding env hn)
  | .enum sub t p, hc => by
      obtain ⟨n, h⟩ := leaf_of_enum_fixed env sub t p hc
      exact loc_of_leaf h
  | .struct fs, hc => loc_struct env fs (loc_fields env fs (by simpa [Con.fixed] using hc))
  | .array e sub, hc =>
      have h : e.litNat?.isSome = true ∧ sub.fixed = true := by simpa [Con.fixed] using hc
      loc_array env e sub (loc_con env sub h.2)
  | .value e, _ => loc_of_leaf (leaf_value env e)
  | .bits fs, _ => loc_of_leaf (leaf_bits env fs)
  | .uleb, hc => by simp [Con.fixed] at hc
  | .sleb, hc => by simp [Con.fixed] at hc
  | .cstring, hc => by simp [Con.fixed] at hc
  | .prefixed _ _, hc => by simp [Con.fixed] at hc
  | .repeatUntilExcl _ _, hc => by simp [Con.fixed] at hc
  | .ifThenElse _ _ _, hc => by simp [Con.fixed] at hc
  | .switch _ _ _, hc => by simp [Con.fixed] at hc
  | .noDefault, hc => by simp [Con.fixed] at hc
  | .streamOffset, hc => by simp [Con.fixed] at hc
  | .initialLength _, hc => by simp [Con.fixed] at hc
  | .formatted _, hc => by simp [Con.fixed] at hc
  | .unsupported _, hc => by simp [Con.fixed] at hc
theorem loc_fields (env : Env) : ∀ (fs : ConFields), fs.fixed = true → LOCF env fs
  | .nil, _ => locf_nil env
  | .cons name embed c rest, hc => by
      have h : (embed = false ∧ c.fixed = true) ∧ rest.fixed = true := by
        simpa [ConFields.fixed] using hc
      obtain ⟨⟨rfl, h2⟩, h3⟩ := h
      exact locf_cons env name c rest (loc_con env c h2) (loc_fields env rest h3)
end

mutual
theorem tr_con (env : Env) : ∀ (c : Con), c.fixed = true → TR env c
  | .uint n le, _ => tr_of_leaf (leaf_uint env n le)
  | .sint n le, _ => tr_of_leaf (leaf_sint env n le)
  | .u24 le, _ => tr_of_leaf (leaf_u24 env le)
  | .bytesN e, hc => by
      obtain ⟨n, hn⟩ := litNat?_isSome (e := e) (by simpa [Con.fixed] using hc)
      exact tr_of_leaf (leaf_bytesN env hn)
  | .padding e strict, hc => by
      have h : e.litNat?.isSome = true ∧ strict = false := by simpa [Con.fixed] using hc
      obtain ⟨n, hn⟩ := litNat?_isSome h.1
      obtain ⟨-, rfl⟩ := h
      exact tr_of_leaf (leaf_padding env hn)
  | .enum sub t p, hc => by
      obtain ⟨n, h⟩ := leaf_of_enum_fixed env sub t p hc
      exact tr_of_leaf h
  | .struct fs, hc => tr_struct env fs (tr_fields env fs (by simpa [Con.fixed] using hc))
  | .array e sub, hc =>
      have h : e.litNat?.isSome = true ∧ sub.fixed = true := by simpa [Con.fixed] using hc
      tr_array env e sub (loc_con env sub h.2) (tr_con env sub h.2)
  | .value e, _ => tr_of_leaf (leaf_value env e)
  | .bits fs, _ => tr_of_leaf (leaf_bits env fs)
  | .uleb, hc => by simp [Con.fixed] at hc
  | .sleb, hc => by simp [Con.fixed] at hc
  | .cstring, hc => by simp [Con.fixed] at hc
  | .prefixed _ _, hc => by simp [Con.fixed] at hc
  | .repeatUntilExcl _ _, hc => by simp [Con.fixed] at hc
  | .ifThenElse _ _ _, hc => by simp [Con.fixed] at hc
  | .switch _ _ _, hc => by simp [Con.fixed] at hc
  | .noDefault, hc => by simp [Con.fixed] at hc
  | .streamOffset, hc => by simp [Con.fixed] at hc
  | .initialLength _, hc => by simp [Con.fixed] at hc
  | .formatted _, hc => by simp [Con.fixed] at hc
  | .unsupported _, hc => by simp [Con.fixed] at hc
theorem tr_fields (env : Env) : ∀ (fs : ConFields), fs.fixed = true → TRF env fs
  | .nil, _ => trf_nil env
  | .cons name embed c rest, hc => by
      have h : (embed = false ∧ c.fixed = true) ∧ rest.fixed = true := by
        simpa [ConFields.fixed] using hc
      obtain ⟨⟨rfl, h2⟩, h3⟩ := h
      exact trf_cons env name c rest (loc_con env c h2) (tr_con env c h2) (tr_fields env rest h3)
end

/-- THE generic theorem (used by C01, C02, C03, C08, C09, C14, C15 struct round trips) -/
theorem parse_encodeRaw (env : Env) (c : Con) (hc : c.fixed = true) (raw : Val) (bs : Bytes)
    (he : c.encodeRaw raw = some bs) (pre rest : Bytes) (ctx : Fields) :
    Con.parse env (pre ++ bs ++ rest) c ctx pre.length
      = (c.decodeRaw env ctx raw).map (fun v => (v, pre.length + bs.length, ctx)) :=
  rt_con env c hc raw bs he (pre ++ bs ++ rest) pre.length rest ctx (drop_pre _ _ _)

/-- the encoding of a fixed-shape construct has the length `.sizeof()` reports -/
theorem encodeRaw_length (c : Con) (hc : c.fixed = true) (raw : Val) (bs : Bytes)
    (he : c.encodeRaw raw = some bs) : c.sizeof = some bs.length :=
  el_con c hc raw bs he

/-- parsing a fixed-shape construct only looks at its own extent: it succeeds with the same
    value on any byte string that agrees with `data` on `[pos, pos + size)` -/
theorem parse_fixed_local (env : Env) (c : Con) (hc : c.fixed = true) (n : Nat) (hn : c.sizeof = some n)
    (data data' : Bytes) (pos pos' : Nat) (ctx : Fields)
    (h : readN data pos n = readN data' pos' n) (hlen : (readN data pos n).length = n) :
    (Con.parse env data c ctx pos).map (fun r => (r.1, r.2.1 - pos, r.2.2))
      = (Con.parse env data' c ctx pos').map (fun r => (r.1, r.2.1 - pos', r.2.2)) := by
  obtain ⟨r, e1, e2⟩ := loc_con env c hc n hn data data' pos pos' ctx h hlen
  rw [e1, e2]
  cases r <;> simp [Except.map]

/-- `parse_fixed_truncated` is false as stated: a zero-size construct placed beyond the end of
    the data (`pos > data.length`) still parses.  Counterexample: `Value(lambda ctx: 0)`,
    `data = []`, `pos = 1`. -/
theorem parse_fixed_truncated_false :
    ¬ (∀ (env : Env) (c : Con) (_ : c.fixed = true) (n : Nat) (_ : c.sizeof = some n)
        (data : Bytes) (pos : Nat) (ctx : Fields) (_ : data.length < pos + n),
        ∃ e, Con.parse env data c ctx pos = .error e) := by
  intro h
  obtain ⟨e, he⟩ := h Env.empty (.value (.lit 0)) (by simp [Con.fixed]) 0 (by simp [Con.sizeof])
    [] 1 [] (by simp)
  simp [Con.parse, Expr.eval, bind, Except.bind, pure, Except.pure] at he


/-- corrected statement: the extent must be non-empty -/
theorem parse_fixed_truncated' (env : Env) (c : Con) (hc : c.fixed = true) (n : Nat)
    (hn : c.sizeof = some n) (hpos : 0 < n)
    (data : Bytes) (pos : Nat) (ctx : Fields) (h : data.length < pos + n) :
    ∃ e, Con.parse env data c ctx pos = .error e :=
  tr_con env c hc n hn hpos data pos ctx h


/-- the same with the hypothesis "the construct starts inside the data" -/
theorem parse_fixed_truncated_of_le (env : Env) (c : Con) (hc : c.fixed = true) (n : Nat)
    (hn : c.sizeof = some n) (data : Bytes) (pos : Nat) (ctx : Fields)
    (hpos : pos ≤ data.length) (h : data.length < pos + n) :
    ∃ e, Con.parse env data c ctx pos = .error e :=
  parse_fixed_truncated' env c hc n hn (by omega) data pos ctx h

end PyElf.Proofs
