/-
  C03 helper lemmas (fifth wave, task 1): what `ELFFile.get_section(n)` does for a symbol table / syminfo /
  hash section whose `sh_link` does NOT designate a table of the required type — for every description.

  C01's `WfFacts` (Proofs/ElfFile.lean) demands that EVERY section be interpretable (`secOkZ`), so the
  lemmas about reading headers and names that take a `WfFacts` cannot be applied to a description with
  one bad link.  `CoreFacts` is `WfFacts` without that clause (the unpacked `Spec.C03.wfZCore`); the few
  container lemmas needed (`sectionOffset`, `getSectionHeader`, `getShstrndx`, `openElf`,
  `getSectionName`) are re-derived from it here, the proofs following those in Proofs/ElfFile.lean.
-/
import PyElf.Proofs.ElfFile
import PyElf.Proofs.ElfErrors
import PyElf.Proofs.GnuVersionsFile
import PyElf.Model.SymbolsFile
import PyElf.Spec.SymbolsFile
namespace PyElf.Proofs.C03L
open PyElf PyElf.Spec PyElf.Spec.C03 PyElf.Model PyElf.Model.C03 PyElf.Model.C15 PyElf.Proofs
open PyElf.Proofs.C15 (fileOf)

/-! ### the container facts that survive a bad link -/

structure CoreFacts (env : Env) (d : ElfDesc) : Prop where
  cls : d.cls = 32 ∨ d.cls = 64
  cfg : d.cfgOk env = true
  disj : ∃ rs, d.regions = some rs ∧ regionsDisjoint (sortRegions rs) = true
  esc : d.escapesOk = true
  names : d.namesOk = true
  shent : d.sections.length = 0 ∨ d.S.Elf_Shdr.sizeof.getD 0 ≤ d.shentsize
  shbound : d.shoff + d.sections.length * d.shentsize < 2 ^ 63
  shpos : d.sections.length = 0 ∨ (0 < d.shoff ∧ d.shstrndx < d.sections.length)
  nameoff : d.shstrndx ≠ 0 → ∀ st, d.sections[d.shstrndx]? = some st →
    ∀ s ∈ d.sections, getNatD st.hdr "sh_offset" + s.nameOff < 2 ^ 63
  dec : ∀ i, i < d.sections.length → ∃ h, d.decHdr env i = some h
  shstr : d.sections.length = 0 ∨ d.secOkZ env 4 d.shstrndx = true

theorem wfZCore_facts {env : Env} {d : ElfDesc} (h : wfZCore env d = true) : CoreFacts env d := by
  unfold wfZCore at h
  simp only [Bool.and_eq_true, Bool.or_eq_true, beq_iff_eq, decide_eq_true_eq, List.all_eq_true,
    List.mem_range, bne_iff_ne, ne_eq] at h
  obtain ⟨⟨⟨⟨⟨⟨⟨⟨⟨⟨⟨⟨⟨⟨⟨⟨⟨h1, h2⟩, h3⟩, h4⟩, h5⟩, h6⟩, h7⟩, h8⟩, h9⟩, h10⟩, h11⟩, h12⟩, h13⟩, h14⟩, h15⟩, h16⟩, h17⟩, h18⟩ := h
  refine ⟨h1, h3, ?_, h5, h6, h7, h9, h13, ?_, ?_, h17⟩
  · cases hr : d.regions with
    | none => simp [hr] at h4
    | some rs => exact ⟨rs, rfl, by simpa [hr] using h4⟩
  · intro hnz st hst s hs
    rcases h15 with h15 | h15
    · exact absurd h15 hnz
    · rw [hst] at h15
      simp only [List.all_eq_true, decide_eq_true_eq] at h15
      exact h15 s hs
  · intro i hi
    have := h16 i hi
    cases hd : d.decHdr env i with
    | none => simp [hd] at this
    | some hv => exact ⟨hv, rfl⟩

/-- every well-formed description is in the relaxed domain -/
theorem wfZ_imp_wfZCore {env : Env} {d : ElfDesc} (h : d.wfZ env = true) : wfZCore env d = true := by
  unfold ElfDesc.wfZ at h
  unfold wfZCore
  simp only [Bool.and_eq_true, List.all_eq_true, List.mem_range] at h ⊢
  obtain ⟨⟨h1, h16⟩, h17⟩ := h
  refine ⟨⟨⟨h1, ?_⟩, ?_⟩, h17⟩
  · intro i hi
    obtain ⟨_, _, hd, _, _, hdec, _⟩ := secOkZ_unpack (h16 i hi)
    simp [hdec]
  · by_cases hn : d.sections.length = 0
    · simp [hn]
    · have hlt : d.shstrndx < d.sections.length := by
        have h13 := h1.1.1.2
        simp only [Bool.or_eq_true, beq_iff_eq, Bool.and_eq_true, decide_eq_true_eq] at h13
        rcases h13 with h | h
        · exact absurd h hn
        · exact h.2
      simp [h16 _ hlt]

/-- the Spec assembler's image of a description in the relaxed domain carries it (the proof of C01's
    `assemble_layout_gen` uses nothing but the disjointness of the regions) -/
theorem assemble_layout_core {env : Env} {d : ElfDesc} {tail : Nat} {bytes : Bytes}
    (hwf : wfZCore env d = true) (h : d.assemble tail = some bytes) : Layout d bytes := by
  obtain ⟨rs, hrs, hdisj⟩ := (wfZCore_facts hwf).disj
  unfold ElfDesc.assemble at h
  simp only [hrs, Option.bind_eq_bind, Option.bind_some, Option.pure_def, Option.some.injEq] at h
  subst h
  refine ⟨rs, hrs, ?_⟩
  intro r hr
  have hmem : r ∈ sortRegions rs := by
    unfold sortRegions
    exact (List.mergeSort_perm rs _).mem_iff.2 hr
  apply readN_append_right_pad
  exact layOut_reads (sortRegions rs) [] hdisj (fun _ _ => Nat.zero_le _) r hmem

section core
variable {env : Env} {d : ElfDesc} {bytes : Bytes} {hdr : Val}

theorem core_sec (C : CoreFacts env d) (hL : LayoutFacts d bytes) {i : Nat} (hi : i < d.sections.length) :
    ∃ h, d.decHdr env i = some h ∧ SecFacts (d.sections[i]) h := by
  obtain ⟨h, hdec⟩ := C.dec i hi
  obtain ⟨_, hdd⟩ := decHdr_some hdec
  obtain ⟨b, hb, -⟩ := hL.shdr i hi
  exact ⟨h, hdec, sec_facts hb hdd⟩

theorem sectionOffset_okC (C : CoreFacts env d) (hf : HdrFacts d hdr) (i : Nat) :
    sectionOffset d.S hdr i = .ok ((if d.sections.length = 0 then 0 else d.shoff) + i * d.shentsize) := by
  unfold sectionOffset
  have hsz : sizeofR d.S.Elf_Shdr = .ok (16 + 6 * (d.cls / 8)) := by
    unfold sizeofR; rw [dS_shdr_sizeof]
  simp only [hf.shentsize, hf.shoff, hsz, bind, Except.bind]
  by_cases hn : d.sections.length = 0
  · simp [hn, pure, Except.pure]
  · have := C.shent
    rw [dS_shdr_sizeof] at this
    simp only [Option.getD_some] at this
    have hlt : ¬ d.shentsize < 16 + 6 * (d.cls / 8) := by
      rcases this with h | h
      · exact absurd h hn
      · omega
    simp [hn, hlt, pure, Except.pure]

theorem getSectionHeader_okC (C : CoreFacts env d) (hL : LayoutFacts d bytes) (hf : HdrFacts d hdr)
    {i : Nat} {h : Val} (hd : d.decHdr env i = some h) :
    getSectionHeader env d.S bytes hdr i = .ok (some h) := by
  obtain ⟨hi, hdec⟩ := decHdr_some hd
  obtain ⟨b, hb, hr⟩ := hL.shdr i hi
  have hn : d.sections.length ≠ 0 := by omega
  have hlen : b.length = 16 + 6 * (d.cls / 8) := by
    have := encodeRaw_length _ (dS_shdr_fixed d) _ _ hb
    rw [dS_shdr_sizeof] at this
    simp only [Option.some.injEq] at this
    exact this.symm
  have hle : d.shoff + i * d.shentsize + b.length ≤ bytes.length := by
    rcases readN_le_length hr with h0 | h0
    · rw [h0] at hlen; simp at hlen; omega
    · exact h0
  have hpos : d.shoff + i * d.shentsize < 2 ^ 63 := by
    have := C.shbound
    have : i * d.shentsize ≤ d.sections.length * d.shentsize := Nat.mul_le_mul_right _ (by omega)
    omega
  unfold getSectionHeader
  rw [sectionOffset_okC C hf]
  simp only [hn, if_false, bind, Except.bind]
  have hgt : ¬ d.shoff + i * d.shentsize > bytes.length := by omega
  simp only [hgt, if_false]
  rw [structParseAt_layout env _ (dS_shdr_fixed d) _ b hb bytes _ hr hpos, hdec]
  rfl

/-- `_get_section_header(l)` for an entry that starts beyond the end of the stream: `None` -/
theorem getSectionHeader_beyond (C : CoreFacts env d) (hf : HdrFacts d hdr) (hn : 0 < d.sections.length)
    {l : Nat} (hb : bytes.length < d.shoff + l * d.shentsize) :
    getSectionHeader env d.S bytes hdr l = .ok none := by
  unfold getSectionHeader
  rw [sectionOffset_okC C hf]
  have hn' : ¬ d.sections.length = 0 := by omega
  simp only [hn', if_false, bind, Except.bind]
  have : d.shoff + l * d.shentsize > bytes.length := hb
  simp [this, pure, Except.pure]

/-- `_get_section_header(l)` for an entry that starts inside the stream but does not fit: ELFParseError -/
theorem getSectionHeader_truncated (C : CoreFacts env d) (hf : HdrFacts d hdr) (hn : 0 < d.sections.length)
    {l : Nat} (h1 : d.shoff + l * d.shentsize ≤ bytes.length)
    (h2 : bytes.length < d.shoff + l * d.shentsize + (16 + 6 * (d.cls / 8))) :
    getSectionHeader env d.S bytes hdr l = .error .elfParseError := by
  unfold getSectionHeader
  rw [sectionOffset_okC C hf]
  have hn' : ¬ d.sections.length = 0 := by omega
  simp only [hn', if_false, bind, Except.bind]
  have : ¬ d.shoff + l * d.shentsize > bytes.length := by omega
  simp only [this, if_false]
  have hS : d.S.Elf_Shdr = (elfStructs d.cfg).Elf_Shdr := rfl
  cases hp : structParseAt env d.S.Elf_Shdr bytes (d.shoff + l * d.shentsize) with
  | error e =>
    have := ElfErrors.structParseAt_only (env := env) (ElfErrors.shdr_tame d.cfg false) bytes
      (d.shoff + l * d.shentsize) e (by rw [← hS]; exact hp)
    rw [ElfErrors.tameErr_false this]
  | ok r =>
    exfalso
    unfold structParseAt at hp
    by_cases hbig : d.shoff + l * d.shentsize ≥ 2 ^ 63
    · simp [hbig, bind, Except.bind, throw, throwThe, MonadExceptOf.throw] at hp
    · simp only [hbig, if_false] at hp
      obtain ⟨e, he⟩ := parse_fixed_truncated' env d.S.Elf_Shdr (dS_shdr_fixed d) _ (dS_shdr_sizeof d) (by omega)
        bytes (d.shoff + l * d.shentsize) [] h2
      unfold structParse at hp
      rw [he] at hp
      simp [bind, Except.bind] at hp

theorem getShstrndx_okC (C : CoreFacts env d) (hL : LayoutFacts d bytes) (hf : HdrFacts d hdr) :
    getShstrndx env d.S bytes hdr = .ok d.shstrndx := by
  unfold getShstrndx
  rw [hf.shstrndx]
  simp only [bind, Except.bind]
  by_cases hx : (d.xShstrndx || decide (d.shstrndx ≥ 0xff00)) = true
  · obtain ⟨s0, hs0, hlink⟩ := (esc_facts C.esc).shstrndx hx
    obtain ⟨h0, rfl⟩ := List.getElem?_eq_some_iff.1 hs0
    obtain ⟨h, hdec, hsf⟩ := core_sec C hL h0
    simp only [hx, if_true]
    rw [getSectionHeader_okC C hL hf hdec]
    simp only [bne_self_eq_false, Bool.false_eq_true, if_false]
    rw [hsf.nat "sh_link" (by simp [shdrNatKeys]), hsf.raw "sh_link" (by simp [shdrNatKeys]) (by decide), hlink]
  · simp only [hx, Bool.false_eq_true, if_false]
    have : d.shstrndx < 0xff00 := by
      simp only [Bool.or_eq_true, decide_eq_true_eq, not_or] at hx
      omega
    have hne : (d.shstrndx != 0xffff) = true := by
      simp only [bne_iff_ne, ne_eq]; omega
    simp [hne, pure, Except.pure]

/-- `ELFFile(stream)` on a description in the relaxed domain -/
theorem openElf_okC (C : CoreFacts env d) (hL : LayoutFacts d bytes)
    (hd : d.S.Elf_Ehdr.decodeRaw env [] d.ehdrRaw = .ok hdr) (hn : 0 < d.sections.length) :
    ∃ st, ShstrOk env d st ∧ HdrFacts d hdr ∧
      openElf env specSF specMC bytes = .ok (fileOf d bytes hdr st) := by
  obtain ⟨eh, he, hr⟩ := hL.ehdr
  have hf := hdr_facts he hd
  obtain ⟨p, hp⟩ := parse_ehdr_ok hL hd
  have hS : elfStructs d.cfg = d.S := rfl
  by_cases hz : d.shstrndx = 0
  · -- no name table (`e_shstrndx` = SHN_UNDEF): section 0 is not read
    refine ⟨none, Or.inl ⟨hz, rfl⟩, hf, ?_⟩
    unfold openElf
    rw [identify_ok C.cls he hr]
    simp only [bind, Except.bind, specSF, hp, cfgOfHeader_ok hd C.cfg hf]
    rw [hS, getShstrndx_okC C hL hf, hz]
    rfl
  · have hok : d.secOkZ env 4 d.shstrndx = true := by
      rcases C.shstr with h | h
      · omega
      · exact h
    obtain ⟨_, st, _, _, hdec, hsf, hinit, _⟩ := sec_bundle C.cls hL hok
    refine ⟨some st, Or.inr ⟨hz, st, rfl, hdec⟩, hf, ?_⟩
    have hne : (d.shstrndx == 0) = false := by simpa using hz
    unfold openElf
    rw [identify_ok C.cls he hr]
    simp only [bind, Except.bind, specSF, hp, cfgOfHeader_ok hd C.cfg hf]
    rw [hS, getShstrndx_okC C hL hf]
    simp only [hne, Bool.false_eq_true, if_false, getSectionHeader_okC C hL hf hdec, hinit]
    rfl

theorem getSectionName_okC {shstr : Option Val} (C : CoreFacts env d) (hL : LayoutFacts d bytes)
    (hf : HdrFacts d hdr) (hst : ShstrOk env d shstr) {i : Nat} (hi : i < d.sections.length) {h : Val}
    (hsf : SecFacts (d.sections[i]) h) :
    getSectionName env d.S bytes hdr shstr (some h) = .ok (d.sections[i]).name := by
  rcases hst with ⟨hz, rfl⟩ | ⟨hnz, st, rfl, hst⟩
  · -- no name table: the empty name
    rw [names_empty C.names hz _ (List.getElem_mem hi)]
    unfold getSectionName
    simp only [getShstrndx_okC C hL hf, hz, bind, Except.bind]
    rfl
  obtain ⟨hlt, body, hbody, hall⟩ := (name_facts C.names (by omega) hnz).ok
  obtain ⟨_, hstd⟩ := decHdr_some hst
  obtain ⟨b, hb, -⟩ := hL.shdr _ hlt
  have hstf := sec_facts hb hstd
  have hread := hL.body _ (List.getElem_mem hlt) body hbody
  have hname := hall _ (List.getElem_mem hi)
  have hoff := C.nameoff hnz _ (List.getElem?_eq_getElem hlt) _ (List.getElem_mem hi)
  unfold getSectionName subscript
  have h1 : (do let x ← h.getField "sh_name"; x.asNat) = h.getNat "sh_name" := rfl
  simp only [bind, Except.bind] at h1 ⊢
  have hnm := hsf.nat "sh_name" (by simp [shdrNatKeys])
  rw [hsf.name] at hnm
  simp only [Val.getNat, bind, Except.bind] at hnm
  cases hg : h.getField "sh_name" with
  | error e => simp [hg] at hnm
  | ok x =>
    simp only [hg] at hnm ⊢
    rw [hnm]
    simp only
    unfold getString
    rw [hstf.nat "sh_offset" (by simp [shdrNatKeys]),
      hstf.raw "sh_offset" (by simp [shdrNatKeys]) (by decide)]
    simp only [bind, Except.bind]
    unfold parseCStringAt seekCheck
    have : ¬ (getNatD (d.sections[d.shstrndx]).hdr "sh_offset" + (d.sections[i]).nameOff ≥ 2 ^ 63) := by omega
    simp only [this, if_false, bind, Except.bind]
    rw [Proofs.parseCStringFromStream_eq]
    have hd := drop_of_readN hread
    rw [← List.drop_drop, hd, List.drop_append, firstNul_append_of_some _ hname]
    rfl

end core

/-! ### the link guards, outcome by outcome (for every byte string and header) -/

section guards
variable {env : Env} {S : ElfStructs} {data : Bytes} {hdr : Val} {shstr : Option Val} {fuel : Nat} {link : Nat}

theorem linkedStrtabR_err {e : Err} (hget : getSectionHeader env S data hdr link = .error e) :
    linkedStrtabR env S data hdr shstr fuel link = .error e := by
  simp [linkedStrtabR, hget, bind, Except.bind]

/-- `_get_section_header` answered `None`: `section_header['sh_type']` raises TypeError -/
theorem linkedStrtabR_none (hget : getSectionHeader env S data hdr link = .ok none) :
    linkedStrtabR env S data hdr shstr fuel link = .error .typeError := by
  simp [linkedStrtabR, hget, subscript, bind, Except.bind]

/-- the header found at `sh_link` is not SHT_STRTAB: ELFError, before anything else is looked at -/
theorem linkedStrtabR_wrongType {lh t' : Val} (hget : getSectionHeader env S data hdr link = .ok (some lh))
    (hty : lh.getField "sh_type" = .ok t') (hbad : isStr t' "SHT_STRTAB" = false) :
    linkedStrtabR env S data hdr shstr fuel link = .error .elfError := by
  simp [linkedStrtabR, hget, subscript, hty, hbad, bind, Except.bind, throw, throwThe, MonadExceptOf.throw]

theorem linkedSymtabR_err {e : Err} (hget : getSectionHeader env S data hdr link = .error e) :
    linkedSymtabR env S data hdr shstr fuel link = .error e := by
  simp [linkedSymtabR, hget, bind, Except.bind]

theorem linkedSymtabR_none (hget : getSectionHeader env S data hdr link = .ok none) :
    linkedSymtabR env S data hdr shstr fuel link = .error .typeError := by
  simp [linkedSymtabR, hget, subscript, bind, Except.bind]

/-- the header found at `sh_link` is neither SHT_SYMTAB nor SHT_DYNSYM (SHT_SUNW_LDYNSYM included): ELFError -/
theorem linkedSymtabR_wrongType {lh t' : Val} (hget : getSectionHeader env S data hdr link = .ok (some lh))
    (hty : lh.getField "sh_type" = .ok t') (hbad : (isStr t' "SHT_SYMTAB" || isStr t' "SHT_DYNSYM") = false) :
    linkedSymtabR env S data hdr shstr fuel link = .error .elfError := by
  simp only [Bool.or_eq_false_iff] at hbad
  simp [linkedSymtabR, hget, subscript, hty, hbad.1, hbad.2, bind, Except.bind, throw, throwThe, MonadExceptOf.throw]

/-- the type is right, but the linked symbol table cannot be built: its error is the section's -/
theorem linkedSymtabR_nested {lh t' : Val} {e : Err} (hget : getSectionHeader env S data hdr link = .ok (some lh))
    (hty : lh.getField "sh_type" = .ok t') (hgood : (isStr t' "SHT_SYMTAB" || isStr t' "SHT_DYNSYM") = true)
    (hmk : makeSection env S data hdr shstr fuel (some lh) = .error e) :
    linkedSymtabR env S data hdr shstr fuel link = .error e := by
  simp [linkedSymtabR, hget, subscript, hty, hgood, hmk, bind, Except.bind]

variable {sh : Val} {name : Bytes}

/-- a symbol table's constructor runs the string-table link guard FIRST (before `Section.__init__` and the
    `sh_entsize` asserts): whatever that guard raises is what `_make_section` raises -/
theorem kindR_symtab_linkErr {t : String} (ht : t ∈ ["SHT_SYMTAB", "SHT_DYNSYM", "SHT_SUNW_LDYNSYM"]) {e : Err}
    (hlink : linkedStrtabR env S data hdr shstr fuel link = .error e) :
    kindR env S data hdr shstr fuel sh (.str t) link name = .error e := by
  simp only [List.mem_cons, List.not_mem_nil, or_false] at ht
  rcases ht with rfl | rfl | rfl <;> simp [kindR, isStr, hlink, bind, Except.bind]

/-- syminfo, SysV hash and GNU hash sections run the symbol-table link guard first -/
theorem kindR_linkSym_linkErr {t : String} (ht : t ∈ ["SHT_SUNW_syminfo", "SHT_HASH", "SHT_GNU_HASH"]) {e : Err}
    (hlink : linkedSymtabR env S data hdr shstr fuel link = .error e) :
    kindR env S data hdr shstr fuel sh (.str t) link name = .error e := by
  simp only [List.mem_cons, List.not_mem_nil, or_false] at ht
  rcases ht with rfl | rfl | rfl <;> simp [kindR, isStr, hlink, bind, Except.bind]

end guards

theorem isStr_of_typeIn_false {lh t' : Val} {types : List String} (hty : lh.getField "sh_type" = .ok t')
    (hbad : typeIn lh types = false) : ∀ s ∈ types, isStr t' s = false := by
  intro s hs
  cases t' with
  | str x =>
    rw [typeIn_str _ hty] at hbad
    simp only [isStr, beq_eq_false_iff_ne, ne_eq]
    intro hx
    subst hx
    simp [hs] at hbad
  | _ => rfl

/-! ### `get_section(sec)` for a section with a bad link -/

section getsec
variable {env : Env} {d : ElfDesc} {bytes : Bytes} {hdr : Val} {st : Option Val}

/-- everything the bad-link theorems need about the file -/
structure CoreSetup (env : Env) (d : ElfDesc) (bytes : Bytes) (hdr : Val) (st : Option Val) : Prop where
  C : CoreFacts env d
  hL : LayoutFacts d bytes
  hf : HdrFacts d hdr
  hst : ShstrOk env d st

theorem core_setup (hwf : wfZCore env d = true) (hl : Layout d bytes) (hn : 0 < d.sections.length) :
    ∃ hdr st, CoreSetup env d bytes hdr st ∧ openElf env specSF specMC bytes = .ok (fileOf d bytes hdr st) := by
  have C := wfZCore_facts hwf
  have hL := layout_facts hl
  have h1 : ∃ hdr, d.S.Elf_Ehdr.decodeRaw env [] d.ehdrRaw = .ok hdr := by
    have := C.cfg
    unfold ElfDesc.cfgOk at this
    cases hh : d.S.Elf_Ehdr.decodeRaw env [] d.ehdrRaw with
    | error er => simp [hh] at this
    | ok hdr => exact ⟨hdr, rfl⟩
  obtain ⟨hdr, hd⟩ := h1
  obtain ⟨st, hst, hf, ho⟩ := openElf_okC C hL hd hn
  exact ⟨hdr, st, ⟨C, hL, hf, hst⟩, ho⟩

/-- `_make_section(header of sec)`, down to the link guard -/
theorem makeSection_of_kindR (X : CoreSetup env d bytes hdr st) {sec : Nat} (hi : sec < d.sections.length)
    {h : Val} (hsf : SecFacts (d.sections[sec]) h) {ty : Val} (hty : h.getField "sh_type" = .ok ty) {e : Err} {fuel : Nat}
    (hk : kindR env d.S bytes hdr st fuel h ty (fieldNat h "sh_link") (d.sections[sec]).name = .error e) :
    makeSection env d.S bytes hdr st (fuel + 1) (some h) = .error e := by
  rw [makeSection_succ, getSectionName_okC X.C X.hL X.hf X.hst hi hsf]
  simp only [bind, Except.bind, hty, hsf.nat "sh_link" (by simp [shdrNatKeys]), hk]

theorem getSection_of_make (X : CoreSetup env d bytes hdr st) {sec : Nat} {h : Val}
    (hdec : d.decHdr env sec = some h) {e : Err}
    (hmk : makeSection env d.S bytes hdr st 4 (some h) = .error e) :
    getSection env d.S bytes hdr st sec = .error e := by
  unfold getSection
  simp only [getSectionHeader_okC X.C X.hL X.hf hdec, hmk, bind, Except.bind]

theorem getSymSection_err {f : ElfFile} {n : Nat} {e : Err}
    (h : getSection env f.S f.data f.header f.shstr n = .error e) : getSymSection env f n = .error e := by
  unfold getSymSection
  simp only [h, bind, Except.bind]

/-- the outcome of the guard on the header at `l`, for the two guards -/
inductive Guard where
  | strtab
  | symtab

def Guard.types : Guard → List String
  | .strtab => ["SHT_STRTAB"]
  | .symtab => ["SHT_SYMTAB", "SHT_DYNSYM"]

def Guard.run (g : Guard) (env : Env) (S : ElfStructs) (data : Bytes) (hdr : Val) (shstr : Option Val) (fuel link : Nat) :
    R Unit :=
  match g with
  | .strtab => linkedStrtabR env S data hdr shstr fuel link
  | .symtab => linkedSymtabR env S data hdr shstr fuel link

theorem guard_wrongType (X : CoreSetup env d bytes hdr st) (g : Guard) {l : Nat} {lh : Val}
    (hldec : d.decHdr env l = some lh) (hbad : typeIn lh g.types = false) (fuel : Nat) :
    g.run env d.S bytes hdr st fuel l = .error .elfError := by
  obtain ⟨hli, _⟩ := decHdr_some hldec
  obtain ⟨lh', hdec', lsf⟩ := core_sec X.C X.hL hli
  rw [hldec] at hdec'
  cases hdec'
  obtain ⟨t', hty⟩ := lsf.ty
  have hget := getSectionHeader_okC X.C X.hL X.hf hldec
  have hno := isStr_of_typeIn_false hty hbad
  cases g with
  | strtab => exact linkedStrtabR_wrongType hget hty (hno _ (by simp [Guard.types]))
  | symtab =>
    refine linkedSymtabR_wrongType hget hty ?_
    rw [hno "SHT_SYMTAB" (by simp [Guard.types]), hno "SHT_DYNSYM" (by simp [Guard.types])]
    rfl

theorem guard_beyond (X : CoreSetup env d bytes hdr st) (g : Guard) (hn : 0 < d.sections.length) {l : Nat}
    (hb : bytes.length < d.shoff + l * d.shentsize) (fuel : Nat) :
    g.run env d.S bytes hdr st fuel l = .error .typeError := by
  have hget := getSectionHeader_beyond (env := env) (bytes := bytes) X.C X.hf hn hb
  cases g with
  | strtab => exact linkedStrtabR_none hget
  | symtab => exact linkedSymtabR_none hget

theorem guard_truncated (X : CoreSetup env d bytes hdr st) (g : Guard) (hn : 0 < d.sections.length) {l : Nat}
    (h1 : d.shoff + l * d.shentsize ≤ bytes.length)
    (h2 : bytes.length < d.shoff + l * d.shentsize + (16 + 6 * (d.cls / 8))) (fuel : Nat) :
    g.run env d.S bytes hdr st fuel l = .error .elfParseError := by
  have hget := getSectionHeader_truncated (env := env) X.C X.hf hn h1 h2
  cases g with
  | strtab => exact linkedStrtabR_err hget
  | symtab => exact linkedSymtabR_err hget

/-- which guard the constructor of a section of type `ty` runs -/
def guardOf (ty : Val) : Option Guard :=
  match ty with
  | .str "SHT_SYMTAB" | .str "SHT_DYNSYM" | .str "SHT_SUNW_LDYNSYM" => some .strtab
  | .str "SHT_SUNW_syminfo" | .str "SHT_HASH" | .str "SHT_GNU_HASH" => some .symtab
  | _ => none

theorem guardOf_types {ty : Val} {types : List String} (h : requiredLinkTypes ty = some types) :
    ∃ g, guardOf ty = some g ∧ g.types = types := by
  unfold requiredLinkTypes at h
  unfold guardOf
  split at h <;> first | (cases h; exact ⟨_, rfl, rfl⟩) | cases h

/-- `_make_section` of a section whose constructor runs guard `g`: the guard's error is the result -/
theorem kindR_guardErr {S : ElfStructs} {data : Bytes} {shstr : Option Val} {fuel link : Nat} {sh ty : Val} {name : Bytes}
    {g : Guard} (hg : guardOf ty = some g) {e : Err}
    (hrun : g.run env S data hdr shstr fuel link = .error e) :
    kindR env S data hdr shstr fuel sh ty link name = .error e := by
  unfold guardOf at hg
  split at hg
  · cases hg; exact kindR_symtab_linkErr (by simp) hrun
  · cases hg; exact kindR_symtab_linkErr (by simp) hrun
  · cases hg; exact kindR_symtab_linkErr (by simp) hrun
  · cases hg; exact kindR_linkSym_linkErr (by simp) hrun
  · cases hg; exact kindR_linkSym_linkErr (by simp) hrun
  · cases hg; exact kindR_linkSym_linkErr (by simp) hrun
  · cases hg

end getsec

/-! ### the Spec's verdict on a link, unpacked -/

/-- section `sec` has a type whose constructor runs guard `g` on the header at `sh_link = l` -/
structure GuardedSec (env : Env) (d : ElfDesc) (sec l : Nat) (g : Guard) : Prop where
  hi : sec < d.sections.length
  ty : ∃ hv ty, d.decHdr env sec = some hv ∧ hv.getField "sh_type" = .ok ty ∧ guardOf ty = some g
  link : getNatD (d.sections[sec]).hdr "sh_link" = l

theorem verdict_unpack {env : Env} {d : ElfDesc} {sec : Nat} {v : LinkVerdict} (h : linkVerdict env d sec = some v)
    (hv : v ≠ .unchecked) :
    ∃ l g, GuardedSec env d sec l g ∧
      ((v = .linked l ∧ ∃ lh, d.decHdr env l = some lh ∧ typeIn lh g.types = true) ∨
       (v = .wrongType l ∧ ∃ lh, d.decHdr env l = some lh ∧ typeIn lh g.types = false) ∨
       (v = .outOfRange l ∧ d.sections.length ≤ l)) := by
  unfold linkVerdict at h
  cases hs : d.sections[sec]? with
  | none => simp [hs] at h
  | some s =>
    obtain ⟨hi, rfl⟩ := List.getElem?_eq_some_iff.1 hs
    cases hd : d.decHdr env sec with
    | none => simp [hs, hd] at h
    | some hdv =>
      simp only [hs, hd] at h
      cases hty : hdv.getField "sh_type" with
      | error e => simp [hty] at h
      | ok ty =>
        simp only [hty] at h
        cases hr : requiredLinkTypes ty with
        | none =>
          simp only [hr, Option.some.injEq] at h
          exact absurd h.symm hv
        | some types =>
          obtain ⟨g, hg, hgt⟩ := guardOf_types hr
          simp only [hr] at h
          refine ⟨getNatD (d.sections[sec]).hdr "sh_link", g, ⟨hi, ⟨hdv, ty, hd, hty, hg⟩, rfl⟩, ?_⟩
          rw [hgt]
          cases hl : d.decHdr env (getNatD (d.sections[sec]).hdr "sh_link") with
          | some lh =>
            simp only [hl, Option.some.injEq] at h
            by_cases ht : typeIn lh types = true
            · simp only [ht, if_true] at h
              exact Or.inl ⟨h.symm, lh, rfl, ht⟩
            · simp only [ht, Bool.false_eq_true, if_false] at h
              exact Or.inr (Or.inl ⟨h.symm, lh, rfl, by simpa using ht⟩)
          | none =>
            simp only [hl] at h
            by_cases hlt : getNatD (d.sections[sec]).hdr "sh_link" < d.sections.length
            · simp [hlt] at h
            · simp only [hlt, if_false, Option.some.injEq] at h
              exact Or.inr (Or.inr ⟨h.symm, by omega⟩)

section final
variable {env : Env} {d : ElfDesc} {bytes : Bytes} {hdr : Val} {st : Option Val}

/-- the guard's error is what `get_section(sec)` raises -/
theorem getSymSection_guardErr (X : CoreSetup env d bytes hdr st) {sec l : Nat} {g : Guard}
    (V : GuardedSec env d sec l g) {e : Err} {fuel : Nat}
    (hrun : g.run env d.S bytes hdr st fuel l = .error e) :
    makeSection env d.S bytes hdr st (fuel + 1) ((d.decHdr env sec)) = .error e := by
  obtain ⟨hv, ty, hdec, hty, hg⟩ := V.ty
  obtain ⟨hv', hdec', hsf⟩ := core_sec X.C X.hL V.hi
  rw [hdec] at hdec'
  cases hdec'
  have hlk : fieldNat hv "sh_link" = l := by
    rw [hsf.raw "sh_link" (by simp [shdrNatKeys]) (by decide), V.link]
  rw [hdec]
  refine makeSection_of_kindR X V.hi hsf hty ?_
  rw [hlk]
  exact kindR_guardErr hg hrun

theorem getSymSection_of_guardErr (X : CoreSetup env d bytes hdr st) {sec l : Nat} {g : Guard}
    (V : GuardedSec env d sec l g) {e : Err}
    (hrun : g.run env d.S bytes hdr st 3 l = .error e) :
    getSymSection env (fileOf d bytes hdr st) sec = .error e := by
  obtain ⟨hv, ty, hdec, -, -⟩ := V.ty
  have hmk := getSymSection_guardErr X V hrun
  rw [hdec] at hmk
  exact getSymSection_err (f := fileOf d bytes hdr st) (getSection_of_make X hdec hmk)

/-- a hash / syminfo section whose symbol table is of the right type but cannot itself be built because of
    ITS link: the inner guard's error surfaces -/
theorem guard_nested (X : CoreSetup env d bytes hdr st) {l l2 : Nat} {g2 : Guard} (V2 : GuardedSec env d l l2 g2)
    {lh : Val} (hldec : d.decHdr env l = some lh) (hgood : typeIn lh Guard.symtab.types = true) {e : Err} {fuel : Nat}
    (hrun2 : g2.run env d.S bytes hdr st fuel l2 = .error e) :
    Guard.symtab.run env d.S bytes hdr st (fuel + 1) l = .error e := by
  have hmk := getSymSection_guardErr X V2 hrun2
  rw [hldec] at hmk
  obtain ⟨t, hty, hm⟩ := typeIn_unpack hgood
  have hget := getSectionHeader_okC X.C X.hL X.hf hldec
  refine linkedSymtabR_nested hget hty ?_ hmk
  simp only [Guard.types, List.mem_cons, List.not_mem_nil, or_false] at hm
  rcases hm with rfl | rfl <;> rfl

end final

/-! ### in a well-formed description every guarded link is good -/

theorem guardOf_cases {ty : Val} {g : Guard} (h : guardOf ty = some g) :
    ∃ t, ty = .str t ∧
      ((g = .strtab ∧ t ∈ ["SHT_SYMTAB", "SHT_DYNSYM", "SHT_SUNW_LDYNSYM"]) ∨
       (g = .symtab ∧ (t ∈ ["SHT_SUNW_syminfo"] ∨ t = "SHT_HASH" ∨ t = "SHT_GNU_HASH"))) := by
  unfold guardOf at h
  split at h
  · cases h; exact ⟨_, rfl, Or.inl ⟨rfl, by simp⟩⟩
  · cases h; exact ⟨_, rfl, Or.inl ⟨rfl, by simp⟩⟩
  · cases h; exact ⟨_, rfl, Or.inl ⟨rfl, by simp⟩⟩
  · cases h; exact ⟨_, rfl, Or.inr ⟨rfl, by simp⟩⟩
  · cases h; exact ⟨_, rfl, Or.inr ⟨rfl, by simp⟩⟩
  · cases h; exact ⟨_, rfl, Or.inr ⟨rfl, by simp⟩⟩
  · cases h

theorem wfZ_guarded_link {env : Env} {d : ElfDesc} {bytes : Bytes} (hwf : d.wfZ env = true) (hl : Layout d bytes)
    {sec l : Nat} {g : Guard} (V : GuardedSec env d sec l g) :
    ∃ lh, d.decHdr env l = some lh ∧ typeIn lh g.types = true := by
  have hw := wfZ_facts hwf
  obtain ⟨_, hd, fuel', _, hdec, hsf, _, hc⟩ := sec_bundle hw.cls (layout_facts hl) (hw.secs sec V.hi)
  obtain ⟨hv, ty, hdec', hty, hg⟩ := V.ty
  rw [hdec] at hdec'
  cases hdec'
  have hlk : fieldNat hd "sh_link" = l := by
    rw [hsf.raw "sh_link" (by simp [shdrNatKeys]) (by decide), V.link]
  obtain ⟨t, rfl, hcase⟩ := guardOf_cases hg
  have key : ∀ types, linkIsB env d fuel' (fieldNat hd "sh_link") types = true →
      ∃ lh, d.decHdr env l = some lh ∧ typeIn lh types = true := by
    intro types hlb
    obtain ⟨lh, t', h1, h2, h3, _⟩ := linkIs_unpack hlb
    rw [hlk] at h1
    exact ⟨lh, h1, by rw [typeIn_str _ h2]; simpa using h3⟩
  rcases hcase with ⟨rfl, ht⟩ | ⟨rfl, ht | rfl | rfl⟩
  · exact key _ (secCond_symtab ht hty hc).1
  · exact key _ (secCond_linkSym (by simp only [List.mem_cons, List.not_mem_nil, or_false] at ht ⊢; exact Or.inl ht) hty hc)
  · exact key _ (secCond_hash hty hc).1
  · exact key _ (secCond_gnuhash hty hc).1

end PyElf.Proofs.C03L
