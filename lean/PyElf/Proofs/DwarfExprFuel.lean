/-
  C12, termination half: the fuel of `Model.parseExpr` is never exhausted, whatever the input bytes and
  whatever the dispatch / name tables.  (The Python loop always terminates: every iteration consumes the
  opcode byte, and a nested block is strictly shorter than what is left of its parent.)
-/
import PyElf.Core.Construct
import PyElf.Model.DwarfExpr
import PyElf.Proofs.Primitives
namespace PyElf.Proofs
open PyElf PyElf.Spec PyElf.Model

/-- a positioned result stays inside the data and moves forward; an error is not `outOfFuel` -/
def Good {α} (len pos : Nat) : R (α × Nat) → Prop
  | .ok (_, p) => pos ≤ p ∧ p ≤ len
  | .error e => e ≠ .outOfFuel

theorem Good.bind {α β} {len pos : Nat} {r : R (α × Nat)} {f : α × Nat → R (β × Nat)} (hr : Good len pos r)
    (hf : ∀ v p, pos ≤ p → p ≤ len → Good len p (f (v, p))) : Good len pos (r >>= f) := by
  cases r with
  | error e => exact hr
  | ok x =>
    obtain ⟨v, p⟩ := x
    have h := hf v p hr.1 hr.2
    show Good len pos (f (v, p))
    cases hfx : f (v, p) with
    | error e => rw [hfx] at h; exact h
    | ok y =>
      obtain ⟨w, q⟩ := y
      rw [hfx] at h
      exact ⟨Nat.le_trans hr.1 h.1, h.2⟩

theorem Good.bindVal {β γ} {len pos : Nat} {x : R γ} {f : γ → R (β × Nat)}
    (hx : ∀ e, x = .error e → e ≠ .outOfFuel) (hf : ∀ v, Good len pos (f v)) : Good len pos (x >>= f) := by
  cases x with
  | error e => exact hx e rfl
  | ok v => exact hf v

theorem readExact_good {data : Bytes} {pos n : Nat} (hpos : pos ≤ data.length) :
    (∀ bs, readExact data pos n = .ok bs → pos + n ≤ data.length) ∧
    (∀ e, readExact data pos n = .error e → e = .elfParseError) := by
  constructor
  · intro bs h
    by_cases hl : min n (data.length - pos) = n
    · omega
    · simp [readExact, readN, hl] at h
  · intro e h
    by_cases hl : min n (data.length - pos) = n
    · simp [readExact, readN, hl] at h
    · simp [readExact, readN, hl] at h; exact h.symm

theorem good_uint {data : Bytes} {pos n : Nat} {le : Bool} (hpos : pos ≤ data.length) :
    Good data.length pos (structParse Env.empty (.uint n le) data pos) := by
  obtain ⟨h1, h2⟩ := readExact_good (n := n) hpos
  unfold structParse
  rw [Con.parse]
  cases hr : readExact data pos n with
  | error e => simp [bind, Except.bind, Good, h2 e hr]
  | ok bs =>
    have := h1 bs hr
    simp only [bind, Except.bind, pure, Except.pure, Good]
    omega

theorem good_sint {data : Bytes} {pos n : Nat} {le : Bool} (hpos : pos ≤ data.length) :
    Good data.length pos (structParse Env.empty (.sint n le) data pos) := by
  obtain ⟨h1, h2⟩ := readExact_good (n := n) hpos
  unfold structParse
  rw [Con.parse]
  cases hr : readExact data pos n with
  | error e => simp [bind, Except.bind, Good, h2 e hr]
  | ok bs =>
    have := h1 bs hr
    simp only [bind, Except.bind, pure, Except.pure, Good]
    omega

theorem ulebLoop_good (data : Bytes) : ∀ fuel pos value shift,
    Good data.length pos (ulebLoop data fuel pos value shift) := by
  intro fuel
  induction fuel with
  | zero => intro pos value shift; simp [ulebLoop, Good]
  | succ fuel ih =>
    intro pos value shift
    rw [ulebLoop]
    cases hb : data[pos]? with
    | none => simp [Good]
    | some b =>
      have hlt : pos < data.length := by
        rcases Nat.lt_or_ge pos data.length with h | h
        · exact h
        · rw [List.getElem?_eq_none h] at hb; exact absurd hb (by simp)
      simp only
      split
      · simp only [Good]; omega
      · have := ih (pos + 1) (value ||| (b.toNat &&& 0x7F) <<< shift) (shift + 7)
        cases hr : ulebLoop data fuel (pos + 1) (value ||| (b.toNat &&& 0x7F) <<< shift) (shift + 7) with
        | error e => rw [hr] at this; exact this
        | ok x =>
          obtain ⟨v, p⟩ := x
          rw [hr] at this
          simp only [Good] at this ⊢
          omega

theorem slebLoop_good (data : Bytes) : ∀ fuel pos value shift,
    Good data.length pos (slebLoop data fuel pos value shift) := by
  intro fuel
  induction fuel with
  | zero => intro pos value shift; simp [slebLoop, Good]
  | succ fuel ih =>
    intro pos value shift
    rw [slebLoop]
    cases hb : data[pos]? with
    | none => simp [Good]
    | some b =>
      have hlt : pos < data.length := by
        rcases Nat.lt_or_ge pos data.length with h | h
        · exact h
        · rw [List.getElem?_eq_none h] at hb; exact absurd hb (by simp)
      simp only
      split
      · split <;> (simp only [Good]; omega)
      · have := ih (pos + 1) (value ||| (b.toNat &&& 0x7F) <<< shift) (shift + 7)
        cases hr : slebLoop data fuel (pos + 1) (value ||| (b.toNat &&& 0x7F) <<< shift) (shift + 7) with
        | error e => rw [hr] at this; exact this
        | ok x =>
          obtain ⟨v, p⟩ := x
          rw [hr] at this
          simp only [Good] at this ⊢
          omega

theorem good_uleb {data : Bytes} {pos : Nat} :
    Good data.length pos (structParse Env.empty .uleb data pos) := by
  have := ulebLoop_good data (data.length - pos + 1) pos 0 0
  unfold structParse
  rw [Con.parse]
  unfold parseUleb
  cases hr : ulebLoop data (data.length - pos + 1) pos 0 0 with
  | error e => rw [hr] at this; simpa [bind, Except.bind, Good] using this
  | ok x =>
    obtain ⟨v, p⟩ := x
    rw [hr] at this
    simpa [bind, Except.bind, pure, Except.pure, Good] using this

theorem good_sleb {data : Bytes} {pos : Nat} :
    Good data.length pos (structParse Env.empty .sleb data pos) := by
  have := slebLoop_good data (data.length - pos + 1) pos 0 0
  unfold structParse
  rw [Con.parse]
  unfold parseSleb
  cases hr : slebLoop data (data.length - pos + 1) pos 0 0 with
  | error e => rw [hr] at this; simpa [bind, Except.bind, Good] using this
  | ok x =>
    obtain ⟨v, p⟩ := x
    rw [hr] at this
    simpa [bind, Except.bind, pure, Except.pure, Good] using this

/-- `read_blob` returns exactly `n` more bytes and stays inside the data -/
theorem readBlob_good (data : Bytes) : ∀ (n pos : Nat) (acc : Bytes),
    match readBlob data n pos acc with
    | .ok (_, p) => p = pos + n ∧ p ≤ data.length ∨ (n = 0 ∧ p = pos)
    | .error e => e ≠ .outOfFuel := by
  intro n
  induction n with
  | zero => intro pos acc; simp [readBlob]
  | succ n ih =>
    intro pos acc
    rw [readBlob]
    cases hb : data[pos]? with
    | none => simp
    | some b =>
      have hlt : pos < data.length := by
        rcases Nat.lt_or_ge pos data.length with h | h
        · exact h
        · rw [List.getElem?_eq_none h] at hb; exact absurd hb (by simp)
      simp only
      have := ih (pos + 1) (b :: acc)
      cases hr : readBlob data n (pos + 1) (b :: acc) with
      | error e => rw [hr] at this; exact this
      | ok x =>
        obtain ⟨bs, p⟩ := x
        rw [hr] at this
        simp only at this ⊢
        omega

theorem readBlob_length (data : Bytes) : ∀ (n pos : Nat) (acc bs : Bytes) (p : Nat),
    readBlob data n pos acc = .ok (bs, p) → bs.length = acc.length + n := by
  intro n
  induction n with
  | zero => intro pos acc bs p h; simp [readBlob] at h; simp [← h.1]
  | succ n ih =>
    intro pos acc bs p h
    rw [readBlob] at h
    cases hb : data[pos]? with
    | none => simp [hb] at h
    | some b =>
      simp only [hb] at h
      have := ih (pos + 1) (b :: acc) bs p h
      simp at this; omega

theorem good_readBlob {data : Bytes} {n pos : Nat} (hpos : pos ≤ data.length) :
    Good data.length pos (readBlob data n pos []) := by
  have := readBlob_good data n pos []
  cases hr : readBlob data n pos [] with
  | error e => rw [hr] at this; exact this
  | ok x =>
    obtain ⟨bs, p⟩ := x
    rw [hr] at this
    simp only [Good] at this ⊢
    omega

theorem asNat_err (v : Val) : ∀ e, v.asNat = .error e → e ≠ .outOfFuel := by
  intro e h
  unfold Val.asNat Val.asInt at h
  cases v <;> simp [bind, Except.bind] at h <;> (try split at h) <;> (try simp at h) <;> (rw [← h]; decide)

theorem asInt_err (v : Val) : ∀ e, v.asInt = .error e → e ≠ .outOfFuel := by
  intro e h
  unfold Val.asInt at h
  cases v <;> simp at h <;> (rw [← h]; decide)

theorem parseArg_good {nested : Bytes → R (List Val)} {data : Bytes} (k : ArgKind) {pos : Nat}
    (hpos : pos ≤ data.length)
    (hN : ∀ blob : Bytes, blob.length + pos ≤ data.length → ∀ e, nested blob = .error e → e ≠ .outOfFuel) :
    Good data.length pos (parseArg nested data k pos) := by
  cases k with
  | u n le =>
    unfold parseArg
    refine Good.bind (good_uint hpos) ?_
    intro v p _ h2
    exact ⟨Nat.le_refl _, h2⟩
  | s n le =>
    unfold parseArg
    refine Good.bind (good_sint hpos) ?_
    intro v p _ h2
    exact ⟨Nat.le_refl _, h2⟩
  | uleb =>
    unfold parseArg
    refine Good.bind good_uleb ?_
    intro v p _ h2
    exact ⟨Nat.le_refl _, h2⟩
  | sleb =>
    unfold parseArg
    refine Good.bind good_sleb ?_
    intro v p _ h2
    exact ⟨Nat.le_refl _, h2⟩
  | block =>
    unfold parseArg
    refine Good.bind good_uleb ?_
    intro v p _ h2
    refine Good.bindVal (asNat_err v) ?_
    intro n
    refine Good.bind (good_readBlob h2) ?_
    intro bs p' _ h4
    exact ⟨Nat.le_refl _, h4⟩
  | block1 =>
    unfold parseArg
    refine Good.bind (good_uint hpos) ?_
    intro v p _ h2
    refine Good.bindVal (asNat_err v) ?_
    intro n
    refine Good.bind (good_readBlob h2) ?_
    intro bs p' _ h4
    exact ⟨Nat.le_refl _, h4⟩
  | expr =>
    unfold parseArg
    refine Good.bind good_uleb ?_
    intro v p h1 h2
    refine Good.bindVal (asNat_err v) ?_
    intro n
    have hg := good_readBlob (n := n) h2
    have hb := readBlob_good data n p []
    cases hr : readBlob data n p [] with
    | error e => rw [hr] at hg; exact hg
    | ok x =>
      obtain ⟨bs, p'⟩ := x
      rw [hr] at hg hb
      have hl := readBlob_length data n p [] bs p' hr
      simp only [Good] at hg
      simp only [List.length_nil] at hl hb
      show Good data.length p (nested bs >>= fun ops => pure ([Val.list ops], p'))
      cases hn : nested bs with
      | error e => exact hN bs (by omega) e hn
      | ok ops => exact ⟨hg.1, hg.2⟩
  | wasm le =>
    unfold parseArg
    refine Good.bind (good_uint hpos) ?_
    intro op p _ h2
    refine Good.bindVal (asInt_err op) ?_
    intro opn
    show Good data.length p (if 0 ≤ opn ∧ opn ≤ 2 then _ else _)
    split
    · refine Good.bind good_uleb ?_
      intro v p' _ h4
      exact ⟨Nat.le_refl _, h4⟩
    · split
      · refine Good.bind (good_uint h2) ?_
        intro v p' _ h4
        exact ⟨Nat.le_refl _, h4⟩
      · simp [Good]
  | refused w => simp [parseArg, Good]

theorem parseArgs_good {nested : Bytes → R (List Val)} {data : Bytes} : ∀ (ks : List ArgKind) (pos : Nat),
    pos ≤ data.length →
    (∀ blob : Bytes, blob.length + pos ≤ data.length → ∀ e, nested blob = .error e → e ≠ .outOfFuel) →
    Good data.length pos (parseArgs nested data ks pos) := by
  intro ks
  induction ks with
  | nil => intro pos hpos _; simp [parseArgs, Good, hpos]
  | cons k ks ih =>
    intro pos hpos hN
    unfold parseArgs
    refine Good.bind (parseArg_good k hpos hN) ?_
    intro vs p h1 h2
    refine Good.bind (ih p h2 (fun blob hb => hN blob (by omega))) ?_
    intro ws p' _ h4
    exact ⟨Nat.le_refl _, h4⟩

theorem loop_fuel (D : List (Nat × List ArgKind)) (N : List (Nat × String)) :
    ∀ (fuel : Nat) (data : Bytes) (pos : Nat) (parsed : List Val), pos ≤ data.length → data.length + 1 ≤ fuel + pos →
      ∀ e, parseExprLoop D N fuel data pos parsed = .error e → e ≠ .outOfFuel := by
  intro fuel
  induction fuel with
  | zero => intro data pos parsed h1 h2; omega
  | succ fuel ih =>
    intro data pos parsed hpos hf e h
    rw [parseExprLoop] at h
    cases hb : data[pos]? with
    | none => simp [hb] at h
    | some b =>
      have hlt : pos < data.length := by
        rcases Nat.lt_or_ge pos data.length with h' | h'
        · exact h'
        · rw [List.getElem?_eq_none h'] at hb; exact absurd hb (by simp)
      simp only [hb] at h
      cases hk : D.lookup b.toNat with
      | none => simp only [hk] at h; cases h; decide
      | some kinds =>
        simp only [hk] at h
        have hg := parseArgs_good (nested := fun blob => parseExprLoop D N fuel blob 0 []) (data := data) kinds (pos + 1)
          (by omega) (fun blob hbl e he => ih blob 0 [] (Nat.zero_le _) (by omega) e he)
        cases hr : parseArgs (fun blob => parseExprLoop D N fuel blob 0 []) data kinds (pos + 1) with
        | error e' =>
          rw [hr] at hg h
          simp only [Except.error.injEq] at h
          rw [← h]; exact hg
        | ok x =>
          obtain ⟨args, pos'⟩ := x
          rw [hr] at hg h
          simp only [Good] at hg
          exact ih data pos' _ hg.2 (by omega) e h

/-- the fuel `expr.length + 1` of `parseExpr` is never exhausted -/
theorem parseExpr_fuel (D : List (Nat × List ArgKind)) (N : List (Nat × String)) (data : Bytes) :
    parseExpr D N data ≠ .error .outOfFuel := by
  intro h
  exact loop_fuel D N (data.length + 1) data 0 [] (Nat.zero_le _) (by omega) _ h rfl

end PyElf.Proofs
