/-
  The GNU hash table BUILDER (`Spec.buildGnu` over symbols ordered by `Spec.gnuOrder`) produces,
  for every symbol list, a table satisfying `WFGnu`.
    * `sortByKey` / `gnuOrder`: a permutation that keeps the first `symoffset` symbols in place and
      leaves the hashed part sorted by bucket;
    * Bloom filter: every hashed symbol's two bits are set in its word, every word fits the class;
    * chain words: hash with bit 0 replaced by "last of its bucket";
    * buckets: first symbol of each bucket.
-/
import PyElf.Proofs.GnuLookup
namespace PyElf.Proofs.C03
open PyElf PyElf.Spec PyElf.Model PyElf.Proofs

/-! ### the stable sort -/

theorem insertByKey_perm {α : Type} (key : α → Nat) (x : α) : ∀ l : List α, (insertByKey key x l).Perm (x :: l) := by
  intro l
  induction l with
  | nil => exact List.Perm.refl _
  | cons y ys ih =>
    simp only [insertByKey]
    split
    · exact List.Perm.refl _
    · exact ((List.Perm.cons y ih).trans (List.Perm.swap x y ys))

theorem foldl_insert_perm {α : Type} (key : α → Nat) : ∀ (xs acc : List α),
    (xs.foldl (fun acc x => insertByKey key x acc) acc).Perm (xs ++ acc) := by
  intro xs
  induction xs with
  | nil => intro acc; exact List.Perm.refl _
  | cons x xs ih =>
    intro acc
    rw [List.foldl_cons]
    refine (ih _).trans ?_
    refine (List.Perm.append_left xs (insertByKey_perm key x acc)).trans ?_
    exact List.perm_middle

theorem sortByKey_perm {α : Type} (key : α → Nat) (xs : List α) : (sortByKey key xs).Perm xs := by
  have := foldl_insert_perm key xs []
  simpa [sortByKey] using this

/-- sorted by key (non-decreasing) -/
def SortedBy {α : Type} (key : α → Nat) (l : List α) : Prop := l.Pairwise fun a b => key a ≤ key b

theorem insertByKey_sorted {α : Type} (key : α → Nat) (x : α) : ∀ l : List α, SortedBy key l →
    SortedBy key (insertByKey key x l) := by
  intro l
  induction l with
  | nil => intro _; simp [insertByKey, SortedBy]
  | cons y ys ih =>
    intro h
    have h' := List.pairwise_cons.mp h
    simp only [insertByKey]
    split
    · rename_i hlt
      refine List.pairwise_cons.mpr ⟨?_, h⟩
      intro z hz
      rcases List.mem_cons.mp hz with rfl | hz
      · omega
      · have := h'.1 z hz; omega
    · rename_i hge
      refine List.pairwise_cons.mpr ⟨?_, ih h'.2⟩
      intro z hz
      rcases List.mem_cons.mp ((insertByKey_perm key x ys).mem_iff.mp hz) with rfl | hz
      · omega
      · exact h'.1 z hz

theorem sortByKey_sorted {α : Type} (key : α → Nat) (xs : List α) : SortedBy key (sortByKey key xs) := by
  have : ∀ (xs acc : List α), SortedBy key acc → SortedBy key (xs.foldl (fun acc x => insertByKey key x acc) acc) := by
    intro xs
    induction xs with
    | nil => intro acc h; exact h
    | cons x xs ih => intro acc h; exact ih _ (insertByKey_sorted key x acc h)
  exact this xs [] List.Pairwise.nil

/-- `gnuOrder` only permutes the symbols … -/
theorem gnuOrder_perm {β : Type} (nb so : Nat) (syms : List (Bytes × β)) : (gnuOrder nb so syms).Perm syms := by
  have h := (sortByKey_perm (fun s : Bytes × β => (gnuHash32 s.1).toNat % nb) (syms.drop so)).append_left (syms.take so)
  rw [List.take_append_drop] at h
  exact h

theorem gnuOrder_length {β : Type} (nb so : Nat) (syms : List (Bytes × β)) : (gnuOrder nb so syms).length = syms.length :=
  (gnuOrder_perm nb so syms).length_eq

/-- … keeps the unhashed symbols `i < symoffset` where they are … -/
theorem gnuOrder_take {β : Type} (nb so : Nat) (syms : List (Bytes × β)) :
    (gnuOrder nb so syms).take so = syms.take so := by
  by_cases h : so ≤ syms.length
  · have hl : (syms.take so).length = so := by simp [List.length_take]; omega
    unfold gnuOrder
    rw [List.take_append_of_le_length (by omega), List.take_of_length_le (by omega)]
  · have hd : syms.drop so = [] := List.drop_eq_nil_of_le (by omega)
    simp [gnuOrder, hd, sortByKey, List.take_take]

/-- … and the hashed part `symoffset ≤ i` is a bucket-sorted permutation of the original hashed part -/
theorem gnuOrder_drop {β : Type} (nb so : Nat) (syms : List (Bytes × β)) :
    (gnuOrder nb so syms).drop so = sortByKey (fun s => (gnuHash32 s.1).toNat % nb) (syms.drop so) := by
  by_cases h : so ≤ syms.length
  · have hl : (syms.take so).length = so := by simp [List.length_take]; omega
    unfold gnuOrder
    exact List.drop_left' hl
  · have hd : syms.drop so = [] := List.drop_eq_nil_of_le (by omega)
    simp only [gnuOrder, hd, sortByKey, List.foldl_nil, List.append_nil]
    exact List.drop_eq_nil_of_le (by simp [List.length_take]; omega)

/-- the hashes of the hashed part are sorted by bucket -/
def GnuSorted (nb : Nat) (hs : List Nat) : Prop := hs.Pairwise fun a b => a % nb ≤ b % nb

theorem gnuOrder_sorted {β : Type} (nb so : Nat) (syms : List (Bytes × β)) :
    GnuSorted nb (gnuHashes ((gnuOrder nb so syms).map (·.1)) so) := by
  unfold GnuSorted gnuHashes
  rw [← List.map_drop, gnuOrder_drop, List.map_map, List.pairwise_map]
  exact sortByKey_sorted _ _

theorem gnuSorted_bk {nb : Nat} {hs : List Nat} (h : GnuSorted nb hs) (i j : Nat) (hij : i < j) (hj : j < hs.length) :
    gnuBk nb hs i ≤ gnuBk nb hs j := by
  have := List.pairwise_iff_getElem.mp h i j (by omega) hj hij
  simpa [gnuBk, List.getD_eq_getElem?_getD, List.getElem?_eq_getElem hj,
    List.getElem?_eq_getElem (show i < hs.length by omega)] using this

/-! ### bit facts -/

theorem or_one_eq (x : Nat) : x ||| 1 = x / 2 * 2 + 1 := by
  apply Nat.eq_of_testBit_eq
  intro i
  cases i with
  | zero =>
    rw [Nat.testBit_or]
    simp only [Nat.testBit_zero]
    have : (x / 2 * 2 + 1) % 2 = 1 := by omega
    simp [this]
  | succ i =>
    rw [Nat.testBit_or, Nat.testBit_succ, Nat.testBit_succ, Nat.testBit_succ]
    have h1 : (1 : Nat) / 2 = 0 := rfl
    have h2 : (x / 2 * 2 + 1) / 2 = x / 2 := by omega
    rw [h1, h2, Nat.zero_testBit, Bool.or_false]

theorem covers_self (w m : Nat) : (w ||| m) &&& m = m := by
  apply Nat.eq_of_testBit_eq
  intro i
  rw [Nat.testBit_and, Nat.testBit_or]
  cases w.testBit i <;> cases m.testBit i <;> rfl

theorem covers_mono {w m : Nat} (x : Nat) (h : w &&& m = m) : (w ||| x) &&& m = m := by
  apply Nat.eq_of_testBit_eq
  intro i
  have hi := congrArg (fun v => Nat.testBit v i) h
  simp only [Nat.testBit_and] at hi
  rw [Nat.testBit_and, Nat.testBit_or]
  revert hi
  cases w.testBit i <;> cases m.testBit i <;> cases x.testBit i <;> simp

/-! ### the Bloom filter -/

def gidx (cls bs h : Nat) : Nat := (h / cls) % bs
def gmask (cls sh h : Nat) : Nat := (1 <<< (h % cls)) ||| (1 <<< ((h >>> sh) % cls))

/-- one step of the builder's Bloom fold -/
def gnuBloomStep (cls bs sh : Nat) (bl : List Nat) (h : Nat) : List Nat :=
  bl.set (gidx cls bs h) (bl.getD (gidx cls bs h) 0 ||| gmask cls sh h)

/-- word `idx` of `bl` has all bits of `m` -/
def BCov (bl : List Nat) (idx m : Nat) : Prop := ∃ w, bl[idx]? = some w ∧ w &&& m = m

theorem gmask_lt {cls : Nat} (hcls : 0 < cls) (sh h : Nat) : gmask cls sh h < 2 ^ cls := by
  unfold gmask
  apply Nat.or_lt_two_pow
  · rw [Nat.one_shiftLeft]; exact Nat.pow_lt_pow_right (by omega) (Nat.mod_lt _ hcls)
  · rw [Nat.one_shiftLeft]; exact Nat.pow_lt_pow_right (by omega) (Nat.mod_lt _ hcls)

theorem bloomStep_length (cls bs sh : Nat) (bl : List Nat) (h : Nat) :
    (gnuBloomStep cls bs sh bl h).length = bl.length := by simp [gnuBloomStep]

theorem bloomStep_mono (cls bs sh : Nat) (bl : List Nat) (h idx m : Nat) (hc : BCov bl idx m) :
    BCov (gnuBloomStep cls bs sh bl h) idx m := by
  obtain ⟨w, hw, hm⟩ := hc
  unfold gnuBloomStep BCov
  by_cases hi : gidx cls bs h = idx
  · subst hi
    have hlt : gidx cls bs h < bl.length := (List.getElem?_eq_some_iff.mp hw).1
    refine ⟨_, List.getElem?_set_self hlt, ?_⟩
    rw [List.getD_eq_getElem?_getD, hw]
    exact covers_mono _ hm
  · exact ⟨w, by rw [List.getElem?_set_ne hi]; exact hw, hm⟩

theorem bloomStep_sets (cls bs sh : Nat) (bl : List Nat) (h : Nat) (hlt : gidx cls bs h < bl.length) :
    BCov (gnuBloomStep cls bs sh bl h) (gidx cls bs h) (gmask cls sh h) :=
  ⟨_, List.getElem?_set_self hlt, covers_self _ _⟩

theorem bloomStep_bound {cls : Nat} (hcls : 0 < cls) (bs sh : Nat) (bl : List Nat) (h : Nat)
    (hb : ∀ w ∈ bl, w < 2 ^ cls) : ∀ w ∈ gnuBloomStep cls bs sh bl h, w < 2 ^ cls := by
  intro w hw
  rcases List.mem_or_eq_of_mem_set hw with h1 | h1
  · exact hb w h1
  · subst h1
    apply Nat.or_lt_two_pow _ (gmask_lt hcls sh h)
    rw [List.getD_eq_getElem?_getD]
    cases hg : bl[gidx cls bs h]? with
    | none => exact Nat.two_pow_pos _
    | some v => exact hb v (List.mem_of_getElem? hg)

theorem bloomFold (cls : Nat) (hcls : 0 < cls) (bs sh : Nat) (hbs : 1 ≤ bs) : ∀ (hs : List Nat) (bl : List Nat),
    bl.length = bs → (∀ w ∈ bl, w < 2 ^ cls) →
    (hs.foldl (gnuBloomStep cls bs sh) bl).length = bs
      ∧ (∀ w ∈ hs.foldl (gnuBloomStep cls bs sh) bl, w < 2 ^ cls)
      ∧ (∀ idx m, BCov bl idx m → BCov (hs.foldl (gnuBloomStep cls bs sh) bl) idx m)
      ∧ (∀ h ∈ hs, BCov (hs.foldl (gnuBloomStep cls bs sh) bl) (gidx cls bs h) (gmask cls sh h)) := by
  intro hs
  induction hs with
  | nil => intro bl hl hb; exact ⟨hl, hb, fun _ _ h => h, fun h hh => by simp at hh⟩
  | cons h hs ih =>
    intro bl hl hb
    rw [List.foldl_cons]
    obtain ⟨a, b, c, d⟩ := ih (gnuBloomStep cls bs sh bl h) (by rw [bloomStep_length]; exact hl)
      (bloomStep_bound hcls bs sh bl h hb)
    refine ⟨a, b, fun idx m hc => c idx m (bloomStep_mono cls bs sh bl h idx m hc), ?_⟩
    intro h' hh'
    rcases List.mem_cons.mp hh' with rfl | hh'
    · exact c _ _ (bloomStep_sets cls bs sh bl h' (by rw [hl]; exact Nat.mod_lt _ hbs))
    · exact d h' hh'

/-! ### the chain words -/

theorem gnuBk_cons (nb h : Nat) (l : List Nat) (j : Nat) : gnuBk nb (h :: l) (j + 1) = gnuBk nb l j := by
  simp [gnuBk]

theorem chain_length (nb : Nat) : ∀ hs : List Nat, (buildGnu.chain nb hs).length = hs.length := by
  intro hs
  induction hs with
  | nil => simp [buildGnu.chain]
  | cons h t ih =>
    cases t with
    | nil => simp [buildGnu.chain]
    | cons h' rest => simp only [buildGnu.chain, List.length_cons] at ih ⊢; omega

/-- the `k`-th chain word: the hash with bit 0 replaced by "last hashed symbol, or the next one is in
    another bucket" -/
theorem chain_getElem? (nb : Nat) : ∀ (hs : List Nat) (k : Nat) (hk : k < hs.length),
    (buildGnu.chain nb hs)[k]? = some (hs[k] / 2 * 2
      + (if (k + 1 == hs.length || gnuBk nb hs (k + 1) != gnuBk nb hs k) = true then 1 else 0)) := by
  intro hs
  induction hs with
  | nil => intro k hk; simp at hk
  | cons h t ih =>
    intro k hk
    cases t with
    | nil =>
      have : k = 0 := by simp at hk; omega
      subst this
      simp [buildGnu.chain]
    | cons h' rest =>
      cases k with
      | zero =>
        simp [buildGnu.chain, gnuBk]
      | succ k =>
        have hk' : k < (h' :: rest).length := by simp at hk ⊢; omega
        have := ih k hk'
        simp only [buildGnu.chain, List.getElem?_cons_succ, List.getElem_cons_succ, gnuBk_cons, List.length_cons] at this ⊢
        rw [this]
        simp

/-! ### the built table -/

theorem buildGnu_eq (cls : Nat) (names : List Bytes) (nb so bs sh : Nat) :
    buildGnu cls names nb so bs sh
      = { nbuckets := nb, symoffset := so, bloomSize := bs, bloomShift := sh,
          bloom := (gnuHashes names so).foldl (gnuBloomStep cls bs sh) (List.replicate bs 0),
          buckets := (List.range nb).map (gnuFirst nb so (gnuHashes names so)),
          chain := buildGnu.chain nb (gnuHashes names so) } := by
  unfold buildGnu gnuBloomStep gidx gmask
  simp only [Nat.or_assoc]

theorem bloomHas_of_cov {cls : Nat} {t : GnuTable} {h : Nat}
    (hc : BCov t.bloom (gidx cls t.bloomSize h) (gmask cls t.bloomShift h)) : bloomHas cls t h = true := by
  obtain ⟨w, hw, hm⟩ := hc
  simp only [gidx, gmask] at hw hm
  simp only [bloomHas, hw, hm, beq_self_eq_true]

theorem gnuHashes_lt (names : List Bytes) (so : Nat) : ∀ h ∈ gnuHashes names so, h < 2 ^ 32 := by
  intro h hh
  simp only [gnuHashes, List.mem_map] at hh
  obtain ⟨nm, _, rfl⟩ := hh
  exact (gnuHash32 nm).toNat_lt

/-- TASK 1 (GNU), core: over names whose hashed part is sorted by bucket, the builder's output is well-formed -/
theorem buildGnu_wf_sorted (cls : Nat) (names : List Bytes) (nb so bs sh : Nat) (hcls : 0 < cls)
    (hnb : 1 ≤ nb) (hnb32 : nb < 2 ^ 32) (hbs : 1 ≤ bs) (hbs32 : bs < 2 ^ 32) (hsh32 : sh < 2 ^ 32)
    (hso1 : 1 ≤ so) (hson : so ≤ names.length) (hn32 : names.length < 2 ^ 32)
    (hsorted : GnuSorted nb (gnuHashes names so)) :
    WFGnu cls names (buildGnu cls names nb so bs sh) = true := by
  rw [buildGnu_eq]
  generalize hhs : gnuHashes names so = hs at hsorted
  have hlen : hs.length = names.length - so := by rw [← hhs]; exact gnuHashes_length _ _
  have hlt32 : ∀ h ∈ hs, h < 2 ^ 32 := by rw [← hhs]; exact gnuHashes_lt names so
  obtain ⟨bl1, bl2, _, bl4⟩ := bloomFold cls hcls bs sh hbs hs (List.replicate bs 0) (by simp)
    (fun w hw => by rw [(List.mem_replicate.mp hw).2]; exact Nat.two_pow_pos _)
  simp only [WFGnu, WFGnuH, hhs, Bool.and_eq_true, decide_eq_true_eq, List.all_eq_true, List.mem_range, beq_iff_eq]
  refine ⟨⟨⟨⟨⟨⟨⟨⟨⟨⟨⟨⟨⟨⟨hnb, by simp⟩, hnb32⟩, hbs⟩, bl1⟩, hbs32⟩, hsh32⟩, hn32⟩, hso1⟩, hson⟩, hlen⟩,
    chain_length nb hs⟩, bl2⟩, ?_⟩, ?_⟩
  · intro b hb
    simp [List.getElem?_map, List.getElem?_range hb]
  · intro k hk
    have hhk : hs[k]? = some hs[k] := List.getElem?_eq_getElem hk
    have hbkk : gnuBk nb hs k = hs[k] % nb := gnuBk_of_getElem? hhk
    have hlt := hlt32 _ (List.getElem_mem hk)
    have hc := chain_getElem? nb hs k hk
    unfold gnuEntryOK
    simp only [hhk, hc]
    generalize hlast : (k + 1 == hs.length || gnuBk nb hs (k + 1) != gnuBk nb hs k) = last
    simp only [Bool.and_eq_true, decide_eq_true_eq, beq_iff_eq, Bool.or_eq_true]
    refine ⟨⟨⟨⟨?_, ?_⟩, ?_⟩, ?_⟩, ?_⟩
    · split <;> omega
    · rw [or_one_eq, or_one_eq]
      congr 2
      split <;> omega
    · rw [Nat.and_one_is_mod]
      cases last <;> simp <;> omega
    · exact bloomHas_of_cov (bl4 _ (List.getElem_mem hk))
    · by_cases hk0 : k = 0
      · exact Or.inl (Or.inl hk0)
      · by_cases hsame : gnuBk nb hs k = gnuBk nb hs (k - 1)
        · exact Or.inl (Or.inr hsame)
        · right
          have hle := gnuSorted_bk hsorted (k - 1) k (by omega) hk
          have hfi : hs.findIdx? (fun h => h % nb == gnuBk nb hs k) = some k := by
            apply List.findIdx?_eq_some_iff_getElem.mpr
            refine ⟨hk, by simp [hbkk], ?_⟩
            intro j hj
            have hjl : j < hs.length := by omega
            have hbj : gnuBk nb hs j = hs[j] % nb := gnuBk_of_getElem? (List.getElem?_eq_getElem hjl)
            have : gnuBk nb hs j ≤ gnuBk nb hs (k - 1) := by
              by_cases hjk : j = k - 1
              · rw [hjk]; exact Nat.le_refl _
              · exact gnuSorted_bk hsorted j (k - 1) (by omega) (by omega)
            simp only [beq_iff_eq, ← hbj]
            omega
          simp [gnuFirst, hfi]

/-- TASK 1 (GNU): for EVERY symbol list (any size, duplicate and empty names), ordered as the linker
    orders it, the builder's output is well-formed -/
theorem buildGnu_wf {β : Type} (cls : Nat) (syms : List (Bytes × β)) (nb so bs sh : Nat) (hcls : 0 < cls)
    (hnb : 1 ≤ nb) (hnb32 : nb < 2 ^ 32) (hbs : 1 ≤ bs) (hbs32 : bs < 2 ^ 32) (hsh32 : sh < 2 ^ 32)
    (hso1 : 1 ≤ so) (hson : so ≤ syms.length) (hn32 : syms.length < 2 ^ 32) :
    WFGnu cls ((gnuOrder nb so syms).map (·.1)) (buildGnu cls ((gnuOrder nb so syms).map (·.1)) nb so bs sh) = true := by
  have hl : ((gnuOrder nb so syms).map (·.1)).length = syms.length := by rw [List.length_map, gnuOrder_length]
  exact buildGnu_wf_sorted cls _ nb so bs sh hcls hnb hnb32 hbs hbs32 hsh32 hso1 (by rw [hl]; exact hson)
    (by rw [hl]; exact hn32) (gnuOrder_sorted nb so syms)

/-! ### extra Bloom bits keep the table well-formed (false positives are allowed) -/

theorem covers_trans {w' w m : Nat} (h1 : w' &&& w = w) (h2 : w &&& m = m) : w' &&& m = m := by
  apply Nat.eq_of_testBit_eq
  intro i
  have a := congrArg (fun v => Nat.testBit v i) h1
  have b := congrArg (fun v => Nat.testBit v i) h2
  simp only [Nat.testBit_and] at a b
  rw [Nat.testBit_and]
  revert a b
  cases w'.testBit i <;> cases w.testBit i <;> cases m.testBit i <;> simp

theorem bloomHas_super {cls : Nat} {t : GnuTable} {bloom' : List Nat} {h : Nat}
    (hsup : ∀ (i w : Nat), t.bloom[i]? = some w → ∃ w' : Nat, bloom'[i]? = some w' ∧ w' &&& w = w)
    (hb : bloomHas cls t h = true) : bloomHas cls { t with bloom := bloom' } h = true := by
  unfold bloomHas at hb ⊢
  simp only at hb ⊢
  cases hw : t.bloom[(h / cls) % t.bloomSize]? with
  | none => simp [hw] at hb
  | some w =>
    simp only [hw, beq_iff_eq] at hb
    obtain ⟨w', hw', hc⟩ := hsup _ w hw
    simp only [hw', beq_iff_eq]
    exact covers_trans hc hb

theorem gnuEntryOK_super {cls : Nat} {t : GnuTable} {bloom' : List Nat} {hs : List Nat} {k : Nat}
    (hsup : ∀ (i w : Nat), t.bloom[i]? = some w → ∃ w' : Nat, bloom'[i]? = some w' ∧ w' &&& w = w)
    (h : gnuEntryOK cls t hs k = true) : gnuEntryOK cls { t with bloom := bloom' } hs k = true := by
  unfold gnuEntryOK at h ⊢
  cases hh : hs[k]? with
  | none => simp [hh] at h
  | some hv =>
    cases hc : t.chain[k]? with
    | none => simp [hh, hc] at h
    | some c =>
      simp only [hh, hc, Bool.and_eq_true] at h ⊢
      exact ⟨⟨h.1.1, bloomHas_super hsup h.1.2⟩, h.2⟩

theorem WFGnu_bloom_super (cls : Nat) (names : List Bytes) (t : GnuTable) (bloom' : List Nat)
    (hwf : WFGnu cls names t = true) (hlen : bloom'.length = t.bloom.length) (hb : ∀ w ∈ bloom', w < 2 ^ cls)
    (hsup : ∀ (i w : Nat), t.bloom[i]? = some w → ∃ w' : Nat, bloom'[i]? = some w' ∧ w' &&& w = w) :
    WFGnu cls names { t with bloom := bloom' } = true := by
  simp only [WFGnu, WFGnuH, Bool.and_eq_true, decide_eq_true_eq, List.all_eq_true] at hwf ⊢
  obtain ⟨⟨⟨⟨⟨⟨⟨⟨⟨⟨⟨⟨⟨⟨h1, h2⟩, h3⟩, h4⟩, h5⟩, h6⟩, h7⟩, h8⟩, h9⟩, h10⟩, h11⟩, h12⟩, _⟩, h14⟩, h15⟩ := hwf
  exact ⟨⟨⟨⟨⟨⟨⟨⟨⟨⟨⟨⟨⟨⟨h1, h2⟩, h3⟩, h4⟩, by rw [hlen]; exact h5⟩, h6⟩, h7⟩, h8⟩, h9⟩, h10⟩, h11⟩, h12⟩, hb⟩, h14⟩,
    fun k hk => gnuEntryOK_super hsup (h15 k hk)⟩

/-- the run's perturbation of a Bloom filter: extra bits ORed into the words (word `i` gets `orW[i]`) -/
def bloomOr (bl orW : List Nat) : List Nat := (bl.zipIdx).map fun (w, i) => w ||| orW.getD i 0

theorem bloomOr_getElem? (bl orW : List Nat) (i : Nat) :
    (bloomOr bl orW)[i]? = bl[i]?.map (· ||| orW.getD i 0) := by
  simp only [bloomOr, List.getElem?_map, List.getElem?_zipIdx, Option.map_map]
  cases bl[i]? <;> simp

theorem WFGnu_bloomOr (cls : Nat) (names : List Bytes) (t : GnuTable) (orW : List Nat)
    (hwf : WFGnu cls names t = true) (hor : ∀ w ∈ orW, w < 2 ^ cls) :
    WFGnu cls names { t with bloom := bloomOr t.bloom orW } = true := by
  have hbound : ∀ w ∈ t.bloom, w < 2 ^ cls := by
    simp only [WFGnu, WFGnuH, Bool.and_eq_true, decide_eq_true_eq, List.all_eq_true] at hwf
    exact hwf.1.1.2
  apply WFGnu_bloom_super cls names t _ hwf
  · simp [bloomOr]
  · intro w hw
    obtain ⟨i, hi, rfl⟩ := List.mem_iff_getElem.mp hw
    have h1 := bloomOr_getElem? t.bloom orW i
    rw [List.getElem?_eq_getElem hi] at h1
    cases hb : t.bloom[i]? with
    | none => rw [hb] at h1; simp at h1
    | some w0 =>
      rw [hb] at h1
      simp only [Option.map_some] at h1
      rw [Option.some.inj h1]
      apply Nat.or_lt_two_pow (hbound w0 (List.mem_of_getElem? hb))
      rw [List.getD_eq_getElem?_getD]
      cases ho : orW[i]? with
      | none => exact Nat.two_pow_pos _
      | some x => exact hor x (List.mem_of_getElem? ho)
  · intro i w hw
    refine ⟨w ||| orW.getD i 0, by rw [bloomOr_getElem?, hw]; rfl, ?_⟩
    rw [Nat.or_comm]; exact covers_self _ _

end PyElf.Proofs.C03
