/-
  Helper lemmas for the whole-file versions of the C11 theorems: from an abstract ELF description
  (Spec/ElfImage.lean) that stores a logical debug content, through C01's theorems about opening
  and enumerating a byte string that carries the description, to the section-table hypotheses
  (`Holds`) of Proofs/Container.lean.
-/
import PyElf.Proofs.Container
import PyElf.Proofs.ElfFile
namespace PyElf.Proofs.C11
open PyElf PyElf.Spec PyElf.Model PyElf.Model.C11 PyElf.Spec.C11 PyElf.Proofs

/-! ### name lookups of the reader are the description's `indexOfName` -/

theorem idxs_getLast (n : Bytes) : ∀ (secs : List Sec) (i : Nat),
    (idxs n (secs.map (·.2.1)) i).getLast? = (lastIdx secs n).map (· + i) := by
  intro secs
  induction secs with
  | nil => intro i; simp [idxs, lastIdx]
  | cons s rest ih =>
    intro i
    simp only [List.map_cons, idxs, lastIdx]
    by_cases hs : s.2.1 = n
    · have hs' : s.name = n := hs
      simp only [hs, beq_self_eq_true, if_true, getLast?_cons_or, ih, hs']
      cases lastIdx rest n with
      | none => simp
      | some j => simp; omega
    · have hs' : ¬ s.name = n := hs
      have hb : (s.2.1 == n) = false := by simpa using hs
      simp only [hb, Bool.false_eq_true, if_false, ih, hs']
      cases lastIdx rest n with
      | none => simp
      | some j => simp; omega

theorem indexOfName_eq_idxs (d : ElfDesc) (n : Bytes) :
    d.indexOfName n = (idxs n (d.sections.map (·.name)) 0).getLast? := by
  unfold ElfDesc.indexOfName
  rw [List.range_eq_range', idxs_eq_filter (fun s : SecDesc => s.name)]

/-- the index the reader's name map holds for a name is the description's -/
theorem lastIdx_obs {env : Env} {d : ElfDesc} {obs : ElfObs} (ho : d.observe env = .ok obs) (n : Bytes) :
    lastIdx obs.sections n = d.indexOfName n := by
  have h := idxs_getLast n obs.sections 0
  rw [observe_names ho, ← indexOfName_eq_idxs] at h
  rw [h]
  cases lastIdx obs.sections n <;> simp

theorem hasSection_obs {env : Env} {d : ElfDesc} {obs : ElfObs} (ho : d.observe env = .ok obs) (n : Bytes) :
    hasSection obs.sections n = (d.indexOfName n).isSome := by
  rw [hasSection, dictGet_nameMap, lastIdx_obs ho]

theorem getSectionByName_obs {env : Env} {d : ElfDesc} {obs : ElfObs} (ho : d.observe env = .ok obs) (n : Bytes) :
    getSectionByName obs.sections n =
      match d.indexOfName n with
      | none => none
      | some i => obs.sections[i]? := by
  rw [getSectionByName, dictGet_nameMap, lastIdx_obs ho]
  cases d.indexOfName n <;> rfl

/-! ### a description that stores a content -/

/-- `.zdebug_info` exists: the reader then looks for the renamed sections -/
def zfileD (d : ElfDesc) : Bool := (d.indexOfName nZdebugInfo).isSome

/-- section `sd` of the description, whose decoded header is `sh`, stores logical content `payload`
    (address `addr`) at file offset `off` under encoding `e`: the description-level `Stores` — the
    body is the description's, not yet bytes of a file -/
def StoresD (deflate : Nat → Bytes → Bytes) (d : ElfDesc) (sd : SecDesc) (sh : Val) (e : Enc)
    (payload : Bytes) (addr off : Nat) : Prop :=
  ∃ ty flags,
    sh.getField "sh_type" = .ok ty ∧ isStr ty "SHT_NOBITS" = false ∧
    sh.getNat "sh_flags" = .ok flags ∧ sh.getNat "sh_offset" = .ok off ∧
    sh.getNat "sh_size" = .ok (e.body deflate d.cls d.le payload).length ∧ sh.getNat "sh_addr" = .ok addr ∧
    sd.body = some (e.body deflate d.cls d.le payload) ∧
    off + (e.body deflate d.cls d.le payload).length < 2 ^ 63 ∧
    e.ok deflate d.cls payload flags

/-- the description `d` (reported as `obs = d.observe`) stores `content`, every section's encoding
    drawn from `allowed`: the description-level `HoldsEnc`.  Names are resolved by the description's
    own `indexOfName` (the last section bearing the name). -/
def HoldsD (names : List (String × Bytes × Bool)) (deflate : Nat → Bytes → Bytes) (d : ElfDesc) (obs : ElfObs)
    (relocate : Bool) (content : Content) (allowed : Enc → Prop) : Prop :=
  ∀ kn ∈ names,
    match content kn.1 with
    | none => d.indexOfName (secNameOf (zfileD d) kn) = none
    | some (payload, addr) =>
      ∃ (i : Nat) (sd : SecDesc) (sec : Sec) (e : Enc) (off : Nat), d.indexOfName (secNameOf (zfileD d) kn) = some i ∧
        d.sections[i]? = some sd ∧ obs.sections[i]? = some sec ∧
        NoReloc obs.sections relocate sec.name ∧
        StoresD deflate d sd sec.hdr e payload addr off ∧
        e.legacy = legacyOf (zfileD d) kn ∧ allowed e

theorem obsSec_hdr {env : Env} {d : ElfDesc} {s : SecDesc} {r : String × Bytes × Val}
    (h : obsSec env d s = .ok r) : d.S.Elf_Shdr.decodeRaw env [] s.raw = .ok r.2.2 := by
  unfold obsSec at h
  cases h1 : d.S.Elf_Shdr.decodeRaw env [] s.raw with
  | error e => simp [h1, bind, Except.bind] at h
  | ok hd =>
    cases h2 : hd.getField "sh_type" with
    | error e => simp [h1, h2, bind, Except.bind] at h
    | ok t =>
      simp [h1, h2, bind, Except.bind, pure, Except.pure] at h
      subst h; rfl

/-- in a byte string that carries the description, a section the description stores is stored -/
theorem stores_of_desc {env : Env} {deflate : Nat → Bytes → Bytes} {d : ElfDesc} {bytes : Bytes} {obs : ElfObs}
    (hL : LayoutFacts d bytes) (ho : d.observe env = .ok obs)
    {i : Nat} {sd : SecDesc} {sec : Sec} (hsd : d.sections[i]? = some sd) (hsec : obs.sections[i]? = some sec)
    {e : Enc} {payload : Bytes} {addr off : Nat}
    (hst : StoresD deflate d sd sec.hdr e payload addr off) :
    Stores deflate bytes d.cls d.le sec e payload addr off := by
  obtain ⟨hi, rfl⟩ := List.getElem?_eq_some_iff.1 hsd
  obtain ⟨hi', rfl⟩ := List.getElem?_eq_some_iff.1 hsec
  obtain ⟨ty, flags, hty, hnb, hfl, hoff, hsz, haddr, hbody, hbound, hok⟩ := hst
  obtain ⟨-, h2, -⟩ := observe_inv ho
  obtain ⟨-, hall⟩ := mapM_ok_inv _ _ _ h2
  have hdec := obsSec_hdr (hall i hi hi')
  obtain ⟨b, hb, -⟩ := hL.shdr i hi
  have hsf := sec_facts hb hdec
  have hoff' : off = getNatD (d.sections[i]).hdr "sh_offset" := by
    have h1 := hsf.nat "sh_offset" (by simp [shdrNatKeys])
    rw [hsf.raw "sh_offset" (by simp [shdrNatKeys]) (by decide)] at h1
    change (obs.sections[i]).2.2.getNat "sh_offset" = _ at hoff
    rw [h1] at hoff
    cases hoff; rfl
  have hread := hL.body _ (List.getElem_mem hi) _ hbody
  rw [← hoff'] at hread
  exact ⟨ty, bytes.drop (off + (e.body deflate d.cls d.le payload).length), flags,
    ⟨hty, hnb, hfl, hoff, hsz, haddr, drop_of_readN hread, hbound⟩, hok⟩

/-- the description-level hypothesis gives the section-table one for any opened file with the
    description's bytes, class and byte order -/
theorem holdsEnc_of_desc {P : Params} {deflate : Nat → Bytes → Bytes} {d : ElfDesc} {bytes : Bytes} {obs : ElfObs}
    {f : ElfFile} (hL : LayoutFacts d bytes) (ho : d.observe P.env = .ok obs)
    (hdata : f.data = bytes) (hcls : f.cls = d.cls) (hle : f.le = d.le)
    {relocate : Bool} {content : Content} {allowed : Enc → Prop}
    (hh : HoldsD P.names deflate d obs relocate content allowed) :
    HoldsEnc P deflate f obs.sections relocate content allowed := by
  intro kn hk
  have hz : hasSection obs.sections nZdebugInfo = zfileD d := hasSection_obs ho _
  have := hh kn hk
  rw [hz, hdata, hcls, hle]
  cases hc : content kn.1 with
  | none =>
    simp only [hc] at this ⊢
    rw [getSectionByName_obs ho, this]
  | some pa =>
    obtain ⟨payload, addr⟩ := pa
    simp only [hc] at this ⊢
    obtain ⟨i, sd, sec, e, off, hidx, hsd, hsec, hnr, hst, hleg, hal⟩ := this
    refine ⟨sec, e, off, ?_, hnr, stores_of_desc hL ho hsd hsec hst, hleg, hal⟩
    rw [getSectionByName_obs ho, hidx]
    exact hsec

/-! ### `ELFFile(stream).get_dwarf_info()` on a byte string that opens as `f` with sections `secs` -/

theorem dwarfView_loaded (P : Params) (fuel : Nat) (loader : Option Loader) (data : Bytes) (relocate followLinks : Bool)
    (f : ElfFile) (secs : List Sec) (hload : load P data = .ok (f, secs)) :
    dwarfView P (fuel + 1) loader data relocate followLinks
      = (getDwarfInfoCore P (getDwarfInfo P fuel) loader f secs relocate followLinks).map DwarfInfo.view := by
  simp only [dwarfView, getDwarfInfo, hload, liftR, bind, Except.bind]

theorem load_of_open {P : Params} {data : Bytes} {f : ElfFile} {secs : List Sec}
    (hopen : openElf P.env P.structsFor P.machineClassOf data = .ok f)
    (hsecs : iterSections P.env f.S f.data f.header f.shstr = .ok secs) :
    load P data = .ok (f, secs) := by
  simp [load, hopen, hsecs, bind, Except.bind, pure, Except.pure]

/-- what C01 establishes about opening and enumerating a byte string that carries `d` -/
structure Opened (P : Params) (d : ElfDesc) (bytes : Bytes) (obs : ElfObs) (f : ElfFile) : Prop where
  hopen : openElf P.env P.structsFor P.machineClassOf bytes = .ok f
  hdata : f.data = bytes
  hcls : f.cls = d.cls
  hle : f.le = d.le
  hS : f.S = d.S
  hheader : f.header = obs.header
  hsecs : iterSections P.env f.S bytes f.header f.shstr = .ok obs.sections

theorem Opened.load {P : Params} {d : ElfDesc} {bytes : Bytes} {obs : ElfObs} {f : ElfFile}
    (h : Opened P d bytes obs f) : load P bytes = .ok (f, obs.sections) :=
  load_of_open h.hopen (by rw [h.hdata]; exact h.hsecs)

theorem Opened.fileOk {P : Params} {deflate : Nat → Bytes → Bytes} {d : ElfDesc} {bytes : Bytes} {obs : ElfObs}
    {f : ElfFile} (h : Opened P d bytes obs f) (hcls : d.cls = 32 ∨ d.cls = 64)
    (henv : P.env.enumDecode "ENUM_ELFCOMPRESS_TYPE" 1 = some "ELFCOMPRESS_ZLIB") (hz : ZlibOk P.X deflate)
    (hph : hasPhantomBytes obs.header = .ok false) : FileOk P deflate f :=
  ⟨by rw [h.hcls]; exact hcls, by rw [h.hS, h.hcls, h.hle]; rfl, henv, hz, by rw [h.hheader]; exact hph⟩

/-- the view of an opened byte string that carries a description storing `content` -/
theorem view_of_opened {P : Params} {deflate : Nat → Bytes → Bytes} {d : ElfDesc} {bytes : Bytes} {obs : ElfObs}
    {f : ElfFile} (hop : Opened P d bytes obs f) (hL : LayoutFacts d bytes) (ho : d.observe P.env = .ok obs)
    (hcls : d.cls = 32 ∨ d.cls = 64)
    (henv : P.env.enumDecode "ENUM_ELFCOMPRESS_TYPE" 1 = some "ELFCOMPRESS_ZLIB") (hz : ZlibOk P.X deflate)
    (hph : hasPhantomBytes obs.header = .ok false)
    (fuel : Nat) (loader : Option Loader) (relocate followLinks : Bool) (content : Content) (m : Val)
    (hm : obs.header.getField "e_machine" = .ok m) {allowed : Enc → Prop}
    (hh : HoldsD P.names deflate d obs relocate content allowed)
    (hlink : linkTarget obs.sections loader followLinks = none)
    (hsup : followLinks = false ∨
      ((∃ DS, P.dwarfStructsFor ⟨d.le, 32, d.cls / 8, 2⟩ = some DS) ∧
        content "debug_sup_sec" = none ∧ content "gnu_debugaltlink_sec" = none)) :
    dwarfView P (fuel + 1) loader bytes relocate followLinks
      = .ok (.mk d.le (d.cls / 8) (P.machineArchOf m) (contentView P.names content) none) := by
  have hf : FileOk P deflate f := hop.fileOk hcls henv hz hph
  have hholds := (holdsEnc_of_desc hL ho hop.hdata hop.hcls hop.hle hh).holds
  rw [dwarfView_loaded P fuel loader bytes relocate followLinks f obs.sections hop.load,
    core_unlinked P _ loader f obs.sections relocate followLinks hlink,
    ownInfo_holds hf _ loader obs.sections relocate followLinks content m (by rw [hop.hheader]; exact hm) hholds
      (by rw [hop.hle, hop.hcls]; exact hsup),
    hop.hle, hop.hcls]

/-! ### supplementary files: what the content says about one, and the view with it attached -/

theorem viewOf_contentView_some (names : List (String × Bytes × Bool)) (content : Content) (kw : String)
    (hk : kw ∈ names.map (·.1)) :
    viewOf (contentView names content) kw = (content kw).map fun pa => ⟨pa.1, pa.1.length, pa.2⟩ := by
  induction names with
  | nil => simp at hk
  | cons kn rest ih =>
    simp only [viewOf, contentView, List.map_cons, List.find?_cons] at ih ⊢
    by_cases hkn : (kn.1 == kw) = true
    · have : kn.1 = kw := by simpa using hkn
      simp [hkn, this]
    · simp only [hkn]
      have : kn.1 ≠ kw := by simpa using hkn
      have hk' : kw ∈ rest.map (·.1) := by
        simp only [List.map_cons, List.mem_cons] at hk
        rcases hk with h | h
        · exact absurd h.symm this
        · exact h
      exact ih hk'

/-- a keyword the content has something for is delivered with exactly that payload as its stream -/
theorem descrOf_of_content (ds : List (String × Option Descr)) (names : List (String × Bytes × Bool))
    (content : Content) (kw : String) (payload : Bytes) (addr : Nat)
    (hv : secViews ds = contentView names content) (hk : kw ∈ names.map (·.1))
    (h : content kw = some (payload, addr)) : ∃ d, descrOf ds kw = some d ∧ d.stream = payload := by
  have := descrOf_view ds kw
  rw [hv, viewOf_contentView_some names content kw hk, h] at this
  cases hd : descrOf ds kw with
  | none => simp [hd] at this
  | some d =>
    refine ⟨d, rfl, ?_⟩
    simp only [hd, Option.map_some, Option.some.injEq] at this
    have := congrArg SecView.stream this
    simpa [Descr.view] using this

/-- what a file's content says about a supplementary file (DWARF 5 §7.3.6 `.debug_sup`; DWZ
    `.gnu_debugaltlink`): the path it names, if any.  `.debug_sup` with `is_supplementary = 0` names
    one and takes precedence; `.gnu_debugaltlink` names one; a file that is itself a supplementary
    file (`is_supplementary = 1`) names none. -/
inductive SupLink (le : Bool) (content : Content) : Option Bytes → Prop
  | none : content "debug_sup_sec" = Option.none → content "gnu_debugaltlink_sec" = Option.none →
      SupLink le content Option.none
  | debugSup (version : Nat) (path checksum junk : Bytes) (a : Nat) :
      content "debug_sup_sec" = some (encDebugSup le version 0 path checksum ++ junk, a) → (∀ b ∈ path, b ≠ 0) →
      SupLink le content (some path)
  | altlink (path buildId junk : Bytes) (a : Nat) :
      content "debug_sup_sec" = Option.none →
      content "gnu_debugaltlink_sec" = some (encAltlink path buildId ++ junk, a) → (∀ b ∈ path, b ≠ 0) →
      buildId.length = 20 → SupLink le content (some path)
  | isSup (version : Nat) (path checksum junk : Bytes) (a : Nat) :
      content "debug_sup_sec" = some (encDebugSup le version 1 path checksum ++ junk, a) → (∀ b ∈ path, b ≠ 0) →
      content "gnu_debugaltlink_sec" = Option.none → SupLink le content Option.none

theorem parseDebugSupInfo_isSup (env : Env) (DS : DwarfStructs) (le : Bool) (hDS : DS.Dwarf_debugsup = debugsupCon le)
    (ds : List (String × Option Descr)) (d : Descr) (version : Nat) (path checksum junk : Bytes)
    (h1 : descrOf ds "debug_sup_sec" = some d) (h2 : descrOf ds "gnu_debugaltlink_sec" = none)
    (hd : d.stream = encDebugSup le version 1 path checksum ++ junk) (hnul : ∀ b ∈ path, b ≠ 0) :
    parseDebugSupInfo env DS ds = .ok none := by
  obtain ⟨v, hv, hf, hi⟩ := parse_debugsup env le version 1 path checksum junk hnul (by omega)
  simp [parseDebugSupInfo, h1, h2, hDS, hd, hv, hi, bind, Except.bind, pure, Except.pure]

theorem parseDebugSupInfo_of_link (env : Env) (DS : DwarfStructs) (le : Bool)
    (hA : DS.Dwarf_debugaltlink = altlinkCon) (hS : DS.Dwarf_debugsup = debugsupCon le)
    (ds : List (String × Option Descr)) (names : List (String × Bytes × Bool)) (content : Content) (p : Option Bytes)
    (hv : secViews ds = contentView names content)
    (hk1 : "debug_sup_sec" ∈ names.map (·.1)) (hk2 : "gnu_debugaltlink_sec" ∈ names.map (·.1))
    (h : SupLink le content p) : parseDebugSupInfo env DS ds = .ok p := by
  cases h with
  | none h1 h2 =>
    exact parseDebugSupInfo_none env DS ds (descrOf_none_of_content ds names content _ hv h1)
      (descrOf_none_of_content ds names content _ hv h2)
  | debugSup version path checksum junk a h1 hnul =>
    obtain ⟨d, hd, hs⟩ := descrOf_of_content ds names content _ _ _ hv hk1 h1
    exact parseDebugSupInfo_debugsup env DS le hS ds d version path checksum junk hd hs hnul
  | altlink path buildId junk a h1 h2 hnul hid =>
    obtain ⟨d, hd, hs⟩ := descrOf_of_content ds names content _ _ _ hv hk2 h2
    exact parseDebugSupInfo_altlink env DS hA ds d path buildId junk
      (descrOf_none_of_content ds names content _ hv h1) hd hs hnul hid
  | isSup version path checksum junk a h1 hnul h2 =>
    obtain ⟨d, hd, hs⟩ := descrOf_of_content ds names content _ _ _ hv hk1 h1
    exact parseDebugSupInfo_isSup env DS le hS ds d version path checksum junk hd
      (descrOf_none_of_content ds names content _ hv h2) hs hnul

/-- what `SupLink` needs of the parameters: the two keywords are in the reader's table and the
    DWARF structs of the file's configuration are the Spec's -/
structure SupOk (P : Params) (f : ElfFile) : Prop where
  hk1 : "debug_sup_sec" ∈ P.names.map (·.1)
  hk2 : "gnu_debugaltlink_sec" ∈ P.names.map (·.1)
  hDS : ∃ DS, P.dwarfStructsFor ⟨f.le, 32, f.cls / 8, 2⟩ = some DS ∧
    DS.Dwarf_debugaltlink = altlinkCon ∧ DS.Dwarf_debugsup = debugsupCon f.le

/-- a file opened WITHOUT a stream loader: whatever its content says about a supplementary file,
    none is attached — the view is the file's own content -/
theorem ownInfo_no_loader {P : Params} {deflate : Nat → Bytes → Bytes} {f : ElfFile} (hf : FileOk P deflate f)
    (hs : SupOk P f) (again : Option Loader → Bytes → Bool → Bool → V DwarfInfo)
    (secs : List Sec) (relocate followLinks : Bool) (content : Content) (m : Val)
    (hm : f.header.getField "e_machine" = .ok m)
    (hh : Holds P deflate f secs relocate content) (p : Option Bytes) (hsl : SupLink f.le content p) :
    (ownInfo P again none f secs relocate followLinks).map DwarfInfo.view
      = .ok (.mk f.le (f.cls / 8) (P.machineArchOf m) (contentView P.names content) none) := by
  obtain ⟨ds, hds, hv⟩ := readAll_holds hf secs relocate content P.names hh
  obtain ⟨DS, hDS, hA, hS⟩ := hs.hDS
  have hp := parseDebugSupInfo_of_link P.env DS f.le hA hS ds P.names content p hv hs.hk1 hs.hk2 hsl
  cases followLinks <;>
    simp [ownInfo, supplementary_no_loader P again f ds DS p hDS hp, hds, hm, liftR, bind, Except.bind,
          pure, Except.pure, Except.map, DwarfInfo.view] <;>
    exact hv

/-- a file whose content names a supplementary file, opened with a loader that has it, links on:
    the view is the file's own content with the supplementary file's view attached -/
theorem ownInfo_with_sup {P : Params} {deflate : Nat → Bytes → Bytes} {f : ElfFile} (hf : FileOk P deflate f)
    (hs : SupOk P f) (again : Option Loader → Bytes → Bool → Bool → V DwarfInfo) (ld : Loader)
    (secs : List Sec) (relocate : Bool) (content : Content) (m : Val)
    (hm : f.header.getField "e_machine" = .ok m)
    (hh : Holds P deflate f secs relocate content) (path supData : Bytes) (hsl : SupLink f.le content (some path))
    (hld : ld path = some supData) (sv : View)
    (hsv : (again none supData true true).map DwarfInfo.view = .ok sv) :
    (ownInfo P again (some ld) f secs relocate true).map DwarfInfo.view
      = .ok (.mk f.le (f.cls / 8) (P.machineArchOf m) (contentView P.names content) (some sv)) := by
  obtain ⟨ds, hds, hv⟩ := readAll_holds hf secs relocate content P.names hh
  obtain ⟨DS, hDS, hA, hS⟩ := hs.hDS
  have hp := parseDebugSupInfo_of_link P.env DS f.le hA hS ds P.names content (some path) hv hs.hk1 hs.hk2 hsl
  have hsupp := supplementary_followed P again ld f ds DS path supData hDS hp hld
  cases ha : again none supData true true with
  | error e => simp [ha, Except.map] at hsv
  | ok si =>
    simp only [ha, Except.map, Except.ok.injEq] at hsv hsupp
    subst hsv
    simp [ownInfo, hsupp, hds, hm, liftR, bind, Except.bind, pure, Except.pure, Except.map, DwarfInfo.view]
    exact hv

end PyElf.Proofs.C11
