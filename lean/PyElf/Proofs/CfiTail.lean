/-
  C06 helper lemmas: the entry theorems of Proofs/CfiEntries.lean / CfiEhFde.lean for data that CONTINUES after the
  encoded section (`encodeSection sec ++ junk`): the well-formed entries are parsed exactly as before, whatever
  follows them (`entry_at_j`), so the section scan over a well-formed prefix hands over to whatever comes next
  (`loop_prefix`, `parseEntries_prefix`) — a malformed entry after well-formed ones ends `get_entries()` with that
  entry's error (`parseEntries_then_error`).  The proofs are those of the originals, with `junk` carried along.
-/
import PyElf.Proofs.CfiEntries
import PyElf.Proofs.CfiEhFde
import PyElf.Proofs.CfiFile
import PyElf.Proofs.CfiMalformedEntry
import PyElf.Proofs.CfiMalformedCut
namespace PyElf.Proofs.CfiTail
open PyElf PyElf.Spec PyElf.Model PyElf.Proofs PyElf.Proofs.Cfi

theorem drop_offsetOf_j (sec : Section) (junk : Bytes) (i : Nat) (e : Spec.Entry) (h : sec.entries[i]? = some e) :
    (encodeSection sec ++ junk).drop (sec.offsetOf i)
      = e.enc sec (sec.offsetOf i) ++ (encFrom sec (sec.offsetOf (i + 1)) (sec.entries.drop (i + 1)) ++ junk) := by
  have h0 := drop_offsetOf sec i e h
  have hl : sec.offsetOf i ≤ (encodeSection sec).length := by
    rw [← offsetOf_end]
    simp only [Section.offsetOf, List.take_length]
    have h1 : ((sec.entries.map (Entry.size sec))).sum
        = ((sec.entries.take i).map (Entry.size sec)).sum + ((sec.entries.drop i).map (Entry.size sec)).sum := by
      rw [← List.sum_append, ← List.map_append, List.take_append_drop]
    omega
  rw [List.drop_append_of_le_length hl, h0, List.append_assoc]

theorem offsetOf_succ_le_j (sec : Section) (junk : Bytes) (hwf : sec.wf = true) (i : Nat) (hi : i < sec.entries.length) :
    sec.offsetOf (i + 1) ≤ (encodeSection sec ++ junk).length := by
  have := offsetOf_succ_le sec hwf i hi
  simp only [List.length_append]; omega

def FdeMissOkJ (sec : Section) (env : Env) (junk : Bytes) : Prop :=
  ∀ (i : Nat) (f : Fde) (c : Cie), sec.entries[i]? = some (.fde f) → sec.cieAt f.cie = some c →
    ∀ (fuel pos : Nat) (cache : Cache), CacheInv sec cache → cache.get (sec.offsetOf i : Int) = none →
    ∃ cache', parseEntryAt (cfiOf sec env (encodeSection sec ++ junk)) (fuel + 2) (sec.offsetOf i) pos cache
        = .ok (mFde sec (sec.offsetOf i) f c, sec.offsetOf i + Entry.size sec (.fde f), cache')
      ∧ CacheInv sec cache'

theorem cie_miss_j (sec : Section) (env : Env) (hwf : sec.wf = true) (junk : Bytes) (hsz : (encodeSection sec ++ junk).length < 2 ^ 63)
    (j : Nat) (c : Cie) (hj : sec.entries[j]? = some (.cie c)) (fuel pos : Nat) (cache : Cache)
    (hmiss : cache.get (sec.offsetOf j : Int) = none) :
    parseEntryAt (cfiOf sec env (encodeSection sec ++ junk)) (fuel + 1) (sec.offsetOf j) pos cache
      = .ok (mCie sec (sec.offsetOf j) c, sec.offsetOf j + Entry.size sec (.cie c),
             ((sec.offsetOf j : Int), mCie sec (sec.offsetOf j) c) :: cache) := by
  have hw := wf_at sec hwf j _ hj
  have hd := drop_offsetOf_j sec junk j _ hj
  have hle := offsetOf_succ_le_j sec junk hwf j (getElem?_lt hj)
  rw [offsetOf_succ sec j _ hj] at hle
  generalize hrest : encFrom sec (sec.offsetOf (j + 1)) (sec.entries.drop (j + 1)) ++ junk = restS at hd
  generalize sec.offsetOf j = off at *
  generalize hdata : encodeSection sec ++ junk = data at *
  simp only [wfEntry, Cie.wf, Bool.and_eq_true] at hw
  obtain ⟨⟨⟨⟨⟨⟨⟨⟨hkind, hv4⟩, hcaf⟩, hdaf⟩, hra⟩, haug⟩, hins⟩, hsl⟩, hlen⟩ := hw
  have hasz := asz_of_wf sec hwf
  have hL := cie_size_eq sec c
  have hd' : data.drop off = encLength sec.le c.fmt64 (c.body sec).length ++
      cieHdrBytes sec.le (offSize c.fmt64) (cieIdv sec c) c.version (augString c.aug) c.addrSize c.segSize c.caf c.daf
        c.ra (cieAugPart sec c ++ (encInstrs sec.le sec.asz c.instrs ++ restS)) := by
    rw [hd]; simp only [Entry.enc, List.append_assoc]; congr 1
    rw [cie_body_eq, cieHdrBytes_append, List.append_assoc]
  clear hd
  have hver : c.version = 1 ∨ c.version = 3 ∨ c.version = 4 := by
    cases heh : sec.eh <;> simp [heh] at hkind <;> omega
  have hid : cieIdv sec c < 256 ^ offSize c.fmt64 := by
    unfold cieIdv; split
    · exact Nat.pow_pos (by decide)
    · exact Nat.sub_lt (Nat.pow_pos (by decide)) (by decide)
  have ha : 4 ≤ c.version → c.addrSize < 256 := by
    intro h4
    simp only [Bool.or_eq_true, decide_eq_true_eq, Bool.and_eq_true, beq_iff_eq] at hv4
    omega
  have hs : 4 ≤ c.version → c.segSize < 256 := by
    intro h4
    simp only [Bool.or_eq_true, decide_eq_true_eq, Bool.and_eq_true, beq_iff_eq] at hv4
    omega
  have hra' : if c.version = 1 then c.ra.v < 256 else c.ra.wf = true := by
    split at hra
    · rename_i h1; simp only [h1, if_true]; simpa using hra
    · rename_i h1; simp only [h1, if_false]; exact hra
  have hwords := entry_words (env := env) hd' hlen hid
  have hhdr := sp_cie_header (env := env) hd' hlen hid hver (augString_nonzero c.aug) ha hs hcaf hdaf hra'
  obtain ⟨pre, hprelen, hpre⟩ := cieHdrBytes_split sec.le (offSize c.fmt64) (cieIdv sec c) c.version (augString c.aug)
    c.addrSize c.segSize c.caf c.daf c.ra (cieAugPart sec c ++ (encInstrs sec.le sec.asz c.instrs ++ restS))
  have hd1 := drop_after hd' (encLength_length ..)
  rw [hpre] at hd1
  have hd2 := drop_after hd1 hprelen
  have hd3 := drop_after hd2 rfl
  -- the augmentation
  have haugp : parseCieAugmentation (cfiOf sec env data) (Spec.dwarfStructs ⟨sec.le, fmtOf c.fmt64, sec.asz, 2⟩)
      (cieFields (c.body sec).length (cieIdv sec c) c.version (augString c.aug) c.addrSize c.segSize c.caf.v c.daf.v c.ra.v)
      (off + ilfs c.fmt64 + cieHdrLen (offSize c.fmt64) c.version (augString c.aug) c.caf c.daf c.ra)
      = .ok (cieAugBytes sec c, augDictObs sec.le sec.asz c.aug,
          off + ilfs c.fmt64 + cieHdrLen (offSize c.fmt64) c.version (augString c.aug) c.caf c.daf c.ra
            + (cieAugPart sec c).length) := by
    cases hau : c.aug with
    | none =>
      rw [cieAug_none (by rw [cieFields_aug]; rfl)]
      simp [cieAugBytes, cieAugPart, hau, augDictObs]
    | some items =>
      cases heh : sec.eh with
      | false => simp [heh, hau] at hkind
      | true =>
        rw [hau] at haug
        simp only [Bool.and_eq_true, decide_eq_true_eq, List.all_eq_true] at haug
        have hd2' : (cfiOf sec env data).data.drop
            (off + ilfs c.fmt64 + cieHdrLen (offSize c.fmt64) c.version (augString c.aug) c.caf c.daf c.ra)
            = encUlebN c.augLenN (augData sec.le sec.asz items).length ++ (augData sec.le sec.asz items
                ++ (encInstrs sec.le sec.asz c.instrs ++ restS)) := by
          rw [show (cfiOf sec env data).data = data from rfl, hd2]
          simp [cieAugPart, hau, heh, List.append_assoc]
        rw [← hau]
        rw [cieAug_some (C := cfiOf sec env data) rfl heh (by rw [cieFields_aug, hau]; rfl) haug.1.1.1 haug.1.1.2
          haug.1.2 haug.2 hd2']
        simp [cieAugBytes, cieAugPart, hau, heh, encUlebN_length, Nat.add_assoc]
  -- the instructions
  have hinsw : ∀ i ∈ c.instrs, Cfa.wf sec.asz i = true := by simpa [List.all_eq_true] using hins
  have hil := instrs_length_le sec.le sec.asz c.instrs
  have hsize : Entry.size sec (.cie c) = ilfs c.fmt64 + (c.body sec).length := rfl
  have hpi := parseInstructions_ok (instrStructs_spec sec.le (fmtOf c.fmt64) sec.asz 2) env data c.instrs
    (off + ilfs c.fmt64 + cieHdrLen (offSize c.fmt64) c.version (augString c.aug) c.caf c.daf c.ra
      + (cieAugPart sec c).length)
    (data.length + 1 - (off + ilfs c.fmt64 + cieHdrLen (offSize c.fmt64) c.version (augString c.aug) c.caf c.daf c.ra
      + (cieAugPart sec c).length)) restS hd3 hinsw (by omega)
  have hend : off + (c.body sec).length + ilfs c.fmt64
      = off + ilfs c.fmt64 + cieHdrLen (offSize c.fmt64) c.version (augString c.aug) c.caf c.daf c.ra
        + (cieAugPart sec c).length + (encInstrs sec.le sec.asz c.instrs).length := by omega
  have hbpos : 0 < (c.body sec).length := by
    rw [hL]; unfold cieHdrLen offSize; split <;> omega
  obtain ⟨hw1, hw2⟩ := first_word sec.eh c.fmt64 _ hlen hbpos
  have hisCie : (if sec.eh = true then (cieIdv sec c == 0)
      else (fmtOf c.fmt64 == 32 && cieIdv sec c == 0xFFFFFFFF) || cieIdv sec c == 0xFFFFFFFFFFFFFFFF) = true := by
    unfold cieIdv fmtOf offSize
    cases sec.eh <;> cases c.fmt64 <;> decide
  have hoff : off < 2 ^ 63 := by omega
  have hw2' := hwords.2
  rw [fmtOf_div] at hw2'
  rw [parseEntryAt]
  simp only [hmiss, seekPos_nat off hoff, cfiOf_structs, cfiOf_eh, cfiOf_data, cfiOf_env, cfiOf_T, bind, Except.bind, pure,
    Except.pure, the_u32_eq, hwords.1, asNat_nat,
    hw1, hw2, Bool.false_eq_true, if_false, fmtOf_ilfs, the_offset_eq, fmtOf_div, hw2', hisCie, if_true, eh_cie_header_eq,
    cie_header_eq, ite_self, hhdr, asFields, haugp, cieFields_length, hend, hpi]
  rw [← hend, show off + (c.body sec).length + ilfs c.fmt64 = off + Entry.size sec (.cie c) by rw [hsize]; omega]
  rfl

theorem cie_fetch_j (sec : Section) (env : Env) (hwf : sec.wf = true) (junk : Bytes) (hsz : (encodeSection sec ++ junk).length < 2 ^ 63)
    (j : Nat) (c : Cie) (hj : sec.entries[j]? = some (.cie c)) (fuel pos : Nat) (cache : Cache)
    (hinv : CacheInv sec cache) :
    parseEntryAt (cfiOf sec env (encodeSection sec ++ junk)) (fuel + 1) (sec.offsetOf j) pos cache
      = .ok (mCie sec (sec.offsetOf j) c,
             (match cache.get (sec.offsetOf j : Int) with
              | some _ => pos + Entry.size sec (.cie c) | none => sec.offsetOf j + Entry.size sec (.cie c)),
             Kc (sec.offsetOf j : Int) (mCie sec (sec.offsetOf j) c) cache) := by
  cases hk : cache.get (sec.offsetOf j : Int) with
  | some e =>
    rw [entry_hit sec env _ hwf j _ hj fuel pos cache hinv e hk]
    simp only [Kc, hk]; rfl
  | none =>
    rw [cie_miss_j sec env hwf junk hsz j c hj fuel pos cache hk]
    simp only [Kc, hk]

theorem link_ok_j (sec : Section) (env : Env) (hwf : sec.wf = true) (junk : Bytes) (hsz : (encodeSection sec ++ junk).length < 2 ^ 63)
    (off : Nat) (f : Fde) (c : Cie) (hc : sec.cieAt f.cie = some c)
    (hback : sec.eh = true → f.fmt64 = false ∧ sec.offsetOf f.cie < off)
    (header : Fields) (hptr : Fields.getR header "CIE_pointer" = .ok (.int (sec.ciePointer off f)))
    (fuel pos : Nat) (cache : Cache) (hinv : CacheInv sec cache) :
    parseCieForFde (cfiOf sec env (encodeSection sec ++ junk)) (parseEntryAt (cfiOf sec env (encodeSection sec ++ junk)) (fuel + 1))
        off header (fmtOf f.fmt64) pos cache
      = .ok (mCie sec (sec.offsetOf f.cie) c,
             Kc (sec.offsetOf f.cie : Int) (mCie sec (sec.offsetOf f.cie) c) cache) := by
  have hj := cieAt_get hc
  have hf := cie_fetch_j sec env hwf junk hsz f.cie c hj fuel pos cache hinv
  unfold parseCieForFde
  cases heh : sec.eh with
  | false =>
    simp only [hptr, Val.asInt, bind, Except.bind, pure, Except.pure, cfiOf_eh, heh, Bool.false_eq_true, if_false]
    rw [show sec.ciePointer off f = sec.offsetOf f.cie by simp [Section.ciePointer, heh], hf]
  | true =>
    obtain ⟨h64, hlt⟩ := hback heh
    simp only [hptr, Val.asInt, bind, Except.bind, pure, Except.pure, cfiOf_eh, heh, if_true]
    have : ((off : Int) + ((fmtOf f.fmt64 / 8 : Nat) : Int) - (sec.ciePointer off f : Int)) = (sec.offsetOf f.cie : Int) := by
      simp only [Section.ciePointer, heh, h64, fmtOf, ilfs, if_true, Bool.false_eq_true, if_false]
      omega
    rw [this, hf]

theorem fde_miss_df_j (sec : Section) (env : Env) (hwf : sec.wf = true) (junk : Bytes) (hsz : (encodeSection sec ++ junk).length < 2 ^ 63)
    (heh : sec.eh = false) (i : Nat) (f : Fde) (c : Cie) (hi : sec.entries[i]? = some (.fde f))
    (hc : sec.cieAt f.cie = some c) (fuel pos : Nat) (cache : Cache) (hinv : CacheInv sec cache)
    (hmiss : cache.get (sec.offsetOf i : Int) = none) :
    ∃ cache', parseEntryAt (cfiOf sec env (encodeSection sec ++ junk)) (fuel + 2) (sec.offsetOf i) pos cache
        = .ok (mFde sec (sec.offsetOf i) f c, sec.offsetOf i + Entry.size sec (.fde f), cache')
      ∧ CacheInv sec cache' := by
  have hw := wf_at sec hwf i _ hi
  have hj := cieAt_get hc
  have hwc := wf_at sec hwf f.cie _ hj
  have hd := drop_offsetOf_j sec junk i _ hi
  have hle := offsetOf_succ_le_j sec junk hwf i (getElem?_lt hi)
  rw [offsetOf_succ sec i _ hi] at hle
  have hmodel : modelOf sec (sec.offsetOf i) (.fde f) = mFde sec (sec.offsetOf i) f c := by simp only [modelOf, hc]
  have hinvI : ∀ ch : Cache, CacheInv sec ch →
      CacheInv sec (((sec.offsetOf i : Int), mFde sec (sec.offsetOf i) f c) :: ch) :=
    fun ch h => by rw [← hmodel]; exact h.cons i (.fde f) hi (by simp)
  have hinvK : ∀ ch : Cache, CacheInv sec ch →
      CacheInv sec (Kc (sec.offsetOf f.cie : Int) (mCie sec (sec.offsetOf f.cie) c) ch) :=
    fun ch h => h.Kc f.cie (.cie c) hj (by simp)
  have hlink := fun (hdr : Fields) (hp : Fields.getR hdr "CIE_pointer" = .ok (.int (sec.ciePointer (sec.offsetOf i) f)))
      (p : Nat) (ch : Cache) (h : CacheInv sec ch) =>
    link_ok_j sec env hwf junk hsz (sec.offsetOf i) f c hc (by intro h; rw [heh] at h; cases h) hdr hp fuel p ch h
  generalize hrest : encFrom sec (sec.offsetOf (i + 1)) (sec.entries.drop (i + 1)) ++ junk = restS at hd
  generalize hk : sec.offsetOf f.cie = k at *
  generalize sec.offsetOf i = off at *
  generalize hdata : encodeSection sec ++ junk = data at *
  simp only [wfEntry, Fde.wf, hc, heh, Bool.false_eq_true, if_false, Bool.and_eq_true, decide_eq_true_eq] at hw
  obtain ⟨⟨⟨⟨⟨hfl, hfr⟩, hkl⟩, hins⟩, _⟩, hlen⟩ := hw
  simp only [wfEntry, Cie.wf, heh, Bool.false_eq_true, if_false, Bool.and_eq_true] at hwc
  have haugn : c.aug = none := by
    have := hwc.1.1.1.1.1.1.1.1.2
    cases h : c.aug with
    | none => rfl
    | some x => rw [h] at this; cases this
  have hptrv : sec.ciePointer off f = k := by simp [Section.ciePointer, heh, hk]
  have htail : f.tail sec c = encPtr sec.le sec.asz 0 f.loc ++ (encPtr sec.le sec.asz 0 f.range
      ++ encInstrs sec.le sec.asz f.instrs) := by
    simp [Fde.tail, Fde.augPart, heh, encPtr, List.append_assoc]
  have htl : (f.tail sec c).length = sec.asz + sec.asz + (encInstrs sec.le sec.asz f.instrs).length := by
    rw [htail]; simp [encPtr0_length]; omega
  have hd' : data.drop off = encLength sec.le f.fmt64 (offSize f.fmt64 + (f.tail sec c).length) ++
      (encNat sec.le (offSize f.fmt64) k ++ (encPtr sec.le sec.asz 0 f.loc ++ (encPtr sec.le sec.asz 0 f.range
        ++ (encInstrs sec.le sec.asz f.instrs ++ restS)))) := by
    rw [hd]; simp only [Entry.enc, hc, hptrv, List.append_assoc]; rw [htail]; simp only [List.append_assoc]
  clear hd
  have hkl' : k < 256 ^ offSize f.fmt64 := by omega
  have hwords := entry_words (env := env) hd' hlen hkl'
  have hw2' := hwords.2
  rw [fmtOf_div] at hw2'
  have hd1 := drop_after hd' (encLength_length ..)
  have hd2 := drop_after hd1 (encNat_length ..)
  have hd3 := drop_after hd2 (encPtr0_length ..)
  have hd4 := drop_after hd3 (encPtr0_length ..)
  have hhdr := sp_fde_full (env := env) (c := .uint sec.asz sec.le) hd' hlen hkl'
    (fun ctx => by
      have := parse_ptr (env := env) (ctx := ctx) (le := sec.le) (asz := sec.asz) (base := 0) rfl hfl hd2
      rwa [encPtr0_length] at this)
    (fun ctx => by
      have := parse_ptr (env := env) (ctx := ctx) (le := sec.le) (asz := sec.asz) (base := 0) rfl hfr hd3
      rwa [encPtr0_length] at this)
  have hinsw : ∀ x ∈ f.instrs, Cfa.wf sec.asz x = true := by simpa [List.all_eq_true] using hins
  have hil := instrs_length_le sec.le sec.asz f.instrs
  have hsize : Entry.size sec (.fde f) = ilfs f.fmt64 + offSize f.fmt64 + (f.tail sec c).length := by
    simp only [Entry.size, hc]
  have hpi := parseInstructions_ok (instrStructs_spec sec.le (fmtOf f.fmt64) sec.asz 2) env data f.instrs
    (off + ilfs f.fmt64 + offSize f.fmt64 + sec.asz + sec.asz)
    (data.length + 1 - (off + ilfs f.fmt64 + offSize f.fmt64 + sec.asz + sec.asz)) restS hd4 hinsw (by omega)
  have hend : off + (offSize f.fmt64 + (f.tail sec c).length) + ilfs f.fmt64
      = off + ilfs f.fmt64 + offSize f.fmt64 + sec.asz + sec.asz + (encInstrs sec.le sec.asz f.instrs).length := by omega
  have hbpos : 0 < offSize f.fmt64 + (f.tail sec c).length := by unfold offSize; split <;> omega
  obtain ⟨hw1, hw2⟩ := first_word sec.eh f.fmt64 _ hlen hbpos
  have hisCie : ((fmtOf f.fmt64 == 32 && k == 0xFFFFFFFF) || k == 0xFFFFFFFFFFFFFFFF) = false := by
    revert hkl; unfold fmtOf offSize
    cases f.fmt64 <;> simp <;> omega
  have hoff : off < 2 ^ 63 := by omega
  have hfp : Fields.getR (fdeFields sec off f c) "CIE_pointer" = .ok (.int (sec.ciePointer off f)) := fdeFields_ptr ..
  have hfields : [("length", Val.int ((offSize f.fmt64 + (f.tail sec c).length : Nat) : Int)), ("CIE_pointer", Val.int (k : Nat)),
      ("initial_location", Val.int f.loc), ("address_range", Val.int f.range)] = fdeFields sec off f c := by
    simp [fdeFields, hptrv, pcrelAdj, fdeEncIn, heh]
  rw [hfields] at hhdr
  refine ⟨_, ?_, hinvI _ (hinvK _ (hinvK _ hinv))⟩
  rw [parseEntryAt]
  simp only [hmiss, seekPos_nat off hoff, cfiOf_structs, cfiOf_eh, cfiOf_data, cfiOf_env, cfiOf_T, bind, Except.bind, pure,
    Except.pure, the_u32_eq, hwords.1, asNat_nat,
    hw1, hw2, Bool.false_eq_true, if_false, fmtOf_ilfs, the_offset_eq, fmtOf_div, hw2', heh, hisCie,
    parseFdeHeader, Bool.not_false, if_true, fde_header_eq, hhdr, asFields,
    hlink _ hfp _ _ hinv, hlink _ hfp _ _ (hinvK _ hinv), mCie_header, mCie_augDict, cieFields_aug, haugn]
  have hflen : Fields.getR (fdeFields sec off f c) "length" = .ok (.int ((offSize f.fmt64 + (f.tail sec c).length : Nat) : Int)) := rfl
  simp only [Bool.false_and, Bool.false_eq_true, if_false, Option.getD, augString, List.isPrefixOf, augDictObs, Fields.get?,
    ne_eq, not_true_eq_false, hflen, asNat_nat, hend, hpi, hlink _ hfp _ _ (hinvK _ hinv), pure, Except.pure]
  have hmf : mFde sec off f c = Model.Entry.fde (fdeFields sec off f c) (List.map toInstr f.instrs) off (mCie sec k c) []
      none (fmtOf f.fmt64) := by
    simp [mFde, hk, Fde.augPart, heh]
  have hpos : off + ilfs f.fmt64 + offSize f.fmt64 + sec.asz + sec.asz + (encInstrs sec.le sec.asz f.instrs).length
      = off + Entry.size sec (.fde f) := by rw [hsize]; omega
  rw [hmf, hpos]

theorem fdeHeader_eh_j (sec : Section) (env : Env) (hwf : sec.wf = true) (junk : Bytes) (hsz : (encodeSection sec ++ junk).length < 2 ^ 63)
    (heh : sec.eh = true) (off : Nat) (f : Fde) (c : Cie) (hc : sec.cieAt f.cie = some c)
    (h64 : f.fmt64 = false) (hback : sec.offsetOf f.cie < off)
    (hptr : sec.ciePointer off f < 256 ^ 4)
    (hencok : encOk c.fdeEnc = true) (h256 : c.fdeEnc < 256)
    (hfl : ptrFits sec.asz (c.fdeEnc % 16) f.loc = true) (hfr : ptrFits sec.asz (c.fdeEnc % 16) f.range = true)
    (hlen : lenOk false (4 + (f.tail sec c).length) = true) (rest : Bytes)
    (hd : (encodeSection sec ++ junk).drop off = encLength sec.le false (4 + (f.tail sec c).length) ++
        (encNat sec.le 4 (sec.ciePointer off f) ++ (encPtr sec.le sec.asz (c.fdeEnc % 16) f.loc ++
          (encPtr sec.le sec.asz (c.fdeEnc % 16) f.range ++ rest))))
    (fuel : Nat) (cache : Cache) (hinv : CacheInv sec cache) :
    parseFdeHeader (cfiOf sec env (encodeSection sec ++ junk)) (parseEntryAt (cfiOf sec env (encodeSection sec ++ junk)) (fuel + 1))
        (Spec.dwarfStructs ⟨sec.le, 32, sec.asz, 2⟩) 32 off cache
      = .ok (fdeFields sec off f c,
             off + 4 + 4 + (encPtr sec.le sec.asz (c.fdeEnc % 16) f.loc).length
               + (encPtr sec.le sec.asz (c.fdeEnc % 16) f.range).length,
             Kc (sec.offsetOf f.cie : Int) (mCie sec (sec.offsetOf f.cie) c) cache) := by
  obtain ⟨hbase, hmod⟩ := encOk_split hencok
  obtain ⟨cc, hcc⟩ := ptrCon_of_baseOk sec.le sec.asz c.fdeEnc hbase
  have hmin := sp_fde_min (env := env) hd hlen hptr
  have hd1 := drop_after hd (encLength_length ..)
  have hd2 := drop_after hd1 (encNat_length ..)
  have hd3 := drop_after hd2 rfl
  have hfull := sp_fde_full (env := env) (c := cc) hd hlen hptr
    (fun ctx => parse_ptr (env := env) (ctx := ctx) hcc hfl hd2) (fun ctx => parse_ptr (env := env) (ctx := ctx) hcc hfr hd3)
  have hil : ilfs false = 4 := rfl
  rw [hil] at hmin hfull
  have hlink := link_ok_j sec env hwf junk hsz off f c hc (fun _ => ⟨h64, hback⟩)
    [("length", .int ((4 + (f.tail sec c).length : Nat) : Int)), ("CIE_pointer", .int (sec.ciePointer off f))]
    (by simp (config := { decide := true }) [Fields.getR, Fields.get?]) fuel (off + 4 + 4) cache hinv
  have hfm : fmtOf f.fmt64 = 32 := by rw [h64]; rfl
  rw [hfm] at hlink
  have hdict : (match Fields.get? (augDictObs sec.le sec.asz c.aug) "FDE_encoding" with
     | some v => v.asNat | none => (Except.ok 0 : R Nat)) = .ok c.fdeEnc := dict_fdeEnc sec.le sec.asz c.aug
  have hne := encOk_ne_ff hencok
  have hm := and_f0_aux c.fdeEnc h256
  have hff : fdeFields sec off f c = [("length", Val.int ((4 + (f.tail sec c).length : Nat) : Int)),
      ("CIE_pointer", Val.int (sec.ciePointer off f)),
      ("initial_location", Val.int (f.loc + if c.fdeEnc / 16 % 8 = 1 then (sec.address : Int) + ((off + 4 + 4 : Nat) : Int) else 0)),
      ("address_range", Val.int f.range)] := by
    simp [fdeFields, h64, offSize, ilfs, fdeLocOff, fdeEncIn, heh, pcrelAdj]
  rw [hff]
  have hef := ehField_spec sec.le 32 sec.asz 2 _ cc hcc
  unfold parseFdeHeader
  simp only [cfiOf_eh, cfiOf_env, cfiOf_data, cfiOf_T, heh, Bool.not_true, Bool.false_eq_true, if_false,
    dwarf_initlen_eq, dwarf_offset_eq, show (32 / 8 : Nat) = 4 from rfl, hmin, asFields, bind, Except.bind, pure, Except.pure,
    hlink, mCie_augDict, pe_absptr, pe_omit, pe_pcrel]
  generalize hE : c.fdeEnc = E at *
  cases hg : Fields.get? (augDictObs sec.le sec.asz c.aug) "FDE_encoding" with
  | none =>
    simp only [hg, Except.ok.injEq] at hdict
    subst hdict
    simp only [hne, and_0F, hef, List.cons_append, List.nil_append, hfull, hm, if_false]
    simp
  | some v =>
    simp only [hg] at hdict
    simp only [hdict, hne, and_0F, hef, List.cons_append, List.nil_append, hfull, hm, if_false]
    rcases hmod with h0 | h1
    · simp (config := { decide := true }) [h0]
    · simp (config := { decide := true }) [h1, Fields.getR, Fields.get?, Fields.set, Val.asInt]

theorem fde_miss_eh_j (sec : Section) (env : Env) (hwf : sec.wf = true) (junk : Bytes) (hsz : (encodeSection sec ++ junk).length < 2 ^ 63)
    (heh : sec.eh = true) (i : Nat) (f : Fde) (c : Cie) (hi : sec.entries[i]? = some (.fde f))
    (hc : sec.cieAt f.cie = some c) (fuel pos : Nat) (cache : Cache) (hinv : CacheInv sec cache)
    (hmiss : cache.get (sec.offsetOf i : Int) = none) :
    ∃ cache', parseEntryAt (cfiOf sec env (encodeSection sec ++ junk)) (fuel + 2) (sec.offsetOf i) pos cache
        = .ok (mFde sec (sec.offsetOf i) f c, sec.offsetOf i + Entry.size sec (.fde f), cache')
      ∧ CacheInv sec cache' := by
  have hw := wf_at sec hwf i _ hi
  have hj := cieAt_get hc
  have hwc : c.wf sec = true := wf_at sec hwf f.cie _ hj
  have hd := drop_offsetOf_j sec junk i _ hi
  have hle := offsetOf_succ_le_j sec junk hwf i (getElem?_lt hi)
  rw [offsetOf_succ sec i _ hi] at hle
  have hmodel : modelOf sec (sec.offsetOf i) (.fde f) = mFde sec (sec.offsetOf i) f c := by simp only [modelOf, hc]
  have hinvI : ∀ ch : Cache, CacheInv sec ch →
      CacheInv sec (((sec.offsetOf i : Int), mFde sec (sec.offsetOf i) f c) :: ch) :=
    fun ch h => by rw [← hmodel]; exact h.cons i (.fde f) hi (by simp)
  have hinvK : ∀ ch : Cache, CacheInv sec ch →
      CacheInv sec (Kc (sec.offsetOf f.cie : Int) (mCie sec (sec.offsetOf f.cie) c) ch) :=
    fun ch h => h.Kc f.cie (.cie c) hj (by simp)
  simp only [wfEntry, Fde.wf, hc, heh, if_true, Bool.and_eq_true, decide_eq_true_eq, Bool.not_eq_true', Bool.or_eq_true,
    beq_iff_eq] at hw
  obtain ⟨⟨⟨⟨⟨⟨⟨⟨⟨⟨h64, hback⟩, hfl⟩, hfr⟩, hlf⟩, hn⟩, hptr⟩, hal⟩, hins⟩, _⟩, hlen⟩ := hw
  obtain ⟨⟨hfe, hfe256⟩, ⟨hlok, hl256⟩⟩ := cie_encs_ok sec c hwc
  simp only [h64, offSize, Bool.false_eq_true, if_false] at hptr hlen
  have hlink := fun (hdr : Fields) (hp : Fields.getR hdr "CIE_pointer" = .ok (.int (sec.ciePointer (sec.offsetOf i) f)))
      (p : Nat) (ch : Cache) (h : CacheInv sec ch) =>
    link_ok_j sec env hwf junk hsz (sec.offsetOf i) f c hc (fun _ => ⟨h64, hback⟩) hdr hp fuel p ch h
  have hfm : fmtOf f.fmt64 = 32 := by rw [h64]; rfl
  rw [hfm] at hlink
  generalize hrest : encFrom sec (sec.offsetOf (i + 1)) (sec.entries.drop (i + 1)) ++ junk = restS at hd
  have htail : f.tail sec c = encPtr sec.le sec.asz (c.fdeEnc % 16) f.loc ++ (encPtr sec.le sec.asz (c.fdeEnc % 16) f.range
      ++ (f.augPart sec c ++ encInstrs sec.le sec.asz f.instrs)) := by
    simp [Fde.tail, heh, List.append_assoc]
  have hd' : (encodeSection sec ++ junk).drop (sec.offsetOf i) = encLength sec.le false (4 + (f.tail sec c).length) ++
      (encNat sec.le 4 (sec.ciePointer (sec.offsetOf i) f) ++ (encPtr sec.le sec.asz (c.fdeEnc % 16) f.loc ++
        (encPtr sec.le sec.asz (c.fdeEnc % 16) f.range ++ (f.augPart sec c ++ (encInstrs sec.le sec.asz f.instrs ++ restS))))) := by
    rw [hd]; simp only [Entry.enc, hc, h64, offSize, Bool.false_eq_true, if_false, List.append_assoc]; rw [htail]
    simp only [List.append_assoc]
  clear hd
  have hhdr := fdeHeader_eh_j sec env hwf junk hsz heh (sec.offsetOf i) f c hc h64 hback hptr hfe hfe256 hfl hfr hlen _ hd' fuel
    cache hinv
  have hsize : Entry.size sec (.fde f) = 4 + 4 + (f.tail sec c).length := by
    simp only [Entry.size, hc, h64, ilfs, offSize, Bool.false_eq_true, if_false]
  rw [hsize] at hle ⊢
  generalize hk : sec.offsetOf f.cie = k at *
  generalize sec.offsetOf i = off at *
  generalize hdata : encodeSection sec ++ junk = data at *
  have hwords := entry_words (env := env) hd' hlen hptr
  have hw1 : structParse env (.uint 4 sec.le) data off = .ok (.int ((4 + (f.tail sec c).length : Nat) : Int), off + 4) := hwords.1
  have hw2 : structParse env (.uint 4 sec.le) data (off + 4) = .ok (.int (sec.ciePointer off f), off + 4 + 4) := hwords.2
  have hd1 := drop_after hd' (encLength_length ..)
  have hd2 := drop_after hd1 (encNat_length ..)
  have hd3 := drop_after hd2 rfl
  have hd4 := drop_after hd3 rfl
  rw [show ilfs false = 4 from rfl] at hd1 hd2 hd3 hd4
  have hbpos : 0 < 4 + (f.tail sec c).length := by omega
  obtain ⟨hz, hfmt⟩ := first_word sec.eh false _ hlen hbpos
  have hz' : (4 + (f.tail sec c).length == 0) = false := by simp
  have hfmt' : (if 4 + (f.tail sec c).length = 0xFFFFFFFF then 64 else 32 : Nat) = 32 := hfmt
  have hpne : (sec.ciePointer off f == 0) = false := by
    simp only [Section.ciePointer, heh, if_true, hk, h64, ilfs, Bool.false_eq_true, if_false, beq_eq_false_iff_ne]; omega
  have hoff : off < 2 ^ 63 := by omega
  have hfp : Fields.getR (fdeFields sec off f c) "CIE_pointer" = .ok (.int (sec.ciePointer off f)) := fdeFields_ptr ..
  have hflen : Fields.getR (fdeFields sec off f c) "length" = .ok (.int ((4 + (f.tail sec c).length : Nat) : Int)) := by
    simp [fdeFields, Fields.getR, Fields.get?, h64, offSize]
  have hinsw : ∀ x ∈ f.instrs, Cfa.wf sec.asz x = true := by simpa [List.all_eq_true] using hins
  have hil := instrs_length_le sec.le sec.asz f.instrs
  have htl : (f.tail sec c).length = (encPtr sec.le sec.asz (c.fdeEnc % 16) f.loc).length
      + (encPtr sec.le sec.asz (c.fdeEnc % 16) f.range).length + (f.augPart sec c).length
      + (encInstrs sec.le sec.asz f.instrs).length := by
    rw [htail]; simp only [List.length_append]; omega
  have hpi : ∀ P, P = off + 4 + 4 + (encPtr sec.le sec.asz (c.fdeEnc % 16) f.loc).length
        + (encPtr sec.le sec.asz (c.fdeEnc % 16) f.range).length + (f.augPart sec c).length →
      parseInstructions Spec.cfiTables (Spec.dwarfStructs ⟨sec.le, 32, sec.asz, 2⟩) env data
        (off + (4 + (f.tail sec c).length) + 4) (data.length + 1 - P) P
        = .ok (f.instrs.map toInstr, off + (4 + 4 + (f.tail sec c).length)) := by
    intro P hP
    have hdP : data.drop P = encInstrs sec.le sec.asz f.instrs ++ restS := by
      rw [hP]; exact drop_after hd4 rfl
    have := parseInstructions_ok (instrStructs_spec sec.le 32 sec.asz 2) env data f.instrs P (data.length + 1 - P) restS hdP
      hinsw (by omega)
    rw [show off + (4 + (f.tail sec c).length) + 4 = P + (encInstrs sec.le sec.asz f.instrs).length by omega,
      show off + (4 + 4 + (f.tail sec c).length) = P + (encInstrs sec.le sec.asz f.instrs).length by omega]
    exact this
  refine ⟨_, ?_, hinvI _ (hinvK _ (hinvK _ (hinvK _ hinv)))⟩
  rw [parseEntryAt]
  simp only [hmiss, seekPos_nat off hoff, cfiOf_structs, cfiOf_eh, cfiOf_data, cfiOf_env, cfiOf_T, bind, Except.bind, pure,
    Except.pure, the_u32_eq, hw1, asNat_nat, heh, hz', Bool.and_false, Bool.false_eq_true, if_false, hfmt',
    the_offset_eq, show (32 / 8 : Nat) = 4 from rfl, hw2, if_true, hpne, hhdr,
    hlink _ hfp _ _ (hinvK _ hinv), mCie_header, mCie_augDict, cieFields_aug, Option.getD]
  cases hau : c.aug with
  | none =>
    have hAP : f.augPart sec c = [] := by simp [Fde.augPart, heh, hau]
    have hL : c.lsdaEnc = 0xff := by simp [Cie.lsdaEnc, hau, lsdaEncOf]
    have hpiA := hpi (off + 4 + 4 + (encPtr sec.le sec.asz (c.fdeEnc % 16) f.loc).length
        + (encPtr sec.le sec.asz (c.fdeEnc % 16) f.range).length) (by rw [hAP]; simp)
    simp only [augString, List.isPrefixOf, augDictObs, Fields.get?, pe_omit, ne_eq, not_true_eq_false, if_false, hflen,
      asNat_nat, hpiA, hlink _ hfp _ _ (hinvK _ (hinvK _ hinv)), Bool.false_eq_true]
    have hmf : mFde sec off f c = Model.Entry.fde (fdeFields sec off f c) (List.map toInstr f.instrs) off (mCie sec k c) []
        none 32 := by
      simp [mFde, hk, hAP, hL, hfm]
    rw [hmf]
  | some items =>
    -- the augmentation data: the LSDA pointer, if the CIE gives it an encoding
    generalize hdd : (if c.lsdaEnc = 0xff then [] else encPtr sec.le sec.asz (c.lsdaEnc % 16) f.lsda : Bytes) = d at hal
    have hAP : f.augPart sec c = encUlebN f.augLenN d.length ++ d := by
      simp only [Fde.augPart, heh, if_true, hau, hdd]
    have hskip : fdeAugSkip sec f c = f.augLenN := by simp [fdeAugSkip, heh, hau]
    have hab : (f.augPart sec c).drop (fdeAugSkip sec f c) = d := by
      rw [hAP, hskip]; exact drop_len_append _ _ _ (encUlebN_length ..)
    rw [hAP, List.append_assoc] at hd4
    have hra := readAug_ok (C := cfiOf sec env data) (S := Spec.dwarfStructs ⟨sec.le, 32, sec.asz, 2⟩) heh rfl hn hal hd4
    have hd5 := drop_after hd4 (encUlebN_length ..)
    have hpiB := hpi (off + 4 + 4 + (encPtr sec.le sec.asz (c.fdeEnc % 16) f.loc).length
        + (encPtr sec.le sec.asz (c.fdeEnc % 16) f.range).length + f.augLenN + d.length)
      (by rw [hAP]; simp [encUlebN_length]; omega)
    have hdict : (match Fields.get? (augDictObs sec.le sec.asz c.aug) "LSDA_encoding" with
       | some v => v.asNat | none => (Except.ok 0xff : R Nat)) = .ok c.lsdaEnc := dict_lsdaEnc sec.le sec.asz c.aug
    rw [hau] at hdict
    simp only [augString, List.isPrefixOf, beq_self_eq_true, Bool.true_and, if_true, hra, pe_omit]
    have hlk3 := hlink _ hfp (off + (4 + 4 + (f.tail sec c).length)) _ (hinvK _ (hinvK _ hinv))
    -- no LSDA pointer: the data is empty
    have hnoL : c.lsdaEnc = 0xff → (if (255 : Nat) ≠ 255 then (Except.error Err.assertion : R Unit) else .ok ()) = .ok () →
        d = [] ∧ mFde sec off f c = Model.Entry.fde (fdeFields sec off f c) (List.map toInstr f.instrs) off (mCie sec k c) d
          none 32 := by
      intro hL _
      have hd0 : d = [] := by rw [← hdd, if_pos hL]
      refine ⟨hd0, ?_⟩
      simp [mFde, hk, hab, hL, hfm]
    cases hg : Fields.get? (augDictObs sec.le sec.asz (some items)) "LSDA_encoding" with
    | none =>
      simp only [hg, Except.ok.injEq] at hdict
      obtain ⟨hd0, hmf⟩ := hnoL hdict.symm rfl
      simp only [ne_eq, not_true_eq_false, if_false, hflen, asNat_nat, hpiB, hlk3]
      rw [hmf]
    | some v =>
      simp only [hg] at hdict
      simp only [hdict]
      by_cases hL : c.lsdaEnc = 0xff
      · obtain ⟨hd0, hmf⟩ := hnoL hL rfl
        simp only [hL, ne_eq, not_true_eq_false, if_false, hflen, asNat_nat, hpiB, hlk3]
        rw [hmf]
      · have hd0 : d = encPtr sec.le sec.asz (c.lsdaEnc % 16) f.lsda := by rw [← hdd, if_neg hL]
        have hlsda := lsda_ok (C := cfiOf sec env data) (le := sec.le) (fmt := 32) (asz := sec.asz) (ver := 2)
          (enc := c.lsdaEnc) (v := f.lsda) rfl (hlok.resolve_right hL) hl256 (hlf.resolve_left hL) (hd0 ▸ hd5)
        rw [← hd0] at hlsda
        have hmf : mFde sec off f c = Model.Entry.fde (fdeFields sec off f c) (List.map toInstr f.instrs) off (mCie sec k c) d
            (some (f.lsda + if c.lsdaEnc / 16 % 8 = 1 then (sec.address : Int)
              + ((off + 4 + 4 + (encPtr sec.le sec.asz (c.fdeEnc % 16) f.loc).length
                  + (encPtr sec.le sec.asz (c.fdeEnc % 16) f.range).length + f.augLenN : Nat) : Int) else 0)) 32 := by
          have hab' := hab
          rw [hskip] at hab'
          simp [mFde, hk, hab', hL, heh, fmtOf, pcrelAdj, fdeLsdaOff, fdeLocOff, fdeEncIn, hskip, h64, ilfs, offSize]
        simp only [ne_eq, hL, not_false_eq_true, if_true, Nat.add_sub_cancel, hlsda, cfiOf_address, hflen, asNat_nat, hpiB,
          hlk3]
        rw [hmf]

theorem fdeMissOk_j (sec : Section) (env : Env) (hwf : sec.wf = true) (junk : Bytes)
    (hsz : (encodeSection sec ++ junk).length < 2 ^ 63) : FdeMissOkJ sec env junk := by
  intro i f c hi hc fuel pos cache hinv hmiss
  cases heh : sec.eh with
  | false => exact fde_miss_df_j sec env hwf junk hsz heh i f c hi hc fuel pos cache hinv hmiss
  | true => exact fde_miss_eh_j sec env hwf junk hsz heh i f c hi hc fuel pos cache hinv hmiss

theorem entry_at_j (sec : Section) (env : Env) (hwf : sec.wf = true) (junk : Bytes) (hsz : (encodeSection sec ++ junk).length < 2 ^ 63)
    (hfde : FdeMissOkJ sec env junk) (i : Nat) (se : Spec.Entry) (hi : sec.entries[i]? = some se) (fuel : Nat)
    (cache : Cache) (hinv : CacheInv sec cache) :
    ∃ cache', parseEntryAt (cfiOf sec env (encodeSection sec ++ junk)) (fuel + 2) (sec.offsetOf i) (sec.offsetOf i) cache
        = .ok (modelOf sec (sec.offsetOf i) se, sec.offsetOf (i + 1), cache')
      ∧ CacheInv sec cache' := by
  rw [offsetOf_succ sec i se hi]
  cases hk : cache.get (sec.offsetOf i : Int) with
  | some e =>
    exact ⟨cache, entry_hit sec env _ hwf i se hi (fuel + 1) _ cache hinv e hk, hinv⟩
  | none =>
    have hw := wf_at sec hwf i se hi
    cases se with
    | zero =>
      have hd := drop_offsetOf_j sec junk i _ hi
      have hle := offsetOf_succ_le_j sec junk hwf i (getElem?_lt hi)
      rw [offsetOf_succ sec i _ hi] at hle
      simp only [Entry.size] at hle
      refine ⟨cache, ?_, hinv⟩
      exact entry_zero (cfiOf sec env (encodeSection sec ++ junk)) _ sec.le (fuel + 1) _ _ cache _ hw rfl rfl (by omega) hk hd
    | cie c =>
      refine ⟨_, cie_miss_j sec env hwf junk hsz i c hi (fuel + 1) _ cache hk, ?_⟩
      exact hinv.cons i (.cie c) hi (by simp)
    | fde f =>
      simp only [wfEntry, Fde.wf] at hw
      cases hc : sec.cieAt f.cie with
      | none => rw [hc] at hw; cases hw
      | some c =>
        obtain ⟨cache', h1, h2⟩ := hfde i f c hi hc fuel (sec.offsetOf i) cache hinv hk
        refine ⟨cache', ?_, h2⟩
        rw [h1]; simp only [modelOf, hc]

/-! ### the scan over a well-formed prefix -/

open PyElf.Proofs.CfiBad in
theorem loop_prefix (sec : Section) (env : Env) (hwf : sec.wf = true) (junk : Bytes)
    (hsz : (encodeSection sec ++ junk).length < 2 ^ 63) (size d : Nat) (hsize : (encodeSection sec).length ≤ size) :
    ∀ (k i : Nat), i + k = sec.entries.length → ∀ (fuel : Nat) (cache : Cache), CacheInv sec cache →
    ∃ cache', CacheInv sec cache' ∧
      parseEntriesLoop (cfiOf sec env (encodeSection sec ++ junk)) size (d + 2) (fuel + k) (sec.offsetOf i) cache
        = (parseEntriesLoop (cfiOf sec env (encodeSection sec ++ junk)) size (d + 2) fuel (encodeSection sec).length
            cache').map (modelFrom sec (sec.offsetOf i) (sec.entries.drop i) ++ ·) := by
  intro k
  induction k with
  | zero =>
    intro i hi fuel cache hinv
    have : i = sec.entries.length := by omega
    subst this
    refine ⟨cache, hinv, ?_⟩
    rw [offsetOf_end, List.drop_length, Nat.add_zero]
    cases parseEntriesLoop (cfiOf sec env (encodeSection sec ++ junk)) size (d + 2) fuel (encodeSection sec).length cache <;>
      simp [modelFrom, Except.map]
  | succ k ih =>
    intro i hi fuel cache hinv
    have hil : i < sec.entries.length := by omega
    have hget : sec.entries[i]? = some sec.entries[i] := List.getElem?_eq_getElem hil
    obtain ⟨cache1, h1, h2⟩ := entry_at_j sec env hwf junk hsz (fdeMissOk_j sec env hwf junk hsz) i _ hget d cache hinv
    have hlt : sec.offsetOf i < size := by
      have := offsetOf_lt sec hwf sec.entries.length i hil (Nat.le_refl _)
      rw [offsetOf_end] at this
      omega
    obtain ⟨cache', hc', hrest⟩ := ih (i + 1) (by omega) fuel cache1 h2
    refine ⟨cache', hc', ?_⟩
    rw [show fuel + (k + 1) = (fuel + k) + 1 by omega,
      parseEntriesLoop_ok _ size (d + 2) (fuel + k) (sec.offsetOf i) cache cache1 _ _ hlt h1, hrest,
      ← List.getElem_cons_drop hil, modelFrom, offsetOf_succ sec i _ hget]
    cases parseEntriesLoop (cfiOf sec env (encodeSection sec ++ junk)) size (d + 2) fuel (encodeSection sec).length cache' <;>
      simp [Except.map]

/-- a cache that holds only entries of the section misses the offset where the section ends -/
theorem cacheInv_miss_end {sec : Section} (hwf : sec.wf = true) {cache : Cache} (h : CacheInv sec cache) :
    cache.get ((encodeSection sec).length : Int) = none := by
  cases hg : cache.get ((encodeSection sec).length : Int) with
  | none => rfl
  | some e =>
    obtain ⟨i, se, hi, _, hk, _⟩ := h _ _ hg
    have := offsetOf_lt sec hwf sec.entries.length i (getElem?_lt hi) (Nat.le_refl _)
    rw [offsetOf_end] at this
    omega

/-- `get_entries()` on a well-formed section followed by anything: the section's entries, then the scan of what
    follows, started with a cache that holds entries of the section only -/
theorem parseEntries_prefix (sec : Section) (env : Env) (hwf : sec.wf = true) (junk : Bytes)
    (hsz : (encodeSection sec ++ junk).length < 2 ^ 63) :
    ∃ cache' fuel, CacheInv sec cache' ∧
      parseEntries (cfiOf sec env (encodeSection sec ++ junk)) (encodeSection sec ++ junk).length
        = (parseEntriesLoop (cfiOf sec env (encodeSection sec ++ junk)) (encodeSection sec ++ junk).length
            ((encodeSection sec ++ junk).length + 2) (fuel + 1) (encodeSection sec).length cache').map
            (modelFrom sec 0 sec.entries ++ ·) := by
  have hn := index_le_offset sec hwf sec.entries.length (Nat.le_refl _)
  rw [offsetOf_end] at hn
  have hlen : (encodeSection sec ++ junk).length = (encodeSection sec).length + junk.length := List.length_append
  obtain ⟨cache', hc', h⟩ := loop_prefix sec env hwf junk hsz (encodeSection sec ++ junk).length
    (encodeSection sec ++ junk).length (by omega) sec.entries.length 0 (by omega)
    ((encodeSection sec ++ junk).length + 1 - sec.entries.length + 1) [] (CacheInv.nil sec)
  refine ⟨cache', (encodeSection sec ++ junk).length + 1 - sec.entries.length, hc', ?_⟩
  have h0 : sec.offsetOf 0 = 0 := rfl
  rw [h0, List.drop_zero] at h
  rw [← h, parseEntries]
  congr 1
  omega

open PyElf.Proofs.CfiBad in
/-- A MALFORMED ENTRY AFTER WELL-FORMED ONES: if the entry that follows a well-formed section fails with `e` under
    every cache that misses its offset, `get_entries()` fails with `e` -/
theorem parseEntries_then_error (sec : Section) (env : Env) (hwf : sec.wf = true) (junk : Bytes)
    (hsz : (encodeSection sec ++ junk).length < 2 ^ 63) (hj : junk ≠ []) (e : Err)
    (hbad : ∀ (cache : Cache), CacheInv sec cache →
      parseEntryAt (cfiOf sec env (encodeSection sec ++ junk)) ((encodeSection sec ++ junk).length + 2)
        ((encodeSection sec).length : Int) (encodeSection sec).length cache = .error e) :
    parseEntries (cfiOf sec env (encodeSection sec ++ junk)) (encodeSection sec ++ junk).length = .error e := by
  obtain ⟨cache', fuel, hc', h⟩ := parseEntries_prefix sec env hwf junk hsz
  have hlt : (encodeSection sec).length < (encodeSection sec ++ junk).length := by
    rw [List.length_append]
    have : 0 < junk.length := List.length_pos_iff.2 hj
    omega
  rw [h, parseEntriesLoop_error _ _ _ fuel _ cache' e hlt (hbad cache' hc')]
  rfl

/-- … and every offset at or beyond the end of the section, or negative -/
theorem cacheInv_miss_out {sec : Section} (hwf : sec.wf = true) {cache : Cache} (h : CacheInv sec cache) (k : Int)
    (hk : ((encodeSection sec).length : Int) ≤ k ∨ k < 0) : cache.get k = none := by
  cases hg : cache.get k with
  | none => rfl
  | some e =>
    obtain ⟨i, se, hi, _, hki, _⟩ := h _ _ hg
    have := offsetOf_lt sec hwf sec.entries.length i (getElem?_lt hi) (Nat.le_refl _)
    rw [offsetOf_end] at this
    omega

theorem encLength_append_ne_nil (le fmt64 : Bool) (L : Nat) (rest : Bytes) : encLength le fmt64 L ++ rest ≠ [] := by
  intro h
  have := congrArg List.length h
  rw [List.length_append, encLength_length] at this
  cases fmt64 <;> simp [ilfs] at this

section classes
open PyElf.Proofs.CfiBad
variable (sec : Section) (env : Env) (hwf : sec.wf = true) (junk : Bytes)
  (hsz : (encodeSection sec ++ junk).length < 2 ^ 63)
include hwf hsz

omit hwf hsz in
theorem drop_end : (encodeSection sec ++ junk).drop (encodeSection sec).length = junk := List.drop_left

theorem tail_unknown_opcode (c : Cie) (L : Nat) (is : List Cfa) (op : Nat) (rest : Bytes)
    (hw : cieHeaderWf sec c = true)
    (hj : junk = encLength sec.le c.fmt64 L ++
      cieHdrBytes sec.le (offSize c.fmt64) (cieIdv sec c) c.version (augString c.aug) c.addrSize c.segSize c.caf c.daf
        c.ra (cieAugPart sec c ++ (encInstrs sec.le sec.asz is ++ (byte op ++ rest))))
    (hlen : lenOk c.fmt64 L = true) (hLpos : 0 < L) (hwi : ∀ i ∈ is, i.wf sec.asz = true)
    (hend : cieInstrStart sec c (encodeSection sec).length + (encInstrs sec.le sec.asz is).length
      < (encodeSection sec).length + L + ilfs c.fmt64)
    (hlt : op < 0x40) (hunk : op ∉ knownExt) :
    parseEntries (cfiOf sec env (encodeSection sec ++ junk)) (encodeSection sec ++ junk).length = .error .dwarfError :=
  parseEntries_then_error sec env hwf junk hsz (by rw [hj]; exact encLength_append_ne_nil _ _ _ _) _
    fun cache hc => cie_unknown_opcode sec env _ c L is op rest _ _ _ cache hw (asz_of_wf sec hwf)
      (by rw [drop_end sec junk, hj]) hlen hLpos (by rw [List.length_append] at hsz; omega)
      (cacheInv_miss_end hwf hc) hwi hend hlt hunk

theorem tail_instr_cut (c : Cie) (L : Nat) (is : List Cfa) (i : Cfa) (k : Nat)
    (hw : cieHeaderWf sec c = true)
    (hj : junk = encLength sec.le c.fmt64 L ++
      cieHdrBytes sec.le (offSize c.fmt64) (cieIdv sec c) c.version (augString c.aug) c.addrSize c.segSize c.caf c.daf
        c.ra (cieAugPart sec c ++ (encInstrs sec.le sec.asz is ++ (i.enc sec.le sec.asz).take k)))
    (hlen : lenOk c.fmt64 L = true) (hLpos : 0 < L) (hwi : ∀ j ∈ is, j.wf sec.asz = true) (hi : i.wf sec.asz = true)
    (hk1 : 1 ≤ k) (hk : k < (i.enc sec.le sec.asz).length)
    (hend : cieInstrStart sec c (encodeSection sec).length + (encInstrs sec.le sec.asz is).length
      < (encodeSection sec).length + L + ilfs c.fmt64) :
    parseEntries (cfiOf sec env (encodeSection sec ++ junk)) (encodeSection sec ++ junk).length = .error .elfParseError :=
  parseEntries_then_error sec env hwf junk hsz (by rw [hj]; exact encLength_append_ne_nil _ _ _ _) _
    fun cache hc => cie_instr_cut sec env _ c L is i k _ _ _ cache hw (asz_of_wf sec hwf)
      (by rw [drop_end sec junk, hj]) hlen hLpos (by rw [List.length_append] at hsz; omega)
      (cacheInv_miss_end hwf hc) hwi hi hk1 hk hend

theorem tail_length_past_data (c : Cie) (L : Nat) (is : List Cfa)
    (hw : cieHeaderWf sec c = true)
    (hj : junk = encLength sec.le c.fmt64 L ++
      cieHdrBytes sec.le (offSize c.fmt64) (cieIdv sec c) c.version (augString c.aug) c.addrSize c.segSize c.caf c.daf
        c.ra (cieAugPart sec c ++ encInstrs sec.le sec.asz is))
    (hlen : lenOk c.fmt64 L = true) (hLpos : 0 < L) (hwi : ∀ j ∈ is, j.wf sec.asz = true)
    (hend : (encodeSection sec ++ junk).length < (encodeSection sec).length + L + ilfs c.fmt64) :
    parseEntries (cfiOf sec env (encodeSection sec ++ junk)) (encodeSection sec ++ junk).length = .error .elfParseError :=
  parseEntries_then_error sec env hwf junk hsz (by rw [hj]; exact encLength_append_ne_nil _ _ _ _) _
    fun cache hc => cie_length_past_data sec env _ c L is _ _ _ cache hw (asz_of_wf sec hwf)
      (by rw [drop_end sec junk, hj]) hlen hLpos (by rw [List.length_append] at hsz; omega)
      (cacheInv_miss_end hwf hc) hwi hend

theorem tail_bad_aug (fmt64 : Bool) (L ver a sg : Nat) (augB : Bytes) (caf : ULeb) (daf : SLeb) (ra : ULeb) (tail : Bytes)
    (hj : junk = encLength sec.le fmt64 L ++
      cieHdrBytes sec.le (offSize fmt64) (if sec.eh then 0 else 256 ^ offSize fmt64 - 1) ver augB a sg caf daf ra tail)
    (hlen : lenOk fmt64 L = true) (hLpos : 0 < L)
    (hver : ver = 1 ∨ ver = 3 ∨ ver = 4) (haug0 : ∀ b ∈ augB, b ≠ 0)
    (ha : 4 ≤ ver → a < 256) (hs : 4 ≤ ver → sg < 256) (hcaf : caf.wf = true) (hdaf : daf.wf = true)
    (hra : if ver = 1 then ra.v < 256 else ra.wf = true)
    (hne : augB ≠ []) (harm : ([0x61, 0x72, 0x6d, 0x63, 0x63] : Bytes).isPrefixOf augB = false)
    (hz : ([0x7a] : Bytes).isPrefixOf augB = false) :
    parseEntries (cfiOf sec env (encodeSection sec ++ junk)) (encodeSection sec ++ junk).length = .error .assertion :=
  parseEntries_then_error sec env hwf junk hsz (by rw [hj]; exact encLength_append_ne_nil _ _ _ _) _
    fun cache hc => cie_bad_aug sec env _ fmt64 L ver a sg augB caf daf ra tail _ _ _ cache
      (by rw [drop_end sec junk, hj]) hlen hLpos (by rw [List.length_append] at hsz; omega)
      (cacheInv_miss_end hwf hc) hver haug0 ha hs hcaf hdaf hra hne harm hz

theorem tail_fde_ptr_past_data (heh : sec.eh = false) (fmt64 : Bool) (L k : Nat) (loc range : Int) (tail : Bytes)
    (hj : junk = encLength sec.le fmt64 L ++ (encNat sec.le (offSize fmt64) k ++
      (encPtr sec.le sec.asz 0 loc ++ (encPtr sec.le sec.asz 0 range ++ tail))))
    (hlen : lenOk fmt64 L = true) (hLpos : 0 < L) (hk : k < 256 ^ offSize fmt64 - 1)
    (hfl : ptrFits sec.asz 0 loc = true) (hfr : ptrFits sec.asz 0 range = true)
    (hpast : (encodeSection sec ++ junk).length ≤ k) :
    parseEntries (cfiOf sec env (encodeSection sec ++ junk)) (encodeSection sec ++ junk).length = .error .elfParseError :=
  parseEntries_then_error sec env hwf junk hsz (by rw [hj]; exact encLength_append_ne_nil _ _ _ _) _
    fun cache hc => fde_ptr_past_data sec env _ heh fmt64 L k loc range tail _ _ _ cache
      (by rw [drop_end sec junk, hj]) hlen hLpos hk hfl hfr (by rw [List.length_append] at hsz; omega)
      (cacheInv_miss_end hwf hc) hpast
      (cacheInv_miss_out hwf hc _ (Or.inl (by rw [List.length_append] at hpast; omega)))

theorem tail_fde_ptr_before_start (heh : sec.eh = true) (fmt64 : Bool) (L cp : Nat) (rest : Bytes)
    (hj : junk = encLength sec.le fmt64 L ++ (encNat sec.le (offSize fmt64) cp ++ rest))
    (hlen : lenOk fmt64 L = true) (hLpos : 0 < L) (hcp : cp < 256 ^ offSize fmt64) (hcp0 : cp ≠ 0)
    (hneg : (encodeSection sec).length + offSize fmt64 < cp) :
    parseEntries (cfiOf sec env (encodeSection sec ++ junk)) (encodeSection sec ++ junk).length = .error .valueError :=
  parseEntries_then_error sec env hwf junk hsz (by rw [hj]; exact encLength_append_ne_nil _ _ _ _) _
    fun cache hc => fde_ptr_before_start sec env _ heh fmt64 L cp rest _ _ _ cache
      (by rw [drop_end sec junk, hj]) hlen hLpos hcp hcp0 (by rw [List.length_append] at hsz; omega)
      (cacheInv_miss_end hwf hc) hneg (cacheInv_miss_out hwf hc _ (Or.inr (by omega)))

end classes

end PyElf.Proofs.CfiTail
