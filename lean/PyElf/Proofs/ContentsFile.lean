/-
  C02 helper lemmas for the whole-file theorems: from an abstract ELF description
  (Spec/ElfImage.lean) through C01's theorems about opening and enumerating a byte string that
  carries it, to the header hypotheses (`IsShdr` / `IsPhdr` / `IsChdr`) and file-extent facts the
  object-level lemmas of Proofs/Contents.lean consume.
-/
import PyElf.Proofs.Contents
import PyElf.Proofs.ContentsErrors
import PyElf.Proofs.ElfFile
import PyElf.Spec.ContentsImage
import PyElf.Model.ContentsFile
namespace PyElf.Proofs.C02
open PyElf PyElf.Spec PyElf.Model PyElf.Proofs
open PyElf.Spec.C02
open PyElf.Model.C02

/-! ### decoded headers of described sections and segments -/

/-- an `Enum(..., _default_=Pass)` field over an unsigned integer decodes to the name of the raw
    code that was encoded, or to the code itself -/
theorem enum_field {env : Env} {fs : ConFields} {k : String} {n : Nat} {le : Bool} {t : String}
    (hf : fieldCon fs k = some (.enum (.uint n le) t true)) {raw : Fields} {bs : Bytes}
    (he : (Con.struct fs).encodeRaw (.record raw) = some bs) {v : Val} {ctx : Fields}
    (hd : (Con.struct fs).decodeRaw env ctx (.record raw) = .ok v) :
    ∃ z : Nat, Fields.get? raw k = some (.int z) ∧ v.getField k = .ok (nameOr env.enumDecode t z) := by
  rw [Con.encodeRaw] at he
  rw [Con.decodeRaw] at hd
  cases hd' : ConFields.decodeRaw env fs raw [] [] with
  | error e => simp [hd', bind, Except.bind] at hd
  | ok oc =>
    obtain ⟨obj', ctx'⟩ := oc
    simp [hd', bind, Except.bind, pure, Except.pure] at hd
    subst hd
    obtain ⟨b, hb⟩ := encodeRaw_field k _ fs raw bs hf he
    obtain ⟨ctx0, v, hv, hg⟩ := decodeRaw_get env k _ fs raw [] [] obj' ctx' hf hd'
    cases hr : Fields.get? raw k with
    | none => simp [hr, Con.encodeRaw] at hb
    | some x =>
      rw [hr] at hb hv
      simp only [Option.getD_some] at hb hv
      cases x <;> simp only [Con.encodeRaw, reduceCtorEq] at hb
      rename_i z
      split at hb
      · rename_i hz
        refine ⟨z.toNat, ?_, ?_⟩
        · rw [Int.toNat_of_nonneg hz.1]
        · have hzz : z = ((z.toNat : Nat) : Int) := (Int.toNat_of_nonneg hz.1).symm
          rw [hzz, decodeRaw_enum_pass] at hv
          cases hv
          simp [Val.getField, Fields.getR, hg]
      · cases hb

theorem getNatD_of_get? {fs : Fields} {k : String} {z : Nat} (h : Fields.get? fs k = some (.int (z : Int))) :
    getNatD fs k = z := by
  simp [getNatD, h]

/-- the decoded header of a described section carries the numeric fields of `secOf`, with
    `sh_type` reported through the machine class's table -/
theorem isShdr_of_desc {env : Env} {d : ElfDesc} {s : SecDesc} {b : Bytes} {h : Val}
    (he : d.S.Elf_Shdr.encodeRaw s.raw = some b) (hd : d.S.Elf_Shdr.decodeRaw env [] s.raw = .ok h) :
    IsShdr (nameOr env.enumDecode (shTypeTable d.mclass)) h (secOf s) := by
  have hS : d.S.Elf_Shdr = .struct (shdrFields d.cfg) := rfl
  rw [hS] at he hd
  unfold SecDesc.raw at he hd
  have key : ∀ k ∈ ["sh_flags", "sh_addr", "sh_offset", "sh_size", "sh_addralign", "sh_entsize"],
      h.getField k = .ok (.int (getNatD s.hdr k)) := by
    intro k hk
    obtain ⟨z, -, h1, h2⟩ := uint_field (shdr_field_addr d.cfg k hk) he hd
    have hne : "sh_name" ≠ k := by
      intro e; subst e; simp at hk
    have : Fields.get? s.hdr k = some (.int z) := by
      simpa [Fields.get?, hne] using h1
    rw [getNatD_of_get? this]; exact h2
  obtain ⟨z, h1, h2⟩ := enum_field (shdr_field_type d.cfg) he hd
  have hz : Fields.get? s.hdr "sh_type" = some (.int z) := by
    simpa [Fields.get?] using h1
  exact { ty := by
            show h.getField "sh_type" = .ok (nameOr env.enumDecode (shTypeTable d.mclass) (getNatD s.hdr "sh_type"))
            rw [getNatD_of_get? hz]; exact h2
          flags := key _ (by simp), addr := key _ (by simp), offset := key _ (by simp), size := key _ (by simp),
          addralign := key _ (by simp) }

theorem phdr_field_nat (c : ElfCfg) (k : String) (hk : k ∈ ["p_offset", "p_vaddr", "p_filesz", "p_memsz"]) :
    ∃ n, fieldCon (phdrFields c) k = some (.uint n c.le) := by
  simp only [List.mem_cons, List.not_mem_nil, or_false] at hk
  unfold phdrFields
  rcases hk with rfl | rfl | rfl | rfl <;> split <;>
    first
    | exact ⟨_, by simp [mkFields, f, fieldCon, fieldNames]; rfl⟩
    | exact ⟨4, by simp [mkFields, f, fieldCon, fieldNames]⟩

/-- the decoded header of a described segment carries the numeric fields of `segOf` -/
theorem isPhdr_of_desc {env : Env} {d : ElfDesc} {p : Fields} {b : Bytes} {ph : Val}
    (he : d.S.Elf_Phdr.encodeRaw (.record p) = some b) (hd : d.S.Elf_Phdr.decodeRaw env [] (.record p) = .ok ph) :
    IsPhdr (nameOr env.enumDecode (pTypeTable d.mclass)) ph (segOf p) := by
  have hS : d.S.Elf_Phdr = .struct (phdrFields d.cfg) := phdr_eq d.cfg
  rw [hS] at he hd
  have key : ∀ k ∈ ["p_offset", "p_vaddr", "p_filesz", "p_memsz"], ph.getField k = .ok (.int (getNatD p k)) := by
    intro k hk
    obtain ⟨n, hn⟩ := phdr_field_nat d.cfg k hk
    obtain ⟨z, -, h1, h2⟩ := uint_field hn he hd
    rw [getNatD_of_get? h1]; exact h2
  obtain ⟨z, h1, h2⟩ := enum_field (phdr_field_type d.cfg) he hd
  exact { ty := by
            show ph.getField "p_type" = .ok (nameOr env.enumDecode (pTypeTable d.mclass) (getNatD p "p_type"))
            rw [getNatD_of_get? h1]; exact h2
          offset := key _ (by simp), vaddr := key _ (by simp), filesz := key _ (by simp), memsz := key _ (by simp) }

/-! ### what C01 establishes about a byte string that carries a description -/

theorem ok_of_toOption {α : Type} {x : R α} {y : α} (h : x.toOption = some y) : x = .ok y := by
  cases x <;> simp [Except.toOption] at h
  subst h; rfl

/-- how the description's machine class reports `sh_type` / `p_type` codes -/
abbrev decTOf (env : Env) (d : ElfDesc) : Nat → Val := nameOr env.enumDecode (shTypeTable d.mclass)
abbrev decPOf (env : Env) (d : ElfDesc) : Nat → Val := nameOr env.enumDecode (pTypeTable d.mclass)

/-- C01, repackaged for C02: the byte string opens; `get_section(i)` / `get_segment(j)` give objects of
    the kind the description's type codes call for, whose headers carry the description's numeric
    fields; `iter_segments()` enumerates the description's segments in order -/
structure FileFacts (env : Env) (d : ElfDesc) (bytes : Bytes) (f : ElfFile) : Prop where
  hopen : openElf env specSF specMC bytes = .ok f
  hdata : f.data = bytes
  hcls : f.cls = d.cls
  hle : f.le = d.le
  hS : f.S = d.S
  hclsOk : d.cls = 32 ∨ d.cls = 64
  hsec : ∀ i (hi : i < d.sections.length), ∃ sh,
    getSection env f.S bytes f.header f.shstr i =
      .ok (kindOf (decTOf env d (secOf d.sections[i]).shType) d.sections[i].name, d.sections[i].name, sh) ∧
    IsShdr (decTOf env d) sh (secOf d.sections[i])
  hseg : ∀ j (hj : j < d.segments.length), ∃ ph,
    getSegment env f.S bytes f.header f.shstr j = .ok (segKindOf (decPOf env d (segOf d.segments[j]).ptype), ph) ∧
    IsPhdr (decPOf env d) ph (segOf d.segments[j])
  hsegs : ∃ kphs, iterSegments env f.S bytes f.header f.shstr = .ok kphs ∧
    ArePhdrs (decPOf env d) (kphs.map (·.2)) (d.segments.map segOf)

theorem arePhdrs_of_forall {decP : Nat → Val} :
    ∀ (phs : List Val) (segs : List Seg), phs.length = segs.length →
      (∀ i (h1 : i < phs.length) (h2 : i < segs.length), IsPhdr decP phs[i] segs[i]) → ArePhdrs decP phs segs
  | [], [], _, _ => .nil
  | [], _ :: _, hl, _ => by simp at hl
  | _ :: _, [], hl, _ => by simp at hl
  | ph :: phs, g :: segs, hl, h =>
    .cons (h 0 (by simp) (by simp))
      (arePhdrs_of_forall phs segs (by simpa using hl) (fun i h1 h2 => by
        have := h (i + 1) (by simp; omega) (by simp; omega)
        simpa using this))

theorem file_facts_z {env : Env} {d : ElfDesc} {bytes : Bytes} {obs : ElfObs}
    (hwf : d.wfZ env = true) (hl : Layout d bytes) (ho : d.observe env = .ok obs) :
    ∃ f, FileFacts env d bytes f := by
  obtain ⟨f, hopen, hdata, hcls, hle, hS, -⟩ := open_aux_z hwf hl ho
  have hL := layout_facts hl
  obtain ⟨-, h2, h3⟩ := observe_inv ho
  obtain ⟨hlen2, hall2⟩ := mapM_ok_inv _ _ _ h2
  obtain ⟨hlen3, hall3⟩ := mapM_ok_inv _ _ _ h3
  have hsegOne : ∀ j (hj : j < d.segments.length), ∃ ph,
      obs.segments[j]'(by omega) = (segKindOf (decPOf env d (segOf d.segments[j]).ptype), ph) ∧
      IsPhdr (decPOf env d) ph (segOf d.segments[j]) := by
    intro j hj
    obtain ⟨ph, ty, hdec, hty, hr⟩ := obsSeg_eq (hall3 j hj (by omega))
    obtain ⟨b, hb, -⟩ := hL.phdr j hj
    have hP := isPhdr_of_desc hb hdec
    have : ty = decPOf env d (segOf d.segments[j]).ptype := by
      have := hP.ty; rw [hty] at this; cases this; rfl
    exact ⟨ph, by rw [hr, this], hP⟩
  have hsegs := segments_aux_z hwf hl ho hopen
  have hcnt := (counts_aux_z hwf hl ho hopen).2
  refine ⟨f, hopen, hdata, hcls, hle, hS, (wfZ_facts hwf).cls, ?_, ?_, ?_⟩
  · intro i hi
    have hi' : i < obs.sections.length := by omega
    have hg := get_section_aux_z hwf hl ho hopen i hi
    rw [List.getElem?_eq_getElem hi'] at hg
    have hg' := ok_of_toOption hg
    have hobs := hall2 i hi hi'
    unfold obsSec at hobs
    cases h1 : d.S.Elf_Shdr.decodeRaw env [] (d.sections[i]).raw with
    | error e => simp [h1, bind, Except.bind] at hobs
    | ok h =>
      cases h2' : h.getField "sh_type" with
      | error e => simp [h1, h2', bind, Except.bind] at hobs
      | ok ty =>
        simp only [h1, h2', bind, Except.bind, pure, Except.pure, Except.ok.injEq] at hobs
        obtain ⟨b, hb, -⟩ := hL.shdr i hi
        have hI := isShdr_of_desc hb h1
        have : ty = decTOf env d (secOf d.sections[i]).shType := by
          have := hI.ty; rw [h2'] at this; cases this; rfl
        refine ⟨h, ?_, hI⟩
        rw [hg', ← hobs, this]
  · intro j hj
    obtain ⟨ph, hph, hP⟩ := hsegOne j hj
    refine ⟨ph, ?_, hP⟩
    unfold iterSegments at hsegs
    rw [hcnt] at hsegs
    simp only [bind, Except.bind] at hsegs
    obtain ⟨-, hall⟩ := mapM_ok_inv _ _ _ hsegs
    have := hall j (by simpa using hj) (by omega)
    simp only [List.getElem_range] at this
    rw [this, hph]
  · refine ⟨obs.segments, hsegs, ?_⟩
    apply arePhdrs_of_forall
    · simp [hlen3]
    · intro i h1 h2
      have hj : i < d.segments.length := by simpa using h2
      obtain ⟨ph, hph, hP⟩ := hsegOne i hj
      simp only [List.getElem_map]
      rw [hph]; exact hP

theorem wfZ_mclass {env : Env} {d : ElfDesc} (h : d.wfZ env = true) : d.mclass ∈ machineClasses := by
  unfold ElfDesc.wfZ at h
  simp only [Bool.and_eq_true] at h
  have := h.1.1.1.1.1.1.1.1.1.1.1.1.1.1.1.2
  simpa using this

/-! ### file extents of stored bodies -/

/-- every body of the description sits at its section's `sh_offset` -/
theorem body_at {d : ElfDesc} {bytes : Bytes} (hL : LayoutFacts d bytes) {s : SecDesc} (hs : s ∈ d.sections) :
    readN bytes (secOf s).offset (bodyOf s).length = bodyOf s := by
  unfold bodyOf
  cases hb : s.body with
  | none => simp [readN]
  | some b => exact hL.body s hs b hb

/-- an extent inside a stored body is that part of the body -/
theorem extent_of_readN {data : Bytes} {pos : Nat} {bs : Bytes} (h : readN data pos bs.length = bs)
    (k n : Nat) (hkn : k + n ≤ bs.length) : extent data (pos + k) n = (bs.drop k).take n := by
  have hd := drop_of_readN h
  unfold extent
  rw [← List.drop_drop, hd, List.drop_append_of_le_length (by omega), List.take_append_of_le_length (by simp; omega)]

theorem extent_of_readN0 {data : Bytes} {pos : Nat} {bs : Bytes} (h : readN data pos bs.length = bs)
    (n : Nat) (hn : n ≤ bs.length) : extent data pos n = bs.take n := by
  simpa using extent_of_readN h 0 n (by omega)

/-- a non-empty stored body lies below the end of the byte string: in a byte string Python can hold
    (`len < 2^63`) its extent is reachable by `seek` / `read` -/
theorem stored_fits {d : ElfDesc} {bytes : Bytes} (hL : LayoutFacts d bytes) {s : SecDesc} (hs : s ∈ d.sections)
    (hne : bodyOf s ≠ []) (hlen : bytes.length < 2 ^ 63) :
    (secOf s).offset + (bodyOf s).length < 2 ^ 63 := by
  rcases readN_le_length (body_at hL hs) with h | h
  · exact absurd h hne
  · omega

/-! ### `get_section(i)` and its accessors on a byte string that carries a description -/

section sections
variable {env : Env} {d : ElfDesc} {bytes : Bytes} {f : ElfFile}

theorem fileSection_eq (X : FileFacts env d bytes f) {i : Nat} (hi : i < d.sections.length) {sh : Val} {o : SectionObj}
    (hget : getSection env f.S bytes f.header f.shstr i =
      .ok (kindOf (decTOf env d (secOf d.sections[i]).shType) d.sections[i].name, d.sections[i].name, sh))
    (hnew : sectionNew env f.S shFlags bytes sh = .ok o) :
    fileSection env specSF specMC shFlags bytes i =
      .ok (f, kindOf (decTOf env d (secOf d.sections[i]).shType) d.sections[i].name, sh, o) := by
  unfold fileSection
  simp only [X.hopen, bind, Except.bind, X.hdata, hget, hnew, pure, Except.pure]

/-- a section that is neither SHT_NOBITS nor flagged compressed -/
theorem file_plain (zlib : Bytes → Nat → R Bytes) (X : FileFacts env d bytes f) (hL : LayoutFacts d bytes)
    (hT : NobitsNaming (decTOf env d)) {i : Nat} (hi : i < d.sections.length) {b : Bytes}
    (hst : StoresPlain d.sections[i] b)
    (hfit : (secOf d.sections[i]).offset + (secOf d.sections[i]).size < 2 ^ 63) :
    fileSectionData env specSF specMC shFlags bytes zlib i = .ok b ∧
    fileSectionData env specSF specMC shFlags bytes zlib i
      = .ok (extent bytes (secOf d.sections[i]).offset (secOf d.sections[i]).size) ∧
    fileSectionMeta env specSF specMC shFlags bytes i
      = .ok (false, .int (secOf d.sections[i]).size, .int (secOf d.sections[i]).addralign) := by
  obtain ⟨hnb, hc, hle, hb⟩ := hst
  obtain ⟨sh, hget, hI⟩ := X.hsec i hi
  have hnew := sectionNew_plain env f.S bytes hI hc
  have hF := fileSection_eq X hi hget hnew
  have hdat := sectionData_raw zlib f.S bytes hT hI hnb (by omega) (by omega)
  have hext := extent_of_readN0 (body_at hL (List.getElem_mem hi)) _ hle
  refine ⟨?_, ?_, ?_⟩
  · unfold fileSectionData
    simp only [hF, bind, Except.bind, X.hdata, hdat, hext, hb]
  · unfold fileSectionData
    simp only [hF, bind, Except.bind, X.hdata, hdat]
  · unfold fileSectionMeta
    simp only [hF, bind, Except.bind, pure, Except.pure, plainObj]
    rfl

/-- SHT_NOBITS (not flagged compressed) -/
theorem file_nobits (zlib : Bytes → Nat → R Bytes) (X : FileFacts env d bytes f)
    (hT : NobitsNaming (decTOf env d)) {i : Nat} (hi : i < d.sections.length)
    (hnb : (secOf d.sections[i]).nobits = true) (hc : (secOf d.sections[i]).compressed = false)
    (hs : (secOf d.sections[i]).size < 2 ^ 63) :
    fileSectionData env specSF specMC shFlags bytes zlib i = .ok (List.replicate (secOf d.sections[i]).size 0) ∧
    fileSectionMeta env specSF specMC shFlags bytes i
      = .ok (false, .int (secOf d.sections[i]).size, .int (secOf d.sections[i]).addralign) := by
  obtain ⟨sh, hget, hI⟩ := X.hsec i hi
  have hnew := sectionNew_plain env f.S bytes hI hc
  have hF := fileSection_eq X hi hget hnew
  have hdat := sectionData_nobits zlib f.S bytes hT hI hnb hs
  refine ⟨?_, ?_⟩
  · unfold fileSectionData
    simp only [hF, bind, Except.bind, X.hdata, hdat]
  · unfold fileSectionMeta
    simp only [hF, bind, Except.bind, pure, Except.pure, plainObj]
    rfl

theorem encChdr_length (cls : Nat) (le : Bool) (c : Chdr) : (encChdr cls le c).length = chdrSize cls := by
  unfold encChdr chdrSize
  split <;> simp [encNat_length]

/-- the compression header of the description's class, read where its encoding sits -/
theorem chdr_at (X : FileFacts env d bytes f) {ch : Chdr} (hfit : ch.fits d.cls = true) {off : Nat} {rest : Bytes}
    (hd : bytes.drop off = encChdr d.cls d.le ch ++ rest) (hp : off < 2 ^ 63) :
    ∃ chv p, structParseAt env f.S.Elf_Chdr bytes off = .ok (chv, p) ∧ IsChdr (decCOf env) chv ch ∧
      f.S.Elf_Chdr.sizeof = some (chdrSize d.cls) := by
  rcases X.hclsOk with h | h
  · have hS : f.S = Spec.elfStructs ⟨d.le, 32, d.mclass, d.solaris, d.core⟩ := by
      rw [X.hS]; unfold ElfDesc.S ElfDesc.cfg; rw [h]
    rw [h] at hfit hd
    obtain ⟨v, h1, h2⟩ := chdr_roundtrip32 env d.le d.mclass d.solaris d.core ch hfit bytes off rest hd hp
    exact ⟨v, _, by rw [hS]; exact h1, h2, by rw [hS, h]; exact chdr_sizeof32 _ _ _ _⟩
  · have hS : f.S = Spec.elfStructs ⟨d.le, 64, d.mclass, d.solaris, d.core⟩ := by
      rw [X.hS]; unfold ElfDesc.S ElfDesc.cfg; rw [h]
    rw [h] at hfit hd
    obtain ⟨v, h1, h2⟩ := chdr_roundtrip64 env d.le d.mclass d.solaris d.core ch hfit bytes off rest hd hp
    exact ⟨v, _, by rw [hS]; exact h1, h2, by rw [hS, h]; exact chdr_sizeof64 _ _ _ _⟩

/-- what a stored compressed section gives the object-level lemmas: the header parse, the header's
    size, and the payload -/
theorem compressed_setup (X : FileFacts env d bytes f) (hL : LayoutFacts d bytes) {i : Nat} (hi : i < d.sections.length)
    {ch : Chdr} {z : Bytes} (hst : StoresCompressed d.cls d.le d.sections[i] ch z)
    (hfit : (secOf d.sections[i]).offset + (secOf d.sections[i]).size < 2 ^ 63) :
    (∃ chv p, structParseAt env f.S.Elf_Chdr bytes (secOf d.sections[i]).offset = .ok (chv, p) ∧
      IsChdr (decCOf env) chv ch) ∧
    f.S.Elf_Chdr.sizeof = some (chdrSize d.cls) ∧
    payload d.cls bytes (secOf d.sections[i]) = z ∧
    chdrSize d.cls ≤ (secOf d.sections[i]).size := by
  obtain ⟨hnb, hc, hf, hbody, hsize⟩ := hst
  have hbo : bodyOf d.sections[i] = encChdr d.cls d.le ch ++ z := by simp [bodyOf, hbody]
  have hr := body_at hL (List.getElem_mem hi)
  rw [hbo] at hr
  have hdrop := drop_of_readN hr
  rw [List.append_assoc] at hdrop
  obtain ⟨chv, p, h1, h2, h3⟩ := chdr_at X hf hdrop (by omega)
  have hlen := encChdr_length d.cls d.le ch
  refine ⟨⟨chv, p, h1, h2⟩, h3, ?_, ?_⟩
  · unfold payload
    have e1 : (encChdr d.cls d.le ch ++ z).drop (chdrSize d.cls) = z := by
      rw [← hlen]; simp
    have e2 : (encChdr d.cls d.le ch ++ z).length - chdrSize d.cls = z.length := by
      rw [List.length_append, hlen]; omega
    rw [extent_of_readN hr (chdrSize d.cls) _ (by rw [hsize, List.length_append, hlen]; omega), hsize, e1, e2]
    simp
  · rw [hsize]; simp [List.length_append, hlen]

/-- SHF_COMPRESSED: logical size and alignment from the compression header; the data is the inflated
    stream when its length is the declared one, a rejection otherwise -/
theorem file_compressed (zlib : Bytes → Nat → R Bytes) (inflate : Bytes → Option Bytes)
    (X : FileFacts env d bytes f) (hL : LayoutFacts d bytes)
    (hT : NobitsNaming (decTOf env d)) (hC : ZlibNaming (decCOf env)) {i : Nat} (hi : i < d.sections.length)
    {ch : Chdr} {z : Bytes} (hst : StoresCompressed d.cls d.le d.sections[i] ch z)
    (hfit : (secOf d.sections[i]).offset + (secOf d.sections[i]).size < 2 ^ 63)
    (hw : ch.chSize + 1 < 2 ^ 63) (P : Bytes) (hP : inflate z = some P)
    (hz : ∀ n, 0 < n → zlib z n = .ok (P.take n)) :
    fileSectionMeta env specSF specMC shFlags bytes i = .ok (true, .int ch.chSize, .int ch.chAlign) ∧
    (fileSectionData env specSF specMC shFlags bytes zlib i).toOption = inflatedOf inflate ch z ∧
    (ch.chType = ELFCOMPRESS_ZLIB → P.length = ch.chSize →
      fileSectionData env specSF specMC shFlags bytes zlib i = .ok P) ∧
    (ch.chType = ELFCOMPRESS_ZLIB → P.length ≠ ch.chSize →
      fileSectionData env specSF specMC shFlags bytes zlib i = .error .elfCompressionError) ∧
    (ch.chType ≠ ELFCOMPRESS_ZLIB →
      fileSectionData env specSF specMC shFlags bytes zlib i = .error .elfCompressionError ∨
      fileSectionData env specSF specMC shFlags bytes zlib i = .error .valueError) := by
  obtain ⟨⟨chv, p, hparse, hch⟩, hsz, hpay, hfull⟩ := compressed_setup X hL hi hst hfit
  obtain ⟨hnb, hc, -, -, -⟩ := hst
  obtain ⟨sh, hget, hI⟩ := X.hsec i hi
  have hnew := sectionNew_compressed env f.S bytes hI hc hparse hch
  have hF := fileSection_eq X hi hget hnew
  have h0 : ¬ ((secOf d.sections[i]).flags &&& 0x800 = 0) := by
    intro h; rw [(compressed_false_iff _).2 h] at hc; cases hc
  have hD : fileSectionData env specSF specMC shFlags bytes zlib i
      = sectionData zlib f.S bytes (zObj (decCOf env) sh (secOf d.sections[i]) ch) := by
    unfold fileSectionData
    simp only [hF, bind, Except.bind, X.hdata]
  have hzl := fun hty => sectionData_zlib zlib f.S d.cls bytes hT hC (sh := sh) (ch := ch) hI hnb hc hty hsz
    (by omega) hfull (by omega) hw P (by rw [hpay]; exact hz _ (by omega))
  have hun := fun hty => sectionData_unknown zlib f.S bytes hT hC (sh := sh) (ch := ch) hI hnb hc hty
  refine ⟨?_, ?_, ?_, ?_, ?_⟩
  · unfold fileSectionMeta
    simp only [hF, bind, Except.bind, pure, Except.pure, zObj, bne_def', cast_beq_zero]
    have : ((secOf d.sections[i]).flags &&& 2048 == 0) = false := by simpa using h0
    rw [this]; rfl
  · rw [hD]
    by_cases hty : ch.chType = ELFCOMPRESS_ZLIB
    · rw [hzl hty]
      simp only [inflatedOf, hty, hP, if_true]
      by_cases hl : P.length = ch.chSize <;> simp [hl, Except.toOption]
    · rcases hun hty with h | h <;> simp [h, inflatedOf, hty, Except.toOption]
  · intro hty hl; rw [hD, hzl hty, if_pos hl]
  · intro hty hl; rw [hD, hzl hty, if_neg hl]
  · intro hty; rw [hD]; exact hun hty

/-- `get_section(i).data()` of a section not flagged compressed is `Section.data` on the object
    `Section.__init__` makes of its header (whatever its offsets and sizes) -/
theorem fileSectionData_plain_bridge (zlib : Bytes → Nat → R Bytes) (X : FileFacts env d bytes f) {i : Nat}
    (hi : i < d.sections.length) (hc : (secOf d.sections[i]).compressed = false) :
    ∃ sh, IsShdr (decTOf env d) sh (secOf d.sections[i]) ∧
      fileSectionData env specSF specMC shFlags bytes zlib i
        = sectionData zlib f.S bytes (plainObj sh (secOf d.sections[i])) := by
  obtain ⟨sh, hget, hI⟩ := X.hsec i hi
  have hnew := sectionNew_plain env f.S bytes hI hc
  have hF := fileSection_eq X hi hget hnew
  refine ⟨sh, hI, ?_⟩
  unfold fileSectionData
  simp only [hF, bind, Except.bind, X.hdata]

/-- ... and of a stored compressed section, on the object made of its header and compression header -/
theorem fileSectionData_z_bridge (zlib : Bytes → Nat → R Bytes) (X : FileFacts env d bytes f) (hL : LayoutFacts d bytes)
    {i : Nat} (hi : i < d.sections.length) {ch : Chdr} {z : Bytes}
    (hst : StoresCompressed d.cls d.le d.sections[i] ch z)
    (hfit : (secOf d.sections[i]).offset + (secOf d.sections[i]).size < 2 ^ 63) :
    ∃ sh, IsShdr (decTOf env d) sh (secOf d.sections[i]) ∧
      fileSectionData env specSF specMC shFlags bytes zlib i
        = sectionData zlib f.S bytes (zObj (decCOf env) sh (secOf d.sections[i]) ch) ∧
      f.S.Elf_Chdr.sizeof = some (chdrSize d.cls) ∧ payload d.cls bytes (secOf d.sections[i]) = z ∧
      chdrSize d.cls ≤ (secOf d.sections[i]).size := by
  obtain ⟨⟨chv, p, hparse, hch⟩, hsz, hpay, hfull⟩ := compressed_setup X hL hi hst hfit
  obtain ⟨hnb, hc, -, -, -⟩ := hst
  obtain ⟨sh, hget, hI⟩ := X.hsec i hi
  have hnew := sectionNew_compressed env f.S bytes hI hc hparse hch
  have hF := fileSection_eq X hi hget hnew
  refine ⟨sh, hI, ?_, hsz, hpay, hfull⟩
  unfold fileSectionData
  simp only [hF, bind, Except.bind, X.hdata]

/-- a stream zlib rejects: the section is rejected with zlib's error -/
theorem file_compressed_badstream (zlib : Bytes → Nat → R Bytes) (X : FileFacts env d bytes f) (hL : LayoutFacts d bytes)
    (hT : NobitsNaming (decTOf env d)) (hC : ZlibNaming (decCOf env)) {i : Nat} (hi : i < d.sections.length)
    {ch : Chdr} {z : Bytes} (hst : StoresCompressed d.cls d.le d.sections[i] ch z)
    (hfit : (secOf d.sections[i]).offset + (secOf d.sections[i]).size < 2 ^ 63)
    (hty : ch.chType = ELFCOMPRESS_ZLIB) (hw : ch.chSize + 1 < 2 ^ 63) (e : Err)
    (hz : zlib z (ch.chSize + 1) = .error e) :
    fileSectionData env specSF specMC shFlags bytes zlib i = .error e := by
  obtain ⟨sh, hI, hD, hsz, hpay, hfull⟩ := fileSectionData_z_bridge zlib X hL hi hst hfit
  rw [hD]
  exact sectionData_zlib_err zlib f.S d.cls bytes hT hC hI hst.1 hst.2.1 hty hsz (by omega) hfull (by omega) hw e
    (by rw [hpay]; exact hz)

/-- a declared size that `decompress(data, ch_size + 1)` cannot be asked for -/
theorem file_compressed_want_overflow (zlib : Bytes → Nat → R Bytes) (X : FileFacts env d bytes f) (hL : LayoutFacts d bytes)
    (hT : NobitsNaming (decTOf env d)) (hC : ZlibNaming (decCOf env)) {i : Nat} (hi : i < d.sections.length)
    {ch : Chdr} {z : Bytes} (hst : StoresCompressed d.cls d.le d.sections[i] ch z)
    (hfit : (secOf d.sections[i]).offset + (secOf d.sections[i]).size < 2 ^ 63)
    (hty : ch.chType = ELFCOMPRESS_ZLIB) (hw : 2 ^ 63 ≤ ch.chSize + 1) :
    fileSectionData env specSF specMC shFlags bytes zlib i = .error .overflowError := by
  obtain ⟨sh, hI, hD, hsz, hpay, hfull⟩ := fileSectionData_z_bridge zlib X hL hi hst hfit
  rw [hD]
  exact sectionData_zlib_want_overflow zlib f.S d.cls bytes hT hC hI hst.1 hst.2.1 hty hsz (by omega) hfull (by omega) hw

/-! ### string tables -/

/-- a string of the description's table is the string at that offset of the file -/
theorem firstNul_of_table {d : ElfDesc} (hL : LayoutFacts d bytes) {s : SecDesc} (hs : s ∈ d.sections) {off : Nat}
    {str : Bytes} (h : stringAt (tableOf s) off = some str) :
    firstNul (bytes.drop ((secOf s).offset + off)) = some str := by
  unfold stringAt tableOf at h
  rw [List.drop_take] at h
  have h1 := firstNul_take _ _ _ h
  have hd := drop_of_readN (body_at hL hs)
  rw [← List.drop_drop, hd]
  by_cases ho : off ≤ (bodyOf s).length
  · rw [List.drop_append_of_le_length ho]
    exact firstNul_append_of_some _ h1
  · rw [List.drop_eq_nil_of_le (by omega)] at h1
    simp [firstNul] at h1

theorem kindOf_strtab (name : Bytes) : kindOf (.str "SHT_STRTAB") name = "StringTableSection" := rfl

/-- `get_section(i).get_string(off)` on a string table of the description -/
theorem file_get_string (X : FileFacts env d bytes f) (hL : LayoutFacts d bytes) {i : Nat} (hi : i < d.sections.length)
    (hk : decTOf env d (secOf d.sections[i]).shType = .str "SHT_STRTAB") {off : Nat} {str : Bytes}
    (hp : (secOf d.sections[i]).offset + off < 2 ^ 63) (hs : stringAt (tableOf d.sections[i]) off = some str) :
    fileGetString env specSF specMC bytes i off = .ok str := by
  obtain ⟨sh, hget, hI⟩ := X.hsec i hi
  unfold fileGetString
  simp only [X.hopen, bind, Except.bind, X.hdata, hget, hk, kindOf_strtab, beq_self_eq_true, if_true]
  rw [getString_eq bytes off hI.offset hp, firstNul_of_table hL (List.getElem_mem hi) hs]
  rfl

/-- ... and at ANY reachable offset: the bytes up to the first NUL from there in the file, `''` when
    there is none (or the string is empty) -/
theorem file_get_string_any (X : FileFacts env d bytes f) {i : Nat} (hi : i < d.sections.length)
    (hk : decTOf env d (secOf d.sections[i]).shType = .str "SHT_STRTAB") {off : Nat}
    (hp : (secOf d.sections[i]).offset + off < 2 ^ 63) :
    fileGetString env specSF specMC bytes i off
      = .ok ((firstNul (bytes.drop ((secOf d.sections[i]).offset + off))).getD []) := by
  obtain ⟨sh, hget, hI⟩ := X.hsec i hi
  unfold fileGetString
  simp only [X.hopen, bind, Except.bind, X.hdata, hget, hk, kindOf_strtab, beq_self_eq_true, if_true]
  exact getString_eq bytes off hI.offset hp

/-- an offset no `seek` reaches -/
theorem file_get_string_overflow (X : FileFacts env d bytes f) {i : Nat} (hi : i < d.sections.length)
    (hk : decTOf env d (secOf d.sections[i]).shType = .str "SHT_STRTAB") {off : Nat}
    (hp : 2 ^ 63 ≤ (secOf d.sections[i]).offset + off) :
    fileGetString env specSF specMC bytes i off = .error .overflowError := by
  obtain ⟨sh, hget, hI⟩ := X.hsec i hi
  unfold fileGetString
  simp only [X.hopen, bind, Except.bind, X.hdata, hget, hk, kindOf_strtab, beq_self_eq_true, if_true]
  exact getString_offset_overflow bytes off hI.offset hp

end sections

/-! ### segments -/

section segments
variable {env : Env} {d : ElfDesc} {bytes : Bytes} {f : ElfFile}

theorem fileSegment_eq (X : FileFacts env d bytes f) {j : Nat} {kind : String} {ph : Val}
    (hget : getSegment env f.S bytes f.header f.shstr j = .ok (kind, ph)) :
    fileSegment env specSF specMC bytes j = .ok (f, kind, ph) := by
  unfold fileSegment
  simp only [X.hopen, bind, Except.bind, X.hdata, hget, pure, Except.pure]

/-- `get_segment(j).data()` is the file extent of the described segment -/
theorem file_segment_data (X : FileFacts env d bytes f) {j : Nat} (hj : j < d.segments.length)
    (ho : (segOf d.segments[j]).offset < 2 ^ 63) (hs : (segOf d.segments[j]).filesz < 2 ^ 63) :
    fileSegmentData env specSF specMC bytes j = .ok (segData bytes (segOf d.segments[j])) := by
  obtain ⟨ph, hget, hP⟩ := X.hseg j hj
  unfold fileSegmentData
  simp only [fileSegment_eq X hget, bind, Except.bind, X.hdata]
  exact segmentData_eq bytes hP ho hs

/-- ... which is part of a section body when the description puts the extent inside one -/
theorem segData_in_body (hL : LayoutFacts d bytes) {g : Seg} {s : SecDesc} (hs : s ∈ d.sections) {k : Nat}
    (hin : SegInBody g s k) : segData bytes g = segBytes g s k := by
  obtain ⟨h1, h2⟩ := hin
  unfold segData segBytes
  rw [h1]
  exact extent_of_readN (body_at hL hs) k g.filesz h2

theorem segKindOf_interp : segKindOf (.str "PT_INTERP") = "InterpSegment" := rfl

/-- `get_segment(j).get_interp_name()` on a PT_INTERP segment -/
theorem file_interp (X : FileFacts env d bytes f) {j : Nat} (hj : j < d.segments.length)
    (hk : decPOf env d (segOf d.segments[j]).ptype = .str "PT_INTERP")
    (ho : (segOf d.segments[j]).offset < 2 ^ 63) {path : Bytes}
    (hs : interpName bytes (segOf d.segments[j]) = some path) :
    fileInterpName env specSF specMC bytes j = .ok path := by
  obtain ⟨ph, hget, hP⟩ := X.hseg j hj
  unfold fileInterpName
  simp only [fileSegment_eq X hget, bind, Except.bind, X.hdata, hk, segKindOf_interp, beq_self_eq_true, if_true]
  exact getInterpName_eq env bytes hP ho hs

/-- `get_segment(j).get_interp_name()` is `get_interp_name` on the described header -/
theorem fileInterpName_bridge (X : FileFacts env d bytes f) {j : Nat} (hj : j < d.segments.length)
    (hk : decPOf env d (segOf d.segments[j]).ptype = .str "PT_INTERP") :
    ∃ ph, IsPhdr (decPOf env d) ph (segOf d.segments[j]) ∧
      fileInterpName env specSF specMC bytes j = getInterpName env bytes ph := by
  obtain ⟨ph, hget, hP⟩ := X.hseg j hj
  refine ⟨ph, hP, ?_⟩
  unfold fileInterpName
  simp only [fileSegment_eq X hget, bind, Except.bind, X.hdata, hk, segKindOf_interp, beq_self_eq_true, if_true]

/-- the path is the NUL-terminated string the description stores at the segment's offset -/
theorem interpName_in_body (hL : LayoutFacts d bytes) {g : Seg} {s : SecDesc} (hs : s ∈ d.sections) {k : Nat}
    (hoff : g.offset = (secOf s).offset + k) {path : Bytes} (hp : firstNul ((bodyOf s).drop k) = some path) :
    interpName bytes g = some path := by
  unfold interpName
  have hd := drop_of_readN (body_at hL hs)
  rw [hoff, ← List.drop_drop, hd]
  by_cases ho : k ≤ (bodyOf s).length
  · rw [List.drop_append_of_le_length ho]
    exact firstNul_append_of_some _ hp
  · rw [List.drop_eq_nil_of_le (by omega)] at hp
    simp [firstNul] at hp

/-- `address_offsets(start, size)` over the description's segments -/
theorem file_address_offsets (X : FileFacts env d bytes f) (hP : PTypeNaming (decPOf env d)) (start size : Nat) :
    fileAddressOffsets env specSF specMC bytes (start : Int) (size : Int)
      = .ok ((addrOffsets (d.segments.map segOf) start size).map Int.ofNat) := by
  obtain ⟨kphs, hit, hA⟩ := X.hsegs
  unfold fileAddressOffsets addressOffsets
  simp only [X.hopen, bind, Except.bind, X.hdata, hit]
  exact addressOffsetsOf_eq hP start size _ _ hA

/-- `get_segment(j).section_in_segment(get_section(i))` is the strict rule on the description's headers -/
theorem file_in_segment (X : FileFacts env d bytes f) (hP : PTypeNaming (decPOf env d))
    (hT : NobitsNaming (decTOf env d)) {j i : Nat} (hj : j < d.segments.length) (hi : i < d.sections.length) :
    fileSectionInSegment env specSF specMC shFlags bytes j i
      = .ok (inSegmentStrict (segOf d.segments[j]) (secOf d.sections[i])) := by
  obtain ⟨ph, hgetp, hPh⟩ := X.hseg j hj
  obtain ⟨sh, hgets, hSh⟩ := X.hsec i hi
  unfold fileSectionInSegment
  simp only [X.hopen, bind, Except.bind, X.hdata, hgetp, hgets]
  exact sectionInSegment_eq hP hT hPh hSh

/-- `get_segment(j).data()` is `Segment.data` on the described header, whatever its offsets and sizes -/
theorem fileSegmentData_bridge (X : FileFacts env d bytes f) {j : Nat} (hj : j < d.segments.length) :
    ∃ ph, IsPhdr (decPOf env d) ph (segOf d.segments[j]) ∧
      fileSegmentData env specSF specMC bytes j = segmentData bytes ph := by
  obtain ⟨ph, hget, hP⟩ := X.hseg j hj
  refine ⟨ph, hP, ?_⟩
  unfold fileSegmentData
  simp only [fileSegment_eq X hget, bind, Except.bind, X.hdata]

end segments

/-! ### the whole-file hypotheses, bundled -/

/-- the byte string `bytes` carries the well-formed description `d`: C01's hypotheses (compressed
    sections admitted) -/
structure Carries (env : Env) (d : ElfDesc) (bytes : Bytes) : Prop where
  wf : d.wfZ env = true
  layout : Layout d bytes
  observable : ∃ obs, d.observe env = .ok obs

theorem Carries.facts {env : Env} {d : ElfDesc} {bytes : Bytes} (h : Carries env d bytes) :
    ∃ f, FileFacts env d bytes f ∧ LayoutFacts d bytes := by
  obtain ⟨obs, ho⟩ := h.observable
  obtain ⟨f, X⟩ := file_facts_z h.wf h.layout ho
  exact ⟨f, X, layout_facts h.layout⟩

/-- every image the assembler makes of a well-formed description carries it -/
theorem carries_of_assemble {env : Env} {d : ElfDesc} {tail : Nat} {bytes : Bytes} {obs : ElfObs}
    (hwf : d.wfZ env = true) (h : d.assemble tail = some bytes) (ho : d.observe env = .ok obs) :
    Carries env d bytes :=
  ⟨hwf, assemble_layout_aux_z hwf h, obs, ho⟩

end PyElf.Proofs.C02
