/-
  C07: a concrete forest for the non-vacuity examples of the end-to-end theorems (Props/C07): one abbreviation
  table; a DWARF 4 unit whose entries refer to two objects of .debug_loc (one with view pairs, through
  DW_AT_GNU_locviews) and a DWARF 5 unit whose entries refer to the two lists of the first unit block of
  .debug_loclists — one BY INDEX (DW_FORM_loclistx through DW_AT_loclists_base and the offset table), one by offset
  with view pairs.  The list sections are `ListsLocWalk.demoObjs` / `demoUs`.
-/
import PyElf.Proofs.ListsInfo
import PyElf.Proofs.ListsLocWalk
namespace PyElf.Proofs.ListsInfoDemo
open PyElf PyElf.Spec PyElf.Spec.C04 PyElf.Spec.Lists

def d1 : AbbrevDecl := { code := 1, tag := 0x11, children := true, specs := [{ name := 0x11, form := 0x01 }] }
def d2 : AbbrevDecl :=
  { code := 2, tag := 0x34, children := false,
    specs := [{ name := 0x2137, form := 0x17, nameLen := 2 }, { name := 0x02, form := 0x17 }] }
def d3 : AbbrevDecl :=
  { code := 3, tag := 0x34, children := false, specs := [{ name := 0x40, form := 0x17 }, { name := 0x2f, form := 0x0b }] }
def d4 : AbbrevDecl := { code := 4, tag := 0x11, children := true, specs := [{ name := 0x8c, form := 0x17, nameLen := 2 }] }
def d5 : AbbrevDecl := { code := 5, tag := 0x34, children := false, specs := [{ name := 0x02, form := 0x22 }] }

def tree4 : Tree :=
  .mk { decl := d1, attrs := [{ form := 0x01, op := .nat 0 }] }
    [.mk { decl := d2, attrs := [{ form := 0x17, op := .nat 2 }, { form := 0x17, op := .nat 5 }] } [] 1,
     .mk { decl := d3, attrs := [{ form := 0x17, op := .nat 33 }, { form := 0x0b, op := .nat 9 }] } [] 1] 1

def tree5 : Tree :=
  .mk { decl := d4, attrs := [{ form := 0x17, op := .nat 12 }] }
    [.mk { decl := d5, attrs := [{ form := 0x22, op := .uleb 1 0 }] } [] 1,
     .mk { decl := d2, attrs := [{ form := 0x17, op := .nat 28 }, { form := 0x17, op := .nat 30 }] } [] 1] 2

def demoF : Forest :=
  { le := true,
    tables := [{ gap := [0xEE], decls := [d1, d2, d3, d4, d5] }],
    units := [{ fmt64 := false, version := 4, asz := 4, table := 0, tree := tree4 },
              { fmt64 := false, version := 5, asz := 4, table := 0, tree := tree5 }],
    secs := { loclists := some (encLocUnits true 4 ListsLocWalk.demoUs) } }

end PyElf.Proofs.ListsInfoDemo
