/-
  Helper lemmas for C05 (fourth wave): `LineProgram._decode_line_program` on the `LineProgram` object
  of an extended unit (`lpOfX`: extension bytes covered by `header_length`, parameters only encodable).
-/
import PyElf.Proofs.LineHeaderExt
import PyElf.Proofs.LineDecodeExt
namespace PyElf.Proofs.Line
open PyElf PyElf.Spec PyElf.Spec.Line PyElf.Model.Line PyElf.Proofs

theorem ofHeader_observeG (h : Header) (secs : StrSecs) (UL HL : Nat) :
    Hdr.ofHeader (h.observeG secs UL HL) = .ok (hdrOf h.p) := by
  have hneg : ∀ n : Nat, ¬ ((n : Int) < 0) := fun n => by omega
  simp [Hdr.ofHeader, Header.observeG, Val.getField, Val.getNat, Val.getInt, Fields.getR, Fields.get?, Val.asNat,
    Val.asInt, bind, Except.bind, pure, Except.pure, hdrOf, hneg]

theorem unitWFX_params {h : Header} {secs : StrSecs} {ext body : Bytes} (hwf : unitWFX h secs ext body = true) :
    h.p.WFenc h.version = true := by
  simp only [unitWFX, Header.WFenc, Bool.and_eq_true] at hwf
  exact hwf.1.1.1.1.1.2

theorem progOK_all {p : Params} {ver : Nat} {is : List Instr} (h : progOK p ver is = true) :
    ∀ i ∈ is, i.WF p ver = true ∧ i.divZero p = false := by
  intro i hi
  have := (List.all_eq_true.1 h) i hi
  simpa using this

/-- a program none of whose instructions divides by a zero field: the rows are the standard's and the
    decoder stops at the unit's end — for any `maximum_operations_per_instruction` / `line_range`, and
    with extension bytes between the tables and the program -/
theorem decode_lpOfX {env : Env} {cfg : DwarfCfg} (h : Header) (secs : StrSecs) (ext : Bytes) (is : List Instr)
    (pre rest : Bytes) (hwf : unitWFX h secs ext (encodeProgram h.p is) = true) (hs : h.p.stdLensOK = true)
    (hprog : progOK h.p h.version is = true) (hle : h.p.le = cfg.le) (hasz : h.p.asz = cfg.asz)
    (hsz : pre.length + (encodeUnitX h ext (encodeProgram h.p is)).length ≤ ssizeMax) :
    ∃ entries,
      decodeLineProgram env (Spec.dwarfStructs cfg) specConsts (pre ++ encodeUnitX h ext (encodeProgram h.p is) ++ rest)
          (lpOfX h secs ext (encodeProgram h.p is) pre.length)
        = .ok (entries,
               (lpOfX h secs ext (encodeProgram h.p is) pre.length).fileEntry.map (· ++ (definedFiles is).map FileEntry.obs),
               pre.length + (encodeUnitX h ext (encodeProgram h.p is)).length)
      ∧ rowsOf entries = stdRun h.p is := by
  have henc := unitWFX_params hwf
  have hall := progOK_all hprog
  have hfiles : h.version ≤ 4 → (lpOfX h secs ext (encodeProgram h.p is) pre.length).fileEntry.isSome = true := by
    intro hv
    have : ¬ h.version ≥ 5 := by omega
    simp [lpOfX, this]
  obtain ⟨new, hrun, hrows⟩ := decodeLoop_runW (env := env) (cfg := cfg) (p := h.p) (ver := h.version)
    (pre ++ encodeUnitX h ext (encodeProgram h.p is) ++ rest)
    (pre.length + (encodeUnitX h ext (encodeProgram h.p is)).length) is
    ((encodeProgram h.p is).length + 1) (pre.length + headerSizeX h ext)
    (LineState.new (.int h.p.defaultIsStmt)) (lpOfX h secs ext (encodeProgram h.p is) pre.length).fileEntry [] rest
    (fun i hi => stepOK_weak henc hs hle hasz i (hall i hi).1 (hall i hi).2)
    (drop_bodyX h ext _ pre rest) (by rw [encodeUnitX_length]; omega) (by omega) hfiles hsz
  refine ⟨new, ?_, ?_⟩
  · have hfuel : pre.length + (encodeUnitX h ext (encodeProgram h.p is)).length - (pre.length + headerSizeX h ext) + 1
        = (encodeProgram h.p is).length + 1 := by rw [encodeUnitX_length]; omega
    simp only [decodeLineProgram, lpOfX, Header.observeX, ofHeader_observeG, bind, Except.bind, hdr_default_is_stmt]
    simp only [lpOfX] at hrun
    rw [hfuel, hrun]
    simp
  · rw [hrows, toRow_new]; rfl

/-- a program whose instruction `i`, after a prefix `is1` that divides by no zero field, does:
    `get_entries()` raises ZeroDivisionError (no rows are delivered, whatever follows `i`) -/
theorem decode_lpOfX_divZero {env : Env} {cfg : DwarfCfg} (h : Header) (secs : StrSecs) (ext : Bytes)
    (is1 : List Instr) (i : Instr) (is2 : List Instr) (pre rest : Bytes)
    (hwf : unitWFX h secs ext (encodeProgram h.p (is1 ++ i :: is2)) = true) (hs : h.p.stdLensOK = true)
    (hprog : progOK h.p h.version is1 = true) (hw : i.WF h.p h.version = true) (hz : i.divZero h.p = true)
    (hle : h.p.le = cfg.le) (hasz : h.p.asz = cfg.asz)
    (hsz : pre.length + (encodeUnitX h ext (encodeProgram h.p (is1 ++ i :: is2))).length ≤ ssizeMax) :
    decodeLineProgram env (Spec.dwarfStructs cfg) specConsts
        (pre ++ encodeUnitX h ext (encodeProgram h.p (is1 ++ i :: is2)) ++ rest)
        (lpOfX h secs ext (encodeProgram h.p (is1 ++ i :: is2)) pre.length)
      = .error .zeroDivision := by
  have henc := unitWFX_params hwf
  have hall := progOK_all hprog
  obtain ⟨body, hbody⟩ : ∃ b, b = encodeProgram h.p (is1 ++ i :: is2) := ⟨_, rfl⟩
  have hsplit : body = encodeProgram h.p is1 ++ (i.enc h.p ++ (encodeProgram h.p is2)) := by
    rw [hbody, encodeProgram_append]; rfl
  have hblen : body.length = (encodeProgram h.p is1).length + (i.enc h.p).length + (encodeProgram h.p is2).length := by
    rw [hsplit]; simp; omega
  rw [← hbody] at hsz hwf ⊢
  have hfiles : h.version ≤ 4 → (lpOfX h secs ext body pre.length).fileEntry.isSome = true := by
    intro hv
    have : ¬ h.version ≥ 5 := by omega
    simp [lpOfX, this]
  have hd : (pre ++ encodeUnitX h ext body ++ rest).drop (pre.length + headerSizeX h ext)
      = encodeProgram h.p is1 ++ (i.enc h.p ++ (encodeProgram h.p is2 ++ rest)) := by
    rw [drop_bodyX, hsplit]; simp [List.append_assoc]
  have hrun := decodeLoop_divZero (env := env) (cfg := cfg) (p := h.p) (ver := h.version) henc
    (pre ++ encodeUnitX h ext body ++ rest) (pre.length + (encodeUnitX h ext body).length) is1 i
    (body.length + 1) (pre.length + headerSizeX h ext)
    (LineState.new (.int h.p.defaultIsStmt)) (lpOfX h secs ext body pre.length).fileEntry [] _
    (fun j hj => stepOK_weak henc hs hle hasz j (hall j hj).1 (hall j hj).2) hw hz hd
    (by rw [encodeUnitX_length]; omega) (by omega) hfiles hsz
  have hfuel : pre.length + (encodeUnitX h ext body).length - (pre.length + headerSizeX h ext) + 1
      = body.length + 1 := by rw [encodeUnitX_length]; omega
  simp only [decodeLineProgram, lpOfX, Header.observeX, ofHeader_observeG, bind, Except.bind, hdr_default_is_stmt]
  simp only [lpOfX] at hrun
  rw [hfuel, hrun]

end PyElf.Proofs.Line
