/-
  Helper lemmas for C12 (DWARF expressions): table lookups, operand round trips,
  the parse loop.  Property statements live in Props/C12.lean.
-/
import PyElf.Core.Construct
import PyElf.Spec.DwarfExpr
import PyElf.Model.DwarfExpr
import PyElf.Proofs.Primitives
namespace PyElf.Proofs
open PyElf PyElf.Spec PyElf.Model

/-! ### association lists -/

theorem lookup_map_snd {β γ} (g : β → γ) (k : Nat) (l : List (Nat × β)) :
    (l.map fun r => (r.1, g r.2)).lookup k = (l.lookup k).map g := by
  induction l with
  | nil => rfl
  | cons a l ih =>
    obtain ⟨k', v⟩ := a
    simp only [List.map_cons, List.lookup_cons]
    cases k == k' <;> simp [ih]

theorem lookup_some_mem {β} {k : Nat} {v : β} {l : List (Nat × β)} (h : l.lookup k = some v) : (k, v) ∈ l := by
  induction l with
  | nil => simp at h
  | cons a l ih =>
    obtain ⟨k', v'⟩ := a
    rw [List.lookup_cons] at h
    cases hk : k == k' with
    | true =>
      rw [hk] at h
      have : k = k' := by simpa using hk
      simp only [Option.some.injEq] at h
      subst h; subst this; simp
    | false =>
      rw [hk] at h
      exact List.mem_cons_of_mem _ (ih h)

theorem lookup_append_some {β} {k : Nat} {v : β} {l : List (Nat × β)} (l' : List (Nat × β))
    (h : l.lookup k = some v) : (l ++ l').lookup k = some v := by
  induction l with
  | nil => simp at h
  | cons a l ih =>
    obtain ⟨k', v'⟩ := a
    rw [List.cons_append, List.lookup_cons]
    rw [List.lookup_cons] at h
    cases hk : k == k' with
    | true => rw [hk] at h; exact h
    | false => rw [hk] at h; exact ih h

/-! ### the operation table -/

theorem opTable_lookup (c : DwarfCfg) (op : Nat) : (opTable c).lookup op = opSig c op := by
  unfold opTable opSig opSigAbs opRow?
  rw [lookup_map_snd (fun r : String × List AKind => r.2.map (resolve c))]
  cases opRows.lookup op <;> rfl

theorem opNames_lookup (op : Nat) : opNames.lookup op = opName? op := by
  unfold opNames opName? opRow?
  rw [lookup_map_snd (fun r : String × List AKind => r.1)]

set_option maxRecDepth 100000 in
theorem opRows_lt : ∀ r ∈ opRows, r.1 < 256 := by decide

theorem opSig_some_lt {c : DwarfCfg} {op : Nat} {ks : List ArgKind} (h : opSig c op = some ks) : op < 256 := by
  unfold opSig opSigAbs opRow? at h
  cases hr : opRows.lookup op with
  | none => simp [hr] at h
  | some r => exact opRows_lt _ (lookup_some_mem hr)

theorem opSig_some_name {c : DwarfCfg} {op : Nat} {ks : List ArgKind} (h : opSig c op = some ks) :
    ∃ s, opName? op = some s := by
  unfold opSig opSigAbs at h
  unfold opName?
  cases hr : opRow? op with
  | none => simp [hr] at h
  | some r => exact ⟨r.1, rfl⟩

/-! ### scalar operands through `struct_parse` -/

theorem sp_uint {data : Bytes} {pos n v : Nat} {le : Bool} {rest : Bytes}
    (hd : data.drop pos = encNat le n v ++ rest) (hv : v < 256 ^ n) :
    structParse Env.empty (.uint n le) data pos = .ok (.int (v : Nat), pos + n) := by
  simp [structParse, parse_uint_ok hd (encNat_length le n v), decNat_encNat_of_lt le hv, bind, Except.bind,
    pure, Except.pure]

theorem sp_sint {data : Bytes} {pos n : Nat} {v : Int} {le : Bool} {rest : Bytes}
    (hd : data.drop pos = encNat le n (ofSigned (8 * n) v) ++ rest) (hn : 1 ≤ n)
    (hlo : -((2 ^ (8 * n - 1) : Nat) : Int) ≤ v) (hhi : v < ((2 ^ (8 * n - 1) : Nat) : Int)) :
    structParse Env.empty (.sint n le) data pos = .ok (.int v, pos + n) := by
  simp [structParse, parse_sint_ok hd (encNat_length le n _), sint_codec le n v hn hlo hhi, bind, Except.bind,
    pure, Except.pure]

theorem sp_uleb {data : Bytes} {pos n v : Nat} {rest : Bytes}
    (hd : data.drop pos = encUlebN n v ++ rest) (hn : 1 ≤ n) (hv : v < 2 ^ (7 * n)) :
    structParse Env.empty .uleb data pos = .ok (.int (v : Nat), pos + n) := by
  have := parse_uleb_ok (env := Env.empty) (ctx := []) hd (encUlebN_valid n v hn)
  rw [ulebVal_enc_of_lt hv, encUlebN_length] at this
  simp [structParse, this, bind, Except.bind, pure, Except.pure]

theorem sp_sleb {data : Bytes} {pos n : Nat} {v : Int} {rest : Bytes}
    (hd : data.drop pos = encSlebN n v ++ rest) (hn : 1 ≤ n)
    (hlo : -((2 ^ (7 * n - 1) : Nat) : Int) ≤ v) (hhi : v < ((2 ^ (7 * n - 1) : Nat) : Int)) :
    structParse Env.empty .sleb data pos = .ok (.int v, pos + n) := by
  have := parse_sleb_ok (env := Env.empty) (ctx := []) hd (encSlebN_valid n v hn)
  rw [slebVal_enc n v hn hlo hhi, encSlebN_length] at this
  simp [structParse, this, bind, Except.bind, pure, Except.pure]

theorem sp_byte {data : Bytes} {pos k : Nat} {le : Bool} {rest : Bytes}
    (hd : data.drop pos = UInt8.ofNat k :: rest) (hk : k < 256) :
    structParse Env.empty (.uint 1 le) data pos = .ok (.int (k : Nat), pos + 1) := by
  have hd' : data.drop pos = [UInt8.ofNat k] ++ rest := by simpa using hd
  have hb : (UInt8.ofNat k).toNat = k := by simp [UInt8.toNat_ofNat']; omega
  simp [structParse, parse_uint_ok (n := 1) hd' rfl, decNat_singleton, hb, bind, Except.bind, pure, Except.pure]

/-! ### `read_blob` -/

theorem readBlob_ok {data : Bytes} {rest : Bytes} :
    ∀ (b : Bytes) (pos : Nat) (acc : Bytes), data.drop pos = b ++ rest →
      readBlob data b.length pos acc = .ok (acc.reverse ++ b, pos + b.length) := by
  intro b
  induction b with
  | nil => intro pos acc _; simp [readBlob]
  | cons x b ih =>
    intro pos acc hd
    obtain ⟨hx, hd'⟩ := drop_cons_inv (by simpa using hd)
    simp only [List.length_cons, readBlob, hx]
    rw [ih (pos + 1) (x :: acc) hd']
    simp; omega

/-! ### one operand -/

theorem asNat_int (n : Nat) : Val.asNat (.int (n : Nat)) = .ok n := by
  simp [Val.asNat, Val.asInt, bind, Except.bind]

theorem parseArg_ok {nested : Bytes → R (List Val)} {data : Bytes} {rest : Bytes} :
    ∀ (k : ArgKind) (a : Arg) (pos : Nat), argFit k a = true → data.drop pos = encArg k a ++ rest →
      parseArg nested data k pos = .ok (obsArg a, pos + (encArg k a).length) := by
  intro k a pos hfit hd
  cases k <;> cases a <;> simp only [argFit, Bool.false_eq_true] at hfit
  case u.u n le v =>
    simp only [decide_eq_true_eq] at hfit
    simp only [encArg] at hd ⊢
    simp [parseArg, sp_uint hd hfit, encNat_length, obsArg, bind, Except.bind, pure, Except.pure]
  case s.s n le v =>
    simp only [Bool.and_eq_true, decide_eq_true_eq] at hfit
    simp only [encArg] at hd ⊢
    simp [parseArg, sp_sint hd hfit.1.1 hfit.1.2 hfit.2, encNat_length, obsArg, bind, Except.bind, pure, Except.pure]
  case uleb.uleb n v =>
    simp only [Bool.and_eq_true, decide_eq_true_eq] at hfit
    simp only [encArg] at hd ⊢
    simp [parseArg, sp_uleb hd hfit.1 hfit.2, encUlebN_length, obsArg, bind, Except.bind, pure, Except.pure]
  case sleb.sleb n v =>
    simp only [Bool.and_eq_true, decide_eq_true_eq] at hfit
    simp only [encArg] at hd ⊢
    simp [parseArg, sp_sleb hd hfit.1.1 hfit.1.2 hfit.2, encSlebN_length, obsArg, bind, Except.bind, pure, Except.pure]
  case block.block n b =>
    simp only [Bool.and_eq_true, decide_eq_true_eq] at hfit
    simp only [encArg] at hd ⊢
    have hd1 : data.drop pos = encUlebN n b.length ++ (b ++ rest) := by simpa [List.append_assoc] using hd
    have hd2 : data.drop (pos + n) = b ++ rest := by
      have := drop_add_of_drop hd1
      rwa [encUlebN_length] at this
    simp [parseArg, sp_uleb hd1 hfit.1 hfit.2, asNat_int, readBlob_ok b (pos + n) [] hd2, encUlebN_length, obsArg,
      blobVal, obsBytes, bind, Except.bind, pure, Except.pure, Nat.add_assoc]
  case block1.block1 b =>
    simp only [decide_eq_true_eq] at hfit
    simp only [encArg] at hd ⊢
    have hd1 : data.drop pos = UInt8.ofNat b.length :: (b ++ rest) := by simpa using hd
    have hd2 : data.drop (pos + 1) = b ++ rest := (drop_cons_inv hd1).2
    simp [parseArg, sp_byte hd1 hfit, asNat_int, readBlob_ok b (pos + 1) [] hd2, obsArg,
      blobVal, obsBytes, bind, Except.bind, pure, Except.pure]
    omega
  case wasm.wasm le k n v =>
    simp only [Bool.and_eq_true, Bool.or_eq_true, decide_eq_true_eq] at hfit
    simp only [encArg] at hd ⊢
    rcases hfit with ⟨⟨hk, hn⟩, hv⟩ | ⟨hk, hv⟩
    · rw [if_pos hk] at hd ⊢
      have hd1 : data.drop pos = UInt8.ofNat k :: (encUlebN n v ++ rest) := by simpa using hd
      have hd2 : data.drop (pos + 1) = encUlebN n v ++ rest := (drop_cons_inv hd1).2
      have hk' : (0 : Int) ≤ (k : Int) ∧ (k : Int) ≤ 2 := by omega
      simp [parseArg, sp_byte hd1 (by omega : k < 256), Val.asInt, hk', sp_uleb hd2 hn hv, encUlebN_length, obsArg,
        bind, Except.bind, pure, Except.pure]
      omega
    · subst hk
      rw [if_neg (by omega)] at hd ⊢
      have hd1 : data.drop pos = UInt8.ofNat 3 :: (encNat le 4 v ++ rest) := by simpa using hd
      have hd2 : data.drop (pos + 1) = encNat le 4 v ++ rest := (drop_cons_inv hd1).2
      simp [parseArg, sp_byte hd1 (by omega : 3 < 256), Val.asInt, sp_uint hd2 (by omega : v < 256 ^ 4), encNat_length,
        obsArg, bind, Except.bind, pure, Except.pure]

theorem parseArgs_ok {nested : Bytes → R (List Val)} {data : Bytes} {rest : Bytes} :
    ∀ (ks : List ArgKind) (as : List Arg) (pos : Nat), argsFit ks as = true →
      data.drop pos = encArgs ks as ++ rest →
      parseArgs nested data ks pos = .ok (as.flatMap obsArg, pos + (encArgs ks as).length) := by
  intro ks
  induction ks with
  | nil =>
    intro as pos hfit _
    cases as with
    | nil => simp [parseArgs, encArgs]
    | cons a as => simp [argsFit] at hfit
  | cons k ks ih =>
    intro as pos hfit hd
    cases as with
    | nil => simp [argsFit] at hfit
    | cons a as =>
      simp only [argsFit, Bool.and_eq_true] at hfit
      simp only [encArgs] at hd ⊢
      have hd1 : data.drop pos = encArg k a ++ (encArgs ks as ++ rest) := by simpa [List.append_assoc] using hd
      have hd2 : data.drop (pos + (encArg k a).length) = encArgs ks as ++ rest := drop_add_of_drop hd1
      simp [parseArgs, parseArg_ok k a pos hfit.1 hd1, ih as _ hfit.2 hd2, bind, Except.bind, pure, Except.pure,
        Nat.add_assoc]

/-- the nested-expression operand, given what the nested parser returns on the block -/
theorem parseArg_expr {nested : Bytes → R (List Val)} {data : Bytes} {rest body : Bytes} {n pos : Nat} {vals : List Val}
    (hn : 1 ≤ n) (hlen : body.length < 2 ^ (7 * n)) (hd : data.drop pos = encUlebN n body.length ++ body ++ rest)
    (hnested : nested body = .ok vals) :
    parseArg nested data .expr pos = .ok ([.list vals], pos + n + body.length) := by
  have hd1 : data.drop pos = encUlebN n body.length ++ (body ++ rest) := by simpa [List.append_assoc] using hd
  have hd2 : data.drop (pos + n) = body ++ rest := by
    have := drop_add_of_drop hd1
    rwa [encUlebN_length] at this
  simp [parseArg, sp_uleb hd1 hn hlen, asNat_int, readBlob_ok body (pos + n) [] hd2, hnested, bind, Except.bind,
    pure, Except.pure]

/-! ### induction over expressions with nested blocks of any depth -/

theorem ops_induction {P : List Op → Prop} (hnil : P [])
    (hplain : ∀ opc args ops, P ops → P (.plain opc args :: ops))
    (hentry : ∀ opc n body ops, P body → P ops → P (.entry opc n body :: ops)) : ∀ ops, P ops
  | [] => hnil
  | .plain opc args :: ops => hplain opc args ops (ops_induction hnil hplain hentry ops)
  | .entry opc n body :: ops =>
    hentry opc n body ops (ops_induction hnil hplain hentry body) (ops_induction hnil hplain hentry ops)
termination_by ops => sizeOf ops
decreasing_by all_goals (simp_wf; omega)

theorem encodeOps_cons (c : DwarfCfg) (o : Op) (os : List Op) :
    encodeOps c (o :: os) = encodeOp c o ++ encodeOps c os := by rw [encodeOps]

theorem annotate_cons (c : DwarfCfg) (off : Nat) (o : Op) (os : List Op) :
    annotate c off (o :: os) = obsOp c off o :: annotate c (off + (encodeOp c o).length) os := by rw [annotate]

theorem WFops_cons (c : DwarfCfg) (o : Op) (os : List Op) :
    WFops c (o :: os) = (WFop c o && WFops c os) := by rw [WFops]

theorem byte_toNat {k : Nat} (hk : k < 256) : (UInt8.ofNat k).toNat = k := by
  simp [UInt8.toNat_ofNat']; omega

/-! ### the loop -/

/-- what the model is assumed to dispatch on: the signature and the name of every operation of the standard -/
structure TablesOk (c : DwarfCfg) (D : List (Nat × List ArgKind)) (N : List (Nat × String)) : Prop where
  sig : ∀ op ks, opSig c op = some ks → D.lookup op = some ks
  name : ∀ op s, opName? op = some s → N.lookup op = some s

theorem loop_ok {c : DwarfCfg} {D : List (Nat × List ArgKind)} {N : List (Nat × String)} (ht : TablesOk c D N) :
    ∀ ops : List Op, WFops c ops = true → ∀ (fuel : Nat) (data : Bytes) (pos : Nat) (parsed : List Val),
      data.drop pos = encodeOps c ops → (encodeOps c ops).length + 1 ≤ fuel →
      parseExprLoop D N fuel data pos parsed = .ok (parsed.reverse ++ annotate c pos ops) := by
  intro ops
  induction ops using ops_induction with
  | hnil =>
    intro _ fuel data pos parsed hd hf
    cases fuel with
    | zero => omega
    | succ fuel =>
      rw [encodeOps] at hd
      simp [parseExprLoop, drop_nil_inv hd, annotate]
  | hplain opc args ops ih =>
    intro hwf fuel data pos parsed hd hf
    rw [WFops_cons, Bool.and_eq_true] at hwf
    obtain ⟨hop, hrest⟩ := hwf
    rw [WFop] at hop
    cases hs : opSig c opc with
    | none => simp [hs] at hop
    | some ks =>
      simp only [hs] at hop
      obtain ⟨name, hname⟩ := opSig_some_name hs
      have hlt := opSig_some_lt hs
      rw [encodeOps_cons, encodeOp, hs] at hd hf
      simp only [Option.getD_some] at hd hf
      cases fuel with
      | zero => omega
      | succ fuel =>
        have hd0 : data.drop pos = UInt8.ofNat opc :: (encArgs ks args ++ encodeOps c ops) := by simpa using hd
        obtain ⟨hb, hd1⟩ := drop_cons_inv hd0
        have hd2 : data.drop (pos + 1 + (encArgs ks args).length) = encodeOps c ops := drop_add_of_drop hd1
        have hf' : (encodeOps c ops).length + 1 ≤ fuel := by
          simp only [List.length_cons, List.length_append] at hf; omega
        rw [parseExprLoop, hb]
        simp only [byte_toNat hlt, ht.name _ _ hname, ht.sig _ _ hs, parseArgs_ok ks args (pos + 1) hop hd1]
        rw [ih hrest fuel data _ _ hd2 hf', annotate_cons, obsOp, encodeOp, hs]
        simp [exprOpVal, obsRecord, hname, Nat.add_assoc]
        congr 1; omega
  | hentry opc n body ops ihb ih =>
    intro hwf fuel data pos parsed hd hf
    rw [WFops_cons, Bool.and_eq_true] at hwf
    obtain ⟨hop, hrest⟩ := hwf
    rw [WFop] at hop
    simp only [Bool.and_eq_true, decide_eq_true_eq] at hop
    obtain ⟨⟨⟨hs, hn⟩, hlen⟩, hbody⟩ := hop
    obtain ⟨name, hname⟩ := opSig_some_name hs
    have hlt := opSig_some_lt hs
    rw [encodeOps_cons, encodeOp] at hd hf
    cases fuel with
    | zero => omega
    | succ fuel =>
      have hd0 : data.drop pos = UInt8.ofNat opc ::
          (encUlebN n (encodeOps c body).length ++ encodeOps c body ++ encodeOps c ops) := by
        simpa [List.append_assoc] using hd
      obtain ⟨hb, hd1⟩ := drop_cons_inv hd0
      have hlenB : (encodeOps c body).length + 1 ≤ fuel := by
        simp only [List.length_cons, List.length_append, encUlebN_length] at hf; omega
      have hf' : (encodeOps c ops).length + 1 ≤ fuel := by
        simp only [List.length_cons, List.length_append] at hf; omega
      have hnested : parseExprLoop D N fuel (encodeOps c body) 0 [] = .ok (annotate c 0 body) := by
        have := ihb hbody fuel (encodeOps c body) 0 [] (by simp) hlenB
        simpa using this
      have harg := parseArg_expr (nested := fun blob => parseExprLoop D N fuel blob 0 []) hn hlen hd1 hnested
      have hd2 : data.drop (pos + 1 + n + (encodeOps c body).length) = encodeOps c ops := by
        have h1 : data.drop (pos + 1) = (encUlebN n (encodeOps c body).length ++ encodeOps c body) ++ encodeOps c ops := hd1
        have := drop_add_of_drop h1
        simpa [encUlebN_length, Nat.add_assoc] using this
      rw [parseExprLoop, hb]
      simp only [byte_toNat hlt, ht.name _ _ hname, ht.sig _ _ hs, parseArgs, harg, bind, Except.bind, pure, Except.pure]
      rw [ih hrest fuel data _ _ hd2 hf', annotate_cons, obsOp, encodeOp]
      simp [exprOpVal, obsRecord, hname, encUlebN_length, Nat.add_assoc]
      congr 1; omega

theorem parseExpr_roundtrip {c : DwarfCfg} {D : List (Nat × List ArgKind)} {N : List (Nat × String)}
    (ht : TablesOk c D N) (ops : List Op) (hwf : WFops c ops = true) :
    parseExpr D N (encodeOps c ops) = .ok (annotate c 0 ops) := by
  have := loop_ok ht ops hwf ((encodeOps c ops).length + 1) (encodeOps c ops) 0 [] (by simp) (Nat.le_refl _)
  simpa [parseExpr] using this

/-! ### concatenation -/

theorem encodeOps_append (c : DwarfCfg) (a b : List Op) :
    encodeOps c (a ++ b) = encodeOps c a ++ encodeOps c b := by
  induction a with
  | nil => simp [encodeOps]
  | cons o a ih => simp [encodeOps_cons, ih]

theorem annotate_append (c : DwarfCfg) (a b : List Op) : ∀ off,
    annotate c off (a ++ b) = annotate c off a ++ annotate c (off + (encodeOps c a).length) b := by
  induction a with
  | nil => intro off; simp [annotate, encodeOps]
  | cons o a ih =>
    intro off
    simp [annotate_cons, encodeOps_cons, ih, Nat.add_assoc]

theorem WFops_append (c : DwarfCfg) (a b : List Op) : WFops c (a ++ b) = (WFops c a && WFops c b) := by
  induction a with
  | nil => simp [WFops]
  | cons o a ih => simp [WFops_cons, ih, Bool.and_assoc]

/-! ### re-encoding the observation -/

theorem valBytes?_obs (b : Bytes) : valBytes? (b.map fun x => Val.int x.toNat) = some b := by
  induction b with
  | nil => rfl
  | cons x b ih =>
    have hx : x.toNat < 256 := x.toNat_lt
    simp only [List.map_cons, valBytes?, ih]
    show (match valNat? (Val.int (Int.ofNat x.toNat)), some b with
      | some n, some r => if n < 256 then some (UInt8.ofNat n :: r) else none
      | _, _ => none) = some (x :: b)
    simp [valNat?, hx]

theorem opMinimal_plain (c : DwarfCfg) (opc : Nat) (args : List Arg) :
    opMinimal c (.plain opc args) = args.all argMinimal := by rw [opMinimal]

theorem opsMinimal_cons (c : DwarfCfg) (o : Op) (os : List Op) :
    opsMinimal c (o :: os) = (opMinimal c o && opsMinimal c os) := by rw [opsMinimal]

theorem reencArgs_ok : ∀ (ks : List ArgKind) (as : List Arg), argsFit ks as = true → as.all argMinimal = true →
    reencArgs ks (as.flatMap obsArg) = some (encArgs ks as) := by
  intro ks
  induction ks with
  | nil =>
    intro as hfit _
    cases as with
    | nil => rfl
    | cons a as => simp [argsFit] at hfit
  | cons k ks ih =>
    intro as hfit hmin
    cases as with
    | nil => simp [argsFit] at hfit
    | cons a as =>
      simp only [argsFit, Bool.and_eq_true] at hfit
      simp only [List.all_cons, Bool.and_eq_true] at hmin
      have ih' := ih as hfit.2 hmin.2
      obtain ⟨hfit1, -⟩ := hfit
      obtain ⟨hmin1, -⟩ := hmin
      cases k <;> cases a <;> simp only [argFit, Bool.false_eq_true] at hfit1
      case u.u n le v =>
        simp only [List.flatMap_cons, obsArg, List.singleton_append, encArgs, encArg]
        show reencArgs (.u n le :: ks) (Val.int (Int.ofNat v) :: _) = _
        simp [reencArgs, valNat?, ih']
      case s.s n le v =>
        simp only [List.flatMap_cons, obsArg, List.singleton_append, encArgs, encArg]
        simp [reencArgs, valInt?, ih']
      case uleb.uleb n v =>
        simp only [argMinimal, beq_iff_eq] at hmin1
        simp only [List.flatMap_cons, obsArg, List.singleton_append, encArgs, encArg]
        show reencArgs (.uleb :: ks) (Val.int (Int.ofNat v) :: _) = _
        simp [reencArgs, valNat?, ih', hmin1]
      case sleb.sleb n v =>
        simp only [argMinimal, beq_iff_eq] at hmin1
        simp only [List.flatMap_cons, obsArg, List.singleton_append, encArgs, encArg]
        simp [reencArgs, valInt?, ih', hmin1]
      case block.block n b =>
        simp only [argMinimal, beq_iff_eq] at hmin1
        simp only [List.flatMap_cons, obsArg, obsBytes, List.singleton_append, encArgs, encArg]
        simp [reencArgs, valBytes?_obs, ih', hmin1]
      case block1.block1 b =>
        simp only [List.flatMap_cons, obsArg, obsBytes, List.singleton_append, encArgs, encArg]
        simp [reencArgs, valBytes?_obs, ih']
      case wasm.wasm le k n v =>
        simp only [argMinimal, Bool.or_eq_true, decide_eq_true_eq, beq_iff_eq] at hmin1
        simp only [Bool.and_eq_true, Bool.or_eq_true, decide_eq_true_eq] at hfit1
        simp only [List.flatMap_cons, obsArg, List.cons_append, List.nil_append, encArgs, encArg]
        show reencArgs (.wasm le :: ks) (Val.int (Int.ofNat k) :: Val.int (Int.ofNat v) :: _) = _
        by_cases hk : k ≤ 2
        · have hn : n = ulebLen v := by
            rcases hmin1 with h | h
            · omega
            · exact h
          simp [reencArgs, valNat?, ih', hk, hn]
        · simp [reencArgs, valNat?, ih', hk]

theorem argsFit_expr_false (as : List Arg) : argsFit [.expr] as = false := by
  cases as with
  | nil => rfl
  | cons a as => cases a <;> simp [argsFit, argFit]

theorem reencOps_ok (c : DwarfCfg) : ∀ ops : List Op, WFops c ops = true → opsMinimal c ops = true →
    ∀ (fuel off : Nat), (encodeOps c ops).length + 1 ≤ fuel →
      reencOps c fuel (annotate c off ops) = some (encodeOps c ops) := by
  intro ops
  induction ops using ops_induction with
  | hnil =>
    intro _ _ fuel off hf
    cases fuel with
    | zero => omega
    | succ fuel => simp [annotate, encodeOps, reencOps]
  | hplain opc args ops ih =>
    intro hwf hmin fuel off hf
    rw [WFops_cons, Bool.and_eq_true] at hwf
    rw [opsMinimal_cons, Bool.and_eq_true, opMinimal_plain] at hmin
    obtain ⟨hop, hrest⟩ := hwf
    rw [WFop] at hop
    cases hs : opSig c opc with
    | none => simp [hs] at hop
    | some ks =>
      simp only [hs] at hop
      have hne : ks ≠ [.expr] := by
        intro h; rw [h, argsFit_expr_false] at hop; exact absurd hop (by decide)
      rw [encodeOps_cons, encodeOp, hs] at hf ⊢
      simp only [Option.getD_some] at hf ⊢
      cases fuel with
      | zero => omega
      | succ fuel =>
        have hf' : (encodeOps c ops).length + 1 ≤ fuel := by
          simp only [List.length_cons, List.length_append] at hf; omega
        rw [annotate_cons, obsOp, obsRecord]
        show reencOps c (fuel + 1) (Val.record [("op", Val.int (Int.ofNat opc)), _, ("args", Val.list _), _] :: _) = _
        rw [reencOps]
        simp only [hs, if_neg hne, reencArgs_ok ks args hop hmin.1, ih hrest hmin.2 fuel _ hf']
  | hentry opc n body ops ihb ih =>
    intro hwf hmin fuel off hf
    rw [WFops_cons, Bool.and_eq_true] at hwf
    rw [opsMinimal_cons, Bool.and_eq_true, opMinimal, Bool.and_eq_true, beq_iff_eq] at hmin
    obtain ⟨hop, hrest⟩ := hwf
    rw [WFop] at hop
    simp only [Bool.and_eq_true, decide_eq_true_eq] at hop
    obtain ⟨⟨⟨hs, hn⟩, hlen⟩, hbody⟩ := hop
    obtain ⟨⟨hnmin, hbmin⟩, hrmin⟩ := hmin
    rw [encodeOps_cons, encodeOp] at hf ⊢
    cases fuel with
    | zero => omega
    | succ fuel =>
      have hlenB : (encodeOps c body).length + 1 ≤ fuel := by
        simp only [List.length_cons, List.length_append, encUlebN_length] at hf; omega
      have hf' : (encodeOps c ops).length + 1 ≤ fuel := by
        simp only [List.length_cons, List.length_append] at hf; omega
      rw [annotate_cons, obsOp, obsRecord]
      show reencOps c (fuel + 1) (Val.record [("op", Val.int (Int.ofNat opc)), _, ("args", Val.list _), _] :: _) = _
      rw [reencOps]
      simp only [hs, if_true, nestedBody?, ihb hbody hbmin fuel 0 hlenB, ih hrest hrmin fuel _ hf', ← hnmin]

end PyElf.Proofs
