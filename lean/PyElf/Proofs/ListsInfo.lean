/-
  C07 helper lemmas: the list code on the units and debugging entries of a whole `.debug_info`.

  `forestCus` is what the list code must see of a forest description (Spec/DieSection `Forest`): per unit its
  version, address size, format, the standard's struct bundle of that configuration, and per entry (in
  `iter_DIEs()` order, null entries included) the (name, form, raw value) of every attribute.
  `infoCus_forest`: the composed model (Model/ListsInfo `infoCus`: unit headers, abbreviation tables, entry
  decoding, iteration — C04's model) yields exactly that on the Spec encoding of any well-formed forest
  (`iterSection_info`, C04's end-to-end theorem).  The rest of the file specialises the C07 theorems to those units.
-/
import PyElf.Model.ListsInfo
import PyElf.Proofs.DieSection
import PyElf.Proofs.ListsSlots
namespace PyElf.Proofs.ListsInfo
open PyElf PyElf.Spec PyElf.Spec.C04 PyElf.Spec.Lookup PyElf.Proofs PyElf.Proofs.C04
open PyElf.Model.Lists (Cu RawAttr Attr Secs rawAttrOfObs keyOf cuOfUnit infoCus secsOfSections unitDies forestCu forestCus forestResolves)
open PyElf.Model.C04 (UnitCtx DInfo iterSection getCachedDIE)

theorem mapM_map_ok {α β γ : Type} (l : List α) (f : α → β) (g : β → R γ) (h : α → γ)
    (H : ∀ a ∈ l, g (f a) = .ok (h a)) : (l.map f).mapM g = .ok (l.map h) := by
  induction l with
  | nil => rfl
  | cons a l ih =>
    rw [List.map_cons, List.mapM_cons, H a (by simp), ih (fun x hx => H x (by simp [hx]))]
    rfl

theorem flatUnitP_fst (nm : Names) (c : DwarfCfg) (ρtop ρ : Val → Val → Val) (off : Nat) (t : Tree) :
    (flatUnitP nm c ρtop ρ off t).map (·.1) = flattenUnit nm c ρtop ρ off t := by
  obtain ⟨n, kids, nl⟩ := t
  have h := flattenP_fst nm c ρ (.mk n kids nl) none off
  rw [flattenP, flatten] at h
  simp only [List.map_cons, List.cons.injEq] at h
  simp only [flatUnitP, flattenUnit, Tree.root, List.map_cons, flattenP, List.tail_cons, h.2]

/-- `infoCus` on the encoded sections of a well-formed forest: exactly `forestCus`.  Parametric in the registry
    and the bundles like `iterSection_info`; `hfull`: the constructor answers with the standard's bundles. -/
theorem infoCus_forest {ed : String → Int → Option String} {r2n : Nat → Option String} (hR : RegistryOK ed r2n)
    (F : Forest) (dasz : Nat) {B : Bundles} (hB : BundlesOK B F.le dasz)
    (hfull : ∀ c ∈ Spec.allDwarfCfgs, B.structsOf c = some (Spec.dwarfStructs c))
    (hwf : WfForest (namesOf ed) F)
    (G : UnitCtx → Nat → R DieObs) (hG : ∀ U o, U.cuDieOffset ≤ o → G U o = getCachedDIE U o) :
    infoCus G (dinfoOf F dasz ed r2n B.structsOf) B.S0 = .ok (forestCus (namesOf ed) F) := by
  unfold infoCus
  have hinfo : (dinfoOf F dasz ed r2n B.structsOf).info = some (infoSec F) := rfl
  rw [hinfo, iterSection_info hR F dasz hB hwf G hG]
  simp only [expectInfo]
  rw [mapM_map_ok (placeInfo F 0 F.units) _ _ (forestCu (namesOf ed) F)]
  · rfl
  · intro p hp
    have hw := hwf.infoHdr p.2 (mem_placeInfo F _ _ p hp)
    have hc := hfull _ (wfUnit_cfg_mem hw)
    have h1 : (Proofs.Lookup.cuOf F.le p.1 (infoUnitOf F p.2)).header = unitHdrVal F.le (infoUnitOf F p.2) := rfl
    have h2 : (⟨F.le, (Proofs.Lookup.cuOf F.le p.1 (infoUnitOf F p.2)).fmt, (infoUnitOf F p.2).asz,
        (infoUnitOf F p.2).version⟩ : DwarfCfg) = p.2.cfg F.le := rfl
    simp only [bind, Except.bind, cuOfUnit, h1, unitHdrVal_asz, unitHdrVal_version, dinfoOf, h2, hc, pure, Except.pure,
      forestCu, unitDies]
    rw [← flatUnitP_fst]
    simp only [List.map_map]
    rfl

/-! ### what the C07 theorems ask of a unit holds of the units of a forest -/

theorem mem_forestCus {nm : Names} {F : Forest} {cu : Cu} (h : cu ∈ forestCus nm F) :
    ∃ p ∈ placeInfo F 0 F.units, cu = forestCu nm F p := by
  obtain ⟨p, hp, rfl⟩ := List.mem_map.1 h
  exact ⟨p, hp, rfl⟩

/-- `cu.structs.the_Dwarf_offset` reads 4 / 8 bytes by the unit's DWARF format, in the file's byte order -/
theorem forestCu_offset (nm : Names) (F : Forest) (p : Nat × UnitDesc) :
    (forestCu nm F p).S.the_Dwarf_offset = .uint (Model.Lists.oszOf (forestCu nm F p)) F.le := by
  have h := the_offset_eq (p.2.cfg F.le)
  simp only [forestCu, Model.Lists.oszOf]
  rw [h]
  simp only [UnitDesc.cfg]
  by_cases hf : p.2.fmt64 = true <;> simp [hf]

/-- `cu.structs.the_Dwarf_target_addr` reads an address of the unit's size -/
theorem forestCu_addr (nm : Names) (F : Forest) (p : Nat × UnitDesc) :
    (forestCu nm F p).S.the_Dwarf_target_addr = .uint (forestCu nm F p).asz F.le := rfl

/-- the interface of the C07 enumeration theorems (`hdec`) for the units of a forest, every form included -/
theorem forest_dieAttrs {nm : Names} {F : Forest} (env : Env) (hwf : WfForest nm F) (hres : forestResolves nm F = true)
    (cu : Cu) (hcu : cu ∈ forestCus nm F) (die : List RawAttr) (hdie : die ∈ cu.dies) :
    Model.Lists.dieAttrs env (secsOfSections F.secs) cu die
      = .ok (Model.Lists.specDec F.le (secsOfSections F.secs) cu die) := by
  obtain ⟨p, _, rfl⟩ := mem_forestCus hcu
  simp only [forestResolves, List.all_eq_true] at hres
  exact ListsSlots.dieAttrs_spec env _ _ F.le die (forestCu_offset nm F p)
    (fun d hd => hwf.secsSmall d (Or.inr (Or.inr (Or.inr (Or.inr (Or.inl hd))))))
    (fun d hd => hwf.secsSmall d (Or.inr (Or.inr (Or.inr (Or.inr (Or.inr hd))))))
    (hres _ hcu die hdie)

/-! ### `iter_range_lists`: the references, from the decoded entries -/

/-- what one decoded entry of unit `cu` contributes to `iter_range_lists` of the generation `ver5`: the offset held by
    its DW_AT_ranges attribute (outer `none`: a value that is not a number) -/
def dieRangeRef (ver5 : Bool) (cu : Cu) (d : List Attr) : Option (Option (Int × Cu)) :=
  match Model.Lists.findAttr d "DW_AT_ranges" with
  | some a => if decide (cu.version ≥ 5) == ver5 then (Spec.Lists.intOf a.value).map fun o => some (o, cu) else some none
  | none => some none

/-- the (offset, unit) references of `iter_CUs()` × `iter_DIEs()`, in order -/
def rangeRefsSpec (dec : Cu → List RawAttr → List Attr) (ver5 : Bool) : List Cu → Option (List (Int × Cu))
  | [] => some []
  | cu :: rest => do
      let here ← (cu.dies.map (dec cu)).mapM (dieRangeRef ver5 cu)
      let more ← rangeRefsSpec dec ver5 rest
      pure (here.filterMap id ++ more)

theorem asInt_of_intOf' {v : Val} {n : Int} (h : Spec.Lists.intOf v = some n) : v.asInt = .ok n := by
  cases v <;> simp [Spec.Lists.intOf] at h
  subst h; rfl

theorem rangeRefDie_spec (env : Env) (secs : Secs) (ver5 : Bool) (cu : Cu) (die : List RawAttr) (d : List Attr)
    (r : Option (Int × Cu)) (hd : Model.Lists.dieAttrs env secs cu die = .ok d) (hr : dieRangeRef ver5 cu d = some r) :
    Model.Lists.rangeRefDie env secs ver5 cu die = .ok r := by
  unfold Model.Lists.rangeRefDie
  unfold dieRangeRef at hr
  simp only [hd, bind, Except.bind]
  cases hf : Model.Lists.findAttr d "DW_AT_ranges" with
  | none => rw [hf] at hr; simp at hr; subst hr; rfl
  | some a =>
    rw [hf] at hr
    simp only at hr ⊢
    by_cases hg : (decide (cu.version ≥ 5) == ver5) = true
    · rw [if_pos hg] at hr ⊢
      cases hi : Spec.Lists.intOf a.value with
      | none => rw [hi] at hr; cases hr
      | some o =>
        rw [hi] at hr
        simp only [Option.map_some, Option.some.injEq] at hr
        subst hr
        simp [asInt_of_intOf' hi, pure, Except.pure]
    · rw [if_neg hg] at hr ⊢
      injection hr with hr; subst hr; rfl

theorem mapM_rangeRefDie (env : Env) (secs : Secs) (ver5 : Bool) (cu : Cu) (dec : List RawAttr → List Attr) :
    ∀ (dies : List (List RawAttr)) (rs : List (Option (Int × Cu))),
      (∀ die ∈ dies, Model.Lists.dieAttrs env secs cu die = .ok (dec die)) →
      (dies.map dec).mapM (dieRangeRef ver5 cu) = some rs →
      dies.mapM (Model.Lists.rangeRefDie env secs ver5 cu) = .ok rs := by
  intro dies
  induction dies with
  | nil => intro rs _ h; simp at h; subst h; rfl
  | cons die dies ih =>
    intro rs hd h
    rw [List.map_cons, List.mapM_cons] at h
    cases h1 : dieRangeRef ver5 cu (dec die) with
    | none => rw [h1] at h; simp [bind, Option.bind] at h
    | some r =>
      rw [h1] at h
      cases h2 : (dies.map dec).mapM (dieRangeRef ver5 cu) with
      | none => rw [h2] at h; simp [bind, Option.bind] at h
      | some rs' =>
        rw [h2] at h
        simp only [bind, Option.bind, pure, Option.some.injEq] at h
        subst h
        rw [List.mapM_cons, rangeRefDie_spec env secs ver5 cu die _ r (hd die (by simp)) h1,
          ih rs' (fun x hx => hd x (by simp [hx])) h2]
        rfl

/-- `hrefs` of `Props.C07.enumeration_exact_ranges` from the decoded entries -/
theorem rangeRefs_spec (env : Env) (secs : Secs) (ver5 : Bool) (dec : Cu → List RawAttr → List Attr) :
    ∀ (cus : List Cu) (refs : List (Int × Cu)),
      (∀ cu ∈ cus, ∀ die ∈ cu.dies, Model.Lists.dieAttrs env secs cu die = .ok (dec cu die)) →
      rangeRefsSpec dec ver5 cus = some refs →
      Model.Lists.rangeRefs env secs ver5 cus = .ok refs := by
  intro cus
  induction cus with
  | nil => intro refs _ h; simp [rangeRefsSpec] at h; subst h; rfl
  | cons cu cus ih =>
    intro refs hd h
    unfold rangeRefsSpec at h
    cases h1 : (cu.dies.map (dec cu)).mapM (dieRangeRef ver5 cu) with
    | none => rw [h1] at h; simp [bind, Option.bind] at h
    | some here =>
      rw [h1] at h
      cases h2 : rangeRefsSpec dec ver5 cus with
      | none => rw [h2] at h; simp [bind, Option.bind] at h
      | some more =>
        rw [h2] at h
        simp only [bind, Option.bind, pure, Option.some.injEq] at h
        subst h
        unfold Model.Lists.rangeRefs
        rw [mapM_rangeRefDie env secs ver5 cu (dec cu) cu.dies here (hd cu (by simp)) h1,
          ih more (fun c hc => hd c (by simp [hc])) h2]
        rfl

end PyElf.Proofs.ListsInfo
