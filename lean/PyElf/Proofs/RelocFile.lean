/-
  Helper lemmas for C08, part 7 (fifth wave): whole-file composition.  C01's theorems about opening a
  byte string that carries an abstract ELF description (`Layout d bytes`, `wfZ`; Proofs/ElfFile.lean,
  and the section-view lemmas of Proofs/GnuVersionsFile.lean) composed with the relocation-table,
  RELR, lookup and apply lemmas of parts 1–6.
-/
import PyElf.Model.RelocationFile
import PyElf.Spec.RelocFile
import PyElf.Proofs.ElfFile
import PyElf.Proofs.GnuVersionsFile
import PyElf.Proofs.Reloc
import PyElf.Proofs.Relr
import PyElf.Proofs.RelocDyn
import PyElf.Proofs.RelocSection
import PyElf.Proofs.RelocSym
import PyElf.Proofs.Container
import PyElf.Proofs.ContainerFile
namespace PyElf.Proofs.RelocFile
open PyElf PyElf.Spec PyElf.Spec.C08 PyElf.Model PyElf.Model.Reloc PyElf.Model.C08 PyElf.Proofs PyElf.Proofs.Reloc
  PyElf.Proofs.RelocDyn PyElf.Proofs.C15
set_option linter.unusedSimpArgs false

/-! ### the enum environment, as far as section types go -/

/-- the environment names the gABI's SHT_SYMTAB (2), SHT_RELA (4), SHT_REL (9), SHT_DYNSYM (11), SHT_RELR (19) in
    every machine's table, and gives the names SHT_REL / SHT_RELA to no other number -/
structure EnvRel (env : Env) : Prop where
  symtab : ∀ m, env.enumDecode (shTypeTable m) 2 = some "SHT_SYMTAB"
  rela : ∀ m, env.enumDecode (shTypeTable m) 4 = some "SHT_RELA"
  rel : ∀ m, env.enumDecode (shTypeTable m) 9 = some "SHT_REL"
  dynsym : ∀ m, env.enumDecode (shTypeTable m) 11 = some "SHT_DYNSYM"
  relr : ∀ m, env.enumDecode (shTypeTable m) 19 = some "SHT_RELR"
  onlyRel : ∀ m n, env.enumDecode (shTypeTable m) n = some "SHT_REL" → n = 9
  onlyRela : ∀ m n, env.enumDecode (shTypeTable m) n = some "SHT_RELA" → n = 4

/-- decidable check of one regenerated table: every entry named SHT_REL / SHT_RELA has the gABI's number -/
def shNamesOk (tbl : String) : Bool :=
  match Gen.tables.find? (·.1 == tbl) with
  | some (_, t, _) => t.all fun e => (e.1 != "SHT_REL" || e.2 == 9) && (e.1 != "SHT_RELA" || e.2 == 4)
  | none => false

theorem only_of_check {tbl : String} (h : shNamesOk tbl = true) (n : Int) :
    (elfEnv.enumDecode tbl n = some "SHT_REL" → n = 9) ∧ (elfEnv.enumDecode tbl n = some "SHT_RELA" → n = 4) := by
  unfold shNamesOk at h
  show (genEnumDecode tbl n = some "SHT_REL" → n = 9) ∧ (genEnumDecode tbl n = some "SHT_RELA" → n = 4)
  unfold genEnumDecode
  cases hf : Gen.tables.find? (·.1 == tbl) with
  | none => rw [hf] at h; cases h
  | some x =>
    obtain ⟨nm, t, b⟩ := x
    rw [hf] at h
    simp only [List.all_eq_true, Bool.and_eq_true, Bool.or_eq_true, bne_iff_ne, ne_eq, beq_iff_eq] at h
    constructor
    · intro hh
      have hm := decodeIn_mem t n _ hh
      rcases (h _ hm).1 with h' | h'
      · exact absurd rfl h'
      · exact h'
    · intro hh
      have hm := decodeIn_mem t n _ hh
      rcases (h _ hm).2 with h' | h'
      · exact absurd rfl h'
      · exact h'

/-! ### the decoded `sh_type` -/

/-- how `Enum(..., default=Pass)` presents a section type number -/
def shTypeVal (env : Env) (tbl : String) (n : Int) : Val :=
  match env.enumDecode tbl n with
  | some s => .str s
  | none => .int n

/-- the decoded `sh_type` of a section whose header the layout encodes: the raw field is a number, presented by name
    where the environment has one -/
theorem shType_decoded {env : Env} {d : ElfDesc} {s : SecDesc} {b : Bytes} {h : Val}
    (he : d.S.Elf_Shdr.encodeRaw s.raw = some b) (hd : d.S.Elf_Shdr.decodeRaw env [] s.raw = .ok h) :
    ∃ n : Int, Fields.get? s.hdr "sh_type" = some (.int n) ∧
      h.getField "sh_type" = .ok (shTypeVal env (shTypeTable d.cfg.mclass) n) := by
  have hS : d.S.Elf_Shdr = .struct (shdrFields d.cfg) := rfl
  rw [hS] at he hd
  unfold SecDesc.raw at he hd
  obtain ⟨ctx0, x, hx, hg⟩ := struct_field_exists (shdr_field_type d.cfg) hd
  rw [Con.encodeRaw] at he
  obtain ⟨bb, hb⟩ := encodeRaw_field "sh_type" _ _ _ _ (shdr_field_type d.cfg) he
  have hraw : Fields.get? (("sh_name", Val.int s.nameOff) :: s.hdr) "sh_type" = Fields.get? s.hdr "sh_type" := by
    simp [Fields.get?]
  rw [hraw] at hx hb
  cases hr : Fields.get? s.hdr "sh_type" with
  | none => simp [hr, Con.encodeRaw] at hb
  | some v =>
    rw [hr] at hx hb
    simp only [Option.getD_some] at hx hb
    cases v <;> simp only [Con.encodeRaw, reduceCtorEq] at hb
    rename_i n
    refine ⟨n, rfl, ?_⟩
    rw [hg]
    simp only [Con.decodeRaw] at hx
    unfold shTypeVal
    cases hdec : env.enumDecode (shTypeTable d.cfg.mclass) n with
    | none => simp [hdec] at hx; rw [← hx]
    | some nm => simp [hdec] at hx; rw [← hx]

theorem rawType_eq {s : SecDesc} {n : Int} (h : Fields.get? s.hdr "sh_type" = some (.int n)) : rawType s = some n := by
  simp [rawType, h]

theorem rawType_inv {s : SecDesc} {n : Int} (h : rawType s = some n) : Fields.get? s.hdr "sh_type" = some (.int n) := by
  unfold rawType at h
  split at h
  · cases h; assumption
  · cases h

theorem relFlavour_inv {s : SecDesc} {rela : Bool} (h : relFlavour s = some rela) :
    rawType s = some (if rela then SHT_RELA else SHT_REL) := by
  unfold relFlavour at h
  split at h
  · cases h; simpa using ‹rawType s = some SHT_RELA›
  · split at h
    · cases h; simpa using ‹rawType s = some SHT_REL›
    · cases h

/-! ### `get_section(i)` on a byte string that carries `d` -/

/-- everything the file object knows about section `i`: the decoded header (with the description's numbers), the
    decoded type, the type-specific clause of `wfZ`, and what `get_section(i)` returns -/
structure SecKnown (env : Env) (d : ElfDesc) (bytes : Bytes) (hdr : Val) (st : Option Val) (i : Nat) (h : Val) (n : Int) : Prop where
  view : SecView env d bytes hdr st i h
  raw : rawType (d.sections[i]'view.hi) = some n
  ty : h.getField "sh_type" = .ok (shTypeVal env (shTypeTable d.cfg.mclass) n)
  cond : ∃ fuel, secCond env d fuel (d.sections[i]'view.hi) h = true
  facts : SecFacts (d.sections[i]'view.hi) h
  get : getSection env d.S bytes hdr st i
      = .ok (kindOf (shTypeVal env (shTypeTable d.cfg.mclass) n) (d.sections[i]'view.hi).name,
             (d.sections[i]'view.hi).name, h)

theorem sec_known {env : Env} {d : ElfDesc} {bytes : Bytes} {hdr : Val} {st : Option Val} (X : Setup env d bytes hdr st)
    {i : Nat} (hi : i < d.sections.length) : ∃ h n, SecKnown env d bytes hdr st i h n := by
  obtain ⟨h, V⟩ := sec_view X hi
  obtain ⟨_, hdec⟩ := decHdr_some V.dec
  obtain ⟨b, hb, -⟩ := X.hL.shdr i hi
  obtain ⟨n, hraw, hty⟩ := shType_decoded hb hdec
  obtain ⟨_, h', fuel', _, hdec', hsf, _, hc⟩ := sec_bundle X.hw.cls X.hL (X.hw.secs i hi)
  have := sec_view_unique V hdec'
  subst this
  obtain ⟨h'', ty, hdec'', -, hty', hget⟩ := getSection_ok X hi
  have := sec_view_unique V hdec''
  subst this
  rw [hty] at hty'
  cases hty'
  exact ⟨h'', n, V, rawType_eq hraw, hty, ⟨fuel', hc⟩, hsf, hget⟩

theorem SecKnown.nat {env : Env} {d : ElfDesc} {bytes : Bytes} {hdr : Val} {st : Option Val} {i : Nat} {h : Val} {n : Int}
    (K : SecKnown env d bytes hdr st i h n) (k : String) (hk : k ∈ shdrNatKeys) (hne : k ≠ "sh_name") :
    h.getNat k = .ok (getNatD (d.sections[i]'K.view.hi).hdr k) := by
  rw [K.view.nat k hk hne, rawHdr_eq d K.view.hi]

theorem SecKnown.fnat {env : Env} {d : ElfDesc} {bytes : Bytes} {hdr : Val} {st : Option Val} {i : Nat} {h : Val} {n : Int}
    (K : SecKnown env d bytes hdr st i h n) (k : String) (hk : k ∈ shdrNatKeys) (hne : k ≠ "sh_name") :
    Spec.fieldNat h k = getNatD (d.sections[i]'K.view.hi).hdr k :=
  K.facts.raw k hk hne

theorem raw_unique {s : SecDesc} {n m : Int} (h1 : rawType s = some n) (h2 : rawType s = some m) : n = m := by
  rw [h1] at h2; cases h2; rfl

/-! ### the relocation objects `get_section(i)` builds -/

theorem shTypeVal_of {env : Env} {tbl : String} {n : Int} {nm : String} (h : env.enumDecode tbl n = some nm) :
    shTypeVal env tbl n = .str nm := by
  simp [shTypeVal, h]

theorem relName_kind (rela : Bool) (name : Bytes) :
    kindOf (.str (if rela then "SHT_RELA" else "SHT_REL")) name = "RelocationSection" := by
  cases rela <;> rfl

/-- `get_section(i)` for a section whose raw type is SHT_REL / SHT_RELA: the RelocationSection over the description's
    `sh_offset` / `sh_size`, of the flavour the type names, with the entry struct and size of that flavour -/
theorem getRelSection_rel {env : Env} (he : EnvRel env) {d : ElfDesc} {bytes : Bytes} {hdr : Val} {st : Option Val}
    (X : Setup env d bytes hdr st) {i : Nat} (hi : i < d.sections.length) {rela : Bool}
    (hfl : relFlavour (d.sections[i]) = some rela) :
    getRelSection env (fileOf d bytes hdr st) i
      = .ok (.rel (specTable d.cfg (some (getNatD (d.sections[i]).hdr "sh_offset"))
          (getNatD (d.sections[i]).hdr "sh_size") rela)) := by
  obtain ⟨h, n, K⟩ := sec_known X hi
  have hn : n = if rela then SHT_RELA else SHT_REL := raw_unique K.raw (relFlavour_inv hfl)
  have htv : shTypeVal env (shTypeTable d.cfg.mclass) n = .str (if rela then "SHT_RELA" else "SHT_REL") := by
    subst hn
    cases rela
    · exact shTypeVal_of (he.rel _)
    · exact shTypeVal_of (he.rela _)
  have hget := K.get
  have hty := K.ty
  rw [htv] at hget hty
  rw [relName_kind] at hget
  obtain ⟨fuel, hc⟩ := K.cond
  have hes : getNatD (d.sections[i]).hdr "sh_entsize" = relEntSize (relCfgOf d.cfg) rela := by
    rw [← K.fnat "sh_entsize" (by simp [shdrNatKeys]) (by decide)]
    cases rela
    · rw [secCond_rel hty hc]; rfl
    · rw [secCond_rela hty hc]; rfl
  unfold getRelSection
  show (do
    let (kind, _, sh) ← getSection env d.S bytes hdr st i
    if kind == "RelocationSection" then
      let t ← relocSectionInit d.S (← sh.getField "sh_type") (← sh.getNat "sh_offset") (← sh.getNat "sh_size")
        (← sh.getNat "sh_entsize")
      return RelObj.rel t
    else if kind == "RelrRelocationSection" then
      let t ← relrInit d.S (some (← sh.getNat "sh_offset")) (← sh.getNat "sh_size") (← sh.getNat "sh_entsize")
      return RelObj.relr t
    else
      return RelObj.other kind) = _
  simp only [hget, bind, Except.bind, BEq.rfl, ↓reduceIte, hty,
    K.nat "sh_offset" (by simp [shdrNatKeys]) (by decide), K.nat "sh_size" (by simp [shdrNatKeys]) (by decide),
    K.nat "sh_entsize" (by simp [shdrNatKeys]) (by decide), hes]
  have hS : d.S = Spec.elfStructs d.cfg := rfl
  rw [hS, relocSectionInit_ok d.cfg X.hw.cls rela]
  rfl

/-- the RELR table object over the standard's structs, for a section -/
theorem getRelSection_relr {env : Env} (he : EnvRel env) {d : ElfDesc} {bytes : Bytes} {hdr : Val} {st : Option Val}
    (X : Setup env d bytes hdr st) {i : Nat} (hi : i < d.sections.length)
    (hraw : rawType (d.sections[i]) = some SHT_RELR) :
    getRelSection env (fileOf d bytes hdr st) i
      = .ok (.relr (specRelrTable d.le (d.cls / 8) (some (getNatD (d.sections[i]).hdr "sh_offset"))
          (getNatD (d.sections[i]).hdr "sh_size"))) := by
  obtain ⟨h, n, K⟩ := sec_known X hi
  have hn : n = SHT_RELR := raw_unique K.raw hraw
  have htv : shTypeVal env (shTypeTable d.cfg.mclass) n = .str "SHT_RELR" := by
    subst hn; exact shTypeVal_of (he.relr _)
  have hget := K.get
  have hty := K.ty
  rw [htv] at hget hty
  have hk : kindOf (.str "SHT_RELR") (d.sections[i]).name = "RelrRelocationSection" := rfl
  rw [hk] at hget
  obtain ⟨fuel, hc⟩ := K.cond
  have hes : getNatD (d.sections[i]).hdr "sh_entsize" = d.cls / 8 := by
    rw [← K.fnat "sh_entsize" (by simp [shdrNatKeys]) (by decide), secCond_relr hty hc]
  unfold getRelSection
  show (do
    let (kind, _, sh) ← getSection env d.S bytes hdr st i
    if kind == "RelocationSection" then
      let t ← relocSectionInit d.S (← sh.getField "sh_type") (← sh.getNat "sh_offset") (← sh.getNat "sh_size")
        (← sh.getNat "sh_entsize")
      return RelObj.rel t
    else if kind == "RelrRelocationSection" then
      let t ← relrInit d.S (some (← sh.getNat "sh_offset")) (← sh.getNat "sh_size") (← sh.getNat "sh_entsize")
      return RelObj.relr t
    else
      return RelObj.other kind) = _
  have hne : ("RelrRelocationSection" == "RelocationSection") = false := by decide
  simp only [hget, bind, Except.bind, BEq.rfl, hne, Bool.false_eq_true, ↓reduceIte,
    K.nat "sh_offset" (by simp [shdrNatKeys]) (by decide), K.nat "sh_size" (by simp [shdrNatKeys]) (by decide),
    K.nat "sh_entsize" (by simp [shdrNatKeys]) (by decide), hes]
  have hS : d.S = Spec.elfStructs d.cfg := rfl
  have : relrInit (Spec.elfStructs d.cfg) (some (getNatD (d.sections[i]).hdr "sh_offset"))
      (getNatD (d.sections[i]).hdr "sh_size") (d.cls / 8)
      = .ok (specRelrTable d.le (d.cls / 8) (some (getNatD (d.sections[i]).hdr "sh_offset"))
          (getNatD (d.sections[i]).hdr "sh_size")) :=
    relrInit_spec d.cfg (some (getNatD (d.sections[i]).hdr "sh_offset")) (getNatD (d.sections[i]).hdr "sh_size")
  rw [hS, this]
  rfl

/-- the file object an open leaves behind, for a description with sections -/
theorem open_fileOf {env : Env} {d : ElfDesc} {bytes : Bytes} (hwf : d.wfZ env = true) (hl : Layout d bytes)
    (hn : 0 < d.sections.length) {f : ElfFile} (hf : openElf env specSF specMC bytes = .ok f) :
    ∃ hdr st, Setup env d bytes hdr st ∧ f = fileOf d bytes hdr st := by
  obtain ⟨hdr, st, X, ho⟩ := file_setup hwf hl hn
  rw [ho] at hf
  cases hf
  exact ⟨hdr, st, X, rfl⟩

/-- RELR stream placed anywhere: the `drop` form of `relrIter_spec` -/
theorem relrIter_drop (env : Env) (le : Bool) (w : Nat) (hw : 1 ≤ w) (ws : List Nat)
    (hws : ∀ x ∈ ws, x < 2 ^ (8 * w)) {data rest : Bytes} {off : Nat}
    (hd : data.drop off = encRelr le w ws ++ rest) (hfit : off + ws.length * w ≤ 2 ^ 63) :
    relrIter env data (specRelrTable le w (some off) (encRelr le w ws).length)
      = match relrStd w none ws with
        | some xs => .ok xs
        | none => .error .elfError := by
  by_cases hoff : off ≤ data.length
  · have hl : (data.take off).length = off := by simp; omega
    have heq : data = data.take off ++ encRelr le w ws ++ rest := by
      rw [List.append_assoc, ← hd, List.take_append_drop]
    have := relrIter_spec env le w hw ws hws (data.take off) rest (by rw [hl]; exact hfit)
    rw [hl, ← heq] at this
    exact this
  · have hnil : data.drop off = [] := List.drop_eq_nil_of_le (by omega)
    rw [hnil] at hd
    have hlen : (encRelr le w ws).length = 0 := by
      have := congrArg List.length hd
      simp only [List.length_nil, List.length_append] at this
      omega
    have hws0 : ws = [] := by
      rw [encRelr_length] at hlen
      cases ws with
      | nil => rfl
      | cons x xs =>
        simp only [List.length_cons, Nat.succ_mul] at hlen
        omega
    subst hws0
    simp [relrIter, specRelrTable, encRelr, relrStd]


/-! ### whole-file forms of the table theorems -/

theorem body_at {d : ElfDesc} {bytes : Bytes} (hL : LayoutFacts d bytes) {i : Nat} (hi : i < d.sections.length)
    {body : Bytes} (hb : (d.sections[i]).body = some body) :
    ∃ rest, bytes.drop (getNatD (d.sections[i]).hdr "sh_offset") = body ++ rest := by
  obtain ⟨rest, hrest⟩ := body_drop hL hi
  simp only [bodyOf, hb, Option.getD_some] at hrest
  exact ⟨rest, hrest⟩

/-- `ELFFile(BytesIO(bytes)).get_section(i)` for a SHT_REL / SHT_RELA section whose body is the encoding of `es`
    (followed by anything) and whose `sh_size` is the table's length -/
theorem fileRel_ok {env : Env} (he : EnvRel env) {d : ElfDesc} {bytes : Bytes} (hwf : d.wfZ env = true)
    (hl : Layout d bytes) {f : ElfFile} (hf : openElf env specSF specMC bytes = .ok f)
    {i : Nat} {sd : SecDesc} (hsd : d.sections[i]? = some sd) {rela : Bool} (hfl : relFlavour sd = some rela)
    (es : List RelEntry) (hwfe : ∀ e ∈ es, WFRel (relCfgOf d.cfg) rela e = true) (slack : Bytes)
    (hbody : sd.body = some (encRelTable (relCfgOf d.cfg) rela es ++ slack))
    (hsize : getNatD sd.hdr "sh_size" = (encRelTable (relCfgOf d.cfg) rela es).length)
    (hfit : getNatD sd.hdr "sh_offset" + es.length * relEntSize (relCfgOf d.cfg) rela ≤ 2 ^ 63) :
    ∃ t, getRelSection env f i = .ok (.rel t) ∧ t.offset = some (getNatD sd.hdr "sh_offset") ∧
      t.isRela = rela ∧ t.entrySize = relEntSize (relCfgOf d.cfg) rela ∧
      numRelocations t = .ok es.length ∧
      iterRelocations env bytes t = .ok (es.map (observeRel (relCfgOf d.cfg) rela)) ∧
      ∀ n (h : n < es.length), getRelocation env bytes t n = .ok (observeRel (relCfgOf d.cfg) rela es[n]) := by
  obtain ⟨hi, rfl⟩ := List.getElem?_eq_some_iff.1 hsd
  obtain ⟨hdr, st, X, rfl⟩ := open_fileOf hwf hl (by omega) hf
  have hcls := X.hw.cls
  have hcls' : d.cfg.cls = 32 ∨ d.cfg.cls = 64 := hcls
  obtain ⟨rest, hdrop⟩ := body_at X.hL hi hbody
  rw [List.append_assoc] at hdrop
  refine ⟨_, getRelSection_rel he X hi hfl, rfl, rfl, rfl, ?_, ?_, ?_⟩
  · rw [hsize]; exact numRelocations_spec d.cfg hcls' rela es _
  · rw [hsize]; exact iterRelocations_spec d.cfg hcls' env rela es hwfe hdrop hfit
  · intro n h
    exact getRelocation_spec d.cfg hcls' env rela es hwfe hdrop hfit n h

/-- `ELFFile(BytesIO(bytes)).get_section(i)` for a SHT_RELR section whose body is the word stream `ws` -/
theorem fileRelr_ok {env : Env} (he : EnvRel env) {d : ElfDesc} {bytes : Bytes} (hwf : d.wfZ env = true)
    (hl : Layout d bytes) {f : ElfFile} (hf : openElf env specSF specMC bytes = .ok f)
    {i : Nat} {sd : SecDesc} (hsd : d.sections[i]? = some sd) (hraw : rawType sd = some SHT_RELR)
    (ws : List Nat) (hws : ∀ x ∈ ws, x < 2 ^ d.cls) (slack : Bytes)
    (hbody : sd.body = some (encRelr d.le (d.cls / 8) ws ++ slack))
    (hsize : getNatD sd.hdr "sh_size" = (encRelr d.le (d.cls / 8) ws).length)
    (hfit : getNatD sd.hdr "sh_offset" + ws.length * (d.cls / 8) ≤ 2 ^ 63) :
    ∃ t, getRelSection env f i = .ok (.relr t) ∧
      relrIter env bytes t
        = match relrStd (d.cls / 8) none ws with
          | some xs => .ok xs
          | none => .error .elfError := by
  obtain ⟨hi, rfl⟩ := List.getElem?_eq_some_iff.1 hsd
  obtain ⟨hdr, st, X, rfl⟩ := open_fileOf hwf hl (by omega) hf
  have hw : 1 ≤ d.cls / 8 ∧ 8 * (d.cls / 8) = d.cls := by rcases X.hw.cls with h | h <;> simp [h]
  obtain ⟨rest, hdrop⟩ := body_at X.hL hi hbody
  rw [List.append_assoc] at hdrop
  refine ⟨_, getRelSection_relr he X hi hraw, ?_⟩
  rw [hsize]
  exact relrIter_drop env d.le (d.cls / 8) hw.1 ws (by rw [hw.2]; exact hws) hdrop hfit

/-- `get_section_by_name(name)` on a fresh file object is `get_section` of the last section bearing the name -/
theorem getRelSectionByName_eq {env : Env} {d : ElfDesc} {bytes : Bytes} {obs : ElfObs} {f : ElfFile}
    (hwf : d.wfZ env = true) (hl : Layout d bytes) (ho : d.observe env = .ok obs)
    (hf : openElf env specSF specMC bytes = .ok f) (name : Bytes) :
    getRelSectionByName env f name =
      match d.indexOfName name with
      | none => .ok none
      | some i => (getRelSection env f i).map some := by
  have hw := wfZ_facts hwf
  have hsec := sections_gen hw hl ho hf
  obtain ⟨hdata, -⟩ := openElf_fields hw (layout_facts hl) (observe_inv ho).1 hf
  have hlook := lookup_exact_aux ho name
  unfold getRelSectionByName
  rw [hdata, hsec]
  simp only [bind, Except.bind]
  cases hfind : (sectionNameMap obs.sections).find? (·.1 == name) with
  | none =>
    rw [hfind] at hlook
    simp only [Option.map_none] at hlook
    rw [← hlook]
    rfl
  | some p =>
    rw [hfind] at hlook
    simp only [Option.map_some] at hlook
    rw [← hlook]
    obtain ⟨k, i⟩ := p
    cases getRelSection env f i <;> rfl

/-! ### `find_relocations_for_section` over the sections of the file -/

theorem kindOf_reloc {ty : Val} {name : Bytes} (h : kindOf ty name = "RelocationSection") :
    ty = .str "SHT_REL" ∨ ty = .str "SHT_RELA" := by
  unfold kindOf at h
  split at h
  all_goals first | (left; rfl) | (right; rfl) | (simp at h; done) | (split at h <;> simp at h)

/-- the class test of the lookup, in terms of the raw type number -/
theorem kind_isReloc {env : Env} (he : EnvRel env) (m : String) (n : Int) (name : Bytes) :
    (kindOf (shTypeVal env (shTypeTable m) n) name == "RelocationSection") = (decide (n = SHT_RELA) || decide (n = SHT_REL)) := by
  by_cases h4 : n = SHT_RELA
  · subst h4
    have : shTypeVal env (shTypeTable m) SHT_RELA = .str "SHT_RELA" := shTypeVal_of (he.rela m)
    rw [this]
    simp; rfl
  · by_cases h9 : n = SHT_REL
    · subst h9
      have : shTypeVal env (shTypeTable m) SHT_REL = .str "SHT_REL" := shTypeVal_of (he.rel m)
      rw [this]
      simp; rfl
    · simp only [h4, h9, decide_false, Bool.or_false]
      rw [beq_eq_false_iff_ne]
      intro hk
      rcases kindOf_reloc hk with h | h
      · unfold shTypeVal at h
        cases hd : env.enumDecode (shTypeTable m) n with
        | none => rw [hd] at h; cases h
        | some s =>
          rw [hd] at h
          simp only [Val.str.injEq] at h
          subst h
          exact h9 (he.onlyRel m n hd)
      · unfold shTypeVal at h
        cases hd : env.enumDecode (shTypeTable m) n with
        | none => rw [hd] at h; cases h
        | some s =>
          rw [hd] at h
          simp only [Val.str.injEq] at h
          subst h
          exact h4 (he.onlyRela m n hd)

theorem relFlavour_isSome {s : SecDesc} {n : Int} (h : rawType s = some n) :
    (relFlavour s).isSome = (decide (n = SHT_RELA) || decide (n = SHT_REL)) := by
  unfold relFlavour
  rw [h]
  by_cases h4 : n = SHT_RELA
  · simp [h4]
  · by_cases h9 : n = SHT_REL
    · simp [h9, SHT_REL, SHT_RELA]
    · simp [h4, h9]

theorem nRel_eq : C11.nRel = dotRel := rfl
theorem nRela_eq : C11.nRela = dotRela := rfl

/-- the test the lookup applies to the object `get_section(i)` returns is the standard's test of the description -/
theorem relTest_eq {env : Env} (he : EnvRel env) {d : ElfDesc} {bytes : Bytes} {hdr : Val} {st : Option Val} {i : Nat} {h : Val} {n : Int}
    (K : SecKnown env d bytes hdr st i h n) (target : Bytes) :
    ((kindOf (shTypeVal env (shTypeTable d.cfg.mclass) n) (d.sections[i]'K.view.hi).name == "RelocationSection") &&
      ((d.sections[i]'K.view.hi).name == C11.nRel ++ target || (d.sections[i]'K.view.hi).name == C11.nRela ++ target))
      = relForName target (d.sections[i]'K.view.hi) := by
  rw [kind_isReloc he, nRel_eq, nRela_eq]
  unfold relForName namedFor
  rw [relFlavour_isSome K.raw]

/-- the lazy walk over section indices `k, k+1, …` against `findIdx?` over the description's sections from `k` -/
theorem findRelFrom_spec {env : Env} (he : EnvRel env) {d : ElfDesc} {bytes : Bytes} {hdr : Val} {st : Option Val}
    (X : Setup env d bytes hdr st) (target : Bytes) :
    ∀ (m k : Nat), k + m = d.sections.length →
      findRelFrom env (fileOf d bytes hdr st) target (List.range' k m)
        = match (d.sections.drop k).findIdx? (relForName target) with
          | none => .ok none
          | some j => (getSection env d.S bytes hdr st (k + j)).map fun s => some (k + j, s) := by
  intro m
  induction m with
  | zero =>
    intro k hk
    have : d.sections.drop k = [] := List.drop_eq_nil_of_le (by omega)
    simp [findRelFrom, this]
  | succ m ih =>
    intro k hk
    have hlt : k < d.sections.length := by omega
    obtain ⟨h, n, K⟩ := sec_known X hlt
    rw [List.range'_succ, findRelFrom]
    show (do
      let s ← getSection env d.S bytes hdr st k
      if s.1 == "RelocationSection" && (s.2.1 == C11.nRel ++ target || s.2.1 == C11.nRela ++ target) then
        pure (some (k, s))
      else findRelFrom env (fileOf d bytes hdr st) target (List.range' (k + 1) m)) = _
    rw [K.get]
    simp only [bind, Except.bind]
    rw [relTest_eq he K target, List.drop_eq_getElem_cons hlt, List.findIdx?_cons]
    cases hp : relForName target d.sections[k]
    · simp only [Bool.false_eq_true, ↓reduceIte]
      rw [ih (k + 1) (by omega)]
      cases (d.sections.drop (k + 1)).findIdx? (relForName target) with
      | none => rfl
      | some j =>
        simp only [Option.map_some]
        have : k + 1 + j = k + (j + 1) := by omega
        rw [this]
    · simp only [↓reduceIte, Nat.add_zero]
      rw [K.get]
      rfl

/-- `RelocationHandler(ELFFile(BytesIO(bytes))).find_relocations_for_section(<section named target>)`: the standard's
    lookup by name over the description, and the object `get_section` builds for the index found -/
theorem fileFind_spec {env : Env} (he : EnvRel env) {d : ElfDesc} {bytes : Bytes} {hdr : Val} {st : Option Val}
    (X : Setup env d bytes hdr st) (target : Bytes) :
    fileFindRelocations env (fileOf d bytes hdr st) target
      = match relSecByName d target with
        | none => .ok none
        | some r => (getSection env d.S bytes hdr st r).map fun s => some (r, s) := by
  unfold fileFindRelocations
  show (do
    let n ← numSections env d.S bytes hdr
    findRelFrom env (fileOf d bytes hdr st) target (List.range n)) = _
  rw [numSections_ok X.hw X.hL X.hf]
  simp only [bind, Except.bind]
  rw [List.range_eq_range', findRelFrom_spec he X target d.sections.length 0 (by omega), List.drop_zero]
  unfold relSecByName
  cases d.sections.findIdx? (relForName target) with
  | none => rfl
  | some j => simp only [Nat.zero_add]


/-! ### `apply_section_relocations` with everything read from the file -/

/-- Model = standard for a whole relocation table applied to a section, symbol table included (the lemma behind
    `Props.C08.apply_section_eq_std`) -/
theorem applySection_eq_std (cfg : ElfCfg) (hcls : cfg.cls = 32 ∨ cfg.cls = 64) (env : Env) (a : Arch)
    (hm : (relCfgOf cfg).mips = decide (a = .mips)) (rela : Bool) (es : List RelEntry) (syms : List Nat) (sec : Bytes)
    (symtab : SymTab) (data : Bytes) (base : Nat) (rest rest' : Bytes)
    (hrel : data.drop base = encRelTable (relCfgOf cfg) rela es ++ rest)
    (hsymtab : data.drop symtab.shOffset = encSymTable cfg.le cfg.cls syms ++ rest')
    (hentsz : symtab.shEntsize = symEntSize cfg.cls) (hsize : symtab.shSize = syms.length * symEntSize cfg.cls)
    (hfit : base + es.length * relEntSize (relCfgOf cfg) rela ≤ 2 ^ 63)
    (hfitS : symtab.shOffset + syms.length * symEntSize cfg.cls ≤ 2 ^ 63)
    (hwf : WFApply a (relCfgOf cfg) rela syms sec.length es = true) :
    applySectionRelocations env (Spec.elfStructs cfg) cfg.le cfg.cls (archString a) data symtab
        (specTable cfg (some base) (encRelTable (relCfgOf cfg) rela es).length rela) sec
      = match applyStd a (relCfgOf cfg) rela syms sec es with
        | some b => .ok b
        | none => .error .elfRelocError := by
  have hwf' := hwf
  simp only [WFApply, Bool.and_eq_true, List.all_eq_true, decide_eq_true_eq] at hwf'
  obtain ⟨⟨hes, hsy⟩, hL⟩ := hwf'
  have hpos := symEntSize_pos cfg.cls
  have hent : symtab.shEntsize ≠ 0 := by omega
  have hcount : symtab.shSize / symtab.shEntsize = syms.length := by
    rw [hsize, hentsz, Nat.mul_div_cancel _ hpos]
  unfold applySectionRelocations
  rw [numRelocations_spec cfg hcls rela es]
  have := applyLoop_eq_std cfg hcls env a hm rela es syms sec.length symtab
    (size := (encRelTable (relCfgOf cfg) rela es).length) hrel hfit hes hL hent hcount
    (by
      intro i h
      rw [hentsz]
      exact symtab_st_value cfg hcls env syms hsy hsymtab hfitS i h)
    es.length 0 sec (by omega) rfl
  rw [List.drop_zero] at this
  simp only [bind, Except.bind]
  exact this

/-- what the description says about a relocation section `r`, its table, the symbol table its `sh_link` designates
    and the symbol values there -/
structure RelocPair (d : ElfDesc) (r : Nat) (rela : Bool) (es : List RelEntry) (syms : List Nat) : Prop where
  hr : r < d.sections.length
  flavour : relFlavour (d.sections[r]) = some rela
  body : ∃ slack, (d.sections[r]).body = some (encRelTable (relCfgOf d.cfg) rela es ++ slack)
  size : getNatD (d.sections[r]).hdr "sh_size" = (encRelTable (relCfgOf d.cfg) rela es).length
  fit : getNatD (d.sections[r]).hdr "sh_offset" + es.length * relEntSize (relCfgOf d.cfg) rela ≤ 2 ^ 63
  hy : getNatD (d.sections[r]).hdr "sh_link" < d.sections.length
  ysym : rawType (d.sections[getNatD (d.sections[r]).hdr "sh_link"]) = some SHT_SYMTAB ∨
         rawType (d.sections[getNatD (d.sections[r]).hdr "sh_link"]) = some SHT_DYNSYM
  ybody : ∃ slack, (d.sections[getNatD (d.sections[r]).hdr "sh_link"]).body
            = some (encSymTable d.le d.cls syms ++ slack)
  yent : getNatD (d.sections[getNatD (d.sections[r]).hdr "sh_link"]).hdr "sh_entsize" = symEntSize d.cls
  ysize : getNatD (d.sections[getNatD (d.sections[r]).hdr "sh_link"]).hdr "sh_size" = syms.length * symEntSize d.cls
  yfit : getNatD (d.sections[getNatD (d.sections[r]).hdr "sh_link"]).hdr "sh_offset"
           + syms.length * symEntSize d.cls ≤ 2 ^ 63

theorem symName_kind {env : Env} (he : EnvRel env) (m : String) {n : Int} (h : n = SHT_SYMTAB ∨ n = SHT_DYNSYM)
    (name : Bytes) : kindOf (shTypeVal env (shTypeTable m) n) name = "SymbolTableSection" := by
  rcases h with rfl | rfl
  · have : shTypeVal env (shTypeTable m) SHT_SYMTAB = .str "SHT_SYMTAB" := shTypeVal_of (he.symtab m)
    rw [this]; rfl
  · have : shTypeVal env (shTypeTable m) SHT_DYNSYM = .str "SHT_DYNSYM" := shTypeVal_of (he.dynsym m)
    rw [this]; rfl

/-- `RelocationHandler.apply_section_relocations(stream, reloc_section)` on a byte string that carries `d`, for the
    RelocationSection object `get_section(r)` built: the symbol table is fetched through `sh_link`, the machine from the
    file header, relocations and symbols are decoded from the file — the result is the standard's fold -/
theorem applyRelocations_file {P : C11.Params} (he : EnvRel P.env) {d : ElfDesc} {bytes : Bytes} {hdr : Val} {st : Option Val}
    (X : Setup P.env d bytes hdr st) {r : Nat} {rela : Bool} {es : List RelEntry} {syms : List Nat}
    (R : RelocPair d r rela es syms) {rsec : C11.Sec}
    (hrsec : getSection P.env d.S bytes hdr st r = .ok rsec)
    {m : Val} (hm : hdr.getField "e_machine" = .ok m) {a : Arch} (harch : P.machineArchOf m = archString a)
    (hmips : (relCfgOf d.cfg).mips = decide (a = .mips))
    (sec : Bytes) (hwf : WFApply a (relCfgOf d.cfg) rela syms sec.length es = true) :
    C11.applyRelocations P (fileOf d bytes hdr st) rsec sec
      = match applyStd a (relCfgOf d.cfg) rela syms sec es with
        | some b => .ok b
        | none => .error .elfRelocError := by
  obtain ⟨h, n, K⟩ := sec_known X R.hr
  have hn : n = if rela then SHT_RELA else SHT_REL := raw_unique K.raw (relFlavour_inv R.flavour)
  have htv : shTypeVal P.env (shTypeTable d.cfg.mclass) n = .str (if rela then "SHT_RELA" else "SHT_REL") := by
    subst hn
    cases rela
    · exact shTypeVal_of (he.rel _)
    · exact shTypeVal_of (he.rela _)
  have hty := K.ty
  rw [htv] at hty
  rw [K.get] at hrsec
  cases hrsec
  obtain ⟨hy, ny, KY⟩ := sec_known X R.hy
  have hny : ny = SHT_SYMTAB ∨ ny = SHT_DYNSYM := by
    rcases R.ysym with h' | h'
    · exact Or.inl (raw_unique KY.raw h')
    · exact Or.inr (raw_unique KY.raw h')
  have hgetY := KY.get
  rw [symName_kind he _ hny] at hgetY
  have hisRela : isStr (Val.str (if rela then "SHT_RELA" else "SHT_REL")) "SHT_RELA" = rela := by
    cases rela <;> rfl
  obtain ⟨slack, hbody⟩ := R.body
  obtain ⟨slack', hybody⟩ := R.ybody
  obtain ⟨rest, hdrop⟩ := body_at X.hL R.hr hbody
  obtain ⟨rest', hdropY⟩ := body_at X.hL R.hy hybody
  rw [List.append_assoc] at hdrop hdropY
  have hcls' : d.cfg.cls = 32 ∨ d.cfg.cls = 64 := X.hw.cls
  have hS : d.S = Spec.elfStructs d.cfg := rfl
  unfold C11.applyRelocations
  simp only [C11.Sec.hdr, fileOf, hty, bind, Except.bind, hisRela,
    K.nat "sh_offset" (by simp [shdrNatKeys]) (by decide), K.nat "sh_size" (by simp [shdrNatKeys]) (by decide),
    K.nat "sh_link" (by simp [shdrNatKeys]) (by decide)]
  rw [hS, mkTable_spec d.cfg hcls']
  simp only []
  rw [← hS, hgetY]
  simp only [bne_self_eq_false, Bool.false_eq_true, ↓reduceIte,
    KY.nat "sh_offset" (by simp [shdrNatKeys]) (by decide), KY.nat "sh_size" (by simp [shdrNatKeys]) (by decide),
    KY.nat "sh_entsize" (by simp [shdrNatKeys]) (by decide), hm, harch]
  rw [R.size]
  exact applySection_eq_std d.cfg hcls' P.env a hmips rela es syms sec _ bytes _ _ _ hdrop hdropY R.yent R.ysize
    R.fit R.yfit hwf


/-- the by-name lookup has no match: nothing is applied -/
theorem fileApplyFor_none {P : C11.Params} (he : EnvRel P.env) {d : ElfDesc} {bytes : Bytes} {hdr : Val} {st : Option Val}
    (X : Setup P.env d bytes hdr st) (target : Bytes) (hfind : relSecByName d target = none) (sec : Bytes) :
    fileApplyFor P (fileOf d bytes hdr st) target sec = .ok none := by
  unfold fileApplyFor
  rw [fileFind_spec he X target, hfind]
  rfl

/-- `find_relocations_for_section` followed by `apply_section_relocations` on a caller-supplied stream -/
theorem fileApplyFor_spec {P : C11.Params} (he : EnvRel P.env) {d : ElfDesc} {bytes : Bytes} {hdr : Val} {st : Option Val}
    (X : Setup P.env d bytes hdr st) (target : Bytes) {r : Nat} {rela : Bool} {es : List RelEntry} {syms : List Nat}
    (hfind : relSecByName d target = some r) (R : RelocPair d r rela es syms)
    {m : Val} (hm : hdr.getField "e_machine" = .ok m) {a : Arch} (harch : P.machineArchOf m = archString a)
    (hmips : (relCfgOf d.cfg).mips = decide (a = .mips))
    (sec : Bytes) (hwf : WFApply a (relCfgOf d.cfg) rela syms sec.length es = true) :
    fileApplyFor P (fileOf d bytes hdr st) target sec
      = match applyStd a (relCfgOf d.cfg) rela syms sec es with
        | some b => .ok (some b)
        | none => .error .elfRelocError := by
  obtain ⟨h, n, K⟩ := sec_known X R.hr
  unfold fileApplyFor
  rw [fileFind_spec he X target, hfind]
  simp only [K.get, Except.map, bind, Except.bind]
  rw [applyRelocations_file he X R K.get hm harch hmips sec hwf]
  cases applyStd a (relCfgOf d.cfg) rela syms sec es <;> rfl

/-! ### `_read_dwarf_section(section, relocate_dwarf_sections=True)` -/

theorem find?_pointwise {α β : Type} (p : α → Bool) (q : β → Bool) :
    ∀ (ss : List α) (os : List β), ss.length = os.length →
      (∀ i (h1 : i < ss.length) (h2 : i < os.length), q os[i] = p ss[i]) →
      os.find? q = match ss.findIdx? p with
                   | none => none
                   | some j => os[j]? := by
  intro ss
  induction ss with
  | nil =>
    intro os hl _
    cases os with
    | nil => rfl
    | cons o os => simp at hl
  | cons s ss ih =>
    intro os hl hall
    cases os with
    | nil => simp at hl
    | cons o os =>
      have h0 := hall 0 (by simp) (by simp)
      simp only [List.getElem_cons_zero] at h0
      rw [List.find?_cons, List.findIdx?_cons, h0]
      cases hp : p s
      · simp only [Bool.false_eq_true, ↓reduceIte]
        rw [ih os (by simpa using hl) (fun i h1 h2 => by
          have := hall (i + 1) (by simpa using h1) (by simpa using h2)
          simpa using this)]
        cases ss.findIdx? p <;> simp
      · simp

/-- the eager lookup `_read_dwarf_section` performs over the enumerated sections is the standard's lookup by name -/
theorem c11_find_spec {env : Env} (he : EnvRel env) {d : ElfDesc} {bytes : Bytes} {hdr : Val} {st : Option Val} {obs : ElfObs}
    (X : Setup env d bytes hdr st) (ho : d.observe env = .ok obs) (target : Bytes) :
    C11.findRelocations obs.sections target
      = match relSecByName d target with
        | none => none
        | some r => obs.sections[r]? := by
  have hlen : obs.sections.length = d.sections.length := (mapM_ok_inv _ _ _ (observe_inv ho).2.1).1
  unfold C11.findRelocations relSecByName
  apply find?_pointwise (relForName target) _ d.sections obs.sections hlen.symm
  intro i h1 h2
  obtain ⟨h, n, K⟩ := sec_known X h1
  have hget := getSection_obs X ho h1 h2
  rw [K.get] at hget
  have hobs : obs.sections[i] = (kindOf (shTypeVal env (shTypeTable d.cfg.mclass) n) (d.sections[i]'K.view.hi).name,
      (d.sections[i]'K.view.hi).name, h) := (Except.ok.inj hget).symm
  rw [hobs]
  exact relTest_eq he K target

/-- what the description says about the section that is relocated: stored plainly (not SHF_COMPRESSED), its bytes,
    and a type the reader does not take for SHT_NOBITS -/
structure PlainTarget (env : Env) (d : ElfDesc) (t : Nat) (sec : Bytes) : Prop where
  ht : t < d.sections.length
  body : (d.sections[t]).body = some sec
  size : getNatD (d.sections[t]).hdr "sh_size" = sec.length
  flags : getNatD (d.sections[t]).hdr "sh_flags" &&& 0x800 = 0
  bound : getNatD (d.sections[t]).hdr "sh_offset" + sec.length < 2 ^ 63
  notNobits : ∀ n, rawType (d.sections[t]) = some n →
    env.enumDecode (shTypeTable d.cfg.mclass) n ≠ some "SHT_NOBITS"

/-- End to end over a whole file.  `_read_dwarf_section(<section t>, relocate_dwarf_sections=True)` on a byte string
    that carries `d`: the section's bytes are read from the file, its relocation section is found by name among all
    sections, the symbol table through `sh_link`, the machine from the file header; the descriptor's stream is the
    standard's fold, or ELFRelocationError as soon as one entry must be rejected. -/
theorem readDwarfSection_file {P : C11.Params} (he : EnvRel P.env) {d : ElfDesc} {bytes : Bytes} {hdr : Val} {st : Option Val}
    {obs : ElfObs} (X : Setup P.env d bytes hdr st) (ho : d.observe P.env = .ok obs)
    (hph : C11.hasPhantomBytes hdr = .ok false)
    {t : Nat} {sec : Bytes} (T : PlainTarget P.env d t sec) (ht' : t < obs.sections.length)
    {r : Nat} {rela : Bool} {es : List RelEntry} {syms : List Nat}
    (hfind : relSecByName d (d.sections[t]'T.ht).name = some r) (R : RelocPair d r rela es syms)
    {m : Val} (hm : hdr.getField "e_machine" = .ok m) {a : Arch} (harch : P.machineArchOf m = archString a)
    (hmips : (relCfgOf d.cfg).mips = decide (a = .mips))
    (hwf : WFApply a (relCfgOf d.cfg) rela syms sec.length es = true) :
    C11.readDwarfSection P (fileOf d bytes hdr st) obs.sections obs.sections[t] true false
      = match applyStd a (relCfgOf d.cfg) rela syms sec es with
        | some b => .ok ⟨b, (d.sections[t]'T.ht).name, getNatD (d.sections[t]'T.ht).hdr "sh_offset", sec.length,
                         getNatD (d.sections[t]'T.ht).hdr "sh_addr"⟩
        | none => .error (.py .elfRelocError) := by
  obtain ⟨h, n, K⟩ := sec_known X T.ht
  have hget := getSection_obs X ho T.ht ht'
  rw [K.get] at hget
  have hobs : obs.sections[t] = (kindOf (shTypeVal P.env (shTypeTable d.cfg.mclass) n) (d.sections[t]'T.ht).name,
      (d.sections[t]'T.ht).name, h) := (Except.ok.inj hget).symm
  obtain ⟨rest, hdrop⟩ := body_at X.hL T.ht T.body
  have hnb : isStr (shTypeVal P.env (shTypeTable d.cfg.mclass) n) "SHT_NOBITS" = false := by
    have := T.notNobits n K.raw
    unfold shTypeVal
    cases hd : P.env.enumDecode (shTypeTable d.cfg.mclass) n with
    | none => rfl
    | some s =>
      rw [hd] at this
      have hne : s ≠ "SHT_NOBITS" := fun e => this (by rw [e])
      simp [isStr, hne]
  have hp : C11.Placed bytes h (shTypeVal P.env (shTypeTable d.cfg.mclass) n)
      (getNatD (d.sections[t]'T.ht).hdr "sh_offset") sec rest (getNatD (d.sections[t]'T.ht).hdr "sh_flags")
      (getNatD (d.sections[t]'T.ht).hdr "sh_addr") :=
    ⟨K.ty, hnb, K.nat "sh_flags" (by simp [shdrNatKeys]) (by decide),
     K.nat "sh_offset" (by simp [shdrNatKeys]) (by decide),
     by rw [K.nat "sh_size" (by simp [shdrNatKeys]) (by decide), T.size],
     K.nat "sh_addr" (by simp [shdrNatKeys]) (by decide), hdrop, T.bound⟩
  have hi := C11.sectionInfo_plain P.env d.S hp T.flags
  have hd := C11.sectionData_plain P.X d.S hp
  have hr' : r < obs.sections.length := by
    have hlen : obs.sections.length = d.sections.length := (mapM_ok_inv _ _ _ (observe_inv ho).2.1).1
    have := R.hr
    omega
  have hfr : C11.findRelocations obs.sections (d.sections[t]'T.ht).name = some obs.sections[r] := by
    rw [c11_find_spec he X ho, hfind]
    exact List.getElem?_eq_getElem hr'
  have happ := applyRelocations_file he X R (getSection_obs X ho R.hr hr') hm harch hmips sec hwf
  rw [hobs]
  simp only [C11.readDwarfSection, fileOf, hph, C11.Sec.hdr, C11.Sec.name, hi, hd, C11.liftR, bind, Except.bind,
    hp.hoff, hp.haddr, hfr, ↓reduceIte, Bool.false_eq_true, pure, Except.pure]
  have happ' : C11.applyRelocations P
      { data := bytes, cls := d.cls, le := d.le, S := d.S, header := hdr, shstr := st } obs.sections[r] sec
      = _ := happ
  rw [happ']
  cases applyStd a (relCfgOf d.cfg) rela syms sec es <;> rfl


/-- `relocate_dwarf_sections=False`, or no relocation section bears the conventional name: the descriptor's stream is
    the section's bytes as stored in the file -/
theorem readDwarfSection_file_untouched {P : C11.Params} (he : EnvRel P.env) {d : ElfDesc} {bytes : Bytes} {hdr : Val} {st : Option Val}
    {obs : ElfObs} (X : Setup P.env d bytes hdr st) (ho : d.observe P.env = .ok obs)
    (hph : C11.hasPhantomBytes hdr = .ok false)
    {t : Nat} {sec : Bytes} (T : PlainTarget P.env d t sec) (ht' : t < obs.sections.length) (relocate : Bool)
    (hno : relocate = false ∨ relSecByName d (d.sections[t]'T.ht).name = none) :
    C11.readDwarfSection P (fileOf d bytes hdr st) obs.sections obs.sections[t] relocate false
      = .ok ⟨sec, (d.sections[t]'T.ht).name, getNatD (d.sections[t]'T.ht).hdr "sh_offset", sec.length,
             getNatD (d.sections[t]'T.ht).hdr "sh_addr"⟩ := by
  obtain ⟨h, n, K⟩ := sec_known X T.ht
  have hget := getSection_obs X ho T.ht ht'
  rw [K.get] at hget
  have hobs : obs.sections[t] = (kindOf (shTypeVal P.env (shTypeTable d.cfg.mclass) n) (d.sections[t]'T.ht).name,
      (d.sections[t]'T.ht).name, h) := (Except.ok.inj hget).symm
  obtain ⟨rest, hdrop⟩ := body_at X.hL T.ht T.body
  have hnb : isStr (shTypeVal P.env (shTypeTable d.cfg.mclass) n) "SHT_NOBITS" = false := by
    have := T.notNobits n K.raw
    unfold shTypeVal
    cases hd : P.env.enumDecode (shTypeTable d.cfg.mclass) n with
    | none => rfl
    | some s =>
      rw [hd] at this
      have hne : s ≠ "SHT_NOBITS" := fun e => this (by rw [e])
      simp [isStr, hne]
  have hp : C11.Placed bytes h (shTypeVal P.env (shTypeTable d.cfg.mclass) n)
      (getNatD (d.sections[t]'T.ht).hdr "sh_offset") sec rest (getNatD (d.sections[t]'T.ht).hdr "sh_flags")
      (getNatD (d.sections[t]'T.ht).hdr "sh_addr") :=
    ⟨K.ty, hnb, K.nat "sh_flags" (by simp [shdrNatKeys]) (by decide),
     K.nat "sh_offset" (by simp [shdrNatKeys]) (by decide),
     by rw [K.nat "sh_size" (by simp [shdrNatKeys]) (by decide), T.size],
     K.nat "sh_addr" (by simp [shdrNatKeys]) (by decide), hdrop, T.bound⟩
  have hi := C11.sectionInfo_plain P.env d.S hp T.flags
  have hd := C11.sectionData_plain P.X d.S hp
  rw [hobs]
  simp only [C11.readDwarfSection, fileOf, hph, C11.Sec.hdr, C11.Sec.name, hi, hd, C11.liftR, bind, Except.bind,
    hp.hoff, hp.haddr, ↓reduceIte, Bool.false_eq_true]
  rcases hno with h0 | h0
  · subst h0
    rfl
  · have hfr : C11.findRelocations obs.sections (d.sections[t]'T.ht).name = none := by
      rw [c11_find_spec he X ho, h0]
    rw [hfr]
    cases relocate <;> rfl

/-- the body of the per-section loop of `get_dwarf_info` for one table entry `kn`, in a file without `.zdebug_info`:
    the section is looked up by name (the last one bearing it) and read with relocation -/
theorem readOne_file {P : C11.Params} (he : EnvRel P.env) {d : ElfDesc} {bytes : Bytes} {hdr : Val} {st : Option Val}
    {obs : ElfObs} (X : Setup P.env d bytes hdr st) (ho : d.observe P.env = .ok obs)
    (hph : C11.hasPhantomBytes hdr = .ok false)
    {t : Nat} {sec : Bytes} (T : PlainTarget P.env d t sec)
    (kn : String × Bytes × Bool) (hidx : d.indexOfName kn.2.1 = some t) (hname : (d.sections[t]'T.ht).name = kn.2.1)
    {r : Nat} {rela : Bool} {es : List RelEntry} {syms : List Nat}
    (hfind : relSecByName d kn.2.1 = some r) (R : RelocPair d r rela es syms)
    {m : Val} (hm : hdr.getField "e_machine" = .ok m) {a : Arch} (harch : P.machineArchOf m = archString a)
    (hmips : (relCfgOf d.cfg).mips = decide (a = .mips))
    (hwf : WFApply a (relCfgOf d.cfg) rela syms sec.length es = true) :
    C11.readOne P (fileOf d bytes hdr st) obs.sections true false kn
      = match applyStd a (relCfgOf d.cfg) rela syms sec es with
        | some b => .ok (kn.1, some ⟨b, kn.2.1, getNatD (d.sections[t]'T.ht).hdr "sh_offset", sec.length,
                         getNatD (d.sections[t]'T.ht).hdr "sh_addr"⟩)
        | none => .error (.py .elfRelocError) := by
  have hlen : obs.sections.length = d.sections.length := (mapM_ok_inv _ _ _ (observe_inv ho).2.1).1
  have ht' : t < obs.sections.length := by have := T.ht; omega
  have hsn : C11.secNameOf false kn = kn.2.1 := by simp [C11.secNameOf]
  have hleg : C11.legacyOf false kn = false := by simp [C11.legacyOf]
  rw [C11.readOne_eq, hsn, hleg, C11.getSectionByName_obs ho, hidx]
  simp only [List.getElem?_eq_getElem ht']
  rw [readDwarfSection_file he X ho hph T ht' (by rw [hname]; exact hfind) R hm harch hmips hwf, hname]
  cases applyStd a (relCfgOf d.cfg) rela syms sec es <;> rfl

/-! ### lookup by name against the gABI's `sh_info` -/

theorem findIdx?_congr {α : Type} {p q : α → Bool} : ∀ (l : List α), (∀ x ∈ l, p x = q x) → l.findIdx? p = l.findIdx? q := by
  intro l
  induction l with
  | nil => intro _; rfl
  | cons x xs ih =>
    intro h
    rw [List.findIdx?_cons, List.findIdx?_cons, h x List.mem_cons_self, ih (fun y hy => h y (List.mem_cons_of_mem _ hy))]

/-- when, among the relocation sections of the file, exactly those whose `sh_info` designates section `t` bear the
    conventional name for `target`, the lookup by name is the gABI's lookup by `sh_info` -/
theorem relSecByName_eq_byInfo (d : ElfDesc) (t : Nat) (target : Bytes) (h : namesFollowInfo d t target = true) :
    relSecByName d target = relSecByInfo d t := by
  unfold relSecByName relSecByInfo
  apply findIdx?_congr
  intro s hs
  simp only [namesFollowInfo, List.all_eq_true, Bool.or_eq_true, Bool.not_eq_true', beq_iff_eq] at h
  unfold relForName relForInfo
  rcases h s hs with h' | h'
  · simp [h']
  · rw [h']

/-! ### the decidable image predicates of Spec/RelocFile.lean, unpacked -/

theorem relCfgOfDesc_eq (d : ElfDesc) : relCfgOfDesc d = relCfgOf d.cfg := rfl

theorem prefix_body {tab : Bytes} {body : Option Bytes}
    (h : (match body with
          | some b => tab.isPrefixOf b
          | none => false) = true) : ∃ slack, body = some (tab ++ slack) := by
  cases body with
  | none => cases h
  | some b =>
    simp only at h
    obtain ⟨t, ht⟩ := List.isPrefixOf_iff_prefix.1 h
    exact ⟨t, by rw [ht]⟩

/-- what `relTableAt` says -/
structure RelTableFacts (d : ElfDesc) (i : Nat) (rela : Bool) (es : List RelEntry) : Prop where
  hi : i < d.sections.length
  flavour : relFlavour (d.sections[i]) = some rela
  body : ∃ slack, (d.sections[i]).body = some (encRelTable (relCfgOf d.cfg) rela es ++ slack)
  size : getNatD (d.sections[i]).hdr "sh_size" = (encRelTable (relCfgOf d.cfg) rela es).length
  fit : getNatD (d.sections[i]).hdr "sh_offset" + es.length * relEntSize (relCfgOf d.cfg) rela ≤ 2 ^ 63

theorem relTableAt_unpack {d : ElfDesc} {i : Nat} {rela : Bool} {es : List RelEntry}
    (h : relTableAt d i rela es = true) : RelTableFacts d i rela es := by
  unfold relTableAt at h
  cases hs : d.sections[i]? with
  | none => simp [hs] at h
  | some rs =>
    obtain ⟨hi, rfl⟩ := List.getElem?_eq_some_iff.1 hs
    simp only [hs, Bool.and_eq_true, decide_eq_true_eq, relCfgOfDesc_eq] at h
    obtain ⟨⟨⟨h1, h2⟩, h3⟩, h4⟩ := h
    exact ⟨hi, h1, prefix_body h2, of_decide_eq_true h3, of_decide_eq_true h4⟩

theorem relrAt_unpack {d : ElfDesc} {i : Nat} {ws : List Nat} (h : relrAt d i ws = true) :
    ∃ hi : i < d.sections.length, rawType (d.sections[i]) = some SHT_RELR ∧
      (∃ slack, (d.sections[i]).body = some (encRelr d.le (d.cls / 8) ws ++ slack)) ∧
      getNatD (d.sections[i]).hdr "sh_size" = (encRelr d.le (d.cls / 8) ws).length ∧
      getNatD (d.sections[i]).hdr "sh_offset" + ws.length * (d.cls / 8) ≤ 2 ^ 63 := by
  unfold relrAt at h
  cases hs : d.sections[i]? with
  | none => simp [hs] at h
  | some rs =>
    obtain ⟨hi, rfl⟩ := List.getElem?_eq_some_iff.1 hs
    simp only [hs, Bool.and_eq_true, decide_eq_true_eq] at h
    obtain ⟨⟨⟨h1, h2⟩, h3⟩, h4⟩ := h
    exact ⟨hi, h1, prefix_body h2, by simpa using h3, by simpa using h4⟩

theorem relocPairAt_unpack {d : ElfDesc} {r : Nat} {rela : Bool} {es : List RelEntry} {syms : List Nat}
    (h : relocPairAt d r rela es syms = true) : RelocPair d r rela es syms := by
  unfold relocPairAt at h
  rw [Bool.and_eq_true] at h
  obtain ⟨ht, h⟩ := h
  have T := relTableAt_unpack ht
  have hs : d.sections[r]? = some (d.sections[r]'T.hi) := List.getElem?_eq_getElem T.hi
  simp only [hs] at h
  cases hy : d.sections[getNatD (d.sections[r]'T.hi).hdr "sh_link"]? with
  | none => simp [hy] at h
  | some ys =>
    obtain ⟨hyi, rfl⟩ := List.getElem?_eq_some_iff.1 hy
    simp only [hy, Bool.and_eq_true, Bool.or_eq_true, decide_eq_true_eq] at h
    obtain ⟨⟨⟨⟨h1, h2⟩, h3⟩, h4⟩, h5⟩ := h
    exact ⟨T.hi, T.flavour, T.body, T.size, T.fit, hyi, h1, prefix_body h2, h3, h4, h5⟩

theorem plainTargetAt_unpack {env : Env} {d : ElfDesc} {t : Nat} {sec : Bytes}
    (h : plainTargetAt env d t sec = true) : PlainTarget env d t sec := by
  unfold plainTargetAt at h
  cases hs : d.sections[t]? with
  | none => simp [hs] at h
  | some ts =>
    obtain ⟨hi, rfl⟩ := List.getElem?_eq_some_iff.1 hs
    simp only [hs, Bool.and_eq_true, decide_eq_true_eq] at h
    obtain ⟨⟨⟨⟨h1, h2⟩, h3⟩, h4⟩, h5⟩ := h
    refine ⟨hi, h1, h2, h3, h4, ?_⟩
    intro n hn
    rw [hn] at h5
    have h5' : ¬ env.enumDecode (shTypeTable d.mclass) n = some "SHT_NOBITS" := by simpa using h5
    exact h5'

theorem observable_unpack {env : Env} {d : ElfDesc} (h : observable env d = true) : ∃ obs, d.observe env = .ok obs := by
  unfold observable at h
  cases ho : d.observe env with
  | error e => simp [ho, Except.toOption] at h
  | ok obs => exact ⟨obs, rfl⟩


/-! ### the library's own environment -/

theorem elfEnv_only (m : String) (n : Int) :
    (elfEnv.enumDecode (shTypeTable m) n = some "SHT_REL" → n = 9) ∧
    (elfEnv.enumDecode (shTypeTable m) n = some "SHT_RELA" → n = 4) := by
  unfold shTypeTable
  split
  · exact only_of_check (by decide +kernel) n
  · exact only_of_check (by decide +kernel) n
  · exact only_of_check (by decide +kernel) n
  · exact only_of_check (by decide +kernel) n
  · exact only_of_check (by decide +kernel) n
  · exact only_of_check (by decide +kernel) n


end PyElf.Proofs.RelocFile
