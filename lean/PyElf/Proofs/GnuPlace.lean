/-
  C15 helper lemmas: the assembler of `Spec/GnuVersions.lean` (`place`,
  `placeChain`) is a fold of writes, and when the writes are consistent
  (`Spec.C15.consistent`) every one of them can be read back from the result.
-/
import PyElf.Spec.GnuVersionsImage
import PyElf.Proofs.GnuVersions
namespace PyElf.Proofs.C15
open PyElf PyElf.Spec PyElf.Spec.C15

/-- one write -/
def pl (fill : UInt8) (b : Bytes) (w : Write) : Bytes := place fill b w.1 w.2

/-- the buffer holds the bytes of the write at its offset -/
def Holds (buf : Bytes) (w : Write) : Prop := ∀ k, k < w.2.length → buf[w.1 + k]? = w.2[k]?

theorem splice_getElem? (buf' : Bytes) (pos : Nat) (bs : Bytes) (h : pos + bs.length ≤ buf'.length) (i : Nat) :
    (buf'.take pos ++ bs ++ buf'.drop (pos + bs.length))[i]? =
      if i < pos then buf'[i]? else if i < pos + bs.length then bs[i - pos]? else buf'[i]? := by
  have hl : (buf'.take pos).length = pos := by rw [List.length_take]; omega
  rw [List.append_assoc, List.getElem?_append, hl]
  by_cases h1 : i < pos
  · simp only [h1, if_true]
    rw [List.getElem?_take]
    simp [h1]
  · simp only [h1, if_false]
    rw [List.getElem?_append]
    by_cases h2 : i < pos + bs.length
    · have : i - pos < bs.length := by omega
      simp only [this, h2, if_true]
    · have : ¬ i - pos < bs.length := by omega
      simp only [this, h2, if_false]
      rw [List.getElem?_drop]
      congr 1
      omega

theorem place_getElem? (fill : UInt8) (buf : Bytes) (pos : Nat) (bs : Bytes) (i : Nat) :
    (place fill buf pos bs)[i]? =
      if i < pos then (if i < buf.length then buf[i]? else some fill)
      else if i < pos + bs.length then bs[i - pos]? else buf[i]? := by
  unfold place
  by_cases hext : buf.length < pos + bs.length
  · simp only [hext, if_true]
    rw [splice_getElem? _ pos bs (by simp; omega)]
    by_cases h1 : i < pos
    · simp only [h1, if_true]
      rw [List.getElem?_append]
      by_cases h0 : i < buf.length
      · simp [h0]
      · simp only [h0, if_false]
        rw [List.getElem?_replicate]
        have : i - buf.length < pos + bs.length - buf.length := by omega
        simp [this]
    · simp only [h1, if_false]
      by_cases h2 : i < pos + bs.length
      · simp only [h2, if_true]
      · simp only [h2, if_false]
        rw [List.getElem?_eq_none (by simp; omega), List.getElem?_eq_none (by omega)]
  · simp only [hext, if_false]
    rw [splice_getElem? _ pos bs (by omega)]
    by_cases h1 : i < pos
    · have : i < buf.length := by omega
      simp [h1, this]
    · simp [h1]

theorem agree_spec {r s : Write} (h : agree r s = true) (k j : Nat) (hk : k < r.2.length) (hj : j < s.2.length)
    (e : r.1 + k = s.1 + j) : r.2[k]? = s.2[j]? := by
  simp only [agree, Bool.or_eq_true, decide_eq_true_eq, List.all_eq_true, List.mem_range, beq_iff_eq] at h
  rcases h with (h | h) | h
  · omega
  · omega
  · rcases h k hk with (h | h) | h
    · omega
    · omega
    · rw [h]
      congr 1
      omega

theorem place_holds_self (fill : UInt8) (buf : Bytes) (w : Write) : Holds (pl fill buf w) w := by
  intro k hk
  unfold pl
  rw [place_getElem?]
  have h1 : ¬ w.1 + k < w.1 := by omega
  have h2 : w.1 + k < w.1 + w.2.length := by omega
  simp only [h1, h2, if_true, if_false]
  congr 1
  omega

theorem place_preserves (fill : UInt8) (buf : Bytes) (r w : Write) (hr : Holds buf r) (ha : agree r w = true) :
    Holds (pl fill buf w) r := by
  intro k hk
  have hb := hr k hk
  have hlt : r.1 + k < buf.length := by
    rcases Nat.lt_or_ge (r.1 + k) buf.length with h | h
    · exact h
    · rw [List.getElem?_eq_none h, List.getElem?_eq_getElem hk] at hb
      cases hb
  unfold pl
  rw [place_getElem?]
  by_cases h1 : r.1 + k < w.1
  · simp only [h1, hlt, if_true]
    exact hb
  · simp only [h1, if_false]
    by_cases h2 : r.1 + k < w.1 + w.2.length
    · simp only [h2, if_true]
      exact (agree_spec ha k (r.1 + k - w.1) hk (by omega) (by omega)).symm
    · simp only [h2, if_false]
      exact hb

/-- after a consistent sequence of writes, every one of them is held -/
theorem foldl_holds (fill : UInt8) : ∀ (ws : List Write) (buf : Bytes) (done : List Write),
    consistent ws = true → (∀ r ∈ done, Holds buf r ∧ ∀ w ∈ ws, agree r w = true) →
    ∀ r, r ∈ done ∨ r ∈ ws → Holds (ws.foldl (pl fill) buf) r
  | [], buf, done, _, hd, r, hr => by
    rcases hr with hr | hr
    · exact (hd r hr).1
    · simp at hr
  | w :: rest, buf, done, hc, hd, r, hr => by
    simp only [consistent, Bool.and_eq_true, List.all_eq_true] at hc
    rw [List.foldl_cons]
    apply foldl_holds fill rest (pl fill buf w) (w :: done) hc.2
    · intro r' hr'
      rcases List.mem_cons.1 hr' with rfl | hr'
      · exact ⟨place_holds_self fill buf r', hc.1⟩
      · obtain ⟨h1, h2⟩ := hd r' hr'
        exact ⟨place_preserves fill buf r' w h1 (h2 w List.mem_cons_self),
          fun w' hw' => h2 w' (List.mem_cons_of_mem _ hw')⟩
    · rcases hr with hr | hr
      · exact Or.inl (List.mem_cons_of_mem _ hr)
      · rcases List.mem_cons.1 hr with rfl | hr
        · exact Or.inl List.mem_cons_self
        · exact Or.inr hr

/-- `placeChain` is the fold of its writes -/
theorem placeChain_eq_foldl {α : Type} (fill : UInt8) (enc : α → Bytes) (next : α → Nat)
    (sub : Bytes → Nat → α → Bytes) (subW : Nat → α → List Write)
    (hsub : ∀ buf pos x, sub buf pos x = (subW pos x).foldl (pl fill) buf) :
    ∀ (xs : List α) (buf : Bytes) (pos : Nat),
      placeChain fill enc next sub buf pos xs = (chainWrites enc next subW pos xs).foldl (pl fill) buf
  | [], _, _ => rfl
  | x :: rest, buf, pos => by
    rw [placeChain, chainWrites, List.foldl_cons, List.foldl_append, ← hsub,
      placeChain_eq_foldl fill enc next sub subW hsub rest]
    rfl

theorem assembleNeed_eq (le : Bool) (fill : UInt8) (size : Nat) (es : List NeedEntry) :
    assembleNeed le fill size es = (needWrites le es).foldl (pl fill) (List.replicate size fill) := by
  unfold assembleNeed needWrites
  apply placeChain_eq_foldl
  intro buf pos e
  exact placeChain_eq_foldl fill _ _ _ (fun _ _ => []) (fun _ _ _ => rfl) e.auxs buf (pos + e.r.aux)

theorem assembleDef_eq (le : Bool) (fill : UInt8) (size : Nat) (es : List DefEntry) :
    assembleDef le fill size es = (defWrites le es).foldl (pl fill) (List.replicate size fill) := by
  unfold assembleDef defWrites
  apply placeChain_eq_foldl
  intro buf pos e
  exact placeChain_eq_foldl fill _ _ _ (fun _ _ => []) (fun _ _ _ => rfl) e.auxs buf (pos + e.r.aux)

/-- a write held by the section contents is read back from any byte string carrying the contents -/
theorem bytesAt_of_holds {content rest data : Bytes} {off : Nat} {w : Write} (h : Holds content w)
    (hd : data.drop off = content ++ rest) : bytesAt data (off + w.1) w.2 = true := by
  simp only [bytesAt, readN, beq_iff_eq]
  apply List.ext_getElem?
  intro k
  rw [List.getElem?_take]
  by_cases hk : k < w.2.length
  · simp only [hk, if_true]
    rw [List.getElem?_drop, ← h k hk]
    have hlt : w.1 + k < content.length := by
      rcases Nat.lt_or_ge (w.1 + k) content.length with h' | h'
      · exact h'
      · have := h k hk
        rw [List.getElem?_eq_none h', List.getElem?_eq_getElem hk] at this
        cases this
    have : data[off + w.1 + k]? = (data.drop off)[w.1 + k]? := by
      rw [List.getElem?_drop]; congr 1; omega
    rw [this, hd, List.getElem?_append_left hlt]
  · simp only [hk, if_false]
    rw [List.getElem?_eq_none (by omega)]

theorem firstNul_append_some' {a x : Bytes} (r : Bytes) (h : firstNul a = some x) : firstNul (a ++ r) = some x := by
  induction a generalizing x with
  | nil => simp [firstNul] at h
  | cons b bs ih =>
    by_cases hb : b = 0
    · simp [firstNul, hb] at h ⊢; exact h
    · simp only [firstNul, hb, if_false, List.cons_append] at h ⊢
      cases hf : firstNul bs with
      | none => simp [hf] at h
      | some y => rw [ih hf]; rw [hf] at h; exact h

/-- a string the table holds is the string at that offset of any byte string carrying the table -/
theorem strAt_of_table {strtab rest data : Bytes} {strOff o : Nat} {s : Bytes}
    (h : gv_strAt strtab o s = true) (hd : data.drop strOff = strtab ++ rest) :
    gv_strAt data (strOff + o) s = true := by
  simp only [gv_strAt, beq_iff_eq] at h ⊢
  have : data.drop (strOff + o) = strtab.drop o ++ rest := by
    rw [← List.drop_drop, hd]
    have hlt : o ≤ strtab.length := by
      rcases Nat.lt_or_ge strtab.length o with h' | h'
      · rw [List.drop_eq_nil_of_le (by omega)] at h
        simp [firstNul] at h
      · exact h'
    rw [List.drop_append_of_le_length hlt]
  rw [this]
  exact firstNul_append_some' rest h

/-! ### chains from writes -/

theorem chainAt_of_writes {α : Type} (enc : α → Bytes) (next : α → Nat) (subW : Nat → α → List Write)
    (recAt : Nat → α → Bool) (P : Write → Prop) (Q : α → Prop) (off : Nat)
    (hrec : ∀ pos x, Q x → P (pos, enc x) → (∀ w ∈ subW pos x, P w) → recAt (off + pos) x = true) :
    ∀ (xs : List α) (pos : Nat), (∀ x ∈ xs, Q x) → (∀ w ∈ chainWrites enc next subW pos xs, P w) →
      chainAt recAt next (off + pos) xs = true
  | [], _, _, _ => rfl
  | x :: rest, pos, hq, hw => by
    simp only [chainWrites, List.mem_cons, List.mem_append] at hw
    simp only [chainAt, Bool.and_eq_true]
    refine ⟨hrec pos x (hq x List.mem_cons_self) (hw _ (Or.inl rfl)) (fun w h => hw w (Or.inr (Or.inl h))), ?_⟩
    rw [Nat.add_assoc]
    exact chainAt_of_writes enc next subW recAt P Q off hrec rest (pos + next x)
      (fun y hy => hq y (List.mem_cons_of_mem _ hy)) (fun w h => hw w (Or.inr (Or.inr h)))

end PyElf.Proofs.C15
