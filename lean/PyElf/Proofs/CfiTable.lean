/-
  C06 helper lemmas: the dict-based table interpreter of the model simulates the
  DWARF §6.4 reference machine of the Spec.
-/
import PyElf.Spec.CFI
import PyElf.Model.CallFrame
namespace PyElf.Proofs.Cfi
open PyElf PyElf.Spec PyElf.Model

/-- the instruction object the parser returns for an encoded instruction -/
def toInstr (i : Cfa) : Instr := ⟨i.opcode, i.operands⟩

def ruleV : RegRule → RuleV
  | .undefined => ⟨"UNDEFINED", .none⟩
  | .same_value => ⟨"SAME_VALUE", .none⟩
  | .offset n => ⟨"OFFSET", .int n⟩
  | .val_offset n => ⟨"VAL_OFFSET", .int n⟩
  | .register r => ⟨"REGISTER", .int r⟩
  | .expression e => ⟨"EXPRESSION", bytesObs e⟩
  | .val_expression e => ⟨"VAL_EXPRESSION", bytesObs e⟩

def cfaV : CfaRule → CfaV
  | .unset => ⟨.none, .int 0, .none⟩
  | .regOff r o => ⟨.int r, .int o, .none⟩
  | .expr e => ⟨.none, .none, bytesObs e⟩

theorem ruleV_obs (r : RegRule) : (ruleV r).toVal = r.obs := by cases r <;> rfl
theorem cfaV_obs (c : CfaRule) : (cfaV c).toVal = c.obs := by cases c <;> rfl

/-- same rule in every register column -/
def RegsRel (m : List (Nat × RuleV)) (s : RegMap) : Prop := ∀ r, regGet m r = (s.get r).map ruleV

theorem regGet_regSet (m : List (Nat × RuleV)) (r : Nat) (v : RuleV) (r' : Nat) :
    regGet (regSet m r v) r' = if r = r' then some v else regGet m r' := by
  induction m with
  | nil => simp [regSet, regGet]
  | cons kv rest ih =>
    obtain ⟨k, w⟩ := kv
    by_cases hk : k = r
    · subst hk
      by_cases h2 : k = r' <;> simp [regSet, regGet, h2]
    · by_cases h2 : k = r'
      · subst h2
        have : ¬ r = k := fun h => hk h.symm
        simp [regSet, regGet, hk, this]
      · simp [regSet, regGet, hk, h2, ih]

theorem regGet_regPop (m : List (Nat × RuleV)) (r r' : Nat) :
    regGet (regPop m r) r' = if r = r' then none else regGet m r' := by
  induction m with
  | nil => simp [regPop, regGet]
  | cons kv rest ih =>
    obtain ⟨k, w⟩ := kv
    unfold regPop at ih ⊢
    by_cases hk : k = r
    · subst hk
      by_cases h2 : k = r'
      · subst h2; simpa [List.filter, regGet] using ih
      · simp [List.filter, regGet, h2]; simpa [h2] using ih
    · by_cases h2 : k = r'
      · subst h2
        have : ¬ r = k := fun h => hk h.symm
        simp [List.filter, regGet, hk, this]
      · simp [List.filter, regGet, hk, h2]; simpa using ih

theorem get_insert (m : RegMap) (r : Nat) (v : RegRule) (r' : Nat) :
    (m.insert r v).get r' = if r = r' then some v else m.get r' := by
  induction m with
  | nil => simp [RegMap.insert, RegMap.get]
  | cons kv rest ih =>
    obtain ⟨k, w⟩ := kv
    unfold RegMap.insert
    by_cases h1 : r < k
    · simp only [h1, if_true]
      by_cases h2 : r = r'
      · simp [RegMap.get, h2]
      · simp [RegMap.get, h2]
    · simp only [h1, if_false]
      by_cases h3 : r = k
      · subst h3
        by_cases h2 : r = r' <;> simp [RegMap.get, h2]
      · simp only [h3, if_false]
        by_cases h2 : k = r'
        · subst h2; simp [RegMap.get, h3]
        · simp [RegMap.get, h2, ih]

theorem get_erase (m : RegMap) (r r' : Nat) :
    (m.erase r).get r' = if r = r' then none else m.get r' := by
  induction m with
  | nil => simp [RegMap.erase, RegMap.get]
  | cons kv rest ih =>
    obtain ⟨k, w⟩ := kv
    unfold RegMap.erase at ih ⊢
    by_cases hk : k = r
    · subst hk
      by_cases h2 : k = r'
      · subst h2; simpa [List.filter, RegMap.get] using ih
      · simp [List.filter, RegMap.get, h2]; simpa [h2] using ih
    · by_cases h2 : k = r'
      · subst h2
        have : ¬ r = k := fun h => hk h.symm
        simp [List.filter, RegMap.get, hk, this]
      · simp [List.filter, RegMap.get, hk, h2]; simpa using ih

theorem RegsRel.set {m s} (h : RegsRel m s) (r : Nat) (v : RegRule) :
    RegsRel (regSet m r (ruleV v)) (s.insert r v) := by
  intro r'
  rw [regGet_regSet, get_insert]
  by_cases h2 : r = r' <;> simp [h2, h r']

theorem RegsRel.pop {m s} (h : RegsRel m s) (r : Nat) : RegsRel (regPop m r) (s.erase r) := by
  intro r'
  rw [regGet_regPop, get_erase]
  by_cases h2 : r = r' <;> simp [h2, h r']

theorem RegsRel.nil : RegsRel [] [] := fun _ => rfl

theorem RegsRel.isEmpty {m s} (h : RegsRel m s) : m.isEmpty = s.isEmpty := by
  cases m with
  | nil =>
    cases s with
    | nil => rfl
    | cons kv rest =>
      have := h kv.1
      simp [regGet, RegMap.get] at this
  | cons kv rest =>
    cases s with
    | nil =>
      have := h kv.1
      simp [regGet, RegMap.get] at this
    | cons _ _ => rfl


/-! ### opcode names -/

def cfaName : Cfa → String
  | .advance_loc _ => "DW_CFA_advance_loc" | .offset .. => "DW_CFA_offset" | .restore _ => "DW_CFA_restore"
  | .nop => "DW_CFA_nop" | .set_loc _ => "DW_CFA_set_loc" | .advance_loc1 _ => "DW_CFA_advance_loc1"
  | .advance_loc2 _ => "DW_CFA_advance_loc2" | .advance_loc4 _ => "DW_CFA_advance_loc4"
  | .offset_extended .. => "DW_CFA_offset_extended" | .restore_extended _ => "DW_CFA_restore_extended"
  | .undefined _ => "DW_CFA_undefined" | .same_value _ => "DW_CFA_same_value" | .register .. => "DW_CFA_register"
  | .remember_state => "DW_CFA_remember_state" | .restore_state => "DW_CFA_restore_state"
  | .def_cfa .. => "DW_CFA_def_cfa" | .def_cfa_register _ => "DW_CFA_def_cfa_register"
  | .def_cfa_offset _ => "DW_CFA_def_cfa_offset" | .def_cfa_expression _ => "DW_CFA_def_cfa_expression"
  | .expression .. => "DW_CFA_expression" | .offset_extended_sf .. => "DW_CFA_offset_extended_sf"
  | .def_cfa_sf .. => "DW_CFA_def_cfa_sf" | .def_cfa_offset_sf _ => "DW_CFA_def_cfa_offset_sf"
  | .val_offset .. => "DW_CFA_val_offset" | .val_offset_sf .. => "DW_CFA_val_offset_sf"
  | .val_expression .. => "DW_CFA_val_expression" | .negate_ra_state => "DW_CFA_AARCH64_negate_ra_state"
  | .gnu_args_size _ => "DW_CFA_GNU_args_size"

theorem and_c0_40 : ∀ d < 64, (0x40 + d) &&& 0xc0 = 0x40 := by decide
theorem and_c0_80 : ∀ d < 64, (0x80 + d) &&& 0xc0 = 0x80 := by decide
theorem and_c0_c0 : ∀ d < 64, (0xc0 + d) &&& 0xc0 = 0xc0 := by decide
theorem and_3f_40 : ∀ d < 64, (0x40 + d) &&& 0x3f = d := by decide
theorem and_3f_80 : ∀ d < 64, (0x80 + d) &&& 0x3f = d := by decide
theorem and_3f_c0 : ∀ d < 64, (0xc0 + d) &&& 0x3f = d := by decide

/-- `instruction_name` of an encoded instruction's opcode byte is its DWARF mnemonic -/
theorem name_ok (asz : Nat) (i : Cfa) (h : i.wf asz = true) :
    instructionName Spec.cfiTables i.opcode = .ok (cfaName i) := by
  cases i with
  | advance_loc d =>
    have hd : d < 64 := by simpa [Cfa.wf] using h
    simp only [instructionName, Cfa.opcode, Spec.cfiTables, and_c0_40 d hd]; simp [nameOf, cfaNames, cfaName]
  | offset r o =>
    have hd : r < 64 := by simp [Cfa.wf] at h; exact h.1
    simp only [instructionName, Cfa.opcode, Spec.cfiTables, and_c0_80 r hd]; simp [nameOf, cfaNames, cfaName]
  | restore r =>
    have hd : r < 64 := by simpa [Cfa.wf] using h
    simp only [instructionName, Cfa.opcode, Spec.cfiTables, and_c0_c0 r hd]; simp [nameOf, cfaNames, cfaName]
  | _ => simp [instructionName, nameOf, Spec.cfiTables, cfaNames, Cfa.opcode, cfaName]


/-! ### the simulation -/

/-- pointwise relation of two lists of equal length -/
inductive All₂ {α β : Type} (R : α → β → Prop) : List α → List β → Prop
  | nil : All₂ R [] []
  | cons {a b l₁ l₂} : R a b → All₂ R l₁ l₂ → All₂ R (a :: l₁) (b :: l₂)

def RulesRel (l : Line) (r : Rules) : Prop := l.cfa = cfaV r.cfa ∧ RegsRel l.regs r.regs
def LineRel (l : Line) (row : Row) : Prop := l.pc = row.loc ∧ RulesRel l row.rules

structure StRel (s : DState) (t : TState) : Prop where
  pc : s.cur.pc = t.loc
  rules : RulesRel s.cur t.rules
  rows : All₂ LineRel s.table t.rows
  stack : All₂ RulesRel s.stack.reverse t.stack

/-- the CIE side of an FDE run: `last_line_in_CIE` against the CIE's initial rules -/
def InitRel (isFde : Bool) (last : List (Nat × RuleV)) : Option Rules → Prop
  | none => isFde = false
  | some ini => isFde = true ∧ RegsRel last ini.regs

theorem all₂_snoc {α β : Type} {R : α → β → Prop} {l₁ : List α} {l₂ : List β} {a : α} {b : β}
    (h : All₂ R l₁ l₂) (hab : R a b) : All₂ R (l₁ ++ [a]) (l₂ ++ [b]) := by
  induction h with
  | nil => exact .cons hab .nil
  | cons h1 _ ih => exact .cons h1 ih

theorem asNat_nat (n : Nat) : (Val.int (n : Int)).asNat = .ok n := by
  simp [Val.asNat, Val.asInt, bind, Except.bind]

theorem block_obs (e : Block) : e.obs = bytesObs e.bytes := rfl

local macro "dstep" h1:ident h2:ident h3:ident : tactic =>
  `(tactic| simp [decodeStep, toInstr, cfaName, bind, Except.bind, pure, Except.pure, Instr.arg, Instr.argInt,
      Instr.argReg, Val.asInt, asNat_nat, hdrInt, Cfa.operands, setRule, $h1:ident, $h2:ident, $h3:ident])

theorem step_sim (asz : Nat) (caf daf : Int) (cieH : Fields)
    (hcaf : Fields.getR cieH "code_alignment_factor" = .ok (.int caf))
    (hdaf : Fields.getR cieH "data_alignment_factor" = .ok (.int daf))
    (isFde : Bool) (last : List (Nat × RuleV)) (init : Option Rules) (hinit : InitRel isFde last init)
    (s : DState) (t t' : TState) (hrel : StRel s t) (i : Cfa) (hwf : i.wf asz = true)
    (hstep : tstep caf daf init t i = some t') :
    ∃ s', decodeStep Spec.cfiTables isFde last cieH s (toInstr i) = .ok s' ∧ StRel s' t' := by
  have hname := name_ok asz i hwf
  obtain ⟨hpc, ⟨hcfa, hregs⟩, hrows, hstack⟩ := hrel
  have hline : LineRel s.cur ⟨t.loc, t.rules⟩ := ⟨hpc, hcfa, hregs⟩
  cases i with
  | nop =>
    simp only [tstep, Option.some.injEq] at hstep; subst hstep
    dstep hname hcaf hdaf
    exact ⟨hpc, ⟨hcfa, hregs⟩, hrows, hstack⟩
  | negate_ra_state =>
    simp only [tstep, Option.some.injEq] at hstep; subst hstep
    dstep hname hcaf hdaf
    exact ⟨hpc, ⟨hcfa, hregs⟩, hrows, hstack⟩
  | gnu_args_size n =>
    simp only [tstep, Option.some.injEq] at hstep; subst hstep
    dstep hname hcaf hdaf
    exact ⟨hpc, ⟨hcfa, hregs⟩, hrows, hstack⟩
  | set_loc a =>
    simp only [tstep, Option.some.injEq] at hstep; subst hstep
    dstep hname hcaf hdaf
    exact ⟨rfl, ⟨hcfa, hregs⟩, all₂_snoc hrows hline, hstack⟩
  | advance_loc d =>
    simp only [tstep, Option.some.injEq] at hstep; subst hstep
    dstep hname hcaf hdaf
    exact ⟨by simp [hpc], ⟨hcfa, hregs⟩, all₂_snoc hrows hline, hstack⟩
  | advance_loc1 d =>
    simp only [tstep, Option.some.injEq] at hstep; subst hstep
    dstep hname hcaf hdaf
    exact ⟨by simp [hpc], ⟨hcfa, hregs⟩, all₂_snoc hrows hline, hstack⟩
  | advance_loc2 d =>
    simp only [tstep, Option.some.injEq] at hstep; subst hstep
    dstep hname hcaf hdaf
    exact ⟨by simp [hpc], ⟨hcfa, hregs⟩, all₂_snoc hrows hline, hstack⟩
  | advance_loc4 d =>
    simp only [tstep, Option.some.injEq] at hstep; subst hstep
    dstep hname hcaf hdaf
    exact ⟨by simp [hpc], ⟨hcfa, hregs⟩, all₂_snoc hrows hline, hstack⟩
  | def_cfa r o =>
    simp only [tstep, Option.some.injEq] at hstep; subst hstep
    dstep hname hcaf hdaf
    exact ⟨hpc, ⟨rfl, hregs⟩, hrows, hstack⟩
  | def_cfa_sf r o =>
    simp only [tstep, Option.some.injEq] at hstep; subst hstep
    dstep hname hcaf hdaf
    exact ⟨hpc, ⟨rfl, hregs⟩, hrows, hstack⟩
  | def_cfa_expression e =>
    simp only [tstep, Option.some.injEq] at hstep; subst hstep
    dstep hname hcaf hdaf
    exact ⟨hpc, ⟨rfl, hregs⟩, hrows, hstack⟩
  | def_cfa_register r =>
    cases hc : t.rules.cfa with
    | regOff r0 o0 =>
      simp only [tstep, hc, Option.some.injEq] at hstep; subst hstep
      rw [hc] at hcfa
      dstep hname hcaf hdaf
      exact ⟨hpc, ⟨by simp [setCfa, cfaV, hcfa], hregs⟩, hrows, hstack⟩
    | unset => simp [tstep, hc] at hstep
    | expr e => simp [tstep, hc] at hstep
  | def_cfa_offset o =>
    cases hc : t.rules.cfa with
    | regOff r0 o0 =>
      simp only [tstep, hc, Option.some.injEq] at hstep; subst hstep
      rw [hc] at hcfa
      dstep hname hcaf hdaf
      exact ⟨hpc, ⟨by simp [setCfa, cfaV, hcfa], hregs⟩, hrows, hstack⟩
    | unset => simp [tstep, hc] at hstep
    | expr e => simp [tstep, hc] at hstep
  | def_cfa_offset_sf o =>
    cases hc : t.rules.cfa with
    | regOff r0 o0 =>
      simp only [tstep, hc, Option.some.injEq] at hstep; subst hstep
      rw [hc] at hcfa
      dstep hname hcaf hdaf
      exact ⟨hpc, ⟨by simp [setCfa, cfaV, hcfa], hregs⟩, hrows, hstack⟩
    | unset => simp [tstep, hc] at hstep
    | expr e => simp [tstep, hc] at hstep
  | undefined r =>
    simp only [tstep, Option.some.injEq] at hstep; subst hstep
    dstep hname hcaf hdaf
    exact ⟨hpc, ⟨hcfa, hregs.set r.v .undefined⟩, hrows, hstack⟩
  | same_value r =>
    simp only [tstep, Option.some.injEq] at hstep; subst hstep
    dstep hname hcaf hdaf
    exact ⟨hpc, ⟨hcfa, hregs.set r.v .same_value⟩, hrows, hstack⟩
  | offset r o =>
    simp only [tstep, Option.some.injEq] at hstep; subst hstep
    dstep hname hcaf hdaf
    exact ⟨hpc, ⟨hcfa, hregs.set r (.offset (o.v * daf))⟩, hrows, hstack⟩
  | offset_extended r o =>
    simp only [tstep, Option.some.injEq] at hstep; subst hstep
    dstep hname hcaf hdaf
    exact ⟨hpc, ⟨hcfa, hregs.set r.v (.offset (o.v * daf))⟩, hrows, hstack⟩
  | offset_extended_sf r o =>
    simp only [tstep, Option.some.injEq] at hstep; subst hstep
    dstep hname hcaf hdaf
    exact ⟨hpc, ⟨hcfa, hregs.set r.v (.offset (o.v * daf))⟩, hrows, hstack⟩
  | val_offset r o =>
    simp only [tstep, Option.some.injEq] at hstep; subst hstep
    dstep hname hcaf hdaf
    exact ⟨hpc, ⟨hcfa, hregs.set r.v (.val_offset (o.v * daf))⟩, hrows, hstack⟩
  | val_offset_sf r o =>
    simp only [tstep, Option.some.injEq] at hstep; subst hstep
    dstep hname hcaf hdaf
    exact ⟨hpc, ⟨hcfa, hregs.set r.v (.val_offset (o.v * daf))⟩, hrows, hstack⟩
  | register r o =>
    simp only [tstep, Option.some.injEq] at hstep; subst hstep
    dstep hname hcaf hdaf
    exact ⟨hpc, ⟨hcfa, hregs.set r.v (.register o.v)⟩, hrows, hstack⟩
  | expression r e =>
    simp only [tstep, Option.some.injEq] at hstep; subst hstep
    dstep hname hcaf hdaf
    exact ⟨hpc, ⟨hcfa, hregs.set r.v (.expression e.bytes)⟩, hrows, hstack⟩
  | val_expression r e =>
    simp only [tstep, Option.some.injEq] at hstep; subst hstep
    dstep hname hcaf hdaf
    exact ⟨hpc, ⟨hcfa, hregs.set r.v (.val_expression e.bytes)⟩, hrows, hstack⟩
  | remember_state =>
    simp only [tstep, Option.some.injEq] at hstep; subst hstep
    dstep hname hcaf hdaf
    exact ⟨hpc, ⟨hcfa, hregs⟩, hrows, by simpa using All₂.cons ⟨hcfa, hregs⟩ hstack⟩
  | restore_state =>
    cases hst : t.stack with
    | nil => simp [tstep, hst] at hstep
    | cons top rest =>
      simp only [tstep, hst, Option.some.injEq] at hstep; subst hstep
      rw [hst] at hstack
      cases hrev : s.stack.reverse with
      | nil => rw [hrev] at hstack; cases hstack
      | cons l ls =>
        rw [hrev] at hstack
        cases hstack with
        | cons hl hls =>
          have hs : s.stack = ls.reverse ++ [l] := by
            have := congrArg List.reverse hrev
            simpa using this
          dstep hname hcaf hdaf
          simp only [hs, List.getLast?_append, List.getLast?_singleton, Option.some_or, List.dropLast_concat]
          exact ⟨_, rfl, hpc, hl, hrows, by simpa using hls⟩
  | restore r =>
    have hd : r < 64 := by simpa [Cfa.wf] using hwf
    cases init with
    | none => simp [tstep, tstep.restoreReg] at hstep
    | some ini =>
      obtain ⟨hf, hlast⟩ := hinit
      subst hf
      cases hg : ini.regs.get r with
      | some v =>
        simp only [tstep, tstep.restoreReg, hg, Option.some.injEq] at hstep; subst hstep
        have hl : regGet last r = some (ruleV v) := by rw [hlast r, hg]; rfl
        dstep hname hcaf hdaf
        simp only [hl]
        exact ⟨_, rfl, hpc, ⟨hcfa, hregs.set r v⟩, hrows, hstack⟩
      | none =>
        simp only [tstep, tstep.restoreReg, hg, Option.some.injEq] at hstep; subst hstep
        have hl : regGet last r = none := by rw [hlast r, hg]; rfl
        dstep hname hcaf hdaf
        simp only [hl]
        exact ⟨_, rfl, hpc, ⟨hcfa, hregs.pop r⟩, hrows, hstack⟩
  | restore_extended r =>
    cases init with
    | none => simp [tstep, tstep.restoreReg] at hstep
    | some ini =>
      obtain ⟨hf, hlast⟩ := hinit
      subst hf
      cases hg : ini.regs.get r.v with
      | some v =>
        simp only [tstep, tstep.restoreReg, hg, Option.some.injEq] at hstep; subst hstep
        have hl : regGet last r.v = some (ruleV v) := by rw [hlast r.v, hg]; rfl
        dstep hname hcaf hdaf
        simp only [hl]
        exact ⟨_, rfl, hpc, ⟨hcfa, hregs.set r.v v⟩, hrows, hstack⟩
      | none =>
        simp only [tstep, tstep.restoreReg, hg, Option.some.injEq] at hstep; subst hstep
        have hl : regGet last r.v = none := by rw [hlast r.v, hg]; rfl
        dstep hname hcaf hdaf
        simp only [hl]
        exact ⟨_, rfl, hpc, ⟨hcfa, hregs.pop r.v⟩, hrows, hstack⟩


theorem run_sim (asz : Nat) (caf daf : Int) (cieH : Fields)
    (hcaf : Fields.getR cieH "code_alignment_factor" = .ok (.int caf))
    (hdaf : Fields.getR cieH "data_alignment_factor" = .ok (.int daf))
    (isFde : Bool) (last : List (Nat × RuleV)) (init : Option Rules) (hinit : InitRel isFde last init)
    (is : List Cfa) : ∀ (s : DState) (t t' : TState), StRel s t → (∀ i ∈ is, i.wf asz = true) →
      trun caf daf init t is = some t' →
      ∃ s', decodeLoop Spec.cfiTables isFde last cieH s (is.map toInstr) = .ok s' ∧ StRel s' t' := by
  induction is with
  | nil =>
    intro s t t' hrel _ hrun
    simp only [trun, Option.some.injEq] at hrun; subst hrun
    exact ⟨s, rfl, hrel⟩
  | cons i is ih =>
    intro s t t' hrel hwf hrun
    simp only [trun] at hrun
    cases hst : tstep caf daf init t i with
    | none => simp [hst] at hrun
    | some t1 =>
      simp only [hst] at hrun
      obtain ⟨s1, h1, hrel1⟩ := step_sim asz caf daf cieH hcaf hdaf isFde last init hinit s t t1 hrel i
        (hwf i (List.mem_cons_self ..)) hst
      obtain ⟨s', h2, hrel'⟩ := ih s1 t1 t' hrel1 (fun j hj => hwf j (List.mem_cons_of_mem _ hj)) hrun
      refine ⟨s', ?_, hrel'⟩
      simp only [List.map_cons, decodeLoop, h1, bind, Except.bind]
      exact h2

/-- does the current line say anything (the condition at the end of `_decode_CFI_table`) -/
def keepLine (c : Line) : Bool :=
  (match c.cfa.reg with | .none => false | _ => true)
    || (match c.cfa.expr with | .none => false | _ => true) || !c.regs.isEmpty

theorem finish_eq (s : DState) :
    finish s = ⟨if keepLine s.cur then s.table ++ [s.cur] else s.table, s.order⟩ := rfl

theorem keep_iff {l : Line} {r : Rules} (h : RulesRel l r) : keepLine l = !r.isEmpty := by
  obtain ⟨hc, hr⟩ := h
  unfold keepLine Rules.isEmpty
  rw [hc, hr.isEmpty]
  cases r.cfa <;> simp [cfaV, bytesObs]

theorem finish_sim {s : DState} {t : TState} (h : StRel s t) : All₂ LineRel (finish s).table t.table := by
  rw [finish_eq, TState.table, keep_iff h.rules]
  cases hE : t.rules.isEmpty
  · simpa using all₂_snoc h.rows ⟨h.pc, h.rules⟩
  · simpa using h.rows

theorem StRel.init (pc : Int) (order : List Nat) :
    StRel ⟨⟨pc, ⟨.none, .int 0, .none⟩, []⟩, [], [], order⟩ ⟨pc, Rules.empty, [], []⟩ :=
  ⟨rfl, ⟨rfl, RegsRel.nil⟩, .nil, .nil⟩

/-- CIE: the decoded table of the model is the §6.4 table of the instruction sequence -/
theorem decode_cie (asz : Nat) (caf daf : Int) (h : Fields)
    (hcaf : Fields.getR h "code_alignment_factor" = .ok (.int caf))
    (hdaf : Fields.getR h "data_alignment_factor" = .ok (.int daf))
    (is : List Cfa) (hwf : ∀ i ∈ is, i.wf asz = true) (rows : List Row)
    (hstd : stdTableCie caf daf is = some rows) (off : Nat) (ad : Fields) (ab : Bytes) (fmt : Nat) :
    ∃ d, decodeTable Spec.cfiTables (.cie h (is.map toInstr) off ad ab fmt) = .ok d ∧ All₂ LineRel d.table rows := by
  unfold stdTableCie at hstd
  cases hr : trun caf daf none ⟨0, Rules.empty, [], []⟩ is with
  | none => simp [hr] at hstd
  | some t' =>
    simp only [hr, Option.map_some, Option.some.injEq] at hstd; subst hstd
    obtain ⟨s', h1, hrel⟩ := run_sim asz caf daf h hcaf hdaf false [] none rfl is _ _ t' (StRel.init 0 []) hwf hr
    refine ⟨finish s', ?_, finish_sim hrel⟩
    simp only [decodeTable, h1, bind, Except.bind, pure, Except.pure]


theorem tstep_rows {caf daf : Int} {init : Option Rules} {t t' : TState} {i : Cfa}
    (ha : advances i = false) (hs : tstep caf daf init t i = some t') : t'.rows = t.rows := by
  cases i <;> simp [advances] at ha <;> simp only [tstep, tstep.restoreReg] at hs <;>
    (try split at hs) <;> (try split at hs) <;> simp_all [setReg, setCfa] <;> (subst hs; rfl)

theorem trun_rows_nil {caf daf : Int} {init : Option Rules} (is : List Cfa) :
    ∀ (t t' : TState), is.any advances = false → t.rows = [] → trun caf daf init t is = some t' → t'.rows = [] := by
  induction is with
  | nil => intro t t' _ h0 hr; simp only [trun, Option.some.injEq] at hr; subst hr; exact h0
  | cons i is ih =>
    intro t t' ha h0 hr
    simp only [List.any_cons, Bool.or_eq_false_iff] at ha
    simp only [trun] at hr
    cases hst : tstep caf daf init t i with
    | none => simp [hst] at hr
    | some t1 =>
      simp only [hst] at hr
      exact ih t1 t' ha.2 (by rw [tstep_rows ha.1 hst, h0]) hr


theorem all₂_nil_right {α β : Type} {R : α → β → Prop} {l : List α} (h : All₂ R l []) : l = [] := by
  cases h; rfl

/-- FDE: the CIE's initial rules at `initial_location`, then the FDE's program -/
theorem decode_fde (asz : Nat) (caf daf : Int) (hc hf : Fields) (loc : Int)
    (hcaf : Fields.getR hc "code_alignment_factor" = .ok (.int caf))
    (hdaf : Fields.getR hc "data_alignment_factor" = .ok (.int daf))
    (hloc : Fields.getR hf "initial_location" = .ok (.int loc))
    (cis fis : List Cfa) (hwfc : ∀ i ∈ cis, i.wf asz = true) (hwff : ∀ i ∈ fis, i.wf asz = true)
    (rows : List Row) (hstd : stdTableFde caf daf cis loc fis = some rows)
    (off coff : Nat) (ad : Fields) (ab fab : Bytes) (lsda : Option Int) (fmt cfmt : Nat) :
    ∃ d, decodeTable Spec.cfiTables
          (.fde hf (fis.map toInstr) off (.cie hc (cis.map toInstr) coff ad ab cfmt) fab lsda fmt) = .ok d
      ∧ All₂ LineRel d.table rows := by
  unfold stdTableFde initRules at hstd
  cases hadv : cis.any advances with
  | true => simp [hadv] at hstd
  | false =>
    simp only [hadv, Bool.false_eq_true, if_false] at hstd
    cases hr : trun caf daf none ⟨0, Rules.empty, [], []⟩ cis with
    | none => simp [hr] at hstd
    | some tc =>
      simp only [hr, Option.map_some] at hstd
      cases hr2 : trun caf daf (some tc.rules) ⟨loc, tc.rules, [], []⟩ fis with
      | none => simp [hr2] at hstd
      | some t' =>
        simp only [hr2, Option.map_some, Option.some.injEq] at hstd; subst hstd
        obtain ⟨sc, h1, hrelc⟩ :=
          run_sim asz caf daf hc hcaf hdaf false [] none rfl cis _ _ tc (StRel.init 0 []) hwfc hr
        have hrows0 : tc.rows = [] := trun_rows_nil cis _ tc hadv rfl hr
        have htab0 : sc.table = [] := by
          have := hrelc.rows; rw [hrows0] at this; exact all₂_nil_right this
        have hcd : decodeTable Spec.cfiTables (.cie hc (cis.map toInstr) coff ad ab cfmt) = .ok (finish sc) := by
          simp only [decodeTable, h1, bind, Except.bind, pure, Except.pure]
        have hk := keep_iff hrelc.rules
        cases hE : tc.rules.isEmpty with
        | false =>
          -- the CIE's line is kept: it is `last_line_in_CIE`
          rw [hE] at hk
          have hfin : (finish sc).table = [sc.cur] := by simp [finish_eq, hk, htab0]
          obtain ⟨s', h2, hrel'⟩ := run_sim asz caf daf hc hcaf hdaf true sc.cur.regs (some tc.rules)
            ⟨rfl, hrelc.rules.2⟩ fis ⟨{ sc.cur with pc := loc }, [], [], (finish sc).regOrder⟩
            ⟨loc, tc.rules, [], []⟩ t' ⟨rfl, hrelc.rules, .nil, .nil⟩ hwff hr2
          refine ⟨finish s', ?_, finish_sim hrel'⟩
          rw [decodeTable, hcd]
          simp only [bind, Except.bind, pure, Except.pure, hfin, List.getLast?_singleton,
            hdrInt, hloc, Val.asInt, Entry.header]
          rw [h2]
        | true =>
          rw [hE] at hk
          have hfin : (finish sc).table = [] := by simp [finish_eq, hk, htab0]
          have hemp : tc.rules = Rules.empty := by
            have h0 := hE
            unfold Rules.isEmpty at h0
            simp only [Bool.and_eq_true, beq_iff_eq, List.isEmpty_iff] at h0
            cases hrr : tc.rules with
            | mk c r => rw [hrr] at h0; simp only at h0; rw [h0.1, h0.2]; rfl
          rw [hemp] at hr2
          obtain ⟨s', h2, hrel'⟩ := run_sim asz caf daf hc hcaf hdaf true [] (some Rules.empty)
            ⟨rfl, RegsRel.nil⟩ fis ⟨⟨loc, ⟨.none, .int 0, .none⟩, []⟩, [], [], (finish sc).regOrder⟩
            ⟨loc, Rules.empty, [], []⟩ t'
            (StRel.init loc _) hwff hr2
          refine ⟨finish s', ?_, finish_sim hrel'⟩
          rw [decodeTable, hcd]
          simp only [bind, Except.bind, pure, Except.pure, hfin, List.getLast?_nil,
            hdrInt, hloc, Val.asInt, Entry.header]
          rw [h2]

end PyElf.Proofs.Cfi
