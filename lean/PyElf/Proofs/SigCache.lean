/-
  Helper lemmas for the signature-map cache (Model/SigCache): invariant, refinement, histories.
-/
import PyElf.Model.SigCache
namespace PyElf.Proofs.SigCache
open PyElf PyElf.Model.SigCache

theorem inv_init {M : Type} (scan : M × Option Err) : Inv scan (St.init : St M) := Or.inl rfl

theorem step_inv {M Q A : Type} (scan : M × Option Err) (look : M → Q → R A) (st : St M) (sig : Q)
    (h : Inv scan st) : Inv scan (step scan look st sig).2 := by
  unfold step
  rcases h with h | ⟨h1, h2⟩
  · rw [h]
    cases hs : scan.2 with
    | some e => exact Or.inl h
    | none => exact Or.inr ⟨hs, rfl⟩
  · rw [h2]
    exact Or.inr ⟨h1, h2⟩

theorem step_answer {M Q A : Type} (scan : M × Option Err) (look : M → Q → R A) (st : St M) (sig : Q)
    (h : Inv scan st) : (step scan look st sig).1 = stateless scan look sig := by
  unfold step stateless
  rcases h with h | ⟨h1, h2⟩
  · rw [h]
    cases hs : scan.2 with
    | some e => rfl
    | none => rfl
  · rw [h2, h1]

theorem run_answers {M Q A : Type} (scan : M × Option Err) (look : M → Q → R A) :
    ∀ (sigs : List Q) (st : St M), Inv scan st →
      (run scan look st sigs).1 = sigs.map (stateless scan look) ∧ Inv scan (run scan look st sigs).2 := by
  intro sigs
  induction sigs with
  | nil => intro st h; exact ⟨rfl, h⟩
  | cons s rest ih =>
    intro st h
    have ha := step_answer scan look st s h
    have hi := step_inv scan look st s h
    obtain ⟨h1, h2⟩ := ih (step scan look st s).2 hi
    simp only [run, List.map_cons]
    exact ⟨by rw [ha, h1], h2⟩

/-- a published map stays published -/
theorem run_some {M Q A : Type} (scan : M × Option Err) (look : M → Q → R A) :
    ∀ (sigs : List Q) (m : M), (run scan look ⟨some m⟩ sigs).2.map = some m := by
  intro sigs
  induction sigs with
  | nil => intro m; rfl
  | cons s rest ih => intro m; simp only [run, step]; exact ih m

/-- the map is published exactly when at least one lookup happened and the scan completes -/
theorem run_published {M Q A : Type} (scan : M × Option Err) (look : M → Q → R A) (sigs : List Q) :
    (run scan look St.init sigs).2.map.isSome = (!sigs.isEmpty && scan.2.isNone) := by
  induction sigs with
  | nil => rfl
  | cons s rest ih =>
    cases hs : scan.2 with
    | some e =>
      have hstep : step scan look St.init s = (.error e, St.init) := by simp [step, St.init, hs]
      simp only [run, hstep]
      rw [ih, hs]
      simp
    | none =>
      have hstep : step scan look St.init s = (look scan.1 s, ⟨some scan.1⟩) := by simp [step, St.init, hs]
      simp only [run, hstep, run_some]
      simp

end PyElf.Proofs.SigCache
