/-
  The hash-table headers parse back to the tables the encoders wrote; chain words are read back.
-/
import PyElf.Proofs.SymParse
import PyElf.Proofs.GnuLookup
namespace PyElf.Proofs
open PyElf PyElf.Spec PyElf.Model

theorem encWords_cons (le : Bool) (n w : Nat) (ws : List Nat) :
    encWords le n (w :: ws) = encNat le n w ++ encWords le n ws := by simp [encWords]

theorem encWords_length (le : Bool) (n : Nat) (ws : List Nat) : (encWords le n ws).length = n * ws.length := by
  induction ws with
  | nil => simp [encWords]
  | cons w ws ih => rw [encWords_cons, List.length_append, encNat_length, ih, List.length_cons]; rw [Nat.mul_succ]; omega

theorem arrayLoop_words (env : Env) (data : Bytes) (le : Bool) (n : Nat) (ctx : Fields) (rest : Bytes) :
    ∀ (ws : List Nat) (pos : Nat) (acc : List Val), (∀ w ∈ ws, w < 256 ^ n) →
      data.drop pos = encWords le n ws ++ rest →
      arrayLoop (fun p c => Con.parse env data (.uint n le) c p) ws.length pos ctx acc
        = .ok (.list (acc.reverse ++ ws.map fun (w : Nat) => Val.int (w : Int)), pos + n * ws.length, ctx) := by
  intro ws
  induction ws with
  | nil => intro pos acc _ _; simp [arrayLoop]
  | cons w ws ih =>
    intro pos acc hlt hd
    rw [encWords_cons, List.append_assoc] at hd
    have hd' := drop_add_of_drop hd; rw [encNat_length] at hd'
    simp only [List.length_cons, arrayLoop]
    rw [parse_uint_enc (hlt w List.mem_cons_self) hd]
    simp only
    rw [ih (pos + n) _ (fun x hx => hlt x (List.mem_cons_of_mem _ hx)) hd']
    simp [Nat.mul_succ]; omega

theorem parse_array_words {env : Env} {data : Bytes} {le : Bool} {n : Nat} {ctx : Fields} {rest : Bytes} {k : String}
    {ws : List Nat} {pos : Nat} (hk : Fields.get? ctx k = some (.int ws.length)) (hlt : ∀ w ∈ ws, w < 256 ^ n)
    (hd : data.drop pos = encWords le n ws ++ rest) :
    Con.parse env data (.array (.ctx k) (.uint n le)) ctx pos = .ok (natsVal ws, pos + n * ws.length, ctx) := by
  rw [Con.parse]
  simp only [Expr.eval, Fields.getR, hk, Val.asInt, bind, Except.bind, Int.toNat_natCast]
  rw [arrayLoop_words env data le n ctx rest ws pos [] hlt hd]
  simp [natsVal]

theorem hash_spec (c : ElfCfg) : (Spec.elfStructs c).Elf_Hash
    = .struct (.cons (some "nbuckets") false (.uint 4 c.le) (.cons (some "nchains") false (.uint 4 c.le)
        (.cons (some "buckets") false (.array (.ctx "nbuckets") (.uint 4 c.le))
        (.cons (some "chains") false (.array (.ctx "nchains") (.uint 4 c.le)) .nil)))) := by
  simp [Spec.elfStructs, st, f, mkFields, Spec.ctx]

/-- `ELFHashTable.__init__`: the params of an encoded SysV table -/
theorem elfHashInit_ok (env : Env) (c : ElfCfg) (t : SysVTable) (data : Bytes) (off : Nat) (rest : Bytes)
    (hb : t.buckets.length = t.nbucket) (hc : t.chains.length = t.nchain)
    (hnb : t.nbucket < 2 ^ 32) (hnc : t.nchain < 2 ^ 32)
    (hbl : ∀ w ∈ t.buckets, w < 2 ^ 32) (hcl : ∀ w ∈ t.chains, w < 2 ^ 32)
    (hd : data.drop off = encSysV c.le t ++ rest) :
    elfHashInit (Spec.elfStructs c) env data off = .ok (sysvParams t) := by
  have h0 : data.drop off = encNat c.le 4 t.nbucket ++ (encNat c.le 4 t.nchain ++
      (encWords c.le 4 t.buckets ++ (encWords c.le 4 t.chains ++ rest))) := by
    rw [hd]; simp [encSysV, List.append_assoc]
  have h1 := drop_add_of_drop h0; rw [encNat_length] at h1
  have h2 := drop_add_of_drop h1; rw [encNat_length] at h2
  have h3 := drop_add_of_drop h2; rw [encWords_length] at h3
  rw [elfHashInit, hash_spec, structParse, Con.parse]
  rw [parseFields_named (parse_uint_enc (by omega) h0), parseFields_named (parse_uint_enc (by omega) h1)]
  rw [parseFields_named (parse_array_words (ws := t.buckets) (by simp [Fields.set, Fields.get?, hb])
        (fun w hw => by have := hbl w hw; omega) h2)]
  rw [parseFields_named (parse_array_words (ws := t.chains) (by simp [Fields.set, Fields.get?, hc])
        (fun w hw => by have := hcl w hw; omega) h3), Con.parseFields]
  simp [bind, Except.bind, pure, Except.pure, Fields.set, sysvParams]

theorem WFSysV_ranges {names : List Bytes} {t : SysVTable} (h : WFSysV names t = true) :
    t.nbucket < 2 ^ 32 ∧ t.nchain < 2 ^ 32 ∧ (∀ w ∈ t.buckets, w < 2 ^ 32) ∧ (∀ w ∈ t.chains, w < 2 ^ 32) := by
  simp only [WFSysV, Bool.and_eq_true, decide_eq_true_eq, List.all_eq_true] at h
  obtain ⟨⟨⟨⟨⟨⟨⟨⟨⟨_, _⟩, _⟩, _⟩, h5⟩, h6⟩, h7⟩, h8⟩, _⟩, _⟩ := h
  exact ⟨h6, h5, fun w hw => by have := h7 w hw; omega, fun w hw => by have := h8 w hw; omega⟩

theorem gnu_spec (c : ElfCfg) : (Spec.elfStructs c).Gnu_Hash
    = .struct (.cons (some "nbuckets") false (.uint 4 c.le) (.cons (some "symoffset") false (.uint 4 c.le)
        (.cons (some "bloom_size") false (.uint 4 c.le) (.cons (some "bloom_shift") false (.uint 4 c.le)
        (.cons (some "bloom") false (.array (.ctx "bloom_size") (.uint (c.cls / 8) c.le))
        (.cons (some "buckets") false (.array (.ctx "nbuckets") (.uint 4 c.le)) .nil)))))) := by
  simp [Spec.elfStructs, st, f, mkFields, Spec.ctx]

theorem drop_encWords {data : Bytes} {le : Bool} {n : Nat} {rest : Bytes} : ∀ (ws : List Nat) (cp k : Nat)
    (hk : k < ws.length), data.drop cp = encWords le n ws ++ rest →
    ∃ rest', data.drop (cp + n * k) = encNat le n ws[k] ++ rest' := by
  intro ws
  induction ws with
  | nil => intro cp k hk; simp at hk
  | cons w ws ih =>
    intro cp k hk hd
    rw [encWords_cons, List.append_assoc] at hd
    cases k with
    | zero => exact ⟨_, by simpa using hd⟩
    | succ k =>
      have hd' := drop_add_of_drop hd; rw [encNat_length] at hd'
      obtain ⟨r, hr⟩ := ih (cp + n) k (by simpa using hk) hd'
      exact ⟨r, by rw [show cp + n * (k + 1) = cp + n + n * k by rw [Nat.mul_succ]; omega]; simpa using hr⟩

/-- the chain words behind the header are what `struct.unpack` reads -/
theorem readHashWord_words {data : Bytes} {le : Bool} {rest : Bytes} {ws : List Nat} {cp : Nat}
    (hd : data.drop cp = encWords le 4 ws ++ rest) (hlt : ∀ w ∈ ws, w < 2 ^ 32) :
    ∀ k (hk : k < ws.length), readHashWord le data (cp + k * 4) = .ok ws[k] := by
  intro k hk
  obtain ⟨r, hr⟩ := drop_encWords ws cp k hk hd
  rw [Nat.mul_comm] at hr
  have hlen : (encNat le 4 ws[k]).length = 4 := encNat_length _ _ _
  have : readN data (cp + k * 4) 4 = encNat le 4 ws[k] := by
    simp only [readN, hr]
    rw [List.take_append_of_le_length (by omega)]
    exact List.take_of_length_le (by omega)
  simp only [readHashWord, this, hlen, if_true]
  rw [decNat_encNat_of_lt le (show ws[k] < 256 ^ 4 by have := hlt _ (List.getElem_mem hk); omega)]

/-- `GNUHashTable.__init__` on an encoded table: params, element sizes, and where the chain words lie -/
theorem gnuHashInit_ok (env : Env) (c : ElfCfg) (t : GnuTable) (data : Bytes) (off : Nat) (rest : Bytes)
    (hb : t.buckets.length = t.nbuckets) (hbl : t.bloom.length = t.bloomSize)
    (h1 : t.nbuckets < 2 ^ 32) (h2 : t.symoffset < 2 ^ 32) (h3 : t.bloomSize < 2 ^ 32) (h4 : t.bloomShift < 2 ^ 32)
    (hbloom : ∀ w ∈ t.bloom, w < 256 ^ (c.cls / 8)) (hbk : ∀ w ∈ t.buckets, w < 2 ^ 32)
    (hd : data.drop off = encGnu c.le c.cls t ++ rest) :
    ∃ g, gnuHashInit (Spec.elfStructs c) env c.cls data off = .ok g ∧ g.params = gnuParams t ∧ g.wordsize = 4
      ∧ data.drop g.chainPos = encWords c.le 4 t.chain ++ rest := by
  have d0 : data.drop off = encNat c.le 4 t.nbuckets ++ (encNat c.le 4 t.symoffset ++ (encNat c.le 4 t.bloomSize ++
      (encNat c.le 4 t.bloomShift ++ (encWords c.le (c.cls / 8) t.bloom ++ (encWords c.le 4 t.buckets ++
      (encWords c.le 4 t.chain ++ rest)))))) := by
    rw [hd]; simp [encGnu, wsz, List.append_assoc]
  have d1 := drop_add_of_drop d0; rw [encNat_length] at d1
  have d2 := drop_add_of_drop d1; rw [encNat_length] at d2
  have d3 := drop_add_of_drop d2; rw [encNat_length] at d3
  have d4 := drop_add_of_drop d3; rw [encNat_length] at d4
  have d5 := drop_add_of_drop d4; rw [encWords_length] at d5
  have d6 := drop_add_of_drop d5; rw [encWords_length] at d6
  have hparse : structParse env (Spec.elfStructs c).Gnu_Hash data off
      = .ok (gnuParams t, off + 4 + 4 + 4 + 4 + c.cls / 8 * t.bloom.length + 4 * t.buckets.length) := by
    rw [gnu_spec, structParse, Con.parse]
    rw [parseFields_named (parse_uint_enc (by omega) d0), parseFields_named (parse_uint_enc (by omega) d1),
      parseFields_named (parse_uint_enc (by omega) d2), parseFields_named (parse_uint_enc (by omega) d3)]
    rw [parseFields_named (parse_array_words (ws := t.bloom) (by simp [Fields.set, Fields.get?, hbl]) hbloom d4)]
    rw [parseFields_named (parse_array_words (ws := t.buckets) (by simp [Fields.set, Fields.get?, hb])
          (fun w hw => by have := hbk w hw; omega) d5), Con.parseFields]
    simp [bind, Except.bind, pure, Except.pure, Fields.set, gnuParams]
  refine ⟨{ params := gnuParams t, wordsize := 4, xwordsize := c.cls / 8,
            chainPos := off + 4 * 4 + t.bloomSize * (c.cls / 8) + t.nbuckets * 4 }, ?_, rfl, rfl, ?_⟩
  · simp only [gnuHashInit, hparse, bind, Except.bind, gnu_getNat_bloom_size, gnu_getNat_nbuckets, pure, Except.pure]
  · rw [show off + 4 * 4 + t.bloomSize * (c.cls / 8) + t.nbuckets * 4
          = off + 4 + 4 + 4 + 4 + c.cls / 8 * t.bloom.length + 4 * t.buckets.length by
        rw [hb, hbl, Nat.mul_comm t.bloomSize, Nat.mul_comm t.nbuckets] <;> omega]
    exact d6

theorem WFGnuH_ranges {cls n : Nat} {hs : List Nat} {t : GnuTable} (h : WFGnuH cls n hs t = true) :
    t.nbuckets < 2 ^ 32 ∧ t.bloomSize < 2 ^ 32 ∧ t.bloomShift < 2 ^ 32 ∧ n < 2 ^ 32 ∧ (∀ w ∈ t.bloom, w < 2 ^ cls) := by
  simp only [WFGnuH, Bool.and_eq_true, decide_eq_true_eq, List.all_eq_true, List.mem_range, beq_iff_eq] at h
  obtain ⟨⟨⟨⟨⟨⟨⟨⟨⟨⟨⟨⟨⟨⟨_, _⟩, h3⟩, _⟩, _⟩, h6⟩, h7⟩, h8⟩, _⟩, _⟩, _⟩, _⟩, h13⟩, _⟩, _⟩ := h
  exact ⟨h3, h6, h7, h8, h13⟩

/-- a well-formed GNU table encoded at `off`: `__init__` succeeds with the table's params and every
    chain word is read back from `_chain_pos` -/
theorem gnu_init_of_wf (env : Env) (c : ElfCfg) (hcls : c.cls = 32 ∨ c.cls = 64) (names : List Bytes) (t : GnuTable)
    (data : Bytes) (off : Nat) (rest : Bytes) (hwf : WFGnu c.cls names t = true)
    (hd : data.drop off = encGnu c.le c.cls t ++ rest) :
    ∃ g, gnuHashInit (Spec.elfStructs c) env c.cls data off = .ok g ∧ g.params = gnuParams t ∧ g.wordsize = 4
      ∧ ∀ k (hk : k < t.chain.length), readHashWord c.le data (g.chainPos + k * 4) = .ok t.chain[k] := by
  have F : GnuFacts c.cls names.length (gnuHashes names t.symoffset) t := WFGnuH_facts hwf
  obtain ⟨r1, r2, r3, r4, r5⟩ := WFGnuH_ranges hwf
  have hso : t.symoffset < 2 ^ 32 := by have := F.son; omega
  have hbloom : ∀ w ∈ t.bloom, w < 256 ^ (c.cls / 8) := by
    intro w hw
    have := r5 w hw
    rcases hcls with h | h <;> rw [h] at this ⊢ <;> omega
  have hbk : ∀ w ∈ t.buckets, w < 2 ^ 32 := by
    intro w hw
    obtain ⟨b, hb, rfl⟩ := List.mem_iff_getElem.mp hw
    have := F.buckets b (by rw [← F.blen]; exact hb)
    rw [List.getElem?_eq_getElem hb] at this
    rw [Option.some.inj this]
    simp only [gnuFirst]
    cases hfi : (gnuHashes names t.symoffset).findIdx? (fun h => h % t.nbuckets == b) with
    | none => simp
    | some f =>
      obtain ⟨hflt, _, _⟩ := List.findIdx?_eq_some_iff_getElem.mp hfi
      have := F.hslen
      simp only; omega
  obtain ⟨g, hg1, hg2, hg3, hg4⟩ := gnuHashInit_ok env c t data off rest F.blen F.bllen r1 hso r2 r3 hbloom hbk hd
  refine ⟨g, hg1, hg2, hg3, ?_⟩
  apply readHashWord_words hg4
  intro w hw
  obtain ⟨k, hk, rfl⟩ := List.mem_iff_getElem.mp hw
  obtain ⟨_, c', _, hc, hlt, _⟩ := gnuEntry_facts (F.entry k (by rw [← F.clen]; exact hk))
  rw [List.getElem?_eq_getElem hk] at hc
  rw [Option.some.inj hc]; exact hlt

theorem sysv_init_of_wf (env : Env) (c : ElfCfg) (names : List Bytes) (t : SysVTable)
    (data : Bytes) (off : Nat) (rest : Bytes) (hwf : WFSysV names t = true)
    (hd : data.drop off = encSysV c.le t ++ rest) :
    elfHashInit (Spec.elfStructs c) env data off = .ok (sysvParams t) := by
  have F := WFSysV_facts hwf
  obtain ⟨a, b, c', d⟩ := WFSysV_ranges hwf
  exact elfHashInit_ok env c t data off rest F.blen F.clen a b c' d hd

end PyElf.Proofs
