/-
  C04 helper lemmas, part 7: unit headers — DWARF 5 headers of `.debug_info` (the six unit types,
  through the `ENUM_DW_UT` switch of `Dwarf_CU_header`) and the type-unit header of `.debug_types`.
  Versions 2–4 of `.debug_info` are C13's `parseCU_encoded` (Proofs/DwarfUnits.lean), reused here.
-/
import PyElf.Spec.DieTree
import PyElf.Model.Die
import PyElf.Proofs.Engine
import PyElf.Proofs.DwarfUnits
namespace PyElf.Proofs.C04
open PyElf PyElf.Spec PyElf.Spec.C04 PyElf.Spec.Lookup PyElf.Model PyElf.Model.Lookup PyElf.Model.C04 PyElf.Proofs
  PyElf.Proofs.Engine PyElf.Proofs.Lookup

/-! ### the header struct, spelled out -/

def cuCP (le : Bool) (n : Nat) : Con :=
  .struct (.cons (some "address_size") false (.uint 1 le) (.cons (some "debug_abbrev_offset") false (.uint n le) .nil))
def cuSS (le : Bool) (n : Nat) : Con :=
  .struct (.cons (some "address_size") false (.uint 1 le) (.cons (some "debug_abbrev_offset") false (.uint n le)
          (.cons (some "dwo_id") false (.uint 8 le) .nil)))
def cuTS (le : Bool) (n : Nat) : Con :=
  .struct (.cons (some "address_size") false (.uint 1 le) (.cons (some "debug_abbrev_offset") false (.uint n le)
          (.cons (some "type_signature") false (.uint 8 le) (.cons (some "type_offset") false (.uint n le) .nil))))
def cuCases (le : Bool) (n : Nat) : ConCases :=
  .cons (.str "DW_UT_compile") (cuCP le n) (.cons (.str "DW_UT_partial") (cuCP le n)
  (.cons (.str "DW_UT_skeleton") (cuSS le n) (.cons (.str "DW_UT_split_compile") (cuSS le n)
  (.cons (.str "DW_UT_type") (cuTS le n) (.cons (.str "DW_UT_split_type") (cuTS le n) .nil)))))
def cuBody5 (le : Bool) (n : Nat) : Con :=
  .struct (.cons (some "unit_type") false (.enum (.uint 1 le) "ENUM_DW_UT" false)
          (.cons none true (.switch (.ctx "unit_type") (cuCases le n) .noDefault) .nil))
def cuBody4 (le : Bool) (n : Nat) : Con :=
  .struct (.cons (some "debug_abbrev_offset") false (.uint n le) (.cons (some "address_size") false (.uint 1 le) .nil))
def cuTail (le : Bool) (n : Nat) : ConFields :=
  .cons (some "version") false (.uint 2 le)
    (.cons none true (.ifThenElse (.ge (.ctx "version") (.lit 5)) (cuBody5 le n) (cuBody4 le n)) .nil)
def cuHeaderCon (le : Bool) (n : Nat) : Con := .struct (.cons (some "unit_length") false (.initialLength le) (cuTail le n))

theorem cu_header_eq (le : Bool) (fmt : Nat) :
    (Spec.dwarfStructs ⟨le, fmt, 4, 2⟩).Dwarf_CU_header = cuHeaderCon le (fmt / 8) := rfl

def tuTail (le : Bool) (n : Nat) : ConFields :=
  .cons (some "version") false (.uint 2 le) (.cons (some "debug_abbrev_offset") false (.uint n le)
    (.cons (some "address_size") false (.uint 1 le) (.cons (some "signature") false (.uint 8 le)
    (.cons (some "type_offset") false (.uint n le) .nil))))
def tuHeaderCon (le : Bool) (n : Nat) : Con := .struct (.cons (some "unit_length") false (.initialLength le) (tuTail le n))

theorem tu_header_eq (le : Bool) (fmt : Nat) :
    (Spec.dwarfStructs ⟨le, fmt, 4, 2⟩).Dwarf_TU_header = tuHeaderCon le (fmt / 8) := rfl

/-! ### the part of a v5 header behind the initial length -/

/-- the fields a v5 header has behind `debug_abbrev_offset`, by unit type -/
def v5Extra (utype id8 typeOff : Nat) : Fields :=
  if utype = 4 ∨ utype = 5 then [("dwo_id", .int id8)]
  else if utype = 2 ∨ utype = 6 then [("type_signature", .int id8), ("type_offset", .int typeOff)]
  else []

def v5ExtraBytes (le : Bool) (n utype id8 typeOff : Nat) : Bytes :=
  if utype = 4 ∨ utype = 5 then encNat le 8 id8
  else if utype = 2 ∨ utype = 6 then encNat le 8 id8 ++ encNat le n typeOff
  else []

theorem utName_cases {k : Nat} {s : String} (h : utName k = some s) :
    (k = 1 ∧ s = "DW_UT_compile") ∨ (k = 2 ∧ s = "DW_UT_type") ∨ (k = 3 ∧ s = "DW_UT_partial") ∨
    (k = 4 ∧ s = "DW_UT_skeleton") ∨ (k = 5 ∧ s = "DW_UT_split_compile") ∨ (k = 6 ∧ s = "DW_UT_split_type") := by
  unfold utName at h
  split at h <;> first | (cases h; done) | (injection h with h; subst h; simp)

theorem uint_read {env : Env} {data : Bytes} {le : Bool} {n v pos : Nat} {rest : Bytes}
    (hd : data.drop pos = encNat le n v ++ rest) (hv : v < 256 ^ n) (cx : Fields) :
    Con.parse env data (.uint n le) cx pos = .ok (.int v, pos + n, cx) := by
  rw [parse_uint_ok hd (encNat_length le n v), decNat_encNat_of_lt le hv]

theorem parseFields_cu5 {env : Env} {data : Bytes} {le : Bool} {n pos ver utype asz ao id8 to : Nat} {B L : Val}
    {name : String} {rest : Bytes}
    (hname : env.enumDecode "ENUM_DW_UT" utype = some name) (hut : utName utype = some name)
    (hver : 5 ≤ ver) (hver' : ver < 256 ^ 2) (hasz : asz < 256 ^ 1) (hao : ao < 256 ^ n) (hid : id8 < 256 ^ 8)
    (hto : to < 256 ^ n)
    (hd : data.drop pos = encNat le 2 ver ++ (encNat le 1 utype ++ (encNat le 1 asz ++ (encNat le n ao ++
            (v5ExtraBytes le n utype id8 to ++ rest))))) :
    (Con.parseFields env data (cuTail le n) [("unit_length", L)] [("is64", B), ("unit_length", L)] pos).map
        (fun r => (r.1, r.2.1))
      = .ok ([("unit_length", L), ("version", .int ver), ("unit_type", .str name), ("address_size", .int asz),
              ("debug_abbrev_offset", .int ao)] ++ v5Extra utype id8 to,
             pos + 2 + 1 + 1 + n + (v5ExtraBytes le n utype id8 to).length) := by
  have hd1 := drop_add_of_drop hd
  have hd2 := drop_add_of_drop hd1
  have hd3 := drop_add_of_drop hd2
  have hd4 := drop_add_of_drop hd3
  simp only [encNat_length] at hd1 hd2 hd3 hd4
  have hut1 : utype < 256 ^ 1 := by
    rcases utName_cases hut with h | h | h | h | h | h <;> omega
  have r1 := uint_read (env := env) hd hver'
  have r2u := uint_read (env := env) hd1 hut1
  have r2 : ∀ cx, Con.parse env data (.enum (.uint 1 le) "ENUM_DW_UT" false) cx (pos + 2) = .ok (.str name, pos + 2 + 1, cx) :=
    fun cx => parse_enum_named (r2u cx) hname
  have r3 := uint_read (env := env) hd2 hasz
  have r4 := uint_read (env := env) hd3 hao
  have hge : ((ver : Int) ≥ 5) := by omega
  rcases utName_cases hut with ⟨rfl, rfl⟩ | ⟨rfl, rfl⟩ | ⟨rfl, rfl⟩ | ⟨rfl, rfl⟩ | ⟨rfl, rfl⟩ | ⟨rfl, rfl⟩
  -- compile / partial: nothing behind debug_abbrev_offset
  case inl | inr.inr.inl =>
    simp [Except.map, cuTail, cuBody5, cuCases, cuCP, Con.parseFields, Con.parseEmb, Con.parseCaseEmb, r1, r2, r3, r4, Expr.eval,
      Expr.cmp, Fields.getR, Fields.get?, Fields.set, Val.asInt, Val.truthy, bind, Except.bind, pure, Except.pure, hge,
      BEq.beq, Val.beq, v5Extra, v5ExtraBytes]
  -- type / split_type: signature and type offset
  case inr.inl | inr.inr.inr.inr.inr =>
    have hd4' : data.drop (pos + 2 + 1 + 1 + n) = encNat le 8 id8 ++ (encNat le n to ++ rest) := by
      rw [hd4]; simp [v5ExtraBytes]
    have hd5 := drop_add_of_drop hd4'
    simp only [encNat_length] at hd5
    have r5 := uint_read (env := env) hd4' hid
    have r6 := uint_read (env := env) hd5 hto
    simp [Except.map, cuTail, cuBody5, cuCases, cuTS, Con.parseFields, Con.parseEmb, Con.parseCaseEmb, r1, r2, r3, r4, r5, r6,
      Expr.eval, Expr.cmp, Fields.getR, Fields.get?, Fields.set, Val.asInt, Val.truthy, bind, Except.bind, pure,
      Except.pure, hge, BEq.beq, Val.beq, v5Extra, v5ExtraBytes, encNat_length]
    omega
  -- skeleton / split_compile: dwo_id
  case inr.inr.inr.inl | inr.inr.inr.inr.inl =>
    have hd4' : data.drop (pos + 2 + 1 + 1 + n) = encNat le 8 id8 ++ rest := by
      rw [hd4]; simp [v5ExtraBytes]
    have r5 := uint_read (env := env) hd4' hid
    simp [Except.map, cuTail, cuBody5, cuCases, cuSS, Con.parseFields, Con.parseEmb, Con.parseCaseEmb, r1, r2, r3, r4, r5,
      Expr.eval, Expr.cmp, Fields.getR, Fields.get?, Fields.set, Val.asInt, Val.truthy, bind, Except.bind, pure,
      Except.pure, hge, BEq.beq, Val.beq, v5Extra, v5ExtraBytes, encNat_length]

theorem parse_struct_map {env : Env} {data : Bytes} {fs : ConFields} {ctx obj : Fields} {pos p : Nat}
    (h : (Con.parseFields env data fs [] [] pos).map (fun r => (r.1, r.2.1)) = .ok (obj, p)) :
    Con.parse env data (.struct fs) ctx pos = .ok (.record obj, p, ctx) := by
  rw [Con.parse]
  cases hr : Con.parseFields env data fs [] [] pos with
  | error e => rw [hr] at h; cases h
  | ok r =>
    obtain ⟨a, b, c⟩ := r
    rw [hr] at h
    simp only [Except.map, Except.ok.injEq, Prod.mk.injEq] at h
    obtain ⟨rfl, rfl⟩ := h
    rfl

/-- the record of a v5 header -/
def v5HdrVal (ul ver : Nat) (name : String) (asz ao utype id8 to : Nat) : Val :=
  .record (("unit_length", .int ul) :: ("version", .int ver) :: ("unit_type", .str name) :: ("address_size", .int asz)
    :: ("debug_abbrev_offset", .int ao) :: v5Extra utype id8 to)

theorem cu_header_parse5 {env : Env} {data : Bytes} {off : Nat} {le : Bool} (fmt64 : Bool)
    {ul ver utype asz ao id8 to : Nat} {name : String} {rest : Bytes}
    (hname : env.enumDecode "ENUM_DW_UT" utype = some name) (hut : utName utype = some name)
    (hver : 5 ≤ ver) (hver' : ver < 256 ^ 2) (hasz : asz < 256 ^ 1) (hao : ao < 256 ^ (if fmt64 then 8 else 4))
    (hid : id8 < 256 ^ 8) (hto : to < 256 ^ (if fmt64 then 8 else 4))
    (hul : if fmt64 then ul < 256 ^ 8 else ul < 0xFFFFFF00)
    (hd : data.drop off = encInitialLength le fmt64 ul ++ (encNat le 2 ver ++ (encNat le 1 utype ++ (encNat le 1 asz ++
            (encNat le (if fmt64 then 8 else 4) ao ++ (v5ExtraBytes le (if fmt64 then 8 else 4) utype id8 to ++ rest)))))) :
    structParse env (cuHeaderCon le (if fmt64 then 8 else 4)) data off
      = .ok (v5HdrVal ul ver name asz ao utype id8 to,
             off + (if fmt64 then 12 else 4) + 2 + 1 + 1 + (if fmt64 then 8 else 4)
               + (v5ExtraBytes le (if fmt64 then 8 else 4) utype id8 to).length) := by
  cases fmt64 with
  | false =>
    simp only [Bool.false_eq_true, if_false] at *
    have hd0 : data.drop off = encNat le 4 ul ++ (encNat le 2 ver ++ (encNat le 1 utype ++ (encNat le 1 asz ++
        (encNat le 4 ao ++ (v5ExtraBytes le 4 utype id8 to ++ rest))))) := by
      rw [hd]; simp [encInitialLength]
    have h1 := drop_add_of_drop hd0
    simp only [encNat_length] at h1
    have e0 : decNat le (encNat le 4 ul) = ul := decNat_encNat_of_lt le (by omega)
    have ht := parseFields_cu5 (env := env) (B := .bool false) (L := .int ul) hname hut hver hver' hasz hao hid hto h1
    unfold structParse cuHeaderCon
    rw [parse_struct_map (obj := _) (p := off + 4 + 2 + 1 + 1 + 4 + (v5ExtraBytes le 4 utype id8 to).length)
      (by rw [parseFields_initlen32 hd0 (encNat_length le 4 ul) (by rw [e0]; exact hul), e0]
          simpa [Fields.set] using ht)]
    simp [bind, Except.bind, pure, Except.pure, v5HdrVal]
  | true =>
    simp only [if_true] at *
    have hd0 : data.drop off = encNat le 4 0xFFFFFFFF ++ (encNat le 8 ul ++ (encNat le 2 ver ++ (encNat le 1 utype ++
        (encNat le 1 asz ++ (encNat le 8 ao ++ (v5ExtraBytes le 8 utype id8 to ++ rest)))))) := by
      rw [hd]; simp [encInitialLength]
    have h1 := drop_add_of_drop hd0
    have h2 := drop_add_of_drop h1
    simp only [encNat_length] at h1 h2
    have h2' : data.drop (off + 12) = encNat le 2 ver ++ (encNat le 1 utype ++
        (encNat le 1 asz ++ (encNat le 8 ao ++ (v5ExtraBytes le 8 utype id8 to ++ rest)))) := h2
    have ht := parseFields_cu5 (env := env) (B := .bool true) (L := .int ul) hname hut hver hver' hasz hao hid hto h2'
    unfold structParse cuHeaderCon
    rw [parse_struct_map (obj := _) (p := off + 12 + 2 + 1 + 1 + 8 + (v5ExtraBytes le 8 utype id8 to).length)
      (by rw [parseFields_initlen64 hd0 (encNat_length le 4 _) (encNat_length le 8 ul)
            (decNat_encNat_of_lt le (by decide)), decNat_encNat_of_lt le hul]
          simpa [Fields.set] using ht)]
    simp [bind, Except.bind, pure, Except.pure, v5HdrVal]

theorem wfUnit_v5 {le : Bool} {u : InfoUnit} (h : wfUnit le u = true) (h5 : ¬ u.version < 5) :
    u.version = 5 ∧ (u.asz = 4 ∨ u.asz = 8) ∧ u.abbrevOff < 256 ^ u.offSize ∧ u.id8 < 256 ^ 8 ∧
      u.typeOff < 256 ^ u.offSize ∧ 1 ≤ u.utype ∧ u.utype ≤ 6 ∧
      (if u.fmt64 then unitLength le u < 256 ^ 8 else unitLength le u < 0xFFFFFF00) := by
  unfold wfUnit at h
  simp only [Bool.and_eq_true, decide_eq_true_eq, Bool.or_eq_true, beq_iff_eq] at h
  obtain ⟨⟨⟨⟨⟨⟨⟨h1, h2⟩, h3⟩, h4⟩, h5'⟩, h6⟩, h7⟩, h8⟩ := h
  have h7' : 1 ≤ u.utype ∧ u.utype ≤ 6 := by
    rcases h7 with h | h
    · exact absurd h h5
    · exact h
  refine ⟨by omega, h3, h4, h5', h6, h7'.1, h7'.2, ?_⟩
  cases hf : u.fmt64 <;> simp [hf] at h8 ⊢ <;> exact h8

theorem utName_some {k : Nat} (h1 : 1 ≤ k) (h6 : k ≤ 6) : ∃ s, utName k = some s := by
  have : k = 1 ∨ k = 2 ∨ k = 3 ∨ k = 4 ∨ k = 5 ∨ k = 6 := by omega
  rcases this with rfl | rfl | rfl | rfl | rfl | rfl <;> exact ⟨_, rfl⟩

theorem getNat_v5_asz (ul ver : Nat) (name : String) (asz ao utype id8 to : Nat) :
    (v5HdrVal ul ver name asz ao utype id8 to).getNat "address_size" = .ok asz := by
  unfold v5HdrVal
  rw [getNat_skip _ _ _ _ (by decide), getNat_skip _ _ _ _ (by decide), getNat_skip _ _ _ _ (by decide), getNat_hit]

theorem getNat_v5_version (ul ver : Nat) (name : String) (asz ao utype id8 to : Nat) :
    (v5HdrVal ul ver name asz ao utype id8 to).getNat "version" = .ok ver := by
  unfold v5HdrVal
  rw [getNat_skip _ _ _ _ (by decide), getNat_hit]

/-- `_parse_CU_at_offset` on an encoded DWARF 5 unit: all six unit types, both DWARF formats -/
theorem parseCU_encoded5 {enumDecode : String → Int → Option String} {le : Bool} {dasz off : Nat} {data rest : Bytes}
    {u : InfoUnit} (hUT : ∀ k : Nat, 1 ≤ k → k ≤ 6 → enumDecode "ENUM_DW_UT" k = utName k)
    (hwf : wfUnit le u = true) (h5 : ¬ u.version < 5) (hd : data.drop off = encUnit le u ++ rest) :
    specP enumDecode le dasz data off = .ok (cuOf le off u) := by
  obtain ⟨hv5, hasz, hao, hid, hto, hu1, hu6, hul⟩ := wfUnit_v5 hwf h5
  obtain ⟨name, hut⟩ := utName_some hu1 hu6
  have hname := hUT u.utype hu1 hu6
  rw [hut] at hname
  have hasz' : u.asz < 256 ^ 1 := by rcases hasz with h | h <;> omega
  have hne : ¬ (u.asz ≠ 8 ∧ u.asz ≠ 4) := by rcases hasz with h | h <;> omega
  have hos : u.offSize = if u.fmt64 then 8 else 4 := rfl
  rw [hos] at hao hto
  have hrest : unitHdrRest le u = encNat le 2 u.version ++ (encNat le 1 u.utype ++ (encNat le 1 u.asz ++
      (encNat le (if u.fmt64 then 8 else 4) u.abbrevOff ++ v5ExtraBytes le (if u.fmt64 then 8 else 4) u.utype u.id8 u.typeOff))) := by
    simp only [unitHdrRest, h5, if_false, hos, v5ExtraBytes]
  have hd0 : data.drop off = encInitialLength le u.fmt64 (unitLength le u) ++ (encNat le 2 u.version ++
      (encNat le 1 u.utype ++ (encNat le 1 u.asz ++ (encNat le (if u.fmt64 then 8 else 4) u.abbrevOff ++
        (v5ExtraBytes le (if u.fmt64 then 8 else 4) u.utype u.id8 u.typeOff ++ (u.body ++ rest)))))) := by
    rw [hd, encUnit, hrest]; simp [List.append_assoc]
  have hil : ∃ il, parseNat { enumDecode := enumDecode, forms := (Spec.dwarfStructs ⟨le, 32, dasz, 2⟩).form }
        (Spec.dwarfStructs ⟨le, 32, dasz, 2⟩).the_Dwarf_uint32 data off = .ok (il, off + 4)
        ∧ (il = 0xFFFFFFFF ↔ u.fmt64 = true) := by
    have e : (Spec.dwarfStructs ⟨le, 32, dasz, 2⟩).the_Dwarf_uint32 = .uint 4 le := rfl
    rw [e]
    cases hf : u.fmt64 with
    | false =>
      rw [hf] at hul hd0
      simp only [Bool.false_eq_true, if_false] at hul
      refine ⟨unitLength le u, parseNat_uint (by rw [hd0]; simp [encInitialLength]; rfl) (by omega), ?_⟩
      constructor
      · intro h; omega
      · intro h; cases h
    | true =>
      rw [hf] at hd0
      refine ⟨0xFFFFFFFF, parseNat_uint (rest := _) (by rw [hd0]; simp [encInitialLength]; rfl) (by decide), ?_⟩
      simp
  obtain ⟨il, hil1, hil2⟩ := hil
  have hhdr := cu_header_parse5
    (env := ⟨enumDecode, (Spec.dwarfStructs ⟨le, (if u.fmt64 then 64 else 32), 4, 2⟩).form⟩) (le := le) u.fmt64
    (ul := unitLength le u) (rest := u.body ++ rest) hname hut (by omega) (by omega) hasz' hao hid hto hul hd0
  have hcon : (Spec.dwarfStructs ⟨le, (if u.fmt64 then 64 else 32), 4, 2⟩).Dwarf_CU_header
      = cuHeaderCon le (if u.fmt64 then 8 else 4) := by
    rw [cu_header_eq]; cases u.fmt64 <;> rfl
  have hfmt : (if il = 0xFFFFFFFF then 64 else 32) = if u.fmt64 then 64 else 32 := by
    cases hf : u.fmt64
    · have : ¬ il = 0xFFFFFFFF := fun h => by have := hil2.1 h; rw [hf] at this; cases this
      simp [this]
    · have : il = 0xFFFFFFFF := hil2.2 hf
      simp [this]
  have hvv : 2 ≤ u.version ∧ u.version ≤ 5 := by omega
  unfold specP parseCUAtOffset
  simp only [hil1, bind, Except.bind, hfmt, hcon, hhdr, getNat_v5_asz, getNat_v5_version, hne, hvv, not_true_eq_false,
    and_self, if_false, pure, Except.pure]
  have hlen : (unitHdrRest le u).length = 2 + 1 + 1 + (if u.fmt64 then 8 else 4)
      + (v5ExtraBytes le (if u.fmt64 then 8 else 4) u.utype u.id8 u.typeOff).length := by
    rw [hrest]; simp only [List.length_append, encNat_length]; omega
  simp only [cuOf, unitHdrVal, h5, if_false, hut, v5HdrVal, v5Extra, InfoUnit.fmt, InfoUnit.ilSize, hlen]
  congr 2
  generalize (v5ExtraBytes le (if u.fmt64 then 8 else 4) u.utype u.id8 u.typeOff).length = X
  cases u.fmt64 <;> simp <;> omega

/-- `_parse_CU_at_offset` on an encoded unit of any supported version (2–5), any unit type, both formats -/
theorem parseCU_encoded_all {enumDecode : String → Int → Option String} {le : Bool} {dasz off : Nat} {data rest : Bytes}
    {u : InfoUnit} (hUT : ∀ k : Nat, 1 ≤ k → k ≤ 6 → enumDecode "ENUM_DW_UT" k = utName k)
    (hwf : wfUnit le u = true) (hd : data.drop off = encUnit le u ++ rest) :
    specP enumDecode le dasz data off = .ok (cuOf le off u) := by
  by_cases h5 : u.version < 5
  · exact parseCU_encoded hwf h5 hd
  · exact parseCU_encoded5 hUT hwf h5 hd

/-- `CompileUnit.size` of the unit object: the unit's declared length plus its initial-length field -/
theorem cuOf_size_all {le : Bool} {off : Nat} {u : InfoUnit} : (cuOf le off u).size = .ok (unitSize le u) := by
  by_cases h5 : u.version < 5
  · exact cuOf_size h5
  · unfold CU.size cuOf unitHdrVal
    simp only [h5, if_false]
    rw [List.cons_append, getNat_hit]
    cases hf : u.fmt64 <;>
      simp [bind, Except.bind, pure, Except.pure, initialLengthFieldSize, InfoUnit.fmt, unitSize, InfoUnit.ilSize, hf,
        Nat.add_comm]

/-- an encoded sequence of units of mixed versions 2–5 is a chain for the model's parser
    (C13's `chain_encoded` without the version restriction) -/
theorem chain_encoded_all {enumDecode : String → Int → Option String} {le : Bool} {dasz size : Nat} {data : Bytes}
    (hUT : ∀ k : Nat, 1 ≤ k → k ≤ 6 → enumDecode "ENUM_DW_UT" k = utName k) :
    ∀ (us : List InfoUnit) (off : Nat), (∀ u ∈ us, wfUnit le u = true) →
      data.drop off = encUnits le us → off + (encUnits le us).length = size →
      Chain (specP enumDecode le dasz data) size off (cusOf le off us) := by
  intro us
  induction us with
  | nil => intro off _ _ hsz; simpa [Chain, cusOf, encUnits] using hsz
  | cons u us ih =>
    intro off hwf hd hsz
    have hcons : encUnits le (u :: us) = encUnit le u ++ encUnits le us := by simp [encUnits]
    have hw := hwf u List.mem_cons_self
    rw [hcons] at hd hsz
    rw [List.length_append, encUnit_length] at hsz
    have hpos := unitSize_pos le u
    refine ⟨by omega, parseCU_encoded_all hUT hw hd, unitSize le u, cuOf_size_all, hpos, ?_⟩
    apply ih (off + unitSize le u) (fun x hx => hwf x (List.mem_cons_of_mem _ hx))
    · rw [← encUnit_length le u]; exact drop_add_of_drop hd
    · omega

/-! ### type units of `.debug_types` -/

/-- the unit object the library must build for a type unit at section offset `off` -/
def tuOf (le : Bool) (off : Nat) (h : TUHeader) (body : Bytes) : CU :=
  ⟨tuHdrVal le h body, if h.fmt64 then 64 else 32, off, off + h.ilSize + (tuHdrRest le h).length⟩

theorem tuHdrRest_length (le : Bool) (h : TUHeader) : (tuHdrRest le h).length = 2 + h.offSize + 1 + 8 + h.offSize := by
  simp only [tuHdrRest, List.length_append, encNat_length]; omega

theorem tu_header_parse {env : Env} {data : Bytes} {off : Nat} {le : Bool} (fmt64 : Bool)
    {ul ver ao asz sig to : Nat} {rest : Bytes}
    (hver : ver < 256 ^ 2) (hasz : asz < 256 ^ 1) (hao : ao < 256 ^ (if fmt64 then 8 else 4))
    (hsig : sig < 256 ^ 8) (hto : to < 256 ^ (if fmt64 then 8 else 4))
    (hul : if fmt64 then ul < 256 ^ 8 else ul < 0xFFFFFF00)
    (hd : data.drop off = encInitialLength le fmt64 ul ++ (encNat le 2 ver ++ (encNat le (if fmt64 then 8 else 4) ao ++
            (encNat le 1 asz ++ (encNat le 8 sig ++ (encNat le (if fmt64 then 8 else 4) to ++ rest)))))) :
    structParse env (tuHeaderCon le (if fmt64 then 8 else 4)) data off
      = .ok (.record [("unit_length", .int ul), ("version", .int ver), ("debug_abbrev_offset", .int ao),
                      ("address_size", .int asz), ("signature", .int sig), ("type_offset", .int to)],
             off + (if fmt64 then 12 else 4) + 2 + (if fmt64 then 8 else 4) + 1 + 8 + (if fmt64 then 8 else 4)) := by
  cases fmt64 with
  | false =>
    simp only [Bool.false_eq_true, if_false] at *
    have hd0 : data.drop off = encNat le 4 ul ++ (encNat le 2 ver ++ (encNat le 4 ao ++ (encNat le 1 asz ++
        (encNat le 8 sig ++ (encNat le 4 to ++ rest))))) := by
      rw [hd]; simp [encInitialLength]
    have h1 := drop_add_of_drop hd0
    have h2 := drop_add_of_drop h1
    have h3 := drop_add_of_drop h2
    have h4 := drop_add_of_drop h3
    have h5 := drop_add_of_drop h4
    simp only [encNat_length] at h1 h2 h3 h4 h5
    have e0 : decNat le (encNat le 4 ul) = ul := decNat_encNat_of_lt le (by omega)
    unfold structParse tuHeaderCon tuTail
    rw [Con.parse, parseFields_initlen32 hd0 (encNat_length le 4 ul) (by rw [e0]; exact hul),
      parseFields_uint h1 (encNat_length le 2 ver), parseFields_uint h2 (encNat_length le 4 ao),
      parseFields_uint h3 (encNat_length le 1 asz), parseFields_uint h4 (encNat_length le 8 sig),
      parseFields_uint h5 (encNat_length le 4 to), e0, decNat_encNat_of_lt le hver, decNat_encNat_of_lt le hao,
      decNat_encNat_of_lt le hasz, decNat_encNat_of_lt le hsig, decNat_encNat_of_lt le hto]
    simp [Con.parseFields, bind, Except.bind, pure, Except.pure, Fields.set]
  | true =>
    simp only [if_true] at *
    have hd0 : data.drop off = encNat le 4 0xFFFFFFFF ++ (encNat le 8 ul ++ (encNat le 2 ver ++ (encNat le 8 ao ++
        (encNat le 1 asz ++ (encNat le 8 sig ++ (encNat le 8 to ++ rest)))))) := by
      rw [hd]; simp [encInitialLength]
    have h1 := drop_add_of_drop hd0
    have h2 := drop_add_of_drop h1
    simp only [encNat_length] at h1 h2
    have h2' : data.drop (off + 12) = encNat le 2 ver ++ (encNat le 8 ao ++
        (encNat le 1 asz ++ (encNat le 8 sig ++ (encNat le 8 to ++ rest)))) := h2
    have h3 := drop_add_of_drop h2'
    have h4 := drop_add_of_drop h3
    have h5 := drop_add_of_drop h4
    have h6 := drop_add_of_drop h5
    simp only [encNat_length] at h3 h4 h5 h6
    unfold structParse tuHeaderCon tuTail
    rw [Con.parse, parseFields_initlen64 hd0 (encNat_length le 4 _) (encNat_length le 8 ul)
        (decNat_encNat_of_lt le (by decide)),
      parseFields_uint h2' (encNat_length le 2 ver), parseFields_uint h3 (encNat_length le 8 ao),
      parseFields_uint h4 (encNat_length le 1 asz), parseFields_uint h5 (encNat_length le 8 sig),
      parseFields_uint h6 (encNat_length le 8 to), decNat_encNat_of_lt le hul, decNat_encNat_of_lt le hver,
      decNat_encNat_of_lt le hao, decNat_encNat_of_lt le hasz, decNat_encNat_of_lt le hsig, decNat_encNat_of_lt le hto]
    simp [Con.parseFields, bind, Except.bind, pure, Except.pure, Fields.set]

/-- the model's `_parse_TU_at_offset` with the Spec bundles -/
abbrev specTU (enumDecode : String → Int → Option String) (le : Bool) (dasz : Nat) (data : Bytes) : Nat → R CU :=
  parseTUAtOffset enumDecode (fun c => some (Spec.dwarfStructs c)) (Spec.dwarfStructs ⟨le, 32, dasz, 2⟩) le data

/-- `_parse_TU_at_offset` on an encoded type unit (DWARF 4 `.debug_types`), both formats -/
theorem parseTU_encoded {enumDecode : String → Int → Option String} {le : Bool} {dasz off : Nat} {data rest : Bytes}
    {h : TUHeader} {body : Bytes} (hwf : wfTU le h body = true) (hd : data.drop off = encTU le h body ++ rest) :
    specTU enumDecode le dasz data off = .ok (tuOf le off h body) := by
  unfold wfTU at hwf
  simp only [Bool.and_eq_true, decide_eq_true_eq, Bool.or_eq_true, beq_iff_eq] at hwf
  obtain ⟨⟨⟨⟨⟨⟨hv2, hv5⟩, hasz⟩, hao⟩, hsig⟩, hto⟩, hul0⟩ := hwf
  have hul : if h.fmt64 then (tuHdrRest le h).length + body.length < 256 ^ 8
      else (tuHdrRest le h).length + body.length < 0xFFFFFF00 := by
    cases hf : h.fmt64 <;> simp [hf] at hul0 ⊢ <;> exact hul0
  have hasz' : h.asz < 256 ^ 1 := by rcases hasz with e | e <;> omega
  have hne : ¬ (h.asz ≠ 8 ∧ h.asz ≠ 4) := by rcases hasz with e | e <;> omega
  have hos : h.offSize = if h.fmt64 then 8 else 4 := rfl
  rw [hos] at hao hto
  have hd0 : data.drop off = encInitialLength le h.fmt64 ((tuHdrRest le h).length + body.length) ++
      (encNat le 2 h.version ++ (encNat le (if h.fmt64 then 8 else 4) h.abbrevOff ++ (encNat le 1 h.asz ++
        (encNat le 8 h.signature ++ (encNat le (if h.fmt64 then 8 else 4) h.typeOff ++ (body ++ rest)))))) := by
    rw [hd, encTU]; simp [tuHdrRest, hos, List.append_assoc]
  have hil : ∃ il, parseNat { enumDecode := enumDecode, forms := (Spec.dwarfStructs ⟨le, 32, dasz, 2⟩).form }
        (Spec.dwarfStructs ⟨le, 32, dasz, 2⟩).the_Dwarf_uint32 data off = .ok (il, off + 4)
        ∧ (il = 0xFFFFFFFF ↔ h.fmt64 = true) := by
    have e : (Spec.dwarfStructs ⟨le, 32, dasz, 2⟩).the_Dwarf_uint32 = .uint 4 le := rfl
    rw [e]
    cases hf : h.fmt64 with
    | false =>
      rw [hf] at hul hd0
      simp only [Bool.false_eq_true, if_false] at hul
      refine ⟨_, parseNat_uint (by rw [hd0]; simp [encInitialLength]; rfl) (by omega), ?_⟩
      constructor
      · intro e'; omega
      · intro e'; cases e'
    | true =>
      rw [hf] at hd0
      refine ⟨0xFFFFFFFF, parseNat_uint (rest := _) (by rw [hd0]; simp [encInitialLength]; rfl) (by decide), ?_⟩
      simp
  obtain ⟨il, hil1, hil2⟩ := hil
  have hhdr := tu_header_parse
    (env := ⟨enumDecode, (Spec.dwarfStructs ⟨le, (if h.fmt64 then 64 else 32), 4, 2⟩).form⟩) (le := le) h.fmt64
    (rest := body ++ rest) (show h.version < 256 ^ 2 by omega) hasz' hao hsig hto hul hd0
  have hcon : (Spec.dwarfStructs ⟨le, (if h.fmt64 then 64 else 32), 4, 2⟩).Dwarf_TU_header
      = tuHeaderCon le (if h.fmt64 then 8 else 4) := by
    rw [tu_header_eq]; cases h.fmt64 <;> rfl
  have hfmt : (if il = 0xFFFFFFFF then 64 else 32) = if h.fmt64 then 64 else 32 := by
    cases hf : h.fmt64
    · have : ¬ il = 0xFFFFFFFF := fun e => by have := hil2.1 e; rw [hf] at this; cases this
      simp [this]
    · have : il = 0xFFFFFFFF := hil2.2 hf
      simp [this]
  have hvv : 2 ≤ h.version ∧ h.version ≤ 5 := ⟨hv2, hv5⟩
  have g1 : ∀ (a b c e f : Val), (Val.record [("unit_length", a), ("version", b), ("debug_abbrev_offset", c),
      ("address_size", .int (h.asz : Int)), ("signature", e), ("type_offset", f)]).getNat "address_size" = .ok h.asz := by
    intro a b c e f
    rw [getNat_skip _ _ _ _ (by decide), getNat_skip _ _ _ _ (by decide), getNat_skip _ _ _ _ (by decide), getNat_hit]
  have g2 : ∀ (a c d e f : Val), (Val.record [("unit_length", a), ("version", .int (h.version : Int)),
      ("debug_abbrev_offset", c), ("address_size", d), ("signature", e), ("type_offset", f)]).getNat "version"
        = .ok h.version := by
    intro a c d e f
    rw [getNat_skip _ _ _ _ (by decide), getNat_hit]
  unfold specTU parseTUAtOffset
  simp only [hil1, bind, Except.bind, hfmt, hcon, hhdr, g1, g2, hne, hvv, not_true_eq_false, and_self, if_false,
    pure, Except.pure]
  simp only [tuOf, tuHdrVal, TUHeader.ilSize, tuHdrRest_length, hos]
  congr 2
  cases h.fmt64 <;> simp <;> omega

theorem tuOf_size (le : Bool) (off : Nat) (h : TUHeader) (body : Bytes) :
    (tuOf le off h body).size = .ok ((encTU le h body).length) := by
  unfold CU.size tuOf tuHdrVal
  simp only [← Int.natCast_add]
  rw [getNat_hit]
  cases hf : h.fmt64 <;>
    simp [bind, Except.bind, pure, Except.pure, initialLengthFieldSize, hf, encTU, encInitialLength, encNat_length] <;> omega

end PyElf.Proofs.C04
