/-
  C20, order-independence of the build-attributes API (Model/AttrHistory.lean):

    * a resumed generator answers the same wherever the shared stream stands (`resume_*`);
    * in ANY history — seeks, other generators created, advanced, drained or abandoned in between,
      other sections of the file — the answers to the `next` calls on a generator are the ones it
      gives when advanced alone (`interleaving_irrelevant`), and they enumerate `list(generator)`
      (`solo_of_collect`);
    * draining the attribute generator is the attribute loop of the nested observation
      (`collect_attrs_eq`), and the LEVELWISE observation (all subsections, then all their
      sub-subsections, then the attributes) returns the tree the nested observation returns
      (`levelwise_of_nested`).
-/
import PyElf.Model.AttrHistory
import PyElf.Proofs.Attrs
namespace PyElf.Proofs.C20
open PyElf PyElf.Model PyElf.Model.C20 PyElf.Model.Attr

section
variable {env : Env} {S : ElfStructs} {data : Bytes}

/-! ### a resumption does not depend on where the stream stands -/

theorem subsecsResume_cases (sec : SecObj) (offset p : Nat) :
    (offset = sec.shOffset + sec.dataSize ∧ ∀ q, subsecsResume env S data sec offset q = .ok (none, q)) ∨
    (∃ x q, ∀ q', subsecsResume env S data sec offset q' = .ok (some x, q)) ∨
    (∃ e, ∀ q', subsecsResume env S data sec offset q' = .error e) := by
  by_cases h : offset = sec.shOffset + sec.dataSize
  · left; exact ⟨h, fun q => by simp [subsecsResume, h]⟩
  · right
    have key : ∀ q', subsecsResume env S data sec offset q' = subsecsResume env S data sec offset p := by
      intro q'; simp only [subsecsResume, if_neg h]
    cases hr : subsecsResume env S data sec offset p with
    | error e => right; exact ⟨e, fun q' => by rw [key, hr]⟩
    | ok r =>
      obtain ⟨o, q⟩ := r
      cases o with
      | none =>
        exfalso
        simp only [subsecsResume, if_neg h, bind, Except.bind, pure, Except.pure] at hr
        repeat (split at hr <;> try cases hr)
      | some x => left; exact ⟨x, q, fun q' => by rw [key, hr]⟩

theorem subsubsResume_cases (ss : SubsecObj) (offset p : Nat) :
    (offset = ss.offset + ss.length ∧ ∀ q, subsubsResume env S data ss offset q = .ok (none, q)) ∨
    (∃ x q, ∀ q', subsubsResume env S data ss offset q' = .ok (some x, q)) ∨
    (∃ e, ∀ q', subsubsResume env S data ss offset q' = .error e) := by
  by_cases h : offset = ss.offset + ss.length
  · left; exact ⟨h, fun q => by simp [subsubsResume, h]⟩
  · right
    have key : ∀ q', subsubsResume env S data ss offset q' = subsubsResume env S data ss offset p := by
      intro q'; simp only [subsubsResume, if_neg h]
    cases hr : subsubsResume env S data ss offset p with
    | error e => right; exact ⟨e, fun q' => by rw [key, hr]⟩
    | ok r =>
      obtain ⟨o, q⟩ := r
      cases o with
      | none =>
        exfalso
        simp only [subsubsResume, if_neg h, bind, Except.bind, pure, Except.pure] at hr
        repeat (split at hr <;> try cases hr)
      | some x => left; exact ⟨x, q, fun q' => by rw [key, hr]⟩

theorem attrsResume_cases (sss : SubsubObj) (offset p : Nat) :
    (∀ q, attrsResume env S data sss offset q = .ok (none, q)) ∨
    (∃ x q, ∀ q', attrsResume env S data sss offset q' = .ok (some x, q)) ∨
    (∃ e, ∀ q', attrsResume env S data sss offset q' = .error e) := by
  cases hv : sss.header.value.asNat with
  | error e => right; right; exact ⟨e, fun q' => by simp [attrsResume, hv, bind, Except.bind]⟩
  | ok v =>
    by_cases h : offset = sss.offset + v
    · left; intro q; simp [attrsResume, hv, bind, Except.bind, h, pure, Except.pure]
    · right
      have key : ∀ q', attrsResume env S data sss offset q' = attrsResume env S data sss offset p := by
        intro q'; simp only [attrsResume, hv, bind, Except.bind, if_neg h]
      cases hr : attrsResume env S data sss offset p with
      | error e => right; exact ⟨e, fun q' => by rw [key, hr]⟩
      | ok r =>
        obtain ⟨o, q⟩ := r
        cases o with
        | none =>
          exfalso
          simp only [attrsResume, hv, if_neg h, bind, Except.bind, pure, Except.pure] at hr
          repeat (split at hr <;> try cases hr)
        | some x => left; exact ⟨x, q, fun q' => by rw [key, hr]⟩

/-- the three ways a resumption can go, each uniformly in the incoming stream position:
    StopIteration (stream untouched), an item (stream left at a position that depends on the
    generator only), an exception -/
theorem resume_cases (g : Gen) :
    (∀ q, Gen.resume env S data g q = .ok (none, q)) ∨
    (∃ x q, ∀ q', Gen.resume env S data g q' = .ok (some x, q)) ∨
    (∃ e, ∀ q', Gen.resume env S data g q' = .error e) := by
  cases g with
  | subsecs o offset =>
    rcases subsecsResume_cases (env := env) (S := S) (data := data) o offset 0 with ⟨-, h⟩ | ⟨x, q, h⟩ | ⟨e, h⟩
    · left; intro q; simp [Gen.resume, h, bind, Except.bind, pure, Except.pure]
    · right; left; exact ⟨_, q, fun q' => by simp [Gen.resume, h, bind, Except.bind, pure, Except.pure]; rfl⟩
    · right; right; exact ⟨e, fun q' => by simp [Gen.resume, h, bind, Except.bind]⟩
  | subsubs o offset =>
    rcases subsubsResume_cases (env := env) (S := S) (data := data) o offset 0 with ⟨-, h⟩ | ⟨x, q, h⟩ | ⟨e, h⟩
    · left; intro q; simp [Gen.resume, h, bind, Except.bind, pure, Except.pure]
    · right; left; exact ⟨_, q, fun q' => by simp [Gen.resume, h, bind, Except.bind, pure, Except.pure]; rfl⟩
    · right; right; exact ⟨e, fun q' => by simp [Gen.resume, h, bind, Except.bind]⟩
  | attrs o offset =>
    rcases attrsResume_cases (env := env) (S := S) (data := data) o offset 0 with h | ⟨x, q, h⟩ | ⟨e, h⟩
    · left; intro q; simp [Gen.resume, h, bind, Except.bind, pure, Except.pure]
    · right; left; exact ⟨_, q, fun q' => by simp [Gen.resume, h, bind, Except.bind, pure, Except.pure]; rfl⟩
    · right; right; exact ⟨e, fun q' => by simp [Gen.resume, h, bind, Except.bind]⟩
  | done => left; intro q; rfl

/-- what `next(generator)` answers and what the generator is afterwards — a function of the
    generator alone -/
def nextAns (env : Env) (S : ElfStructs) (data : Bytes) (gen : Gen) : Ans × Gen :=
  match Gen.resume env S data gen 0 with
  | .ok (none, _) => (.stop, .done)
  | .ok (some (x, g'), _) => (.item x, g')
  | .error e => (.err e, .done)

/-- `next` on handle `g` in ANY state: the answer and the new generator are `nextAns` of the
    generator, whatever the stream position and the other handles -/
theorem step_next {fuel : Nat} {st : HState} {g : Nat} {gen : Gen} (hg : st.gens[g]? = some gen) :
    (step env S data fuel st (.next g)).1 = (nextAns env S data gen).1 ∧
    (step env S data fuel st (.next g)).2.gens = st.gens.set g (nextAns env S data gen).2 := by
  unfold step nextAns
  simp only [hg]
  rcases resume_cases (env := env) (S := S) (data := data) gen with h | ⟨x, q, h⟩ | ⟨e, h⟩
  · simp [h]
  · obtain ⟨x1, x2⟩ := x; simp [h]
  · simp [h]

theorem listOf_gens (fuel : Nat) (st : HState) (gen : Gen) :
    (listOf env S data fuel st gen).2.gens = st.gens := by
  unfold listOf
  split <;> rfl

/-- every other call leaves the generator behind handle `g` as it is -/
theorem step_other {fuel : Nat} {st : HState} {g : Nat} {gen : Gen} (hg : st.gens[g]? = some gen)
    {op : Op} (hop : op.isNext g = false) :
    (step env S data fuel st op).2.gens[g]? = some gen := by
  have hlt : g < st.gens.length := (List.getElem?_eq_some_iff.1 hg).1
  cases op with
  | seek n => exact hg
  | openSec arch off size => simp only [step]; split <;> exact hg
  | iterSubsecs o => simp only [step, newGen]; rw [List.getElem?_append_left hlt]; exact hg
  | iterSubsubs o => simp only [step, newGen]; rw [List.getElem?_append_left hlt]; exact hg
  | iterAttrs o => simp only [step, newGen]; rw [List.getElem?_append_left hlt]; exact hg
  | next g' =>
    have hne : g' ≠ g := by simpa [Op.isNext] using hop
    simp only [step]
    cases hg' : st.gens[g']? with
    | none => exact hg
    | some gen' =>
      simp only
      split
      · simp only [List.getElem?_set_ne hne]; exact hg
      · simp only [List.getElem?_set_ne hne]; exact hg
      · simp only [List.getElem?_set_ne hne]; exact hg
  | listSubsecs o => simp only [step, listOf_gens]; exact hg
  | listSubsubs o => simp only [step, listOf_gens]; exact hg
  | listAttrs o => simp only [step, listOf_gens]; exact hg

/-- the answers to the `next(g)` calls of a history, in order -/
def nextAnswers (env : Env) (S : ElfStructs) (data : Bytes) (g fuel : Nat) : HState → List Op → List Ans
  | _, [] => []
  | st, op :: ops =>
    let r := step env S data fuel st op
    if op.isNext g then r.1 :: nextAnswers env S data g fuel r.2 ops else nextAnswers env S data g fuel r.2 ops

/-- what a generator answers to `n` successive `next`s with nothing in between -/
def soloAnswers (env : Env) (S : ElfStructs) (data : Bytes) : Gen → Nat → List Ans
  | _, 0 => []
  | gen, n+1 => (nextAns env S data gen).1 :: soloAnswers env S data (nextAns env S data gen).2 n

/-- ORDER-INDEPENDENCE.  In any state in which handle `g` holds the generator `gen`, and for ANY
    history `ops` — repositioning of the shared stream, creation / advancing / draining / abandoning
    of other generators of this or another section of the file, section constructors — the answers to
    the `next(g)` calls are exactly what `gen` answers when it is advanced alone. -/
theorem interleaving_irrelevant (fuel g : Nat) : ∀ (ops : List Op) (st : HState) (gen : Gen),
    st.gens[g]? = some gen →
    nextAnswers env S data g fuel st ops = soloAnswers env S data gen (ops.countP (Op.isNext g)) := by
  intro ops
  induction ops with
  | nil => intro st gen _; rfl
  | cons op ops ih =>
    intro st gen hg
    by_cases hop : op.isNext g = true
    · have hopg : op = .next g := by
        cases op <;> simp [Op.isNext] at hop
        rw [hop]
      subst hopg
      obtain ⟨h1, h2⟩ := step_next (env := env) (S := S) (data := data) (fuel := fuel) hg
      have hlt : g < st.gens.length := (List.getElem?_eq_some_iff.1 hg).1
      have hg' : (step env S data fuel st (.next g)).2.gens[g]? = some (nextAns env S data gen).2 := by
        rw [h2, List.getElem?_set_self hlt]
      simp only [nextAnswers, hop, if_true, List.countP_cons_of_pos hop, soloAnswers, h1]
      rw [ih _ _ hg']
    · have hop' : op.isNext g = false := by simpa using hop
      simp only [nextAnswers, hop', Bool.false_eq_true, if_false, List.countP_cons_of_neg hop]
      exact ih _ _ (step_other hg hop')

/-- the same for the two states reached by two different histories: answers do not depend on the
    history, only on how often the generator itself was advanced -/
theorem answers_independent_of_history (fuel g : Nat) (st st' : HState) (gen : Gen)
    (hg : st.gens[g]? = some gen) (hg' : st'.gens[g]? = some gen) (ops ops' : List Op)
    (hc : ops.countP (Op.isNext g) = ops'.countP (Op.isNext g)) :
    nextAnswers env S data g fuel st ops = nextAnswers env S data g fuel st' ops' := by
  rw [interleaving_irrelevant fuel g ops st gen hg, interleaving_irrelevant fuel g ops' st' gen hg', hc]

/-! ### advancing alone enumerates `list(generator)` -/

theorem nextAns_done : nextAns env S data .done = (.stop, .done) := rfl

theorem solo_done : ∀ n, soloAnswers env S data .done n = List.replicate n .stop := by
  intro n
  induction n with
  | zero => rfl
  | succ n ih => simp [soloAnswers, nextAns_done, ih, List.replicate_succ]

/-- if draining `gen` gives `xs`, then advancing it alone answers the items of `xs` in order, then
    StopIteration for ever -/
theorem solo_of_collect : ∀ (fuel : Nat) (gen : Gen) (pos : Nat) (acc xs : List Item) (q : Nat),
    Gen.collect env S data fuel gen pos acc = .ok (xs, q) →
    ∃ ys, xs = acc.reverse ++ ys ∧
      ∀ k, soloAnswers env S data gen (ys.length + k) = ys.map .item ++ List.replicate k .stop := by
  intro fuel
  induction fuel with
  | zero => intro gen pos acc xs q h; simp [Gen.collect] at h
  | succ fuel ih =>
    intro gen pos acc xs q h
    rw [Gen.collect] at h
    rcases resume_cases (env := env) (S := S) (data := data) gen with hr | ⟨x, p, hr⟩ | ⟨e, hr⟩
    · simp only [hr, bind, Except.bind, pure, Except.pure, Except.ok.injEq, Prod.mk.injEq] at h
      refine ⟨[], by simp [h.1], ?_⟩
      intro k
      have hna : nextAns env S data gen = (.stop, .done) := by simp [nextAns, hr]
      cases k with
      | zero => rfl
      | succ k => simp [soloAnswers, hna, solo_done, List.replicate_succ]
    · obtain ⟨x1, g'⟩ := x
      simp only [hr, bind, Except.bind] at h
      obtain ⟨ys, hxs, hsolo⟩ := ih g' p (x1 :: acc) xs q h
      refine ⟨x1 :: ys, by simp [hxs], ?_⟩
      intro k
      have hna : nextAns env S data gen = (.item x1, g') := by simp [nextAns, hr]
      rw [show (x1 :: ys).length + k = (ys.length + k) + 1 by simp; omega]
      simp [soloAnswers, hna, hsolo]
    · simp [hr, bind, Except.bind] at h

/-! ### draining the attribute generator is the attribute loop of the nested observation -/

theorem collect_attrs_of_loop (sss : SubsubObj) (hv : Nat) (hhv : sss.header.value.asNat = .ok hv) :
    ∀ (fuel off pos : Nat) (acc : List Item) (L : List Val),
      attributesLoop (attributeAt sss.arch env S data) (sss.offset + hv) fuel off (acc.map itemVal) = .ok L →
      ∃ xs q, Gen.collect env S data (fuel + 1) (.attrs sss off) pos acc = .ok (xs, q) ∧ xs.map itemVal = L := by
  intro fuel
  induction fuel with
  | zero =>
    intro off pos acc L h
    by_cases hc : off = sss.offset + hv
    · simp only [attributesLoop, hc, if_true, Except.ok.injEq] at h
      refine ⟨acc.reverse, pos, ?_, by rw [← h]; simp⟩
      simp [Gen.collect, Gen.resume, attrsResume, hhv, hc, bind, Except.bind, pure, Except.pure]
    · simp [attributesLoop, hc] at h
  | succ fuel ih =>
    intro off pos acc L h
    by_cases hc : off = sss.offset + hv
    · simp only [attributesLoop, hc, if_true, Except.ok.injEq] at h
      refine ⟨acc.reverse, pos, ?_, by rw [← h]; simp⟩
      rw [Gen.collect]
      simp [Gen.resume, attrsResume, hhv, hc, bind, Except.bind, pure, Except.pure]
    · rw [attributesLoop, if_neg hc] at h
      cases hr : attributeAt sss.arch env S data off with
      | error e => simp [hr, bind, Except.bind] at h
      | ok r =>
        obtain ⟨a, p⟩ := r
        simp only [hr, bind, Except.bind] at h
        obtain ⟨xs, q, hcol, hxs⟩ := ih p p (.attr a.toVal :: acc) L (by simpa [itemVal] using h)
        refine ⟨xs, q, ?_, hxs⟩
        rw [Gen.collect]
        simp only [Gen.resume, attrsResume, hhv, hc, bind, Except.bind, pure, Except.pure, if_false, hr,
          Option.map_some]
        exact hcol

/-! ### the levelwise observation returns the tree the nested observation returns -/

theorem subsubs_of_loop (ss : SubsecObj) :
    ∀ (fuel offset : Nat) (acc L : List Val),
      subsubLoop (attributeAt ss.arch env S data) data.length (ss.offset + ss.length) fuel offset acc = .ok L →
      ∃ xs Ls, L = acc.reverse ++ Ls ∧
        (∀ pos accI, ∃ q, Gen.collect env S data (fuel + 1) (.subsubs ss offset) pos accI = .ok (accI.reverse ++ xs, q)) ∧
        (∀ p accV, ∃ q, attrsOf env S data (data.length + 3) xs p accV = .ok (accV.reverse ++ Ls, q)) := by
  intro fuel
  induction fuel with
  | zero =>
    intro offset acc L h
    by_cases hc : offset = ss.offset + ss.length
    · simp only [subsubLoop, hc, if_true, Except.ok.injEq] at h
      refine ⟨[], [], by simp [h], ?_, ?_⟩
      · intro pos accI
        exact ⟨pos, by simp [Gen.collect, Gen.resume, subsubsResume, hc, bind, Except.bind, pure, Except.pure]⟩
      · intro p accV; exact ⟨p, by simp [attrsOf]⟩
    · simp [subsubLoop, hc] at h
  | succ fuel ih =>
    intro offset acc L h
    by_cases hc : offset = ss.offset + ss.length
    · simp only [subsubLoop, hc, if_true, Except.ok.injEq] at h
      refine ⟨[], [], by simp [h], ?_, ?_⟩
      · intro pos accI
        refine ⟨pos, ?_⟩
        rw [Gen.collect]
        simp [Gen.resume, subsubsResume, hc, bind, Except.bind, pure, Except.pure]
      · intro p accV; exact ⟨p, by simp [attrsOf]⟩
    · rw [subsubLoop, if_neg hc] at h
      cases hr : attributeAt ss.arch env S data offset with
      | error e => simp [hr, bind, Except.bind] at h
      | ok r =>
        obtain ⟨hdr, attrStart⟩ := r
        cases hhv : hdr.value.asNat with
        | error e => simp [hr, hhv, bind, Except.bind] at h
        | ok hv =>
          cases hal : attributesLoop (attributeAt ss.arch env S data) (offset + hv) (data.length + 2) attrStart [] with
          | error e => simp [hr, hhv, hal, bind, Except.bind] at h
          | ok attrsL =>
            simp only [hr, hhv, hal, bind, Except.bind] at h
            obtain ⟨xs', Ls', hL, hcol, hao⟩ := ih _ _ _ h
            let o : SubsubObj := { arch := ss.arch, offset, header := hdr, attrStart }
            refine ⟨.subsub o :: xs', Val.record [("tag", hdr.tag), ("value", hdr.value), ("extra", hdr.extra),
              ("attributes", .list attrsL)] :: Ls', by rw [hL]; simp, ?_, ?_⟩
            · intro pos accI
              obtain ⟨q, hq⟩ := hcol attrStart (.subsub o :: accI)
              refine ⟨q, ?_⟩
              rw [Gen.collect]
              simp only [Gen.resume, subsubsResume, if_neg hc, hr, hhv, bind, Except.bind, pure, Except.pure,
                Option.map_some]
              rw [hq]; simp
            · intro p accV
              obtain ⟨ys, q1, hc1, hys⟩ := collect_attrs_of_loop (env := env) (S := S) (data := data) o hv hhv
                (data.length + 2) attrStart p [] attrsL (by simpa using hal)
              obtain ⟨q2, hq2⟩ := hao q1 (Val.record [("tag", hdr.tag), ("value", hdr.value), ("extra", hdr.extra),
                ("attributes", .list attrsL)] :: accV)
              have hc1' : Gen.collect env S data (data.length + 3) (.attrs o o.attrStart) p [] = .ok (ys, q1) := hc1
              refine ⟨q2, ?_⟩
              rw [attrsOf]
              simp only [bind, Except.bind, hc1', hys]
              show attrsOf env S data (data.length + 3) xs' q1 (Val.record [("tag", hdr.tag), ("value", hdr.value),
                ("extra", hdr.extra), ("attributes", .list attrsL)] :: accV) = _
              rw [hq2]; simp

theorem subsecs_of_loop (sec : SecObj) :
    ∀ (fuel offset : Nat) (acc L : List Val),
      subsecLoop sec.arch env S data (sec.shOffset + sec.dataSize) fuel offset acc = .ok L →
      ∃ xs lv2 Ls, L = acc.reverse ++ Ls ∧
        (∀ pos accI, ∃ q, Gen.collect env S data (fuel + 1) (.subsecs sec offset) pos accI = .ok (accI.reverse ++ xs, q)) ∧
        (∀ p acc2, ∃ q, pass2 env S data (data.length + 3) xs p acc2 = .ok (acc2.reverse ++ lv2, q)) ∧
        (∀ p acc3, pass3 env S data (data.length + 3) lv2 p acc3 = .ok (acc3.reverse ++ Ls)) := by
  intro fuel
  induction fuel with
  | zero =>
    intro offset acc L h
    by_cases hc : offset = sec.shOffset + sec.dataSize
    · simp only [subsecLoop, hc, if_true, Except.ok.injEq] at h
      refine ⟨[], [], [], by simp [h], ?_, ?_, ?_⟩
      · intro pos accI
        exact ⟨pos, by simp [Gen.collect, Gen.resume, subsecsResume, hc, bind, Except.bind, pure, Except.pure]⟩
      · intro p acc2; exact ⟨p, by simp [pass2]⟩
      · intro p acc3; simp [pass3]
    · simp [subsecLoop, hc] at h
  | succ fuel ih =>
    intro offset acc L h
    by_cases hc : offset = sec.shOffset + sec.dataSize
    · simp only [subsecLoop, hc, if_true, Except.ok.injEq] at h
      refine ⟨[], [], [], by simp [h], ?_, ?_, ?_⟩
      · intro pos accI
        refine ⟨pos, ?_⟩
        rw [Gen.collect]
        simp [Gen.resume, subsecsResume, hc, bind, Except.bind, pure, Except.pure]
      · intro p acc2; exact ⟨p, by simp [pass2]⟩
      · intro p acc3; simp [pass3]
    · rw [subsecLoop, if_neg hc] at h
      cases hr : structParse env S.Elf_Attr_Subsection_Header data offset with
      | error e => simp [hr, bind, Except.bind] at h
      | ok r =>
        obtain ⟨hd, subStart⟩ := r
        cases hlen : hd.getNat "length" with
        | error e => simp [hr, hlen, bind, Except.bind] at h
        | ok len =>
          cases hvn : hd.getField "vendor_name" with
          | error e => simp [hr, hlen, hvn, bind, Except.bind] at h
          | ok vn =>
            have hvd : ∃ b, vn = .bytes b := by
              cases vn <;> first | exact ⟨_, rfl⟩ | (simp [hr, hlen, hvn, bind, Except.bind] at h)
            obtain ⟨b, rfl⟩ := hvd
            cases hven : decodeNtbs b with
            | error e => simp [hr, hlen, hvn, hven, bind, Except.bind] at h
            | ok vendor =>
              let o : SubsecObj := { arch := sec.arch, offset, length := len, vendor, subsubStart := subStart }
              cases hsl : subsubLoop (attributeAt sec.arch env S data) data.length (offset + len) (data.length + 2)
                  subStart [] with
              | error e => simp [hr, hlen, hvn, hven, hsl, bind, Except.bind] at h
              | ok subs =>
                simp only [hr, hlen, hvn, hven, hsl, bind, Except.bind] at h
                obtain ⟨xs', lv2', Ls', hL, hcol, hp2, hp3⟩ := ih _ _ _ h
                obtain ⟨ys, subsL, hsubs, hcol2, hao⟩ := subsubs_of_loop (env := env) (S := S) (data := data) o
                  (data.length + 2) subStart [] subs hsl
                simp only [List.reverse_nil, List.nil_append] at hsubs
                subst hsubs
                refine ⟨.subsec o :: xs', (o, ys) :: lv2', Val.record [("length", .int len), ("vendor_name", vendor),
                  ("subsubsections", .list subs)] :: Ls', by rw [hL]; simp, ?_, ?_, ?_⟩
                · intro pos accI
                  obtain ⟨q, hq⟩ := hcol subStart (.subsec o :: accI)
                  refine ⟨q, ?_⟩
                  rw [Gen.collect]
                  simp only [Gen.resume, subsecsResume, if_neg hc, hr, hlen, hvn, hven, bind, Except.bind, pure,
                    Except.pure, Option.map_some]
                  rw [hq]; simp
                · intro p acc2
                  obtain ⟨q1, hq1⟩ := hcol2 p []
                  simp only [List.reverse_nil, List.nil_append] at hq1
                  have hq1' : Gen.collect env S data (data.length + 3) (.subsubs o o.subsubStart) p [] = .ok (ys, q1) := hq1
                  obtain ⟨q2, hq2⟩ := hp2 q1 ((o, ys) :: acc2)
                  refine ⟨q2, ?_⟩
                  rw [pass2]
                  simp only [bind, Except.bind, hq1']
                  rw [hq2]; simp
                · intro p acc3
                  obtain ⟨q1, hq1⟩ := hao p []
                  simp only [List.reverse_nil, List.nil_append] at hq1
                  rw [pass3]
                  simp only [bind, Except.bind, hq1]
                  show pass3 env S data (data.length + 3) lv2' q1 (Val.record [("length", .int len), ("vendor_name", vendor),
                    ("subsubsections", .list subs)] :: acc3) = _
                  rw [hp3]; simp

/-- LEVELWISE = NESTED.  Whenever the nested observation (every generator drained before the next
    one is advanced: `attributesSection`, the subject of `attrs_roundtrip`) returns a tree, the
    levelwise observation of the same section — all subsections listed first, then the
    sub-subsections of each, then the attributes of each, all through the one shared stream —
    returns the same tree. -/
theorem levelwise_of_nested (arch : Spec.Attr.Arch) (shOffset shSize : Nat) (v : Val)
    (h : attributesSection arch env S data shOffset shSize = .ok v) :
    levelwise env S data arch shOffset shSize = .ok v := by
  unfold attributesSection at h
  cases hb : parseInt env S.Elf_byte data shOffset with
  | error e => simp [hb, bind, Except.bind] at h
  | ok r =>
    obtain ⟨fv, subsecStart⟩ := r
    simp only [hb, bind, Except.bind] at h
    by_cases hfv : fv ≠ 0x41
    · simp [hfv] at h
    · simp only [hfv, if_false] at h
      let sec : SecObj := { arch, shOffset, dataSize := shSize, subsecStart }
      cases hsl : subsecLoop arch env S data (shOffset + shSize) (data.length + 2) subsecStart [] with
      | error e => simp [hsl] at h
      | ok subs =>
        simp only [hsl, pure, Except.pure, Except.ok.injEq] at h
        obtain ⟨xs, lv2, Ls, hL, hcol, hp2, hp3⟩ := subsecs_of_loop (env := env) (S := S) (data := data) sec
          (data.length + 2) subsecStart [] subs hsl
        simp only [List.reverse_nil, List.nil_append] at hL
        obtain ⟨q1, hq1⟩ := hcol subsecStart []
        obtain ⟨q2, hq2⟩ := hp2 q1 []
        have hq3 := hp3 q2 []
        unfold levelwise openSec
        simp only [hb, bind, Except.bind, hfv, if_false, pure, Except.pure]
        simp only [List.reverse_nil, List.nil_append] at hq1 hq2 hq3
        have hq1' : Gen.collect env S data (data.length + 3) (.subsecs sec sec.subsecStart) subsecStart []
            = .ok (xs, q1) := hq1
        show (Gen.collect env S data (data.length + 3) (.subsecs sec sec.subsecStart) subsecStart [] >>= _) = _
        rw [hq1']
        simp only [bind, Except.bind]
        simp only [hq2, hq3, ← hL, h]

end

end PyElf.Proofs.C20
