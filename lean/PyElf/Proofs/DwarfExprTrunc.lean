/-
  C12 helper lemmas: TRUNCATED expressions.  An expression cut anywhere strictly inside an operation (after its
  opcode byte, before the last byte of its operands — inside a fixed-width constant, a LEB128, a block, the length or
  the body of a nested expression) makes `parse_expr` raise ELFParseError (`struct_parse` / `read_blob` hit the end
  of the stream); the operations before the cut do not matter.  Composed in Props/C12 (`truncated_expr`).
-/
import PyElf.Proofs.DwarfExpr
namespace PyElf.Proofs.C12T
open PyElf PyElf.Spec PyElf.Model PyElf.Proofs

/-! ### primitives at the end of the stream -/

theorem validLEB_take : ∀ (bs : Bytes) (j : Nat), ValidLEB bs = true → j < bs.length → ∀ b ∈ bs.take j, 128 ≤ b.toNat
  | [], _, h, _ => by simp [ValidLEB] at h
  | [_], j, _, hj => by
    have : j = 0 := by simpa using hj
    subst this; intro b hb; simp at hb
  | x :: y :: bs, j, h, hj => by
    have h : 128 ≤ x.toNat ∧ ValidLEB (y :: bs) = true := by simpa [ValidLEB] using h
    cases j with
    | zero => intro b hb; simp at hb
    | succ j =>
      intro b hb
      rw [List.take_succ_cons, List.mem_cons] at hb
      rcases hb with rfl | hb
      · exact h.1
      · exact validLEB_take (y :: bs) j h.2 (by simpa using hj) b hb

theorem sp_uleb_trunc {data : Bytes} {pos n v j : Nat} (hd : data.drop pos = (encUlebN n v).take j) (hn : 1 ≤ n) (hj : j < n) :
    structParse Env.empty .uleb data pos = .error .elfParseError := by
  have h := parseUleb_trunc hd (validLEB_take _ j (encUlebN_valid n v hn) (by rw [encUlebN_length]; exact hj))
  simp [structParse, Con.parse, h, bind, Except.bind]

theorem sp_sleb_trunc {data : Bytes} {pos n j : Nat} {v : Int} (hd : data.drop pos = (encSlebN n v).take j) (hn : 1 ≤ n)
    (hj : j < n) : structParse Env.empty .sleb data pos = .error .elfParseError := by
  have h := parseSleb_trunc hd (validLEB_take _ j (encSlebN_valid n v hn) (by rw [encSlebN_length]; exact hj))
  simp [structParse, Con.parse, h, bind, Except.bind]

theorem sp_uint_trunc {data bs : Bytes} {pos n : Nat} {le : Bool} (hd : data.drop pos = bs) (hn : bs.length < n) :
    structParse Env.empty (.uint n le) data pos = .error .elfParseError := by
  simp [structParse, parse_uint_short (env := Env.empty) (ctx := []) hd hn, bind, Except.bind]

theorem sp_sint_trunc {data bs : Bytes} {pos n : Nat} {le : Bool} (hd : data.drop pos = bs) (hn : bs.length < n) :
    structParse Env.empty (.sint n le) data pos = .error .elfParseError := by
  simp [structParse, parse_sint_short (env := Env.empty) (ctx := []) hd hn, bind, Except.bind]

theorem readBlob_short {data : Bytes} : ∀ (m : Nat) (bs : Bytes) (pos : Nat) (acc : Bytes), data.drop pos = bs → bs.length < m →
    readBlob data m pos acc = .error .elfParseError := by
  intro m
  induction m with
  | zero => intro bs pos acc _ h; omega
  | succ m ih =>
    intro bs pos acc hd hl
    cases bs with
    | nil => simp [readBlob, drop_nil_inv hd]
    | cons x bs =>
      obtain ⟨hx, hd'⟩ := drop_cons_inv hd
      simp only [readBlob, hx]
      exact ih bs (pos + 1) (x :: acc) hd' (by simpa using hl)

theorem take_append_lt {α} (a b : List α) (j : Nat) (h : j < a.length) : (a ++ b).take j = a.take j := by
  rw [List.take_append_of_le_length (Nat.le_of_lt h)]

theorem take_append_ge {α} (a b : List α) (j : Nat) (h : a.length ≤ j) : (a ++ b).take j = a ++ b.take (j - a.length) := by
  rw [List.take_append]
  rw [List.take_of_length_le h]

/-! ### one operand cut short -/

theorem parseArg_trunc {nested : Bytes → R (List Val)} {data : Bytes} :
    ∀ (k : ArgKind) (a : Arg) (pos j : Nat), argFit k a = true → data.drop pos = (encArg k a).take j →
      j < (encArg k a).length → parseArg nested data k pos = .error .elfParseError := by
  intro k a pos j hfit hd hj
  cases k <;> cases a <;> simp only [argFit, Bool.false_eq_true] at hfit
  case u.u n le v =>
    simp only [encArg, encNat_length] at hd hj
    have hl : ((encNat le n v).take j).length < n := by simp [encNat_length]; omega
    simp [parseArg, sp_uint_trunc hd hl, bind, Except.bind]
  case s.s n le v =>
    simp only [encArg, encNat_length] at hd hj
    have hl : ((encNat le n (ofSigned (8 * n) v)).take j).length < n := by simp [encNat_length]; omega
    simp [parseArg, sp_sint_trunc hd hl, bind, Except.bind]
  case uleb.uleb n v =>
    simp only [Bool.and_eq_true, decide_eq_true_eq] at hfit
    simp only [encArg, encUlebN_length] at hd hj
    simp [parseArg, sp_uleb_trunc hd hfit.1 hj, bind, Except.bind]
  case sleb.sleb n v =>
    simp only [Bool.and_eq_true, decide_eq_true_eq] at hfit
    simp only [encArg, encSlebN_length] at hd hj
    simp [parseArg, sp_sleb_trunc hd hfit.1.1 hj, bind, Except.bind]
  case block.block n b =>
    simp only [Bool.and_eq_true, decide_eq_true_eq] at hfit
    simp only [encArg, List.length_append, encUlebN_length] at hd hj
    by_cases hjn : j < n
    · rw [take_append_lt _ _ _ (by rw [encUlebN_length]; exact hjn)] at hd
      simp [parseArg, sp_uleb_trunc hd hfit.1 hjn, bind, Except.bind]
    · rw [take_append_ge _ _ _ (by rw [encUlebN_length]; omega), encUlebN_length] at hd
      have hd2 : data.drop (pos + n) = b.take (j - n) := by
        have := drop_add_of_drop hd
        rwa [encUlebN_length] at this
      have hb : (b.take (j - n)).length < b.length := by simp; omega
      simp [parseArg, sp_uleb hd hfit.1 hfit.2, asNat_int, readBlob_short b.length _ (pos + n) [] hd2 hb, bind, Except.bind]
  case block1.block1 b =>
    simp only [decide_eq_true_eq] at hfit
    simp only [encArg, List.length_cons] at hd hj
    cases j with
    | zero =>
      rw [List.take_zero] at hd
      simp [parseArg, sp_uint_trunc (n := 1) hd (by simp), bind, Except.bind]
    | succ j =>
      rw [List.take_succ_cons] at hd
      have hd2 : data.drop (pos + 1) = b.take j := (drop_cons_inv hd).2
      have hb : (b.take j).length < b.length := by simp; omega
      simp [parseArg, sp_byte hd hfit, asNat_int, readBlob_short b.length _ (pos + 1) [] hd2 hb, bind, Except.bind]
  case wasm.wasm le k n v =>
    simp only [Bool.and_eq_true, Bool.or_eq_true, decide_eq_true_eq] at hfit
    simp only [encArg, List.length_cons] at hd hj
    cases j with
    | zero =>
      rw [List.take_zero] at hd
      simp [parseArg, sp_uint_trunc (n := 1) hd (by simp), bind, Except.bind]
    | succ j =>
      rw [List.take_succ_cons] at hd
      rcases hfit with ⟨⟨hk, hn⟩, _⟩ | ⟨hk, _⟩
      · rw [if_pos hk] at hd hj
        rw [encUlebN_length] at hj
        have hd2 : data.drop (pos + 1) = (encUlebN n v).take j := (drop_cons_inv hd).2
        have hk' : (0 : Int) ≤ (k : Int) ∧ (k : Int) ≤ 2 := by omega
        simp [parseArg, sp_byte hd (by omega : k < 256), Val.asInt, hk', sp_uleb_trunc hd2 hn (by omega), bind, Except.bind,
          pure, Except.pure]
      · subst hk
        rw [if_neg (by omega)] at hd hj
        rw [encNat_length] at hj
        have hd2 : data.drop (pos + 1) = (encNat le 4 v).take j := (drop_cons_inv hd).2
        have hl : ((encNat le 4 v).take j).length < 4 := by simp [encNat_length]; omega
        simp [parseArg, sp_byte hd (by omega : 3 < 256), Val.asInt, sp_uint_trunc hd2 hl, bind, Except.bind, pure, Except.pure]

theorem parseArgs_trunc {nested : Bytes → R (List Val)} {data : Bytes} :
    ∀ (ks : List ArgKind) (as : List Arg) (pos j : Nat), argsFit ks as = true →
      data.drop pos = (encArgs ks as).take j → j < (encArgs ks as).length →
      parseArgs nested data ks pos = .error .elfParseError := by
  intro ks
  induction ks with
  | nil =>
    intro as pos j _ _ hj
    cases as <;> simp [encArgs] at hj
  | cons k ks ih =>
    intro as pos j hfit hd hj
    cases as with
    | nil => simp [argsFit] at hfit
    | cons a as =>
      simp only [argsFit, Bool.and_eq_true] at hfit
      simp only [encArgs, List.length_append] at hd hj
      by_cases hja : j < (encArg k a).length
      · rw [take_append_lt _ _ _ hja] at hd
        simp [parseArgs, parseArg_trunc k a pos j hfit.1 hd hja, bind, Except.bind]
      · rw [take_append_ge _ _ _ (by omega)] at hd
        have hd2 : data.drop (pos + (encArg k a).length) = (encArgs ks as).take (j - (encArg k a).length) :=
          drop_add_of_drop hd
        simp [parseArgs, parseArg_ok k a pos hfit.1 hd, ih as _ _ hfit.2 hd2 (by omega), bind, Except.bind]

/-- the nested-expression operand cut short: inside the length, or the body shorter than the length says —
    `read_blob` fails before the nested parser is entered -/
theorem parseArg_expr_trunc {nested : Bytes → R (List Val)} {data body : Bytes} {n pos j : Nat}
    (hn : 1 ≤ n) (hlen : body.length < 2 ^ (7 * n)) (hd : data.drop pos = (encUlebN n body.length ++ body).take j)
    (hj : j < n + body.length) : parseArg nested data .expr pos = .error .elfParseError := by
  by_cases hjn : j < n
  · rw [take_append_lt _ _ _ (by rw [encUlebN_length]; exact hjn)] at hd
    simp [parseArg, sp_uleb_trunc hd hn hjn, bind, Except.bind]
  · rw [take_append_ge _ _ _ (by rw [encUlebN_length]; omega), encUlebN_length] at hd
    have hd2 : data.drop (pos + n) = body.take (j - n) := by
      have := drop_add_of_drop hd
      rwa [encUlebN_length] at this
    have hb : (body.take (j - n)).length < body.length := by simp; omega
    simp [parseArg, sp_uleb hd hn hlen, asNat_int, readBlob_short body.length _ (pos + n) [] hd2 hb, bind, Except.bind]

/-! ### one operation cut short, after any number of complete ones -/

theorem op_trunc {c : DwarfCfg} {D : List (Nat × List ArgKind)} {N : List (Nat × String)} (ht : TablesOk c D N)
    (o : Op) (hwf : WFop c o = true) (fuel : Nat) (data : Bytes) (pos j : Nat) (parsed : List Val)
    (hd : data.drop pos = (encodeOp c o).take j) (hj1 : 1 ≤ j) (hj : j < (encodeOp c o).length) :
    parseExprLoop D N (fuel + 1) data pos parsed = .error .elfParseError := by
  obtain ⟨j, rfl⟩ : ∃ i, j = i + 1 := ⟨j - 1, by omega⟩
  cases o with
  | plain opc args =>
    rw [WFop] at hwf
    cases hs : opSig c opc with
    | none => simp [hs] at hwf
    | some ks =>
      simp only [hs] at hwf
      obtain ⟨name, hname⟩ := opSig_some_name hs
      have hlt := opSig_some_lt hs
      rw [encodeOp, hs] at hd hj
      simp only [Option.getD_some, List.take_succ_cons, List.length_cons] at hd hj
      obtain ⟨hb, hd1⟩ := drop_cons_inv hd
      rw [parseExprLoop, hb]
      simp only [byte_toNat hlt, ht.name _ _ hname, ht.sig _ _ hs, parseArgs_trunc ks args (pos + 1) j hwf hd1 (by omega)]
  | entry opc n body =>
    rw [WFop] at hwf
    simp only [Bool.and_eq_true, decide_eq_true_eq] at hwf
    obtain ⟨⟨⟨hs, hn⟩, hlen⟩, _⟩ := hwf
    obtain ⟨name, hname⟩ := opSig_some_name hs
    have hlt := opSig_some_lt hs
    rw [encodeOp] at hd hj
    simp only [List.take_succ_cons, List.length_cons, List.length_append, encUlebN_length] at hd hj
    obtain ⟨hb, hd1⟩ := drop_cons_inv hd
    have harg := parseArg_expr_trunc (nested := fun blob => parseExprLoop D N fuel blob 0 []) hn hlen hd1 (by omega)
    rw [parseExprLoop, hb]
    simp only [byte_toNat hlt, ht.name _ _ hname, ht.sig _ _ hs, parseArgs, harg, bind, Except.bind]

/-- the loop over a well-formed prefix `ops` followed by anything (`tail`): it arrives behind the prefix with the
    prefix's operations recorded and enough fuel left for the tail -/
theorem loop_prefix {c : DwarfCfg} {D : List (Nat × List ArgKind)} {N : List (Nat × String)} (ht : TablesOk c D N) :
    ∀ ops : List Op, WFops c ops = true → ∀ (fuel : Nat) (data : Bytes) (pos : Nat) (parsed : List Val) (tail : Bytes),
      data.drop pos = encodeOps c ops ++ tail → (encodeOps c ops).length + tail.length + 1 ≤ fuel →
      ∃ fuel', tail.length + 1 ≤ fuel' ∧
        parseExprLoop D N fuel data pos parsed
          = parseExprLoop D N fuel' data (pos + (encodeOps c ops).length) ((annotate c pos ops).reverse ++ parsed) := by
  intro ops
  induction ops with
  | nil =>
    intro _ fuel data pos parsed tail _ hf
    refine ⟨fuel, ?_, ?_⟩
    · simp only [encodeOps, List.length_nil] at hf; omega
    · simp [encodeOps, annotate]
  | cons o ops ih =>
    intro hwf fuel data pos parsed tail hd hf
    rw [WFops_cons, Bool.and_eq_true] at hwf
    obtain ⟨hop, hrest⟩ := hwf
    cases fuel with
    | zero => omega
    | succ fuel =>
      cases o with
      | plain opc args =>
        rw [WFop] at hop
        cases hs : opSig c opc with
        | none => simp [hs] at hop
        | some ks =>
          simp only [hs] at hop
          obtain ⟨name, hname⟩ := opSig_some_name hs
          have hlt := opSig_some_lt hs
          rw [encodeOps_cons, encodeOp, hs] at hd hf
          simp only [Option.getD_some] at hd hf
          have hd0 : data.drop pos = UInt8.ofNat opc :: (encArgs ks args ++ (encodeOps c ops ++ tail)) := by
            simpa [List.append_assoc] using hd
          obtain ⟨hb, hd1⟩ := drop_cons_inv hd0
          have hd2 : data.drop (pos + 1 + (encArgs ks args).length) = encodeOps c ops ++ tail := drop_add_of_drop hd1
          have hf' : (encodeOps c ops).length + tail.length + 1 ≤ fuel := by
            simp only [List.length_cons, List.length_append] at hf; omega
          obtain ⟨fuel', hfl, hrec⟩ := ih hrest fuel data _ (exprOpVal opc name (args.flatMap obsArg) pos :: parsed) tail hd2 hf'
          refine ⟨fuel', hfl, ?_⟩
          rw [parseExprLoop, hb]
          simp only [byte_toNat hlt, ht.name _ _ hname, ht.sig _ _ hs, parseArgs_ok ks args (pos + 1) hop hd1]
          rw [hrec, encodeOps_cons, annotate_cons, obsOp, encodeOp, hs]
          simp only [Option.getD_some, List.length_cons, List.length_append, List.reverse_cons, List.append_assoc,
            List.singleton_append, exprOpVal, obsRecord, hname, Option.getD_some]
          have e1 : pos + 1 + (encArgs ks args).length + (encodeOps c ops).length
              = pos + ((encArgs ks args).length + 1 + (encodeOps c ops).length) := by omega
          have e2 : pos + 1 + (encArgs ks args).length = pos + ((encArgs ks args).length + 1) := by omega
          rw [e1, e2]
      | entry opc n body =>
        rw [WFop] at hop
        simp only [Bool.and_eq_true, decide_eq_true_eq] at hop
        obtain ⟨⟨⟨hs, hn⟩, hlen⟩, hbody⟩ := hop
        obtain ⟨name, hname⟩ := opSig_some_name hs
        have hlt := opSig_some_lt hs
        rw [encodeOps_cons, encodeOp] at hd hf
        have hd0 : data.drop pos = UInt8.ofNat opc ::
            (encUlebN n (encodeOps c body).length ++ encodeOps c body ++ (encodeOps c ops ++ tail)) := by
          simpa [List.append_assoc] using hd
        obtain ⟨hb, hd1⟩ := drop_cons_inv hd0
        have hlenB : (encodeOps c body).length + 1 ≤ fuel := by
          simp only [List.length_cons, List.length_append, encUlebN_length] at hf; omega
        have hf' : (encodeOps c ops).length + tail.length + 1 ≤ fuel := by
          simp only [List.length_cons, List.length_append] at hf; omega
        have hnested : parseExprLoop D N fuel (encodeOps c body) 0 [] = .ok (annotate c 0 body) := by
          have := loop_ok ht body hbody fuel (encodeOps c body) 0 [] (by simp) hlenB
          simpa using this
        have harg := parseArg_expr (nested := fun blob => parseExprLoop D N fuel blob 0 []) hn hlen hd1 hnested
        have hd2 : data.drop (pos + 1 + n + (encodeOps c body).length) = encodeOps c ops ++ tail := by
          have h1 : data.drop (pos + 1)
              = (encUlebN n (encodeOps c body).length ++ encodeOps c body) ++ (encodeOps c ops ++ tail) := hd1
          have := drop_add_of_drop h1
          simpa [encUlebN_length, Nat.add_assoc] using this
        obtain ⟨fuel', hfl, hrec⟩ := ih hrest fuel data _
          (exprOpVal opc name [.list (annotate c 0 body)] pos :: parsed) tail hd2 hf'
        refine ⟨fuel', hfl, ?_⟩
        rw [parseExprLoop, hb]
        simp only [byte_toNat hlt, ht.name _ _ hname, ht.sig _ _ hs, parseArgs, harg, bind, Except.bind, pure, Except.pure,
          List.append_nil]
        rw [hrec, encodeOps_cons, annotate_cons, obsOp, encodeOp]
        simp only [List.length_cons, List.length_append, encUlebN_length, List.reverse_cons, List.append_assoc,
          List.singleton_append, exprOpVal, obsRecord, hname, Option.getD_some]
        have e1 : pos + 1 + n + (encodeOps c body).length + (encodeOps c ops).length
            = pos + (n + (encodeOps c body).length + 1 + (encodeOps c ops).length) := by omega
        have e2 : pos + 1 + n + (encodeOps c body).length = pos + (n + (encodeOps c body).length + 1) := by omega
        rw [e1, e2]

/-- **cut strictly inside an operation**: `ops = done ++ o :: rest` well formed, the bytes cut `j` bytes into `o`
    (`1 ≤ j < |o|`: the opcode byte is there, the operands are not complete) -/
theorem parseExpr_cut_inside {c : DwarfCfg} {D : List (Nat × List ArgKind)} {N : List (Nat × String)} (ht : TablesOk c D N)
    (done : List Op) (o : Op) (rest : List Op) (hwf : WFops c (done ++ o :: rest) = true) (j : Nat) (hj1 : 1 ≤ j)
    (hj : j < (encodeOp c o).length) :
    parseExpr D N ((encodeOps c (done ++ o :: rest)).take ((encodeOps c done).length + j)) = .error .elfParseError := by
  rw [WFops_append, Bool.and_eq_true, WFops_cons, Bool.and_eq_true] at hwf
  obtain ⟨hdone, ho, _⟩ := hwf
  have hdata : (encodeOps c (done ++ o :: rest)).take ((encodeOps c done).length + j)
      = encodeOps c done ++ (encodeOp c o).take j := by
    rw [encodeOps_append, encodeOps_cons, take_append_ge _ _ _ (by omega), Nat.add_sub_cancel_left,
      take_append_lt _ _ _ hj]
  rw [hdata]
  unfold parseExpr
  obtain ⟨fuel', hfl, hrec⟩ := loop_prefix ht done hdone ((encodeOps c done ++ (encodeOp c o).take j).length + 1)
    (encodeOps c done ++ (encodeOp c o).take j) 0 [] ((encodeOp c o).take j) (by simp) (by simp)
  rw [hrec]
  obtain ⟨f, rfl⟩ : ∃ f, fuel' = f + 1 := ⟨fuel' - 1, by omega⟩
  exact op_trunc ht o ho f _ _ j _ (by simp) hj1 hj

/-- **cut between two operations**: exactly the operations before the cut -/
theorem parseExpr_cut_boundary {c : DwarfCfg} {D : List (Nat × List ArgKind)} {N : List (Nat × String)} (ht : TablesOk c D N)
    (done rest : List Op) (hwf : WFops c (done ++ rest) = true) :
    parseExpr D N ((encodeOps c (done ++ rest)).take (encodeOps c done).length) = .ok (annotate c 0 done) := by
  rw [WFops_append, Bool.and_eq_true] at hwf
  rw [encodeOps_append, take_append_ge _ _ _ (Nat.le_refl _), Nat.sub_self, List.take_zero, List.append_nil]
  exact parseExpr_roundtrip ht done hwf.1

/-- every cut point of an encoded sequence is of one of the two kinds -/
theorem cut_cases (c : DwarfCfg) : ∀ (ops : List Op) (k : Nat), k < (encodeOps c ops).length →
    ∃ done o rest j, ops = done ++ o :: rest ∧ k = (encodeOps c done).length + j ∧ j < (encodeOp c o).length := by
  intro ops
  induction ops with
  | nil => intro k hk; simp [encodeOps] at hk
  | cons o ops ih =>
    intro k hk
    rw [encodeOps_cons, List.length_append] at hk
    by_cases h : k < (encodeOp c o).length
    · exact ⟨[], o, ops, k, rfl, by simp [encodeOps], h⟩
    · obtain ⟨done, o', rest, j, e, hk', hj⟩ := ih (k - (encodeOp c o).length) (by omega)
      refine ⟨o :: done, o', rest, j, by rw [e]; rfl, ?_, hj⟩
      rw [encodeOps_cons, List.length_append]; omega

end PyElf.Proofs.C12T
