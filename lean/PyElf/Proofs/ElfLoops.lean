/-
  Helper lemmas for C19 (Props/C19Loops.lean): the loops of the enumeration battery other than the
  section / segment walks — notes, dynamic tags, the GNU hash chain walk, the hash-table header arrays —
  are bounded by the file size on EVERY byte string, and the fuel the models give them always suffices.

  Layout:
  * `Con.loopFree` and `nf_parse`: a construct without `RepeatUntil` never runs out of fuel
    (the only fuel-bounded loop of the engine is `repeatLoop`);
  * `arrayLoop` facts: a counted array stops at the first element that does not fit;
  * notes (`iterNotesLoop`, `gnuPropLoop`), dynamic tags (`foldTags.go`, `firstTagRaw.go`, `numTags.go`),
    GNU hash (`gnuCountLoop`, `gnuNumSymbols.walk`), hash headers.
-/
import PyElf.Model.Notes
import PyElf.Model.Dynamic
import PyElf.Model.Symbols
import PyElf.Proofs.ElfErrors
import PyElf.Proofs.Notes
namespace PyElf.Proofs.ElfLoops
open PyElf PyElf.Spec PyElf.Model PyElf.Proofs PyElf.Proofs.ElfErrors

/-! ### the engine never runs out of fuel on loop-free constructs -/

mutual
/-- no `RepeatUntilExcluding` anywhere inside -/
def Con.loopFree : Con → Bool
  | .enum sub _ _ => Con.loopFree sub
  | .struct fs => ConFields.loopFree fs
  | .array _ sub => Con.loopFree sub
  | .prefixed len sub => Con.loopFree len && Con.loopFree sub
  | .repeatUntilExcl _ _ => false
  | .ifThenElse _ t e => Con.loopFree t && Con.loopFree e
  | .switch _ cases dflt => ConCases.loopFree cases && Con.loopFree dflt
  | _ => true
def ConFields.loopFree : ConFields → Bool
  | .nil => true
  | .cons _ _ c rest => Con.loopFree c && ConFields.loopFree rest
def ConCases.loopFree : ConCases → Bool
  | .nil => true
  | .cons _ c rest => Con.loopFree c && ConCases.loopFree rest
end

theorem nfe_of_ne {e : Err} (h : e ≠ .outOfFuel) : NFE e := h

/-- closes `NF` goals built from binds, ifs and matches over NF leaves -/
macro "nf_auto" : tactic => `(tactic| repeat (first
  | exact Only.ok _
  | exact Only.pure _
  | exact Only.error (by decide)
  | exact Only.throw (by decide)
  | assumption
  | exact nf_asInt _
  | exact nf_asNat _
  | exact nf_getR _ _
  | exact nf_getField _ _
  | exact nf_getNat _ _
  | (refine Only.bind ?_ (fun _ _ => ?_))
  | (refine Only.ite (fun _ => ?_) (fun _ => ?_))
  | split))

theorem nf_arith (f : Int → Int → R Int) (hf : ∀ a b, NF (f a b)) (x y : Val) : NF (Expr.arith f x y) := by
  unfold Expr.arith
  refine Only.bind (nf_asInt _) (fun a _ => Only.bind (nf_asInt _) (fun b _ => Only.bind (hf a b) (fun _ _ => Only.pure _)))

theorem nf_cmp (f : Int → Int → Bool) (x y : Val) : NF (Expr.cmp f x y) := by
  unfold Expr.cmp
  nf_auto

theorem nf_eval (ctx : Fields) (o : Val) : ∀ e : Expr, NF (e.eval ctx o) := by
  intro e
  induction e with
  | lit | str | bytesLit | none | bool | obj | tnil => rw [Expr.eval]; exact Only.ok _
  | ctx k => rw [Expr.eval]; exact nf_getR _ _
  | objFld k => rw [Expr.eval]; exact nf_getField _ _
  | add a b iha ihb | sub a b iha ihb | mul a b iha ihb | band a b iha ihb | bor a b iha ihb | bxor a b iha ihb =>
    rw [Expr.eval]
    exact Only.bind iha (fun _ _ => Only.bind ihb (fun _ _ => nf_arith _ (fun _ _ => Only.ok _) _ _))
  | fdiv a b iha ihb | fmod a b iha ihb | shl a b iha ihb | shr a b iha ihb =>
    rw [Expr.eval]
    refine Only.bind iha (fun _ _ => Only.bind ihb (fun _ _ => nf_arith _ (fun _ _ => ?_) _ _))
    split
    · exact Only.error (by decide)
    · exact Only.ok _
  | eq a b iha ihb | ne a b iha ihb =>
    rw [Expr.eval]
    exact Only.bind iha (fun _ _ => Only.bind ihb (fun _ _ => Only.pure _))
  | lt a b iha ihb | le a b iha ihb | gt a b iha ihb | ge a b iha ihb =>
    rw [Expr.eval]
    exact Only.bind iha (fun _ _ => Only.bind ihb (fun _ _ => nf_cmp _ _ _))
  | and a b iha ihb | or a b iha ihb =>
    rw [Expr.eval]
    refine Only.bind iha (fun _ _ => ?_)
    split
    · first | exact ihb | exact Only.pure _
    · first | exact ihb | exact Only.pure _
  | not a iha | truthy a iha => rw [Expr.eval]; exact Only.bind iha (fun _ _ => Only.pure _)
  | len a iha | isStr a iha | startsWith a p iha =>
    rw [Expr.eval]
    refine Only.bind iha (fun _ _ => ?_)
    split <;> first | exact Only.pure _ | exact Only.error (by decide)
  | ite c t e ihc iht ihe =>
    rw [Expr.eval]
    refine Only.bind ihc (fun _ _ => ?_)
    split
    · exact iht
    · exact ihe
  | tcons a b iha ihb =>
    rw [Expr.eval]
    refine Only.bind iha (fun _ _ => Only.bind ihb (fun _ _ => ?_))
    split <;> first | exact Only.pure _ | exact Only.error (by decide)

theorem nf_readExact (data : Bytes) (pos n : Nat) : NF (readExact data pos n) :=
  (readExact_only false data pos n).mono (fun _ => tameErr_nf)

theorem nf_ulebLoop (data : Bytes) : ∀ fuel pos value shift, NF (ulebLoop data fuel pos value shift) := by
  intro fuel
  induction fuel with
  | zero => intro _ _ _; rw [ulebLoop]; exact Only.error (by decide)
  | succ fuel ih =>
    intro pos value shift
    rw [ulebLoop]
    split
    · exact Only.error (by decide)
    · simp only
      split
      · exact Only.ok _
      · exact ih _ _ _

theorem nf_slebLoop (data : Bytes) : ∀ fuel pos value shift, NF (slebLoop data fuel pos value shift) := by
  intro fuel
  induction fuel with
  | zero => intro _ _ _; rw [slebLoop]; exact Only.error (by decide)
  | succ fuel ih =>
    intro pos value shift
    rw [slebLoop]
    split
    · exact Only.error (by decide)
    · simp only
      split
      · split
        · exact Only.ok _
        · exact Only.ok _
      · exact ih _ _ _

theorem nf_cstringLoop (data : Bytes) : ∀ fuel pos acc, NF (cstringLoop data fuel pos acc) := by
  intro fuel
  induction fuel with
  | zero => intro _ _; rw [cstringLoop]; exact Only.error (by decide)
  | succ fuel ih =>
    intro pos acc
    rw [cstringLoop]
    split
    · exact Only.error (by decide)
    · split
      · exact Only.ok _
      · exact ih _ _

theorem nf_splitBits (env : Env) (v : Nat) : ∀ (fs : List BitFld) (total : Nat) (acc : Fields),
    NF (splitBits env v total fs acc) := by
  intro fs
  induction fs with
  | nil => intro _ _; rw [splitBits]; exact Only.ok _
  | cons f rest ih =>
    intro total acc
    rw [splitBits]
    split
    · exact ih _ _
    · split
      · exact ih _ _
      · split
        · exact ih _ _
        · split
          · exact ih _ _
          · exact Only.error (by decide)

mutual
theorem nf_parse (env : Env) (data : Bytes) :
    ∀ (c : Con), Con.loopFree c = true → ∀ ctx pos, NF (Con.parse env data c ctx pos)
  | .uint n le, _, ctx, pos => by
      rw [Con.parse]; exact Only.bind (nf_readExact data pos n) (fun _ _ => Only.pure _)
  | .sint n le, _, ctx, pos => by
      rw [Con.parse]; exact Only.bind (nf_readExact data pos n) (fun _ _ => Only.pure _)
  | .u24 le, _, ctx, pos => by
      rw [Con.parse]
      refine Only.bind (nf_readExact data pos 3) (fun _ _ => ?_)
      split <;> exact Only.pure _
  | .uleb, _, ctx, pos => by
      rw [Con.parse]
      refine Only.bind (nf_ulebLoop data _ _ _ _) (fun r _ => ?_)
      exact Only.pure _
  | .sleb, _, ctx, pos => by
      rw [Con.parse]
      refine Only.bind (nf_slebLoop data _ _ _ _) (fun r _ => ?_)
      exact Only.pure _
  | .cstring, _, ctx, pos => by
      rw [Con.parse]
      refine Only.bind (nf_cstringLoop data _ _ _) (fun r _ => ?_)
      exact Only.pure _
  | .bytesN len, _, ctx, pos => by
      rw [Con.parse]
      exact Only.bind (nf_eval ctx .none len) (fun _ _ => Only.bind (nf_asNat _) (fun _ _ =>
        Only.bind (nf_readExact data pos _) (fun _ _ => Only.pure _)))
  | .padding len strict, _, ctx, pos => by
      rw [Con.parse]
      refine Only.bind (nf_eval ctx .none len) (fun _ _ => Only.bind (nf_asNat _) (fun _ _ =>
        Only.bind (nf_readExact data pos _) (fun _ _ => ?_)))
      split
      · exact Only.error (by decide)
      · exact Only.pure _
  | .enum sub t pass, hc, ctx, pos => by
      rw [Con.parse]
      refine Only.bind (nf_parse env data sub (by simpa [Con.loopFree] using hc) ctx pos) ?_
      rintro ⟨v, p, ctx'⟩ _
      simp only
      split
      · split
        · exact Only.pure _
        · split
          · exact Only.pure _
          · exact Only.error (by decide)
      · split
        · exact Only.pure _
        · exact Only.error (by decide)
  | .struct fs, hc, ctx, pos => by
      rw [Con.parse]
      exact Only.bind (nf_parseFields env data fs (by simpa [Con.loopFree] using hc) [] [] pos)
        (fun _ _ => Only.pure _)
  | .array e sub, hc, ctx, pos => by
      rw [Con.parse]
      refine Only.bind (nf_eval ctx .none e) (fun _ _ => Only.bind (nf_asInt _) (fun n _ => ?_))
      exact arrayLoop_only (fun p c => nf_parse env data sub (by simpa [Con.loopFree] using hc) c p) _ _ _ _
  | .prefixed len sub, hc, ctx, pos => by
      have h : Con.loopFree len = true ∧ Con.loopFree sub = true := by simpa [Con.loopFree] using hc
      rw [Con.parse]
      refine Only.bind (nf_parse env data len h.1 ctx pos) ?_
      rintro ⟨n, p, ctx'⟩ _
      refine Only.bind (nf_asInt _) (fun n _ => ?_)
      exact arrayLoop_only (fun p c => nf_parse env data sub h.2 c p) _ _ _ _
  | .repeatUntilExcl _ _, hc, _, _ => by simp [Con.loopFree] at hc
  | .value e, _, ctx, pos => by
      rw [Con.parse]; exact Only.bind (nf_eval ctx .none e) (fun _ _ => Only.pure _)
  | .ifThenElse c t e, hc, ctx, pos => by
      have h : Con.loopFree t = true ∧ Con.loopFree e = true := by simpa [Con.loopFree] using hc
      rw [Con.parse]
      refine Only.bind (nf_eval ctx .none c) (fun _ _ => ?_)
      split
      · exact nf_parse env data t h.1 ctx pos
      · exact nf_parse env data e h.2 ctx pos
  | .switch key cases dflt, hc, ctx, pos => by
      have h : ConCases.loopFree cases = true ∧ Con.loopFree dflt = true := by simpa [Con.loopFree] using hc
      rw [Con.parse]
      refine Only.bind (nf_eval ctx .none key) (fun k _ => ?_)
      split
      · rename_i r hr
        exact nf_parseCase env data k cases h.1 ctx pos r hr
      · exact nf_parse env data dflt h.2 ctx pos
  | .noDefault, _, _, _ => by rw [Con.parse]; exact Only.error (by decide)
  | .bits fs, _, ctx, pos => by
      rw [Con.parse]
      exact Only.bind (nf_readExact data pos _) (fun _ _ => Only.bind (nf_splitBits env _ _ _ _) (fun _ _ => Only.pure _))
  | .streamOffset, _, _, _ => by rw [Con.parse]; exact Only.ok _
  | .initialLength le, _, ctx, pos => by
      rw [Con.parse]
      refine Only.bind (nf_readExact data pos 4) (fun _ _ => ?_)
      simp only
      split
      · exact Only.pure _
      · split
        · exact Only.bind (nf_readExact data _ 8) (fun _ _ => Only.pure _)
        · exact Only.error (by decide)
  | .formatted _, _, _, _ => by rw [Con.parse]; exact Only.error (by decide)
  | .unsupported _, _, _, _ => by rw [Con.parse]; exact Only.error (by decide)
theorem nf_parseFields (env : Env) (data : Bytes) :
    ∀ (fs : ConFields), ConFields.loopFree fs = true →
      ∀ obj ctx pos, NF (Con.parseFields env data fs obj ctx pos)
  | .nil, _, obj, ctx, pos => by rw [Con.parseFields]; exact Only.ok _
  | .cons name embed c rest, hc, obj, ctx, pos => by
      have h : Con.loopFree c = true ∧ ConFields.loopFree rest = true := by simpa [ConFields.loopFree] using hc
      rw [Con.parseFields]
      split
      · refine Only.bind (nf_parseEmb env data c h.1 obj ctx pos) ?_
        rintro ⟨o, p, ctx'⟩ _
        exact nf_parseFields env data rest h.2 _ _ _
      · refine Only.bind (nf_parse env data c h.1 ctx pos) ?_
        rintro ⟨v, p, ctx'⟩ _
        simp only
        split
        · exact nf_parseFields env data rest h.2 _ _ _
        · exact nf_parseFields env data rest h.2 _ _ _
theorem nf_parseEmb (env : Env) (data : Bytes) :
    ∀ (c : Con), Con.loopFree c = true → ∀ obj ctx pos, NF (Con.parseEmb env data c obj ctx pos)
  | .struct fs, hc, obj, ctx, pos => by
      rw [Con.parseEmb]; exact nf_parseFields env data fs (by simpa [Con.loopFree] using hc) obj ctx pos
  | .ifThenElse c t e, hc, obj, ctx, pos => by
      have h : Con.loopFree t = true ∧ Con.loopFree e = true := by simpa [Con.loopFree] using hc
      rw [Con.parseEmb]
      refine Only.bind (nf_eval ctx .none c) (fun _ _ => ?_)
      split
      · exact nf_parseEmb env data t h.1 obj ctx pos
      · exact nf_parseEmb env data e h.2 obj ctx pos
  | .switch key cases dflt, hc, obj, ctx, pos => by
      have h : ConCases.loopFree cases = true ∧ Con.loopFree dflt = true := by simpa [Con.loopFree] using hc
      rw [Con.parseEmb]
      refine Only.bind (nf_eval ctx .none key) (fun k _ => ?_)
      split
      · rename_i r hr
        exact nf_parseCaseEmb env data k cases h.1 obj ctx pos r hr
      · exact nf_parseEmb env data dflt h.2 obj ctx pos
  | .value _, _, obj, ctx, pos => by rw [Con.parseEmb]; exact Only.ok _
  | .noDefault, _, _, _, _ => by rw [Con.parseEmb] <;> first | exact Only.error (by decide) | (intros; contradiction)
  | .uint _ _, _, _, _, _ => by rw [Con.parseEmb] <;> first | exact Only.error (by decide) | (intros; contradiction)
  | .sint _ _, _, _, _, _ => by rw [Con.parseEmb] <;> first | exact Only.error (by decide) | (intros; contradiction)
  | .u24 _, _, _, _, _ => by rw [Con.parseEmb] <;> first | exact Only.error (by decide) | (intros; contradiction)
  | .uleb, _, _, _, _ => by rw [Con.parseEmb] <;> first | exact Only.error (by decide) | (intros; contradiction)
  | .sleb, _, _, _, _ => by rw [Con.parseEmb] <;> first | exact Only.error (by decide) | (intros; contradiction)
  | .cstring, _, _, _, _ => by rw [Con.parseEmb] <;> first | exact Only.error (by decide) | (intros; contradiction)
  | .bytesN _, _, _, _, _ => by rw [Con.parseEmb] <;> first | exact Only.error (by decide) | (intros; contradiction)
  | .padding _ _, _, _, _, _ => by rw [Con.parseEmb] <;> first | exact Only.error (by decide) | (intros; contradiction)
  | .enum _ _ _, _, _, _, _ => by rw [Con.parseEmb] <;> first | exact Only.error (by decide) | (intros; contradiction)
  | .array _ _, _, _, _, _ => by rw [Con.parseEmb] <;> first | exact Only.error (by decide) | (intros; contradiction)
  | .prefixed _ _, _, _, _, _ => by rw [Con.parseEmb] <;> first | exact Only.error (by decide) | (intros; contradiction)
  | .repeatUntilExcl _ _, _, _, _, _ => by rw [Con.parseEmb] <;> first | exact Only.error (by decide) | (intros; contradiction)
  | .bits _, _, _, _, _ => by rw [Con.parseEmb] <;> first | exact Only.error (by decide) | (intros; contradiction)
  | .streamOffset, _, _, _, _ => by rw [Con.parseEmb] <;> first | exact Only.error (by decide) | (intros; contradiction)
  | .initialLength _, _, _, _, _ => by rw [Con.parseEmb] <;> first | exact Only.error (by decide) | (intros; contradiction)
  | .formatted _, _, _, _, _ => by rw [Con.parseEmb] <;> first | exact Only.error (by decide) | (intros; contradiction)
  | .unsupported _, _, _, _, _ => by rw [Con.parseEmb] <;> first | exact Only.error (by decide) | (intros; contradiction)
theorem nf_parseCase (env : Env) (data : Bytes) (k : Val) :
    ∀ (cs : ConCases), ConCases.loopFree cs = true → ∀ ctx pos r,
      Con.parseCase env data k cs ctx pos = some r → NF r
  | .nil, _, ctx, pos, r, hr => by rw [Con.parseCase] at hr; cases hr
  | .cons k' c rest, hc, ctx, pos, r, hr => by
      have h : Con.loopFree c = true ∧ ConCases.loopFree rest = true := by simpa [ConCases.loopFree] using hc
      rw [Con.parseCase] at hr
      split at hr
      · cases hr; exact nf_parse env data c h.1 ctx pos
      · exact nf_parseCase env data k rest h.2 ctx pos r hr
theorem nf_parseCaseEmb (env : Env) (data : Bytes) (k : Val) :
    ∀ (cs : ConCases), ConCases.loopFree cs = true → ∀ obj ctx pos r,
      Con.parseCaseEmb env data k cs obj ctx pos = some r → NF r
  | .nil, _, obj, ctx, pos, r, hr => by rw [Con.parseCaseEmb] at hr; cases hr
  | .cons k' c rest, hc, obj, ctx, pos, r, hr => by
      have h : Con.loopFree c = true ∧ ConCases.loopFree rest = true := by simpa [ConCases.loopFree] using hc
      rw [Con.parseCaseEmb] at hr
      split at hr
      · cases hr; exact nf_parseEmb env data c h.1 obj ctx pos
      · exact nf_parseCaseEmb env data k rest h.2 obj ctx pos r hr
end

theorem nf_structParse {env : Env} {c : Con} (hc : Con.loopFree c = true) (data : Bytes) (pos : Nat) (ctx : Fields := []) :
    NF (structParse env c data pos ctx) := by
  unfold structParse
  refine Only.bind (nf_parse env data c hc ctx pos) ?_
  rintro ⟨v, p, c'⟩ _
  exact Only.pure _

theorem nf_structParseAt' {env : Env} {c : Con} (hc : Con.loopFree c = true) (data : Bytes) (pos : Nat) :
    NF (structParseAt env c data pos) := by
  unfold structParseAt
  by_cases hp : pos ≥ 2 ^ 63
  · simp only [hp, if_true]
    exact Only.bind (Only.throw (by decide)) (fun _ _ => nf_structParse hc data pos)
  · simp only [hp, if_false]
    exact nf_structParse hc data pos

/-! ### counted arrays stop at the first element that does not fit -/

/-- laziness of `MetaArray._parse`: if the loop over `m` elements fails, the loop over any larger count fails in
    exactly the same way — the elements beyond the failing one are never touched, whatever count the header claims -/
theorem arrayLoop_stops (step : Nat → Fields → PRes) {e : Err} :
    ∀ (m n pos : Nat) (ctx : Fields) (acc : List Val), m ≤ n →
      arrayLoop step m pos ctx acc = .error e → arrayLoop step n pos ctx acc = .error e := by
  intro m
  induction m with
  | zero => intro n pos ctx acc _ h; rw [arrayLoop] at h; cases h
  | succ m ih =>
    intro n pos ctx acc hmn h
    obtain ⟨n', rfl⟩ : ∃ n', n = n' + 1 := ⟨n - 1, by omega⟩
    rw [arrayLoop] at h ⊢
    cases hs : step pos ctx with
    | error e' => rw [hs] at h; exact h
    | ok r =>
      obtain ⟨v, p, c⟩ := r
      rw [hs] at h
      exact ih n' p c _ (by omega) h

theorem parse_uint_ok {env : Env} {data : Bytes} {k : Nat} {le : Bool} {ctx : Fields} {pos : Nat} {r : Val × Nat × Fields}
    (hk : 0 < k) (h : Con.parse env data (.uint k le) ctx pos = .ok r) :
    r.2.1 = pos + k ∧ r.2.2 = ctx ∧ pos + k ≤ data.length := by
  rw [Con.parse] at h
  by_cases hl : data.length < pos + k
  · rw [readExact_trunc hk hl] at h; cases h
  · cases hr : readExact data pos k with
    | error e => rw [hr] at h; cases h
    | ok bs =>
      rw [hr] at h
      simp only [bind, Except.bind, pure, Except.pure] at h
      cases h
      exact ⟨rfl, rfl, by omega⟩

/-- a successfully parsed array of `n` unsigned `k`-byte integers lies inside the file -/
theorem arrayLoop_uint_ok_bound (env : Env) (data : Bytes) (k : Nat) (le : Bool) (hk : 0 < k) :
    ∀ (n pos : Nat) (ctx : Fields) (acc : List Val) (r : Val × Nat × Fields),
      arrayLoop (fun p c => Con.parse env data (.uint k le) c p) n pos ctx acc = .ok r →
      r.2.1 = pos + n * k ∧ r.2.2 = ctx ∧ (0 < n → pos + n * k ≤ data.length) := by
  intro n
  induction n with
  | zero =>
    intro pos ctx acc r h
    rw [arrayLoop] at h; cases h
    exact ⟨by simp, rfl, by omega⟩
  | succ n ih =>
    intro pos ctx acc r h
    rw [arrayLoop] at h
    cases hs : Con.parse env data (.uint k le) ctx pos with
    | error e => simp only [hs] at h; cases h
    | ok r1 =>
      obtain ⟨v, p, c⟩ := r1
      simp only [hs] at h
      obtain ⟨h1, h2, h3⟩ := parse_uint_ok hk hs
      simp only at h1 h2 h3
      subst h1; subst h2
      obtain ⟨i1, i2, i3⟩ := ih _ _ _ r h
      refine ⟨by rw [i1, Nat.succ_mul]; omega, i2, fun _ => ?_⟩
      rw [Nat.succ_mul]
      cases n with
      | zero => simp; omega
      | succ n' => have := i3 (by omega); omega

/-- a count that does not fit fails with construct's FieldError (→ ELFParseError) -/
theorem arrayLoop_uint_fails (env : Env) (data : Bytes) (k : Nat) (le : Bool) (hk : 0 < k)
    (n pos : Nat) (ctx : Fields) (acc : List Val) (hn : 0 < n) (h : data.length < pos + n * k) :
    arrayLoop (fun p c => Con.parse env data (.uint k le) c p) n pos ctx acc = .error .elfParseError := by
  cases hr : arrayLoop (fun p c => Con.parse env data (.uint k le) c p) n pos ctx acc with
  | ok r => have := (arrayLoop_uint_ok_bound env data k le hk n pos ctx acc r hr).2.2 hn; omega
  | error e =>
    have := arrayLoop_only (P := TameErr false) (step := fun p c => Con.parse env data (.uint k le) c p)
      (fun p c => tame_parse env data false (.uint k le) rfl c p) n pos ctx acc e hr
    rw [tameErr_false this]

/-- THE WORK BOUND for an absurd count: an array of `k`-byte integers with any count `n` beyond what the rest of the
    file can hold fails exactly like the array of `(len - pos)/k + 1` elements — at most that many elements are parsed -/
theorem arrayLoop_uint_absurd (env : Env) (data : Bytes) (k : Nat) (le : Bool) (hk : 0 < k)
    (n pos : Nat) (ctx : Fields) (acc : List Val) (hn : (data.length - pos) / k + 1 ≤ n) :
    arrayLoop (fun p c => Con.parse env data (.uint k le) c p) n pos ctx acc = .error .elfParseError ∧
    arrayLoop (fun p c => Con.parse env data (.uint k le) c p) ((data.length - pos) / k + 1) pos ctx acc
      = .error .elfParseError := by
  have hm : data.length < pos + ((data.length - pos) / k + 1) * k := by
    have := Nat.lt_div_mul_add (a := data.length - pos) hk
    rw [Nat.succ_mul]; omega
  have h2 := arrayLoop_uint_fails env data k le hk ((data.length - pos) / k + 1) pos ctx acc (Nat.succ_pos _) hm
  exact ⟨arrayLoop_stops _ _ n pos ctx acc hn h2, h2⟩

/-! ### notes -/

/-- the constructs `iter_notes` parses contain no `RepeatUntil` -/
structure NotesLoopFree (S : ElfStructs) : Prop where
  nhdr : Con.loopFree S.Elf_Nhdr = true
  abi : Con.loopFree S.Elf_abi = true
  prps : Con.loopFree S.Elf_Prpsinfo = true
  ntfile : Con.loopFree S.Elf_Nt_File = true
  prop : Con.loopFree S.Elf_Prop = true

theorem notesLoopFree_spec (c : ElfCfg) : NotesLoopFree (elfStructs c) where
  nhdr := by rfl
  abi := by rfl
  prps := by simp only [elfStructs]; (repeat' split) <;> rfl
  ntfile := by rfl
  prop := by rfl

theorem nhdr_sizeofCon (c : ElfCfg) : sizeofCon (elfStructs c).Elf_Nhdr = .ok 12 := by rfl

theorem nf_setItem (o : Val) (k : String) (v : Val) : NF (setItem o k v) := by
  unfold setItem; split
  · exact Only.ok _
  · exact Only.error (by decide)

theorem nf_cstringParseBytes (chunk : Bytes) : NF (cstringParseBytes chunk) := by
  unfold cstringParseBytes; split
  · exact Only.ok _
  · exact Only.error (by decide)

theorem roundup_ge (n k : Nat) : n ≤ Model.roundup n k := by
  rw [PyElf.Proofs.Notes.roundup_eq]; omega

theorem nf_gnuPropLoop {S : ElfStructs} (hS : Con.loopFree S.Elf_Prop = true) (env : Env) (cls : Nat) (data : Bytes)
    (noteEnd : Nat) : ∀ fuel off props, noteEnd - off < fuel → NF (gnuPropLoop S env cls data noteEnd fuel off props) := by
  intro fuel
  induction fuel with
  | zero => intro off props h; omega
  | succ fuel ih =>
    intro off props h
    rw [gnuPropLoop]
    split
    · rename_i hlt
      refine Only.bind (nf_structParse hS data off) ?_
      rintro ⟨p, q⟩ _
      refine Only.bind (nf_getNat _ _) (fun dsz _ => ?_)
      apply ih
      have := roundup_ge (dsz + 8) (if cls = 32 then 2 else 3)
      omega
    · exact Only.ok _

theorem nf_decodeDesc {S : ElfStructs} (hS : NotesLoopFree S) (env : Env) (cls : Nat) (data : Bytes)
    (ty nm : Val) (descData : Bytes) (descsz offset : Nat) :
    NF (decodeDesc S env cls data ty nm descData descsz offset) := by
  unfold decodeDesc
  split
  · refine Only.bind (nf_structParse hS.abi data offset) ?_
    rintro ⟨v, q⟩ _; exact Only.pure _
  split
  · exact Only.ok _
  split
  · exact Only.ok _
  split
  · refine Only.bind (nf_structParse hS.prps data offset) ?_
    rintro ⟨v, q⟩ _; exact Only.pure _
  split
  · refine Only.bind (nf_structParse hS.ntfile data offset) ?_
    rintro ⟨v, q⟩ _; exact Only.pure _
  split
  · refine Only.bind (nf_gnuPropLoop hS.prop env cls data _ _ _ _ (by omega)) (fun _ _ => Only.pure _)
  · exact Only.ok _

theorem nf_noteRest {S : ElfStructs} (hS : NotesLoopFree S) (env : Env) (cls : Nat) (data : Bytes)
    (nOffset : Nat) (note : Val) (offset sp : Nat) : NF (noteRest S env cls data nOffset note offset sp) := by
  unfold noteRest
  refine Only.bind (nf_getNat _ _) (fun descsz _ => ?_)
  split
  refine Only.bind (nf_setItem _ _ _) (fun _ _ => ?_)
  refine Only.bind (nf_getField _ _) (fun _ _ => ?_)
  refine Only.bind (nf_getField _ _) (fun _ _ => ?_)
  refine Only.bind (nf_decodeDesc hS env cls data _ _ _ _ _) (fun _ _ => ?_)
  refine Only.bind (nf_setItem _ _ _) (fun _ _ => ?_)
  refine Only.bind (nf_setItem _ _ _) (fun _ _ => ?_)
  exact Only.pure _

theorem nf_noteAt {S : ElfStructs} (hS : NotesLoopFree S) (env : Env) (cls : Nat) (data : Bytes)
    (nhdrSize offset : Nat) : NF (noteAt S env cls data nhdrSize offset) := by
  unfold noteAt
  refine Only.bind (nf_structParse hS.nhdr data offset) ?_
  rintro ⟨note, q⟩ _
  refine Only.bind (nf_setItem _ _ _) (fun _ _ => ?_)
  refine Only.bind (nf_getField _ _) (fun _ _ => ?_)
  split
  · refine Only.bind (nf_asNat _) (fun _ _ => ?_)
    dsimp only
    refine Only.bind (nf_cstringParseBytes _) (fun _ _ => ?_)
    refine Only.bind (nf_setItem _ _ _) (fun _ _ => ?_)
    exact nf_noteRest hS env cls data _ _ _ _
  · refine Only.bind (nf_setItem _ _ _) (fun _ _ => ?_)
    exact nf_noteRest hS env cls data _ _ _ _

/-- every successful result of `r` carries an offset `≥ x` -/
def Adv (x : Nat) (r : R (Val × Nat)) : Prop := ∀ v o, r = .ok (v, o) → x ≤ o

theorem Adv.bind {α : Type} {x : Nat} {a : R α} {f : α → R (Val × Nat)} (h : ∀ a', Adv x (f a')) : Adv x (a >>= f) := by
  intro v o hr
  cases a with
  | error e => cases hr
  | ok a' => exact h a' v o hr

theorem Adv.pure {x o : Nat} {v : Val} (h : x ≤ o) : Adv x (Pure.pure (v, o) : R (Val × Nat)) := by
  intro v' o' hr; cases hr; exact h

theorem noteRest_adv (S : ElfStructs) (env : Env) (cls : Nat) (data : Bytes)
    (nOffset : Nat) (note : Val) (offset sp : Nat) : Adv offset (noteRest S env cls data nOffset note offset sp) := by
  unfold noteRest
  refine Adv.bind (fun descsz => ?_)
  split
  refine Adv.bind (fun _ => Adv.bind (fun _ => Adv.bind (fun _ => Adv.bind (fun _ => Adv.bind (fun _ => Adv.bind (fun _ => ?_))))))
  exact Adv.pure (by omega)

/-- the loop body of `iter_notes` advances the offset by at least the note-header size -/
theorem noteAt_adv (S : ElfStructs) (env : Env) (cls : Nat) (data : Bytes) (nhdrSize offset : Nat) :
    Adv (offset + nhdrSize) (noteAt S env cls data nhdrSize offset) := by
  unfold noteAt
  refine Adv.bind ?_
  rintro ⟨note, q⟩
  refine Adv.bind (fun _ => Adv.bind (fun _ => ?_))
  split
  · refine Adv.bind (fun _ => ?_)
    dsimp only
    refine Adv.bind (fun _ => Adv.bind (fun _ => ?_))
    intro v o h
    have := noteRest_adv S env cls data _ _ _ _ v o h
    omega
  · refine Adv.bind (fun _ => ?_)
    exact noteRest_adv S env cls data _ _ _ _

/-- the fuel `size + 1` of `iterNotes` always suffices (header size ≥ 1) -/
theorem nf_iterNotesLoop {S : ElfStructs} (hS : NotesLoopFree S) (env : Env) (cls : Nat) (data : Bytes)
    (n end_ : Nat) (hn : 0 < n) : ∀ fuel offset acc, end_ - offset < fuel →
      NF (iterNotesLoop S env cls data n end_ fuel offset acc) := by
  intro fuel
  induction fuel with
  | zero => intro offset acc h; omega
  | succ fuel ih =>
    intro offset acc h
    rw [iterNotesLoop]
    split
    · rename_i hle
      cases hr : noteAt S env cls data n offset with
      | error e => exact Only.error (nf_noteAt hS env cls data n offset e hr)
      | ok r =>
        obtain ⟨note, offset'⟩ := r
        simp only
        have := noteAt_adv S env cls data n offset note offset' hr
        exact ih _ _ (by omega)
    · exact Only.ok _

/-- the number of notes yielded: one per `n` bytes of the extent at most -/
theorem iterNotesLoop_count (S : ElfStructs) (env : Env) (cls : Nat) (data : Bytes)
    (n end_ : Nat) (hn : 0 < n) : ∀ fuel offset acc notes,
      iterNotesLoop S env cls data n end_ fuel offset acc = .ok notes →
      notes.length ≤ acc.length + (end_ - offset) / n := by
  intro fuel
  induction fuel with
  | zero => intro offset acc notes h; rw [iterNotesLoop] at h; cases h
  | succ fuel ih =>
    intro offset acc notes h
    rw [iterNotesLoop] at h
    split at h
    · rename_i hle
      cases hr : noteAt S env cls data n offset with
      | error e => rw [hr] at h; cases h
      | ok r =>
        obtain ⟨note, offset'⟩ := r
        rw [hr] at h
        simp only at h
        have hadv := noteAt_adv S env cls data n offset note offset' hr
        have := ih _ _ _ h
        simp only [List.length_append, List.length_cons, List.length_nil] at this
        have h1 : (end_ - offset') / n ≤ (end_ - offset - n) / n := Nat.div_le_div_right (by omega)
        have h2 : (end_ - offset) / n = (end_ - offset - n) / n + 1 := Nat.div_eq_sub_div hn (by omega)
        omega
    · cases h; exact Nat.le_add_right _ _

/-- every note yielded starts inside the extent: the `i`-th iteration needs `(i+1)·n ≤ size` -/
theorem iterNotes_bounds {S : ElfStructs} (hS : NotesLoopFree S) (env : Env) (cls : Nat) (data : Bytes)
    {n : Nat} (hsz : sizeofCon S.Elf_Nhdr = .ok n) (hn : 0 < n) (offset size : Nat) :
    NF (iterNotes S env cls data offset size) ∧
    ∀ notes, iterNotes S env cls data offset size = .ok notes → notes.length ≤ size / n := by
  unfold iterNotes
  rw [hsz]
  simp only [bind, Except.bind]
  refine ⟨nf_iterNotesLoop hS env cls data n _ hn _ _ _ (by omega), fun notes h => ?_⟩
  have := iterNotesLoop_count S env cls data n _ hn _ _ _ _ h
  simpa using this

/-! ### dynamic tags -/

open PyElf.Model.Dynamic in
/-- what the tag walk needs of the `Elf_Dyn` construct: fixed shape, `sz > 0` bytes, no `RepeatUntil` -/
structure DynOK (S : ElfStructs) (sz : Nat) : Prop where
  fixed : S.Elf_Dyn.fixed = true
  size : S.Elf_Dyn.sizeof = some sz
  pos : 0 < sz
  lf : Con.loopFree S.Elf_Dyn = true

theorem dynOK_spec (c : ElfCfg) (hc : c.cls = 32 ∨ c.cls = 64) : DynOK (elfStructs c) (2 * (c.cls / 8)) where
  fixed := by
    have : 1 ≤ c.cls / 8 := by rcases hc with h | h <;> rw [h] <;> decide
    simp [elfStructs, st, mkFields, f, enumOf, Con.fixed, ConFields.fixed, this]
  size := by
    simp [elfStructs, st, mkFields, f, enumOf, Con.sizeof, ConFields.sizeof]
    omega
  pos := by rcases hc with h | h <;> rw [h] <;> decide
  lf := by rfl

/-- the operations of the file interface never report the model's `outOfFuel` -/
structure IfcNF (ifc : Dynamic.FileIfc) : Prop where
  numSegments : NF ifc.numSegments
  getSegment : ∀ i, NF (ifc.getSegment i)
  sectionByName : ∀ nm, NF (ifc.sectionByName nm)

section dyn
open PyElf.Model.Dynamic
variable {env : Env} {S : ElfStructs} {data : Bytes} {d : Dyn} {sz : Nat}

theorem nf_getTagRaw (hD : DynOK S sz) (n : Nat) : NF (getTagRaw env S data d n) := by
  unfold getTagRaw
  simp only
  split
  · exact Only.bind (Only.throw (by decide)) (fun _ _ => Only.bind (nf_structParseAt' hD.lf data _) (fun r _ => by
      obtain ⟨v, q⟩ := r; exact Only.pure _))
  · exact Only.bind (nf_structParseAt' hD.lf data _) (fun r _ => by obtain ⟨v, q⟩ := r; exact Only.pure _)

/-- an entry that `_get_tag(n)` can parse lies inside the file -/
theorem getTagRaw_ok_bound (hD : DynOK S sz) {n : Nat} {v : Val} (h : getTagRaw env S data d n = .ok v) :
    d.offset + n * d.tagsize + sz ≤ data.length := by
  unfold getTagRaw at h
  simp only at h
  split at h
  · simp [bind, Except.bind, throw, throwThe, MonadExceptOf.throw] at h
  · obtain ⟨r, hr, _⟩ := bind_ok.1 h
    exact structParseAt_ok_bound hD.fixed hD.size hD.pos hr

/-- … hence its index is at most `(len − offset) / tagsize` -/
theorem getTagRaw_ok_index (hD : DynOK S sz) (ht : 0 < d.tagsize) {n : Nat} {v : Val}
    (h : getTagRaw env S data d n = .ok v) : n ≤ (data.length - d.offset) / d.tagsize := by
  have := getTagRaw_ok_bound hD h
  rw [Nat.le_div_iff_mul_le ht]
  omega

theorem nf_firstTagRaw_go (hD : DynOK S sz) (ht : 0 < d.tagsize) (type : Option String) :
    ∀ fuel n, n ≤ (data.length - d.offset) / d.tagsize + 1 → (data.length - d.offset) / d.tagsize + 2 ≤ n + fuel →
      NF (firstTagRaw.go env S data d type fuel n) := by
  intro fuel
  induction fuel with
  | zero => intro n h1 h2; omega
  | succ fuel ih =>
    intro n h1 h2
    rw [firstTagRaw.go]
    refine Only.bind (nf_getTagRaw hD n) (fun tag htag => ?_)
    refine Only.bind (nf_getField _ _) (fun t _ => ?_)
    split
    · exact Only.pure _
    · split
      · exact Only.pure _
      · have := getTagRaw_ok_index hD ht htag
        exact ih (n + 1) (by omega) (by omega)

theorem nf_firstTagRaw (hD : DynOK S sz) (ht : 0 < d.tagsize) (type : Option String) :
    NF (firstTagRaw env S data d type) := by
  unfold firstTagRaw
  split
  · exact Only.pure _
  · exact nf_firstTagRaw_go hD ht type _ 0 (Nat.zero_le _) (by unfold tagFuel; exact Nat.le_of_eq (Nat.zero_add _).symm)

theorem nf_addressOffsetFirst_go {ifc : FileIfc} (hI : IfcNF ifc) (start : Nat) :
    ∀ k i, NF (addressOffsetFirst.go ifc start k i) := by
  intro k
  induction k with
  | zero => intro i; rw [addressOffsetFirst.go]; exact Only.pure _
  | succ k ih =>
    intro i
    rw [addressOffsetFirst.go]
    refine Only.bind (hI.getSegment i) ?_
    rintro ⟨nm, ph⟩ _
    refine Only.bind (nf_getField _ _) (fun _ _ => ?_)
    split
    · refine Only.bind (nf_getNat _ _) (fun _ _ => Only.bind (nf_getNat _ _) (fun _ _ => ?_))
      split
      · exact Only.bind (nf_getNat _ _) (fun _ _ => Only.pure _)
      · exact ih _
    · exact ih _

theorem nf_getTableOffset {ifc : FileIfc} (hD : DynOK S sz) (ht : 0 < d.tagsize) (hI : IfcNF ifc) (name : String) :
    NF (getTableOffset env S data ifc d name) := by
  unfold getTableOffset
  refine Only.bind (nf_firstTagRaw hD ht _) (fun r _ => ?_)
  split
  · exact Only.pure _
  · refine Only.bind (nf_getNat _ _) (fun ptr _ => Only.bind ?_ (fun _ _ => Only.pure _))
    unfold addressOffsetFirst
    exact Only.bind hI.numSegments (fun _ _ => nf_addressOffsetFirst_go hI _ _ _)

theorem nf_getStringtable {ifc : FileIfc} (hD : DynOK S sz) (ht : 0 < d.tagsize) (hI : IfcNF ifc) :
    NF (getStringtable env S data ifc d) := by
  unfold getStringtable
  split
  · exact Only.pure _
  · refine Only.bind (nf_getTableOffset hD ht hI _) ?_
    rintro ⟨a, off⟩ _
    simp only
    split
    · exact Only.pure _
    · refine Only.bind (hI.sectionByName _) (fun r _ => ?_)
      split <;> exact Only.pure _

theorem nf_strTabGetString (data : Bytes) (tab : StrTab) (off : Nat) : NF (tab.getString data off) := by
  cases tab with
  | «section» kind hdr =>
    simp only [StrTab.getString]
    split
    · exact Only.error (by decide)
    · exact nf_getString data hdr off
  | dynamic toff =>
    simp only [StrTab.getString]
    refine Only.bind (nf_parseCStringAt data _) (fun r _ => ?_)
    split <;> exact Only.pure _

theorem nf_mkTag (data : Bytes) {st : R (Option StrTab)} (hst : NF st) (entry : Val) : NF (mkTag data st entry) := by
  unfold mkTag
  refine Only.bind hst (fun r _ => ?_)
  split
  · refine Only.bind (nf_getField _ _) (fun _ _ => ?_)
    split
    · exact Only.bind (nf_getNat _ _) (fun _ _ => Only.bind (nf_strTabGetString _ _ _) (fun _ _ => Only.pure _))
    · exact Only.pure _
  · exact Only.throw (by decide)

theorem nf_foldTags_go {σ : Type} (hD : DynOK S sz) (ht : 0 < d.tagsize) (type : Option String)
    {step : σ → DTag → R σ} (hstep : ∀ s t, NF (step s t)) {st : R (Option StrTab)} (hst : NF st) :
    ∀ fuel n s, n ≤ (data.length - d.offset) / d.tagsize + 1 → (data.length - d.offset) / d.tagsize + 2 ≤ n + fuel →
      NF (foldTags.go env S data d type step st fuel n s) := by
  intro fuel
  induction fuel with
  | zero => intro n s h1 h2; omega
  | succ fuel ih =>
    intro n s h1 h2
    rw [foldTags.go]
    refine Only.bind (nf_getTagRaw hD n) (fun tag htag => ?_)
    refine Only.bind (nf_getField _ _) (fun t _ => ?_)
    have hidx := getTagRaw_ok_index hD ht htag
    have hjp : ∀ s', NF (if isStr t "DT_NULL" = true then (pure s' : R σ)
        else foldTags.go env S data d type step st fuel (n + 1) s') := by
      intro s'
      split
      · exact Only.pure _
      · exact ih (n + 1) s' (by omega) (by omega)
    dsimp only
    split
    · exact Only.bind (nf_mkTag data hst tag) (fun _ _ => Only.bind (hstep _ _) (fun s' _ => hjp s'))
    · exact Only.bind (Only.pure _) (fun s' _ => hjp s')

/-- `outOfFuel` is unreachable from the tag walk -/
theorem nf_foldTags {σ : Type} {ifc : FileIfc} (hD : DynOK S sz) (ht : 0 < d.tagsize) (hI : IfcNF ifc)
    (type : Option String) {step : σ → DTag → R σ} (hstep : ∀ s t, NF (step s t)) (init : σ) :
    NF (foldTags env S data ifc d type step init) := by
  unfold foldTags
  split
  · exact Only.pure _
  · exact nf_foldTags_go hD ht type hstep (nf_getStringtable hD ht hI) _ 0 init (Nat.zero_le _) (by unfold tagFuel; exact Nat.le_of_eq (Nat.zero_add _).symm)

theorem nf_iterTags {ifc : FileIfc} (hD : DynOK S sz) (ht : 0 < d.tagsize) (hI : IfcNF ifc) (type : Option String) :
    NF (iterTags env S data ifc d type) := by
  unfold iterTags
  exact Only.bind (nf_foldTags hD ht hI type (fun _ _ => Only.pure _) []) (fun _ _ => Only.pure _)

/-- the list accumulated by the walk grows by at most one per entry that parses -/
theorem foldTags_go_count (hD : DynOK S sz) (ht : 0 < d.tagsize) (type : Option String) (st : R (Option StrTab)) :
    ∀ fuel n (acc acc' : List DTag), n ≤ (data.length - d.offset) / d.tagsize + 1 →
      foldTags.go env S data d type (fun acc t => pure (t :: acc)) st fuel n acc = .ok acc' →
      acc'.length + n ≤ acc.length + (data.length - d.offset) / d.tagsize + 1 := by
  intro fuel
  induction fuel with
  | zero => intro n acc acc' _ h; rw [foldTags.go] at h; cases h
  | succ fuel ih =>
    intro n acc acc' h1 h
    rw [foldTags.go] at h
    obtain ⟨tag, htag, h⟩ := bind_ok.1 h
    obtain ⟨t, _, h⟩ := bind_ok.1 h
    have hidx := getTagRaw_ok_index hD ht htag
    have hjp : ∀ s' : List DTag, s'.length ≤ acc.length + 1 →
        (if isStr t "DT_NULL" = true then (pure s' : R (List DTag))
          else foldTags.go env S data d type (fun acc t => pure (t :: acc)) st fuel (n + 1) s') = .ok acc' →
        acc'.length + n ≤ acc.length + (data.length - d.offset) / d.tagsize + 1 := by
      intro s' hs' hr
      split at hr
      · cases hr; omega
      · have := ih (n + 1) s' acc' (by omega) hr
        omega
    dsimp only at h
    split at h
    · obtain ⟨tg, _, h⟩ := bind_ok.1 h
      obtain ⟨s', hs', h⟩ := bind_ok.1 h
      cases hs'
      exact hjp _ (by simp) h
    · obtain ⟨s', hs', h⟩ := bind_ok.1 h
      cases hs'
      exact hjp _ (by omega) h

/-- `list(iter_tags())` has at most `(len − offset)/tagsize + 1` elements -/
theorem iterTags_count {ifc : FileIfc} (hD : DynOK S sz) (ht : 0 < d.tagsize) (type : Option String) {l : List DTag}
    (h : iterTags env S data ifc d type = .ok l) : l.length ≤ (data.length - d.offset) / d.tagsize + 1 := by
  unfold iterTags at h
  obtain ⟨acc, hacc, h⟩ := bind_ok.1 h
  cases h
  unfold foldTags at hacc
  split at hacc
  · cases hacc; simp
  · have := foldTags_go_count hD ht type _ _ 0 [] acc (Nat.zero_le _) hacc
    simpa using this

end dyn

/-! ### GNU hash: the chain walk of `get_number_of_symbols` -/

theorem readHashWord_ok {le : Bool} {data : Bytes} {pos w : Nat} (h : readHashWord le data pos = .ok w) :
    pos + 4 ≤ data.length := by
  unfold readHashWord at h
  simp only at h
  split at h
  · rename_i hl
    rw [readN_length] at hl
    omega
  · cases h

theorem readHashWord_only (le : Bool) (data : Bytes) (pos : Nat) :
    Only (fun e => e = .structError) (readHashWord le data pos) := by
  unfold readHashWord
  simp only
  split
  · exact Only.ok _
  · exact Only.error rfl

/-- C03's model: with the fuel `len + 1` the walk ends with a value or with struct.error (short read) -/
theorem gnuCountLoop_only (le : Bool) (data : Bytes) : ∀ fuel pos maxIdx, data.length - pos < fuel →
    Only (fun e => e = .structError) (gnuCountLoop le data fuel pos maxIdx) := by
  intro fuel
  induction fuel with
  | zero => intro pos maxIdx h; omega
  | succ fuel ih =>
    intro pos maxIdx h
    rw [gnuCountLoop]
    cases hr : readHashWord le data pos with
    | error e => exact Only.error (readHashWord_only le data pos e hr)
    | ok cur =>
      simp only
      have := readHashWord_ok hr
      split
      · exact Only.ok _
      · exact ih _ _ (by omega)

/-- … and the number of chain words it reads (`r − maxIdx`) is at most `(len − pos) / 4` -/
theorem gnuCountLoop_steps (le : Bool) (data : Bytes) : ∀ fuel pos maxIdx r,
    gnuCountLoop le data fuel pos maxIdx = .ok r → maxIdx < r ∧ r - maxIdx ≤ (data.length - pos) / 4 := by
  intro fuel
  induction fuel with
  | zero => intro pos maxIdx r h; rw [gnuCountLoop] at h; cases h
  | succ fuel ih =>
    intro pos maxIdx r h
    rw [gnuCountLoop] at h
    cases hr : readHashWord le data pos with
    | error e => rw [hr] at h; cases h
    | ok cur =>
      rw [hr] at h
      simp only at h
      have := readHashWord_ok hr
      split at h
      · cases h; omega
      · have := ih _ _ _ h
        omega

theorem nf_foldlM {α β : Type} (f : β → α → R β) (hf : ∀ b a, NF (f b a)) : ∀ (l : List α) (b : β),
    NF (List.foldlM f b l) := by
  intro l
  induction l with
  | nil => intro b; exact Only.pure _
  | cons y ys ih => intro b; rw [List.foldlM_cons]; exact Only.bind (hf _ _) (fun _ _ => ih _)

theorem nf_listMax (v : Val) : NF (listMax v) := by
  unfold listMax
  split
  · exact Only.error (by decide)
  · rename_i x xs
    exact Only.bind (nf_asNat _) (fun a _ => nf_foldlM _ (fun _ _ => Only.bind (nf_asNat _) (fun _ _ => Only.pure _)) _ _)
  · exact Only.error (by decide)

/-- `GNUHashTable.get_number_of_symbols` (C03's model) never runs out of fuel, on any bytes and any params -/
theorem nf_gnuHashCount (le : Bool) (data : Bytes) (g : GnuHash) : NF (gnuHashCount le data g) := by
  unfold gnuHashCount
  refine Only.bind (nf_getField _ _) (fun _ _ => Only.bind (nf_listMax _) (fun _ _ => Only.bind (nf_getNat _ _) (fun _ _ => ?_)))
  split
  · exact Only.ok _
  · exact (gnuCountLoop_only le data _ _ _ (by omega)).mono (fun e he => by subst he; decide)

/-- C09's model of the same walk (`gnuNumSymbols.walk`, word size 4) -/
theorem walk_only (data : Bytes) (le : Bool) : ∀ fuel p idx, (data.length - p) / 4 + 2 ≤ fuel →
    Only (fun e => e = .structError) (Dynamic.gnuNumSymbols.walk data le 4 fuel p idx) := by
  intro fuel
  induction fuel with
  | zero => intro p idx h; omega
  | succ fuel ih =>
    intro p idx h
    rw [Dynamic.gnuNumSymbols.walk]
    split
    · exact Only.bind (Only.throw rfl) (fun _ h => by cases h)
    · rename_i hl
      have hlen : p + 4 ≤ data.length := by
        have := readN_length data p 4
        simp only [bne_iff_ne, ne_eq, Decidable.not_not] at hl
        omega
      dsimp only
      split
      · exact Only.pure _
      · exact ih _ _ (by omega)

theorem walk_steps (data : Bytes) (le : Bool) : ∀ fuel p idx r,
    Dynamic.gnuNumSymbols.walk data le 4 fuel p idx = .ok r → idx < r ∧ r - idx ≤ (data.length - p) / 4 := by
  intro fuel
  induction fuel with
  | zero => intro p idx r h; rw [Dynamic.gnuNumSymbols.walk] at h; cases h
  | succ fuel ih =>
    intro p idx r h
    rw [Dynamic.gnuNumSymbols.walk] at h
    split at h
    · simp [bind, Except.bind, throw, throwThe, MonadExceptOf.throw] at h
    · rename_i hl
      have hlen : p + 4 ≤ data.length := by
        have := readN_length data p 4
        simp only [bne_iff_ne, ne_eq, Decidable.not_not] at hl
        omega
      dsimp only at h
      split at h
      · cases h; omega
      · have := ih _ _ _ h
        omega

theorem nf_pyMax (l : List Val) : NF (Dynamic.pyMax l) := by
  unfold Dynamic.pyMax
  split
  · exact Only.error (by decide)
  · rename_i x xs
    exact Only.bind (nf_asInt _) (fun a _ => nf_foldlM _ (fun _ _ => Only.bind (nf_asInt _) (fun _ _ => Only.pure _)) _ _)

theorem word_sizeofR (c : ElfCfg) : sizeofR (elfStructs c).Elf_word = .ok 4 := by rfl

/-- `GNUHashTable.get_number_of_symbols` as dynamic.py reaches it (C09's model), Spec structures of any configuration -/
theorem nf_gnuNumSymbols (env : Env) (c : ElfCfg) (data : Bytes) (le : Bool) (off : Nat) :
    NF (Dynamic.gnuNumSymbols env (elfStructs c) data le off) := by
  unfold Dynamic.gnuNumSymbols
  refine Only.bind (nf_structParseAt' (by rfl) data off) ?_
  rintro ⟨params, q⟩ _
  rw [word_sizeofR]
  refine Only.bind (Only.ok _) (fun ws hws => ?_)
  cases hws
  refine Only.bind (nf_sizeofR _) (fun _ _ => Only.bind (nf_getNat _ _) (fun _ _ => Only.bind (nf_getNat _ _) (fun _ _ => ?_)))
  refine Only.bind (nf_getField _ _) (fun _ _ => Only.bind ?_ (fun _ _ => Only.bind (nf_pyMax _) (fun _ _ =>
    Only.bind (nf_getNat _ _) (fun _ _ => ?_))))
  · unfold Dynamic.asList; split
    · exact Only.ok _
    · exact Only.error (by decide)
  · split
    · exact Only.pure _
    · refine Only.bind ?_ (fun _ _ => ?_)
      · unfold seekCheck; split
        · exact Only.error (by decide)
        · exact Only.ok _
      · exact (walk_only data le _ _ _ (Nat.le_refl _)).mono (fun e he => by subst he; decide)

/-! ### hash-table headers: arrays counted by header fields -/

theorem hash_spec (c : ElfCfg) : (elfStructs c).Elf_Hash
    = .struct (.cons (some "nbuckets") false (.uint 4 c.le) (.cons (some "nchains") false (.uint 4 c.le)
        (.cons (some "buckets") false (.array (.ctx "nbuckets") (.uint 4 c.le))
        (.cons (some "chains") false (.array (.ctx "nchains") (.uint 4 c.le)) .nil)))) := by
  simp [elfStructs, st, f, mkFields, Spec.ctx]

theorem gnu_spec (c : ElfCfg) : (elfStructs c).Gnu_Hash
    = .struct (.cons (some "nbuckets") false (.uint 4 c.le) (.cons (some "symoffset") false (.uint 4 c.le)
        (.cons (some "bloom_size") false (.uint 4 c.le) (.cons (some "bloom_shift") false (.uint 4 c.le)
        (.cons (some "bloom") false (.array (.ctx "bloom_size") (.uint (c.cls / 8) c.le))
        (.cons (some "buckets") false (.array (.ctx "nbuckets") (.uint 4 c.le)) .nil)))))) := by
  simp [elfStructs, st, f, mkFields, Spec.ctx]

theorem parseFields_named_ok {env : Env} {data : Bytes} {nm : String} {c : Con} {rest : ConFields}
    {obj ctx : Fields} {pos : Nat} {r : Fields × Nat × Fields}
    (h : Con.parseFields env data (.cons (some nm) false c rest) obj ctx pos = .ok r) :
    ∃ v p c', Con.parse env data c ctx pos = .ok (v, p, c') ∧
      Con.parseFields env data rest (Fields.set obj nm v) (Fields.set c' nm v) p = .ok r := by
  rw [Con.parseFields] at h
  simp only [Bool.false_eq_true, if_false] at h
  obtain ⟨⟨v, p, c'⟩, h1, h2⟩ := bind_ok.1 h
  exact ⟨v, p, c', h1, h2⟩

theorem parse_uint_full {env : Env} {data : Bytes} {k : Nat} {le : Bool} {ctx : Fields} {pos : Nat} {v : Val} {p : Nat}
    {c' : Fields} (hk : 0 < k) (h : Con.parse env data (.uint k le) ctx pos = .ok (v, p, c')) :
    v = .int (decNat le (readN data pos k)) ∧ p = pos + k ∧ c' = ctx ∧ pos + k ≤ data.length := by
  obtain ⟨h1, h2, h3⟩ := parse_uint_ok hk h
  rw [Con.parse] at h
  obtain ⟨bs, hb, h⟩ := bind_ok.1 h
  have : bs = readN data pos k := by
    unfold readExact at hb
    simp only at hb
    split at hb
    · cases hb; rfl
    · cases hb
  subst this
  simp only [pure, Except.pure, Except.ok.injEq, Prod.mk.injEq] at h
  exact ⟨h.1.symm, h1, h2, h3⟩

/-- an array counted by the context field `key` (holding the natural number `n`) that parses lies inside the file -/
theorem parse_array_ctx_ok {env : Env} {data : Bytes} {key : String} {k : Nat} {le : Bool} {ctx : Fields} {pos n : Nat}
    {r : Val × Nat × Fields} (hk : 0 < k) (hkey : Fields.get? ctx key = some (.int (n : Int)))
    (h : Con.parse env data (.array (.ctx key) (.uint k le)) ctx pos = .ok r) :
    r.2.1 = pos + n * k ∧ r.2.2 = ctx ∧ (0 < n → pos + n * k ≤ data.length) := by
  rw [Con.parse] at h
  simp only [Expr.eval, Fields.getR, hkey, bind, Except.bind, Val.asInt, Int.toNat_natCast] at h
  exact arrayLoop_uint_ok_bound env data k le hk n pos ctx [] r h

/-- THE WORK BOUND at the construct level: an array counted by a header field whose value `n` exceeds what the rest
    of the file can hold fails with ELFParseError, and its parse IS the loop over `(len − pos)/k + 1` elements
    (the failure happens among those; no later element is touched) -/
theorem parse_array_ctx_absurd {env : Env} {data : Bytes} {key : String} {k : Nat} {le : Bool} {ctx : Fields} {pos n : Nat}
    (hk : 0 < k) (hkey : Fields.get? ctx key = some (.int (n : Int))) (hn : (data.length - pos) / k + 1 ≤ n) :
    Con.parse env data (.array (.ctx key) (.uint k le)) ctx pos = .error .elfParseError ∧
    Con.parse env data (.array (.ctx key) (.uint k le)) ctx pos
      = arrayLoop (fun p c => Con.parse env data (.uint k le) c p) ((data.length - pos) / k + 1) pos ctx [] := by
  have := arrayLoop_uint_absurd env data k le hk n pos ctx [] hn
  rw [Con.parse]
  simp only [Expr.eval, Fields.getR, hkey, bind, Except.bind, Val.asInt, Int.toNat_natCast]
  exact ⟨this.1, by rw [this.1, this.2]⟩

/-- `Elf_Hash` parses only if header and both arrays lie inside the file: `8 + 4·(nbucket + nchain) ≤ len − off`,
    where `nbucket`, `nchain` are the two words the file holds at `off` -/
theorem hash_parse_ok_bound (env : Env) (c : ElfCfg) (data : Bytes) (off : Nat) (r : Val × Nat)
    (h : structParse env (elfStructs c).Elf_Hash data off = .ok r) :
    r.2 = off + 8 + 4 * decNat c.le (readN data off 4) + 4 * decNat c.le (readN data (off + 4) 4) ∧
    r.2 ≤ data.length := by
  rw [hash_spec] at h
  unfold structParse at h
  obtain ⟨⟨v, p, cx⟩, hP, hp⟩ := bind_ok.1 h
  clear h
  simp only [pure, Except.pure, Except.ok.injEq] at hp
  subst hp
  rw [Con.parse] at hP
  obtain ⟨⟨obj, p', cx'⟩, hF, hp⟩ := bind_ok.1 hP
  clear hP
  simp only [pure, Except.pure, Except.ok.injEq, Prod.mk.injEq] at hp
  obtain ⟨-, rfl, -⟩ := hp
  obtain ⟨v1, p1, c1, h1, h⟩ := parseFields_named_ok hF
  clear hF
  obtain ⟨rfl, rfl, rfl, hl1⟩ := parse_uint_full (by decide) h1
  obtain ⟨v2, p2, c2, h2, h⟩ := parseFields_named_ok h
  obtain ⟨rfl, rfl, rfl, hl2⟩ := parse_uint_full (by decide) h2
  obtain ⟨v3, p3, c3, h3, h⟩ := parseFields_named_ok h
  obtain ⟨e1, e2, e3⟩ := parse_array_ctx_ok (n := decNat c.le (readN data off 4)) (by decide)
    (by simp [Fields.set, Fields.get?]) h3
  simp only at e1 e2 e3
  subst e1; subst e2
  obtain ⟨v4, p4, c4, h4, h⟩ := parseFields_named_ok h
  obtain ⟨e4, e5, e6⟩ := parse_array_ctx_ok (n := decNat c.le (readN data (off + 4) 4)) (by decide)
    (by simp [Fields.set, Fields.get?]) h4
  simp only at e4 e5 e6
  subst e4; subst e5
  rw [Con.parseFields] at h
  simp only [Except.ok.injEq, Prod.mk.injEq] at h
  obtain ⟨-, rfl, -⟩ := h
  simp only
  refine ⟨by omega, ?_⟩
  by_cases hz2 : 0 < decNat c.le (readN data (off + 4) 4)
  · have := e6 hz2; omega
  · by_cases hz1 : 0 < decNat c.le (readN data off 4)
    · have := e3 hz1; omega
    · omega

/-- `Gnu_Hash` parses only if the four header words, the bloom filter and the buckets lie inside the file -/
theorem gnu_parse_ok_bound (env : Env) (c : ElfCfg) (hc : c.cls = 32 ∨ c.cls = 64) (data : Bytes) (off : Nat)
    (r : Val × Nat) (h : structParse env (elfStructs c).Gnu_Hash data off = .ok r) :
    r.2 = off + 16 + decNat c.le (readN data (off + 8) 4) * (c.cls / 8) + 4 * decNat c.le (readN data off 4) ∧
    r.2 ≤ data.length := by
  have hw : 0 < c.cls / 8 := by rcases hc with h | h <;> rw [h] <;> decide
  rw [gnu_spec] at h
  unfold structParse at h
  obtain ⟨⟨v, p, cx⟩, hP, hp⟩ := bind_ok.1 h
  clear h
  simp only [pure, Except.pure, Except.ok.injEq] at hp
  subst hp
  rw [Con.parse] at hP
  obtain ⟨⟨obj, p', cx'⟩, hF, hp⟩ := bind_ok.1 hP
  clear hP
  simp only [pure, Except.pure, Except.ok.injEq, Prod.mk.injEq] at hp
  obtain ⟨-, rfl, -⟩ := hp
  obtain ⟨v1, p1, c1, h1, h⟩ := parseFields_named_ok hF
  clear hF
  obtain ⟨rfl, rfl, rfl, hl1⟩ := parse_uint_full (by decide) h1
  obtain ⟨v2, p2, c2, h2, h⟩ := parseFields_named_ok h
  obtain ⟨rfl, rfl, rfl, hl2⟩ := parse_uint_full (by decide) h2
  obtain ⟨v3, p3, c3, h3, h⟩ := parseFields_named_ok h
  obtain ⟨rfl, rfl, rfl, hl3⟩ := parse_uint_full (by decide) h3
  obtain ⟨v4, p4, c4, h4, h⟩ := parseFields_named_ok h
  obtain ⟨rfl, rfl, rfl, hl4⟩ := parse_uint_full (by decide) h4
  obtain ⟨v5, p5, c5, h5, h⟩ := parseFields_named_ok h
  obtain ⟨e1, e2, e3⟩ := parse_array_ctx_ok (n := decNat c.le (readN data (off + 4 + 4) 4)) hw
    (by simp [Fields.set, Fields.get?]) h5
  simp only at e1 e2 e3
  subst e1; subst e2
  obtain ⟨v6, p6, c6, h6, h⟩ := parseFields_named_ok h
  obtain ⟨e4, e5, e6⟩ := parse_array_ctx_ok (n := decNat c.le (readN data off 4)) (by decide)
    (by simp [Fields.set, Fields.get?]) h6
  simp only at e4 e5 e6
  subst e4; subst e5
  rw [Con.parseFields] at h
  simp only [Except.ok.injEq, Prod.mk.injEq] at h
  obtain ⟨-, rfl, -⟩ := h
  simp only
  have ho : off + 4 + 4 = off + 8 := by omega
  rw [ho] at e3 e6 ⊢
  refine ⟨by omega, ?_⟩
  by_cases hz2 : 0 < decNat c.le (readN data off 4)
  · have := e6 hz2; omega
  · by_cases hz1 : 0 < decNat c.le (readN data (off + 8) 4)
    · have := e3 hz1; omega
    · have hz : decNat c.le (readN data (off + 8) 4) = 0 := by omega
      rw [hz, Nat.zero_mul]; omega

end PyElf.Proofs.ElfLoops
