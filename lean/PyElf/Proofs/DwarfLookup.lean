/-
  Helper lemmas for C13: bisect on sorted lists, the stable sort, the aranges lookup,
  the unit cache.
-/
import PyElf.Core.Construct
import PyElf.Spec.DwarfLookup
import PyElf.Model.DwarfLookup
import PyElf.Proofs.Primitives
namespace PyElf.Proofs.Lookup
open PyElf PyElf.Spec.Lookup PyElf.Model.Lookup

/-! ### bisect_right -/

/-- index-wise sortedness (what `bisect` needs) -/
def SortedKeys (keys : List Nat) : Prop :=
  ∀ (i j ki kj : Nat), i ≤ j → keys[i]? = some ki → keys[j]? = some kj → ki ≤ kj

theorem sortedKeys_of_pairwise {keys : List Nat} (h : keys.Pairwise (· ≤ ·)) : SortedKeys keys := by
  induction keys with
  | nil => intro i j ki kj _ hi; simp at hi
  | cons k ks ih =>
    rw [List.pairwise_cons] at h
    intro i j ki kj hij hi hj
    cases i with
    | zero =>
      cases j with
      | zero => simp at hi hj; omega
      | succ j =>
        simp at hi hj
        have : kj ∈ ks := List.mem_of_getElem? hj
        have := h.1 kj this
        omega
    | succ i =>
      cases j with
      | zero => omega
      | succ j =>
        simp at hi hj
        exact ih h.2 i j ki kj (by omega) hi hj

/-- what `bisect_right` returns on a sorted list: the split point between keys ≤ x and keys > x -/
def IsSplit (keys : List Nat) (x i : Nat) : Prop :=
  i ≤ keys.length ∧ (∀ j k, j < i → keys[j]? = some k → k ≤ x) ∧ (∀ j k, i ≤ j → keys[j]? = some k → x < k)

theorem bisectLoop_spec (keys : List Nat) (x : Nat) (hs : SortedKeys keys) :
    ∀ fuel lo hi, lo ≤ hi → hi ≤ keys.length → hi - lo < fuel →
      (∀ j k, j < lo → keys[j]? = some k → k ≤ x) → (∀ j k, hi ≤ j → keys[j]? = some k → x < k) →
      ∃ i, bisectLoop keys x fuel lo hi = .ok i ∧ IsSplit keys x i := by
  intro fuel
  induction fuel with
  | zero => intro lo hi _ _ h; omega
  | succ fuel ih =>
    intro lo hi hle hlen hf hlo hhi
    unfold bisectLoop
    by_cases hlt : lo < hi
    · simp only [hlt, if_true]
      have hmid : (lo + hi) / 2 < keys.length := by omega
      have hget : keys[(lo + hi) / 2]? = some keys[(lo + hi) / 2] := List.getElem?_eq_getElem hmid
      rw [hget]
      simp only
      by_cases hx : x < keys[(lo + hi) / 2]
      · simp only [hx, if_true]
        apply ih lo ((lo + hi) / 2) (by omega) (by omega) (by omega) hlo
        intro j k hj hk
        have := hs _ _ _ _ hj hget hk
        omega
      · simp only [hx, if_false]
        apply ih ((lo + hi) / 2 + 1) hi (by omega) hlen (by omega) _ hhi
        intro j k hj hk
        have := hs _ _ _ _ (show j ≤ (lo + hi) / 2 by omega) hk hget
        omega
    · simp only [hlt, if_false]
      refine ⟨lo, rfl, by omega, hlo, ?_⟩
      intro j k hj hk
      exact hhi j k (by omega) hk

theorem bisectRight_spec {keys : List Nat} (x : Nat) (hs : SortedKeys keys) :
    ∃ i, bisectRight keys x = .ok i ∧ IsSplit keys x i := by
  unfold bisectRight
  apply bisectLoop_spec keys x hs (keys.length + 1) 0 keys.length (by omega) (by omega) (by omega)
  · intro j k hj; omega
  · intro j k hj hk
    have := (List.getElem?_eq_some_iff.mp hk).1
    omega

theorem isSplit_unique {keys : List Nat} {x i i' : Nat} (h : IsSplit keys x i) (h' : IsSplit keys x i') : i = i' := by
  obtain ⟨hl, ha, hb⟩ := h
  obtain ⟨hl', ha', hb'⟩ := h'
  by_cases hlt : i < i'
  · have hget : keys[i]? = some keys[i] := List.getElem?_eq_getElem (by omega)
    have := ha' i _ hlt hget
    have := hb i _ (Nat.le_refl _) hget
    omega
  · by_cases hgt : i' < i
    · have hget : keys[i']? = some keys[i'] := List.getElem?_eq_getElem (by omega)
      have := ha i' _ hgt hget
      have := hb' i' _ (Nat.le_refl _) hget
      omega
    · omega

/-! ### the stable sort -/

theorem mem_insertByKey {α} (key : α → Nat) (e x : α) (l : List α) :
    x ∈ insertByKey key e l ↔ x = e ∨ x ∈ l := by
  induction l with
  | nil => simp [insertByKey]
  | cons y ys ih =>
    unfold insertByKey
    split
    · simp
    · simp [ih, or_left_comm]

theorem mem_pySortBy {α} (key : α → Nat) (x : α) (l : List α) : x ∈ pySortBy key l ↔ x ∈ l := by
  induction l with
  | nil => simp [pySortBy]
  | cons y ys ih =>
    have : pySortBy key (y :: ys) = insertByKey key y (pySortBy key ys) := rfl
    rw [this, mem_insertByKey, ih]; simp

theorem pairwise_insertByKey {α} (key : α → Nat) (e : α) (l : List α)
    (h : l.Pairwise (fun a b => key a ≤ key b)) : (insertByKey key e l).Pairwise (fun a b => key a ≤ key b) := by
  induction l with
  | nil => simp [insertByKey]
  | cons y ys ih =>
    rw [List.pairwise_cons] at h
    unfold insertByKey
    split
    · rename_i hle
      rw [List.pairwise_cons]
      refine ⟨?_, List.pairwise_cons.mpr h⟩
      intro b hb
      rcases List.mem_cons.mp hb with rfl | hb
      · exact hle
      · have := h.1 b hb; omega
    · rename_i hnle
      rw [List.pairwise_cons]
      refine ⟨?_, ih h.2⟩
      intro b hb
      rcases (mem_insertByKey key e b ys).mp hb with rfl | hb
      · omega
      · exact h.1 b hb

theorem pairwise_pySortBy {α} (key : α → Nat) (l : List α) :
    (pySortBy key l).Pairwise (fun a b => key a ≤ key b) := by
  induction l with
  | nil => simp [pySortBy]
  | cons y ys ih => exact pairwise_insertByKey key y _ ih

theorem sortedKeys_pySortBy {α} (key : α → Nat) (l : List α) : SortedKeys ((pySortBy key l).map key) := by
  apply sortedKeys_of_pairwise
  rw [List.pairwise_map]
  exact pairwise_pySortBy key l

theorem sortByBegin_eq (es : List AREntry) : sortByBegin es = pySortBy (·.begin) es := by
  have hins : ∀ e l, insertByBegin e l = insertByKey (·.begin) e l := by
    intro e l
    induction l with
    | nil => rfl
    | cons x xs ih => simp [insertByBegin, insertByKey, ih]
  induction es with
  | nil => rfl
  | cons e es ih =>
    show insertByBegin e (sortByBegin es) = insertByKey (·.begin) e (pySortBy (·.begin) es)
    rw [ih, hins]

/-! ### the aranges lookup -/

theorem pairwise_mem {α} {R : α → α → Prop} (hsym : ∀ x y, R x y → R y x) {l : List α} (h : l.Pairwise R)
    {x y : α} (hx : x ∈ l) (hy : y ∈ l) (hne : x ≠ y) : R x y := by
  induction l with
  | nil => simp at hx
  | cons z zs ih =>
    rw [List.pairwise_cons] at h
    rcases List.mem_cons.mp hx with hxz | hxz
    · rcases List.mem_cons.mp hy with hyz | hyz
      · exact absurd (hxz.trans hyz.symm) hne
      · rw [hxz]; exact h.1 y hyz
    · rcases List.mem_cons.mp hy with hyz | hyz
      · rw [hyz]; exact hsym _ _ (h.1 x hxz)
      · exact ih h.2 hxz hyz

theorem noShadow_symm (x y : AREntry) (h : noShadow x y) : noShadow y x := ⟨h.2, h.1⟩

/-- under `noShadow`, two entries of the table covering the same address are equal -/
theorem covers_unique {es : List AREntry} (h : es.Pairwise noShadow) {e e' : AREntry} {a : Nat}
    (he : e ∈ es) (he' : e' ∈ es) (hc : covers e a) (hc' : covers e' a) : e = e' := by
  by_cases hne : e = e'
  · exact hne
  · have hns := pairwise_mem noShadow_symm h he he' hne
    unfold noShadow covers at hns
    unfold covers at hc hc'
    omega

theorem cuOffsetAt_of_covers {es : List AREntry} (h : es.Pairwise noShadow) {e : AREntry} {a : Nat}
    (he : e ∈ es) (hc : covers e a) : cuOffsetAt es a = some e.infoOff := by
  unfold cuOffsetAt
  cases hf : es.find? fun e => decide (covers e a) with
  | none =>
    have := List.find?_eq_none.mp hf e he
    simp [hc] at this
  | some e' =>
    have hm := List.mem_of_find?_eq_some hf
    have hc' : covers e' a := by simpa using List.find?_some hf
    simp [covers_unique h he hm hc hc']

theorem cuOffsetAt_none {es : List AREntry} {a : Nat} (h : ∀ e ∈ es, ¬ covers e a) : cuOffsetAt es a = none := by
  unfold cuOffsetAt
  rw [List.find?_eq_none.mpr]
  · rfl
  · intro e he; simpa using h e he

theorem cuOffsetAt_some_iff {es : List AREntry} (h : es.Pairwise noShadow) (a o : Nat) :
    cuOffsetAt es a = some o ↔ ∃ e ∈ es, covers e a ∧ e.infoOff = o := by
  constructor
  · intro hs
    unfold cuOffsetAt at hs
    cases hf : es.find? fun e => decide (covers e a) with
    | none => simp [hf] at hs
    | some e' =>
      simp [hf] at hs
      exact ⟨e', List.mem_of_find?_eq_some hf, by simpa using List.find?_some hf, hs⟩
  · rintro ⟨e, he, hc, rfl⟩
    exact cuOffsetAt_of_covers h he hc

theorem cuOffsetAt_none_iff {es : List AREntry} (a : Nat) :
    cuOffsetAt es a = none ↔ ∀ e ∈ es, ¬ covers e a := by
  constructor
  · intro hs e he
    unfold cuOffsetAt at hs
    cases hf : es.find? fun e => decide (covers e a) with
    | none => simpa using List.find?_eq_none.mp hf e he
    | some e' => simp [hf] at hs
  · exact cuOffsetAt_none

/-- the bisect lookup on the sorted table is the declarative lookup on the encoded tuples -/
theorem cuOffsetAtAddr_eq (es : List AREntry) (h : es.Pairwise noShadow) (a : Nat) :
    ARanges.cuOffsetAtAddr ⟨pySortBy (·.begin) es, (pySortBy (·.begin) es).map (·.begin)⟩ a
      = .ok (cuOffsetAt es a) := by
  have hsorted := sortedKeys_pySortBy (·.begin) es
  obtain ⟨i, hi, hlen, hle, hgt⟩ := bisectRight_spec a hsorted
  -- position of an entry in the sorted list
  have hpos : ∀ e ∈ es, ∃ j : Nat, (pySortBy (·.begin) es)[j]? = some e := by
    intro e he
    exact List.mem_iff_getElem?.mp ((mem_pySortBy _ e es).mpr he)
  have hkey : ∀ (j : Nat) e, (pySortBy (·.begin) es)[j]? = some e →
      ((pySortBy (·.begin) es).map (·.begin))[j]? = some e.begin := by
    intro j e hj; simp [List.getElem?_map, hj]
  unfold ARanges.cuOffsetAtAddr
  simp only [hi, bind, Except.bind, pure, Except.pure]
  by_cases hi0 : i = 0
  · subst hi0
    simp only [if_true]
    rw [cuOffsetAt_none]
    intro e he hc
    obtain ⟨j, hj⟩ := hpos e he
    have := hgt j _ (Nat.zero_le _) (hkey j e hj)
    unfold covers at hc; omega
  · simp only [hi0, if_false]
    have hlen' : i - 1 < (pySortBy (·.begin) es).length := by
      simp at hlen; omega
    have hget : (pySortBy (·.begin) es)[i - 1]? = some (pySortBy (·.begin) es)[i - 1] :=
      List.getElem?_eq_getElem hlen'
    rw [hget]
    simp only
    have htm : (pySortBy (·.begin) es)[i - 1] ∈ es :=
      (mem_pySortBy _ _ es).mp (List.getElem_mem hlen')
    have htle := hle (i - 1) _ (by omega) (hkey _ _ hget)
    by_cases hc : (pySortBy (·.begin) es)[i - 1].begin ≤ a ∧
        a < (pySortBy (·.begin) es)[i - 1].begin + (pySortBy (·.begin) es)[i - 1].len
    · simp only [hc, and_self, if_true]
      rw [cuOffsetAt_of_covers h htm hc]
    · simp only [hc, if_false]
      rw [cuOffsetAt_none]
      intro e he hce
      obtain ⟨j, hj⟩ := hpos e he
      have hji : j < i := by
        by_cases hji : j < i
        · exact hji
        · have := hgt j _ (by omega) (hkey j e hj)
          unfold covers at hce; omega
      have hble := hsorted j (i - 1) _ _ (by omega) (hkey j e hj) (hkey _ _ hget)
      by_cases heq : e = (pySortBy (·.begin) es)[i - 1]
      · rw [heq] at hce; exact hc hce
      · have hns := pairwise_mem noShadow_symm h he htm heq
        unfold noShadow covers at hns
        unfold covers at hce
        omega

theorem noShadow_of_disjoint {es : List AREntry} (hd : es.Pairwise disjoint) (hpos : ∀ e ∈ es, 0 < e.len) :
    es.Pairwise noShadow := by
  induction es with
  | nil => exact List.Pairwise.nil
  | cons e es ih =>
    rw [List.pairwise_cons] at hd ⊢
    refine ⟨?_, ih hd.2 (fun x hx => hpos x (List.mem_cons_of_mem _ hx))⟩
    intro b hb
    have h1 := hd.1 b hb
    have h2 := hpos e (List.mem_cons_self)
    have h3 := hpos b (List.mem_cons_of_mem _ hb)
    unfold disjoint at h1
    unfold noShadow covers
    omega

/-! ### the unit cache (`_cu_offsets_map` / `_cu_cache`) -/

/-- the units of a section as the pure parser `P` sees them: starting at `o`, each unit is
    parsed at the end of the previous one and the last one ends at `size` -/
def Chain (P : Nat → R CU) (size : Nat) : Nat → List CU → Prop
  | o, [] => o = size
  | o, c :: cs => o < size ∧ P o = .ok c ∧ ∃ sz, c.size = .ok sz ∧ 0 < sz ∧ Chain P size (o + sz) cs

/-- cache invariant: parallel arrays, offsets sorted, every cached object is the pure parse at
    its offset and is one of the section's units -/
structure Inv (P : Nat → R CU) (cs : List CU) (st : CUCache) : Prop where
  par : st.offsets = st.cus.map (·.cuOffset)
  sorted : st.offsets.Pairwise (· ≤ ·)
  pure : ∀ c ∈ st.cus, P c.cuOffset = .ok c
  unit : ∀ c ∈ st.cus, c ∈ cs

theorem inv_empty (P : Nat → R CU) (cs : List CU) : Inv P cs CUCache.empty :=
  { par := rfl, sorted := List.Pairwise.nil,
    pure := fun c hc => by simp [CUCache.empty] at hc,
    unit := fun c hc => by simp [CUCache.empty] at hc }

theorem mem_pyInsert {α} (l : List α) (i : Nat) (x y : α) : y ∈ pyInsert l i x ↔ y = x ∨ y ∈ l := by
  unfold pyInsert
  rw [List.mem_append, List.mem_cons]
  constructor
  · rintro (h | h | h)
    · exact Or.inr (List.mem_of_mem_take h)
    · exact Or.inl h
    · exact Or.inr (List.mem_of_mem_drop h)
  · rintro (h | h)
    · exact Or.inr (Or.inl h)
    · have : y ∈ l.take i ++ l.drop i := by rw [List.take_append_drop]; exact h
      rcases List.mem_append.mp this with h | h
      · exact Or.inl h
      · exact Or.inr (Or.inr h)

theorem pairwise_pyInsert {keys : List Nat} {x i : Nat} (hs : keys.Pairwise (· ≤ ·)) (hsp : IsSplit keys x i) :
    (pyInsert keys i x).Pairwise (· ≤ ·) := by
  obtain ⟨_, hle, hgt⟩ := hsp
  have hsplit : (keys.take i ++ keys.drop i).Pairwise (· ≤ ·) := by rw [List.take_append_drop]; exact hs
  rw [List.pairwise_append] at hsplit
  obtain ⟨ht, hd, hcross⟩ := hsplit
  have hta : ∀ a ∈ keys.take i, a ≤ x := by
    intro a ha
    obtain ⟨j, hj⟩ := List.mem_iff_getElem?.mp ha
    rw [List.getElem?_take] at hj
    split at hj
    · rename_i hji; exact hle j a hji hj
    · cases hj
  have hdb : ∀ b ∈ keys.drop i, x < b := by
    intro b hb
    obtain ⟨j, hj⟩ := List.mem_iff_getElem?.mp hb
    rw [List.getElem?_drop] at hj
    exact hgt (i + j) b (by omega) hj
  unfold pyInsert
  rw [List.pairwise_append, List.pairwise_cons]
  refine ⟨ht, ⟨fun b hb => Nat.le_of_lt (hdb b hb), hd⟩, ?_⟩
  intro a ha b hb
  rcases List.mem_cons.mp hb with rfl | hb
  · exact hta a ha
  · exact hcross a ha b hb

/-- a unit that is (or is not yet) cached is returned as the pure parse, and the invariant is kept -/
theorem cachedCUAtOffset_spec {P : Nat → R CU} {cs : List CU} {st : CUCache} {c : CU} {o : Nat}
    (hPo : ∀ o c, P o = .ok c → c.cuOffset = o)
    (hinv : Inv P cs st) (hc : c ∈ cs) (hP : P o = .ok c) :
    ∃ st', cachedCUAtOffset P st o = (.ok c, st') ∧ Inv P cs st' := by
  have hco : c.cuOffset = o := hPo o c hP
  obtain ⟨i, hi, hsp⟩ := bisectRight_spec o (sortedKeys_of_pairwise hinv.sorted)
  unfold cachedCUAtOffset
  simp only [hi]
  by_cases hi1 : i ≥ 1
  · simp only [hi1, if_true]
    have hlen : i - 1 < st.offsets.length := by have := hsp.1; omega
    have hget : st.offsets[i - 1]? = some st.offsets[i - 1] := List.getElem?_eq_getElem hlen
    rw [hget]
    simp only
    by_cases heq : o = st.offsets[i - 1]
    · have hb : (o == st.offsets[i - 1]) = true := by simp [heq]
      simp only [hb]
      -- the parallel entry
      have hlen2 : i - 1 < st.cus.length := by
        have := congrArg List.length hinv.par; simp at this; omega
      have hgc : st.cus[i - 1]? = some st.cus[i - 1] := List.getElem?_eq_getElem hlen2
      rw [hgc]
      simp only
      have hm : st.cus[i - 1] ∈ st.cus := List.getElem_mem hlen2
      have hoff : st.cus[i - 1].cuOffset = o := by
        have h1 : st.offsets[i - 1]? = (st.cus.map (·.cuOffset))[i - 1]? := by rw [← hinv.par]
        rw [hget, List.getElem?_map, hgc] at h1
        simp at h1
        rw [← h1]; exact heq.symm
      have hp := hinv.pure _ hm
      rw [hoff, hP] at hp
      have : c = st.cus[i - 1] := by injection hp
      exact ⟨st, by rw [this], hinv⟩
    · have hb : (o == st.offsets[i - 1]) = false := by simp [heq]
      simp only [hb, hP]
      refine ⟨_, rfl, ?_⟩
      exact ⟨by simp [pyInsert, hinv.par, List.map_take, List.map_drop, hco],
             pairwise_pyInsert hinv.sorted hsp,
             by intro c' hc'
                rcases (mem_pyInsert _ _ _ _).mp hc' with rfl | h
                · rw [hco]; exact hP
                · exact hinv.pure c' h,
             by intro c' hc'
                rcases (mem_pyInsert _ _ _ _).mp hc' with rfl | h
                · exact hc
                · exact hinv.unit c' h⟩
  · simp only [hi1, if_false, hP]
    refine ⟨_, rfl, ?_⟩
    exact ⟨by simp [pyInsert, hinv.par, List.map_take, List.map_drop, hco],
           pairwise_pyInsert hinv.sorted hsp,
           by intro c' hc'
              rcases (mem_pyInsert _ _ _ _).mp hc' with rfl | h
              · rw [hco]; exact hP
              · exact hinv.pure c' h,
           by intro c' hc'
              rcases (mem_pyInsert _ _ _ _).mp hc' with rfl | h
              · exact hc
              · exact hinv.unit c' h⟩

/-- walking the units from a unit start finds the unit containing `x` -/
theorem containingLoop_spec {P : Nat → R CU} {size x : Nat} {all : List CU}
    (hPo : ∀ o c, P o = .ok c → c.cuOffset = o) (hx : x < size) :
    ∀ (cs : List CU) (o fuel : Nat) (st : CUCache), Chain P size o cs → (∀ c ∈ cs, c ∈ all) → Inv P all st →
      o ≤ x → size - o < fuel →
      ∃ c sz st', containingLoop P size x fuel o st = (.ok c, st') ∧ c ∈ cs ∧ c.size = .ok sz ∧
        c.cuOffset ≤ x ∧ x < c.cuOffset + sz ∧ Inv P all st' := by
  intro cs
  induction cs with
  | nil => intro o fuel st hch; simp [Chain] at hch; omega
  | cons c cs ih =>
    intro o fuel st hch hsub hinv hox hfuel
    obtain ⟨hos, hP, sz, hsz, hpos, hrest⟩ := hch
    cases fuel with
    | zero => omega
    | succ fuel =>
      have hco : c.cuOffset = o := hPo o c hP
      obtain ⟨st1, hcache, hinv1⟩ := cachedCUAtOffset_spec hPo hinv (hsub c List.mem_cons_self) hP
      unfold containingLoop
      simp only [hos, if_true, hcache, hsz]
      by_cases hin : c.cuOffset ≤ x ∧ x < c.cuOffset + sz
      · simp only [hin, and_self, if_true]
        exact ⟨c, sz, st1, rfl, List.mem_cons_self, hsz, hin.1, hin.2, hinv1⟩
      · simp only [hin, if_false]
        obtain ⟨c', sz', st', h1, h2, h3⟩ :=
          ih (o + sz) fuel st1 hrest (fun y hy => hsub y (List.mem_cons_of_mem _ hy)) hinv1 (by omega) (by omega)
        exact ⟨c', sz', st', h1, List.mem_cons_of_mem _ h2, h3⟩

/-- every unit of a chain starts a chain of later units -/
theorem chain_suffix {P : Nat → R CU} {size : Nat} (hPo : ∀ o c, P o = .ok c → c.cuOffset = o) :
    ∀ (cs : List CU) (o : Nat), Chain P size o cs → ∀ c ∈ cs, ∃ cs', Chain P size c.cuOffset cs' ∧ ∀ y ∈ cs', y ∈ cs := by
  intro cs
  induction cs with
  | nil => intro o _ c hc; cases hc
  | cons d cs ih =>
    intro o hch c hc
    rcases List.mem_cons.mp hc with rfl | hc
    · have : c.cuOffset = o := hPo o c hch.2.1
      rw [this]
      exact ⟨c :: cs, hch, fun y hy => hy⟩
    · obtain ⟨_, _, sz, _, _, hrest⟩ := hch
      obtain ⟨cs', h1, h2⟩ := ih (o + sz) hrest c hc
      exact ⟨cs', h1, fun y hy => List.mem_cons_of_mem _ (h2 y hy)⟩

theorem chain_mem {P : Nat → R CU} {size : Nat} (hPo : ∀ o c, P o = .ok c → c.cuOffset = o) :
    ∀ (cs : List CU) (o : Nat), Chain P size o cs → ∀ c ∈ cs,
      o ≤ c.cuOffset ∧ P c.cuOffset = .ok c ∧ ∃ sz, c.size = .ok sz ∧ 0 < sz ∧ c.cuOffset + sz ≤ size := by
  intro cs
  induction cs with
  | nil => intro o _ c hc; cases hc
  | cons d cs ih =>
    intro o hch c hc
    obtain ⟨hos, hP, sz, hsz, hpos, hrest⟩ := hch
    have hbound : ∀ (l : List CU) (o' : Nat), Chain P size o' l → o' ≤ size := by
      intro l
      induction l with
      | nil => intro o' h; simp [Chain] at h; omega
      | cons e l ihl => intro o' h; have := h.1; omega
    rcases List.mem_cons.mp hc with rfl | hc
    · have hco : c.cuOffset = o := hPo o c hP
      refine ⟨by omega, by rw [hco]; exact hP, sz, hsz, hpos, ?_⟩
      have := hbound cs (o + sz) hrest
      omega
    · obtain ⟨h1, h2, h3⟩ := ih (o + sz) hrest c hc
      exact ⟨by omega, h2, h3⟩

/-- the extents of the units of a chain are disjoint: an offset lies in at most one -/
theorem chain_unique {P : Nat → R CU} {size : Nat} (hPo : ∀ o c, P o = .ok c → c.cuOffset = o) :
    ∀ (cs : List CU) (o : Nat), Chain P size o cs → ∀ c ∈ cs, ∀ c' ∈ cs, ∀ sz sz' x,
      c.size = .ok sz → c'.size = .ok sz' → c.cuOffset ≤ x → x < c.cuOffset + sz →
      c'.cuOffset ≤ x → x < c'.cuOffset + sz' → c = c' := by
  intro cs
  induction cs with
  | nil => intro o _ c hc; cases hc
  | cons d cs ih =>
    intro o hch c hc c' hc' sz sz' x hsz hsz' h1 h2 h3 h4
    obtain ⟨hos, hP, szd, hszd, hpos, hrest⟩ := hch
    have hdo : d.cuOffset = o := hPo o d hP
    rcases List.mem_cons.mp hc with e1 | m1
    · rcases List.mem_cons.mp hc' with e2 | m2
      · rw [e1, e2]
      · have := (chain_mem hPo cs (o + szd) hrest c' m2).1
        rw [e1, hszd] at hsz; injection hsz with hsz
        rw [e1] at h1 h2
        omega
    · rcases List.mem_cons.mp hc' with e2 | m2
      · have := (chain_mem hPo cs (o + szd) hrest c m1).1
        rw [e2, hszd] at hsz'; injection hsz' with hsz'
        rw [e2] at h3 h4
        omega
      · exact ih (o + szd) hrest c m1 c' m2 sz sz' x hsz hsz' h1 h2 h3 h4

/-- `get_CU_containing(x)` for any offset inside the section and any cache state reachable by
    lookups: some unit of the section whose extent contains `x`, and the invariant is kept -/
theorem getCUContaining_spec {P : Nat → R CU} {size x : Nat} {cs : List CU} {st : CUCache}
    (hPo : ∀ o c, P o = .ok c → c.cuOffset = o) (hch : Chain P size 0 cs) (hinv : Inv P cs st) (hx : x < size) :
    ∃ c sz st', getCUContaining P size st x = (.ok c, st') ∧ c ∈ cs ∧ c.size = .ok sz ∧
      c.cuOffset ≤ x ∧ x < c.cuOffset + sz ∧ Inv P cs st' := by
  obtain ⟨i, hi, hsp⟩ := bisectRight_spec x (sortedKeys_of_pairwise hinv.sorted)
  unfold getCUContaining
  simp only [hx, not_true_eq_false, if_false, hi]
  by_cases hi0 : i > 0
  · simp only [hi0, if_true]
    have hlen : i - 1 < st.offsets.length := by have := hsp.1; omega
    have hget : st.offsets[i - 1]? = some st.offsets[i - 1] := List.getElem?_eq_getElem hlen
    rw [hget]
    simp only
    have hle := hsp.2.1 (i - 1) _ (by omega) hget
    have hlen2 : i - 1 < st.cus.length := by
      have := congrArg List.length hinv.par; simp at this; omega
    have hm : st.cus[i - 1] ∈ st.cus := List.getElem_mem hlen2
    have hoff : st.cus[i - 1].cuOffset = st.offsets[i - 1] := by
      have h1 : st.offsets[i - 1]? = (st.cus.map (·.cuOffset))[i - 1]? := by rw [← hinv.par]
      rw [hget, List.getElem?_map, List.getElem?_eq_getElem hlen2] at h1
      simp at h1
      exact h1.symm
    obtain ⟨cs', hch', hsub⟩ := chain_suffix hPo cs 0 hch _ (hinv.unit _ hm)
    rw [hoff] at hch'
    obtain ⟨c, sz, st', h1, h2, h3⟩ :=
      containingLoop_spec hPo hx cs' _ (size + 1) st hch' hsub hinv hle (by omega)
    exact ⟨c, sz, st', h1, hsub c h2, h3⟩
  · simp only [hi0, if_false]
    obtain ⟨c, sz, st', h1, h2, h3⟩ :=
      containingLoop_spec hPo hx cs 0 (size + 1) st hch (fun c hc => hc) hinv (Nat.zero_le _) (by omega)
    exact ⟨c, sz, st', h1, h2, h3⟩

/-- … and it is THE unit whose extent contains `x` -/
theorem getCUContaining_exact {P : Nat → R CU} {size x sz : Nat} {cs : List CU} {st : CUCache} {c : CU}
    (hPo : ∀ o c, P o = .ok c → c.cuOffset = o) (hch : Chain P size 0 cs) (hinv : Inv P cs st)
    (hc : c ∈ cs) (hsz : c.size = .ok sz) (h1 : c.cuOffset ≤ x) (h2 : x < c.cuOffset + sz) :
    ∃ st', getCUContaining P size st x = (.ok c, st') ∧ Inv P cs st' := by
  obtain ⟨_, _, sz0, hsz0, _, hb⟩ := chain_mem hPo cs 0 hch c hc
  rw [hsz] at hsz0; injection hsz0 with hsz0; subst hsz0
  obtain ⟨c', sz', st', hr, hc', hsz', h3, h4, hinv'⟩ := getCUContaining_spec hPo hch hinv (show x < size by omega)
  have := chain_unique hPo cs 0 hch c hc c' hc' sz sz' x hsz hsz' h1 h2 h3 h4
  subst this
  exact ⟨st', hr, hinv'⟩

/-- `get_CU_at(o)` for the start of a unit, in any reachable cache state -/
theorem getCUAt_exact {P : Nat → R CU} {size : Nat} {cs : List CU} {st : CUCache} {c : CU}
    (hPo : ∀ o c, P o = .ok c → c.cuOffset = o) (hch : Chain P size 0 cs) (hinv : Inv P cs st) (hc : c ∈ cs) :
    ∃ st', getCUAt P size st c.cuOffset = (.ok c, st') ∧ Inv P cs st' := by
  obtain ⟨_, hP, sz, _, hpos, hb⟩ := chain_mem hPo cs 0 hch c hc
  unfold getCUAt
  have : c.cuOffset < size := by omega
  simp only [this, not_true_eq_false, if_false]
  exact cachedCUAtOffset_spec hPo hinv hc hP

/-- `get_DIE_from_lut_entry` for an entry that names a unit start and an offset between that
    unit's first DIE and its end -/
theorem getDIEFromLutEntry_exact {P : Nat → R CU} {size sz d : Nat} {cs : List CU} {st : CUCache} {c : CU}
    (hPo : ∀ o c, P o = .ok c → c.cuOffset = o) (hch : Chain P size 0 cs) (hinv : Inv P cs st) (hc : c ∈ cs)
    (hsz : c.size = .ok sz) (h1 : c.cuDieOffset ≤ d) (h2 : d < c.cuOffset + sz) :
    ∃ st', getDIEFromLutEntry P size st c.cuOffset d = (.ok (c, d), st') ∧ Inv P cs st' := by
  obtain ⟨st', hr, hinv'⟩ := getCUAt_exact hPo hch hinv hc
  unfold getDIEFromLutEntry
  simp only [hr, hsz, h1, h2, and_self, if_true]
  exact ⟨st', rfl, hinv'⟩

end PyElf.Proofs.Lookup
