/-
  C11 helper lemmas: relocations on debug sections, in every container encoding.

  `_read_dwarf_section` applies the relocation section that targets a debug section (C08's subject)
  to the section's LOGICAL content: the bytes as stored for a plain section, the inflated bytes for a
  gABI-compressed one and — since the fix `C11-zdebug-relocate-after-decompress` — the inflated bytes
  for a legacy `.zdebug` one.  The relocation model and its theorems are C08's
  (Model/Relocation.lean, `Props.C08.apply_section_eq_std`): here they are composed with the
  container model.
-/
import PyElf.Proofs.ContainerReads
import PyElf.Props.C08
namespace PyElf.Proofs.C11
open PyElf PyElf.Spec PyElf.Model PyElf.Model.C11 PyElf.Spec.C11 PyElf.Proofs PyElf.Proofs.Reloc

/-! ### the logical content, with relocations -/

/-- the relocation section that targets a debug section, as the standards describe it: flavour,
    entries (gABI "Relocation"), and the values of the symbols of the table it links to -/
structure RelocDesc where
  rela : Bool
  es : List RelEntry
  syms : List Nat

/-- logical debug content with relocations: per DWARFInfo keyword the bytes as the producer wrote
    them (before relocation), the load address, and the relocations against them, if any -/
abbrev ContentR := String → Option (Bytes × Nat × Option RelocDesc)

/-- the standard's relocated bytes (`Spec.applyStd`: the psABI formulas folded over the entries);
    `none` when an entry must be rejected.  Untouched when relocation is not asked for or nothing
    targets the section. -/
def relocatedPayload (a : Arch) (c : RelCfg) (relocate : Bool) (payload : Bytes) : Option RelocDesc → Option Bytes
  | none => some payload
  | some r => if relocate then applyStd a c r.rela r.syms payload r.es else some payload

/-- what the DWARF layers must see of a content with relocations -/
def relocatedContent (a : Arch) (c : RelCfg) (relocate : Bool) (cr : ContentR) : Content := fun k =>
  (cr k).bind fun x => (relocatedPayload a c relocate x.1 x.2.2).map fun b => (b, x.2.1)

/-- the content as the producer wrote it -/
def unrelocated (cr : ContentR) : Content := fun k => (cr k).map fun x => (x.1, x.2.1)

theorem relocatedContent_false (a : Arch) (c : RelCfg) (cr : ContentR) :
    relocatedContent a c false cr = unrelocated cr := by
  funext k
  simp only [relocatedContent, unrelocated]
  cases cr k with
  | none => rfl
  | some x =>
    obtain ⟨p, addr, r⟩ := x
    cases r <;> simp [relocatedPayload]

theorem relocatedContent_noReloc (a : Arch) (c : RelCfg) (relocate : Bool) (cr : ContentR)
    (h : ∀ k p addr r, cr k = some (p, addr, r) → r = none) :
    relocatedContent a c relocate cr = unrelocated cr := by
  funext k
  simp only [relocatedContent, unrelocated]
  cases hc : cr k with
  | none => rfl
  | some x =>
    obtain ⟨p, addr, r⟩ := x
    have := h k p addr r hc
    subst this
    simp [relocatedPayload]

theorem relCfgOf_congr (c₁ c₂ : ElfCfg) (hle : c₁.le = c₂.le) (hcls : c₁.cls = c₂.cls) (hmc : c₁.mclass = c₂.mclass) :
    relCfgOf c₁ = relCfgOf c₂ := by
  unfold relCfgOf
  rw [hle, hcls]
  congr 1
  exact decide_eq_decide.mpr (by rw [hmc])

/-! ### the standard's fold keeps the length -/

theorem applyStd_length (a : Arch) (c : RelCfg) (rela : Bool) (syms : List Nat) (L : Nat) :
    ∀ (es : List RelEntry) (sec b : Bytes), sec.length = L → (∀ e ∈ es, WFApplyOne a c rela L e = true) →
      applyStd a c rela syms sec es = some b → b.length = L := by
  intro es
  induction es with
  | nil =>
    intro sec b hL _ h
    simp only [applyStd, Option.some.injEq] at h
    rw [← h, hL]
  | cons e es ih =>
    intro sec b hL hwf h
    simp only [applyStd, applyOneStd] at h
    cases hs : syms[e.sym]? with
    | none => simp [hs] at h
    | some s =>
      simp only [hs] at h
      cases ha : applyAfterSym a c rela s sec e with
      | none => simp [ha] at h
      | some sec' =>
        simp only [ha] at h
        have hwe := hwf e List.mem_cons_self
        rw [← hL] at hwe
        have hl := applyAfterSym_length hwe ha
        exact ih sec' b (by omega) (fun e' he' => hwf e' (List.mem_cons_of_mem _ he')) h

theorem applyStd_length_of_wf {a : Arch} {c : RelCfg} {rela : Bool} {syms : List Nat} {sec b : Bytes} {es : List RelEntry}
    (hwf : WFApply a c rela syms sec.length es = true) (h : applyStd a c rela syms sec es = some b) :
    b.length = sec.length := by
  simp only [WFApply, Bool.and_eq_true, List.all_eq_true] at hwf
  exact applyStd_length a c rela syms sec.length es sec b rfl hwf.1.1 h

/-! ### the file side -/

/-- what the opened file must provide for C08's theorems to apply: the Spec's struct bundle for a
    configuration of the file's class and byte order, and the machine the relocations are for -/
structure RelocEnv (P : Params) (f : ElfFile) (cfg : ElfCfg) (a : Arch) : Prop where
  hcls : cfg.cls = 32 ∨ cfg.cls = 64
  hS : f.S = Spec.elfStructs cfg
  hfcls : f.cls = cfg.cls
  hfle : f.le = cfg.le
  hmips : (relCfgOf cfg).mips = decide (a = .mips)
  harch : ∃ m, f.header.getField "e_machine" = .ok m ∧ P.machineArchOf m = archString a

/-- the symbol table section `ssec` answers the symbol lookups of the relocation code with the values
    `syms`: `num_symbols()` is their number and `get_symbol(i)['st_value']` is `syms[i]` — whatever
    else the entries carry (names, sizes, section indices) -/
def SymValues (P : Params) (f : ElfFile) (ssec : Sec) (syms : List Nat) : Prop :=
  ∃ symoff size entsize : Nat,
    ssec.hdr.getNat "sh_offset" = .ok symoff ∧ ssec.hdr.getNat "sh_size" = .ok size ∧
    ssec.hdr.getNat "sh_entsize" = .ok entsize ∧ entsize ≠ 0 ∧ size / entsize = syms.length ∧
    ∀ i (h : i < syms.length), ∃ symv,
      Reloc.seekParse P.env f.S.Elf_Sym f.data (symoff + i * entsize) = .ok symv ∧
      symv.getInt "st_value" = .ok (syms[i] : Int)

/-- relocation section `rsec` of the file holds (plainly) the Spec encoding of the entries `r.es` in
    flavour `r.rela`, and designates by `sh_link` a symbol table section — what `get_section` makes
    of that index — whose symbols have the values `r.syms` -/
def RelocStored (P : Params) (deflate : Nat → Bytes → Bytes) (f : ElfFile) (c : RelCfg) (rsec : Sec) (r : RelocDesc) :
    Prop :=
  ∃ (ssec : Sec) (k raddr base : Nat),
    rsec.hdr.getField "sh_type" = .ok (.str (if r.rela then "SHT_RELA" else "SHT_REL")) ∧
    rsec.hdr.getNat "sh_link" = .ok k ∧
    Stores deflate f.data f.cls f.le rsec .plain (encRelTable c r.rela r.es) raddr base ∧
    getSection P.env f.S f.data f.header f.shstr k = .ok ssec ∧ ssec.kind = "SymbolTableSection" ∧
    SymValues P f ssec r.syms

/-- the value-only symbol table of C08's Spec (`encSymTable`: every entry all zero but `st_value`),
    stored plainly in a section whose `sh_entsize` is the ElfN_Sym size, has those values -/
theorem symValues_of_stored {P : Params} {deflate : Nat → Bytes → Bytes} {f : ElfFile} {cfg : ElfCfg}
    (hcls : cfg.cls = 32 ∨ cfg.cls = 64) (hS : f.S = Spec.elfStructs cfg) {ssec : Sec} {syms : List Nat} {saddr symoff : Nat}
    (hsyms : ∀ s ∈ syms, s < 2 ^ cfg.cls)
    (hent : ssec.hdr.getNat "sh_entsize" = .ok (symEntSize cfg.cls))
    (hst : Stores deflate f.data f.cls f.le ssec .plain (encSymTable cfg.le cfg.cls syms) saddr symoff) :
    SymValues P f ssec syms := by
  obtain ⟨sty, srest, sflags, hsp, -⟩ := hst
  simp only [Enc.body] at hsp
  have hslen : (encSymTable cfg.le cfg.cls syms).length = syms.length * symEntSize cfg.cls := encSymTable_length _ _ _
  have hpos := symEntSize_pos cfg.cls
  refine ⟨symoff, syms.length * symEntSize cfg.cls, symEntSize cfg.cls, hsp.hoff, by rw [← hslen]; exact hsp.hsize, hent,
    by omega, Nat.mul_div_cancel _ hpos, ?_⟩
  intro i h
  rw [hS]
  exact symtab_st_value cfg hcls P.env syms hsyms hsp.hdata (by have := hsp.hbound; omega) i h

theorem isStr_rela (rela : Bool) : isStr (.str (if rela then "SHT_RELA" else "SHT_REL")) "SHT_RELA" = rela := by
  cases rela <;> decide

/-- `apply_section_relocations` on the logical content of a debug section = the standard's fold
    (C08's `applyLoop_eq_std`, through the container model's `applyRelocations`) -/
theorem applyRelocations_std {P : Params} {deflate : Nat → Bytes → Bytes} {f : ElfFile} {cfg : ElfCfg} {a : Arch}
    (hr : RelocEnv P f cfg a) (rsec : Sec) (r : RelocDesc) (payload : Bytes)
    (hst : RelocStored P deflate f (relCfgOf cfg) rsec r)
    (hwf : WFApply a (relCfgOf cfg) r.rela r.syms payload.length r.es = true) :
    applyRelocations P f rsec payload =
      match applyStd a (relCfgOf cfg) r.rela r.syms payload r.es with
      | some b => .ok b
      | none => .error .elfRelocError := by
  obtain ⟨ssec, k, raddr, base, hty, hlink, hrs, hget, hkind, hsv⟩ := hst
  obtain ⟨rty, rrest, rflags, hrp, -⟩ := hrs
  obtain ⟨symoff, size, entsize, hoff', hsz, hent', hent0, hcount, hsym⟩ := hsv
  obtain ⟨m, hm, harch⟩ := hr.harch
  obtain ⟨skind, sname, shdr⟩ := ssec
  have hkind' : skind = "SymbolTableSection" := hkind
  subst hkind'
  simp only [Enc.body] at hrp
  have hrlen : (encRelTable (relCfgOf cfg) r.rela r.es).length = r.es.length * relEntSize (relCfgOf cfg) r.rela :=
    encRelTable_length _ hr.hcls _ _
  have hwf' := hwf
  simp only [WFApply, Bool.and_eq_true, List.all_eq_true, decide_eq_true_eq] at hwf'
  obtain ⟨⟨hes, -⟩, hL⟩ := hwf'
  have hloop := applyLoop_eq_std cfg hr.hcls P.env a hr.hmips r.rela r.es r.syms payload.length ⟨symoff, size, entsize⟩
    (size := (encRelTable (relCfgOf cfg) r.rela r.es).length) hrp.hdata (by have := hrp.hbound; omega) hes hL hent0 hcount
    (by rw [← hr.hS]; exact hsym) r.es.length 0 payload (by omega) rfl
  rw [List.drop_zero] at hloop
  have hoff'' : Val.getNat shdr "sh_offset" = .ok symoff := hoff'
  have hsz' : Val.getNat shdr "sh_size" = .ok size := hsz
  have hent'' : Val.getNat shdr "sh_entsize" = .ok entsize := hent'
  simp only [applyRelocations, hty, hrp.hoff, hrp.hsize, isStr_rela, hr.hS, mkTable_spec cfg hr.hcls, hlink, bind, Except.bind]
  rw [← hr.hS, hget]
  simp only [bne_self_eq_false, Bool.false_eq_true, if_false, hoff'', hsz', hent'', hm, harch, hr.hS, hr.hfle, hr.hfcls,
    pure, Except.pure, Reloc.applySectionRelocations, numRelocations_spec cfg hr.hcls r.rela r.es, bind, Except.bind]
  exact hloop

/-! ### a file that stores a content with relocations -/

/-- what `HoldsR` asks about relocation of the section `sec` storing `payload`: nothing targets it
    when the content has no relocations for it; otherwise the first RelocationSection named
    `.rel<name>`/`.rela<name>` stores the content's relocations, these are in the domain of C08's
    theorems for a section of this length, and none of them must be rejected -/
def Relocates (P : Params) (deflate : Nat → Bytes → Bytes) (f : ElfFile) (secs : List Sec) (cfg : ElfCfg) (a : Arch)
    (sec : Sec) (payload : Bytes) : Option RelocDesc → Prop
  | none => findRelocations secs sec.name = none
  | some r => ∃ rsec, findRelocations secs sec.name = some rsec ∧ RelocStored P deflate f (relCfgOf cfg) rsec r ∧
      WFApply a (relCfgOf cfg) r.rela r.syms payload.length r.es = true ∧
      (applyStd a (relCfgOf cfg) r.rela r.syms payload r.es).isSome = true

/-- the file stores the content `cr`, relocations included: `Holds` with `NoReloc` replaced by a
    description of the relocation section (not needed when `relocate = false`), every section's
    encoding drawn from `allowed` -/
def HoldsR (P : Params) (deflate : Nat → Bytes → Bytes) (f : ElfFile) (secs : List Sec) (relocate : Bool)
    (cfg : ElfCfg) (a : Arch) (cr : ContentR) (allowed : Enc → Prop) : Prop :=
  ∀ kn ∈ P.names,
    match cr kn.1 with
    | none => getSectionByName secs (secNameOf (hasSection secs nZdebugInfo) kn) = none
    | some (payload, addr, orel) =>
      ∃ sec e off, getSectionByName secs (secNameOf (hasSection secs nZdebugInfo) kn) = some sec ∧
        Stores deflate f.data f.cls f.le sec e payload addr off ∧
        e.legacy = legacyOf (hasSection secs nZdebugInfo) kn ∧ allowed e ∧
        (relocate = false ∨ Relocates P deflate f secs cfg a sec payload orel)

theorem HoldsR.mono {P : Params} {deflate : Nat → Bytes → Bytes} {f : ElfFile} {secs : List Sec} {relocate : Bool}
    {cfg : ElfCfg} {a : Arch} {cr : ContentR} {allowed allowed' : Enc → Prop}
    (h : HoldsR P deflate f secs relocate cfg a cr allowed) (himp : ∀ e, allowed e → allowed' e) :
    HoldsR P deflate f secs relocate cfg a cr allowed' := by
  intro kn hk
  have := h kn hk
  cases hc : cr kn.1 with
  | none => simpa [hc] using this
  | some x =>
    obtain ⟨payload, addr, orel⟩ := x
    simp only [hc] at this ⊢
    obtain ⟨sec, e, off, h1, h2, h3, h4, h5⟩ := this
    exact ⟨sec, e, off, h1, h2, h3, himp e h4, h5⟩

/-- the relocation step on the logical content, when the content's relocations are stored -/
theorem relocStep_relocates {P : Params} {deflate : Nat → Bytes → Bytes} {f : ElfFile} {cfg : ElfCfg} {a : Arch}
    (hr : RelocEnv P f cfg a) (secs : List Sec) (sec : Sec) (relocate : Bool) (payload : Bytes) (addr off : Nat)
    (orel : Option RelocDesc)
    (h : relocate = false ∨ Relocates P deflate f secs cfg a sec payload orel) :
    ∃ b, relocatedPayload a (relCfgOf cfg) relocate payload orel = some b ∧ b.length = payload.length ∧
      relocStep P f secs sec relocate (goodDescr sec payload addr off) = .ok { goodDescr sec payload addr off with stream := b } := by
  rcases h with h | h
  · subst h
    refine ⟨payload, ?_, rfl, ?_⟩
    · cases orel <;> simp [relocatedPayload]
    · simp [relocStep, goodDescr]
  · cases orel with
    | none =>
      refine ⟨payload, rfl, rfl, ?_⟩
      have h' : findRelocations secs sec.name = none := h
      unfold relocStep
      rw [h']
      cases relocate <;> simp [goodDescr]
    | some r =>
      obtain ⟨rsec, hfind, hst, hwf, hsome⟩ := h
      cases relocate with
      | false => exact ⟨payload, by simp [relocatedPayload], rfl, by simp [relocStep, goodDescr]⟩
      | true =>
        cases happ : applyStd a (relCfgOf cfg) r.rela r.syms payload r.es with
        | none => simp [happ] at hsome
        | some b =>
          refine ⟨b, by simp [relocatedPayload, happ], applyStd_length_of_wf hwf happ, ?_⟩
          have := applyRelocations_std hr rsec r payload hst hwf
          rw [happ] at this
          simp only [relocStep, if_true, hfind, goodDescr, this]

theorem HoldsR.reads {P : Params} {deflate : Nat → Bytes → Bytes} {f : ElfFile} (hf : FileOk P deflate f)
    {cfg : ElfCfg} {a : Arch} (hr : RelocEnv P f cfg a)
    {secs : List Sec} {relocate : Bool} {cr : ContentR} {allowed : Enc → Prop}
    (hh : HoldsR P deflate f secs relocate cfg a cr allowed) :
    Reads P f secs relocate (relocatedContent a (relCfgOf cfg) relocate cr) := by
  intro kn hk
  have := hh kn hk
  cases hc : cr kn.1 with
  | none =>
    simp only [hc] at this
    exact ⟨none, readOne_absent P f secs relocate _ kn this, by simp [kwView, relocatedContent, hc]⟩
  | some x =>
    obtain ⟨payload, addr, orel⟩ := x
    simp only [hc] at this
    obtain ⟨sec, e, off, hget, hst, hleg, -, hrel⟩ := this
    obtain ⟨b, hb, hlen, hstep⟩ := relocStep_relocates hr secs sec relocate payload addr off orel hrel
    refine ⟨some { goodDescr sec payload addr off with stream := b }, ?_, ?_⟩
    · rw [readOne_eq, hget]
      simp only [← hleg, readDwarfSection_stored_eq hf secs sec relocate e payload addr off hst, hstep, Except.bind]
    · simp [kwView, relocatedContent, hc, hb, goodDescr, Descr.view, hlen]

/-- a relocation the standard rejects (symbol index outside the table, wrong flavour, unlisted type,
    MIPS64 composite) makes the section — hence `get_dwarf_info` — fail with ELFRelocationError -/
theorem readOne_reloc_rejected {P : Params} {deflate : Nat → Bytes → Bytes} {f : ElfFile} (hf : FileOk P deflate f)
    {cfg : ElfCfg} {a : Arch} (hr : RelocEnv P f cfg a)
    (secs : List Sec) (zfile : Bool) (kn : String × Bytes × Bool) (sec rsec : Sec)
    (hget : getSectionByName secs (secNameOf zfile kn) = some sec)
    (e : Enc) (payload : Bytes) (addr off : Nat)
    (hst : Stores deflate f.data f.cls f.le sec e payload addr off) (hleg : e.legacy = legacyOf zfile kn)
    (r : RelocDesc) (hfind : findRelocations secs sec.name = some rsec)
    (hrs : RelocStored P deflate f (relCfgOf cfg) rsec r)
    (hwf : WFApply a (relCfgOf cfg) r.rela r.syms payload.length r.es = true)
    (hrej : applyStd a (relCfgOf cfg) r.rela r.syms payload r.es = none) :
    readOne P f secs true zfile kn = .error (.py .elfRelocError) := by
  have := applyRelocations_std hr rsec r payload hrs hwf
  rw [hrej] at this
  rw [readOne_eq, hget]
  simp only [← hleg, readDwarfSection_stored_eq hf secs sec true e payload addr off hst, relocStep, if_true, hfind,
    goodDescr, this, Except.bind]

end PyElf.Proofs.C11
