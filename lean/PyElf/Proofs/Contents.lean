/-
  C02 helper lemmas: the model of Model/Contents.lean against the Spec of Spec/Contents.lean.
-/
import PyElf.Proofs.Primitives
import PyElf.Proofs.SymParse
import PyElf.Spec.Contents
import PyElf.Model.Contents
import PyElf.Model.Env
namespace PyElf.Proofs.C02
open PyElf PyElf.Spec PyElf.Model PyElf.Proofs
open PyElf.Spec.C02
open PyElf.Model.C02

/-! ### decoded headers -/

/-- `sh` is a decoded section header carrying the numeric fields of `s`
    (`decT`: how `sh_type` codes are reported: a standard name or the raw integer) -/
structure IsShdr (decT : Nat → Val) (sh : Val) (s : Sec) : Prop where
  ty : sh.getField "sh_type" = .ok (decT s.shType)
  flags : sh.getField "sh_flags" = .ok (.int s.flags)
  addr : sh.getField "sh_addr" = .ok (.int s.addr)
  offset : sh.getField "sh_offset" = .ok (.int s.offset)
  size : sh.getField "sh_size" = .ok (.int s.size)
  addralign : sh.getField "sh_addralign" = .ok (.int s.addralign)

structure IsPhdr (decP : Nat → Val) (ph : Val) (g : Seg) : Prop where
  ty : ph.getField "p_type" = .ok (decP g.ptype)
  offset : ph.getField "p_offset" = .ok (.int g.offset)
  vaddr : ph.getField "p_vaddr" = .ok (.int g.vaddr)
  filesz : ph.getField "p_filesz" = .ok (.int g.filesz)
  memsz : ph.getField "p_memsz" = .ok (.int g.memsz)

structure IsChdr (decC : Nat → Val) (v : Val) (c : Chdr) : Prop where
  ty : v.getField "ch_type" = .ok (decC c.chType)
  size : v.getField "ch_size" = .ok (.int c.chSize)
  align : v.getField "ch_addralign" = .ok (.int c.chAlign)

/-- a decoder reports a code as a name or as the raw integer (`Enum(..., _default_=Pass)`) -/
def NameOrInt (dec : Nat → Val) : Prop := ∀ n, dec n = .int n ∨ ∃ s, dec n = .str s

/-- `SHT_NOBITS` is the name of code 8 and of nothing else -/
def NobitsNaming (decT : Nat → Val) : Prop := ∀ n, decT n = .str "SHT_NOBITS" ↔ n = SHT_NOBITS

structure ZlibNaming (decC : Nat → Val) : Prop where
  zlib : ∀ n, decC n = .str "ELFCOMPRESS_ZLIB" ↔ n = ELFCOMPRESS_ZLIB
  nameOrInt : NameOrInt decC

/-- the seven segment types `section_in_segment` names carry their gABI / GNU codes, and the
    PT_GNU_SFRAME / PT_GNU_MBIND range is unnamed (reported as integers) -/
structure PTypeNaming (decP : Nat → Val) : Prop where
  load : ∀ n, decP n = .str "PT_LOAD" ↔ n = PT_LOAD
  dynamic : ∀ n, decP n = .str "PT_DYNAMIC" ↔ n = PT_DYNAMIC
  phdr : ∀ n, decP n = .str "PT_PHDR" ↔ n = PT_PHDR
  tls : ∀ n, decP n = .str "PT_TLS" ↔ n = PT_TLS
  ehFrame : ∀ n, decP n = .str "PT_GNU_EH_FRAME" ↔ n = PT_GNU_EH_FRAME
  stack : ∀ n, decP n = .str "PT_GNU_STACK" ↔ n = PT_GNU_STACK
  relro : ∀ n, decP n = .str "PT_GNU_RELRO" ↔ n = PT_GNU_RELRO
  nameOrInt : NameOrInt decP
  unnamed : ∀ n, PT_GNU_SFRAME ≤ n → n ≤ PT_GNU_MBIND_HI → decP n = .int n

theorem isStr_iff (v : Val) (s : String) : isStr v s = true ↔ v = .str s := by
  cases v <;> simp [isStr]

theorem isStr_eq_beq {dec : Nat → Val} {name : String} {code : Nat}
    (h : ∀ n, dec n = .str name ↔ n = code) (n : Nat) : isStr (dec n) name = (n == code) := by
  by_cases hn : n = code
  · simp [hn, (isStr_iff _ _).2 ((h code).2 rfl)]
  · have : ¬ (isStr (dec n) name = true) := fun e => hn ((h n).1 ((isStr_iff _ _).1 e))
    simp [hn, this]

theorem land_nat (a b : Nat) : PyInt.land (a : Int) (b : Int) = ((a &&& b : Nat) : Int) := rfl

theorem getInt_of_field {v : Val} {k : String} {n : Nat} (h : v.getField k = .ok (.int n)) :
    v.getInt k = .ok (n : Int) := by
  simp [Val.getInt, h, bind, Except.bind, Val.asInt]

theorem getNat_of_field {v : Val} {k : String} {n : Nat} (h : v.getField k = .ok (.int n)) :
    v.getNat k = .ok n := by
  simp [Val.getNat, h, bind, Except.bind, Val.asInt, Val.asNat]

theorem asNat_int (n : Nat) : (Val.int (n : Int)).asNat = .ok n := by
  simp [Val.asNat, Val.asInt, bind, Except.bind]

/-! ### section in segment -/

theorem bne_def' {α : Type} [BEq α] (a b : α) : (a != b) = !(a == b) := rfl

theorem cast_beq_zero (n : Nat) : (((n : Nat) : Int) == 0) = (n == 0) := by
  cases n <;> rfl

theorem withinPy_ok (x base sz l : Int) :
    withinPy x base (.ok sz) (.ok l) =
      .ok (decide (x ≥ base) && decide (x - base + sz ≤ l) && (l == 0 || decide (x - base ≤ l - 1))) := by
  unfold withinPy
  simp only [bind, Except.bind, pure, Except.pure]
  cases decide (x ≥ base) <;> cases decide (x - base + sz ≤ l) <;> cases (l == 0) <;> rfl

theorem within_cast (x size base len : Nat) :
    (decide ((x : Int) ≥ base) && decide ((x : Int) - base + size ≤ len) &&
      (((len : Int) == 0) || decide ((x : Int) - base ≤ (len : Int) - 1))) = within x size base len := by
  apply Bool.eq_iff_iff.2
  simp only [within, Bool.or_eq_true, Bool.and_eq_true, beq_iff_eq, decide_eq_true_eq]
  omega

theorem withinPy_eq (x size base len : Nat) :
    withinPy (x : Int) (base : Int) (.ok (size : Int)) (.ok (len : Int)) = .ok (within x size base len) := by
  rw [withinPy_ok, within_cast]

theorem isSframeOrMbind_int (n : Nat) :
    isSframeOrMbind (.int (n : Int)) =
      (n == PT_GNU_SFRAME || (decide (PT_GNU_MBIND_LO ≤ n) && decide (n ≤ PT_GNU_MBIND_HI))) := by
  apply Bool.eq_iff_iff.2
  simp only [isSframeOrMbind, PT_GNU_SFRAME, PT_GNU_MBIND_LO, PT_GNU_MBIND_HI, Bool.or_eq_true, Bool.and_eq_true,
    beq_iff_eq, decide_eq_true_eq]
  omega

theorem isSframeOrMbind_eq {decP : Nat → Val} (hP : PTypeNaming decP) (n : Nat) :
    isSframeOrMbind (decP n) =
      (n == PT_GNU_SFRAME || (decide (PT_GNU_MBIND_LO ≤ n) && decide (n ≤ PT_GNU_MBIND_HI))) := by
  rcases hP.nameOrInt n with h | ⟨s, h⟩
  · rw [h, isSframeOrMbind_int]
  · by_cases hr : PT_GNU_SFRAME ≤ n ∧ n ≤ PT_GNU_MBIND_HI
    · have := hP.unnamed n hr.1 hr.2
      rw [h] at this; cases this
    · rw [h]
      symm
      apply Bool.eq_false_iff.2
      simp only [PT_GNU_SFRAME, PT_GNU_MBIND_LO, PT_GNU_MBIND_HI, ne_eq, Bool.or_eq_true, Bool.and_eq_true,
        beq_iff_eq, decide_eq_true_eq] at hr ⊢
      omega

/-- `section_in_segment` computes the strict containment predicate, for all field values -/
theorem sectionInSegment_eq {decP decT : Nat → Val} (hP : PTypeNaming decP) (hT : NobitsNaming decT)
    {ph sh : Val} {g : Seg} {s : Sec} (hph : IsPhdr decP ph g) (hsh : IsShdr decT sh s) :
    sectionInSegment shFlags ph sh = .ok (inSegmentStrict g s) := by
  have e1 := isStr_eq_beq hP.load g.ptype
  have e2 := isStr_eq_beq hP.dynamic g.ptype
  have e3 := isStr_eq_beq hP.phdr g.ptype
  have e4 := isStr_eq_beq hP.tls g.ptype
  have e5 := isStr_eq_beq hP.ehFrame g.ptype
  have e6 := isStr_eq_beq hP.stack g.ptype
  have e7 := isStr_eq_beq hP.relro g.ptype
  have e8 := isStr_eq_beq hT s.shType
  have e9 := isSframeOrMbind_eq hP g.ptype
  unfold sectionInSegment
  simp only [hph.ty, hsh.ty, getInt_of_field hsh.flags, getInt_of_field hsh.addr, getInt_of_field hph.vaddr,
    getInt_of_field hsh.size, getInt_of_field hph.memsz, getInt_of_field hsh.offset, getInt_of_field hph.offset,
    getInt_of_field hph.filesz, bind, Except.bind, land_nat, withinPy_eq, isAnyStr, List.any_cons, List.any_nil,
    e1, e2, e3, e4, e5, e6, e7, e8, e9, Bool.or_false, shFlags, pure, Except.pure]
  simp only [inSegmentStrict, typeOk, allocOk, fileOk, vmaOk, loadLike, Sec.tls, Sec.alloc, Sec.nobits, shFlags,
    bne_def', cast_beq_zero, Bool.or_assoc]
  generalize (s.flags &&& 1024 == 0) = tz
  generalize (s.flags &&& 2 == 0) = az
  generalize ((g.ptype == PT_TLS) || ((g.ptype == PT_GNU_RELRO) || (g.ptype == PT_LOAD))) = t1
  generalize ((g.ptype == PT_LOAD) || ((g.ptype == PT_DYNAMIC) || ((g.ptype == PT_GNU_EH_FRAME) ||
    ((g.ptype == PT_GNU_RELRO) || ((g.ptype == PT_GNU_STACK) || ((g.ptype == PT_GNU_SFRAME) ||
      decide (PT_GNU_MBIND_LO ≤ g.ptype) && decide (g.ptype ≤ PT_GNU_MBIND_HI))))))) = ll
  generalize (g.ptype == PT_TLS) = pt
  generalize (g.ptype == PT_PHDR) = pp
  generalize (s.shType == SHT_NOBITS) = nb
  generalize within s.addr s.size g.vaddr g.memsz = w1
  generalize within s.offset s.size g.offset g.filesz = w2
  cases tz <;> cases az <;> cases t1 <;> cases ll <;> cases pt <;> cases pp <;> cases nb <;> cases w1 <;> cases w2 <;> rfl


/-! ### the C macro in unsigned 64-bit arithmetic -/

theorem sub64_of_le {a b : Nat} (hb : b ≤ a) (ha : a < W) : sub64 a b = a - b := by
  simp only [sub64, W] at *; omega

theorem sub64_zero_one : sub64 0 1 = W - 1 := by decide

theorem add64_of_lt {a b : Nat} (h : a + b < W) : add64 a b = a + b := by
  simp only [add64, W] at *; omega

theorem clause64_eq (x size base len : Nat) (hx : x < W) (hb : base < W) (hl : len < W)
    (hno : base ≤ x → x - base + size < W) :
    (decide (base ≤ x) && decide (sub64 x base ≤ sub64 len 1) && decide (add64 (sub64 x base) size ≤ len))
      = within x size base len := by
  by_cases h : base ≤ x
  · rw [sub64_of_le h hx, add64_of_lt (hno h)]
    by_cases hl0 : len = 0
    · subst hl0
      rw [sub64_zero_one]
      apply Bool.eq_iff_iff.2
      simp only [within, W, Bool.or_eq_true, Bool.and_eq_true, beq_iff_eq, decide_eq_true_eq] at *
      omega
    · rw [sub64_of_le (by omega) hl]
      apply Bool.eq_iff_iff.2
      simp only [within, Bool.or_eq_true, Bool.and_eq_true, beq_iff_eq, decide_eq_true_eq]
      omega
  · simp [within, h]

/-- where no subtraction or addition wraps, and outside the two clauses the property does not
    enumerate, the C macro (evaluated in `mod 2^64` arithmetic) is the ideal-arithmetic predicate -/
theorem macro64_eq (g : Seg) (s : Sec) (hfit : fits64 g s = true) (hplain : plainCase g s = true)
    (hf : g.offset ≤ s.offset → s.offset - g.offset + s.size < W)
    (hv : g.vaddr ≤ s.addr → s.addr - g.vaddr + s.size < W) :
    macro64 g s = inSegmentStrict g s := by
  simp only [plainCase, Bool.and_eq_true, Bool.not_eq_true', Bool.or_eq_true] at hplain
  obtain ⟨htb, hdn⟩ := hplain
  simp only [fits64, Bool.and_eq_true, decide_eq_true_eq] at hfit
  obtain ⟨⟨⟨⟨⟨⟨a1, a2⟩, a3⟩, a4⟩, a5⟩, a6⟩, a7⟩ := hfit
  have c1 := clause64_eq s.offset s.size g.offset g.filesz a5 a1 a3 hf
  have c2 := clause64_eq s.addr s.size g.vaddr g.memsz a6 a2 a4 hv
  have c3 : ((g.ptype != PT_DYNAMIC && g.ptype != PT_NOTE) || s.size != 0 || g.memsz == 0 ||
      (!s.alloc || (decide (g.vaddr < s.addr) && decide (sub64 s.addr g.vaddr < g.memsz)))) = true := by
    rcases hdn with h | h <;> simp [h]
  unfold macro64 inSegmentStrict fileOk vmaOk sectionSize
  rw [htb, c3]
  simp only [Bool.false_eq_true, if_false, c1, c2, Bool.and_true]

/-! ### virtual address → file offset -/

/-- the decoded program headers `phs` carry the segments `segs`, in order -/
inductive ArePhdrs (decP : Nat → Val) : List Val → List Seg → Prop
  | nil : ArePhdrs decP [] []
  | cons {ph g phs segs} : IsPhdr decP ph g → ArePhdrs decP phs segs → ArePhdrs decP (ph :: phs) (g :: segs)

theorem addressOffsetsOf_eq {decP : Nat → Val} (hP : PTypeNaming decP) (start size : Nat) :
    ∀ (phs : List Val) (segs : List Seg), ArePhdrs decP phs segs →
      addressOffsetsOf (start : Int) (size : Int) phs = .ok ((addrOffsets segs start size).map Int.ofNat) := by
  intro phs segs h
  induction h with
  | nil => rfl
  | @cons ph g phs segs hph _ ih =>
    have e1 := isStr_eq_beq hP.load g.ptype
    rw [addressOffsetsOf]
    simp only [hph.ty, bind, Except.bind, e1, getInt_of_field hph.vaddr, getInt_of_field hph.filesz,
      getInt_of_field hph.offset, pure, Except.pure, ih]
    simp only [addrOffsets, List.filter_cons]
    by_cases p : g.ptype = PT_LOAD
    · by_cases a : g.vaddr ≤ start
      · have a' : ((start : Int) ≥ (g.vaddr : Int)) := by omega
        by_cases b : start + size ≤ g.vaddr + g.filesz
        · have b' : ((start : Int) + (size : Int) ≤ (g.vaddr : Int) + (g.filesz : Int)) := by omega
          have c : ((start : Int) - (g.vaddr : Int) + (g.offset : Int)) = Int.ofNat (start - g.vaddr + g.offset) := by
            simp only [Int.ofNat_eq_natCast]; omega
          simp [p, a, a', b, b', c]
        · have b' : ¬ ((start : Int) + (size : Int) ≤ (g.vaddr : Int) + (g.filesz : Int)) := by omega
          simp [p, a, a', b, b']
      · have a' : ¬ ((start : Int) ≥ (g.vaddr : Int)) := by omega
        simp [p, a, a']
    · simp [p]


/-! ### section contents -/

/-- the object `Section.__init__` makes for a section not flagged compressed -/
def plainObj (sh : Val) (s : Sec) : SectionObj :=
  { header := sh, compressed := 0, ctype := none, dsize := .int s.size, dalign := .int s.addralign }

/-- ... and for one flagged compressed whose compression header decodes to `ch` -/
def zObj (decC : Nat → Val) (sh : Val) (s : Sec) (ch : Chdr) : SectionObj :=
  { header := sh, compressed := ((s.flags &&& 0x800 : Nat) : Int), ctype := some (decC ch.chType),
    dsize := .int ch.chSize, dalign := .int ch.chAlign }

theorem compressed_false_iff (s : Sec) : s.compressed = false ↔ s.flags &&& 0x800 = 0 := by
  simp [Sec.compressed, shFlags]

theorem sectionNew_plain (env : Env) (S : ElfStructs) (file : Bytes) {decT : Nat → Val} {sh : Val} {s : Sec}
    (hsh : IsShdr decT sh s) (hc : s.compressed = false) :
    sectionNew env S shFlags file sh = .ok (plainObj sh s) := by
  have h0 := (compressed_false_iff s).1 hc
  unfold sectionNew
  simp only [getInt_of_field hsh.flags, bind, Except.bind, land_nat, shFlags, h0, hsh.size, hsh.addralign,
    pure, Except.pure, plainObj]
  rfl

theorem sectionNew_compressed (env : Env) (S : ElfStructs) (file : Bytes) {decT decC : Nat → Val} {sh chv : Val}
    {s : Sec} {ch : Chdr} {p : Nat} (hsh : IsShdr decT sh s) (hc : s.compressed = true)
    (hparse : structParseAt env S.Elf_Chdr file s.offset = .ok (chv, p)) (hch : IsChdr decC chv ch) :
    sectionNew env S shFlags file sh = .ok (zObj decC sh s ch) := by
  have h0 : ¬ (s.flags &&& 0x800 = 0) := by
    intro h; rw [(compressed_false_iff s).2 h] at hc; cases hc
  have h1 : ((((s.flags &&& 2048 : Nat) : Int)) != 0) = true := by
    rw [bne_def', cast_beq_zero]; simpa using h0
  unfold sectionNew
  simp only [getInt_of_field hsh.flags, bind, Except.bind, land_nat, shFlags, h1, if_true,
    getNat_of_field hsh.offset, hparse, hch.ty, hch.size, hch.align, pure, Except.pure, zObj]

theorem sectionData_nobits (zlib : Bytes → Nat → R Bytes) (S : ElfStructs) (file : Bytes) {decT : Nat → Val}
    (hT : NobitsNaming decT) {sh : Val} {s : Sec} (hsh : IsShdr decT sh s) (hnb : s.nobits = true)
    (hs : s.size < 2 ^ 63) :
    sectionData zlib S file (plainObj sh s) = .ok (List.replicate s.size 0) := by
  have hn : s.shType = SHT_NOBITS := by simpa [Sec.nobits] using hnb
  have e := (isStr_iff _ _).2 ((hT s.shType).2 hn)
  unfold sectionData
  have r1 : ¬ (s.size ≥ 2 ^ 63) := by omega
  simp only [plainObj, hsh.ty, bind, Except.bind, e, if_true, asNat_int, readCheck, pure, Except.pure, if_neg r1]

theorem sectionData_raw (zlib : Bytes → Nat → R Bytes) (S : ElfStructs) (file : Bytes) {decT : Nat → Val}
    (hT : NobitsNaming decT) {sh : Val} {s : Sec} (hsh : IsShdr decT sh s) (hnb : s.nobits = false)
    (ho : s.offset < 2 ^ 63) (hs : s.size < 2 ^ 63) :
    sectionData zlib S file (plainObj sh s) = .ok (extent file s.offset s.size) := by
  have hn : ¬ s.shType = SHT_NOBITS := by simpa [Sec.nobits] using hnb
  have e : isStr (decT s.shType) "SHT_NOBITS" = false := by
    rw [isStr_eq_beq hT]; simpa using hn
  unfold sectionData
  have r1 : ¬ (s.size ≥ 2 ^ 63) := by omega
  have r2 : ¬ (s.offset ≥ 2 ^ 63) := by omega
  have r3 : ((0 : Int) != 0) = false := rfl
  simp only [plainObj, hsh.ty, bind, Except.bind, e, Bool.false_eq_true, if_false, getNat_of_field hsh.offset,
    seekCheck, asNat_int, readCheck, pure, Except.pure, if_neg r1, if_neg r2, r3]
  rfl

/-- a compressed ZLIB section: the fully inflated payload when its size is the declared one,
    rejected otherwise -/
theorem sectionData_zlib (zlib : Bytes → Nat → R Bytes) (S : ElfStructs) (cls : Nat) (file : Bytes)
    {decT decC : Nat → Val} (hT : NobitsNaming decT) (hC : ZlibNaming decC) {sh : Val} {s : Sec} {ch : Chdr}
    (hsh : IsShdr decT sh s) (hnb : s.nobits = false) (hc : s.compressed = true)
    (hty : ch.chType = ELFCOMPRESS_ZLIB) (hsz : S.Elf_Chdr.sizeof = some (chdrSize cls))
    (ho : s.offset + chdrSize cls < 2 ^ 63) (hfull : chdrSize cls ≤ s.size) (hs : s.size < 2 ^ 63)
    (hw : ch.chSize + 1 < 2 ^ 63) (P : Bytes)
    (hz : zlib (payload cls file s) (ch.chSize + 1) = .ok (P.take (ch.chSize + 1))) :
    sectionData zlib S file (zObj decC sh s ch)
      = if P.length = ch.chSize then .ok P else .error .elfCompressionError := by
  have hn : ¬ s.shType = SHT_NOBITS := by simpa [Sec.nobits] using hnb
  have e : isStr (decT s.shType) "SHT_NOBITS" = false := by
    rw [isStr_eq_beq hT]; simpa using hn
  have h0 : ¬ (s.flags &&& 0x800 = 0) := by
    intro h; rw [(compressed_false_iff s).2 h] at hc; cases hc
  have h1 : ((((s.flags &&& 2048 : Nat) : Int)) != 0) = true := by
    rw [bne_def', cast_beq_zero]; simpa using h0
  have e2 : isStr (decC ch.chType) "ELFCOMPRESS_ZLIB" = true := (isStr_iff _ _).2 ((hC.zlib _).2 hty)
  have hread : readInt file (s.offset + chdrSize cls) ((s.size : Int) - (chdrSize cls : Nat)) = .ok (payload cls file s) := by
    have q1 : ¬ ((s.size : Int) - ((chdrSize cls : Nat) : Int) < 0) := by omega
    have q2 : ((s.size : Int) - ((chdrSize cls : Nat) : Int)).toNat = s.size - chdrSize cls := by omega
    have q3 : ¬ (s.size - chdrSize cls ≥ 2 ^ 63) := by omega
    unfold readInt
    simp only [if_neg q1, q2, readCheck, bind, Except.bind, pure, Except.pure, if_neg q3]
    rfl
  have r1 : ¬ (s.offset + chdrSize cls ≥ 2 ^ 63) := by omega
  have r2 : ¬ (ch.chSize + 1 ≥ 2 ^ 63) := by omega
  unfold sectionData
  simp only [zObj, hsh.ty, bind, Except.bind, e, Bool.false_eq_true, if_false, h1, if_true, e2, sizeofR, hsz,
    getNat_of_field hsh.offset, seekCheck, getInt_of_field hsh.size, hread, asNat_int, readCheck, hz,
    if_neg r1, if_neg r2, pure, Except.pure, List.length_take]
  by_cases hl : P.length = ch.chSize
  · have t1 : (min (ch.chSize + 1) P.length != ch.chSize) = false := by simp; omega
    rw [t1, if_pos hl]
    simp only [Bool.false_eq_true, if_false]
    rw [List.take_of_length_le (by omega)]
  · have t1 : (min (ch.chSize + 1) P.length != ch.chSize) = true := by simp; omega
    rw [t1, if_neg hl]
    rfl

/-- a compression type other than ELFCOMPRESS_ZLIB is rejected -/
theorem sectionData_unknown (zlib : Bytes → Nat → R Bytes) (S : ElfStructs) (file : Bytes)
    {decT decC : Nat → Val} (hT : NobitsNaming decT) (hC : ZlibNaming decC) {sh : Val} {s : Sec} {ch : Chdr}
    (hsh : IsShdr decT sh s) (hnb : s.nobits = false) (hc : s.compressed = true)
    (hty : ch.chType ≠ ELFCOMPRESS_ZLIB) :
    sectionData zlib S file (zObj decC sh s ch) = .error .elfCompressionError ∨
    sectionData zlib S file (zObj decC sh s ch) = .error .valueError := by
  have hn : ¬ s.shType = SHT_NOBITS := by simpa [Sec.nobits] using hnb
  have e : isStr (decT s.shType) "SHT_NOBITS" = false := by
    rw [isStr_eq_beq hT]; simpa using hn
  have h0 : ¬ (s.flags &&& 0x800 = 0) := by
    intro h; rw [(compressed_false_iff s).2 h] at hc; cases hc
  have h1 : ((((s.flags &&& 2048 : Nat) : Int)) != 0) = true := by
    rw [bne_def', cast_beq_zero]; simpa using h0
  have e2 : isStr (decC ch.chType) "ELFCOMPRESS_ZLIB" = false := by
    rw [isStr_eq_beq hC.zlib]; simpa using hty
  unfold sectionData
  simp only [zObj, hsh.ty, bind, Except.bind, e, Bool.false_eq_true, if_false, h1, if_true, e2]
  rcases hC.nameOrInt ch.chType with h | ⟨n, h⟩
  · left; rw [h]; rfl
  · right; rw [h]; rfl

/-! ### segments, interpreter path, strings -/

theorem segmentData_eq {decP : Nat → Val} (file : Bytes) {ph : Val} {g : Seg} (hph : IsPhdr decP ph g)
    (ho : g.offset < 2 ^ 63) (hs : g.filesz < 2 ^ 63) :
    segmentData file ph = .ok (segData file g) := by
  unfold segmentData
  have r1 : ¬ (g.offset ≥ 2 ^ 63) := by omega
  have r2 : ¬ (g.filesz ≥ 2 ^ 63) := by omega
  simp only [getNat_of_field hph.offset, getNat_of_field hph.filesz, bind, Except.bind, seekCheck, readCheck,
    pure, Except.pure, if_neg r1, if_neg r2]
  rfl

theorem firstNul_split : ∀ (l s : Bytes), firstNul l = some s →
    (∀ b ∈ s, b ≠ 0) ∧ ∃ rest, l = s ++ [0] ++ rest
  | [], s, h => by simp [firstNul] at h
  | b :: l, s, h => by
    by_cases hb : b = 0
    · simp [firstNul, hb] at h
      subst h; subst hb
      exact ⟨by simp, l, by simp⟩
    · simp only [firstNul, hb, if_false, Option.map_eq_some_iff] at h
      obtain ⟨s', hs', rfl⟩ := h
      obtain ⟨h1, rest, h2⟩ := firstNul_split l s' hs'
      refine ⟨?_, rest, by simp [h2]⟩
      intro x hx
      rcases List.mem_cons.1 hx with rfl | hx
      · exact hb
      · exact h1 x hx

theorem firstNul_take : ∀ (l : Bytes) (n : Nat) (s : Bytes), firstNul (l.take n) = some s → firstNul l = some s
  | [], n, s, h => by simp [firstNul] at h
  | b :: l, 0, s, h => by simp [firstNul] at h
  | b :: l, n+1, s, h => by
    by_cases hb : b = 0
    · simpa [firstNul, hb] using h
    · simp only [List.take_succ_cons, firstNul, hb, if_false, Option.map_eq_some_iff] at h ⊢
      obtain ⟨s', hs', rfl⟩ := h
      exact ⟨s', firstNul_take l n s' hs', rfl⟩

theorem getInterpName_eq (env : Env) {decP : Nat → Val} (file : Bytes) {ph : Val} {g : Seg} {path : Bytes}
    (hph : IsPhdr decP ph g) (ho : g.offset < 2 ^ 63) (hs : interpName file g = some path) :
    getInterpName env file ph = .ok path := by
  obtain ⟨h1, rest, h2⟩ := firstNul_split _ _ hs
  have hp := parseCString_ok (data := file) (pos := g.offset) h1 h2
  unfold getInterpName
  have r1 : ¬ (g.offset ≥ 2 ^ 63) := by omega
  simp only [getNat_of_field hph.offset, bind, Except.bind, structParseAt, structParse, Con.parse, hp,
    pure, Except.pure, if_neg r1]

theorem getString_eq (file : Bytes) {st : Val} {toff : Nat} (off : Nat)
    (h : st.getField "sh_offset" = .ok (.int toff)) (hp : toff + off < 2 ^ 63) :
    getString file st off = .ok ((firstNul (file.drop (toff + off))).getD []) := by
  have hc := cstringChunkLoop_eq file 64 (by omega) (file.length - (toff + off) + 2) (toff + off) [] (by omega)
  unfold getString
  have r1 : ¬ (toff + off ≥ 2 ^ 63) := by omega
  simp only [getNat_of_field h, bind, Except.bind, parseCStringAt, seekCheck, parseCStringFromStream, hc, if_neg r1]
  cases firstNul (file.drop (toff + off)) <;> simp [pure, Except.pure]

/-- the string at `off` inside the table's own extent -/
theorem stringAt_extent (file : Bytes) (toff size off : Nat) (str : Bytes)
    (h : stringAt (extent file toff size) off = some str) : firstNul (file.drop (toff + off)) = some str := by
  unfold stringAt extent at h
  rw [List.drop_take, List.drop_drop] at h
  exact firstNul_take _ _ _ h


/-! ### the compression header -/

/-- how `ch_type` codes are reported -/
def decCOf (env : Env) : Nat → Val := nameOr env.enumDecode "ENUM_ELFCOMPRESS_TYPE"

theorem elfChdr32 (le : Bool) (m : String) (sol core : Bool) :
    (Spec.elfStructs ⟨le, 32, m, sol, core⟩).Elf_Chdr
      = .struct (.cons (some "ch_type") false (.enum (.uint 4 le) "ENUM_ELFCOMPRESS_TYPE" true)
          (.cons (some "ch_size") false (.uint 4 le) (.cons (some "ch_addralign") false (.uint 4 le) .nil))) := by
  simp [Spec.elfStructs, st, f, mkFields, enumOf]

theorem elfChdr64 (le : Bool) (m : String) (sol core : Bool) :
    (Spec.elfStructs ⟨le, 64, m, sol, core⟩).Elf_Chdr
      = .struct (.cons (some "ch_type") false (.enum (.uint 4 le) "ENUM_ELFCOMPRESS_TYPE" true)
          (.cons (some "ch_reserved") false (.uint 4 le)
          (.cons (some "ch_size") false (.uint 8 le) (.cons (some "ch_addralign") false (.uint 8 le) .nil)))) := by
  simp [Spec.elfStructs, st, f, mkFields, enumOf]

theorem chdr_sizeof32 (le : Bool) (m : String) (sol core : Bool) :
    (Spec.elfStructs ⟨le, 32, m, sol, core⟩).Elf_Chdr.sizeof = some (chdrSize 32) := by
  rw [elfChdr32]; rfl

theorem chdr_sizeof64 (le : Bool) (m : String) (sol core : Bool) :
    (Spec.elfStructs ⟨le, 64, m, sol, core⟩).Elf_Chdr.sizeof = some (chdrSize 64) := by
  rw [elfChdr64]; rfl

theorem Chdr.fits_facts {cls : Nat} {c : Chdr} (h : c.fits cls = true) :
    c.chType < 2 ^ 32 ∧ c.chSize < 2 ^ cls ∧ c.chAlign < 2 ^ cls := by
  simp only [Chdr.fits, Bool.and_eq_true, decide_eq_true_eq] at h
  exact ⟨h.1.1, h.1.2, h.2⟩

/-- Elf32_Chdr read back, at any position, whatever follows -/
theorem chdr_roundtrip32 (env : Env) (le : Bool) (m : String) (sol core : Bool) (c : Chdr) (hfit : c.fits 32 = true)
    (data : Bytes) (pos : Nat) (rest : Bytes) (hd : data.drop pos = encChdr 32 le c ++ rest) (hp : pos < 2 ^ 63) :
    ∃ v, structParseAt env (Spec.elfStructs ⟨le, 32, m, sol, core⟩).Elf_Chdr data pos = .ok (v, pos + chdrSize 32) ∧
      IsChdr (decCOf env) v c := by
  obtain ⟨w1, w2, w3⟩ := Chdr.fits_facts hfit
  have h0 : data.drop pos = encNat le 4 c.chType ++ (encNat le 4 c.chSize ++ (encNat le 4 c.chAlign ++ rest)) := by
    rw [hd]; simp [encChdr, List.append_assoc]
  have h1 := drop_add_of_drop h0; rw [encNat_length] at h1
  have h2 := drop_add_of_drop h1; rw [encNat_length] at h2
  have r1 : ¬ (pos ≥ 2 ^ 63) := by omega
  refine ⟨.record [("ch_type", decCOf env c.chType), ("ch_size", .int c.chSize), ("ch_addralign", .int c.chAlign)], ?_, ?_⟩
  · rw [elfChdr32, structParseAt]
    simp only [if_neg r1, structParse, Con.parse]
    rw [parseFields_named (parse_enum_uint (by omega) h0), parseFields_named (parse_uint_enc (by omega) h1),
      parseFields_named (parse_uint_enc (by omega) h2), Con.parseFields]
    simp [bind, Except.bind, pure, Except.pure, Fields.set, decCOf, chdrSize, Nat.add_assoc]
  · constructor <;> simp [Val.getField, Fields.getR, Fields.get?]

/-- Elf64_Chdr read back -/
theorem chdr_roundtrip64 (env : Env) (le : Bool) (m : String) (sol core : Bool) (c : Chdr) (hfit : c.fits 64 = true)
    (data : Bytes) (pos : Nat) (rest : Bytes) (hd : data.drop pos = encChdr 64 le c ++ rest) (hp : pos < 2 ^ 63) :
    ∃ v, structParseAt env (Spec.elfStructs ⟨le, 64, m, sol, core⟩).Elf_Chdr data pos = .ok (v, pos + chdrSize 64) ∧
      IsChdr (decCOf env) v c := by
  obtain ⟨w1, w2, w3⟩ := Chdr.fits_facts hfit
  have h0 : data.drop pos = encNat le 4 c.chType ++ (encNat le 4 0 ++ (encNat le 8 c.chSize ++ (encNat le 8 c.chAlign ++ rest))) := by
    rw [hd]; simp [encChdr, List.append_assoc]
  have h1 := drop_add_of_drop h0; rw [encNat_length] at h1
  have h2 := drop_add_of_drop h1; rw [encNat_length] at h2
  have h3 := drop_add_of_drop h2; rw [encNat_length] at h3
  have r1 : ¬ (pos ≥ 2 ^ 63) := by omega
  refine ⟨.record [("ch_type", decCOf env c.chType), ("ch_reserved", .int (0 : Nat)), ("ch_size", .int c.chSize),
    ("ch_addralign", .int c.chAlign)], ?_, ?_⟩
  · rw [elfChdr64, structParseAt]
    simp only [if_neg r1, structParse, Con.parse]
    rw [parseFields_named (parse_enum_uint (by omega) h0), parseFields_named (parse_uint_enc (by omega) h1),
      parseFields_named (parse_uint_enc (by omega) h2), parseFields_named (parse_uint_enc (by omega) h3), Con.parseFields]
    simp [bind, Except.bind, pure, Except.pure, Fields.set, decCOf, chdrSize, Nat.add_assoc]
  · constructor <;> simp [Val.getField, Fields.getR, Fields.get?]

/-! ### naming facts from decoding tables -/

/-- `decodeIn` (Python: `dict((v, k) for k, v in mapping.items())`) finds a name iff some entry has the value -/
theorem decodeIn_foldl_mem (t : List (String × Int)) (v : Int) :
    ∀ (acc : Option String) (k : String),
      t.foldl (fun acc (e : String × Int) => if e.2 = v then some e.1 else acc) acc = some k →
      acc = some k ∨ (k, v) ∈ t := by
  induction t with
  | nil => intro acc k h; left; simpa using h
  | cons e t ih =>
    intro acc k h
    simp only [List.foldl_cons] at h
    rcases ih _ _ h with h1 | h1
    · by_cases he : e.2 = v
      · simp only [he, if_true] at h1
        right
        have : e = (k, v) := by
          cases e; simp at h1 he; simp [h1, he]
        simp [this]
      · simp only [he, if_false] at h1
        left; exact h1
    · right; simp [h1]

theorem decodeIn_foldl_some (t : List (String × Int)) (v : Int) :
    ∀ (acc : Option String), (acc.isSome ∨ ∃ e ∈ t, e.2 = v) →
      (t.foldl (fun acc (e : String × Int) => if e.2 = v then some e.1 else acc) acc).isSome := by
  induction t with
  | nil => intro acc h; rcases h with h | ⟨e, he, _⟩ <;> simp_all
  | cons e t ih =>
    intro acc h
    simp only [List.foldl_cons]
    apply ih
    by_cases he : e.2 = v
    · left; simp [he]
    · rcases h with h | ⟨e', he', hv⟩
      · left; simp [he, h]
      · rcases List.mem_cons.1 he' with rfl | h2
        · exact absurd hv he
        · right; exact ⟨e', h2, hv⟩

/-- a name/code pair is decoded consistently when the table gives the code that name only, the name
    that code only, and contains the pair -/
def pairOk (t : List (String × Int)) (name : String) (code : Nat) : Bool :=
  t.all (fun e => (e.1 != name || e.2 == (code : Int)) && (e.2 != (code : Int) || e.1 == name)) &&
  t.any (fun e => e.2 == (code : Int))

theorem decodeIn_name_iff {t : List (String × Int)} {name : String} {code : Nat} (h : pairOk t name code = true)
    (n : Nat) : Model.decodeIn t (n : Int) = some name ↔ n = code := by
  simp only [pairOk, Bool.and_eq_true, List.all_eq_true, List.any_eq_true, Bool.or_eq_true, bne_iff_ne, ne_eq,
    beq_iff_eq] at h
  obtain ⟨hall, ⟨e0, he0, hv0⟩⟩ := h
  constructor
  · intro hd
    rcases decodeIn_foldl_mem t n none name (by simpa [Model.decodeIn] using hd) with h1 | h1
    · cases h1
    · have := (hall _ h1).1
      simp at this
      exact_mod_cast this
  · rintro rfl
    have hs := decodeIn_foldl_some t (n : Int) none (Or.inr ⟨e0, he0, hv0⟩)
    rcases hk : Model.decodeIn t (n : Int) with _ | k
    · simp [Model.decodeIn] at hk hs; simp [hk] at hs
    · rcases decodeIn_foldl_mem t n none k (by simpa [Model.decodeIn] using hk) with h1 | h1
      · cases h1
      · have := (hall _ h1).2
        simp at this
        rw [this]


theorem decodeIn_none_of_absent {t : List (String × Int)} {v : Int} (h : ∀ e ∈ t, e.2 ≠ v) :
    Model.decodeIn t v = none := by
  rcases hk : Model.decodeIn t v with _ | k
  · rfl
  · rcases decodeIn_foldl_mem t v none k (by simpa [Model.decodeIn] using hk) with h1 | h1
    · cases h1
    · exact absurd rfl (h _ h1)

/-- no entry of the table has a value in `[lo, hi]` -/
def rangeFree (t : List (String × Int)) (lo hi : Nat) : Bool :=
  t.all (fun e => !(decide ((lo : Int) ≤ e.2) && decide (e.2 ≤ (hi : Int))))

theorem decodeIn_none_of_rangeFree {t : List (String × Int)} {lo hi : Nat} (h : rangeFree t lo hi = true)
    (n : Nat) (h1 : lo ≤ n) (h2 : n ≤ hi) : Model.decodeIn t (n : Int) = none := by
  apply decodeIn_none_of_absent
  intro e he hv
  simp only [rangeFree, List.all_eq_true, Bool.not_eq_true', Bool.and_eq_false_iff, decide_eq_false_iff_not] at h
  rcases h e he with h3 | h3 <;> omega

/-- the decoder of an `Enum(..., _default_=Pass)` field over table `t` -/
def decOfTable (t : List (String × Int)) (n : Nat) : Val :=
  match Model.decodeIn t (n : Int) with
  | some s => .str s
  | none => .int n

theorem decOfTable_nameOrInt (t : List (String × Int)) : NameOrInt (decOfTable t) := by
  intro n
  unfold decOfTable
  cases Model.decodeIn t (n : Int)
  · left; rfl
  · right; exact ⟨_, rfl⟩

theorem decOfTable_name_iff {t : List (String × Int)} {name : String} {code : Nat} (h : pairOk t name code = true)
    (n : Nat) : decOfTable t n = .str name ↔ n = code := by
  rw [← decodeIn_name_iff h n]
  unfold decOfTable
  cases Model.decodeIn t (n : Int) <;> simp

def ptypeTableOk (t : List (String × Int)) : Bool :=
  pairOk t "PT_LOAD" PT_LOAD && pairOk t "PT_DYNAMIC" PT_DYNAMIC && pairOk t "PT_PHDR" PT_PHDR &&
  pairOk t "PT_TLS" PT_TLS && pairOk t "PT_GNU_EH_FRAME" PT_GNU_EH_FRAME && pairOk t "PT_GNU_STACK" PT_GNU_STACK &&
  pairOk t "PT_GNU_RELRO" PT_GNU_RELRO && rangeFree t PT_GNU_SFRAME PT_GNU_MBIND_HI

theorem ptypeNaming_of_table {t : List (String × Int)} (h : ptypeTableOk t = true) : PTypeNaming (decOfTable t) := by
  simp only [ptypeTableOk, Bool.and_eq_true] at h
  obtain ⟨⟨⟨⟨⟨⟨⟨a1, a2⟩, a3⟩, a4⟩, a5⟩, a6⟩, a7⟩, a8⟩ := h
  exact { load := decOfTable_name_iff a1, dynamic := decOfTable_name_iff a2, phdr := decOfTable_name_iff a3,
          tls := decOfTable_name_iff a4, ehFrame := decOfTable_name_iff a5, stack := decOfTable_name_iff a6,
          relro := decOfTable_name_iff a7, nameOrInt := decOfTable_nameOrInt t,
          unnamed := fun n h1 h2 => by
            unfold decOfTable; rw [decodeIn_none_of_rangeFree a8 n h1 h2] }

theorem nobitsNaming_of_table {t : List (String × Int)} (h : pairOk t "SHT_NOBITS" SHT_NOBITS = true) :
    NobitsNaming (decOfTable t) := decOfTable_name_iff h

theorem zlibNaming_of_table {t : List (String × Int)} (h : pairOk t "ELFCOMPRESS_ZLIB" ELFCOMPRESS_ZLIB = true) :
    ZlibNaming (decOfTable t) := ⟨decOfTable_name_iff h, decOfTable_nameOrInt t⟩

/-- `nameOr` over an environment whose table `tid` is `t` is `decOfTable t` -/
theorem nameOr_eq_decOfTable {dec : String → Int → Option String} {tid : String} {t : List (String × Int)}
    (h : ∀ v, dec tid v = Model.decodeIn t v) : nameOr dec tid = decOfTable t := by
  funext n
  simp only [nameOr, decOfTable, h]
  cases Model.decodeIn t (n : Int) <;> rfl


/-! ### the decoded headers C01 proves reported are of the shape `IsShdr` / `IsPhdr` -/

/-- the raw (numeric) section header record a description carries (`Spec.SecDesc.raw`) -/
def rawShdr (nameOff : Nat) (s : Sec) (link info entsize : Nat) : Val :=
  .record [("sh_name", .int nameOff), ("sh_type", .int s.shType), ("sh_flags", .int s.flags), ("sh_addr", .int s.addr),
           ("sh_offset", .int s.offset), ("sh_size", .int s.size), ("sh_link", .int link), ("sh_info", .int info),
           ("sh_addralign", .int s.addralign), ("sh_entsize", .int entsize)]

/-- raw program header records, in the field order of each class -/
def rawPhdr32 (g : Seg) (paddr flags align : Nat) : Val :=
  .record [("p_type", .int g.ptype), ("p_offset", .int g.offset), ("p_vaddr", .int g.vaddr), ("p_paddr", .int paddr),
           ("p_filesz", .int g.filesz), ("p_memsz", .int g.memsz), ("p_flags", .int flags), ("p_align", .int align)]
def rawPhdr64 (g : Seg) (paddr flags align : Nat) : Val :=
  .record [("p_type", .int g.ptype), ("p_flags", .int flags), ("p_offset", .int g.offset), ("p_vaddr", .int g.vaddr),
           ("p_paddr", .int paddr), ("p_filesz", .int g.filesz), ("p_memsz", .int g.memsz), ("p_align", .int align)]

theorem decodeRaw_enum_pass (env : Env) (sub : Con) (t : String) (ctx : Fields) (k : Nat) :
    Con.decodeRaw env (.enum sub t true) ctx (.int (k : Int)) = .ok (nameOr env.enumDecode t k) := by
  rw [Con.decodeRaw]; unfold nameOr
  cases env.enumDecode t (k : Int) <;> rfl

theorem isShdr_of_decodeRaw (env : Env) (cfg : ElfCfg) (nameOff : Nat) (s : Sec) (link info entsize : Nat) :
    ∃ h, (Spec.elfStructs cfg).Elf_Shdr.decodeRaw env [] (rawShdr nameOff s link info entsize) = .ok h ∧
      IsShdr (nameOr env.enumDecode (shTypeTable cfg.mclass)) h s := by
  have key : (Spec.elfStructs cfg).Elf_Shdr.decodeRaw env [] (rawShdr nameOff s link info entsize) =
      .ok (.record [("sh_name", .int nameOff), ("sh_type", nameOr env.enumDecode (shTypeTable cfg.mclass) s.shType),
        ("sh_flags", .int s.flags), ("sh_addr", .int s.addr), ("sh_offset", .int s.offset), ("sh_size", .int s.size),
        ("sh_link", .int link), ("sh_info", .int info), ("sh_addralign", .int s.addralign), ("sh_entsize", .int entsize)]) := by
    simp [Spec.elfStructs, st, f, mkFields, enumOf, decodeRaw_enum_pass, Con.decodeRaw, ConFields.decodeRaw, rawShdr,
      Fields.get?, Fields.set, bind, Except.bind, pure, Except.pure]
  refine ⟨_, key, ?_⟩
  constructor <;> simp [Val.getField, Fields.getR, Fields.get?]

theorem isPhdr_of_decodeRaw32 (env : Env) (le : Bool) (m : String) (sol core : Bool) (g : Seg) (paddr flags align : Nat) :
    ∃ h, (Spec.elfStructs ⟨le, 32, m, sol, core⟩).Elf_Phdr.decodeRaw env [] (rawPhdr32 g paddr flags align) = .ok h ∧
      IsPhdr (nameOr env.enumDecode (pTypeTable m)) h g := by
  have key : (Spec.elfStructs ⟨le, 32, m, sol, core⟩).Elf_Phdr.decodeRaw env [] (rawPhdr32 g paddr flags align) =
      .ok (.record [("p_type", nameOr env.enumDecode (pTypeTable m) g.ptype), ("p_offset", .int g.offset),
        ("p_vaddr", .int g.vaddr), ("p_paddr", .int paddr), ("p_filesz", .int g.filesz), ("p_memsz", .int g.memsz),
        ("p_flags", .int flags), ("p_align", .int align)]) := by
    simp [Spec.elfStructs, st, f, mkFields, enumOf, decodeRaw_enum_pass, Con.decodeRaw, ConFields.decodeRaw, rawPhdr32,
      Fields.get?, Fields.set, bind, Except.bind, pure, Except.pure]
  refine ⟨_, key, ?_⟩
  constructor <;> simp [Val.getField, Fields.getR, Fields.get?]

theorem isPhdr_of_decodeRaw64 (env : Env) (le : Bool) (m : String) (sol core : Bool) (g : Seg) (paddr flags align : Nat) :
    ∃ h, (Spec.elfStructs ⟨le, 64, m, sol, core⟩).Elf_Phdr.decodeRaw env [] (rawPhdr64 g paddr flags align) = .ok h ∧
      IsPhdr (nameOr env.enumDecode (pTypeTable m)) h g := by
  have key : (Spec.elfStructs ⟨le, 64, m, sol, core⟩).Elf_Phdr.decodeRaw env [] (rawPhdr64 g paddr flags align) =
      .ok (.record [("p_type", nameOr env.enumDecode (pTypeTable m) g.ptype), ("p_flags", .int flags),
        ("p_offset", .int g.offset), ("p_vaddr", .int g.vaddr), ("p_paddr", .int paddr), ("p_filesz", .int g.filesz),
        ("p_memsz", .int g.memsz), ("p_align", .int align)]) := by
    simp [Spec.elfStructs, st, f, mkFields, enumOf, decodeRaw_enum_pass, Con.decodeRaw, ConFields.decodeRaw, rawPhdr64,
      Fields.get?, Fields.set, bind, Except.bind, pure, Except.pure]
  refine ⟨_, key, ?_⟩
  constructor <;> simp [Val.getField, Fields.getR, Fields.get?]

end PyElf.Proofs.C02
