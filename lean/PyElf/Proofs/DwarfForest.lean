/-
  C13, sixth wave: the unit lookup of C13 on the `.debug_info` of a C04 forest description
  (`Spec.C04.Forest`: abbreviation tables, units with trees of entries, the string / address / list
  sections), with the `DWARFInfo` exactly as C04's `debug_info_exact` runs it (`Props.C04.forestDInfo`:
  regenerated registry, regenerated struct bundles).  Helper lemmas for `Props/C13.lean`
  (`ref_addr_resolution_exact`, `lut_entry_die_exact`, `name_to_die_exact`, `addr_to_top_die`).
  C04's objects and theorems are imported, not copied.
-/
import PyElf.Props.C04
import PyElf.Proofs.DwarfRefResolve
import PyElf.Proofs.DwarfResolve
import PyElf.Proofs.DwarfNameOrder
import PyElf.Proofs.DwarfTables
import PyElf.Proofs.DwarfUnits
namespace PyElf.Proofs.Lookup
open PyElf PyElf.Spec PyElf.Spec.Lookup PyElf.Model.Lookup PyElf.Proofs
open PyElf.Spec.C04 (Forest UnitDesc DieObs placeInfo infoSec infoUnitOf infoDieOff flattenUnit wfForestB)
open PyElf.Model.C04 (DInfo UnitCtx unitCtx unitDIEFromRefaddr getTopDIE getCachedDIE sectionUnits)
open PyElf.Props.C04 (forestDInfo genBundles genNames unitRho infoCtx)

/-- the entries of the unit `p` of a forest, as `debug_info_exact` lists them -/
abbrev forestEntries (F : Forest) (p : Nat × UnitDesc) : List DieObs :=
  flattenUnit genNames (p.2.cfg F.le) (unitRho F p.2) (unitRho F p.2) (infoDieOff F p.1 p.2) p.2.tree

/-- the unit objects of the `.debug_info` of a forest -/
abbrev forestCUs (F : Forest) : List CU := cusOf F.le 0 (F.units.map (infoUnitOf F))

/-- `_parse_CU_at_offset` of the forest's `DWARFInfo` on its `.debug_info` -/
abbrev forestP (F : Forest) (dasz : Nat) : Nat → R CU :=
  infoParser (forestDInfo F dasz) (genBundles F.le dasz).S0 (infoSec F)

/-- … is the parser `specP` the unit-lookup theorems are stated with -/
theorem forestP_eq (F : Forest) (dasz : Nat) (hdasz : dasz = 4 ∨ dasz = 8) :
    forestP F dasz = specP Model.genEnumDecode F.le dasz (infoSec F) :=
  Props.C04.parseCU_gen_eq_spec F.le dasz hdasz (infoSec F)

theorem forestP_offset (F : Forest) (dasz : Nat) : ∀ o c, forestP F dasz o = .ok c → c.cuOffset = o :=
  fun o c h => parseCU_offset o c h

/-- the `.debug_info` of a well-formed forest is a chain of its units -/
theorem forest_chain (F : Forest) (dasz : Nat) (hdasz : dasz = 4 ∨ dasz = 8) (hwf : wfForestB genNames F = true) :
    Chain (forestP F dasz) (infoSec F).length 0 (forestCUs F) := by
  rw [forestP_eq F dasz hdasz]
  exact C04.chain_encoded_all Props.C04.registry_gen.ut (F.units.map (infoUnitOf F)) 0
    (fun iu hiu => by
      obtain ⟨u, hu, rfl⟩ := List.mem_map.1 hiu
      exact (C04.wfForest_of_B genNames F hwf).infoHdr u hu) (by simp [infoSec]) (by simp [infoSec])

theorem forest_mem_cus (F : Forest) (p : Nat × UnitDesc) (hp : p ∈ placeInfo F 0 F.units) :
    cuOf F.le p.1 (infoUnitOf F p.2) ∈ forestCUs F := by
  show _ ∈ cusOf F.le 0 (F.units.map (infoUnitOf F))
  rw [C04.cusOf_placeInfo]; exact List.mem_map.2 ⟨p, hp, rfl⟩

/-- every unit object of the forest is the object of a placed unit -/
theorem forest_cus_mem (F : Forest) (c : CU) (hc : c ∈ forestCUs F) :
    ∃ p ∈ placeInfo F 0 F.units, c = cuOf F.le p.1 (infoUnitOf F p.2) := by
  have hc' : c ∈ cusOf F.le 0 (F.units.map (infoUnitOf F)) := hc
  rw [C04.cusOf_placeInfo] at hc'
  obtain ⟨p, hp, rfl⟩ := List.mem_map.1 hc'
  exact ⟨p, hp, rfl⟩

/-- the glue on a unit of the forest: the context `iter_CUs()` gives it (`debug_info_units`) -/
theorem forest_unitCtx (F : Forest) (dasz : Nat) (hdasz : dasz = 4 ∨ dasz = 8) (hwf : wfForestB genNames F = true)
    (p : Nat × UnitDesc) (hp : p ∈ placeInfo F 0 F.units) :
    unitCtx (forestDInfo F dasz) (genBundles F.le dasz).S0 (infoSec F) (cuOf F.le p.1 (infoUnitOf F p.2))
      = .ok (infoCtx F dasz p) := by
  have hW := C04.wfForest_of_B genNames F hwf
  have hB := Props.C04.genBundles_ok F.le dasz hdasz
  have hS := (hB.get (C04.wfUnit_cfg_mem (hW.infoHdr p.2 (C04.mem_placeInfo F _ _ p hp)))).1
  rw [Props.C04.forestDInfo_eq]
  exact C04.unitCtx_info F dasz Model.genEnumDecode Model.C04.genRaw2name (genBundles F.le dasz) hS (infoSec F) p.1

/-- an entry of a unit lies between the unit's first-entry offset and its end -/
theorem forest_entry_range (F : Forest) (hwf : wfForestB genNames F = true) (p : Nat × UnitDesc)
    (hp : p ∈ placeInfo F 0 F.units) (d : DieObs) (hd : d ∈ forestEntries F p) :
    p.1 ≤ infoDieOff F p.1 p.2 ∧ infoDieOff F p.1 p.2 ≤ d.offset ∧ d.offset < p.1 + unitSize F.le (infoUnitOf F p.2) := by
  have hW := C04.wfForest_of_B genNames F hwf
  have htiles := C04.info_unit_tiles genNames (unitRho F p.2) (unitRho F p.2) F p.1 p.2
  have hlo := C04.tiles_offset_ge _ _ _ htiles d hd
  have hhi := C04.tiles_end_le _ _ _ htiles d hd
  have hpos := C04.flattenUnit_size_pos genNames _ _ _ p.2.tree _ (hW.units p hp).tree d hd
  have hdie : p.1 ≤ infoDieOff F p.1 p.2 := by unfold infoDieOff; omega
  exact ⟨hdie, hlo, by omega⟩

/-! ### task 1: DW_FORM_ref_addr through the unit cache -/

/-- `dwarfinfo.get_DIE_from_refaddr(d.offset)` for every entry `d` of every unit `p` of a well-formed forest,
    from every reachable cache state: the unit `p` and the entry `d`; the linear scan agrees -/
theorem forest_getDIEFromRefaddr (F : Forest) (dasz : Nat) (hdasz : dasz = 4 ∨ dasz = 8) (hwf : wfForestB genNames F = true)
    (p : Nat × UnitDesc) (hp : p ∈ placeInfo F 0 F.units) (d : DieObs) (hd : d ∈ forestEntries F p)
    (st : CUCache) (hinv : Inv (forestP F dasz) (forestCUs F) st) :
    (∃ st', getDIEFromRefaddr (forestDInfo F dasz) (genBundles F.le dasz).S0 st (d.offset : Int)
          = (.ok (cuOf F.le p.1 (infoUnitOf F p.2), d), st') ∧ Inv (forestP F dasz) (forestCUs F) st')
      ∧ Driver.C04.sectionRef (sectionUnits (forestDInfo F dasz) (genBundles F.le dasz).S0 (some (infoSec F)) false)
          (infoSec F).length (d.offset : Int) = .ok (p.1, d) := by
  have hch := forest_chain F dasz hdasz hwf
  obtain ⟨h0, h1, h2⟩ := forest_entry_range F hwf p hp d hd
  have hexact := getDIEFromRefaddr_exact (forestDInfo F dasz) (genBundles F.le dasz).S0 (infoSec F) rfl (forestCUs F) hch st
    hinv _ (forest_mem_cus F p hp) _ C04.cuOf_size_all d.offset (show p.1 ≤ d.offset by omega) h2 _
    (forest_unitCtx F dasz hdasz hwf p hp) d (Props.C04.refs_info_exact F dasz hdasz hwf p hp d hd).1
  refine ⟨hexact, ?_⟩
  obtain ⟨st1, hr1, _⟩ := hexact
  obtain ⟨r, st2, hr2, _, hmap⟩ := getDIEFromRefaddr_eq_sectionRef (forestDInfo F dasz) (genBundles F.le dasz).S0 (infoSec F)
    rfl (forestCUs F) hch st hinv (d.offset : Int)
  rw [hr1] at hr2
  injection hr2 with hr hst
  rw [← hmap, ← hr]
  rfl

/-! ### task 2: a name-table entry down to the entry it names -/

/-- `dwarfinfo.get_DIE_from_lut_entry(NameLUTEntry(cu_ofs = p.1, die_ofs = d.offset))` -/
theorem forest_lutEntryDie (F : Forest) (dasz : Nat) (hdasz : dasz = 4 ∨ dasz = 8) (hwf : wfForestB genNames F = true)
    (p : Nat × UnitDesc) (hp : p ∈ placeInfo F 0 F.units) (d : DieObs) (hd : d ∈ forestEntries F p)
    (st : CUCache) (hinv : Inv (forestP F dasz) (forestCUs F) st) :
    ∃ st', getDIEFromLutEntryDie (forestDInfo F dasz) (genBundles F.le dasz).S0 st p.1 d.offset
        = (.ok (cuOf F.le p.1 (infoUnitOf F p.2), d), st') ∧ Inv (forestP F dasz) (forestCUs F) st' := by
  have hch := forest_chain F dasz hdasz hwf
  obtain ⟨st', hr, hinv'⟩ := getCUAt_exact (forestP_offset F dasz) hch hinv (forest_mem_cus F p hp)
  refine ⟨st', ?_, hinv'⟩
  have hr' : getCUAt (infoParser (forestDInfo F dasz) (genBundles F.le dasz).S0 (infoSec F)) (infoSec F).length st p.1
      = (.ok (cuOf F.le p.1 (infoUnitOf F p.2)), st') := hr
  have hinfo : (forestDInfo F dasz).info = some (infoSec F) := rfl
  unfold getDIEFromLutEntryDie
  simp only [hinfo, hr', cuDIEFromRefaddr, forest_unitCtx F dasz hdasz hwf p hp, bind, Except.bind,
    (Props.C04.refs_info_exact F dasz hdasz hwf p hp d hd).1]

/-- `dictGet?` (the model's `dict.__getitem__`) is the Spec's association lookup -/
theorem dictGet_eq_assocGet {V} (m : List (Bytes × V)) (k : Bytes) : dictGet? m k = assocGet? m k := rfl

/-! ### task 3: the top entry of a unit -/

/-- `cu.get_top_DIE()` on a unit of a well-formed forest: the first entry of the unit's flattening, and it lies at
    the first-entry offset -/
theorem forest_topDIE (F : Forest) (dasz : Nat) (hdasz : dasz = 4 ∨ dasz = 8) (hwf : wfForestB genNames F = true)
    (p : Nat × UnitDesc) (hp : p ∈ placeInfo F 0 F.units) :
    ∃ top rest, forestEntries F p = top :: rest ∧ top.offset = infoDieOff F p.1 p.2 ∧
      cuTopDIE (forestDInfo F dasz) (genBundles F.le dasz).S0 (infoSec F) (cuOf F.le p.1 (infoUnitOf F p.2)) = .ok top := by
  have hcov := ((Props.C04.debug_info_exact F dasz hdasz hwf getCachedDIE (fun _ _ _ => rfl)).2 p hp).2.2.2
  rcases htree : p.2.tree with ⟨n, kids, nl⟩
  have hflat : forestEntries F p = Spec.C04.entryObs genNames (p.2.cfg F.le) (unitRho F p.2) (infoDieOff F p.1 p.2) n ::
      (if n.decl.children then
        Spec.C04.flattenForest genNames (p.2.cfg F.le) (unitRho F p.2) (infoDieOff F p.1 p.2 + (Spec.C04.encEntry (p.2.cfg F.le) n).length) kids ++
          [Spec.C04.nullObs (infoDieOff F p.1 p.2 + (Spec.C04.encEntry (p.2.cfg F.le) n).length + (Spec.C04.encForest (p.2.cfg F.le) kids).length) nl]
       else []) := by
    show flattenUnit _ _ _ _ _ p.2.tree = _
    rw [htree, flattenUnit]
  refine ⟨_, _, hflat, rfl, ?_⟩
  have hmem : Spec.C04.entryObs genNames (p.2.cfg F.le) (unitRho F p.2) (infoDieOff F p.1 p.2) n ∈ forestEntries F p := by
    rw [hflat]; exact List.mem_cons_self
  have hG := hcov _ hmem
  have hoff : (Spec.C04.entryObs genNames (p.2.cfg F.le) (unitRho F p.2) (infoDieOff F p.1 p.2) n).offset
      = (infoCtx F dasz p).cuDieOffset := rfl
  rw [hoff] at hG
  unfold cuTopDIE
  simp only [forest_unitCtx F dasz hdasz hwf p hp, bind, Except.bind]
  unfold getCachedDIE at hG
  simp only [bind, Except.bind, pure, Except.pure, if_true] at hG
  cases ht : getTopDIE (infoCtx F dasz p) with
  | error e => rw [ht] at hG; cases hG
  | ok t => rw [ht] at hG; exact hG

/-- `NameLUT._get_entries()` on an encoded table (Props/C13 `names_exact_ordered`, restated here for the composition) -/
theorem nameGetEntries_encoded (env : Env) (le : Bool) (dasz dver : Nat) (sets : List NameSet)
    (hwf : ∀ s ∈ sets, wfNameSet le s = true) :
    nameGetEntries env (Spec.dwarfStructs ⟨le, 32, dasz, dver⟩) 32 (encNameSets le sets) (encNameSets le sets).length
      = .ok (orderedLastWins (namePairs sets), sets.map (nameHdrVal le)) := by
  have := nameSetsLoop_spec (env := env) (data := encNameSets le sets) (le := le) (dasz := dasz) (dver := dver)
    (size := (encNameSets le sets).length) sets 0 ((encNameSets le sets).length + 1) [] [] (by simp) (by simp) hwf
    (by have := encNameSets_length_ge le sets; omega)
  rw [← mappingOf_eq_orderedLastWins]
  simpa [nameGetEntries, addSets_eq, mappingOf] using this

/-- `dwarfinfo.get_DIE_from_lut_entry(dwarfinfo.get_pubnames()[name])` on an encoded name table whose (winning) entry
    for `name` names the unit `p` and the entry `d` of a well-formed forest -/
theorem forest_dieByName (env : Env) (F : Forest) (dasz dver : Nat) (hdasz : dasz = 4 ∨ dasz = 8)
    (hwf : wfForestB genNames F = true) (sets : List NameSet) (hwfN : ∀ s ∈ sets, wfNameSet F.le s = true)
    (name : Bytes) (p : Nat × UnitDesc) (hp : p ∈ placeInfo F 0 F.units) (d : DieObs) (hd : d ∈ forestEntries F p)
    (hitem : (name, p.1, d.offset) ∈ orderedLastWins (namePairs sets))
    (st : CUCache) (hinv : Inv (forestP F dasz) (forestCUs F) st) :
    ∃ st', dieByName env (Spec.dwarfStructs ⟨F.le, 32, dasz, dver⟩) (some (encNameSets F.le sets)) (forestDInfo F dasz)
          (genBundles F.le dasz).S0 st name = (.ok (some (cuOf F.le p.1 (infoUnitOf F p.2), d)), st')
      ∧ Inv (forestP F dasz) (forestCUs F) st' := by
  obtain ⟨st', hr, hinv'⟩ := forest_lutEntryDie F dasz hdasz hwf p hp d hd st hinv
  refine ⟨st', ?_, hinv'⟩
  have hget : dictGet? (orderedLastWins (namePairs sets)) name = some (p.1, d.offset) := by
    rw [dictGet_eq_assocGet]
    exact (mem_iff_assocGet _ (orderedLastWins_spec (namePairs sets)).nodup name (p.1, d.offset)).1 hitem
  unfold dieByName
  simp only [getNameLUT, nameGetEntries_encoded env F.le dasz dver sets hwfN, bind, Except.bind, pure, Except.pure, hget, hr]

/-- address → range table → unit → `get_top_DIE()` on a well-formed forest and a well-formed, shadow-free encoded
    range table whose unit offsets are starts of units of the forest -/
theorem forest_topDIEForAddr (env : Env) (F : Forest) (dasz dver : Nat) (hdasz : dasz = 4 ∨ dasz = 8)
    (hwf : wfForestB genNames F = true) (sets : List ARSet) (hwfS : wfSets F.le 0 sets = true)
    (hns : (entriesOf F.le 0 sets).Pairwise noShadow)
    (hstarts : ∀ e ∈ entriesOf F.le 0 sets, ∃ p ∈ placeInfo F 0 F.units, p.1 = e.infoOff)
    (st : CUCache) (hinv : Inv (forestP F dasz) (forestCUs F) st) (byC : Bool) (a : Nat) :
    ∃ t, getAranges env (Spec.dwarfStructs ⟨F.le, 32, dasz, dver⟩) (some (encSets F.le 0 sets)) = .ok (some t) ∧
      match cuOffsetAt (entriesOf F.le 0 sets) a with
      | none => topDIEForAddr byC (some t) (forestDInfo F dasz) (genBundles F.le dasz).S0 st a = (.ok none, st)
      | some o => ∃ p ∈ placeInfo F 0 F.units, p.1 = o ∧ ∃ top rest st', forestEntries F p = top :: rest ∧
          top.offset = infoDieOff F p.1 p.2 ∧
          topDIEForAddr byC (some t) (forestDInfo F dasz) (genBundles F.le dasz).S0 st a
            = (.ok (some (cuOf F.le p.1 (infoUnitOf F p.2), top)), st') ∧
          Inv (forestP F dasz) (forestCUs F) st' := by
  have hch := forest_chain F dasz hdasz hwf
  have hmem : ∀ e ∈ entriesOf F.le 0 sets, ∃ c ∈ forestCUs F, c.cuOffset = e.infoOff := by
    intro e he
    obtain ⟨p, hp, hpo⟩ := hstarts e he
    exact ⟨cuOf F.le p.1 (infoUnitOf F p.2), forest_mem_cus F p hp, hpo⟩
  have hinit : ARanges.init env (Spec.dwarfStructs ⟨F.le, 32, dasz, dver⟩) 32 (encSets F.le 0 sets) (encSets F.le 0 sets).length
      = .ok ⟨pySortBy (·.begin) (entriesOf F.le 0 sets), (pySortBy (·.begin) (entriesOf F.le 0 sets)).map (·.begin)⟩ := by
    have := setsLoop_spec (env := env) (data := encSets F.le 0 sets) (le := F.le) (dasz := dasz) (dver := dver)
      (size := (encSets F.le 0 sets).length) sets 0 ((encSets F.le 0 sets).length + 1) [] (by simp) (by simp) hwfS
      (by have := encSets_length_ge F.le sets 0; omega)
    unfold ARanges.init
    simp only [getEntries, this, List.nil_append, bind, Except.bind, pure, Except.pure]
  refine ⟨⟨pySortBy (·.begin) (entriesOf F.le 0 sets), (pySortBy (·.begin) (entriesOf F.le 0 sets)).map (·.begin)⟩, ?_, ?_⟩
  · simp only [getAranges, hinit, bind, Except.bind, pure, Except.pure]
  · have h := unitForAddr_spec (P := infoParser (forestDInfo F dasz) (genBundles F.le dasz).S0) (data := infoSec F)
      (forestP_offset F dasz) hch hinv hns hmem byC a
    have hinfo : (forestDInfo F dasz).info = some (infoSec F) := rfl
    cases hr : cuOffsetAt (entriesOf F.le 0 sets) a with
    | none =>
      rw [hr] at h
      simp only at h ⊢
      unfold topDIEForAddr
      simp only [hinfo, h]
    | some o =>
      rw [hr] at h
      obtain ⟨c, hc, hco, st', hres, hinv'⟩ := h
      obtain ⟨p, hp, rfl⟩ := forest_cus_mem F c hc
      obtain ⟨top, rest, hflat, htoff, htop⟩ := forest_topDIE F dasz hdasz hwf p hp
      refine ⟨p, hp, hco, top, rest, st', hflat, htoff, ?_, hinv'⟩
      unfold topDIEForAddr
      simp only [hinfo, hres, htop]

end PyElf.Proofs.Lookup
