/-
  C15 helper lemmas: the Spec assembler satisfies the Spec layout predicate.
  For every description accepted by `Spec.C15.needWf` / `defWf` / `versymWf` /
  `symsWf`, any byte string that carries the assembled section (and the string
  table) at some offsets is a layout in the sense of `needLayout` / `defLayout` /
  `versymAt` / `symsAt`.
-/
import PyElf.Proofs.GnuPlace
namespace PyElf.Proofs.C15
open PyElf PyElf.Spec PyElf.Spec.C15

theorem holds_of_consistent (fill : UInt8) (ws : List Write) (buf : Bytes) (hc : consistent ws = true) :
    ∀ w ∈ ws, Holds (ws.foldl (pl fill) buf) w :=
  fun w hw => foldl_holds fill ws buf [] hc (by simp) w (Or.inr hw)

section need
variable {le : Bool} {fill : UInt8} {size : Nat} {strtab data rest rest' : Bytes} {off strOff : Nat}

theorem assembleNeed_layout {es : List NeedEntry} (hwf : needWf le strtab es = true)
    (hd : data.drop off = assembleNeed le fill size es ++ rest)
    (hs : data.drop strOff = strtab ++ rest') :
    needLayout le data strOff off es = true := by
  simp only [needWf, Bool.and_eq_true] at hwf
  obtain ⟨hc, hok⟩ := hwf
  rw [assembleNeed_eq] at hd
  have hall := holds_of_consistent fill (needWrites le es) (List.replicate size fill) hc
  have hP : ∀ w ∈ needWrites le es, bytesAt data (off + w.1) w.2 = true :=
    fun w hw => bytesAt_of_holds (hall w hw) hd
  simp only [needOk, List.all_eq_true] at hok
  have := chainAt_of_writes (fun e : NeedEntry => e.r.enc le) (·.r.next) (needAuxWrites le)
    (NeedEntry.at le data strOff) (fun w => bytesAt data (off + w.1) w.2 = true)
    (fun e => (e.r.fits && gv_strAt strtab e.r.file e.file && decide (e.r.cnt = e.auxs.length) && decide (1 ≤ e.r.cnt)
      && e.auxs.all fun a => a.r.fits && gv_strAt strtab a.r.name a.name) = true) off
    (by
      intro pos e hq hb hsub
      simp only [Bool.and_eq_true, List.all_eq_true] at hq
      obtain ⟨⟨⟨⟨h1, h2⟩, h3⟩, h4⟩, h5⟩ := hq
      simp only [NeedEntry.at, Bool.and_eq_true]
      refine ⟨⟨⟨⟨⟨h1, hb⟩, strAt_of_table h2 hs⟩, h3⟩, h4⟩, ?_⟩
      have := chainAt_of_writes (fun a : NeedAux => a.r.enc le) (·.r.next) (fun _ _ => [])
        (NeedAux.at le data strOff) (fun w => bytesAt data (off + w.1) w.2 = true)
        (fun a => a.r.fits = true ∧ gv_strAt strtab a.r.name a.name = true) off
        (by
          intro p a hq hb _
          simp only [NeedAux.at, Bool.and_eq_true]
          exact ⟨⟨hq.1, hb⟩, strAt_of_table hq.2 hs⟩)
        e.auxs (pos + e.r.aux) h5 hsub
      rw [← Nat.add_assoc] at this
      exact this)
    es 0 hok hP
  simpa [needLayout] using this

theorem assembleDef_layout {es : List DefEntry} (hwf : defWf le strtab es = true)
    (hd : data.drop off = assembleDef le fill size es ++ rest)
    (hs : data.drop strOff = strtab ++ rest') :
    defLayout le data strOff off es = true := by
  simp only [defWf, Bool.and_eq_true] at hwf
  obtain ⟨hc, hok⟩ := hwf
  rw [assembleDef_eq] at hd
  have hall := holds_of_consistent fill (defWrites le es) (List.replicate size fill) hc
  have hP : ∀ w ∈ defWrites le es, bytesAt data (off + w.1) w.2 = true :=
    fun w hw => bytesAt_of_holds (hall w hw) hd
  simp only [defOk, List.all_eq_true] at hok
  have := chainAt_of_writes (fun e : DefEntry => e.r.enc le) (·.r.next) (defAuxWrites le)
    (DefEntry.at le data strOff) (fun w => bytesAt data (off + w.1) w.2 = true)
    (fun e => (e.r.fits && decide (e.r.cnt = e.auxs.length) && decide (1 ≤ e.r.cnt)
      && e.auxs.all fun a => a.r.fits && gv_strAt strtab a.r.name a.name) = true) off
    (by
      intro pos e hq hb hsub
      simp only [Bool.and_eq_true, List.all_eq_true] at hq
      obtain ⟨⟨⟨h1, h3⟩, h4⟩, h5⟩ := hq
      simp only [DefEntry.at, Bool.and_eq_true]
      refine ⟨⟨⟨⟨h1, hb⟩, h3⟩, h4⟩, ?_⟩
      have := chainAt_of_writes (fun a : DefAux => a.r.enc le) (·.r.next) (fun _ _ => [])
        (DefAux.at le data strOff) (fun w => bytesAt data (off + w.1) w.2 = true)
        (fun a => a.r.fits = true ∧ gv_strAt strtab a.r.name a.name = true) off
        (by
          intro p a hq hb _
          simp only [DefAux.at, Bool.and_eq_true]
          exact ⟨⟨hq.1, hb⟩, strAt_of_table hq.2 hs⟩)
        e.auxs (pos + e.r.aux) h5 hsub
      rw [← Nat.add_assoc] at this
      exact this)
    es 0 hok hP
  simpa [defLayout] using this

end need

/-! ### the version-symbol table and the symbol table: arrays of padded entries -/

theorem bytesAt_prefix {data bs rest : Bytes} {pos : Nat} (h : data.drop pos = bs ++ rest) :
    bytesAt data pos bs = true := by
  simp [bytesAt, readN, h]

theorem assembleVersym_cons (le : Bool) (fill : UInt8) (es : Nat) (x : VersymRow) (rows : List VersymRow) :
    assembleVersym le fill es (x :: rows)
      = encNat le 2 x.ndx ++ List.replicate (es - 2) fill ++ assembleVersym le fill es rows := by
  simp [assembleVersym]

theorem assembleVersym_layout {le : Bool} {fill : UInt8} {es : Nat} {data : Bytes} {off : Nat} (hes : 2 ≤ es) :
    ∀ (rows : List VersymRow) (i : Nat) (rest : Bytes), (∀ x ∈ rows, half x.ndx = true) →
      data.drop (off + i * es) = assembleVersym le fill es rows ++ rest →
      versymAt le data off es i rows = true
  | [], _, _, _, _ => rfl
  | x :: rows, i, rest, hh, hd => by
    rw [assembleVersym_cons] at hd
    simp only [versymAt, Bool.and_eq_true]
    refine ⟨⟨hh x List.mem_cons_self, bytesAt_prefix (rest := List.replicate (es - 2) fill ++
      (assembleVersym le fill es rows ++ rest)) (by rw [hd]; simp)⟩, ?_⟩
    apply assembleVersym_layout hes rows (i + 1) rest (fun y hy => hh y (List.mem_cons_of_mem _ hy))
    have hl : (encNat le 2 x.ndx ++ List.replicate (es - 2) fill).length = es := by
      simp [encNat_length]; omega
    have : off + (i + 1) * es = off + i * es + es := by rw [Nat.add_mul]; omega
    rw [this, ← List.drop_drop, hd, List.append_assoc, List.drop_left' hl]

theorem sym_enc_length (cls : Nat) (le : Bool) (s : Sym) : (s.enc cls le).length = symSize cls := by
  unfold Sym.enc symSize
  split <;> simp [encNat_length]

theorem assembleSyms_cons (cls : Nat) (le : Bool) (fill : UInt8) (es : Nat) (s : Sym) (syms : List Sym) :
    assembleSyms cls le fill es (s :: syms)
      = s.enc cls le ++ List.replicate (es - symSize cls) fill ++ assembleSyms cls le fill es syms := by
  simp [assembleSyms, sym_enc_length]

theorem assembleSyms_layout {cls : Nat} {le : Bool} {fill : UInt8} {es : Nat} {data strtab rest' : Bytes}
    {off strOff : Nat} (hes : symSize cls ≤ es) (hs : data.drop strOff = strtab ++ rest') :
    ∀ (rows : List (Sym × VersymRow)) (i : Nat) (rest : Bytes),
      (∀ r ∈ rows, (r.1.fits cls && gv_strAt strtab r.1.name r.2.symName) = true) →
      data.drop (off + i * es) = assembleSyms cls le fill es (rows.map (·.1)) ++ rest →
      symsAt cls le data off es strOff i rows = true
  | [], _, _, _, _ => rfl
  | (s, x) :: rows, i, rest, hh, hd => by
    rw [List.map_cons, assembleSyms_cons] at hd
    have h0 := hh (s, x) List.mem_cons_self
    simp only [Bool.and_eq_true] at h0
    simp only [symsAt, symAt, Bool.and_eq_true]
    refine ⟨⟨⟨h0.1, bytesAt_prefix (rest := List.replicate (es - symSize cls) fill ++
      (assembleSyms cls le fill es (rows.map (·.1)) ++ rest)) (by rw [hd]; simp)⟩,
      strAt_of_table h0.2 hs⟩, ?_⟩
    apply assembleSyms_layout hes hs rows (i + 1) rest (fun y hy => hh y (List.mem_cons_of_mem _ hy))
    have hl : (s.enc cls le ++ List.replicate (es - symSize cls) fill).length = es := by
      simp [sym_enc_length]; omega
    have : off + (i + 1) * es = off + i * es + es := by rw [Nat.add_mul]; omega
    rw [this, ← List.drop_drop, hd, List.append_assoc, List.drop_left' hl]

end PyElf.Proofs.C15
