/-
  Helper lemmas for C08, part 8 (fifth wave): `Dynamic.get_relocation_tables` at the edges of its domain —
  a dynamic array that names a table but lacks the tag giving its size, entry size or flavour
  (gABI ch. 5 "Dynamic Section": DT_RELSZ / DT_RELENT are mandatory when DT_REL is present, likewise
  DT_RELASZ / DT_RELAENT, DT_RELRSZ / DT_RELRENT, and DT_PLTRELSZ / DT_PLTREL with DT_JMPREL), a
  DT_*ENT value that is not the entry size, and table objects whose address no PT_LOAD maps.
-/
import PyElf.Proofs.RelocDyn
namespace PyElf.Proofs.RelocDyn
open PyElf PyElf.Spec PyElf.Spec.RelocDyn PyElf.Model PyElf.Model.Reloc PyElf.Proofs PyElf.Proofs.Reloc
set_option linter.unusedSimpArgs false

theorem firstTag_nil {ts : List (Val × Nat)} {name : String} (h : tagsOf ts name = []) :
    firstTag ts name = .error .stopIteration := by
  simp [firstTag, h]

theorem firstTag_cons {ts : List (Val × Nat)} {name : String} {v : Nat} {vs : List Nat} (h : tagsOf ts name = v :: vs) :
    firstTag ts name = .ok v := by
  simp [firstTag, h]

theorem ne_nil_cons {l : List Nat} (h : l ≠ []) : ∃ v vs, l = v :: vs := by
  cases l with
  | nil => exact absurd rfl h
  | cons v vs => exact ⟨v, vs, rfl⟩

/-- DT_REL without DT_RELSZ: `next(self.iter_tags('DT_RELSZ'))` on an exhausted generator — a bare StopIteration
    leaves `get_relocation_tables` (whatever else the array holds) -/
theorem tables_rel_no_size (S : ElfStructs) (ts : List (Val × Nat)) (loads : List Load)
    (h1 : tagsOf ts "DT_REL" ≠ []) (h2 : tagsOf ts "DT_RELSZ" = []) :
    getRelocationTables S ts loads = .error .stopIteration := by
  obtain ⟨v, vs, hv⟩ := ne_nil_cons h1
  unfold getRelocationTables
  simp [hv, firstTag_nil h2, bind, Except.bind]

/-- DT_REL and DT_RELSZ without DT_RELENT: StopIteration, after the table object was built -/
theorem tables_rel_no_ent (cfg : ElfCfg) (hcls : cfg.cls = 32 ∨ cfg.cls = 64) (ts : List (Val × Nat)) (loads : List Load)
    (h1 : tagsOf ts "DT_REL" ≠ []) (h2 : tagsOf ts "DT_RELSZ" ≠ []) (h3 : tagsOf ts "DT_RELENT" = []) :
    getRelocationTables (Spec.elfStructs cfg) ts loads = .error .stopIteration := by
  obtain ⟨v, vs, hv⟩ := ne_nil_cons h1
  obtain ⟨z, zs, hz⟩ := ne_nil_cons h2
  unfold getRelocationTables
  simp [hv, firstTag_cons hz, firstTag_nil h3, mkTable_spec cfg hcls, bind, Except.bind]

/-- DT_RELENT that is not the entry size of the file's class / machine: the library's ELFError -/
theorem tables_rel_bad_ent (cfg : ElfCfg) (hcls : cfg.cls = 32 ∨ cfg.cls = 64) (ts : List (Val × Nat)) (loads : List Load)
    (h1 : tagsOf ts "DT_REL" ≠ []) (h2 : tagsOf ts "DT_RELSZ" ≠ []) {e : Nat} {es : List Nat}
    (h3 : tagsOf ts "DT_RELENT" = e :: es) (hne : e ≠ relEntSize (relCfgOf cfg) false) :
    getRelocationTables (Spec.elfStructs cfg) ts loads = .error .elfError := by
  obtain ⟨v, vs, hv⟩ := ne_nil_cons h1
  obtain ⟨z, zs, hz⟩ := ne_nil_cons h2
  have hne' : ¬ relEntSize (relCfgOf cfg) false = e := fun h => hne h.symm
  unfold getRelocationTables
  simp [hv, firstTag_cons hz, firstTag_cons h3, mkTable_spec cfg hcls, bind, Except.bind, specTable_entrySize, hne']

/-- DT_RELA (no DT_REL) without DT_RELASZ -/
theorem tables_rela_no_size (S : ElfStructs) (ts : List (Val × Nat)) (loads : List Load)
    (h0 : tagsOf ts "DT_REL" = []) (h1 : tagsOf ts "DT_RELA" ≠ []) (h2 : tagsOf ts "DT_RELASZ" = []) :
    getRelocationTables S ts loads = .error .stopIteration := by
  obtain ⟨v, vs, hv⟩ := ne_nil_cons h1
  unfold getRelocationTables
  simp [h0, hv, firstTag_nil h2, bind, Except.bind]

/-- DT_RELA and DT_RELASZ (no DT_REL) without DT_RELAENT -/
theorem tables_rela_no_ent (cfg : ElfCfg) (hcls : cfg.cls = 32 ∨ cfg.cls = 64) (ts : List (Val × Nat)) (loads : List Load)
    (h0 : tagsOf ts "DT_REL" = []) (h1 : tagsOf ts "DT_RELA" ≠ []) (h2 : tagsOf ts "DT_RELASZ" ≠ [])
    (h3 : tagsOf ts "DT_RELAENT" = []) :
    getRelocationTables (Spec.elfStructs cfg) ts loads = .error .stopIteration := by
  obtain ⟨v, vs, hv⟩ := ne_nil_cons h1
  obtain ⟨z, zs, hz⟩ := ne_nil_cons h2
  unfold getRelocationTables
  simp [h0, hv, firstTag_cons hz, firstTag_nil h3, mkTable_spec cfg hcls, bind, Except.bind]

/-- DT_RELAENT that is not the entry size -/
theorem tables_rela_bad_ent (cfg : ElfCfg) (hcls : cfg.cls = 32 ∨ cfg.cls = 64) (ts : List (Val × Nat)) (loads : List Load)
    (h0 : tagsOf ts "DT_REL" = []) (h1 : tagsOf ts "DT_RELA" ≠ []) (h2 : tagsOf ts "DT_RELASZ" ≠ []) {e : Nat} {es : List Nat}
    (h3 : tagsOf ts "DT_RELAENT" = e :: es) (hne : e ≠ relEntSize (relCfgOf cfg) true) :
    getRelocationTables (Spec.elfStructs cfg) ts loads = .error .elfError := by
  obtain ⟨v, vs, hv⟩ := ne_nil_cons h1
  obtain ⟨z, zs, hz⟩ := ne_nil_cons h2
  have hne' : ¬ relEntSize (relCfgOf cfg) true = e := fun h => hne h.symm
  unfold getRelocationTables
  simp [h0, hv, firstTag_cons hz, firstTag_cons h3, mkTable_spec cfg hcls, bind, Except.bind, specTable_entrySize, hne']

/-- DT_RELR (no DT_REL / DT_RELA) without DT_RELRSZ or without DT_RELRENT -/
theorem tables_relr_no_size_or_ent (S : ElfStructs) (ts : List (Val × Nat)) (loads : List Load)
    (h0 : tagsOf ts "DT_REL" = []) (h0' : tagsOf ts "DT_RELA" = []) (h1 : tagsOf ts "DT_RELR" ≠ [])
    (h2 : tagsOf ts "DT_RELRSZ" = [] ∨ tagsOf ts "DT_RELRENT" = []) :
    getRelocationTables S ts loads = .error .stopIteration := by
  obtain ⟨v, vs, hv⟩ := ne_nil_cons h1
  unfold getRelocationTables
  rcases h2 with h2 | h2
  · simp [h0, h0', hv, firstTag_nil h2, bind, Except.bind]
  · cases hz : tagsOf ts "DT_RELRSZ" with
    | nil => simp [h0, h0', hv, firstTag_nil hz, bind, Except.bind]
    | cons z zs => simp [h0, h0', hv, firstTag_cons hz, firstTag_nil h2, bind, Except.bind]

/-- DT_JMPREL (no DT_REL / DT_RELA / DT_RELR) without DT_PLTRELSZ or without DT_PLTREL -/
theorem tables_jmprel_no_size_or_flavour (S : ElfStructs) (ts : List (Val × Nat)) (loads : List Load)
    (h0 : tagsOf ts "DT_REL" = []) (h0' : tagsOf ts "DT_RELA" = []) (h0'' : tagsOf ts "DT_RELR" = [])
    (h1 : tagsOf ts "DT_JMPREL" ≠ [])
    (h2 : tagsOf ts "DT_PLTRELSZ" = [] ∨ tagsOf ts "DT_PLTREL" = []) :
    getRelocationTables S ts loads = .error .stopIteration := by
  obtain ⟨v, vs, hv⟩ := ne_nil_cons h1
  unfold getRelocationTables
  rcases h2 with h2 | h2
  · simp [h0, h0', h0'', hv, firstTag_nil h2, bind, Except.bind]
  · cases hz : tagsOf ts "DT_PLTRELSZ" with
    | nil => simp [h0, h0', h0'', hv, firstTag_nil hz, bind, Except.bind]
    | cons z zs => simp [h0, h0', h0'', hv, firstTag_cons hz, firstTag_nil h2, bind, Except.bind]

/-- a table pointer (any value, 0 included) is mapped through the PT_LOAD segments; absent tag: no offset -/
theorem tableOffset_spec (ts : List (Val × Nat)) (loads : List LoadSeg) (name : String) :
    tableOffset ts (loads.map toLoad) name = (tagsOf ts name).head?.bind (fileOffset loads) := by
  unfold tableOffset
  cases tagsOf ts name with
  | nil => rfl
  | cons p ps => simp [addressOffset_spec]

/-- a REL/RELA table whose address no PT_LOAD maps (`offset = None`): counting works, reading an entry is Python's
    TypeError (`None + int`) -/
theorem unmapped_table_access (env : Env) (data : Bytes) (t : RelocTable) (h : t.offset = none) (n : Nat) :
    getRelocation env data t n = .error .typeError := by
  simp [getRelocation, h]

theorem unmapped_table_iter (env : Env) (data : Bytes) (t : RelocTable) (h : t.offset = none) (hz : t.entrySize ≠ 0) :
    iterRelocations env data t = if t.size / t.entrySize = 0 then .ok [] else .error .typeError := by
  unfold iterRelocations numRelocations
  simp only [hz, ↓reduceIte, bind, Except.bind]
  cases hc : t.size / t.entrySize with
  | zero => simp [iterFrom]
  | succ k => simp [iterFrom, getRelocation, h, bind, Except.bind]

/-- an unmapped RELR table: empty when DT_RELRSZ is 0, TypeError otherwise -/
theorem unmapped_relr_iter (env : Env) (data : Bytes) (t : RelrTable) (h : t.offset = none) :
    relrIter env data t = if t.size = 0 then .ok [] else .error .typeError := by
  unfold relrIter
  split
  · rfl
  · simp [h]

end PyElf.Proofs.RelocDyn
