/-
  C20, truncated build-attributes sections: the file ENDS inside the section (at any byte of it) while
  the section header still claims the full size.  Whatever structure the cut falls into — the format
  byte, a subsection length, a vendor name, a scope tag, a size field, a section-number list, a tag, a
  ULEB128 / NTBS / compatibility / nested value — the nested observation raises ELFParseError
  (`attrs_truncated_at`).

  Route: for every primitive read a `_trunc` lemma next to the `_ok` lemma of Proofs/Attrs.lean;
  `seq_split` says where a cut of `A ++ B` falls; the loops step over the complete members
  (Proofs/AttrErrors.lean) and fail in the member that holds the cut.
-/
import PyElf.Proofs.AttrErrors
namespace PyElf.Proofs.C20
open PyElf PyElf.Spec PyElf.Spec.Attr PyElf.Model PyElf.Model.Attr PyElf.Proofs PyElf.Proofs.Attrs

/-! ### where a cut falls -/

theorem seq_split {data A B : Bytes} {pos k : Nat} (hd : data.drop pos = (A ++ B).take k) (hk : k < (A ++ B).length) :
    (∃ j, j < A.length ∧ data.drop pos = A.take j) ∨
    (∃ j, j < B.length ∧ data.drop pos = A ++ B.take j ∧ data.drop (pos + A.length) = B.take j) := by
  rw [List.take_append] at hd
  rw [List.length_append] at hk
  by_cases h : k < A.length
  · left
    refine ⟨k, h, ?_⟩
    rw [hd, show k - A.length = 0 by omega]; simp
  · right
    have hA : A.take k = A := List.take_of_length_le (by omega)
    rw [hA] at hd
    exact ⟨k - A.length, by omega, hd, drop_add_of_drop hd⟩

/-! ### primitive reads at a cut -/

theorem validLEB_take_high : ∀ (bs : Bytes) (j : Nat), ValidLEB bs = true → j < bs.length →
    ∀ b ∈ bs.take j, 128 ≤ b.toNat := by
  intro bs
  induction bs with
  | nil => intro j _ hj; simp at hj
  | cons b bs ih =>
    intro j hv hj x hx
    cases j with
    | zero => simp at hx
    | succ j =>
      cases bs with
      | nil => simp at hj
      | cons b' bs' =>
        simp only [ValidLEB, Bool.and_eq_true, decide_eq_true_eq] at hv
        simp only [List.take_succ_cons, List.mem_cons] at hx
        rcases hx with rfl | hx
        · exact hv.1
        · exact ih j hv.2 (by simpa using hj) x (by simpa using hx)

section prim
variable {env : Env} {data : Bytes}

theorem parse_uleb_trunc {pos j : Nat} {ctx : Fields} {u : U} (hu : u.wf = true)
    (hd : data.drop pos = u.enc.take j) (hj : j < u.n) :
    Con.parse env data .uleb ctx pos = .error .elfParseError := by
  have hh := validLEB_take_high u.enc j (U_valid hu) (by rw [U_enc_length]; exact hj)
  rw [Con.parse, parseUleb_trunc hd hh]; rfl

theorem parseInt_uleb_trunc {pos j : Nat} {u : U} (hu : u.wf = true)
    (hd : data.drop pos = u.enc.take j) (hj : j < u.n) :
    parseInt env .uleb data pos = .error .elfParseError := by
  simp [parseInt, structParse, parse_uleb_trunc (env := env) (ctx := []) hu hd hj, bind, Except.bind]

theorem parse_tagStruct_trunc {pos j : Nat} {u : U} {tbl : String} (hu : u.wf = true)
    (hd : data.drop pos = u.enc.take j) (hj : j < u.n) :
    structParse env (.struct (.cons (some "tag") false (.enum .uleb tbl false) .nil)) data pos
      = .error .elfParseError := by
  have h2 : Con.parse env data (.enum .uleb tbl false) [] pos = .error .elfParseError := by
    rw [Con.parse, parse_uleb_trunc hu hd hj]; rfl
  unfold structParse
  rw [Con.parse]
  simp only [Con.parseFields, h2, bind, Except.bind, Bool.false_eq_true, if_false]

theorem parseInt_word_trunc {pos j v : Nat} {le : Bool}
    (hd : data.drop pos = (encNat le 4 v).take j) (hj : j < 4) :
    parseInt env (.uint 4 le) data pos = .error .elfParseError := by
  have := parse_uint_short (env := env) (le := le) (ctx := []) (n := 4) hd
    (by rw [List.length_take, encNat_length]; omega)
  simp [parseInt, structParse, this, bind, Except.bind]

theorem parseInt_byte_eof {pos : Nat} {le : Bool} (hd : data.drop pos = []) :
    parseInt env (.uint 1 le) data pos = .error .elfParseError := by
  have := parse_uint_short (env := env) (le := le) (ctx := []) (n := 1) hd (by simp)
  simp [parseInt, structParse, this, bind, Except.bind]

theorem parse_cstring_trunc {pos j : Nat} {ctx : Fields} {s : Bytes} (hs : ∀ b ∈ s, b ≠ 0)
    (hd : data.drop pos = (s ++ [0]).take j) (hj : j < (s ++ [0]).length) :
    Con.parse env data .cstring ctx pos = .error .elfParseError := by
  have hj' : j ≤ s.length := by simp at hj; omega
  have e : (s ++ [0]).take j = s.take j := by
    rw [List.take_append, show j - s.length = 0 by omega]; simp
  rw [e] at hd
  rw [Con.parse, parseCString_unterminated (fun b hb => hs b (List.mem_of_mem_take hb)) hd]; rfl

theorem parseNtbs_trunc {cfg : ElfCfg} {pos j : Nat} {s : Bytes} (hs : strWf s = true)
    (hd : data.drop pos = (s ++ [0]).take j) (hj : j < (s ++ [0]).length) :
    parseNtbs env (Spec.elfStructs cfg) data pos = .error .elfParseError := by
  have e : (Spec.elfStructs cfg).Elf_ntbs = .cstring := rfl
  simp [parseNtbs, e, structParse, parse_cstring_trunc (env := env) (ctx := []) (strWf_iff hs).1 hd hj, bind, Except.bind]

theorem parse_hdrStruct_trunc {pos j : Nat} {vendor : Bytes} {le : Bool} {len : Nat}
    (hlen : len < 2 ^ 32) (hv : ∀ b ∈ vendor, b ≠ 0)
    (hd : data.drop pos = (encNat le 4 len ++ (vendor ++ [0])).take j)
    (hj : j < (encNat le 4 len ++ (vendor ++ [0])).length) :
    structParse env (.struct (.cons (some "length") false (.uint 4 le) (.cons (some "vendor_name") false .cstring .nil))) data pos
      = .error .elfParseError := by
  rcases seq_split hd hj with ⟨i, hi, h1⟩ | ⟨i, hi, h1, h2⟩
  · rw [encNat_length] at hi
    have e1 : Con.parse env data (.uint 4 le) [] pos = .error .elfParseError :=
      parse_uint_short h1 (by rw [List.length_take, encNat_length]; omega)
    unfold structParse
    rw [Con.parse]
    simp only [Con.parseFields, e1, bind, Except.bind, Bool.false_eq_true, if_false]
  · have e1 := parse_uint_ok (env := env) (le := le) (ctx := []) h1 (encNat_length le 4 len)
    rw [encNat_length] at h2
    have e2 := fun ctx => parse_cstring_trunc (env := env) (ctx := ctx) hv h2 hi
    unfold structParse
    rw [Con.parse]
    simp only [Con.parseFields, e1, e2, bind, Except.bind, Bool.false_eq_true, if_false]

end prim

/-! ### the section / symbol number list at a cut -/

theorem sNumbers_trunc (env : Env) (cfg : ElfCfg) (data : Bytes) :
    ∀ (nums : List U) (fuel pos j : Nat) (acc : List Val),
      (∀ u ∈ nums, u.wf = true ∧ u.v ≠ 0) → j + 1 ≤ fuel →
      data.drop pos = (encNums nums).take j → j < (encNums nums).length →
      sNumbers env (Spec.elfStructs cfg) data fuel pos acc = .error .elfParseError := by
  intro nums
  induction nums with
  | nil =>
    intro fuel pos j acc _ hf hd hj
    have hj0 : j = 0 := by simp [encNums] at hj; omega
    subst hj0
    cases fuel with
    | zero => omega
    | succ fuel =>
      have hz : (⟨0, 1⟩ : U).wf = true := by decide
      have hd' : data.drop pos = (⟨0, 1⟩ : U).enc.take 0 := by rw [hd]; rfl
      rw [sNumbers, S_uleb, parseInt_uleb_trunc hz hd' (by decide)]
      rfl
  | cons u nums ih =>
    intro fuel pos j acc h hf hd hj
    obtain ⟨hu, hnz⟩ := h u (by simp)
    rw [encNums_cons] at hd hj
    cases fuel with
    | zero => omega
    | succ fuel =>
      rcases seq_split hd hj with ⟨i, hi, h1⟩ | ⟨i, hi, h1, h2⟩
      · rw [U_enc_length] at hi
        rw [sNumbers, S_uleb, parseInt_uleb_trunc hu h1 hi]; rfl
      · have hne : ((u.v : Nat) : Int) ≠ 0 := by omega
        have hun := (U_wf_iff hu).1
        rw [U_enc_length] at h2
        have hlen : j = u.n + i := by
          have := congrArg List.length h1
          have e2 := congrArg List.length hd
          rw [List.length_take, List.length_append, U_enc_length] at e2
          rw [List.length_append, U_enc_length, List.length_take] at this
          rw [List.length_append, U_enc_length] at hj
          omega
        rw [sNumbers, S_uleb, parseInt_uleb hu h1]
        simp only [bind, Except.bind, ne_eq, hne, not_false_eq_true, if_true]
        exact ih fuel (pos + u.n) i _ (fun x hx => h x (by simp [hx])) (by omega) h2 hi

/-! ### one attribute at a cut -/

section arm
variable {env : Env} {cfg : ElfCfg} {data : Bytes}
  (harm : ∀ t : Nat, env.enumDecode "ENUM_ATTR_TAG_ARM" (t : Int) = tagName .arm t)
include harm

theorem arm_uleb_trunc {fuel pos k : Nat} {u w : U} (hu : u.wf = true) (hw : w.wf = true)
    (hk : kind .arm u.v = some .uleb) (hd : data.drop pos = (u.enc ++ w.enc).take k)
    (hlt : k < (u.enc ++ w.enc).length) :
    armAttribute env (Spec.elfStructs cfg) data (fuel + 1) pos = .error .elfParseError := by
  obtain ⟨name, hn, h1, -, h3, h4, h5⟩ := kind_arm hk
  rcases seq_split hd hlt with ⟨j, hj, e1⟩ | ⟨j, hj, e1, e2⟩
  · rw [U_enc_length] at hj
    rw [armAttribute, S_armTag, parse_tagStruct_trunc hu e1 hj]; rfl
  · rw [U_enc_length] at hj e2
    rw [armAttribute, S_armTag, parse_tagStruct hu e1 ((harm u.v).trans hn)]
    simp only [bind, Except.bind, getField_tag, h1, h3, h4, h5, S_uleb, parseInt_uleb_trunc hw e2 hj]
    rfl

theorem arm_ntbs_trunc {fuel pos k : Nat} {u : U} {s : Bytes} (hu : u.wf = true) (hs : strWf s = true)
    (hk : kind .arm u.v = some .ntbs) (hd : data.drop pos = (u.enc ++ (s ++ [0])).take k)
    (hlt : k < (u.enc ++ (s ++ [0])).length) :
    armAttribute env (Spec.elfStructs cfg) data (fuel + 1) pos = .error .elfParseError := by
  obtain ⟨name, hn, h1, -, h3, h4, h5⟩ := kind_arm hk
  rcases seq_split hd hlt with ⟨j, hj, e1⟩ | ⟨j, hj, e1, e2⟩
  · rw [U_enc_length] at hj
    rw [armAttribute, S_armTag, parse_tagStruct_trunc hu e1 hj]; rfl
  · rw [U_enc_length] at e2
    rw [armAttribute, S_armTag, parse_tagStruct hu e1 ((harm u.v).trans hn)]
    simp only [bind, Except.bind, getField_tag, h1, h3, h4, h5, parseNtbs_trunc hs e2 hj]
    rfl

theorem arm_compat_trunc {fuel pos k : Nat} {u f : U} {s : Bytes} (hu : u.wf = true) (hf : f.wf = true)
    (hs : strWf s = true) (hk : kind .arm u.v = some .compat)
    (hd : data.drop pos = (u.enc ++ (f.enc ++ (s ++ [0]))).take k)
    (hlt : k < (u.enc ++ (f.enc ++ (s ++ [0]))).length) :
    armAttribute env (Spec.elfStructs cfg) data (fuel + 1) pos = .error .elfParseError := by
  obtain ⟨name, hn, h1, -, h3, h4, h5⟩ := kind_arm hk
  rcases seq_split hd hlt with ⟨j, hj, e1⟩ | ⟨j, hj, e1, e2⟩
  · rw [U_enc_length] at hj
    rw [armAttribute, S_armTag, parse_tagStruct_trunc hu e1 hj]; rfl
  · rw [U_enc_length] at e2
    rw [armAttribute, S_armTag, parse_tagStruct hu e1 ((harm u.v).trans hn)]
    rcases seq_split e2 hj with ⟨i, hi, g1⟩ | ⟨i, hi, g1, g2⟩
    · rw [U_enc_length] at hi
      simp only [bind, Except.bind, getField_tag, h1, h3, h4, h5, S_uleb, parseInt_uleb_trunc hf g1 hi]
      rfl
    · rw [U_enc_length] at g2
      simp only [bind, Except.bind, getField_tag, h1, h3, h4, h5, S_uleb, parseInt_uleb hf g1,
        parseNtbs_trunc hs g2 hi]
      rfl

theorem arm_also_int_trunc {fuel pos k : Nat} {u t w : U} (hu : u.wf = true) (ht : t.wf = true)
    (hw : w.wf = true) (hk : kind .arm u.v = some .also) (hk' : kind .arm t.v = some .uleb)
    (hd : data.drop pos = (u.enc ++ ((t.enc ++ w.enc) ++ [0])).take k)
    (hlt : k < (u.enc ++ ((t.enc ++ w.enc) ++ [0])).length) :
    armAttribute env (Spec.elfStructs cfg) data (fuel + 2) pos = .error .elfParseError := by
  obtain ⟨name, hn, h1, -, h3, h4, h5⟩ := kind_arm hk
  rcases seq_split hd hlt with ⟨j, hj, e1⟩ | ⟨j, hj, e1, e2⟩
  · rw [U_enc_length] at hj
    rw [armAttribute, S_armTag, parse_tagStruct_trunc hu e1 hj]; rfl
  · rw [U_enc_length] at e2
    rw [armAttribute, S_armTag, parse_tagStruct hu e1 ((harm u.v).trans hn)]
    rcases seq_split e2 hj with ⟨i, hi, g1⟩ | ⟨i, hi, g1, g2⟩
    · simp only [bind, Except.bind, getField_tag, h1, h3, h4, h5, arm_uleb_trunc harm ht hw hk' g1 hi]
      rfl
    · have hi0 : i = 0 := by simp at hi; omega
      subst hi0
      have g1' : data.drop (pos + u.n) = t.enc ++ (w.enc ++ []) := by simpa using g1
      have g2' : data.drop (pos + u.n + t.n + w.n) = [] := by
        rw [List.length_append, U_enc_length, U_enc_length, ← Nat.add_assoc] at g2
        simpa using g2
      simp only [bind, Except.bind, getField_tag, h1, h3, h4, h5, arm_uleb harm ht hw hk' g1', S_byte,
        parseInt_byte_eof g2']
      rfl

theorem arm_also_str_trunc {fuel pos k : Nat} {u t : U} {s : Bytes} (hu : u.wf = true) (ht : t.wf = true)
    (hs : strWf s = true) (hk : kind .arm u.v = some .also) (hk' : kind .arm t.v = some .ntbs)
    (hd : data.drop pos = (u.enc ++ (t.enc ++ (s ++ [0]))).take k)
    (hlt : k < (u.enc ++ (t.enc ++ (s ++ [0]))).length) :
    armAttribute env (Spec.elfStructs cfg) data (fuel + 2) pos = .error .elfParseError := by
  obtain ⟨name, hn, h1, -, h3, h4, h5⟩ := kind_arm hk
  rcases seq_split hd hlt with ⟨j, hj, e1⟩ | ⟨j, hj, e1, e2⟩
  · rw [U_enc_length] at hj
    rw [armAttribute, S_armTag, parse_tagStruct_trunc hu e1 hj]; rfl
  · rw [U_enc_length] at e2
    rw [armAttribute, S_armTag, parse_tagStruct hu e1 ((harm u.v).trans hn)]
    simp only [bind, Except.bind, getField_tag, h1, h3, h4, h5, arm_ntbs_trunc harm ht hs hk' e2 hj]
    rfl

theorem arm_attr_trunc {fuel pos k : Nat} {x : Attribute} (hwf : attrWf .arm x = true) (hf : 2 ≤ fuel)
    (hd : data.drop pos = (encAttr x).take k) (hlt : k < (encAttr x).length) :
    armAttribute env (Spec.elfStructs cfg) data fuel pos = .error .elfParseError := by
  obtain ⟨fuel, rfl⟩ : ∃ f, fuel = f + 2 := ⟨fuel - 2, by omega⟩
  obtain ⟨u, val⟩ := x
  simp only [attrWf, Bool.and_eq_true] at hwf
  obtain ⟨hu, hval⟩ := hwf
  cases val with
  | simple sv =>
    simp only [valueWf, Bool.and_eq_true] at hval
    obtain ⟨hsv, hm⟩ := hval
    cases sv with
    | int w =>
      have hk : kind .arm u.v = some .uleb := by
        revert hm; cases kind .arm u.v with
        | none => simp
        | some k => cases k <;> simp [simpleMatches]
      exact arm_uleb_trunc harm hu hsv hk (by simpa [encAttr, encValue, encSimple] using hd)
        (by simpa [encAttr, encValue, encSimple] using hlt)
    | str s =>
      have hk : kind .arm u.v = some .ntbs := by
        revert hm; cases kind .arm u.v with
        | none => simp
        | some k => cases k <;> simp [simpleMatches]
      exact arm_ntbs_trunc harm hu hsv hk (by simpa [encAttr, encValue, encSimple] using hd)
        (by simpa [encAttr, encValue, encSimple] using hlt)
  | compat f v =>
    simp only [valueWf, Bool.and_eq_true, beq_iff_eq] at hval
    obtain ⟨⟨hf', hv⟩, hk⟩ := hval
    exact arm_compat_trunc harm hu hf' hv hk (by simpa [encAttr, encValue] using hd)
      (by simpa [encAttr, encValue] using hlt)
  | also t sv =>
    simp only [valueWf, Bool.and_eq_true, beq_iff_eq] at hval
    obtain ⟨⟨⟨hk, ht⟩, hsv⟩, hm⟩ := hval
    cases sv with
    | int w =>
      have hk' : kind .arm t.v = some .uleb := by
        revert hm; cases kind .arm t.v with
        | none => simp
        | some k => cases k <;> simp [simpleMatches]
      exact arm_also_int_trunc harm hu ht hsv hk hk' (by simpa [encAttr, encValue] using hd)
        (by simpa [encAttr, encValue] using hlt)
    | str s =>
      have hk' : kind .arm t.v = some .ntbs := by
        revert hm; cases kind .arm t.v with
        | none => simp
        | some k => cases k <;> simp [simpleMatches]
      exact arm_also_str_trunc harm hu ht hsv hk hk' (by simpa [encAttr, encValue] using hd)
        (by simpa [encAttr, encValue] using hlt)

end arm

section riscv
variable {env : Env} {cfg : ElfCfg} {data : Bytes}
  (hrv : ∀ t : Nat, env.enumDecode "ENUM_ATTR_TAG_RISCV" (t : Int) = tagName .riscv t)
include hrv

theorem riscv_attr_trunc {pos k : Nat} {x : Attribute} (hwf : attrWf .riscv x = true)
    (hd : data.drop pos = (encAttr x).take k) (hlt : k < (encAttr x).length) :
    riscvAttribute env (Spec.elfStructs cfg) data pos = .error .elfParseError := by
  obtain ⟨u, val⟩ := x
  simp only [attrWf, Bool.and_eq_true] at hwf
  obtain ⟨hu, hval⟩ := hwf
  cases val with
  | simple sv =>
    simp only [valueWf, Bool.and_eq_true] at hval
    obtain ⟨hsv, hm⟩ := hval
    cases sv with
    | int w =>
      have hk : kind .riscv u.v = some .uleb := by
        revert hm; cases kind .riscv u.v with
        | none => simp
        | some k => cases k <;> simp [simpleMatches]
      obtain ⟨name, hn, h1, -, h3, -⟩ := kind_riscv hk
      have hd' : data.drop pos = (u.enc ++ w.enc).take k := by simpa [encAttr, encValue, encSimple] using hd
      have hlt' : k < (u.enc ++ w.enc).length := by simpa [encAttr, encValue, encSimple] using hlt
      rcases seq_split hd' hlt' with ⟨j, hj, e1⟩ | ⟨j, hj, e1, e2⟩
      · rw [U_enc_length] at hj
        rw [riscvAttribute, S_riscvTag, parse_tagStruct_trunc hu e1 hj]; rfl
      · rw [U_enc_length] at hj e2
        rw [riscvAttribute, S_riscvTag, parse_tagStruct hu e1 ((hrv u.v).trans hn)]
        simp only [bind, Except.bind, getField_tag, h1, h3, S_uleb, parseInt_uleb_trunc hsv e2 hj]
        rfl
    | str s =>
      have hk : kind .riscv u.v = some .ntbs := by
        revert hm; cases kind .riscv u.v with
        | none => simp
        | some k => cases k <;> simp [simpleMatches]
      obtain ⟨name, hn, h1, -, h3, -⟩ := kind_riscv hk
      have hd' : data.drop pos = (u.enc ++ (s ++ [0])).take k := by simpa [encAttr, encValue, encSimple] using hd
      have hlt' : k < (u.enc ++ (s ++ [0])).length := by simpa [encAttr, encValue, encSimple] using hlt
      rcases seq_split hd' hlt' with ⟨j, hj, e1⟩ | ⟨j, hj, e1, e2⟩
      · rw [U_enc_length] at hj
        rw [riscvAttribute, S_riscvTag, parse_tagStruct_trunc hu e1 hj]; rfl
      · rw [U_enc_length] at e2
        rw [riscvAttribute, S_riscvTag, parse_tagStruct hu e1 ((hrv u.v).trans hn)]
        simp only [bind, Except.bind, getField_tag, h1, h3, parseNtbs_trunc hsv e2 hj]
        rfl
  | compat f v =>
    simp only [valueWf, Bool.and_eq_true, beq_iff_eq] at hval
    obtain ⟨_, hk⟩ := hval
    obtain ⟨_, _, _, _, _, hh⟩ := kind_riscv hk
    simp at hh
  | also t sv =>
    simp only [valueWf, Bool.and_eq_true, beq_iff_eq] at hval
    obtain ⟨⟨⟨hk, _⟩, _⟩, _⟩ := hval
    obtain ⟨_, _, _, _, _, hh⟩ := kind_riscv hk
    simp at hh

end riscv

/-- `seq_split` with the arithmetic: the cut `k` of `A ++ B` is either inside `A`, or `A` is complete and
    the cut is `k - |A|` into `B` -/
theorem seq_split' {data A B : Bytes} {pos k : Nat} (hd : data.drop pos = (A ++ B).take k) (hk : k < (A ++ B).length) :
    (k < A.length ∧ data.drop pos = A.take k) ∨
    (A.length ≤ k ∧ k - A.length < B.length ∧ data.drop pos = A ++ B.take (k - A.length) ∧
      data.drop (pos + A.length) = B.take (k - A.length)) := by
  rw [List.take_append] at hd
  rw [List.length_append] at hk
  by_cases h : k < A.length
  · left
    refine ⟨h, ?_⟩
    rw [hd, show k - A.length = 0 by omega]; simp
  · right
    have hA : A.take k = A := List.take_of_length_le (by omega)
    rw [hA] at hd
    exact ⟨by omega, by omega, hd, drop_add_of_drop hd⟩

theorem length_of_drop_take {data B : Bytes} {pos j : Nat} (hd : data.drop pos = B.take j) (hj : j ≤ B.length) :
    data.length - pos = j := by
  have := congrArg List.length hd
  rw [List.length_drop, List.length_take] at this
  omega

section top
variable {arch : Arch} {env : Env} {cfg : ElfCfg} {data : Bytes}
  (henv : ∀ t : Nat, env.enumDecode (tagTableId arch) (t : Int) = tagName arch t)
include henv

theorem attributeAt_attr_trunc {pos k : Nat} {x : Attribute} (hwf : attrWf arch x = true)
    (hd : data.drop pos = (encAttr x).take k) (hlt : k < (encAttr x).length) :
    attributeAt arch env (Spec.elfStructs cfg) data pos = .error .elfParseError := by
  cases arch with
  | arm => exact arm_attr_trunc henv hwf (by omega) hd hlt
  | riscv => exact riscv_attr_trunc henv hwf hd hlt

/-- the scope header of a sub-subsection (tag, size field, number list) at a cut -/
theorem attributeAt_scope_trunc {pos k : Nat} {s : SubSub} (hu : s.tag.wf = true)
    (hk : kind arch s.tag.v = some .scope) (hnums : s.tag.v ≠ 1 → ∀ u ∈ s.nums, u.wf = true ∧ u.v ≠ 0)
    (hd : data.drop pos = (s.tag.enc ++ (encNat cfg.le 4 s.size ++ numsBytes s)).take k)
    (hlt : k < (s.tag.enc ++ (encNat cfg.le 4 s.size ++ numsBytes s)).length) :
    attributeAt arch env (Spec.elfStructs cfg) data pos = .error .elfParseError := by
  have branch : ∀ (tag : Val) (p j : Nat), tagIn tag ["TAG_FILE"] = (s.tag.v == 1) →
      data.drop p = (encNat cfg.le 4 s.size ++ numsBytes s).take j →
      j < (encNat cfg.le 4 s.size ++ numsBytes s).length →
      scopeBranch env (Spec.elfStructs cfg) data tag p = .error .elfParseError := by
    intro tag p j hfile hdj hj
    rcases seq_split' hdj hj with ⟨h1, e1⟩ | ⟨h1, h2, e1, e2⟩
    · rw [encNat_length] at h1
      simp only [scopeBranch, S_word, parseInt_word_trunc e1 h1, bind, Except.bind]
    · rw [encNat_length] at h1 h2 e2
      by_cases hone : s.tag.v = 1
      · simp [numsBytes, hone] at h2
      · have hN : numsBytes s = encNums s.nums := by simp [numsBytes, hone]
        rw [hN] at h2 e2 e1
        have hfuel := length_of_drop_take e2 (Nat.le_of_lt h2)
        have hw : (encNat cfg.le 4 s.size).length = 4 := encNat_length _ _ _
        have hsn := sNumbers_trunc env cfg data s.nums (data.length - (p + 4) + 2) (p + 4) (j - 4) []
          (hnums hone) (by omega) e2 h2
        have hv : ∃ v : Nat, parseInt env (.uint 4 cfg.le) data p = .ok ((v : Int), p + 4) := by
          have := parse_uint_ok (env := env) (le := cfg.le) (ctx := []) e1 hw
          exact ⟨decNat cfg.le (encNat cfg.le 4 s.size), by
            simp [parseInt, structParse_of_parse this, bind, Except.bind, pure, Except.pure, Val.asInt]⟩
        obtain ⟨v, hv⟩ := hv
        have hfile' : tagIn tag ["TAG_FILE"] = false := by rw [hfile]; simp [hone]
        simp only [scopeBranch, S_word, hv, bind, Except.bind, hfile', Bool.not_false, if_true, hsn]
  rcases seq_split' hd hlt with ⟨h1, e1⟩ | ⟨h1, h2, e1, e2⟩
  · rw [U_enc_length] at h1
    cases arch with
    | arm =>
      have hfuel : data.length - pos + 2 = (data.length - pos + 1) + 1 := rfl
      rw [attributeAt, hfuel, armAttribute, S_armTag, parse_tagStruct_trunc (tbl := "ENUM_ATTR_TAG_ARM") hu e1 h1]
      rfl
    | riscv =>
      rw [attributeAt, riscvAttribute, S_riscvTag, parse_tagStruct_trunc (tbl := "ENUM_ATTR_TAG_RISCV") hu e1 h1]
      rfl
  · rw [U_enc_length] at h1 h2 e2
    cases arch with
    | arm =>
      obtain ⟨name, hn, g1, g2, -, -, -⟩ := kind_arm hk
      have hfuel : data.length - pos + 2 = (data.length - pos + 1) + 1 := rfl
      rw [attributeAt, hfuel, armAttribute, S_armTag,
        parse_tagStruct (tbl := "ENUM_ATTR_TAG_ARM") hu e1 ((henv s.tag.v).trans hn)]
      simp only [bind, Except.bind, getField_tag, g1]
      rw [if_pos (by decide), branch _ _ _ g2 e2 h2]
    | riscv =>
      obtain ⟨name, hn, g1, g2, -, -⟩ := kind_riscv hk
      rw [attributeAt, riscvAttribute, S_riscvTag,
        parse_tagStruct (tbl := "ENUM_ATTR_TAG_RISCV") hu e1 ((henv s.tag.v).trans hn)]
      simp only [bind, Except.bind, getField_tag, g1]
      rw [if_pos (by decide), branch _ _ _ g2 e2 h2]

/-! ### the loops at a cut -/

theorem attributesLoop_trunc :
    ∀ (as : List Attribute) (fuel pos k : Nat) (acc : List Val) (end_ : Nat),
      (∀ x ∈ as, attrWf arch x = true) → k + 1 ≤ fuel → data.drop pos = (encAttrs as).take k →
      k < (encAttrs as).length → pos + (encAttrs as).length ≤ end_ →
      attributesLoop (attributeAt arch env (Spec.elfStructs cfg) data) end_ fuel pos acc = .error .elfParseError := by
  intro as
  induction as with
  | nil => intro fuel pos k acc end_ _ _ _ hk; simp [encAttrs] at hk
  | cons x as ih =>
    intro fuel pos k acc end_ hwf hf hd hk hle
    have hx := hwf x (by simp)
    have hxpos := encAttr_length_pos hx
    rw [encAttrs_cons] at hd hk hle
    rw [List.length_append] at hle
    rcases seq_split' hd hk with ⟨h1, e1⟩ | ⟨h1, h2, e1, e2⟩
    · cases fuel with
      | zero => omega
      | succ fuel =>
        rw [attributesLoop, if_neg (by omega), attributeAt_attr_trunc henv hx e1 h1]
        rfl
    · have hd' : data.drop pos = encAttrs [x] ++ (encAttrs as).take (k - (encAttr x).length) := by
        rw [e1]; simp [encAttrs]
      have e1' : (encAttrs [x]).length = (encAttr x).length := by simp [encAttrs]
      obtain ⟨fuel', rfl⟩ : ∃ f', fuel = f' + [x].length := ⟨fuel - 1, by simp; omega⟩
      rw [attributesLoop_step henv [x] fuel' pos acc _ end_ (by simpa using hx) hd' (by rw [e1']; omega), e1']
      exact ih fuel' _ _ _ end_ (fun y hy => hwf y (by simp [hy])) (by simp at hf; omega) e2 h2 (by omega)

theorem subsubLoop_trunc :
    ∀ (ss : List SubSub) (fuel offset k : Nat) (acc : List Val) (end_ : Nat),
      (∀ s ∈ ss, subSubWf arch s = true) → k + 1 ≤ fuel → data.drop offset = (encSubSubs cfg.le ss).take k →
      k < (encSubSubs cfg.le ss).length → offset + (encSubSubs cfg.le ss).length ≤ end_ →
      subsubLoop (attributeAt arch env (Spec.elfStructs cfg) data) data.length end_ fuel offset acc
        = .error .elfParseError := by
  intro ss
  induction ss with
  | nil => intro fuel offset k acc end_ _ _ _ hk; simp [encSubSubs] at hk
  | cons s ss ih =>
    intro fuel offset k acc end_ hwf hf hd hk hle
    have hs := hwf s (by simp)
    obtain ⟨hu, -, hkind, hnums, hattrs, hsz⟩ := subSubWf_iff hs
    have hspos : 5 ≤ s.size := by have := (U_wf_iff hu).1; rw [SubSub.size]; omega
    rw [encSubSubs_cons] at hd hk hle
    rw [List.length_append, encSubSub_length] at hle
    rcases seq_split' hd hk with ⟨h1, e1⟩ | ⟨h1, h2, e1, e2⟩
    · -- the cut is inside `s`
      rw [encSubSub_length] at h1
      have hsplit : encSubSub cfg.le s
          = (s.tag.enc ++ (encNat cfg.le 4 s.size ++ numsBytes s)) ++ encAttrs s.attrs := by
        rw [encSubSub, body_eq]; simp only [List.append_assoc]
      rw [hsplit] at e1
      have hk' : k < ((s.tag.enc ++ (encNat cfg.le 4 s.size ++ numsBytes s)) ++ encAttrs s.attrs).length := by
        rw [← hsplit, encSubSub_length]; exact h1
      have hhl : (s.tag.enc ++ (encNat cfg.le 4 s.size ++ numsBytes s)).length = s.tag.n + 4 + (numsBytes s).length := by
        simp only [List.length_append, U_enc_length, encNat_length]; omega
      cases fuel with
      | zero => omega
      | succ fuel =>
        rcases seq_split' e1 hk' with ⟨g1, f1⟩ | ⟨g1, g2, f1, f2⟩
        · rw [subsubLoop, if_neg (by omega), attributeAt_scope_trunc henv hu hkind hnums f1 g1]
          rfl
        · rw [hhl] at g1 g2 f2
          have f1' : data.drop offset = s.tag.enc ++ (encNat cfg.le 4 s.size ++ (numsBytes s ++
              (encAttrs s.attrs).take (k - (s.tag.n + 4 + (numsBytes s).length)))) := by
            rw [f1, hhl]; simp only [List.append_assoc]
          have hfl := length_of_drop_take f2 (Nat.le_of_lt g2)
          have hloop := attributesLoop_trunc (cfg := cfg) henv s.attrs (data.length + 2) _ _ [] (offset + s.size) hattrs (by omega)
            (by rw [← Nat.add_assoc, ← Nat.add_assoc] at f2; exact f2) g2 (by rw [size_eq]; omega)
          rw [subsubLoop, if_neg (by omega), attributeAt_scope_hdr henv hu hkind hnums hsz f1']
          simp only [bind, Except.bind, hdrObj, asNat_nat, hloop]
    · -- `s` is complete: step over it
      rw [encSubSub_length] at h1 h2 e2
      have hd' : data.drop offset = encSubSubs cfg.le [s] ++ (encSubSubs cfg.le ss).take (k - s.size) := by
        rw [e1, encSubSub_length]; simp [encSubSubs]
      have e1' : (encSubSubs cfg.le [s]).length = s.size := by simp [encSubSubs, encSubSub_length]
      obtain ⟨fuel', rfl⟩ : ∃ f', fuel = f' + [s].length := ⟨fuel - 1, by simp; omega⟩
      rw [subsubLoop_step henv [s] fuel' offset acc _ end_ (by simpa using hs) hd' (by rw [e1']; omega), e1']
      exact ih fuel' _ _ _ end_ (fun y hy => hwf y (by simp [hy])) (by simp at hf; omega) e2 h2 (by omega)

theorem subsecLoop_trunc :
    ∀ (sec : List SubSection) (fuel offset k : Nat) (acc : List Val) (end_ : Nat),
      (∀ s ∈ sec, subSectionWf arch cfg.le s = true) → k + 1 ≤ fuel →
      data.drop offset = (encSubSections cfg.le sec).take k →
      k < (encSubSections cfg.le sec).length → offset + (encSubSections cfg.le sec).length ≤ end_ →
      subsecLoop arch env (Spec.elfStructs cfg) data end_ fuel offset acc = .error .elfParseError := by
  intro sec
  induction sec with
  | nil => intro fuel offset k acc end_ _ _ _ hk; simp [encSubSections] at hk
  | cons s sec ih =>
    intro fuel offset k acc end_ hwf hf hd hk hle
    have hs := hwf s (by simp)
    obtain ⟨hvendor, hsubs, hlen⟩ := subSectionWf_iff hs
    obtain ⟨hnul, hutf⟩ := strWf_iff hvendor
    have hspos : 5 ≤ s.length cfg.le := by rw [SubSection.length]; omega
    rw [encSubSections_cons] at hd hk hle
    rw [List.length_append, encSubSection_length] at hle
    rcases seq_split' hd hk with ⟨h1, e1⟩ | ⟨h1, h2, e1, e2⟩
    · rw [encSubSection_length] at h1
      have hsplit : encSubSection cfg.le s
          = (encNat cfg.le 4 (s.length cfg.le) ++ (s.vendor ++ [0])) ++ encSubSubs cfg.le s.subs := by
        rw [encSubSection]; simp only [List.append_assoc]
      rw [hsplit] at e1
      have hk' : k < ((encNat cfg.le 4 (s.length cfg.le) ++ (s.vendor ++ [0])) ++ encSubSubs cfg.le s.subs).length := by
        rw [← hsplit, encSubSection_length]; exact h1
      have hhl : (encNat cfg.le 4 (s.length cfg.le) ++ (s.vendor ++ [0])).length = 4 + s.vendor.length + 1 := by
        simp only [List.length_append, encNat_length, List.length_singleton]; omega
      cases fuel with
      | zero => omega
      | succ fuel =>
        rcases seq_split' e1 hk' with ⟨g1, f1⟩ | ⟨g1, g2, f1, f2⟩
        · rw [subsecLoop, if_neg (by omega), S_hdr, parse_hdrStruct_trunc hlen hnul f1 g1]
          rfl
        · rw [hhl] at g1 g2 f2
          have f1' : data.drop offset = encNat cfg.le 4 (s.length cfg.le) ++ (s.vendor ++ [0] ++
              (encSubSubs cfg.le s.subs).take (k - (4 + s.vendor.length + 1))) := by
            rw [f1, hhl]; simp only [List.append_assoc]
          have hfl := length_of_drop_take f2 (Nat.le_of_lt g2)
          have hloop := subsubLoop_trunc (cfg := cfg) henv s.subs (data.length + 2) (offset + 4 + s.vendor.length + 1) _ []
            (offset + s.length cfg.le) hsubs (by omega)
            (by rw [show offset + 4 + s.vendor.length + 1 = offset + (4 + s.vendor.length + 1) by omega]; exact f2) g2
            (by rw [SubSection.length]; omega)
          rw [subsecLoop, if_neg (by omega), S_hdr, parse_hdrStruct hlen hnul f1']
          simp only [bind, Except.bind, getNat_length, getField_vendor, decodeNtbs, hutf, if_true, hloop]
    · rw [encSubSection_length] at h1 h2 e2
      have hd' : data.drop offset = encSubSections cfg.le [s]
          ++ (encSubSections cfg.le sec).take (k - s.length cfg.le) := by
        rw [e1, encSubSection_length]; simp [encSubSections]
      have e1' : (encSubSections cfg.le [s]).length = s.length cfg.le := by
        simp [encSubSections, encSubSection_length]
      obtain ⟨fuel', rfl⟩ : ∃ f', fuel = f' + [s].length := ⟨fuel - 1, by simp; omega⟩
      rw [subsecLoop_step henv [s] fuel' offset acc _ end_ (by simpa using hs) hd' (by rw [e1']; omega), e1']
      exact ih fuel' _ _ _ end_ (fun y hy => hwf y (by simp [hy])) (by simp at hf; omega) e2 h2 (by omega)

/-- TRUNCATED FILE.  The file ends inside a well-formed attributes section — after any `k` of its bytes,
    `k` less than its length — while the section header still claims the full size: the nested
    observation raises ELFParseError, whatever structure the cut falls into. -/
theorem attrs_truncated_at (sec : Spec.Attr.Section) (off k : Nat)
    (hwf : Spec.Attr.sectionWf arch cfg.le sec = true)
    (hd : data.drop off = (Spec.Attr.encSection cfg.le sec).take k)
    (hk : k < (Spec.Attr.encSection cfg.le sec).length) :
    attributesSection arch env (Spec.elfStructs cfg) data off (Spec.Attr.encSection cfg.le sec).length
      = .error .elfParseError := by
  have hwf' : ∀ s ∈ sec, Spec.Attr.subSectionWf arch cfg.le s = true := by
    simpa [Spec.Attr.sectionWf] using hwf
  have e : (Spec.Attr.encSection cfg.le sec).length = 1 + (encSubSections cfg.le sec).length := by
    simp only [Spec.Attr.encSection, List.length_cons]; omega
  cases k with
  | zero =>
    have hd0 : data.drop off = [] := by simpa using hd
    rw [attributesSection, S_byte, parseInt_byte_eof hd0]
    rfl
  | succ k =>
    have hd1 : data.drop off = 0x41 :: (encSubSections cfg.le sec).take k := by
      rw [hd]; simp [Spec.Attr.encSection]
    have hd2 : data.drop (off + 1) = (encSubSections cfg.le sec).take k := (drop_cons_inv hd1).2
    have hk' : k < (encSubSections cfg.le sec).length := by omega
    have hfl := length_of_drop_take hd2 (Nat.le_of_lt hk')
    have hloop := subsecLoop_trunc henv sec (data.length + 2) (off + 1) k []
      (off + (Spec.Attr.encSection cfg.le sec).length) hwf' (by omega) hd2 hk' (by omega)
    rw [attributesSection, S_byte, parseInt_byte hd1]
    simp only [bind, Except.bind, hloop]
    rfl

end top

end PyElf.Proofs.C20
