/-
  C15 helper lemmas: chains that end early and chains that leave the file.

  * a record whose `next` displacement is 0 is its own successor: a layout that ends in such a record
    is also a layout of any number of repetitions of it (`chainAt_replicate`, `chainAt_append`);
  * a record that does not fit between its position and the end of the file cannot be parsed:
    `struct_parse` raises ELFParseError (`structParseAt_uint_trunc`), so a walk that is sent beyond
    the end raises it as soon as — and only if — it gets there.
-/
import PyElf.Proofs.GnuVersions
import PyElf.Spec.GnuVersionsImage
namespace PyElf.Proofs.C15
open PyElf PyElf.Spec PyElf.Spec.C15 PyElf.Model PyElf.Proofs

/-! ### chains -/

theorem chainAt_append {α : Type} (recAt : Nat → α → Bool) (next : α → Nat) :
    ∀ (xs ys : List α) (pos : Nat),
      chainAt recAt next pos (xs ++ ys) = (chainAt recAt next pos xs && chainAt recAt next (chainEnd next pos xs) ys)
  | [], _, _ => by simp [chainAt, chainEnd]
  | x :: xs, ys, pos => by
    simp only [List.cons_append, chainAt, chainEnd, chainAt_append recAt next xs ys, Bool.and_assoc]

theorem chainAt_replicate {α : Type} (recAt : Nat → α → Bool) (next : α → Nat) (x : α) (pos : Nat)
    (h : recAt pos x = true) (h0 : next x = 0) : ∀ n, chainAt recAt next pos (List.replicate n x) = true
  | 0 => rfl
  | n+1 => by
    simp only [List.replicate_succ, chainAt, h, h0, Nat.add_zero, Bool.true_and]
    exact chainAt_replicate recAt next x pos h h0 n

/-- a chain that ends in a record with displacement 0 is a chain with that record repeated -/
theorem chainAt_repeat_last {α : Type} (recAt : Nat → α → Bool) (next : α → Nat) (xs : List α) (x : α) (pos : Nat)
    (h : chainAt recAt next pos (xs ++ [x]) = true) (h0 : next x = 0) (k : Nat) :
    chainAt recAt next pos (xs ++ List.replicate (k + 1) x) = true := by
  rw [chainAt_append, Bool.and_eq_true] at h ⊢
  refine ⟨h.1, chainAt_replicate recAt next x _ ?_ h0 _⟩
  have := h.2
  simp only [chainAt, Bool.and_true] at this
  exact this

/-! ### a record that does not fit -/

/-- a struct of named unsigned integers (the four version records) -/
def uintFields : ConFields → Bool
  | .nil => true
  | .cons (some _) false (.uint n _) rest => decide (0 < n) && uintFields rest
  | .cons _ _ _ _ => false

def uintSize : ConFields → Nat
  | .nil => 0
  | .cons _ _ (.uint n _) rest => n + uintSize rest
  | .cons _ _ _ rest => uintSize rest

theorem parseFields_uint_trunc (env : Env) (data : Bytes) : ∀ (fs : ConFields) (obj ctx : Fields) (pos : Nat),
    uintFields fs = true → 0 < uintSize fs → data.length < pos + uintSize fs →
    Con.parseFields env data fs obj ctx pos = .error .elfParseError
  | .nil, _, _, _, _, h0, _ => by simp [uintSize] at h0
  | .cons name emb c rest, obj, ctx, pos, hu, _, hlt => by
    cases name with
    | none => simp [uintFields] at hu
    | some nm =>
      cases emb with
      | true => simp [uintFields] at hu
      | false =>
        cases c with
        | uint n le =>
          simp only [uintFields, Bool.and_eq_true, decide_eq_true_eq] at hu
          simp only [uintSize] at hlt
          rw [Con.parseFields]
          simp only [Bool.false_eq_true, if_false, Con.parse, bind, Except.bind]
          by_cases ht : data.length < pos + n
          · rw [readExact_trunc hu.1 ht]
          · have hl : (readN data pos n).length = n := by rw [readN_length]; omega
            rw [readExact_of_len hl]
            simp only [pure, Except.pure]
            exact parseFields_uint_trunc env data rest _ _ (pos + n) hu.2 (by omega) (by omega)
        | _ => simp [uintFields] at hu

/-- `struct_parse` of such a record at a position from which it does not fit raises ELFParseError
    (whether or not the position itself is inside the file, or representable) -/
theorem structParseAt_uint_trunc (env : Env) (fs : ConFields) (data : Bytes) (pos : Nat)
    (hu : uintFields fs = true) (h0 : 0 < uintSize fs) (hlt : data.length < pos + uintSize fs) :
    structParseAt env (.struct fs) data pos = .error .elfParseError := by
  unfold structParseAt
  by_cases hp : pos ≥ 2 ^ 63
  · simp [hp, bind, Except.bind, throw, throwThe, MonadExceptOf.throw]
  · simp only [hp, if_false]
    unfold structParse
    rw [Con.parse]
    simp only [bind, Except.bind, parseFields_uint_trunc env data fs [] [] pos hu h0 hlt]

theorem verneed_trunc (env : Env) (c : ElfCfg) (data : Bytes) (pos : Nat) (h : data.length < pos + 16) :
    structParseAt env (Spec.elfStructs c).Elf_Verneed data pos = .error .elfParseError :=
  structParseAt_uint_trunc env _ data pos rfl (by simp [mkFields, f, uintSize]) h

theorem vernaux_trunc (env : Env) (c : ElfCfg) (data : Bytes) (pos : Nat) (h : data.length < pos + 16) :
    structParseAt env (Spec.elfStructs c).Elf_Vernaux data pos = .error .elfParseError :=
  structParseAt_uint_trunc env _ data pos rfl (by simp [mkFields, f, uintSize]) h

theorem verdef_trunc (env : Env) (c : ElfCfg) (data : Bytes) (pos : Nat) (h : data.length < pos + 20) :
    structParseAt env (Spec.elfStructs c).Elf_Verdef data pos = .error .elfParseError :=
  structParseAt_uint_trunc env _ data pos rfl (by simp [mkFields, f, uintSize]) h

theorem verdaux_trunc (env : Env) (c : ElfCfg) (data : Bytes) (pos : Nat) (h : data.length < pos + 8) :
    structParseAt env (Spec.elfStructs c).Elf_Verdaux data pos = .error .elfParseError :=
  structParseAt_uint_trunc env _ data pos rfl (by simp [mkFields, f, uintSize]) h

/-! ### walks that are sent beyond the end of the file -/

section walk
variable {env : Env} {vs : VerSec} {A : Type} {aat : Nat → A → Bool} {aobs : A → Val × Bytes} {anext : A → Nat}
variable {E : Type} {eat : Nat → E → Bool} {erobs : E → Val} {ename : E → Option Bytes} {eauxs : E → List A}
  {eaux enext : E → Nat}

/-- the auxiliary walk: `count` exceeds what is chained and the next position is beyond the end -/
theorem auxList_truncated (asz : Nat)
    (hstep : ∀ pos a, aat pos a = true → auxStep env vs pos = .ok (aobs a))
    (hnext : ∀ a, (aobs a).1.getNat (vs.field "next" true) = .ok (anext a))
    (htr : ∀ pos, vs.data.length < pos + asz → auxStep env vs pos = .error .elfParseError) :
    ∀ (as : List A) (pos count : Nat), chainAt aat anext pos as = true → as.length < count →
      vs.data.length < chainEnd anext pos as + asz → auxList env vs count pos = .error .elfParseError
  | [], pos, count, _, hc, ht => by
    obtain ⟨m, rfl⟩ : ∃ m, count = m + 1 := ⟨count - 1, by simp at hc; omega⟩
    simp [auxList, htr pos ht, bind, Except.bind]
  | a :: rest, pos, count, h, hc, ht => by
    obtain ⟨m, rfl⟩ : ∃ m, count = m + 1 := ⟨count - 1, by simp at hc; omega⟩
    simp only [chainAt, Bool.and_eq_true] at h
    have ih := auxList_truncated asz hstep hnext htr rest (pos + anext a) m h.2 (by simpa using hc) ht
    simp [auxList, hstep pos a h.1, hnext a, ih, bind, Except.bind]

/-- a search through the auxiliaries: the first hit if one is chained, ELFParseError otherwise -/
theorem auxFind_truncated (asz : Nat)
    (hstep : ∀ pos a, aat pos a = true → auxStep env vs pos = .ok (aobs a))
    (hnext : ∀ a, (aobs a).1.getNat (vs.field "next" true) = .ok (anext a))
    (htr : ∀ pos, vs.data.length < pos + asz → auxStep env vs pos = .error .elfParseError)
    (p : Val → R Bool) (q : A → Bool) (hp : ∀ a, p (aobs a).1 = .ok (q a)) :
    ∀ (as : List A) (pos count : Nat), chainAt aat anext pos as = true → as.length < count →
      vs.data.length < chainEnd anext pos as + asz →
      auxFind env vs p count pos = match as.find? q with
        | some a => .ok (some (aobs a))
        | none => .error .elfParseError
  | [], pos, count, _, hc, ht => by
    obtain ⟨m, rfl⟩ : ∃ m, count = m + 1 := ⟨count - 1, by simp at hc; omega⟩
    simp [auxFind, htr pos ht, bind, Except.bind]
  | a :: rest, pos, count, h, hc, ht => by
    obtain ⟨m, rfl⟩ : ∃ m, count = m + 1 := ⟨count - 1, by simp at hc; omega⟩
    simp only [chainAt, Bool.and_eq_true] at h
    have ih := auxFind_truncated asz hstep hnext htr p q hp rest (pos + anext a) m h.2 (by simpa using hc) ht
    cases hq : q a <;>
      simp [auxFind, hstep pos a h.1, hnext a, hp a, hq, ih, List.find?, bind, Except.bind, pure, Except.pure]

theorem iterVersions_truncated (esz : Nat)
    (hstep : ∀ pos a, aat pos a = true → auxStep env vs pos = .ok (aobs a))
    (hnext : ∀ a, (aobs a).1.getNat (vs.field "next" true) = .ok (anext a))
    (hvstep : ∀ pos e, eat pos e = true → verStep env vs pos = .ok (erobs e, ename e, pos + eaux e, (eauxs e).length))
    (hchain : ∀ pos e, eat pos e = true → chainAt aat anext (pos + eaux e) (eauxs e) = true)
    (hvnext : ∀ e, (erobs e).getNat (vs.field "next") = .ok (enext e))
    (htr : ∀ pos, vs.data.length < pos + esz → verStep env vs pos = .error .elfParseError) :
    ∀ (es : List E) (pos n : Nat), chainAt eat enext pos es = true → es.length < n →
      vs.data.length < chainEnd enext pos es + esz → iterVersions env vs n pos = .error .elfParseError
  | [], pos, n, _, hc, ht => by
    obtain ⟨m, rfl⟩ : ∃ m, n = m + 1 := ⟨n - 1, by simp at hc; omega⟩
    simp [iterVersions, htr pos ht, bind, Except.bind]
  | e :: rest, pos, n, h, hc, ht => by
    obtain ⟨m, rfl⟩ : ∃ m, n = m + 1 := ⟨n - 1, by simp at hc; omega⟩
    simp only [chainAt, Bool.and_eq_true] at h
    have ih := iterVersions_truncated esz hstep hnext hvstep hchain hvnext htr rest (pos + enext e) m h.2
      (by simpa using hc) ht
    simp [iterVersions, hvstep pos e h.1, auxList_chain hstep hnext _ _ (hchain pos e h.1), hvnext e, ih,
      bind, Except.bind]

end walk

section need
variable (env : Env) (c : ElfCfg) (data : Bytes) (off info strOff : Nat) (hlen : data.length < 2 ^ 63)
include hlen

omit hlen in
theorem need_verStep_trunc (pos : Nat) (h : data.length < pos + 16) :
    verStep env (VerSec.mkNeed (Spec.elfStructs c) data off info strOff) pos = .error .elfParseError := by
  simp [verStep, VerSec.mkNeed, verneed_trunc env c data pos h, bind, Except.bind]

/-- `iter_versions` of a requirement section that declares more records than are chained before the
    walk leaves the file: ELFParseError (the entries before are yielded first; the enumeration as a whole
    raises) -/
theorem need_versions_truncated_chain (es : List NeedEntry) (pos n : Nat)
    (h : needLayout c.le data strOff pos es = true) (hn : es.length < n)
    (ht : data.length < chainEnd (fun e : NeedEntry => e.r.next) pos es + 16) :
    iterVersions env (VerSec.mkNeed (Spec.elfStructs c) data off info strOff) n pos = .error .elfParseError :=
  iterVersions_truncated (eat := NeedEntry.at c.le data strOff) (aobs := NeedAux.obs) (anext := (·.r.next))
    (erobs := (·.r.obs)) (ename := fun e => some e.file)
    (eauxs := (·.auxs)) (eaux := (·.r.aux)) (enext := (·.r.next)) 16
    (need_auxStep env c data off info strOff hlen) (fun a => vernaux_next a.r)
    (need_verStep env c data off info strOff hlen) (fun _ _ h => need_chain_of_at h) (fun e => verneed_next e.r)
    (need_verStep_trunc env c data off info strOff) es pos n h hn ht

/-- `get_version(i)` on such a section: the carrier if one is chained before the end (the walk never gets
    further), ELFParseError otherwise -/
theorem needGetLoop_truncated (idx : Nat) : ∀ (es : List NeedEntry) (pos n : Nat),
    needLayout c.le data strOff pos es = true → es.length < n →
    data.length < chainEnd (fun e : NeedEntry => e.r.next) pos es + 16 →
    needGetLoop env (VerSec.mkNeed (Spec.elfStructs c) data off info strOff) idx n pos
      = match needFind idx es with
        | some ea => .ok (some (ea.1.r.obs, some ea.1.file, ea.2.r.obs, ea.2.name))
        | none => .error .elfParseError
  | [], pos, n, _, hc, ht => by
    obtain ⟨m, rfl⟩ : ∃ m, n = m + 1 := ⟨n - 1, by simp at hc; omega⟩
    simp [needGetLoop, need_verStep_trunc env c data off info strOff pos ht, needFind, bind, Except.bind]
  | e :: rest, pos, n, h, hc, ht => by
    obtain ⟨m, rfl⟩ : ∃ m, n = m + 1 := ⟨n - 1, by simp at hc; omega⟩
    simp only [needLayout, chainAt, Bool.and_eq_true] at h
    obtain ⟨h1, h2⟩ := h
    have ih := needGetLoop_truncated idx rest (pos + e.r.next) m h2 (by simpa using hc) ht
    have hfind := auxFind_chain (aobs := NeedAux.obs) (anext := (·.r.next))
      (need_auxStep env c data off info strOff hlen) (fun a => vernaux_next a.r)
      (auxOtherIs idx) (fun a => a.r.other == idx)
      (fun a => by simp [auxOtherIs, NeedAux.obs, vernaux_other, bind, Except.bind, pure, Except.pure])
      e.auxs _ (need_chain_of_at h1)
    have hnx : e.r.obs.getNat ((VerSec.mkNeed (Spec.elfStructs c) data off info strOff).field "next") = .ok e.r.next :=
      verneed_next e.r
    cases hq : e.auxs.find? (fun a => a.r.other == idx) with
    | none =>
      simp only [hq, Option.map_none] at hfind
      simp only [needGetLoop, need_verStep env c data off info strOff hlen pos e h1, hfind, hnx, needFind, hq,
        bind, Except.bind]
      exact ih
    | some a =>
      simp only [hq, Option.map_some] at hfind
      simp [needGetLoop, need_verStep env c data off info strOff hlen pos e h1, hfind, needFind, hq, NeedAux.obs,
        bind, Except.bind, pure, Except.pure]

/-- `has_indexes()` always walks to the end: ELFParseError -/
theorem hasIndexesLoop_truncated : ∀ (es : List NeedEntry) (pos n : Nat) (acc : Bool),
    needLayout c.le data strOff pos es = true → es.length < n →
    data.length < chainEnd (fun e : NeedEntry => e.r.next) pos es + 16 →
    hasIndexesLoop env (VerSec.mkNeed (Spec.elfStructs c) data off info strOff) n pos acc = .error .elfParseError
  | [], pos, n, acc, _, hc, ht => by
    obtain ⟨m, rfl⟩ : ∃ m, n = m + 1 := ⟨n - 1, by simp at hc; omega⟩
    simp [hasIndexesLoop, need_verStep_trunc env c data off info strOff pos ht, bind, Except.bind]
  | e :: rest, pos, n, acc, h, hc, ht => by
    obtain ⟨m, rfl⟩ : ∃ m, n = m + 1 := ⟨n - 1, by simp at hc; omega⟩
    simp only [needLayout, chainAt, Bool.and_eq_true] at h
    obtain ⟨h1, h2⟩ := h
    have ih := hasIndexesLoop_truncated rest (pos + e.r.next) m (acc || e.auxs.any fun a => a.r.other != 0) h2
      (by simpa using hc) ht
    have hfind := auxFind_chain (aobs := NeedAux.obs) (anext := (·.r.next))
      (need_auxStep env c data off info strOff hlen) (fun a => vernaux_next a.r)
      auxOtherTruthy (fun a => a.r.other != 0)
      (fun a => by
        by_cases h0 : a.r.other = 0 <;>
        simp [auxOtherTruthy, NeedAux.obs, Vernaux.obs, Val.getField, Fields.getR, Fields.get?, Val.truthy, bind,
          Except.bind, pure, Except.pure, h0])
      e.auxs _ (need_chain_of_at h1)
    have hnx : e.r.obs.getNat ((VerSec.mkNeed (Spec.elfStructs c) data off info strOff).field "next") = .ok e.r.next :=
      verneed_next e.r
    simp only [hasIndexesLoop, need_verStep env c data off info strOff hlen pos e h1, hfind, hnx,
      bind, Except.bind, find?_map_isSome]
    exact ih

end need

section defs
variable (env : Env) (c : ElfCfg) (data : Bytes) (off info strOff : Nat) (hlen : data.length < 2 ^ 63)
include hlen

omit hlen in
theorem def_verStep_trunc (pos : Nat) (h : data.length < pos + 20) :
    verStep env (VerSec.mkDef (Spec.elfStructs c) data off info strOff) pos = .error .elfParseError := by
  simp [verStep, VerSec.mkDef, verdef_trunc env c data pos h, bind, Except.bind]

theorem def_versions_truncated_chain (es : List DefEntry) (pos n : Nat)
    (h : defLayout c.le data strOff pos es = true) (hn : es.length < n)
    (ht : data.length < chainEnd (fun e : DefEntry => e.r.next) pos es + 20) :
    iterVersions env (VerSec.mkDef (Spec.elfStructs c) data off info strOff) n pos = .error .elfParseError :=
  iterVersions_truncated (eat := DefEntry.at c.le data strOff) (aobs := DefAux.obs) (anext := (·.r.next))
    (erobs := (·.r.obs)) (ename := fun _ => none)
    (eauxs := (·.auxs)) (eaux := (·.r.aux)) (enext := (·.r.next)) 20
    (def_auxStep env c data off info strOff hlen) (fun a => verdaux_next a.r)
    (def_verStep env c data off info strOff hlen) (fun _ _ h => def_chain_of_at h) (fun e => verdef_next e.r)
    (def_verStep_trunc env c data off info strOff) es pos n h hn ht

theorem defGetLoop_truncated (idx : Nat) : ∀ (es : List DefEntry) (pos n : Nat),
    defLayout c.le data strOff pos es = true → es.length < n →
    data.length < chainEnd (fun e : DefEntry => e.r.next) pos es + 20 →
    defGetLoop env (VerSec.mkDef (Spec.elfStructs c) data off info strOff) idx n pos
      = match defFind idx es with
        | some e => .ok (some (e.r.obs, e.auxs.map DefAux.obs))
        | none => .error .elfParseError
  | [], pos, n, _, hc, ht => by
    obtain ⟨m, rfl⟩ : ∃ m, n = m + 1 := ⟨n - 1, by simp at hc; omega⟩
    simp [defGetLoop, def_verStep_trunc env c data off info strOff pos ht, defFind, bind, Except.bind]
  | e :: rest, pos, n, h, hc, ht => by
    obtain ⟨m, rfl⟩ : ∃ m, n = m + 1 := ⟨n - 1, by simp at hc; omega⟩
    simp only [defLayout, chainAt, Bool.and_eq_true] at h
    obtain ⟨h1, h2⟩ := h
    have ih := defGetLoop_truncated idx rest (pos + e.r.next) m h2 (by simpa using hc) ht
    have hnx : e.r.obs.getNat ((VerSec.mkDef (Spec.elfStructs c) data off info strOff).field "next") = .ok e.r.next :=
      verdef_next e.r
    cases hq : e.r.ndx == idx with
    | true =>
      simp [defGetLoop, def_verStep env c data off info strOff hlen pos e h1, verdef_ndx, hq,
        def_auxList env c data off info strOff hlen e pos h1, defFind, List.find?, bind, Except.bind, pure, Except.pure]
    | false =>
      simp only [defGetLoop, def_verStep env c data off info strOff hlen pos e h1, verdef_ndx, hq, hnx, defFind,
        List.find?, bind, Except.bind, Bool.false_eq_true, if_false]
      exact ih

end defs

/-! ### an entry whose count exceeds its auxiliary chain, the chain leaving the file -/

/-- the record of `e` sits at `pos` and counts `e.r.cnt` auxiliaries, of which only `e.auxs` are chained
    before the walk leaves the file -/
structure NeedPartial (le : Bool) (data : Bytes) (strOff pos : Nat) (e : NeedEntry) : Prop where
  fits : e.r.fits = true
  placed : bytesAt data pos (e.r.enc le) = true
  file : gv_strAt data (strOff + e.r.file) e.file = true
  cnt : e.auxs.length < e.r.cnt
  chain : chainAt (NeedAux.at le data strOff) (·.r.next) (pos + e.r.aux) e.auxs = true
  trunc : data.length < chainEnd (fun a : NeedAux => a.r.next) (pos + e.r.aux) e.auxs + 16

structure DefPartial (le : Bool) (data : Bytes) (strOff pos : Nat) (e : DefEntry) : Prop where
  fits : e.r.fits = true
  placed : bytesAt data pos (e.r.enc le) = true
  cnt : e.auxs.length < e.r.cnt
  chain : chainAt (DefAux.at le data strOff) (·.r.next) (pos + e.r.aux) e.auxs = true
  trunc : data.length < chainEnd (fun a : DefAux => a.r.next) (pos + e.r.aux) e.auxs + 8

theorem needPartial_of {le : Bool} {data : Bytes} {strOff pos : Nat} {e : NeedEntry}
    (h : NeedEntry.atPartial le data strOff pos e = true) : NeedPartial le data strOff pos e := by
  simp only [NeedEntry.atPartial, Bool.and_eq_true, decide_eq_true_eq] at h
  obtain ⟨⟨⟨⟨⟨h1, h2⟩, h3⟩, h4⟩, h5⟩, h6⟩ := h
  exact ⟨h1, h2, h3, h4, h5, h6⟩

theorem defPartial_of {le : Bool} {data : Bytes} {strOff pos : Nat} {e : DefEntry}
    (h : DefEntry.atPartial le data strOff pos e = true) : DefPartial le data strOff pos e := by
  simp only [DefEntry.atPartial, Bool.and_eq_true, decide_eq_true_eq] at h
  obtain ⟨⟨⟨⟨h1, h2⟩, h4⟩, h5⟩, h6⟩ := h
  exact ⟨h1, h2, h4, h5, h6⟩

section partial_
variable (env : Env) (c : ElfCfg) (data : Bytes) (off info strOff : Nat) (hlen : data.length < 2 ^ 63)
include hlen

theorem need_verStep_partial (pos : Nat) (e : NeedEntry) (h : NeedPartial c.le data strOff pos e) :
    verStep env (VerSec.mkNeed (Spec.elfStructs c) data off info strOff) pos
      = .ok (e.r.obs, some e.file, pos + e.r.aux, e.r.cnt) := by
  have hp := structParseAt_of_bytesAt env _ (by rfl) _ _ _ (verneed_encodeRaw c e.r h.fits) (verneed_decodeRaw env c e.r)
    (by rw [verneed_enc_length]; omega) hlen h.placed
  have hf1 : (VerSec.mkNeed (Spec.elfStructs c) data off info strOff).field "cnt" = "vn_cnt" := by rfl
  have hf2 : (VerSec.mkNeed (Spec.elfStructs c) data off info strOff).field "aux" = "vn_aux" := by rfl
  have hgt : e.r.cnt > 0 := by have := h.cnt; omega
  simp only [verStep, hf1, hf2]
  simp [VerSec.mkNeed, hp, verneed_cnt, verneed_aux, verneed_file, strtabGet_of_strAt hlen h.file, hgt,
    bind, Except.bind, pure, Except.pure, Functor.map, Except.map]

theorem def_verStep_partial (pos : Nat) (e : DefEntry) (h : DefPartial c.le data strOff pos e) :
    verStep env (VerSec.mkDef (Spec.elfStructs c) data off info strOff) pos
      = .ok (e.r.obs, none, pos + e.r.aux, e.r.cnt) := by
  have hp := structParseAt_of_bytesAt env _ (by rfl) _ _ _ (verdef_encodeRaw c e.r h.fits) (verdef_decodeRaw env c e.r)
    (by rw [verdef_enc_length]; omega) hlen h.placed
  have hf1 : (VerSec.mkDef (Spec.elfStructs c) data off info strOff).field "cnt" = "vd_cnt" := by rfl
  have hf2 : (VerSec.mkDef (Spec.elfStructs c) data off info strOff).field "aux" = "vd_aux" := by rfl
  have hgt : e.r.cnt > 0 := by have := h.cnt; omega
  simp only [verStep, hf1, hf2]
  simp [VerSec.mkDef, hp, verdef_cnt, verdef_aux, hgt, bind, Except.bind, pure, Except.pure]

omit hlen in
theorem need_auxStep_trunc (pos : Nat) (h : data.length < pos + 16) :
    auxStep env (VerSec.mkNeed (Spec.elfStructs c) data off info strOff) pos = .error .elfParseError := by
  simp [auxStep, VerSec.mkNeed, vernaux_trunc env c data pos h, bind, Except.bind]

omit hlen in
theorem def_auxStep_trunc (pos : Nat) (h : data.length < pos + 8) :
    auxStep env (VerSec.mkDef (Spec.elfStructs c) data off info strOff) pos = .error .elfParseError := by
  simp [auxStep, VerSec.mkDef, verdaux_trunc env c data pos h, bind, Except.bind]

/-- `[(v, list(auxs)) for v, auxs in iter_versions()]`: complete entries `es`, then an entry whose
    auxiliary count exceeds its chain, the chain leaving the file: ELFParseError -/
theorem need_versions_aux_truncated : ∀ (es : List NeedEntry) (e : NeedEntry) (pos n : Nat),
    needLayout c.le data strOff pos es = true →
    NeedPartial c.le data strOff (chainEnd (fun e : NeedEntry => e.r.next) pos es) e → es.length < n →
    iterVersions env (VerSec.mkNeed (Spec.elfStructs c) data off info strOff) n pos = .error .elfParseError
  | [], e, pos, n, _, hp, hc => by
    obtain ⟨m, rfl⟩ : ∃ m, n = m + 1 := ⟨n - 1, by simp at hc; omega⟩
    simp only [chainEnd] at hp
    have haux := auxList_truncated (aobs := NeedAux.obs) (anext := (·.r.next)) 16
      (need_auxStep env c data off info strOff hlen) (fun a => vernaux_next a.r)
      (need_auxStep_trunc env c data off info strOff) e.auxs _ e.r.cnt hp.chain hp.cnt hp.trunc
    simp [iterVersions, need_verStep_partial env c data off info strOff hlen pos e hp, haux, bind, Except.bind]
  | e0 :: rest, e, pos, n, h, hp, hc => by
    obtain ⟨m, rfl⟩ : ∃ m, n = m + 1 := ⟨n - 1, by simp at hc; omega⟩
    simp only [needLayout, chainAt, Bool.and_eq_true] at h
    obtain ⟨h1, h2⟩ := h
    have ih := need_versions_aux_truncated rest e (pos + e0.r.next) m h2 hp (by simpa using hc)
    have hnx : e0.r.obs.getNat ((VerSec.mkNeed (Spec.elfStructs c) data off info strOff).field "next") = .ok e0.r.next :=
      verneed_next e0.r
    have hal := auxList_chain (aobs := NeedAux.obs) (anext := (·.r.next))
      (need_auxStep env c data off info strOff hlen) (fun a => vernaux_next a.r) e0.auxs _ (need_chain_of_at h1)
    simp [iterVersions, need_verStep env c data off info strOff hlen pos e0 h1, hal, hnx, ih, bind, Except.bind]

/-- `get_version(i)` on the same section: the carrier if it is chained before the walk leaves the file —
    among the complete entries or among the chained auxiliaries of the partial one — ELFParseError
    otherwise -/
theorem needGetLoop_aux_truncated (idx : Nat) : ∀ (es : List NeedEntry) (e : NeedEntry) (pos n : Nat),
    needLayout c.le data strOff pos es = true →
    NeedPartial c.le data strOff (chainEnd (fun e : NeedEntry => e.r.next) pos es) e → es.length < n →
    needGetLoop env (VerSec.mkNeed (Spec.elfStructs c) data off info strOff) idx n pos
      = match needFind idx es with
        | some ea => .ok (some (ea.1.r.obs, some ea.1.file, ea.2.r.obs, ea.2.name))
        | none =>
          match e.auxs.find? (fun a => a.r.other == idx) with
          | some a => .ok (some (e.r.obs, some e.file, a.r.obs, a.name))
          | none => .error .elfParseError
  | [], e, pos, n, _, hp, hc => by
    obtain ⟨m, rfl⟩ : ∃ m, n = m + 1 := ⟨n - 1, by simp at hc; omega⟩
    simp only [chainEnd] at hp
    have hfind := auxFind_truncated (aobs := NeedAux.obs) (anext := (·.r.next)) 16
      (need_auxStep env c data off info strOff hlen) (fun a => vernaux_next a.r)
      (need_auxStep_trunc env c data off info strOff)
      (auxOtherIs idx) (fun a => a.r.other == idx)
      (fun a => by simp [auxOtherIs, NeedAux.obs, vernaux_other, bind, Except.bind, pure, Except.pure])
      e.auxs _ e.r.cnt hp.chain hp.cnt hp.trunc
    cases hq : e.auxs.find? (fun a => a.r.other == idx) with
    | none =>
      simp only [hq] at hfind
      simp [needGetLoop, need_verStep_partial env c data off info strOff hlen pos e hp, hfind, needFind,
        bind, Except.bind]
    | some a =>
      simp only [hq] at hfind
      simp [needGetLoop, need_verStep_partial env c data off info strOff hlen pos e hp, hfind, needFind,
        NeedAux.obs, bind, Except.bind, pure, Except.pure]
  | e0 :: rest, e, pos, n, h, hp, hc => by
    obtain ⟨m, rfl⟩ : ∃ m, n = m + 1 := ⟨n - 1, by simp at hc; omega⟩
    simp only [needLayout, chainAt, Bool.and_eq_true] at h
    obtain ⟨h1, h2⟩ := h
    have ih := needGetLoop_aux_truncated idx rest e (pos + e0.r.next) m h2 hp (by simpa using hc)
    have hfind := auxFind_chain (aobs := NeedAux.obs) (anext := (·.r.next))
      (need_auxStep env c data off info strOff hlen) (fun a => vernaux_next a.r)
      (auxOtherIs idx) (fun a => a.r.other == idx)
      (fun a => by simp [auxOtherIs, NeedAux.obs, vernaux_other, bind, Except.bind, pure, Except.pure])
      e0.auxs _ (need_chain_of_at h1)
    have hnx : e0.r.obs.getNat ((VerSec.mkNeed (Spec.elfStructs c) data off info strOff).field "next") = .ok e0.r.next :=
      verneed_next e0.r
    cases hq : e0.auxs.find? (fun a => a.r.other == idx) with
    | none =>
      simp only [hq, Option.map_none] at hfind
      simp only [needGetLoop, need_verStep env c data off info strOff hlen pos e0 h1, hfind, hnx, needFind, hq,
        bind, Except.bind]
      exact ih
    | some a =>
      simp only [hq, Option.map_some] at hfind
      simp [needGetLoop, need_verStep env c data off info strOff hlen pos e0 h1, hfind, needFind, hq, NeedAux.obs,
        bind, Except.bind, pure, Except.pure]

theorem def_versions_aux_truncated : ∀ (es : List DefEntry) (e : DefEntry) (pos n : Nat),
    defLayout c.le data strOff pos es = true →
    DefPartial c.le data strOff (chainEnd (fun e : DefEntry => e.r.next) pos es) e → es.length < n →
    iterVersions env (VerSec.mkDef (Spec.elfStructs c) data off info strOff) n pos = .error .elfParseError
  | [], e, pos, n, _, hp, hc => by
    obtain ⟨m, rfl⟩ : ∃ m, n = m + 1 := ⟨n - 1, by simp at hc; omega⟩
    simp only [chainEnd] at hp
    have haux := auxList_truncated (aobs := DefAux.obs) (anext := (·.r.next)) 8
      (def_auxStep env c data off info strOff hlen) (fun a => verdaux_next a.r)
      (def_auxStep_trunc env c data off info strOff) e.auxs _ e.r.cnt hp.chain hp.cnt hp.trunc
    simp [iterVersions, def_verStep_partial env c data off info strOff hlen pos e hp, haux, bind, Except.bind]
  | e0 :: rest, e, pos, n, h, hp, hc => by
    obtain ⟨m, rfl⟩ : ∃ m, n = m + 1 := ⟨n - 1, by simp at hc; omega⟩
    simp only [defLayout, chainAt, Bool.and_eq_true] at h
    obtain ⟨h1, h2⟩ := h
    have ih := def_versions_aux_truncated rest e (pos + e0.r.next) m h2 hp (by simpa using hc)
    have hnx : e0.r.obs.getNat ((VerSec.mkDef (Spec.elfStructs c) data off info strOff).field "next") = .ok e0.r.next :=
      verdef_next e0.r
    simp [iterVersions, def_verStep env c data off info strOff hlen pos e0 h1,
      def_auxList env c data off info strOff hlen e0 pos h1, hnx, ih, bind, Except.bind]

end partial_

end PyElf.Proofs.C15
