/-
  C17 helper lemmas for the range-marker rule: the Bool check the kernel evaluates implies the Prop-level rule of
  Spec/RegistryMarkers.lean, and the rule transfers to `decodeKey` (Nat-keyed tables) and to `Model.decodeIn`
  (String-keyed tables).
-/
import PyElf.Spec.RegistryMarkers
import PyElf.Proofs.Registry
import PyElf.Model.Env
namespace PyElf.Proofs.Registry
open PyElf.Spec

theorem hasValue3_cons_false {v x : Int} {k : Nat} {m : Bool} {l : List (Nat × Int × Bool)} (hx : x ≠ v)
    (h : hasValue3 v l = false) : hasValue3 v ((k, x, m) :: l) = false := by
  have hd : decide (x = v) = false := by simp [hx]
  simp only [hasValue3, hd, h]

/-- the reported entry is the last entry carrying the code -/
theorem decodeEntry_split_aux {v : Int} {kb : Nat × Bool} : ∀ (M : List (Nat × Int × Bool)) (acc : Option (Nat × Bool)),
    M.foldl (fun acc e => if e.2.1 = v then some (e.1, e.2.2) else acc) acc = some kb →
    (acc = some kb ∧ hasValue3 v M = false) ∨ ∃ A B, M = A ++ (kb.1, v, kb.2) :: B ∧ hasValue3 v B = false
  | [], acc, h => by
    left
    exact ⟨by simpa using h, rfl⟩
  | (k, x, m) :: rest, acc, h => by
    simp only [List.foldl_cons] at h
    rcases decodeEntry_split_aux rest _ h with ⟨ha, hv⟩ | ⟨A, B, hT, hB⟩
    · by_cases hx : x = v
      · right
        simp only [hx, if_true] at ha
        have : (k, m) = kb := by injection ha
        subst this
        exact ⟨[], rest, by simp [hx], hv⟩
      · left
        simp only [hx, if_false] at ha
        exact ⟨ha, hasValue3_cons_false hx hv⟩
    · right
      exact ⟨(k, x, m) :: A, B, by simp [hT], hB⟩

theorem decodeEntry_split {M : List (Nat × Int × Bool)} {v : Int} {k' : Nat} {b : Bool}
    (h : decodeEntry M v = some (k', b)) : ∃ A B, M = A ++ (k', v, b) :: B ∧ hasValue3 v B = false := by
  rcases decodeEntry_split_aux M none h with ⟨ha, _⟩ | h'
  · cases ha
  · exact h'

theorem allMarkers_true {v : Int} : ∀ {M : List (Nat × Int × Bool)}, allMarkers v M = true →
    ∀ k b, (k, v, b) ∈ M → b = true
  | [], _, k, b, hm => by simp at hm
  | (k0, x, m) :: rest, h, k, b, hm => by
    simp only [allMarkers] at h
    by_cases hx : x = v
    · have hd : decide (x = v) = true := by simp [hx]
      rw [hd] at h
      simp only at h
      cases m with
      | false => simp at h
      | true =>
        simp only at h
        rcases List.mem_cons.mp hm with he | hm'
        · have := (Prod.mk.inj (Prod.mk.inj he).2).2
          exact this
        · exact allMarkers_true h k b hm'
    · have hd : decide (x = v) = false := by simp [hx]
      rw [hd] at h
      simp only at h
      rcases List.mem_cons.mp hm with he | hm'
      · have := (Prod.mk.inj (Prod.mk.inj he).2).1
        exact absurd this.symm hx
      · exact allMarkers_true h k b hm'

theorem noMarkerShadowFrom_last {M B : List (Nat × Int × Bool)} {k' : Nat} {v : Int}
    (hB : hasValue3 v B = false) : ∀ (A : List (Nat × Int × Bool)),
    noMarkerShadowFrom M (A ++ (k', v, true) :: B) = true → allMarkers v M = true
  | [], h => by
    simp only [List.nil_append, noMarkerShadowFrom, hB, Bool.false_or] at h
    cases hm : allMarkers v M with
    | true => rfl
    | false => rw [hm] at h; simp at h
  | (k0, v0, m0) :: A, h => by
    simp only [List.cons_append, noMarkerShadowFrom] at h
    apply noMarkerShadowFrom_last hB A
    cases m0 with
    | false => exact h
    | true =>
      simp only at h
      split at h
      · exact h
      · simp at h

/-- the Bool check implies the rule -/
theorem noMarkerShadow_sound {M : List (Nat × Int × Bool)} (h : noMarkerShadow M = true) : NoMarkerShadow M := by
  intro v k' hdec
  obtain ⟨A, B, hM, hB⟩ := decodeEntry_split hdec
  have aux : ∀ S, S = A ++ (k', v, true) :: B → noMarkerShadowFrom M S = true → allMarkers v M = true := by
    intro S hS hd
    subst hS
    exact noMarkerShadowFrom_last hB A hd
  exact allMarkers_true (aux M hM h)

/-! ### the flagged table and the key table it was built from -/

theorem attachMarkers_keys : ∀ {T : List (Nat × Int)} {ms : List Bool} {M : List (Nat × Int × Bool)},
    attachMarkers T ms = some M → M.map (fun e => (e.1, e.2.1)) = T
  | [], [], M, h => by
    simp only [attachMarkers] at h
    cases h; rfl
  | [], _ :: _, M, h => by simp [attachMarkers] at h
  | _ :: _, [], M, h => by simp [attachMarkers] at h
  | (k, v) :: T, m :: ms, M, h => by
    simp only [attachMarkers] at h
    cases ha : attachMarkers T ms with
    | none => rw [ha] at h; simp at h
    | some M' =>
      rw [ha] at h
      simp only [Option.some.injEq] at h
      subst h
      simp [attachMarkers_keys ha]

theorem noMarkerShadowB_elim {T : List (Nat × Int)} {ms : List Bool} (h : noMarkerShadowB T ms = true) :
    ∃ M, attachMarkers T ms = some M ∧ NoMarkerShadow M := by
  unfold noMarkerShadowB at h
  cases ha : attachMarkers T ms with
  | none => rw [ha] at h; simp at h
  | some M => rw [ha] at h; exact ⟨M, rfl, noMarkerShadow_sound h⟩

theorem decodeEntry_key_aux (v : Int) : ∀ (M : List (Nat × Int × Bool)) (acc : Option (Nat × Bool)),
    (M.foldl (fun acc e => if e.2.1 = v then some (e.1, e.2.2) else acc) acc).map (·.1) =
      (M.map (fun e => (e.1, e.2.1))).foldl (fun acc kv => if kv.2 = v then some kv.1 else acc) (acc.map (·.1))
  | [], acc => rfl
  | (k, x, m) :: rest, acc => by
    simp only [List.foldl_cons, List.map_cons]
    rw [decodeEntry_key_aux v rest]
    by_cases hx : x = v <;> simp [hx]

/-- the entry reported on the flagged table carries the name `decodeKey` reports on the key table -/
theorem decodeEntry_key (M : List (Nat × Int × Bool)) (v : Int) :
    (decodeEntry M v).map (·.1) = decodeKey (M.map (fun e => (e.1, e.2.1))) v :=
  decodeEntry_key_aux v M none

/-- GENERIC CONSEQUENCE (Nat-keyed tables): the name `Enum` decoding reports for a code is not a range marker
    unless all names of that code are.  `b` is the marker flag of the reported name. -/
theorem reported_key_not_marker {T : List (Nat × Int)} {ms : List Bool} {M : List (Nat × Int × Bool)}
    (ha : attachMarkers T ms = some M) (h : NoMarkerShadow M) {v : Int} {k' : Nat} (hd : decodeKey T v = some k') :
    ∃ b, decodeEntry M v = some (k', b) ∧ (b = true → ∀ k b', (k, v, b') ∈ M → b' = true) := by
  have hk := decodeEntry_key M v
  rw [attachMarkers_keys ha, hd] at hk
  cases he : decodeEntry M v with
  | none => rw [he] at hk; simp at hk
  | some kb =>
    obtain ⟨k, b⟩ := kb
    rw [he] at hk
    simp only [Option.map_some, Option.some.injEq] at hk
    subst hk
    refine ⟨b, rfl, ?_⟩
    intro hb
    subst hb
    exact h v k he

/-! ### String-keyed tables: `Model.decodeIn` -/

theorem decodeIn_entry_aux (v : Int) : ∀ (t : List (String × Int)) (acc : Option String),
    (markTable t).foldl (fun acc e => if e.2.1 = v then some (e.1, e.2.2) else acc)
        (acc.map fun n => (nameKey n, isRangeMarker n)) =
      (t.foldl (fun acc (e : String × Int) => if e.2 = v then some e.1 else acc) acc).map
        fun n => (nameKey n, isRangeMarker n)
  | [], acc => rfl
  | (n, x) :: rest, acc => by
    simp only [markTable, List.map_cons, List.foldl_cons]
    rw [← decodeIn_entry_aux v rest]
    by_cases hx : x = v <;> simp [hx, markTable]

/-- the model's `Enum` decoding and `decodeEntry` on the derived flagged table report the same entry -/
theorem decodeIn_entry (t : List (String × Int)) (v : Int) :
    decodeEntry (markTable t) v = (Model.decodeIn t v).map fun n => (nameKey n, isRangeMarker n) := by
  have := decodeIn_entry_aux v t none
  simpa [decodeEntry, Model.decodeIn] using this

/-- GENERIC CONSEQUENCE (String-keyed tables, the form the readers use): if the table obeys the rule, the name
    `decodeIn` reports for a code is not a range marker unless ALL names the table gives that code are -/
theorem decodeIn_not_marker {t : List (String × Int)} (h : NoMarkerShadow (markTable t)) {v : Int} {n : String}
    (hd : Model.decodeIn t v = some n) (hm : isRangeMarker n = true) :
    ∀ n', (n', v) ∈ t → isRangeMarker n' = true := by
  intro n' hn'
  have he : decodeEntry (markTable t) v = some (nameKey n, true) := by
    rw [decodeIn_entry, hd]; simp [hm]
  have hmem : (nameKey n', v, isRangeMarker n') ∈ markTable t :=
    List.mem_map.mpr ⟨(n', v), hn', rfl⟩
  exact h v (nameKey n) he (nameKey n') (isRangeMarker n') hmem

/-- contrapositive reading: a code with a real (non-marker) name in the table is reported under a real name -/
theorem decodeIn_real_name {t : List (String × Int)} (h : NoMarkerShadow (markTable t)) {v : Int} {n' : String}
    (hn' : (n', v) ∈ t) (hr : isRangeMarker n' = false) {n : String} (hd : Model.decodeIn t v = some n) :
    isRangeMarker n = false := by
  cases hm : isRangeMarker n with
  | false => rfl
  | true => have := decodeIn_not_marker h hd hm n' hn'; rw [hr] at this; cases this

end PyElf.Proofs.Registry
