/-
  C11 helper lemmas: `_file_crc32` reads the file in chunks and folds `binascii.crc32(chunk, running)`
  over them.  Under the streaming law of CRC-32 — the ONLY assumption —

      crc (a ++ b) init = crc b (crc a init)

  the chunked fold equals the one-shot checksum of the whole file, for every positive chunk size.
  The Spec's CRC-32 (Spec/ContainerCrc.lean: the function of the GDB manual) satisfies the law.
-/
import PyElf.Model.DwarfViewCrc
import PyElf.Spec.ContainerCrc
namespace PyElf.Proofs.C11
open PyElf PyElf.Model PyElf.Model.C11 PyElf.Spec.C11

/-- THE assumption about CRC-32: feeding a byte string in two pieces, the second continued from the
    value of the first, gives the value of the whole -/
def CrcStreaming (crc : Bytes → Nat → Nat) : Prop :=
  ∀ (a b : Bytes) (init : Nat), crc (a ++ b) init = crc b (crc a init)

theorem fileCrc32Loop_nil (crc : Bytes → Nat → Nat) (n c : Nat) : fileCrc32Loop crc n [] c = c := by
  rw [fileCrc32Loop]; simp

theorem fileCrc32Loop_zero (crc : Bytes → Nat → Nat) (rest : Bytes) (c : Nat) : fileCrc32Loop crc 0 rest c = c := by
  rw [fileCrc32Loop]; simp

/-- loop invariant: from any point of the file and any running value, the loop returns the CRC of
    what is left, continued from the running value -/
theorem fileCrc32Loop_eq {crc : Bytes → Nat → Nat} (h : CrcStreaming crc) (n : Nat) (hn : 0 < n) :
    ∀ (k : Nat) (rest : Bytes) (c : Nat), rest.length ≤ k → rest ≠ [] → fileCrc32Loop crc n rest c = crc rest c := by
  intro k
  induction k with
  | zero =>
    intro rest c hk hne
    exact absurd (List.eq_nil_of_length_eq_zero (by omega)) hne
  | succ k ih =>
    intro rest c hk hne
    have htake : rest.take n ≠ [] := by
      simp only [ne_eq, List.take_eq_nil_iff, not_or]
      exact ⟨by omega, hne⟩
    rw [fileCrc32Loop, dif_neg htake]
    by_cases hd : rest.drop n = []
    · rw [hd, fileCrc32Loop_nil]
      have : rest.take n = rest := by
        have := List.take_append_drop n rest
        rw [hd, List.append_nil] at this
        exact this
      rw [this]
    · have hlen : (rest.drop n).length ≤ k := by
        have : rest.length ≠ 0 := fun e => hne (List.eq_nil_of_length_eq_zero e)
        simp only [List.length_drop]; omega
      rw [ih (rest.drop n) _ hlen hd, ← h, List.take_append_drop]

/-- CHUNKED = ONE-SHOT, for every chunk size `n > 0` and every file: `_file_crc32` returns the CRC
    of the whole contents (0 for an empty file, where `binascii.crc32` is never called) -/
theorem fileCrc32_eq_oneshot {crc : Bytes → Nat → Nat} (h : CrcStreaming crc) (n : Nat) (hn : 0 < n) (data : Bytes) :
    fileCrc32 crc n data = if data = [] then 0 else crc data 0 := by
  unfold fileCrc32
  by_cases hd : data = []
  · rw [if_pos hd, hd, fileCrc32Loop_nil]
  · rw [if_neg hd]
    exact fileCrc32Loop_eq h n hn data.length data 0 (Nat.le_refl _) hd

/-- … hence the one-shot CRC outright when the CRC of nothing is the preset 0 -/
theorem fileCrc32_eq_oneshot' {crc : Bytes → Nat → Nat} (h : CrcStreaming crc) (h0 : crc [] 0 = 0) (n : Nat) (hn : 0 < n)
    (data : Bytes) : fileCrc32 crc n data = crc data 0 := by
  rw [fileCrc32_eq_oneshot h n hn]
  split
  · next e => rw [e, h0]
  · rfl

/-- the chunk size does not matter -/
theorem fileCrc32_chunk_irrelevant {crc : Bytes → Nat → Nat} (h : CrcStreaming crc) (n₁ n₂ : Nat) (h₁ : 0 < n₁) (h₂ : 0 < n₂)
    (data : Bytes) : fileCrc32 crc n₁ data = fileCrc32 crc n₂ data := by
  rw [fileCrc32_eq_oneshot h n₁ h₁, fileCrc32_eq_oneshot h n₂ h₂]

/-- a chunk size of 0 would read nothing: the checksum of every file would be 0 -/
theorem fileCrc32_chunk_zero (crc : Bytes → Nat → Nat) (data : Bytes) : fileCrc32 crc 0 data = 0 :=
  fileCrc32Loop_zero crc data 0

/-! ### the Spec's CRC-32 satisfies the law -/

theorem xor_ones_cancel (x : Nat) : (x ^^^ 0xFFFFFFFF) ^^^ 0xFFFFFFFF = x := by
  rw [Nat.xor_assoc, Nat.xor_self, Nat.xor_zero]

theorem spec_crc32_streaming : CrcStreaming (fun d init => crc32 d init) := by
  intro a b init
  simp only [crc32, List.foldl_append, xor_ones_cancel]

theorem spec_crc32_nil : crc32 [] 0 = 0 := by decide

end PyElf.Proofs.C11
