/-
  C09 helper lemmas: the `DynamicSegment` of either layout of a `DynDesc`,
  without assuming how the string table is reached (`SegBase`), and the
  routes `_get_stringtable` can take: the section link, DT_STRTAB through the
  PT_LOADs, the section named `.dynstr` (C01's `lookup_exact`), or nothing.
-/
import PyElf.Proofs.DynamicSym
import PyElf.Spec.DynamicExt
namespace PyElf.Proofs.Dynamic
open PyElf PyElf.Spec PyElf.Spec.Dynamic PyElf.Model PyElf.Model.Dynamic PyElf.Proofs

/-! ### the section named `.dynstr` of the full layout -/

theorem nm_null_ne : (([] : Bytes) == nm ".dynstr") = false := by decide +kernel
theorem nm_decoy_ne : (nm ".decoy" == nm ".dynstr") = false := by decide +kernel
theorem nm_dynsym_ne : (nm ".dynsym" == nm ".dynstr") = false := by decide +kernel
theorem nm_dynamic_ne : (nm ".dynamic" == nm ".dynstr") = false := by decide +kernel
theorem nm_shstrtab_ne : (nm ".shstrtab" == nm ".dynstr") = false := by decide +kernel
theorem nm_dynstr_model : ".dynstr".toUTF8.toList = nm ".dynstr" := rfl

theorem idxs_append (name : Bytes) : ∀ (a b : List Bytes) (i : Nat),
    idxs name (a ++ b) i = idxs name a i ++ idxs name b (i + a.length) := by
  intro a
  induction a with
  | nil => intro b i; simp [idxs]
  | cons x a ih =>
    intro b i
    simp only [List.cons_append, idxs, ih, List.length_cons]
    have e : i + 1 + a.length = i + (a.length + 1) := by omega
    split <;> simp [e]

theorem idxs_replicate_ne {name x : Bytes} (h : (x == name) = false) : ∀ (k i : Nat),
    idxs name (List.replicate k x) i = [] := by
  intro k
  induction k with
  | zero => intro i; rfl
  | succ k ih => intro i; simp [List.replicate_succ, idxs, h, ih]

/-- exactly one section of the full layout is called `.dynstr` -/
theorem indexOfName_dynstr (d : DynDesc) : (d.container true).indexOfName (nm ".dynstr") = some (d.decoys + 1) := by
  unfold ElfDesc.indexOfName
  rw [List.range_eq_range', idxs_eq_filter (fun s : SecDesc => s.name)]
  have hn : (d.container true).sections.map (fun s : SecDesc => s.name)
      = [] :: (List.replicate d.decoys (nm ".decoy") ++ [nm ".dynstr", nm ".dynsym", nm ".dynamic", nm ".shstrtab"]) := by
    simp [DynDesc.container, DynDesc.sections, secNull, secDecoy, DynDesc.secDynstr, DynDesc.secDynsym,
      DynDesc.secDynamic, DynDesc.secShstrtab]
  rw [hn]
  simp only [idxs, nm_null_ne, Bool.false_eq_true, if_false, idxs_append, idxs_replicate_ne nm_decoy_ne,
    List.nil_append, beq_self_eq_true, if_true, nm_dynsym_ne, nm_dynamic_ne, nm_shstrtab_ne, List.length_replicate]
  simp
  omega

theorem indexOfName_stripped (d : DynDesc) (name : Bytes) : (d.container false).indexOfName name = none := by
  simp [ElfDesc.indexOfName, DynDesc.container]

/-- `iter_sections()` of a well-formed, laid-out description, and its observation -/
theorem file_sections {env : Env} {e : ElfDesc} {bytes : Bytes} (hwf : e.wf env = true) (hl : Layout e bytes)
    (hseg : ∀ p ∈ e.segments, ∃ h, e.S.Elf_Phdr.decodeRaw env [] (.record p) = .ok h)
    {f : ElfFile} (hopen : openElf env Props.C01.specStructs Props.C01.specMachineClass bytes = .ok f) :
    ∃ obs, e.observe env = .ok obs ∧ iterSections env f.S f.data f.header f.shstr = .ok obs.sections := by
  obtain ⟨obs, ho⟩ := observe_ok hwf hseg
  obtain ⟨f', hf, hdata, -, -, -, -⟩ := Props.C01.open_exact env e bytes obs hwf hl ho
  rw [hopen] at hf
  cases hf
  exact ⟨obs, ho, by rw [hdata]; exact Props.C01.sections_exact env e bytes obs f hwf hl ho hopen⟩

/-- `get_section_by_name(name)` through the description's own index of the name -/
theorem sectionByName_eq {env : Env} {e : ElfDesc} {bytes : Bytes} (hwf : e.wf env = true) (hl : Layout e bytes)
    (hseg : ∀ p ∈ e.segments, ∃ h, e.S.Elf_Phdr.decodeRaw env [] (.record p) = .ok h)
    {f : ElfFile} (hopen : openElf env Props.C01.specStructs Props.C01.specMachineClass bytes = .ok f)
    (name : Bytes) :
    (realIfc env f).sectionByName name =
      match e.indexOfName name with
      | none => .ok none
      | some i => (getSection env f.S f.data f.header f.shstr i).map fun r => some (r.1, r.2.2) := by
  obtain ⟨obs, ho, hsec⟩ := file_sections hwf hl hseg hopen
  have hlook := Props.C01.lookup_exact env e obs ho name
  show (do
    let secs ← iterSections env f.S f.data f.header f.shstr
    match (sectionNameMap secs).find? (fun (p : Bytes × Nat) => p.1 == name) with
    | some (_, i) =>
      let (k, _, h) ← getSection env f.S f.data f.header f.shstr i
      return some (k, h)
    | none => (return none : R (Option (String × Val)))) = _
  rw [hsec]
  simp only [bind, Except.bind]
  cases hfind : (sectionNameMap obs.sections).find? (·.1 == name) with
  | none =>
    rw [hfind] at hlook
    simp only [Option.map_none] at hlook
    rw [← hlook]
    rfl
  | some p =>
    rw [hfind] at hlook
    simp only [Option.map_some] at hlook
    rw [← hlook]
    obtain ⟨k, i⟩ := p
    simp only
    cases getSection env f.S f.data f.header f.shstr i with
    | error er => rfl
    | ok r => obtain ⟨a, b, c⟩ := r; rfl

/-! ### `DynDesc.wf` in parts -/

theorem wf_base {env : Env} {d : DynDesc} {full : Bool} (h : d.wf env full = true) : d.wfBase env = true := by
  unfold DynDesc.wf at h
  simp only [Bool.and_eq_true] at h
  obtain ⟨⟨⟨⟨⟨⟨⟨⟨⟨⟨⟨⟨⟨⟨⟨⟨⟨-, -⟩, -⟩, -⟩, h5⟩, -⟩, -⟩, -⟩, -⟩, -⟩, -⟩, -⟩, -⟩, -⟩, h15⟩, -⟩, -⟩, h18⟩ := h
  simp only [DynDesc.wfBase, Bool.and_eq_true]
  exact ⟨⟨h5, h15⟩, h18⟩

structure BaseWf (env : Env) (d : DynDesc) : Prop where
  dynSeg : dynSegOk env d = true
  copy : ∀ o, d.secDynOff = some o → o ≠ d.dynOff
  phlen : (d.phdrs env).length = d.segments.length

theorem base_wf {env : Env} {d : DynDesc} (h : d.wfBase env = true) : BaseWf env d := by
  simp only [DynDesc.wfBase, Bool.and_eq_true, decide_eq_true_eq] at h
  obtain ⟨⟨h1, h2⟩, h3⟩ := h
  refine ⟨h1, ?_, h3⟩
  intro o ho
  rw [ho] at h2
  simpa using h2

theorem wf_strOk {env : Env} {d : DynDesc} {full : Bool} (h : d.wf env full = true) : d.strOk env full = true := by
  have W := dyn_wf h
  obtain ⟨a, ha, ho⟩ := ptrOk_some W.strtab
  have hp : d.strPtrOff env = some d.strOff := by simp [DynDesc.strPtrOff, ha, ho]
  unfold DynDesc.strOk DynDesc.strRoute
  by_cases hlink : (full && d.secDynOff.isNone) = true
  · simp [hlink]
  · simp [hlink, hp]

theorem wf_tags {env : Env} {d : DynDesc} {full : Bool} (h : d.wf env full = true) : d.wfTags env full = true := by
  have W := dyn_wf h
  simp [DynDesc.wfTags, W.term, W.strings, wf_strOk h]

theorem wf_syms {env : Env} {d : DynDesc} {full : Bool} (h : d.wf env full = true) : d.wfSyms env = true :=
  (dyn_wf h).symtab

theorem wf_hash {env : Env} {d : DynDesc} {full : Bool} (h : d.wf env full = true) : d.wfHash env = true := by
  have W := dyn_wf h
  simp [DynDesc.wfHash, W.hash, W.gnuHash]

/-! ### the `DynamicSegment` of a layout, whatever the route to the strings -/

structure SegBase (env : Env) (d : DynDesc) (full : Bool) (bytes : Bytes) (f : ElfFile) (dy : Dyn) : Prop where
  opened : openElf env Props.C01.specStructs Props.C01.specMachineClass bytes = .ok f
  S : f.S = d.S
  le : f.le = d.le
  data : f.data = bytes
  seg : dynamicSegment env f = .ok (some dy)
  view : TableView f.S f.data dy d.le d.w (dTagTable d.mclass d.solaris) d.tags
  segs : SegsView (realIfc env f) (d.phdrs env)
  iterSegs : ∃ gs, iterSegments env f.S f.data f.header f.shstr = .ok gs ∧ gs.map (·.2) = d.phdrs env
  blobs : ∃ b, BlobFacts d full b ∧ ∀ r ∈ b, ∃ rest, f.data.drop r.1 = r.2 ++ rest
  small : f.data.length < 2 ^ 63
  offset : dy.offset = d.dynOff
  /-- the constructor's section search: `.dynamic` at the segment's offset → its `sh_link` -/
  strLink : full = true → d.secDynOff = none →
    ∃ hstr, hstr.getNat "sh_offset" = .ok d.strOff ∧ dy.strtab = some (.section "StringTableSection" hstr)
  strNone : (full = false ∨ d.secDynOff.isSome = true) → dy.strtab = none
  /-- `get_section_by_name('.dynstr')` -/
  dynstrFull : full = true →
    ∃ hstr, hstr.getNat "sh_offset" = .ok d.strOff ∧
      (realIfc env f).sectionByName (nm ".dynstr") = .ok (some ("StringTableSection", hstr))
  dynstrNone : full = false → (realIfc env f).sectionByName (nm ".dynstr") = .ok none

theorem iterSegments_phdrs {env : Env} {d : DynDesc} {full : Bool} {bytes : Bytes} {f : ElfFile}
    (FF : FileFacts env (d.container full) bytes f) (hlen : (d.phdrs env).length = d.segments.length) :
    ∃ gs, iterSegments env f.S f.data f.header f.shstr = .ok gs ∧ gs.map (·.2) = d.phdrs env := by
  obtain ⟨gs, hgs⟩ := FF.iterSegs
  refine ⟨gs, hgs, ?_⟩
  unfold iterSegments at hgs
  rw [FF.nseg] at hgs
  simp only [bind, Except.bind, container_segments] at hgs
  obtain ⟨hl, hall⟩ := mapM_ok_inv _ _ _ hgs
  have hl' : gs.length = d.segments.length := by simpa using hl
  apply List.ext_getElem
  · simp [hl', hlen]
  · intro i h1 h2
    have hi : i < d.segments.length := by simpa [hl'] using h1
    have hg := hall i (by simpa using hi) (by omega)
    simp only [List.getElem_range] at hg
    obtain ⟨ph, ty, b, hdec, -, -, hget⟩ := FF.seg i hi
    have := phdrs_get hlen i hi h2
    simp only [container_segments, container_S] at hdec
    rw [this] at hdec
    cases hdec
    rw [hget] at hg
    have hgi : gs[i]'(by omega) = (segKindOf ty, (d.phdrs env)[i]) := (Except.ok.inj hg).symm
    simp only [List.getElem_map, hgi]

theorem segBase_of {env : Env} (T : ShTypes env) {d : DynDesc} {full : Bool} {bytes : Bytes}
    (hc : (d.container full).wf env = true) (hb : d.wfBase env = true)
    (hl : DynLayout d full bytes) (hsmall : bytes.length < 2 ^ 63) :
    ∃ f dy, SegBase env d full bytes f dy := by
  have W := base_wf hb
  have hsd := segs_decode (full := full) W.phlen
  obtain ⟨f, hopen, FF⟩ := file_facts hc (layout_container hl) hsd
  obtain ⟨b, hbl, hplaced⟩ := layout_blobs hl
  have B := blob_facts hbl
  obtain ⟨tb, htb, hmem, -⟩ := B.tags
  obtain ⟨rest, hrest⟩ := hplaced _ hmem
  have SV := segsView_of FF W.phlen
  have hS : f.S = d.S := by rw [FF.S]; rfl
  have hle : f.le = d.le := by rw [FF.le]; rfl
  have hblobs : ∃ b, BlobFacts d full b ∧ ∀ r ∈ b, ∃ rest, f.data.drop r.1 = r.2 ++ rest :=
    ⟨b, B, by rw [FF.data]; exact hplaced⟩
  have hsm : f.data.length < 2 ^ 63 := by rw [FF.data]; exact hsmall
  have hbyname := sectionByName_eq hc (layout_container hl) hsd hopen (nm ".dynstr")
  have mk : ∀ st, dynOfSegment.find env f d.dynOff (List.range (d.container full).sections.length) = .ok st →
      ∃ dy, dynamicSegment env f = .ok (some dy) ∧ dy.strtab = st ∧ dy.offset = d.dynOff ∧
        TableView f.S f.data dy d.le d.w (dTagTable d.mclass d.solaris) d.tags := by
    intro st hfind
    refine ⟨_, dynamicSegment_of FF W.phlen W.dynSeg st hfind, rfl, rfl, ?_⟩
    exact tableView_of FF (w_pos hc) hsmall _ rfl rfl tb htb rest hrest
  cases full with
  | false =>
    obtain ⟨dy, hseg, hstn, hoffs, V⟩ := mk none rfl
    refine ⟨f, dy, hopen, hS, hle, FF.data, hseg, V, SV, iterSegments_phdrs FF W.phlen, hblobs, hsm, hoffs,
      (fun h => by cases h), (fun _ => hstn), (fun h => by cases h), (fun _ => ?_)⟩
    rw [hbyname, indexOfName_stripped]
  | true =>
    have SecV := secView_of T FF
    have hdynstr : ∃ hstr, hstr.getNat "sh_offset" = .ok d.strOff ∧
        (realIfc env f).sectionByName (nm ".dynstr") = .ok (some ("StringTableSection", hstr)) := by
      obtain ⟨nm', hstr, hget, hoff⟩ := SecV.dynstr
      refine ⟨hstr, hoff, ?_⟩
      rw [hbyname, indexOfName_dynstr]
      simp only [hget, Except.map]
    cases hsd' : d.secDynOff with
    | none =>
      obtain ⟨hstr, hoff, hfind⟩ := segFind_full_match SecV hsd'
      obtain ⟨dy, hseg, hstn, hoffs, V⟩ := mk _ hfind
      exact ⟨f, dy, hopen, hS, hle, FF.data, hseg, V, SV, iterSegments_phdrs FF W.phlen, hblobs, hsm, hoffs,
        (fun _ _ => ⟨hstr, hoff, hstn⟩), (fun h => by
          rcases h with h | h
          · cases h
          · rw [hsd'] at h; cases h), (fun _ => hdynstr), (fun h => by cases h)⟩
    | some o =>
      have hfind := segFind_full_nomatch SecV o hsd' (W.copy o hsd')
      obtain ⟨dy, hseg, hstn, hoffs, V⟩ := mk none hfind
      exact ⟨f, dy, hopen, hS, hle, FF.data, hseg, V, SV, iterSegments_phdrs FF W.phlen, hblobs, hsm, hoffs,
        (fun _ h => by rw [hsd'] at h; cases h), (fun _ => hstn), (fun _ => hdynstr), (fun h => by cases h)⟩

/-! ### the string table, by route -/

section routes
variable {env : Env} {d : DynDesc} {full : Bool} {bytes : Bytes} {f : ElfFile} {dy : Dyn}

theorem strPlaced (X : SegBase env d full bytes f dy) : ∃ srest, f.data.drop d.strOff = d.strtab ++ srest := by
  obtain ⟨b, B, hpl⟩ := X.blobs
  exact hpl _ B.str

/-- `_get_stringtable()` when DT_STRTAB is absent or maps nowhere and nothing was handed to the
    constructor: whatever `get_section_by_name('.dynstr')` returns -/
theorem getStringtable_byName {S : ElfStructs} {data : Bytes} {ifc : FileIfc} {dn : Dyn} {le : Bool} {w : Nat}
    {tbl : String} {tags : List (Int × Nat)} {hs : List Val}
    (V : TableView S data dn le w tbl tags) (hnull : NullIs env tbl)
    (hterm : hasTerminator tags = true) (SV : SegsView ifc hs)
    (hstrtab : TagIs env tbl "DT_STRTAB" DT_STRTAB) (hnone : dn.strtab = none)
    (hno : (firstVal (liveTags tags) DT_STRTAB).bind (mapAddr hs) = none)
    {r : Option (String × Val)} (hby : ifc.sectionByName (nm ".dynstr") = .ok r) :
    getStringtable env S data ifc dn = .ok (r.map fun p => .section p.1 p.2) := by
  unfold getStringtable
  simp only [hnone]
  rw [getTableOffset_view V hnull hterm SV "DT_STRTAB" DT_STRTAB hstrtab, hno]
  simp only [bind, Except.bind, nm_dynstr_model, hby]
  cases r with
  | none => rfl
  | some p => obtain ⟨k, h⟩ := p; rfl

/-- whenever the route leads to the described table (`strOk`), `_get_stringtable()` returns an
    object that serves its strings -/
theorem strtab_of_route (X : SegBase env d full bytes f dy)
    (hnull : NullIs env (dTagTable d.mclass d.solaris))
    (hst : TagIs env (dTagTable d.mclass d.solaris) "DT_STRTAB" DT_STRTAB)
    (hterm : hasTerminator d.tags = true) (hok : d.strOk env full = true) :
    ∃ tab, getStringtable env f.S f.data (realIfc env f) dy = .ok (some tab) ∧ Serves f.data tab d.strtab := by
  obtain ⟨srest, hsr⟩ := strPlaced X
  unfold DynDesc.strOk DynDesc.strRoute at hok
  by_cases hlink : (full && d.secDynOff.isNone) = true
  · simp only [Bool.and_eq_true, Option.isNone_iff_eq_none] at hlink
    obtain ⟨hstr, hoff, hstn⟩ := X.strLink hlink.1 hlink.2
    exact ⟨_, getStringtable_given hstn, serves_section hoff hsr X.small⟩
  · have hlink' : (full && d.secDynOff.isNone) = false := by
      cases hx : (full && d.secDynOff.isNone)
      · rfl
      · exact absurd hx hlink
    have hnone : dy.strtab = none := by
      apply X.strNone
      cases full with
      | false => exact Or.inl rfl
      | true =>
        right
        simp only [Bool.true_and] at hlink'
        cases hs : d.secDynOff with
        | none => simp [hs] at hlink'
        | some o => rfl
    simp only [hlink', Bool.false_eq_true, if_false] at hok
    cases hp : d.strPtrOff env with
    | some o =>
      simp only [hp, beq_iff_eq, Option.some.injEq] at hok
      subst hok
      unfold DynDesc.strPtrOff at hp
      cases ha : firstVal d.live DT_STRTAB with
      | none => simp [ha] at hp
      | some a =>
        simp only [ha, Option.bind_some] at hp
        exact ⟨_, getStringtable_pointer X.view hnull hterm X.segs hst hnone ha hp, serves_dynamic hsr X.small⟩
    | none =>
      simp only [hp] at hok
      cases full with
      | false => simp at hok
      | true =>
        obtain ⟨hstr, hoff, hby⟩ := X.dynstrFull rfl
        have := getStringtable_byName X.view hnull hterm X.segs hst hnone hp hby
        exact ⟨_, this, serves_section hoff hsr X.small⟩

/-- no route: a stripped image (or one without a matching `.dynamic` section — here: stripped)
    whose DT_STRTAB is absent or maps nowhere has no string table -/
theorem strtab_none (X : SegBase env d full bytes f dy)
    (hnull : NullIs env (dTagTable d.mclass d.solaris))
    (hst : TagIs env (dTagTable d.mclass d.solaris) "DT_STRTAB" DT_STRTAB)
    (hterm : hasTerminator d.tags = true) (hr : d.strRoute env full = .none) :
    getStringtable env f.S f.data (realIfc env f) dy = .ok none := by
  unfold DynDesc.strRoute at hr
  cases full with
  | true =>
    split at hr
    · cases hr
    · split at hr <;> simp at hr
  | false =>
    simp only [Bool.false_and, Bool.false_eq_true, if_false] at hr
    cases hp : d.strPtrOff env with
    | some o => simp [hp] at hr
    | none =>
      have hnone : dy.strtab = none := X.strNone (Or.inl rfl)
      have := getStringtable_byName X.view hnull hterm X.segs hst hnone hp (X.dynstrNone rfl)
      simpa using this

end routes

/-- `hash_wf` (Proofs/DynamicSym.lean) from the two facts of `DynDesc.wf` it uses -/
theorem hash_wf_of {env : Env} {d : DynDesc} {full : Bool} {b : List (Nat × Bytes)} {data : Bytes}
    (hps : ptrOk env d DT_HASH (d.sysv.map (·.2)) = true) (hpg : ptrOk env d DT_GNU_HASH (d.gnu.map (·.2)) = true)
    (hh : hashOk d = true) (B : BlobFacts d full b)
    (hpl : ∀ r ∈ b, ∃ rest, data.drop r.1 = r.2 ++ rest) :
    (∃ a o h rest, firstVal d.live DT_GNU_HASH = some a ∧ mapAddr (d.phdrs env) a = some o ∧
        GnuHash.wf h d.syms.length = true ∧ data.drop o = h.enc d.le d.w ++ rest) ∨
    (firstVal d.live DT_GNU_HASH = none ∧
      ∃ a o h rest, firstVal d.live DT_HASH = some a ∧ mapAddr (d.phdrs env) a = some o ∧
        SysvHash.wf h d.syms.length = true ∧ data.drop o = h.enc d.le ++ rest) := by
  unfold hashOk at hh
  simp only [Bool.and_eq_true, Bool.or_eq_true] at hh
  obtain ⟨⟨hsome, hg⟩, hs⟩ := hh
  cases hgnu : d.gnu with
  | some p =>
    obtain ⟨h, o⟩ := p
    rw [hgnu] at hg hpg
    obtain ⟨a, ha, ho⟩ := ptrOk_some (by simpa using hpg)
    obtain ⟨rest, hrest⟩ := hpl _ (B.gnu h o hgnu)
    exact Or.inl ⟨a, o, h, rest, ha, ho, hg, hrest⟩
  | none =>
    rw [hgnu] at hpg hsome
    have hnone := ptrOk_none (by simpa using hpg)
    cases hsysv : d.sysv with
    | none => simp [hsysv] at hsome
    | some p =>
      obtain ⟨h, o⟩ := p
      rw [hsysv] at hs hps
      obtain ⟨a, ha, ho⟩ := ptrOk_some (by simpa using hps)
      obtain ⟨rest, hrest⟩ := hpl _ (B.sysv h o hsysv)
      exact Or.inr ⟨hnone, a, o, h, rest, ha, ho, hs, hrest⟩

/-- the assembler produces a layout whenever the regions do not overlap (`assemble_dynLayout` with
    the one conjunct of `DynDesc.wf` it uses) -/
theorem assemble_dynLayout_of_regionsOk {d : DynDesc} {full : Bool} {bytes : Bytes}
    (hok : d.regionsOk full = true) (h : d.assemble full = some bytes) : DynLayout d full bytes := by
  unfold DynDesc.assemble at h
  unfold DynDesc.regionsOk at hok
  cases hrs : d.regions full with
  | none => simp [hrs] at h
  | some rs =>
    simp only [hrs, Option.bind_eq_bind, Option.bind_some, Option.pure_def, Option.some.injEq] at h
    subst h
    simp only [hrs] at hok
    refine ⟨rs, hrs, fun r hr => ?_⟩
    have hmem : r ∈ sortRegions rs := (List.mergeSort_perm rs _).mem_iff.2 hr
    exact layOut_reads (sortRegions rs) [] hok (fun _ _ => Nat.zero_le _) r hmem

/-- `secSide_of` from the container part of `DynDesc.wf` alone: the `DynamicSection` of the full
    layout reads the table its header designates and takes its strings from the linked section,
    whatever the dynamic table says about DT_STRTAB -/
theorem secSide_base {env : Env} (T : ShTypes env) {d : DynDesc} {bytes : Bytes}
    (hc : (d.container true).wf env = true) (hb : d.wfBase env = true)
    (hl : DynLayout d true bytes) (hsmall : bytes.length < 2 ^ 63) (f : ElfFile)
    (hopen : openElf env Props.C01.specStructs Props.C01.specMachineClass bytes = .ok f) :
    ∃ dy tab, SecSide env d bytes f dy tab := by
  have W := base_wf hb
  obtain ⟨f', hopen', FF⟩ := file_facts hc (layout_container hl) (segs_decode W.phlen)
  rw [hopen] at hopen'
  cases hopen'
  obtain ⟨b, hbl, hplaced⟩ := layout_blobs hl
  have B := blob_facts hbl
  obtain ⟨tb, htb, hmem, hcopy⟩ := B.tags
  obtain ⟨srest, hsrest⟩ := hplaced _ B.str
  have hsm : f.data.length < 2 ^ 63 := by rw [FF.data]; exact hsmall
  have hsr : f.data.drop d.strOff = d.strtab ++ srest := by rw [FF.data]; exact hsrest
  obtain ⟨hstr, hoff, hsec⟩ := dynamicSection_full FF (secView_of T FF)
  have hpl : ∃ rest, bytes.drop (d.secDynOff.getD d.dynOff) = tb ++ rest := by
    cases hsd : d.secDynOff with
    | none => exact hplaced _ hmem
    | some o => exact hplaced _ (hcopy rfl o hsd)
  obtain ⟨rest, hrest⟩ := hpl
  exact ⟨_, _, hsec, tableView_of FF (w_pos hc) hsmall _ rfl rfl tb htb rest hrest,
    getStringtable_given rfl, serves_section hoff hsr hsm⟩

end PyElf.Proofs.Dynamic
