import PyElf.Proofs.DwarfLookup
import PyElf.Spec.DwarfStructs
namespace PyElf.Proofs.Lookup
open PyElf PyElf.Spec.Lookup PyElf.Model.Lookup PyElf.Proofs

theorem parseFields_uint {env : Env} {data : Bytes} {nm : String} {n : Nat} {le : Bool} {rest : ConFields}
    {obj ctx : Fields} {pos : Nat} {bs tail : Bytes} (hd : data.drop pos = bs ++ tail) (hn : bs.length = n) :
    Con.parseFields env data (.cons (some nm) false (.uint n le) rest) obj ctx pos
      = Con.parseFields env data rest (Fields.set obj nm (.int (decNat le bs)))
          (Fields.set ctx nm (.int (decNat le bs))) (pos + n) := by
  rw [Con.parseFields]
  simp [parse_uint_ok hd hn, bind, Except.bind]

theorem parseFields_initlen32 {env : Env} {data : Bytes} {nm : String} {le : Bool} {rest : ConFields}
    {obj ctx : Fields} {pos : Nat} {bs tail : Bytes} (hd : data.drop pos = bs ++ tail) (hn : bs.length = 4)
    (h : decNat le bs < 0xFFFFFF00) :
    Con.parseFields env data (.cons (some nm) false (.initialLength le) rest) obj ctx pos
      = Con.parseFields env data rest (Fields.set obj nm (.int (decNat le bs)))
          (Fields.set (Fields.set ctx "is64" (.bool false)) nm (.int (decNat le bs))) (pos + 4) := by
  rw [Con.parseFields]
  simp [parse_initlen_32 hd hn h, bind, Except.bind]

theorem aranges_header_eq (le : Bool) (asz ver : Nat) :
    (Spec.dwarfStructs ⟨le, 32, asz, ver⟩).Dwarf_aranges_header
      = .struct (.cons (some "unit_length") false (.initialLength le)
          (.cons (some "version") false (.uint 2 le)
          (.cons (some "debug_info_offset") false (.uint 4 le)
          (.cons (some "address_size") false (.uint 1 le)
          (.cons (some "segment_size") false (.uint 1 le) .nil))))) := by
  simp [Spec.dwarfStructs, Spec.st, Spec.f, Spec.mkFields]

/-- the aranges set header decodes to its five fields and ends 12 bytes later -/
theorem aranges_header_parse {env : Env} {data : Bytes} {off : Nat} {le : Bool} {dasz dver ul ver io asz seg : Nat}
    {rest : Bytes}
    (hd : data.drop off = encNat le 4 ul ++ (encNat le 2 ver ++ (encNat le 4 io ++ (encNat le 1 asz ++
            (encNat le 1 seg ++ rest)))))
    (hul : ul < 0xFFFFFF00) (hver : ver < 256 ^ 2) (hio : io < 256 ^ 4) (hasz : asz < 256 ^ 1) (hseg : seg < 256 ^ 1) :
    structParse env (Spec.dwarfStructs ⟨le, 32, dasz, dver⟩).Dwarf_aranges_header data off
      = .ok (.record [("unit_length", .int ul), ("version", .int ver), ("debug_info_offset", .int io),
                      ("address_size", .int asz), ("segment_size", .int seg)], off + 12) := by
  have h1 := drop_add_of_drop hd
  have h2 := drop_add_of_drop h1
  have h3 := drop_add_of_drop h2
  have h4 := drop_add_of_drop h3
  simp only [encNat_length] at h1 h2 h3 h4
  have e0 : decNat le (encNat le 4 ul) = ul := decNat_encNat_of_lt le (by omega)
  rw [aranges_header_eq, structParse, Con.parse,
    parseFields_initlen32 hd (encNat_length le 4 ul) (by rw [e0]; exact hul),
    parseFields_uint h1 (encNat_length le 2 ver), parseFields_uint h2 (encNat_length le 4 io),
    parseFields_uint h3 (encNat_length le 1 asz), parseFields_uint h4 (encNat_length le 1 seg),
    Con.parseFields, e0, decNat_encNat_of_lt le hver, decNat_encNat_of_lt le hio,
    decNat_encNat_of_lt le hasz, decNat_encNat_of_lt le hseg]
  simp [bind, Except.bind, pure, Except.pure, Fields.set]


theorem parseNat_uint {env : Env} {data : Bytes} {pos n v : Nat} {le : Bool} {rest : Bytes}
    (hd : data.drop pos = encNat le n v ++ rest) (hv : v < 256 ^ n) :
    parseNat env (.uint n le) data pos = .ok (v, pos + n) := by
  unfold parseNat structParse
  rw [parse_uint_ok hd (encNat_length le n v), decNat_encNat_of_lt le hv]
  have hneg : ¬ ((v : Int) < 0) := by omega
  simp [bind, Except.bind, pure, Except.pure, Val.asNat, Val.asInt, hneg]

/-! ### aranges: tuples of one set -/

theorem wfTuple_iff {asz : Nat} {t : ARTuple} :
    wfTuple asz t = true ↔ t.addr < 256 ^ asz ∧ t.len < 256 ^ asz ∧ (t.addr ≠ 0 ∨ t.len ≠ 0) := by
  unfold wfTuple
  simp only [Bool.and_eq_true, decide_eq_true_eq, Bool.not_eq_true', Bool.and_eq_false_iff, beq_eq_false_iff_ne]
  exact and_assoc


/-- `Model.readTuples` with the `got_entries` flag exposed (for the induction) -/
def readTuplesG (env : Env) (c : Con) (data : Bytes) (mk : Nat → Nat → AREntry) (fuel pos : Nat) (got : Bool)
    (acc : List AREntry) : R (List AREntry × Nat) := do
  let (a, p1) ← parseNat env c data pos
  let (l, p2) ← parseNat env c data p1
  tupleLoop env c data mk false fuel p2 a l got acc

theorem readTuplesG_spec {env : Env} {data : Bytes} {le : Bool} {asz : Nat} {mk : Nat → Nat → AREntry} {rest : Bytes} :
    ∀ (ts : List ARTuple) (pos fuel : Nat) (got : Bool) (acc : List AREntry),
      data.drop pos = ts.flatMap (encTuple le asz) ++ (encTuple le asz ⟨0, 0⟩ ++ rest) →
      (∀ t ∈ ts, wfTuple asz t = true) → ts.length + 1 ≤ fuel →
      ∃ p, readTuplesG env (.uint asz le) data mk fuel pos got acc
        = .ok (acc ++ ts.map (fun t => mk t.addr t.len), p) := by
  intro ts
  induction ts with
  | nil =>
    intro pos fuel got acc hd _ hf
    cases fuel with
    | zero => omega
    | succ fuel =>
      simp only [List.flatMap_nil, List.nil_append, encTuple, List.append_assoc] at hd
      have h1 := drop_add_of_drop hd
      simp only [encNat_length] at h1
      have hz : 0 < 256 ^ asz := Nat.pow_pos (by omega)
      refine ⟨pos + asz + asz, ?_⟩
      unfold readTuplesG
      simp only [parseNat_uint hd hz, parseNat_uint h1 hz, bind, Except.bind]
      unfold tupleLoop
      simp
  | cons t ts ih =>
    intro pos fuel got acc hd hwf hf
    cases fuel with
    | zero => omega
    | succ fuel =>
      obtain ⟨ha, hl, hnz⟩ := wfTuple_iff.mp (hwf t List.mem_cons_self)
      simp only [List.flatMap_cons, encTuple, List.append_assoc] at hd
      have h1 := drop_add_of_drop hd
      simp only [encNat_length] at h1
      have h2 := drop_add_of_drop h1
      simp only [encNat_length] at h2
      have h2' : data.drop (pos + asz + asz)
          = ts.flatMap (encTuple le asz) ++ (encTuple le asz ⟨0, 0⟩ ++ rest) := by
        rw [h2]; simp [encTuple, List.append_assoc]
      obtain ⟨p, hp⟩ := ih (pos + asz + asz) fuel true (acc ++ [mk t.addr t.len]) h2'
        (fun x hx => hwf x (List.mem_cons_of_mem _ hx)) (by simp at hf; omega)
      refine ⟨p, ?_⟩
      unfold readTuplesG
      simp only [parseNat_uint hd ha, parseNat_uint h1 hl, bind, Except.bind]
      unfold tupleLoop
      have hc : (t.addr ≠ 0 ∨ t.len ≠ 0 ∨ (!got && false) = true) := by
        rcases hnz with h | h
        · exact Or.inl h
        · exact Or.inr (Or.inl h)
      simp only [hc, if_true, hnz]
      change readTuplesG env (.uint asz le) data mk fuel (pos + asz + asz) true (acc ++ [mk t.addr t.len]) = _
      rw [hp]
      simp


theorem getNat_hit (k : String) (n : Nat) (rest : Fields) :
    (Val.record ((k, .int (n : Int)) :: rest)).getNat k = .ok n := by
  have hneg : ¬ ((n : Int) < 0) := by omega
  simp [Val.getNat, Val.getField, Fields.getR, Fields.get?, Val.asNat, Val.asInt, bind, Except.bind, hneg]

theorem getNat_skip (k k' : String) (v : Val) (rest : Fields) (h : k' ≠ k) :
    (Val.record ((k', v) :: rest)).getNat k = (Val.record rest).getNat k := by
  simp [Val.getNat, Val.getField, Fields.getR, Fields.get?, h]

theorem addrSizeStruct_spec (le : Bool) (dasz dver asz : Nat) (h : asz = 4 ∨ asz = 8) :
    addrSizeStruct (Spec.dwarfStructs ⟨le, 32, dasz, dver⟩) asz = .ok (.uint asz le) := by
  rcases h with rfl | rfl <;> simp [addrSizeStruct, Spec.dwarfStructs]

theorem readTuples_spec {env : Env} {data : Bytes} {le : Bool} {asz : Nat} {mk : Nat → Nat → AREntry} {rest : Bytes}
    (ts : List ARTuple) (pos fuel : Nat) (acc : List AREntry)
    (hd : data.drop pos = ts.flatMap (encTuple le asz) ++ (encTuple le asz ⟨0, 0⟩ ++ rest))
    (hwf : ∀ t ∈ ts, wfTuple asz t = true) (hf : ts.length + 1 ≤ fuel) :
    ∃ p, readTuples env (.uint asz le) data mk false fuel pos acc
      = .ok (acc ++ ts.map (fun t => mk t.addr t.len), p) :=
  readTuplesG_spec ts pos fuel false acc hd hwf hf


theorem wfSet_iff {le : Bool} {off : Nat} {s : ARSet} :
    wfSet le off s = true ↔ s.version < 256 ^ 2 ∧ s.infoOff < 256 ^ 4 ∧ (s.asz = 4 ∨ s.asz = 8) ∧
      (∀ t ∈ s.tuples, wfTuple s.asz t = true) ∧ setUnitLength le off s < 0xFFFFFF00 := by
  unfold wfSet
  simp only [Bool.and_eq_true, decide_eq_true_eq, Bool.or_eq_true, beq_iff_eq, List.all_eq_true, and_assoc]

theorem seekTo_eq (off asz : Nat) (h : asz = 4 ∨ asz = 8) :
    (off + 12 + asz * 2 - 1) / (asz * 2) * (asz * 2) = off + 12 + padTo (off + 12) (2 * asz) := by
  unfold padTo
  rcases h with rfl | rfl <;> omega

theorem encSets_length_ge (le : Bool) : ∀ (sets : List ARSet) (off : Nat), sets.length ≤ (encSets le off sets).length := by
  intro sets
  induction sets with
  | nil => intro off; simp [encSets]
  | cons s ss ih =>
    intro off
    have := ih (off + (4 + setUnitLength le off s))
    simp only [encSets, encSet, List.length_append, encNat_length, List.length_cons]
    omega

theorem flatMap_encTuple_length (le : Bool) (asz : Nat) (ts : List ARTuple) :
    (ts.flatMap (encTuple le asz)).length = ts.length * (2 * asz) := by
  induction ts with
  | nil => simp
  | cons t ts ih =>
    simp only [List.flatMap_cons, List.length_append, ih, encTuple, encNat_length, List.length_cons]
    rw [Nat.add_mul]; omega

/-- `_get_entries` on a run of sets laid out from offset `off` to the end of the section -/
theorem setsLoop_spec {env : Env} {data : Bytes} {le : Bool} {dasz dver size : Nat} :
    ∀ (sets : List ARSet) (off fuel : Nat) (acc : List AREntry),
      data.drop off = encSets le off sets → off + (encSets le off sets).length = size →
      wfSets le off sets = true → sets.length + 1 ≤ fuel →
      setsLoop env (Spec.dwarfStructs ⟨le, 32, dasz, dver⟩) 32 data size false fuel off acc
        = .ok (acc ++ entriesOf le off sets) := by
  intro sets
  induction sets with
  | nil =>
    intro off fuel acc _ hsz _ hf
    cases fuel with
    | zero => omega
    | succ fuel =>
      simp [encSets] at hsz
      unfold setsLoop
      simp [hsz, entriesOf]
  | cons s ss ih =>
    intro off fuel acc hd hsz hwf hf
    cases fuel with
    | zero => omega
    | succ fuel =>
      simp only [wfSets, Bool.and_eq_true] at hwf
      obtain ⟨hver, hio, hasz, hts, hul⟩ := wfSet_iff.mp hwf.1
      have hlt : off < size := by
        rw [← hsz]; simp only [encSets, encSet, List.length_append, encNat_length]; omega
      -- the pieces of the stream
      have hd0 : data.drop off = encNat le 4 (setUnitLength le off s) ++ (encNat le 2 s.version ++
          (encNat le 4 s.infoOff ++ (encNat le 1 s.asz ++ (encNat le 1 0 ++
            (setTail le off s ++ encSets le (off + (4 + setUnitLength le off s)) ss))))) := by
        rw [hd]; simp [encSets, encSet, setHdrRest, List.append_assoc]
      have hasz' : s.asz < 256 ^ 1 := by rcases hasz with h | h <;> omega
      have hhdr := aranges_header_parse (env := env) (dasz := dasz) (dver := dver) hd0 hul hver hio hasz' (by omega)
      have h12 : data.drop (off + 12) = setTail le off s ++ encSets le (off + (4 + setUnitLength le off s)) ss := by
        have h1 := drop_add_of_drop hd0
        have h2 := drop_add_of_drop h1
        have h3 := drop_add_of_drop h2
        have h4 := drop_add_of_drop h3
        have h5 := drop_add_of_drop h4
        simp only [encNat_length] at h5
        exact h5
      have hseek : data.drop (off + 12 + padTo (off + 12) (2 * s.asz))
          = s.tuples.flatMap (encTuple le s.asz) ++ (encTuple le s.asz ⟨0, 0⟩ ++
              (s.trail ++ encSets le (off + (4 + setUnitLength le off s)) ss)) := by
        have : data.drop (off + 12) = List.replicate (padTo (off + 12) (2 * s.asz)) s.fill ++
            (s.tuples.flatMap (encTuple le s.asz) ++ (encTuple le s.asz ⟨0, 0⟩ ++
              (s.trail ++ encSets le (off + (4 + setUnitLength le off s)) ss))) := by
          rw [h12]; simp [setTail, List.append_assoc]
        have := drop_add_of_drop this
        simpa using this
      have hfuel : s.tuples.length + 1 ≤ data.length + 2 := by
        have h1 := congrArg List.length hseek
        simp only [List.length_drop, List.length_append, flatMap_encTuple_length] at h1
        have : s.tuples.length ≤ s.tuples.length * (2 * s.asz) := by
          rcases hasz with h | h <;> rw [h] <;> omega
        omega
      -- the next set starts where the unit length says
      have hnext : data.drop (off + (4 + setUnitLength le off s)) = encSets le (off + (4 + setUnitLength le off s)) ss := by
        have h1 := drop_add_of_drop h12
        rw [← h1]
        congr 1
        unfold setUnitLength; omega
      have hsz' : off + (4 + setUnitLength le off s) + (encSets le (off + (4 + setUnitLength le off s)) ss).length = size := by
        rw [← hsz]
        simp only [encSets, encSet, List.length_append, encNat_length, setHdrRest, setUnitLength]
        omega
      have hrec := ih (off + (4 + setUnitLength le off s)) fuel
        (acc ++ entriesOfSet le off s) hnext hsz' hwf.2 (by simp at hf; omega)
      obtain ⟨p, hp⟩ := readTuples_spec (env := env) (le := le)
        (mk := fun a l => (⟨a, l, s.infoOff, setUnitLength le off s, s.version, s.asz, 0⟩ : AREntry))
        s.tuples (off + 12 + padTo (off + 12) (2 * s.asz)) (data.length + 2) acc hseek hts hfuel
      unfold setsLoop
      have g1 : ∀ (a b c e : Val), (Val.record [("unit_length", a), ("version", b), ("debug_info_offset", c),
          ("address_size", .int (s.asz : Int)), ("segment_size", e)]).getNat "address_size" = .ok s.asz := by
        intro a b c e
        rw [getNat_skip _ _ _ _ (by decide), getNat_skip _ _ _ _ (by decide), getNat_skip _ _ _ _ (by decide), getNat_hit]
      have g2 : ∀ (a b c d : Val), (Val.record [("unit_length", a), ("version", b), ("debug_info_offset", c),
          ("address_size", d), ("segment_size", .int ((0 : Nat) : Int))]).getNat "segment_size" = .ok 0 := by
        intro a b c d
        rw [getNat_skip _ _ _ _ (by decide), getNat_skip _ _ _ _ (by decide), getNat_skip _ _ _ _ (by decide),
          getNat_skip _ _ _ _ (by decide), getNat_hit]
      have g3 : ∀ (a b d e : Val), (Val.record [("unit_length", a), ("version", b),
          ("debug_info_offset", .int (s.infoOff : Int)), ("address_size", d), ("segment_size", e)]).getNat "debug_info_offset"
            = .ok s.infoOff := by
        intro a b d e
        rw [getNat_skip _ _ _ _ (by decide), getNat_skip _ _ _ _ (by decide), getNat_hit]
      have g4 : ∀ (b c d e : Val), (Val.record [("unit_length", .int (setUnitLength le off s : Int)), ("version", b),
          ("debug_info_offset", c), ("address_size", d), ("segment_size", e)]).getNat "unit_length"
            = .ok (setUnitLength le off s) := by
        intro b c d e
        rw [getNat_hit]
      have g5 : ∀ (a c d e : Val), (Val.record [("unit_length", a), ("version", .int (s.version : Int)),
          ("debug_info_offset", c), ("address_size", d), ("segment_size", e)]).getNat "version" = .ok s.version := by
        intro a c d e
        rw [getNat_skip _ _ _ _ (by decide), getNat_hit]
      simp only [hlt, if_true, hhdr, bind, Except.bind, g1, g2, g3, g4, g5, addrSizeStruct_spec le dasz dver s.asz hasz,
        seekTo_eq off s.asz hasz, hp, initialLengthFieldSize]
      have e1 : off + setUnitLength le off s + 4 = off + (4 + setUnitLength le off s) := by omega
      rw [e1]
      change setsLoop env _ 32 data size false fuel _ (acc ++ entriesOfSet le off s) = _
      rw [hrec]
      simp [entriesOf, List.append_assoc]


/-! ### name tables -/

theorem nameLUT_header_eq (le : Bool) (asz ver : Nat) :
    (Spec.dwarfStructs ⟨le, 32, asz, ver⟩).Dwarf_nameLUT_header
      = .struct (.cons (some "unit_length") false (.initialLength le)
          (.cons (some "version") false (.uint 2 le)
          (.cons (some "debug_info_offset") false (.uint 4 le)
          (.cons (some "debug_info_length") false (.uint 4 le) .nil)))) := by
  simp [Spec.dwarfStructs, Spec.st, Spec.f, Spec.mkFields]

theorem nameLUT_header_parse {env : Env} {data : Bytes} {off : Nat} {le : Bool} {dasz dver ul ver io il : Nat}
    {rest : Bytes}
    (hd : data.drop off = encNat le 4 ul ++ (encNat le 2 ver ++ (encNat le 4 io ++ (encNat le 4 il ++ rest))))
    (hul : ul < 0xFFFFFF00) (hver : ver < 256 ^ 2) (hio : io < 256 ^ 4) (hil : il < 256 ^ 4) :
    structParse env (Spec.dwarfStructs ⟨le, 32, dasz, dver⟩).Dwarf_nameLUT_header data off
      = .ok (.record [("unit_length", .int ul), ("version", .int ver), ("debug_info_offset", .int io),
                      ("debug_info_length", .int il)], off + 14) := by
  have h1 := drop_add_of_drop hd
  have h2 := drop_add_of_drop h1
  have h3 := drop_add_of_drop h2
  simp only [encNat_length] at h1 h2 h3
  have e0 : decNat le (encNat le 4 ul) = ul := decNat_encNat_of_lt le (by omega)
  rw [nameLUT_header_eq, structParse, Con.parse,
    parseFields_initlen32 hd (encNat_length le 4 ul) (by rw [e0]; exact hul),
    parseFields_uint h1 (encNat_length le 2 ver), parseFields_uint h2 (encNat_length le 4 io),
    parseFields_uint h3 (encNat_length le 4 il),
    Con.parseFields, e0, decNat_encNat_of_lt le hver, decNat_encNat_of_lt le hio, decNat_encNat_of_lt le hil]
  simp [bind, Except.bind, pure, Except.pure, Fields.set]

theorem nameEntryStruct_eq (le : Bool) (asz ver : Nat) :
    nameEntryStruct (Spec.dwarfStructs ⟨le, 32, asz, ver⟩)
      = .struct (.cons (some "die_ofs") false (.uint 4 le)
          (.cons (some "name") false (.ifThenElse (.ctx "die_ofs") .cstring (.value .none)) .nil)) := by
  simp [nameEntryStruct, Spec.dwarfStructs]

/-- a (non-zero offset, name) pair -/
theorem nameEntry_parse {env : Env} {data : Bytes} {pos : Nat} {le : Bool} {dasz dver d : Nat} {nm rest : Bytes}
    (hd : data.drop pos = encNat le 4 d ++ (nm ++ [0] ++ rest)) (hd0 : 0 < d) (hdlt : d < 256 ^ 4)
    (hnm : ∀ b ∈ nm, b ≠ 0) :
    structParse env (nameEntryStruct (Spec.dwarfStructs ⟨le, 32, dasz, dver⟩)) data pos
      = .ok (.record [("die_ofs", .int d), ("name", .bytes nm)], pos + 4 + nm.length + 1) := by
  have h1 := drop_add_of_drop hd
  simp only [encNat_length] at h1
  have hne : d ≠ 0 := by omega
  rw [nameEntryStruct_eq, structParse, Con.parse, parseFields_uint hd (encNat_length le 4 d),
    decNat_encNat_of_lt le hdlt, Con.parseFields]
  simp only [Bool.false_eq_true, if_false]
  rw [Con.parse]
  simp [Expr.eval, Fields.getR, Fields.get?, Fields.set, Val.truthy, hne, bind, Except.bind,
    parse_cstring_ok hnm h1, Con.parseFields, pure, Except.pure]

/-- the zero offset that terminates a set: no name follows -/
theorem nameTerm_parse {env : Env} {data : Bytes} {pos : Nat} {le : Bool} {dasz dver : Nat} {rest : Bytes}
    (hd : data.drop pos = encNat le 4 0 ++ rest) :
    structParse env (nameEntryStruct (Spec.dwarfStructs ⟨le, 32, dasz, dver⟩)) data pos
      = .ok (.record [("die_ofs", .int (0 : Nat)), ("name", .none)], pos + 4) := by
  rw [nameEntryStruct_eq, structParse, Con.parse, parseFields_uint hd (encNat_length le 4 0),
    decNat_encNat_of_lt le (by decide), Con.parseFields]
  simp only [Bool.false_eq_true, if_false]
  rw [Con.parse]
  simp [Expr.eval, Fields.getR, Fields.get?, Fields.set, Val.truthy, bind, Except.bind,
    Con.parse, Con.parseFields, pure, Except.pure]


theorem wfNameEntry_iff {e : NameEntry} :
    wfNameEntry e = true ↔ 0 < e.dieOfs ∧ e.dieOfs < 256 ^ 4 ∧ (∀ b ∈ e.name, b ≠ 0) ∧ utf8Valid e.name = true := by
  unfold wfNameEntry
  simp only [Bool.and_eq_true, decide_eq_true_eq, List.all_eq_true, bne_iff_ne, and_assoc]

theorem dictSet_eq_assocSet {V} (d : List (Bytes × V)) (k : Bytes) (v : V) : dictSet d k v = assocSet d k v := by
  induction d with
  | nil => rfl
  | cons p d ih => obtain ⟨k', v'⟩ := p; simp [dictSet, assocSet, ih]

/-- the pairs of one set, added to the dictionary in encoded order -/
def addSet (d : NameDict) (cuOfs : Nat) (es : List NameEntry) : NameDict :=
  es.foldl (fun d e => dictSet d e.name (cuOfs, cuOfs + e.dieOfs)) d

theorem nameEntryLoop_spec {env : Env} {data : Bytes} {le : Bool} {dasz dver cuOfs : Nat} {rest : Bytes} :
    ∀ (es : List NameEntry) (pos fuel : Nat) (d : NameDict),
      data.drop pos = es.flatMap (encNameEntry le) ++ (encNat le 4 0 ++ rest) →
      (∀ e ∈ es, wfNameEntry e = true) → es.length + 1 ≤ fuel →
      ∃ p, nameEntryLoop env (Spec.dwarfStructs ⟨le, 32, dasz, dver⟩) data cuOfs fuel pos d
        = .ok (addSet d cuOfs es, p) := by
  intro es
  induction es with
  | nil =>
    intro pos fuel d hd _ hf
    cases fuel with
    | zero => omega
    | succ fuel =>
      simp only [List.flatMap_nil, List.nil_append] at hd
      refine ⟨pos + 4, ?_⟩
      unfold nameEntryLoop
      simp only [nameTerm_parse hd, bind, Except.bind]
      rw [getNat_hit]
      simp [addSet, pure, Except.pure]
  | cons e es ih =>
    intro pos fuel d hd hwf hf
    cases fuel with
    | zero => omega
    | succ fuel =>
      obtain ⟨h0, hlt, hnul, hutf⟩ := wfNameEntry_iff.mp (hwf e List.mem_cons_self)
      have hd' : data.drop pos = encNat le 4 e.dieOfs ++ (e.name ++ [0] ++
          (es.flatMap (encNameEntry le) ++ (encNat le 4 0 ++ rest))) := by
        rw [hd]; simp [encNameEntry, List.append_assoc]
      have h1 := drop_add_of_drop hd'
      have h2 := drop_add_of_drop h1
      simp only [encNat_length, List.length_append, List.length_cons, List.length_nil] at h2
      have h2' : data.drop (pos + 4 + e.name.length + 1)
          = es.flatMap (encNameEntry le) ++ (encNat le 4 0 ++ rest) := by
        rw [← h2]; congr 1
      obtain ⟨p, hp⟩ := ih (pos + 4 + e.name.length + 1) fuel (dictSet d e.name (cuOfs, cuOfs + e.dieOfs)) h2'
        (fun x hx => hwf x (List.mem_cons_of_mem _ hx)) (by simp at hf; omega)
      refine ⟨p, ?_⟩
      unfold nameEntryLoop
      simp only [nameEntry_parse hd' h0 hlt hnul, bind, Except.bind]
      rw [getNat_hit]
      have hne : e.dieOfs ≠ 0 := by omega
      simp only [hne, if_false, Val.getField, Fields.getR, Fields.get?]
      simp [hutf, hp, addSet]


theorem wfNameSet_iff {le : Bool} {s : NameSet} :
    wfNameSet le s = true ↔ s.version < 256 ^ 2 ∧ s.infoOff < 256 ^ 4 ∧ s.infoLen < 256 ^ 4 ∧
      (∀ e ∈ s.entries, wfNameEntry e = true) ∧ nameUnitLength le s < 0xFFFFFF00 := by
  unfold wfNameSet
  simp only [Bool.and_eq_true, decide_eq_true_eq, List.all_eq_true, and_assoc]

theorem encNameSet_length (le : Bool) (s : NameSet) : (encNameSet le s).length = 4 + nameUnitLength le s := by
  simp only [encNameSet, nameUnitLength, nameHdrRest, List.length_append, encNat_length]

theorem flatMap_encNameEntry_length_ge (le : Bool) (es : List NameEntry) :
    es.length ≤ (es.flatMap (encNameEntry le)).length := by
  induction es with
  | nil => simp
  | cons e es ih =>
    simp only [List.flatMap_cons, List.length_append, encNameEntry, encNat_length, List.length_cons]; omega

/-- all sets, added in encoded order -/
def addSets (d : NameDict) : List NameSet → NameDict
  | [] => d
  | s :: ss => addSets (addSet d s.infoOff s.entries) ss

theorem nameSetsLoop_spec {env : Env} {data : Bytes} {le : Bool} {dasz dver size : Nat} :
    ∀ (sets : List NameSet) (off fuel : Nat) (d : NameDict) (hdrs : List Val),
      data.drop off = encNameSets le sets → off + (encNameSets le sets).length = size →
      (∀ s ∈ sets, wfNameSet le s = true) → sets.length + 1 ≤ fuel →
      nameSetsLoop env (Spec.dwarfStructs ⟨le, 32, dasz, dver⟩) 32 data size fuel off d hdrs
        = .ok (addSets d sets, hdrs ++ sets.map (nameHdrVal le)) := by
  intro sets
  induction sets with
  | nil =>
    intro off fuel d hdrs _ hsz _ hf
    cases fuel with
    | zero => omega
    | succ fuel =>
      simp [encNameSets] at hsz
      unfold nameSetsLoop
      simp [hsz, addSets]
  | cons s ss ih =>
    intro off fuel d hdrs hd hsz hwf hf
    cases fuel with
    | zero => omega
    | succ fuel =>
      obtain ⟨hver, hio, hil, hes, hul⟩ := wfNameSet_iff.mp (hwf s List.mem_cons_self)
      have hcons : encNameSets le (s :: ss) = encNameSet le s ++ encNameSets le ss := by
        simp [encNameSets]
      have hlt : off < size := by
        rw [← hsz, hcons, List.length_append, encNameSet_length]; omega
      have hd0 : data.drop off = encNat le 4 (nameUnitLength le s) ++ (encNat le 2 s.version ++
          (encNat le 4 s.infoOff ++ (encNat le 4 s.infoLen ++
            (nameSetTail le s ++ encNameSets le ss)))) := by
        rw [hd, hcons]; simp [encNameSet, nameHdrRest, List.append_assoc]
      have hhdr := nameLUT_header_parse (env := env) (dasz := dasz) (dver := dver) hd0 hul hver hio hil
      have h14 : data.drop (off + 14) = nameSetTail le s ++ encNameSets le ss := by
        have h1 := drop_add_of_drop hd0
        have h2 := drop_add_of_drop h1
        have h3 := drop_add_of_drop h2
        have h4 := drop_add_of_drop h3
        simp only [encNat_length] at h4
        exact h4
      have hent : data.drop (off + 14) = s.entries.flatMap (encNameEntry le) ++ (encNat le 4 0 ++ encNameSets le ss) := by
        rw [h14]; simp [nameSetTail, List.append_assoc]
      have hfuel : s.entries.length + 1 ≤ data.length + 1 := by
        have h1 := congrArg List.length hent
        simp only [List.length_drop, List.length_append] at h1
        have := flatMap_encNameEntry_length_ge le s.entries
        omega
      have hnext : data.drop (off + (4 + nameUnitLength le s)) = encNameSets le ss := by
        have h1 := drop_add_of_drop h14
        rw [← h1]; congr 1
        unfold nameUnitLength; omega
      have hsz' : off + (4 + nameUnitLength le s) + (encNameSets le ss).length = size := by
        rw [← hsz, hcons, List.length_append, encNameSet_length]; omega
      obtain ⟨p, hp⟩ := nameEntryLoop_spec (env := env) (dasz := dasz) (dver := dver) (cuOfs := s.infoOff)
        s.entries (off + 14) (data.length + 1) d hent hes hfuel
      have hrec := ih (off + (4 + nameUnitLength le s)) fuel (addSet d s.infoOff s.entries)
        (hdrs ++ [nameHdrVal le s]) hnext hsz' (fun x hx => hwf x (List.mem_cons_of_mem _ hx)) (by simp at hf; omega)
      have g1 : ∀ (b c e : Val), (Val.record [("unit_length", .int (nameUnitLength le s : Int)), ("version", b),
          ("debug_info_offset", c), ("debug_info_length", e)]).getNat "unit_length" = .ok (nameUnitLength le s) := by
        intro b c e; rw [getNat_hit]
      have g2 : ∀ (a b e : Val), (Val.record [("unit_length", a), ("version", b),
          ("debug_info_offset", .int (s.infoOff : Int)), ("debug_info_length", e)]).getNat "debug_info_offset"
            = .ok s.infoOff := by
        intro a b e
        rw [getNat_skip _ _ _ _ (by decide), getNat_skip _ _ _ _ (by decide), getNat_hit]
      unfold nameSetsLoop
      simp only [hlt, if_true, hhdr, bind, Except.bind, g1, g2, hp, initialLengthFieldSize]
      have e1 : off + nameUnitLength le s + 4 = off + (4 + nameUnitLength le s) := by omega
      rw [e1]
      change nameSetsLoop env _ 32 data size fuel _ (addSet d s.infoOff s.entries) (hdrs ++ [nameHdrVal le s]) = _
      rw [hrec]
      simp [addSets, List.append_assoc]

theorem addSet_eq (d : NameDict) (cu : Nat) (es : List NameEntry) :
    addSet d cu es = (es.map fun e => (e.name, cu, cu + e.dieOfs)).foldl (fun d p => assocSet d p.1 p.2) d := by
  unfold addSet
  rw [List.foldl_map]
  congr 1
  funext d e
  exact dictSet_eq_assocSet _ _ _

theorem addSets_eq : ∀ (sets : List NameSet) (d : NameDict),
    addSets d sets = (namePairs sets).foldl (fun d p => assocSet d p.1 p.2) d := by
  intro sets
  induction sets with
  | nil => intro d; simp [addSets, namePairs]
  | cons s ss ih =>
    intro d
    have : namePairs (s :: ss) = (s.entries.map fun e => (e.name, s.infoOff, s.infoOff + e.dieOfs)) ++ namePairs ss := by
      simp [namePairs]
    rw [this, List.foldl_append, ← addSet_eq, addSets, ih]

end PyElf.Proofs.Lookup
