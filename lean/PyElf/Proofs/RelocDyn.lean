/-
  Helper lemmas for C08, part 6: the dynamic array (`Elf_Dyn` entries up to DT_NULL),
  `Dynamic.get_relocation_tables` against `Spec.RelocDyn.dynTablesStd`, and
  `find_relocations_for_section` against `Spec.RelocDyn.relocSectionFor`.
-/
import PyElf.Proofs.Reloc
import PyElf.Proofs.Relr
namespace PyElf.Proofs.RelocDyn
open PyElf PyElf.Spec PyElf.Spec.RelocDyn PyElf.Model PyElf.Model.Reloc PyElf.Proofs PyElf.Proofs.Reloc
set_option linter.unusedSimpArgs false

/-! ### the enum environment, as far as relocation-related tags go -/

/-- the environment names the relocation-related tags as the gABI does, and nothing else by those names -/
def DTagEnv (env : Env) (tbl : String) : Prop :=
  ∀ p ∈ relDynTags, ∀ n : Int, env.enumDecode tbl n = some p.1 ↔ n = p.2

/-- how `Enum(..., default=Pass)` presents a tag number -/
def dtagVal (env : Env) (tbl : String) (t : Int) : Val :=
  match env.enumDecode tbl t with
  | some s => .str s
  | none => .int t

theorem str_beq (a b : String) : (Val.str a == Val.str b) = (a == b) := rfl
theorem int_beq_str (a : Int) (b : String) : (Val.int a == Val.str b) = false := rfl

theorem dtagVal_beq {env : Env} {tbl : String} (henv : DTagEnv env tbl) {name : String} {k : Int}
    (hp : (name, k) ∈ relDynTags) (t : Int) : (dtagVal env tbl t == Val.str name) = (t == k) := by
  have h := henv _ hp t
  simp only at h
  unfold dtagVal
  cases hd : env.enumDecode tbl t with
  | none =>
    rw [int_beq_str]
    have : t ≠ k := fun e => by rw [h.2 e] at hd; cases hd
    simp [this]
  | some s =>
    rw [str_beq]
    rw [hd] at h
    by_cases e : t = k
    · have := h.2 e
      simp only [Option.some.injEq] at this
      simp [e, this]
    · have : s ≠ name := fun e' => e (h.1 (by rw [e']))
      rw [beq_eq_false_iff_ne.mpr this, beq_eq_false_iff_ne.mpr e]

/-! ### one `Elf_Dyn` entry -/

theorem spec_Elf_Dyn (c : ElfCfg) :
    (Spec.elfStructs c).Elf_Dyn
      = st [f "d_tag" (.enum (.sint (c.cls / 8) c.le) (dTagTable c.mclass c.solaris) true),
            f "d_val" (.uint (c.cls / 8) c.le), f "d_ptr" (.value (ctx "d_val"))] := rfl

def dynEntSize (cls : Nat) : Nat := 2 * (cls / 8)

theorem sizeof_dyn (cfg : ElfCfg) : conSizeof (Spec.elfStructs cfg).Elf_Dyn = .ok (dynEntSize cfg.cls) := by
  simp [spec_Elf_Dyn, st, f, mkFields, conSizeof, fieldsSizeof, dynEntSize, bind, Except.bind, pure, Except.pure]
  omega

theorem encDyn_length (le : Bool) (cls : Nat) (e : DynEntry) : (encDyn le cls e).length = dynEntSize cls := by
  simp [encDyn, encNat_length, dynEntSize]; omega

/-- the observation of one entry -/
def obsDyn (env : Env) (tbl : String) (e : DynEntry) : Val :=
  .record [("d_tag", dtagVal env tbl e.1), ("d_val", .int e.2), ("d_ptr", .int e.2)]

theorem parse_enum_sint {env : Env} {data : Bytes} {pos w cls : Nat} {le : Bool} {cx : Fields} {tbl : String}
    {t : Int} {rest : Bytes} (hb : 8 * w = cls) (hw : 1 ≤ w)
    (hlo : -((2 ^ (cls - 1) : Nat) : Int) ≤ t) (hhi : t < ((2 ^ (cls - 1) : Nat) : Int))
    (hd : data.drop pos = encNat le w (ofSigned cls t) ++ rest) :
    Con.parse env data (.enum (.sint w le) tbl true) cx pos = .ok (dtagVal env tbl t, pos + w, cx) := by
  subst hb
  rw [Con.parse, parse_sint_ok hd (encNat_length le w _), sint_codec le w t hw hlo hhi]
  simp only [bind, Except.bind, dtagVal]
  cases env.enumDecode tbl t <;> rfl

theorem parse_dyn_entry (cfg : ElfCfg) (hcls : cfg.cls = 32 ∨ cfg.cls = 64) (env : Env) (e : DynEntry)
    (hwf : WFDyn cfg.cls e = true) {data : Bytes} {pos : Nat} {rest : Bytes}
    (hd : data.drop pos = encDyn cfg.le cfg.cls e ++ rest) :
    structParse env (Spec.elfStructs cfg).Elf_Dyn data pos
      = .ok (obsDyn env (dTagTable cfg.mclass cfg.solaris) e, pos + dynEntSize cfg.cls) := by
  simp only [WFDyn, Bool.and_eq_true, decide_eq_true_eq] at hwf
  obtain ⟨⟨hlo, hhi⟩, hv⟩ := hwf
  have hw : 1 ≤ cfg.cls / 8 ∧ 8 * (cfg.cls / 8) = cfg.cls := by rcases hcls with h | h <;> simp [h]
  simp only [encDyn, List.append_assoc] at hd
  have hd1 := drop_next hd
  have hv' : e.2 < 256 ^ (cfg.cls / 8) := by
    rw [show (256 : Nat) = 2 ^ 8 from rfl, ← Nat.pow_mul, hw.2]; exact hv
  have key : Con.parseFields env data
      (mkFields [f "d_tag" (.enum (.sint (cfg.cls / 8) cfg.le) (dTagTable cfg.mclass cfg.solaris) true),
            f "d_val" (.uint (cfg.cls / 8) cfg.le), f "d_ptr" (.value (ctx "d_val"))]) [] [] pos
      = .ok ([("d_tag", dtagVal env (dTagTable cfg.mclass cfg.solaris) e.1), ("d_val", .int e.2), ("d_ptr", .int e.2)],
             pos + cfg.cls / 8 + cfg.cls / 8,
             [("d_tag", dtagVal env (dTagTable cfg.mclass cfg.solaris) e.1), ("d_val", .int e.2), ("d_ptr", .int e.2)]) := by
    simp only [mkFields, f]
    rw [Reloc.parseFields_named, parse_enum_sint hw.2 hw.1 hlo hhi hd]
    simp only [Fields.set]
    rw [Reloc.parseFields_named, parse_uint_at hd1 hv']
    simp only [Fields.set, String.reduceEq, ↓reduceIte]
    rw [Reloc.parseFields_named, parse_value]
    simp only [ctx, Expr.eval, Fields.getR, Fields.get?, String.reduceEq, ↓reduceIte, Fields.set]
    rw [parseFields_nil]
  rw [spec_Elf_Dyn, st, structParse_struct env _ data pos key]
  simp [obsDyn, dynEntSize]; omega

theorem dynArray_drop (le : Bool) (cls : Nat) {data rest : Bytes} :
    ∀ (es : List DynEntry) (n pos : Nat) (h : n < es.length),
      data.drop pos = encDynArray le cls es ++ rest →
      data.drop (pos + n * dynEntSize cls) = encDyn le cls es[n] ++ (encDynArray le cls (es.drop (n + 1)) ++ rest) := by
  intro es
  induction es with
  | nil => intro n pos h; simp at h
  | cons e es ih =>
    intro n pos h hd
    have hd' : data.drop pos = encDyn le cls e ++ (encDynArray le cls es ++ rest) := by
      rw [hd]; simp [encDynArray, List.append_assoc]
    cases n with
    | zero => simpa [encDynArray] using hd'
    | succ k =>
      have hnext : data.drop (pos + dynEntSize cls) = encDynArray le cls es ++ rest := by
        have := drop_add_of_drop hd'
        rwa [encDyn_length] at this
      have := ih k (pos + dynEntSize cls) (by simpa using h) hnext
      have e1 : pos + (k + 1) * dynEntSize cls = pos + dynEntSize cls + k * dynEntSize cls := by
        rw [Nat.succ_mul]; omega
      rw [e1]
      simpa using this

theorem encDynArray_length (le : Bool) (cls : Nat) (es : List DynEntry) :
    (encDynArray le cls es).length = es.length * dynEntSize cls := by
  induction es with
  | nil => simp [encDynArray]
  | cons e es ih =>
    simp only [encDynArray, List.flatMap_cons, List.length_append, List.length_cons] at ih ⊢
    rw [ih, encDyn_length, Nat.succ_mul]; omega

/-! ### `_iter_tags` to completion -/

/-- the decoded tag list the model carries -/
def decTags (env : Env) (tbl : String) (es : List DynEntry) : List (Val × Nat) :=
  es.map fun e => (dtagVal env tbl e.1, e.2)

theorem obsDyn_tag (env : Env) (tbl : String) (e : DynEntry) : (obsDyn env tbl e).getField "d_tag" = .ok (dtagVal env tbl e.1) := by
  simp [obsDyn, Val.getField, Fields.getR, Fields.get?]

theorem obsDyn_val (env : Env) (tbl : String) (e : DynEntry) : (obsDyn env tbl e).getNat "d_val" = .ok e.2 := by
  simp [obsDyn, Val.getNat, Val.getField, Fields.getR, Fields.get?, Val.asNat, Val.asInt, bind, Except.bind]

/-- the loop reads entry after entry and stops at (and includes) the first DT_NULL -/
theorem iterTagsLoop_spec (cfg : ElfCfg) (hcls : cfg.cls = 32 ∨ cfg.cls = 64) (env : Env)
    (henv : DTagEnv env (dTagTable cfg.mclass cfg.solaris)) (tags : List DynEntry) (nv : Nat)
    (hwf : ∀ e ∈ tags ++ [(DT_NULL, nv)], WFDyn cfg.cls e = true) (hnn : ∀ e ∈ tags, e.1 ≠ DT_NULL)
    {data rest : Bytes} {off : Nat}
    (hd : data.drop off = encDynArray cfg.le cfg.cls (tags ++ [(DT_NULL, nv)]) ++ rest)
    (hfit : off + (tags.length + 1) * dynEntSize cfg.cls ≤ 2 ^ 63) :
    ∀ (k fuel n : Nat), n + k = tags.length → k < fuel →
      iterTagsLoop env (Spec.elfStructs cfg) data off (dynEntSize cfg.cls) fuel n
        = .ok (decTags env (dTagTable cfg.mclass cfg.solaris) (tags.drop n ++ [(DT_NULL, nv)])) := by
  have hpos : 0 < dynEntSize cfg.cls := by rcases hcls with h | h <;> simp [dynEntSize, h]
  have hnull := dtagVal_beq henv (name := "DT_NULL") (k := DT_NULL) (by simp [relDynTags])
  have step : ∀ n (hn : n < (tags ++ [(DT_NULL, nv)]).length),
      seekParse env (Spec.elfStructs cfg).Elf_Dyn data (off + n * dynEntSize cfg.cls)
        = .ok (obsDyn env (dTagTable cfg.mclass cfg.solaris) (tags ++ [(DT_NULL, nv)])[n]) := by
    intro n hn
    have hdn := dynArray_drop cfg.le cfg.cls _ n off hn hd
    have hlt : off + n * dynEntSize cfg.cls < 2 ^ 63 := by
      simp only [List.length_append, List.length_cons, List.length_nil] at hn
      have : (n + 1) * dynEntSize cfg.cls ≤ (tags.length + 1) * dynEntSize cfg.cls := Nat.mul_le_mul_right _ hn
      rw [Nat.succ_mul] at this
      omega
    have hp := parse_dyn_entry cfg hcls env _ (hwf _ (List.getElem_mem hn)) hdn
    unfold seekParse
    rw [if_neg (by omega), hp]
    rfl
  intro k
  induction k with
  | zero =>
    intro fuel n hn hf
    obtain ⟨fuel, rfl⟩ : ∃ f', fuel = f' + 1 := ⟨fuel - 1, by omega⟩
    have hlen : n < (tags ++ [(DT_NULL, nv)]).length := by simp; omega
    have hget : (tags ++ [(DT_NULL, nv)])[n] = (DT_NULL, nv) := by
      rw [List.getElem_append_right (by omega)]; simp
    rw [iterTagsLoop, step n hlen, hget]
    simp only [bind, Except.bind, obsDyn_tag, obsDyn_val, hnull, BEq.rfl, ↓reduceIte, pure, Except.pure]
    rw [List.drop_eq_nil_of_le (by omega)]
    rfl
  | succ k ih =>
    intro fuel n hn hf
    obtain ⟨fuel, rfl⟩ : ∃ f', fuel = f' + 1 := ⟨fuel - 1, by omega⟩
    have hlt : n < tags.length := by omega
    have hlen : n < (tags ++ [(DT_NULL, nv)]).length := by simp; omega
    have hget : (tags ++ [(DT_NULL, nv)])[n] = tags[n] := List.getElem_append_left hlt
    have hne : (tags[n].1 == DT_NULL) = false := by simpa using hnn _ (List.getElem_mem hlt)
    rw [iterTagsLoop, step n hlen, hget]
    simp only [bind, Except.bind, obsDyn_tag, obsDyn_val, hnull, hne, Bool.false_eq_true, ↓reduceIte]
    rw [ih fuel (n + 1) (by omega) (by omega), List.drop_eq_getElem_cons hlt]
    rfl

theorem iterTags_spec (cfg : ElfCfg) (hcls : cfg.cls = 32 ∨ cfg.cls = 64) (env : Env)
    (henv : DTagEnv env (dTagTable cfg.mclass cfg.solaris)) (tags : List DynEntry) (nv : Nat)
    (hwf : ∀ e ∈ tags ++ [(DT_NULL, nv)], WFDyn cfg.cls e = true) (hnn : ∀ e ∈ tags, e.1 ≠ DT_NULL)
    {data rest : Bytes} {off : Nat}
    (hd : data.drop off = encDynArray cfg.le cfg.cls (tags ++ [(DT_NULL, nv)]) ++ rest)
    (hfit : off + (tags.length + 1) * dynEntSize cfg.cls ≤ 2 ^ 63) :
    iterTags env (Spec.elfStructs cfg) data off false
      = .ok (decTags env (dTagTable cfg.mclass cfg.solaris) (tags ++ [(DT_NULL, nv)])) := by
  have hpos : 0 < dynEntSize cfg.cls := by rcases hcls with h | h <;> simp [dynEntSize, h]
  have hlen : (tags.length + 1) * dynEntSize cfg.cls ≤ data.length := by
    have h1 := length_of_drop hd
    rw [List.length_append, encDynArray_length] at h1
    simp only [List.length_append, List.length_cons, List.length_nil, Nat.zero_add] at h1
    omega
  have hle : tags.length + 1 ≤ (tags.length + 1) * dynEntSize cfg.cls := Nat.le_mul_of_pos_right _ hpos
  unfold iterTags
  simp only [Bool.false_eq_true, ↓reduceIte, sizeof_dyn, bind, Except.bind]
  have := iterTagsLoop_spec cfg hcls env henv tags nv hwf hnn hd hfit tags.length (data.length + 2) 0 (by omega) (by omega)
  rw [List.drop_zero] at this
  exact this

/-! ### `get_relocation_tables` -/

/-- the values of the entries tagged `k` -/
def dynVals (es : List DynEntry) (k : Int) : List Nat := (es.filter (fun e => e.1 == k)).map (·.2)

theorem tagsOf_dec {env : Env} {tbl : String} (henv : DTagEnv env tbl) {name : String} {k : Int}
    (hp : (name, k) ∈ relDynTags) (es : List DynEntry) : tagsOf (decTags env tbl es) name = dynVals es k := by
  unfold tagsOf decTags dynVals
  rw [List.filter_map, List.map_map]
  have : ((fun t : Val × Nat => t.1 == Val.str name) ∘ fun e : DynEntry => (dtagVal env tbl e.1, e.2))
      = fun e : DynEntry => e.1 == k := by
    funext e
    exact dtagVal_beq henv hp e.1
  rw [this]
  rfl

theorem describes_filter {c : RelCfg} {d : DynRelocs} {tags : List DynEntry} (h : DynDescribes c d tags = true)
    {name : String} {k : Int} (hp : (name, k) ∈ relDynTags) :
    tags.filter (fun e => e.1 == k) = (dynRelEntries c d).filter (fun e => e.1 == k) := by
  simp only [DynDescribes, List.all_eq_true, beq_iff_eq] at h
  exact h _ hp

/-- what the model sees of every relocation-related tag (other than DT_NULL) in the decoded array -/
theorem tagsOf_described {env : Env} {tbl : String} (henv : DTagEnv env tbl) {c : RelCfg} {d : DynRelocs}
    {tags : List DynEntry} (h : DynDescribes c d tags = true) (nv : Nat) {name : String} {k : Int}
    (hp : (name, k) ∈ relDynTags) (hk : k ≠ DT_NULL) :
    tagsOf (decTags env tbl (tags ++ [(DT_NULL, nv)])) name = dynVals (dynRelEntries c d) k := by
  rw [tagsOf_dec henv hp]
  unfold dynVals
  rw [List.filter_append, describes_filter h hp]
  have : ([(DT_NULL, nv)] : List DynEntry).filter (fun e => e.1 == k) = [] := by
    have hb : (DT_NULL == k) = false := beq_eq_false_iff_ne.mpr (Ne.symm hk)
    simp [List.filter, hb]
  rw [this, List.append_nil]

def toLoad (s : LoadSeg) : Load := (s.vaddr, s.filesz, s.offset)

theorem addressOffset_spec (loads : List LoadSeg) (a : Nat) : addressOffset (loads.map toLoad) a = fileOffset loads a := by
  unfold addressOffset fileOffset
  rw [List.find?_map]
  cases h : List.find? ((fun x : Load => decide (a ≥ x.1) && decide (a + 1 ≤ x.1 + x.2.1)) ∘ toLoad) loads with
  | none =>
    have : List.find? (fun s : LoadSeg => s.holds a) loads = none := h
    simp [this]
  | some s =>
    have : List.find? (fun s : LoadSeg => s.holds a) loads = some s := h
    simp [this, toLoad]

theorem dtRela_val : genEnumValue "ENUM_D_TAG" "DT_RELA" = some 7 := by decide +kernel

/-- the RELR table object over the standard's structs -/
def specRelr (cfg : ElfCfg) (off : Option Nat) (size : Nat) : RelrTable :=
  { offset := off, size := size, relrStruct := (Spec.elfStructs cfg).Elf_Relr, entrySize := cfg.cls / 8,
    addrSize := cfg.cls / 8 }

/-- the table objects `get_relocation_tables` must build for `d` -/
def specDynTables (cfg : ElfCfg) (loads : List LoadSeg) (d : DynRelocs) : List (String × DynTable) :=
  (match d.rel with
   | some t => [("REL", .rel (specTable cfg (fileOffset loads t.addr) t.size false))]
   | none => []) ++
  (match d.rela with
   | some t => [("RELA", .rel (specTable cfg (fileOffset loads t.addr) t.size true))]
   | none => []) ++
  (match d.relr with
   | some t => [("RELR", .relr (specRelr cfg (fileOffset loads t.addr) t.size))]
   | none => []) ++
  (match d.jmprel with
   | some (t, rela) => [("JMPREL", .rel (specTable cfg (fileOffset loads t.addr) t.size rela))]
   | none => [])

/-- what the API shows of a table object -/
def obsDynTable : DynTable → DynTableObs
  | .rel t => .rel t.offset t.size t.entrySize t.isRela
  | .relr t => .relr t.offset t.size t.entrySize

theorem specDynTables_obs (cfg : ElfCfg) (loads : List LoadSeg) (d : DynRelocs) :
    (specDynTables cfg loads d).map (fun p => (p.1, obsDynTable p.2)) = dynTablesStd (relCfgOf cfg) loads d := by
  obtain ⟨r, ra, rr, j⟩ := d
  cases r <;> cases ra <;> cases rr <;> cases j <;>
    simp [specDynTables, dynTablesStd, obsDynTable, specTable, specRelr, RelCfg.w, relCfgOf]

theorem relrInit_spec' (cfg : ElfCfg) (off : Option Nat) (size : Nat) :
    relrInit (Spec.elfStructs cfg) off size (cfg.cls / 8) = .ok (specRelr cfg off size) := by
  unfold relrInit
  simp [spec_Elf_Relr, spec_Elf_addr, st, f, mkFields, conSizeof, fieldsSizeof, bind, Except.bind, pure, Except.pure,
    specRelr]

theorem specTable_entrySize (cfg : ElfCfg) (o : Option Nat) (sz : Nat) (r : Bool) :
    (specTable cfg o sz r).entrySize = relEntSize (relCfgOf cfg) r := rfl

theorem getRelocationTables_spec (cfg : ElfCfg) (hcls : cfg.cls = 32 ∨ cfg.cls = 64) (ts : List (Val × Nat))
    (loads : List LoadSeg) (d : DynRelocs)
    (h : ∀ name k, (name, k) ∈ relDynTags → k ≠ DT_NULL →
      tagsOf ts name = dynVals (dynRelEntries (relCfgOf cfg) d) k) :
    getRelocationTables (Spec.elfStructs cfg) ts (loads.map toLoad) = .ok (specDynTables cfg loads d) := by
  have h1 := h "DT_PLTRELSZ" DT_PLTRELSZ (by simp [relDynTags]) (by decide)
  have h2 := h "DT_RELA" DT_RELA (by simp [relDynTags]) (by decide)
  have h3 := h "DT_RELASZ" DT_RELASZ (by simp [relDynTags]) (by decide)
  have h4 := h "DT_RELAENT" DT_RELAENT (by simp [relDynTags]) (by decide)
  have h5 := h "DT_REL" DT_REL (by simp [relDynTags]) (by decide)
  have h6 := h "DT_RELSZ" DT_RELSZ (by simp [relDynTags]) (by decide)
  have h7 := h "DT_RELENT" DT_RELENT (by simp [relDynTags]) (by decide)
  have h8 := h "DT_PLTREL" DT_PLTREL (by simp [relDynTags]) (by decide)
  have h9 := h "DT_JMPREL" DT_JMPREL (by simp [relDynTags]) (by decide)
  have h10 := h "DT_RELRSZ" DT_RELRSZ (by simp [relDynTags]) (by decide)
  have h11 := h "DT_RELR" DT_RELR (by simp [relDynTags]) (by decide)
  have h12 := h "DT_RELRENT" DT_RELRENT (by simp [relDynTags]) (by decide)
  clear h
  obtain ⟨r, ra, rr, j⟩ := d
  have hww : (relCfgOf cfg).w = cfg.cls / 8 := rfl
  rcases r with _ | r <;> rcases ra with _ | ra <;> rcases rr with _ | rr <;> rcases j with _ | ⟨j, _ | _⟩
  all_goals
    simp only [dynVals, dynRelEntries, DT_NULL, DT_PLTRELSZ, DT_RELA, DT_RELASZ, DT_RELAENT, DT_REL, DT_RELSZ, DT_RELENT,
      DT_PLTREL, DT_JMPREL, DT_RELRSZ, DT_RELR, DT_RELRENT, List.append_nil, List.nil_append, List.cons_append,
      List.filter_cons, List.filter_nil, Int.reduceBEq, Bool.false_eq_true, ↓reduceIte, List.map_cons, List.map_nil,
      Int.reduceToNat]
      at h1 h2 h3 h4 h5 h6 h7 h8 h9 h10 h11 h12
    unfold getRelocationTables
    simp only [firstTag, tableOffset, h1, h2, h3, h4, h5, h6, h7, h8, h9, h10, h11, h12, dtRela_val, List.isEmpty_cons,
      List.isEmpty_nil, Bool.not_false, Bool.not_true, Bool.false_eq_true, ↓reduceIte, bind, Except.bind, pure,
      Except.pure, mkTable_spec cfg hcls, relrInit_spec', addressOffset_spec, hww, specDynTables,
      List.append_nil, List.nil_append, List.cons_append, ne_eq, not_false_eq_true, not_true_eq_false,
      specTable_entrySize]
  all_goals rfl

/-! ### the regenerated enum tables name the relocation-related tags as the gABI does -/

theorem decodeIn_mem (t : List (String × Int)) (v : Int) (k : String) (h : decodeIn t v = some k) : (k, v) ∈ t := by
  unfold decodeIn at h
  have gen : ∀ (t : List (String × Int)) (acc : Option String),
      t.foldl (fun acc (p : String × Int) => if p.2 = v then some p.1 else acc) acc = some k →
      (k, v) ∈ t ∨ acc = some k := by
    intro t
    induction t with
    | nil => intro acc h; exact Or.inr h
    | cons p ps ih =>
      intro acc h
      rw [List.foldl_cons] at h
      rcases ih _ h with h' | h'
      · exact Or.inl (List.mem_cons_of_mem _ h')
      · by_cases e : p.2 = v
        · rw [if_pos e] at h'
          cases h'
          exact Or.inl (by rw [← e]; exact List.mem_cons_self)
        · rw [if_neg e] at h'
          exact Or.inr h'
  rcases gen t none h with h' | h'
  · exact h'
  · cases h'

/-- decidable check of one table: every relocation-related number decodes to its name, and every entry carrying one
    of those names has that number -/
def tableNamesOk (t : List (String × Int)) : Bool :=
  relDynTags.all fun p => decodeIn t p.2 == some p.1 && t.all fun e => e.1 != p.1 || e.2 == p.2

theorem dtagEnv_of_table {tbl : String} {t : List (String × Int)} {b : Bool}
    (hfind : Gen.tables.find? (·.1 == tbl) = some (tbl, t, b)) (hok : tableNamesOk t = true) :
    DTagEnv elfEnv tbl := by
  intro p hp n
  simp only [tableNamesOk, List.all_eq_true, Bool.and_eq_true, beq_iff_eq, Bool.or_eq_true, bne_iff_ne, ne_eq] at hok
  obtain ⟨h1, h2⟩ := hok p hp
  show genEnumDecode tbl n = some p.1 ↔ n = p.2
  unfold genEnumDecode
  rw [hfind]
  constructor
  · intro h
    have hm := decodeIn_mem t n p.1 h
    rcases h2 _ hm with h' | h'
    · exact absurd rfl h'
    · exact h'
  · intro h
    rw [h]; exact h1

/-- the same check, looking the table up by its id in the regenerated registry -/
def envNamesOk (tbl : String) : Bool :=
  match Gen.tables.find? (·.1 == tbl) with
  | some (_, t, _) => tableNamesOk t
  | none => false

theorem dtagEnv_of_check {tbl : String} (h : envNamesOk tbl = true) : DTagEnv elfEnv tbl := by
  unfold envNamesOk at h
  intro p hp n
  show genEnumDecode tbl n = some p.1 ↔ n = p.2
  unfold genEnumDecode
  cases hf : Gen.tables.find? (·.1 == tbl) with
  | none => rw [hf] at h; cases h
  | some x =>
    obtain ⟨nm, t, b⟩ := x
    rw [hf] at h
    simp only [tableNamesOk, List.all_eq_true, Bool.and_eq_true, beq_iff_eq, Bool.or_eq_true, bne_iff_ne, ne_eq] at h
    obtain ⟨h1, h2⟩ := h p hp
    constructor
    · intro hh
      have hm := decodeIn_mem t n p.1 hh
      rcases h2 _ hm with h' | h'
      · exact absurd rfl h'
      · exact h'
    · intro hh
      rw [hh]; exact h1

/-! ### `find_relocations_for_section` -/

/-- a section header the library iterates over is the one the description stands for: a relocation section has the
    gABI's type name and the entry size of its flavour; any other section has some other type -/
def SecDescribes (c : RelCfg) (h : Reloc.SecHdr) (s : RelSecDesc) : Prop :=
  h.name = s.name ∧ h.shOffset = s.offset ∧ h.shSize = s.size ∧ h.shLink = s.link ∧
  match s.rela with
  | some r => h.shType = .str (if r then "SHT_RELA" else "SHT_REL") ∧ h.shEntsize = relEntSize c r
  | none => (h.shType == Val.str "SHT_REL") = false ∧ (h.shType == Val.str "SHT_RELA") = false

/-- header list and description list correspond position by position -/
inductive AllDescribe (c : RelCfg) : List Reloc.SecHdr → List RelSecDesc → Prop
  | nil : AllDescribe c [] []
  | cons {h : Reloc.SecHdr} {s : RelSecDesc} {hs : List Reloc.SecHdr} {ss : List RelSecDesc} :
      SecDescribes c h s → AllDescribe c hs ss → AllDescribe c (h :: hs) (s :: ss)

theorem relocSectionInit_ok (cfg : ElfCfg) (hcls : cfg.cls = 32 ∨ cfg.cls = 64) (rela : Bool) (off size : Nat) :
    relocSectionInit (Spec.elfStructs cfg) (.str (if rela then "SHT_RELA" else "SHT_REL")) off size
        (relEntSize (relCfgOf cfg) rela)
      = .ok (specTable cfg (some off) size rela) := by
  unfold relocSectionInit
  have hr : (Val.str (if rela then "SHT_RELA" else "SHT_REL") == Val.str "SHT_RELA") = rela := by
    cases rela <;> decide
  have hr' : (Val.str (if rela then "SHT_RELA" else "SHT_REL") == Val.str "SHT_REL") = !rela := by
    cases rela <;> decide
  rw [hr, hr', mkTable_spec cfg hcls]
  cases rela <;> simp [bind, Except.bind, specTable, pure, Except.pure]

theorem relocSectionInit_bad (cfg : ElfCfg) (hcls : cfg.cls = 32 ∨ cfg.cls = 64) (rela : Bool)
    (shOffset shSize shEntsize : Nat) (h : shEntsize ≠ relEntSize (relCfgOf cfg) rela) :
    relocSectionInit (Spec.elfStructs cfg) (.str (if rela then "SHT_RELA" else "SHT_REL")) shOffset shSize shEntsize
      = .error .elfError := by
  unfold relocSectionInit
  have hr : (Val.str (if rela then "SHT_RELA" else "SHT_REL") == Val.str "SHT_RELA") = rela := by
    cases rela <;> decide
  rw [hr, mkTable_spec cfg hcls]
  cases rela <;> simp [bind, Except.bind, specTable, h] <;> rfl

theorem findRelocations_spec (cfg : ElfCfg) (hcls : cfg.cls = 32 ∨ cfg.cls = 64) (target : String)
    (hdrs : List Reloc.SecHdr) (descs : List RelSecDesc)
    (hdesc : AllDescribe (relCfgOf cfg) hdrs descs) :
    match relocSectionFor target descs with
    | none => findRelocations (Spec.elfStructs cfg) target hdrs = .ok none
    | some s => ∃ h ∈ hdrs, ∃ r, s ∈ descs ∧ s.rela = some r ∧ SecDescribes (relCfgOf cfg) h s ∧
        findRelocations (Spec.elfStructs cfg) target hdrs
          = .ok (some (h, specTable cfg (some s.offset) s.size r)) := by
  induction hdesc with
  | nil => simp [relocSectionFor, findRelocations]
  | @cons h s hs ss hd _ ih =>
    obtain ⟨hn, ho, hsz, hl, hty⟩ := hd
    unfold relocSectionFor at ih ⊢
    rw [List.find?_cons, findRelocations]
    cases hr : s.rela with
    | none =>
      rw [hr] at hty
      simp only [hty.1, hty.2, Bool.or_false, Bool.false_eq_true, ↓reduceIte, Option.isSome_none, Bool.false_and]
      revert ih
      cases List.find? (fun s => s.rela.isSome && (s.name == ".rel" ++ target || s.name == ".rela" ++ target)) ss with
      | none => exact id
      | some s' =>
        rintro ⟨h', hm, r, hs', hr', hd', he⟩
        exact ⟨h', List.mem_cons_of_mem _ hm, r, List.mem_cons_of_mem _ hs', hr', hd', he⟩
    | some r =>
      rw [hr] at hty
      have hte : (h.shType == Val.str "SHT_REL" || h.shType == Val.str "SHT_RELA") = true := by
        rw [hty.1]; cases r <;> decide
      simp only [hte, ↓reduceIte, Option.isSome_some, Bool.true_and]
      rw [hty.1, ho, hsz, hty.2, relocSectionInit_ok cfg hcls r]
      have hcond : (decide (s.name = ".rel" ++ target) || decide (s.name = ".rela" ++ target))
          = (s.name == ".rel" ++ target || s.name == ".rela" ++ target) := rfl
      simp only [bind, Except.bind, hn, hcond]
      by_cases hm : (s.name == ".rel" ++ target || s.name == ".rela" ++ target) = true
      · have hm' : s.name = ".rel" ++ target ∨ s.name = ".rela" ++ target := by simpa using hm
        simp only [hm, ↓reduceIte]
        exact ⟨h, List.mem_cons_self, r, List.mem_cons_self, hr, ⟨hn, ho, hsz, hl, by rw [hr]; exact hty⟩, rfl⟩
      · have hm' : ¬ (s.name = ".rel" ++ target ∨ s.name = ".rela" ++ target) := by simpa using hm
        have hm2 : (s.name == ".rel" ++ target || s.name == ".rela" ++ target) = false := by simpa using hm
        simp only [hm2, ↓reduceIte, Bool.false_eq_true]
        revert ih
        cases List.find? (fun s => s.rela.isSome && (s.name == ".rel" ++ target || s.name == ".rela" ++ target)) ss with
        | none => exact id
        | some s' =>
          rintro ⟨h', hmm, r', hs', hr', hd', he⟩
          exact ⟨h', List.mem_cons_of_mem _ hmm, r', List.mem_cons_of_mem _ hs', hr', hd', he⟩

/-- a relocation section (whatever its name) whose `sh_entsize` is not the entry size of its flavour, met before any
    match, is the library's ELFError (sections are constructed while iterating) -/
theorem findRelocations_malformed (cfg : ElfCfg) (hcls : cfg.cls = 32 ∨ cfg.cls = 64) (target : String)
    (good : List Reloc.SecHdr) (descs : List RelSecDesc) (bad : Reloc.SecHdr) (rest : List Reloc.SecHdr) (r : Bool)
    (hdesc : AllDescribe (relCfgOf cfg) good descs) (hnone : relocSectionFor target descs = none)
    (hty : bad.shType = .str (if r then "SHT_RELA" else "SHT_REL")) (hent : bad.shEntsize ≠ relEntSize (relCfgOf cfg) r) :
    findRelocations (Spec.elfStructs cfg) target (good ++ bad :: rest) = .error .elfError := by
  induction hdesc with
  | nil =>
    rw [List.nil_append, findRelocations, hty]
    have hte : (Val.str (if r then "SHT_RELA" else "SHT_REL") == Val.str "SHT_REL"
        || Val.str (if r then "SHT_RELA" else "SHT_REL") == Val.str "SHT_RELA") = true := by
      cases r <;> decide
    rw [if_pos hte, relocSectionInit_bad cfg hcls r _ _ _ hent]
    rfl
  | @cons h s hs ss hd _ ih =>
    have hspec := findRelocations_spec cfg hcls target [h] [s] (AllDescribe.cons hd AllDescribe.nil)
    unfold relocSectionFor at hnone hspec
    rw [List.find?_cons] at hnone
    cases hp : (s.rela.isSome && (s.name == ".rel" ++ target || s.name == ".rela" ++ target)) with
    | true => rw [hp] at hnone; cases hnone
    | false =>
      rw [hp] at hnone
      simp only at hnone
      simp only [List.find?_cons, hp, List.find?_nil] at hspec
      rw [List.cons_append, findRelocations]
      rw [findRelocations, findRelocations] at hspec
      split
      · rename_i hc
        simp only [hc, ↓reduceIte] at hspec
        cases hi : relocSectionInit (Spec.elfStructs cfg) h.shType h.shOffset h.shSize h.shEntsize with
        | error e => rw [hi] at hspec; simp [bind, Except.bind] at hspec
        | ok t =>
          rw [hi] at hspec
          simp only [bind, Except.bind] at hspec ⊢
          split
          · rename_i hc2
            simp [hc2, pure, Except.pure] at hspec
          · exact ih hnone
      · exact ih hnone

end PyElf.Proofs.RelocDyn
