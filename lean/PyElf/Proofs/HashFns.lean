/-
  The generated (T3) hash functions compute the standard's 32-bit hashes.
-/
import PyElf.Gen.Pure
import PyElf.Spec.Symbols
namespace PyElf.Proofs
open PyElf PyElf.Spec

/-! ### GNU hash -/

def gnuStepN (h : Nat) (c : UInt8) : Nat := h * 33 + c.toNat

theorem gnu_foldl_int (bs : Bytes) (h : Nat) :
    bs.foldl (fun (st : Int) (b8 : UInt8) => st * (33 : Int) + (b8.toNat : Int)) (h : Int)
      = ((bs.foldl gnuStepN h : Nat) : Int) := by
  induction bs generalizing h with
  | nil => rfl
  | cons b bs ih =>
    simp only [List.foldl_cons]
    have : (h : Int) * 33 + (b.toNat : Int) = ((gnuStepN h b : Nat) : Int) := by
      simp [gnuStepN]
    rw [this, ih]

theorem gnu_foldl_u32 (bs : Bytes) (h : Nat) (u : UInt32) (hu : h % 4294967296 = u.toNat) :
    (bs.foldl gnuStepN h) % 4294967296 = (bs.foldl (fun h c => h * 33 + c.toUInt32) u).toNat := by
  induction bs generalizing h u with
  | nil => simpa using hu
  | cons b bs ih =>
    simp only [List.foldl_cons]
    apply ih
    simp only [gnuStepN, UInt32.toNat_add, UInt32.toNat_mul, UInt8.toNat_toUInt32]
    have : (33 : UInt32).toNat = 33 := rfl
    rw [this]
    have hb := b.toNat_lt
    omega

theorem gnu_hash_eq (bs : Bytes) : Gen.Pure.gnu_hash bs = ((gnuHash32 bs).toNat : Int) := by
  show PyInt.land (bs.foldl (fun (st : Int) (b8 : UInt8) => st * (33 : Int) + (b8.toNat : Int)) ((5381 : Nat) : Int))
      ((4294967295 : Nat) : Int) = _
  rw [gnu_foldl_int]
  show Int.ofNat (_ &&& 4294967295) = _
  have h := gnu_foldl_u32 bs 5381 5381 rfl
  have : (4294967295 : Nat) = 2 ^ 32 - 1 := rfl
  rw [this, Nat.and_two_pow_sub_one_eq_mod]
  simp only [gnuHash32]
  rw [← h]
  rfl

/-! ### System V hash -/

/-- the step of the generated function on naturals -/
def elfStepN (h : Nat) (c : UInt8) : Nat :=
  let h1 := (h * 16 + c.toNat) % 4294967296
  let x := h1 &&& 4026531840
  let h2 := if x ≠ 0 then h1 ^^^ (x >>> 24) else h1
  PyInt.natAndNot h2 x

theorem inv_ofNat (n : Nat) : PyInt.inv (n : Int) = Int.negSucc n := by
  simp only [PyInt.inv, Int.negSucc_eq]; omega

theorem elf_step_int (h : Nat) (x0 : Int) (b : UInt8) :
    (let st : Int × Int := ((h : Int), x0)
     let (h, x) := st
     let c : Int := (b.toNat : Int)
     let h : Int := (PyInt.land ((PyInt.shl h (Int.toNat (4 : Int))) + c) (4294967295 : Int))
     let x : Int := (PyInt.land h (4026531840 : Int))
     let h : Int :=
       if (x != (0 : Int)) then
         let h : Int := (PyInt.xor h (PyInt.shr x (Int.toNat (24 : Int))))
         h
       else
         h
     let h : Int := (PyInt.land h (PyInt.inv x))
     (h, x)).1 = ((elfStepN h b : Nat) : Int) := by
  have e1 : PyInt.shl (h : Int) (Int.toNat (4 : Int)) + (b.toNat : Int) = ((h * 16 + b.toNat : Nat) : Int) := by
    simp [PyInt.shl]
  have e2 : ∀ a : Nat, PyInt.land (a : Int) (4294967295 : Int) = ((a % 4294967296 : Nat) : Int) := by
    intro a
    show Int.ofNat (a &&& 4294967295) = _
    have : (4294967295 : Nat) = 2 ^ 32 - 1 := rfl
    rw [this, Nat.and_two_pow_sub_one_eq_mod]; rfl
  have e3 : ∀ a : Nat, PyInt.land (a : Int) (4026531840 : Int) = ((a &&& 4026531840 : Nat) : Int) := fun _ => rfl
  have e4 : ∀ a : Nat, PyInt.shr (a : Int) (Int.toNat (24 : Int)) = ((a >>> 24 : Nat) : Int) := by
    intro a
    simp only [PyInt.shr, Nat.shiftRight_eq_div_pow]
    exact (Int.natCast_ediv a _).symm
  have e5 : ∀ a c : Nat, PyInt.xor (a : Int) (c : Int) = ((a ^^^ c : Nat) : Int) := fun _ _ => rfl
  have e6 : ∀ a c : Nat, PyInt.land (a : Int) (PyInt.inv (c : Int)) = ((PyInt.natAndNot a c : Nat) : Int) := by
    intro a c; rw [inv_ofNat]; rfl
  simp only [e1, e2, e3]
  by_cases hx : ((h * 16 + b.toNat) % 4294967296 &&& 4026531840) = 0
  · have hz : ((((0 : Nat) : Int)) != 0) = false := by decide
    simp only [hx, hz, Bool.false_eq_true, if_false, elfStepN, ne_eq, not_true_eq_false]
    exact e6 _ 0
  · have hx' : ((((h * 16 + b.toNat) % 4294967296 &&& 4026531840 : Nat) : Int) != 0) = true := by
      simp; exact_mod_cast hx
    simp only [hx', if_true, e4, e5, e6, elfStepN, ne_eq, hx, not_false_eq_true]

theorem natAndNot_eq_and_compl (a g : Nat) (ha : a < 2 ^ 32) (hg : g < 2 ^ 32) :
    PyInt.natAndNot a g = a &&& (4294967295 - g) := by
  apply Nat.eq_of_testBit_eq
  intro i
  have e : 4294967295 - g = 2 ^ 32 - (g + 1) := by omega
  rw [e]
  simp only [PyInt.natAndNot, Nat.testBit_xor, Nat.testBit_and, Nat.testBit_two_pow_sub_succ hg]
  by_cases hi : i < 32
  · simp [hi]; cases a.testBit i <;> cases g.testBit i <;> rfl
  · have : a.testBit i = false := Nat.testBit_lt_two_pow (Nat.lt_of_lt_of_le ha (Nat.pow_le_pow_right (by decide) (by omega)))
    simp [this]

theorem elf_step_u32 (u : UInt32) (c : UInt8) : (elfHashStep u c).toNat = elfStepN u.toNat c := by
  have hu := u.toNat_lt
  have hc := c.toNat_lt
  have h1 : ((u <<< 4) + c.toUInt32).toNat = (u.toNat * 16 + c.toNat) % 4294967296 := by
    simp only [UInt32.toNat_add, UInt32.toNat_shiftLeft, UInt8.toNat_toUInt32, Nat.shiftLeft_eq]
    have : (4 : UInt32).toNat % 32 = 4 := rfl
    rw [this]; omega
  have hm : (4026531840 : UInt32).toNat = 4026531840 := rfl
  have h24 : (24 : UInt32).toNat % 32 = 24 := rfl
  simp only [elfHashStep, elfStepN]
  generalize hA : (u <<< 4) + c.toUInt32 = A at h1 ⊢
  rw [← h1]
  have hAlt := A.toNat_lt
  have hg : (A &&& 4026531840).toNat = A.toNat &&& 4026531840 := by simp [UInt32.toNat_and, hm]
  have hglt : A.toNat &&& 4026531840 < 2 ^ 32 := Nat.lt_of_le_of_lt Nat.and_le_left hAlt
  have hne : (A &&& 4026531840 ≠ 0) ↔ (A.toNat &&& 4026531840 ≠ 0) := by
    rw [← hg]; constructor
    · intro h h'; apply h; exact UInt32.toNat_inj.mp (by simpa using h')
    · intro h h'; apply h; rw [h']; rfl
  by_cases hz : A.toNat &&& 4026531840 = 0
  · have : ¬ (A &&& 4026531840 ≠ 0) := by rw [hne]; simpa using hz
    simp only [this, if_false, hz, ne_eq, not_true_eq_false]
    rw [UInt32.toNat_and, UInt32.toNat_not, hg, hz, natAndNot_eq_and_compl _ _ hAlt (by decide)]
    rfl
  · have : (A &&& 4026531840 ≠ 0) := by rw [hne]; exact hz
    simp only [this, if_true, ne_eq, hz, not_false_eq_true]
    rw [UInt32.toNat_and, UInt32.toNat_not, UInt32.toNat_xor, UInt32.toNat_shiftRight, hg, h24]
    have hx : A.toNat ^^^ (A.toNat &&& 4026531840) >>> 24 < 2 ^ 32 := by
      apply Nat.xor_lt_two_pow hAlt
      exact Nat.lt_of_le_of_lt (Nat.shiftRight_le _ _) hglt
    rw [natAndNot_eq_and_compl _ _ hx hglt]
    rfl

/-- the body of the generated loop, named -/
def elfStepI (st : Int × Int) (b8 : UInt8) : Int × Int :=
  let (h, x) := st
  let c : Int := (b8.toNat : Int)
  let h : Int := (PyInt.land ((PyInt.shl h (Int.toNat (4 : Int))) + c) (4294967295 : Int))
  let x : Int := (PyInt.land h (4026531840 : Int))
  let h : Int :=
    if (x != (0 : Int)) then
      let h : Int := (PyInt.xor h (PyInt.shr x (Int.toNat (24 : Int))))
      h
    else
      h
  let h : Int := (PyInt.land h (PyInt.inv x))
  (h, x)

theorem elf_hash_unfold (bs : Bytes) : Gen.Pure.elf_hash bs = (bs.foldl elfStepI (0, 0)).1 := rfl

theorem elf_foldl_int (bs : Bytes) (h : Nat) (st : Int × Int) (hst : st.1 = (h : Int)) :
    (bs.foldl elfStepI st).1 = ((bs.foldl elfStepN h : Nat) : Int) := by
  induction bs generalizing h st with
  | nil => exact hst
  | cons b bs ih =>
    rw [List.foldl_cons, List.foldl_cons]
    apply ih
    obtain ⟨h0, x0⟩ := st
    simp only at hst
    subst hst
    exact elf_step_int h x0 b

theorem elf_foldl_u32 (bs : Bytes) (u : UInt32) :
    bs.foldl elfStepN u.toNat = (bs.foldl elfHashStep u).toNat := by
  induction bs generalizing u with
  | nil => rfl
  | cons b bs ih =>
    simp only [List.foldl_cons]
    rw [← elf_step_u32, ih]

/-- the generated `elf_hash` (of the FIXED code) is the gABI hash in 32-bit arithmetic -/
theorem elf_hash_eq (bs : Bytes) : Gen.Pure.elf_hash bs = ((elfHash32 bs).toNat : Int) := by
  have h := elf_foldl_int bs 0 (0, 0) rfl
  have h2 := elf_foldl_u32 bs 0
  rw [elf_hash_unfold, h]
  simp only [elfHash32]
  rw [← h2]
  rfl

end PyElf.Proofs
